import Ivg.Arith
import Ivg.Model.Color
/-!
# Model of `render/gradient.go` (number-generic in the float64 type `β`)
-/
namespace Ivg.Grad
open Ivg

/-- color.RGBA64 -/
structure RGBA64 where
  r : Nat
  g : Nat
  b : Nat
  a : Nat
deriving DecidableEq, Repr, Inhabited

structure Stop (β : Type) where
  offset : β
  color : RGBA64
deriving Repr, Inhabited

/-- gradient.go:95 Range (only the fields `At` uses; the colour ends are kept as integers, Go stores
    them as float64 of those integers) -/
structure Range (β : Type) where
  offset0 : β
  offset1 : β
  width : β
  c0 : RGBA64
  c1 : RGBA64
deriving Repr, Inhabited

structure Aff3 (β : Type) where
  a : β
  b : β
  c : β
  d : β
  e : β
  f : β
deriving Repr, Inhabited

/-- gradient.go:150 Gradient -/
structure Gradient (β : Type) where
  shape : UInt8       -- 0 linear, 1 radial
  spread : UInt8      -- 0 none, 1 pad, 2 reflect, 3 repeat
  pix2Grad : Aff3 β
  ranges : List (Range β)
  first : RGBA64
  last : RGBA64
deriving Repr, Inhabited

variable {α β : Type} [Arith α] [Arith β] [Wide α β]

/-- gradient.go:110 MakeRange -/
def makeRange (s0 s1 : Stop β) : Range β :=
  ⟨s0.offset, s1.offset, s1.offset - s0.offset, s0.color, s1.color⟩

/-- gradient.go:128 AppendRanges on an empty `a` (the only way Init calls it) -/
def appendRanges : List (Stop β) → List (Range β)
  | s0 :: s1 :: rest => makeRange s0 s1 :: appendRanges (s1 :: rest)
  | _ => []

/-- gradient.go:176 Init; returns the gradient and `len(g.Ranges) > 0` -/
def Gradient.init (shape spread : UInt8) (pix2Grad : Aff3 β) (stops : List (Stop β)) : Gradient β × Bool :=
  let ranges := appendRanges stops
  let first := match stops.head? with | some s => s.color | none => ⟨0, 0, 0, 0⟩
  let last := match stops.getLast? with | some s => s.color | none => ⟨0, 0, 0, 0⟩
  (⟨shape, spread, pix2Grad, ranges, first, last⟩, !ranges.isEmpty)

def zeroB : β := Arith.ofInt 0
def oneB : β := Arith.ofInt 1

/-- gradient.go:55 Spread.Clamp (with the odd-integer reflect repair); `-1` for "none, outside" -/
def clamp (spread : UInt8) (x : β) : β :=
  if zeroB ≤ x then
    if x ≤ oneB then x
    else if spread = 1 then oneB
    else if spread = 2 then
      if Wide.trunc (α := α) x % 2 = 0 then x - Wide.floor (α := α) x
      else Wide.floor (α := α) x + oneB - x
    else if spread = 3 then x - Wide.floor (α := α) x
    else Arith.ofInt (-1)
  else
    if spread = 1 then zeroB
    else if spread = 2 then
      let x := -x
      if Wide.trunc (α := α) x % 2 = 0 then x - Wide.floor (α := α) x
      else Wide.floor (α := α) x + oneB - x
    else if spread = 3 then x - Wide.floor (α := α) x
    else Arith.ofInt (-1)

/-- Go `uint16(x)` of a float64 -/
def toU16 (x : β) : Nat := (Wide.trunc (α := α) x % 65536).toNat

def lerpChan (s t : β) (c0 c1 : Nat) : Nat :=
  toU16 (α := α) (s * Arith.ofInt c0 + t * Arith.ofInt c1)

def findRange (offset : β) : List (Range β) → Option (Range β)
  | [] => none
  | r :: rs => if r.offset0 ≤ offset ∧ offset ≤ r.offset1 then some r else findRange offset rs

/-- gradient.go:202 At -/
def Gradient.at (g : Gradient β) (x y : Int) : RGBA64 :=
  match g.ranges with
  | [] => ⟨0, 0, 0, 0⟩
  | r0 :: _ =>
    let px : β := Arith.ofInt x + Wide.half (α := α)
    let py : β := Arith.ofInt y + Wide.half (α := α)
    let m := g.pix2Grad
    let offset : β :=
      if g.shape = 0 then clamp (α := α) g.spread (m.a * px + m.b * py + m.c)
      else
        let gx := m.a * px + m.b * py + m.c
        let gy := m.d * px + m.e * py + m.f
        clamp (α := α) g.spread (Wide.sqrt (α := α) (gx * gx + gy * gy))
    if ¬ (zeroB ≤ offset) then ⟨0, 0, 0, 0⟩
    else if offset < r0.offset0 then g.first
    else
      match findRange offset g.ranges with
      | some r =>
        let t := (offset - r.offset0) / r.width
        let s := oneB - t
        ⟨lerpChan (α := α) s t r.c0.r r.c1.r, lerpChan (α := α) s t r.c0.g r.c1.g,
         lerpChan (α := α) s t r.c0.b r.c1.b, lerpChan (α := α) s t r.c0.a r.c1.a⟩
      | none => g.last

/-- gradient.go:258 StopOffsets -/
def Gradient.stopOffsets (g : Gradient β) : List β :=
  match g.ranges with
  | [] => []
  | rs => rs.map (·.offset0) ++ [match rs.getLast? with | some r => r.offset1 | none => zeroB]

/-- gradient.go:271 StopColors (8-bit) -/
def Gradient.stopColors (g : Gradient β) : List RGBA :=
  match g.ranges with
  | [] => []
  | rs =>
    let c8 (c : RGBA64) : RGBA := ⟨UInt8.ofNat (c.r / 256), UInt8.ofNat (c.g / 256), UInt8.ofNat (c.b / 256), UInt8.ofNat (c.a / 256)⟩
    rs.map (fun r => c8 r.c0) ++ [c8 g.last]

end Ivg.Grad
