import Ivg.Model.Renderer
import Ivg.Model.GoMath
/-!
# Model of `Renderer.AbsArcTo` (render/render.go:406–578) at (float32, float64)
Mirrors the Go statement by statement; `math.Sin/Cos/Acos` are the ports in `GoMath`, `math.Sqrt`,
`math.Abs`, `math.Ceil` are IEEE-exact.
-/
namespace Ivg.Ren
open Ivg Num GoMath

abbrev f (i : Int) : F64 := F64.ofInt i
def twoPi : F64 := f 2 * GoMath.pi

/-- the `angle` closure of AbsArcTo -/
def arcAngle (ux uy vx vy : F64) : F64 :=
  let uNorm := (ux * ux + uy * uy).sqrt
  let vNorm := (vx * vx + vy * vy).sqrt
  let norm := uNorm * vNorm
  let cos := (ux * vx + uy * vy) / norm
  let ret : F64 :=
    if cos ≤ f (-1) then GoMath.pi
    else if f 1 ≤ cos then f 0
    else GoMath.acos cos
  if ux * vy < uy * vx then -ret else ret

/-- float64 constant `math.Pi/2 + 0.001` (an exact constant expression rounded once) -/
def segAngle : F64 := ⟨0x3ff92613e7b8e983⟩

/-- the `arcSegmentTo` closure -/
def arcSegment (z : Renderer F32 F64) (cx cy theta1 theta2 rx ry cosPhi sinPhi : F64) : RasterOp F32 F64 :=
  let half : F64 := ⟨0x3fe0000000000000⟩
  let halfDeltaTheta := (theta2 - theta1) * half
  let q := GoMath.sin (halfDeltaTheta * half)
  let t := (f 8 * q * q) / (f 3 * GoMath.sin halfDeltaTheta)
  let cos1 := GoMath.cos theta1
  let sin1 := GoMath.sin theta1
  let cos2 := GoMath.cos theta2
  let sin2 := GoMath.sin theta2
  let x1 := rx * (cos1 - t * sin1)
  let y1 := ry * (sin1 + t * cos1)
  let x2 := rx * (cos2 + t * sin2)
  let y2 := ry * (sin2 - t * cos2)
  let x3 := rx * cos2
  let y3 := ry * sin2
  .cubeTo
    (z.absX (cx + cosPhi * x1 - sinPhi * y1).toF32)
    (z.absY (cy + sinPhi * x1 + cosPhi * y1).toF32)
    (z.absX (cx + cosPhi * x2 - sinPhi * y2).toF32)
    (z.absY (cy + sinPhi * x2 + cosPhi * y2).toF32)
    (z.absX (cx + cosPhi * x3 - sinPhi * y3).toF32)
    (z.absY (cy + sinPhi * x3 + cosPhi * y3).toF32)

def arcSegments (z : Renderer F32 F64) (cx cy theta1 deltaTheta rx ry cosPhi sinPhi : F64) (n : Int) :
    Nat → Int → List (RasterOp F32 F64)
  | 0, _ => []
  | fuel + 1, i =>
    if i < n then
      arcSegment z cx cy
        (theta1 + deltaTheta * f i / f n)
        (theta1 + deltaTheta * f (i + 1) / f n) rx ry cosPhi sinPhi
        :: arcSegments z cx cy theta1 deltaTheta rx ry cosPhi sinPhi n fuel (i + 1)
    else []

/-- render.go:406 AbsArcTo after the `disabled` test -/
def arcF32 : ArcFn F32 F64 := fun z rx ry rot largeArc sweep x y =>
  let Rx := (F64.ofF32 rx).abs
  let Ry := (F64.ofF32 ry).abs
  if ¬ (f 0 < Rx ∧ f 0 < Ry) then [.lineTo (z.absX x) (z.absY y)] else
  let x1 := F64.ofF32 (z.unabsX z.penX)
  let y1 := F64.ofF32 (z.unabsY z.penY)
  let x2 := F64.ofF32 x
  let y2 := F64.ofF32 y
  let phi := twoPi * F64.ofF32 rot
  let halfDx := (x1 - x2) / f 2
  let halfDy := (y1 - y2) / f 2
  let cosPhi := GoMath.cos phi
  let sinPhi := GoMath.sin phi
  let x1Prime := cosPhi * halfDx + sinPhi * halfDy
  let y1Prime := -sinPhi * halfDx + cosPhi * halfDy
  let rxSq := Rx * Rx
  let rySq := Ry * Ry
  let x1PrimeSq := x1Prime * x1Prime
  let y1PrimeSq := y1Prime * y1Prime
  let radiiCheck := x1PrimeSq / rxSq + y1PrimeSq / rySq
  let (Rx, Ry, rxSq, rySq) :=
    if f 1 < radiiCheck then
      let c := radiiCheck.sqrt
      let Rx := Rx * c
      let Ry := Ry * c
      (Rx, Ry, Rx * Rx, Ry * Ry)
    else (Rx, Ry, rxSq, rySq)
  let denom := rxSq * y1PrimeSq + rySq * x1PrimeSq
  let a := rxSq * rySq / denom - f 1
  let step2 : F64 := if f 0 < a then a.sqrt else f 0
  let step2 := if largeArc == sweep then -step2 else step2
  let cxPrime := step2 * Rx * y1Prime / Ry
  let cyPrime := -step2 * Ry * x1Prime / Rx
  let cx := cosPhi * cxPrime - sinPhi * cyPrime + (x1 + x2) / f 2
  let cy := sinPhi * cxPrime + cosPhi * cyPrime + (y1 + y2) / f 2
  let ax := (x1Prime - cxPrime) / Rx
  let ay := (y1Prime - cyPrime) / Ry
  let bx := (-x1Prime - cxPrime) / Rx
  let by_ := (-y1Prime - cyPrime) / Ry
  let theta1 := arcAngle (f 1) (f 0) ax ay
  let deltaTheta := arcAngle ax ay bx by_
  let deltaTheta :=
    if sweep then (if deltaTheta < f 0 then deltaTheta + twoPi else deltaTheta)
    else (if f 0 < deltaTheta then deltaTheta - twoPi else deltaTheta)
  let n := (deltaTheta.abs / segAngle).ceil.toInt64
  -- n ≤ 4 for finite input (|Δθ| ≤ 2π); the fuel only makes the recursion structural
  arcSegments z cx cy theta1 deltaTheta Rx Ry cosPhi sinPhi n 8 0

end Ivg.Ren
