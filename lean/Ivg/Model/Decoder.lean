import Ivg.Model.DecBuffer
import Ivg.Model.Encoder
/-!
# Model of `decode/decode.go`

As in Go there is ONE traversal (`decode`) serving `Decode`, `DecodeViewBox` and `Disassemble`:
it yields a list of `Item`s, each either a disassembly line (what the printer `p` receives) or a
delivered Destination call (what `dst` receives), in program order, plus the error if one occurred.
`Decode` keeps the calls, `Disassemble` the lines.
-/
namespace Ivg.Dec
open Ivg Num

inductive DecErr
  | inconsistentMetadataChunkLength | invalidColor | invalidMagicIdentifier
  | invalidMetadataChunkLength | invalidMetadataIdentifier | metadataIdentifierOrder
  | invalidNumber | invalidNumberOfMetadataChunks | invalidSuggestedPalette | invalidViewBox
  | unsupportedDrawingOpcode | unsupportedMetadataIdentifier | unsupportedStylingOpcode
deriving DecidableEq, Repr, Inhabited

def DecErr.message : DecErr → String
  | .inconsistentMetadataChunkLength => "iconvg: inconsistent metadata chunk length"
  | .invalidColor => "iconvg: invalid color"
  | .invalidMagicIdentifier => "iconvg: invalid magic identifier"
  | .invalidMetadataChunkLength => "iconvg: invalid metadata chunk length"
  | .invalidMetadataIdentifier => "iconvg: invalid metadata identifier"
  | .metadataIdentifierOrder => "iconvg: metadata identifiers not in increasing order"
  | .invalidNumber => "iconvg: invalid number"
  | .invalidNumberOfMetadataChunks => "iconvg: invalid number of metadata chunks"
  | .invalidSuggestedPalette => "iconvg: invalid suggested palette"
  | .invalidViewBox => "iconvg: invalid view box"
  | .unsupportedDrawingOpcode => "iconvg: unsupported drawing opcode"
  | .unsupportedMetadataIdentifier => "iconvg: unsupported metadata identifier"
  | .unsupportedStylingOpcode => "iconvg: unsupported styling opcode"

/-- the operation named on a drawing-opcode line -/
inductive RepOp | L | l | T | t | Q | q | S | s | C | c | A | a
deriving DecidableEq, Repr, Inhabited

/-- structured content of one disassembly line (text rendering is in the driver) -/
inductive LineKind
  | magic
  | nChunks (n : Nat)
  | chunkLen (n : Nat)
  | mid (m : Nat)
  | palHeader (count : Nat) (bytesPerColor : Nat)
  | palColor (c : RGBA)
  | number (f : F32)                 -- "    %+g"
  | nregNumber (f : F32)             -- "    %g"
  | setCSel (v : UInt8)
  | setNSel (v : UInt8)
  | setCReg (adj : UInt8) (incr : Bool) (nBytes : Nat) (directness : Nat)
  | color (c : Color)
  | setNReg (adj : UInt8) (incr : Bool) (typ : Nat)
  | startPath (adj : UInt8)
  | setLOD
  | drawHdr (op : RepOp) (nReps : Nat)
  | implicit (op : RepOp)
  | angle (f : F32)
  | arcFlags (x : Nat)
  | closeEnd | closeAbs | closeRel | absH | relH | absV | relV
deriving DecidableEq, Repr, Inhabited

structure Line where
  bytes : Bytes
  kind : LineKind
deriving DecidableEq, Repr, Inhabited

inductive Item
  | line (l : Line)
  | call (c : Call F32)
deriving Repr, Inhabited

inductive DMode | styling | drawing
deriving DecidableEq, Repr, Inhabited

/-- the bytes consumed between `src` and its suffix `rest` -/
def consumed (src rest : Bytes) : Bytes := src.take (src.length - rest.length)

/-- decode.go:564 decodeNumber with a coordinate/real decoder: line + value -/
def decodeNumber (dnf : Bytes → Option (F32 × Bytes)) (src : Bytes) : Option (Item × F32 × Bytes) :=
  match dnf src with
  | none => none
  | some (x, rest) => some (.line ⟨consumed src rest, .number x⟩, x, rest)

/-- decode.go:575 decodeCoordinates -/
def decodeCoordinates : Nat → Bytes → List Item × Option (List F32 × Bytes)
  | 0, src => ([], some ([], src))
  | n + 1, src =>
    match decodeNumber decodeCoordinate src with
    | none => ([], none)
    | some (it, x, rest) =>
      match decodeCoordinates n rest with
      | (its, none) => (it :: its, none)
      | (its, some (xs, rest')) => (it :: its, some (x :: xs, rest'))

def isNaNOrInfinity (f : F32) : Bool := f.bits.toNat / 0x800000 % 256 == 255

structure Metadata where
  viewBox : ViewBox F32 := defaultViewBox
  palette : Palette := defaultPalette
deriving Repr, Inhabited

/-- the palette-colour loop of decodeMetadataChunk -/
def decodePaletteColors (dec : Bytes → Option (Color × Bytes)) :
    Nat → Nat → Palette → Bytes → Option (List Item × Palette × Bytes)
  | 0, _, pal, src => some ([], pal, src)
  | n + 1, i, pal, src =>
    match dec src with
    | none => none
    | some (c, rest) =>
      let rgba := c.toRGBA.1
      match decodePaletteColors dec n (i + 1) (pal.set6 (UInt8.ofNat i) rgba) rest with
      | none => none
      | some (its, pal', rest') => some (.line ⟨consumed src rest, .palColor rgba⟩ :: its, pal', rest')

/-- decode.go:145 decodeMetadataChunk.  `minMID` is the smallest identifier still allowed. -/
def decodeMetadataChunk (m : Metadata) (minMID : Nat) (src : Bytes) :
    List Item × Except DecErr (Metadata × Nat × Bytes) :=
  match decodeNatural src with
  | none => ([], .error .invalidMetadataChunkLength)
  | some (length, _, src1) =>
    let l0 : Item := .line ⟨consumed src src1, .chunkLen length⟩
    let lenSrcWant : Int := (src1.length : Int) - (length : Int)
    match decodeNatural src1 with
    | none => ([l0], .error .invalidMetadataIdentifier)
    | some (mid, _, src2) =>
      if mid ≥ 2 then ([l0], .error .unsupportedMetadataIdentifier) else
      if mid < minMID then ([l0], .error .metadataIdentifierOrder) else
      let l1 : Item := .line ⟨consumed src1 src2, .mid mid⟩
      if mid = 0 then
        match decodeCoordinates 4 src2 with
        | (its, some ([a, b, c, d], src3)) =>
          let vb : ViewBox F32 := ⟨a, b, c, d⟩
          if c < a ∨ d < b ∨ isNaNOrInfinity a ∨ isNaNOrInfinity b ∨ isNaNOrInfinity c ∨ isNaNOrInfinity d then
            (l0 :: l1 :: its, .error .invalidViewBox)
          else if (src3.length : Int) ≠ lenSrcWant then
            (l0 :: l1 :: its, .error .inconsistentMetadataChunkLength)
          else (l0 :: l1 :: its, .ok ({ m with viewBox := vb }, mid + 1, src3))
        | (its, _) => (l0 :: l1 :: its, .error .invalidViewBox)
      else
        match src2 with
        | [] => ([l0, l1], .error .invalidSuggestedPalette)
        | h :: src3 =>
          let count := 1 + (h &&& 0x3f).toNat
          let format := (h >>> 6).toNat
          let dec := match format with
            | 0 => decodeColor1 | 1 => decodeColor2 | 2 => decodeColor3Direct | _ => decodeColor4
          let l2 : Item := .line ⟨[h], .palHeader count (1 + format)⟩
          match decodePaletteColors dec count 0 m.palette src3 with
          | none => ([l0, l1, l2], .error .invalidSuggestedPalette)
          | some (its, pal, src4) =>
            if (src4.length : Int) ≠ lenSrcWant then
              (l0 :: l1 :: l2 :: its, .error .inconsistentMetadataChunkLength)
            else (l0 :: l1 :: l2 :: its, .ok ({ m with palette := pal }, mid + 1, src4))

/-- the chunk loop of decode.go:119; `n` is the declared chunk count, `fuel` bounds it by the input length -/
def decodeChunks : Nat → Nat → Metadata → Nat → Bytes → List Item × Except DecErr (Metadata × Bytes)
  | _, 0, m, _, src => ([], .ok (m, src))
  | 0, _ + 1, _, _, _ => ([], .error .invalidMetadataChunkLength)   -- unreachable with fuel ≥ 3
  | fuel + 1, n + 1, m, minMID, src =>
    match decodeMetadataChunk m minMID src with
    | (its, .error e) => (its, .error e)
    | (its, .ok (m', minMID', rest)) =>
      match decodeChunks fuel n m' minMID' rest with
      | (its', r) => (its ++ its', r)

inductive DecodeOption
  | withPalette (p : Palette)
  | withColorAt (index : Nat) (c : RGBA)   -- the colour after `color.RGBAModel.Convert`
deriving Repr, Inhabited

def applyOption (m : Metadata) : DecodeOption → Metadata
  | .withPalette p => { m with palette := p }
  | .withColorAt i c => if i < 64 then { m with palette := m.palette.set6 (UInt8.ofNat i) c } else m

def sanitizePalette (p : Palette) : Palette :=
  p.map fun c => if c.validPremul then c else RGBA.black

def applyOptions (m : Metadata) (opts : List DecodeOption) : Metadata :=
  let m := opts.foldl applyOption m
  if opts.isEmpty then m else { m with palette := sanitizePalette m.palette }

/-- decode.go:246 decodeStyling and the functions it dispatches to (one instruction) -/
def decodeStyling (src : Bytes) : List Item × Except DecErr (DMode × Bytes) :=
  match src with
  | [] => ([], .error .unsupportedStylingOpcode)   -- not reached: the loop tests len(src) > 0
  | opcode :: rest =>
    if opcode < 0x80 then
      if opcode < 0x40 then
        let v := opcode &&& 0x3f
        ([.line ⟨[opcode], .setCSel v⟩, .call (.setCSel v)], .ok (.styling, rest))
      else
        let v := opcode &&& 0x3f
        ([.line ⟨[opcode], .setNSel v⟩, .call (.setNSel v)], .ok (.styling, rest))
    else if opcode < 0xa8 then
      -- decodeSetCReg
      let adj0 := opcode &&& 0x07
      let incr := adj0 == 7
      let adj := if incr then 0 else adj0
      let sel := ((opcode - 0x80) >>> 3).toNat
      let (nBytes, directness, dec) : Nat × Nat × (Bytes → Option (Color × Bytes)) :=
        match sel with
        | 0 => (1, 0, decodeColor1)
        | 1 => (2, 0, decodeColor2)
        | 2 => (3, 1, decodeColor3Direct)
        | 3 => (4, 0, decodeColor4)
        | _ => (3, 2, decodeColor3Indirect)
      let l0 : Item := .line ⟨[opcode], .setCReg adj incr nBytes directness⟩
      match dec rest with
      | none => ([l0], .error .invalidColor)
      | some (c, rest') =>
        ([l0, .line ⟨consumed rest rest', .color c⟩, .call (.setCReg adj incr c)], .ok (.styling, rest'))
    else if opcode < 0xc0 then
      -- decodeSetNReg
      let adj0 := opcode &&& 0x07
      let incr := adj0 == 7
      let adj := if incr then 0 else adj0
      let sel := ((opcode - 0xa8) >>> 3).toNat
      let (typ, dec) : Nat × (Bytes → Option (F32 × Bytes)) :=
        match sel with
        | 0 => (0, decodeReal)
        | 1 => (1, decodeCoordinate)
        | _ => (2, decodeZeroToOne)
      let l0 : Item := .line ⟨[opcode], .setNReg adj incr typ⟩
      match dec rest with
      | none => ([l0], .error .invalidNumber)
      | some (f, rest') =>
        ([l0, .line ⟨consumed rest rest', .nregNumber f⟩, .call (.setNReg adj incr f)], .ok (.styling, rest'))
    else if opcode < 0xc7 then
      -- decodeStartPath
      let adj := opcode &&& 0x07
      let l0 : Item := .line ⟨[opcode], .startPath adj⟩
      match decodeNumber decodeCoordinate rest with
      | none => ([l0], .error .invalidNumber)
      | some (lx, x, rest1) =>
        match decodeNumber decodeCoordinate rest1 with
        | none => ([l0, lx], .error .invalidNumber)
        | some (ly, y, rest2) =>
          ([l0, lx, ly, .call (.startPath adj x y)], .ok (.drawing, rest2))
    else if opcode = 0xc7 then
      -- decodeSetLOD
      let l0 : Item := .line ⟨[opcode], .setLOD⟩
      match decodeNumber decodeReal rest with
      | none => ([l0], .error .invalidNumber)
      | some (la, a, rest1) =>
        match decodeNumber decodeReal rest1 with
        | none => ([l0, la], .error .invalidNumber)
        | some (lb, b, rest2) =>
          ([l0, la, lb, .call (.setLOD a b)], .ok (.styling, rest2))
    else ([], .error .unsupportedStylingOpcode)

/-- number of coordinate operands per repetition (0 for arcs, which have mixed operands) -/
def RepOp.nCoords : RepOp → Nat
  | .L | .l | .T | .t => 2
  | .Q | .q | .S | .s => 4
  | .C | .c => 6
  | .A | .a => 0

def RepOp.mkCall (op : RepOp) (cs : List F32) : Option (Call F32) :=
  match op, cs with
  | .L, [x, y] => some (.d2 .L x y)
  | .l, [x, y] => some (.d2 .l x y)
  | .T, [x, y] => some (.d2 .T x y)
  | .t, [x, y] => some (.d2 .t x y)
  | .Q, [x1, y1, x, y] => some (.d4 .Q x1 y1 x y)
  | .q, [x1, y1, x, y] => some (.d4 .q x1 y1 x y)
  | .S, [x1, y1, x, y] => some (.d4 .S x1 y1 x y)
  | .s, [x1, y1, x, y] => some (.d4 .s x1 y1 x y)
  | .C, [x1, y1, x2, y2, x, y] => some (.d6 .C x1 y1 x2 y2 x y)
  | .c, [x1, y1, x2, y2, x, y] => some (.d6 .c x1 y1 x2 y2 x y)
  | _, _ => none

/-- decode.go:583 decodeAngle / :594 decodeArcToFlags and the arc branch of the repeat loop -/
def decodeArcRep (rel : Bool) (src : Bytes) : List Item × Option (Call F32 × Bytes) :=
  match decodeCoordinates 2 src with
  | (its1, some ([rx, ry], src1)) =>
    match decodeZeroToOne src1 with
    | none => (its1, none)
    | some (rot, src2) =>
      let la : Item := .line ⟨consumed src1 src2, .angle rot⟩
      match decodeNatural src2 with
      | none => (its1 ++ [la], none)
      | some (fl, _, src3) =>
        let lf : Item := .line ⟨consumed src2 src3, .arcFlags fl⟩
        match decodeCoordinates 2 src3 with
        | (its2, some ([x, y], src4)) =>
          (its1 ++ [la, lf] ++ its2,
            some (.arc rel rx ry rot (fl % 2 != 0) (fl / 2 % 2 != 0) x y, src4))
        | (its2, _) => (its1 ++ [la, lf] ++ its2, none)
  | (its1, _) => (its1, none)

/-- one repetition -/
def decodeRep (op : RepOp) (src : Bytes) : List Item × Option (Call F32 × Bytes) :=
  match op with
  | .A => decodeArcRep false src
  | .a => decodeArcRep true src
  | _ =>
    match decodeCoordinates op.nCoords src with
    | (its, none) => (its, none)
    | (its, some (cs, rest)) =>
      match op.mkCall cs with
      | none => (its, none)      -- unreachable: nCoords matches mkCall
      | some c => (its, some (c, rest))

/-- the repeat loop of decode.go:398 -/
def decodeReps (op : RepOp) : Nat → Bool → Bytes → List Item × Except DecErr Bytes
  | 0, _, src => ([], .ok src)
  | n + 1, first, src =>
    let pre : List Item := if first then [] else [.line ⟨[], .implicit op⟩]
    match decodeRep op src with
    | (its, none) => (pre ++ its, .error .invalidNumber)
    | (its, some (c, rest)) =>
      match decodeReps op n false rest with
      | (its', r) => (pre ++ its ++ [.call c] ++ its', r)

def repOpOf (hi : Nat) : RepOp :=
  match hi with
  | 0 | 1 => .L | 2 | 3 => .l | 4 => .T | 5 => .t | 6 => .Q | 7 => .q
  | 8 => .S | 9 => .s | 10 => .C | 11 => .c | 12 => .A | _ => .a

def single1 (opcode : UInt8) (kind : LineKind) (mk : F32 → Call F32) (rest : Bytes) :
    List Item × Except DecErr (DMode × Bytes) :=
  let l0 : Item := .line ⟨[opcode], kind⟩
  match decodeCoordinates 1 rest with
  | (its, some ([x], rest')) => (l0 :: its ++ [.call (mk x)], .ok (.drawing, rest'))
  | (its, _) => (l0 :: its, .error .invalidNumber)

def single2 (opcode : UInt8) (kind : LineKind) (mk : F32 → F32 → Call F32) (rest : Bytes) :
    List Item × Except DecErr (DMode × Bytes) :=
  let l0 : Item := .line ⟨[opcode], kind⟩
  match decodeCoordinates 2 rest with
  | (its, some ([x, y], rest')) => (l0 :: its ++ [.call (mk x y)], .ok (.drawing, rest'))
  | (its, _) => (l0 :: its, .error .invalidNumber)

/-- decode.go:378 decodeDrawing (one instruction with all its repetitions) -/
def decodeDrawing (src : Bytes) : List Item × Except DecErr (DMode × Bytes) :=
  match src with
  | [] => ([], .error .unsupportedDrawingOpcode)
  | opcode :: rest =>
    if opcode < 0xe0 then
      let hi := (opcode >>> 4).toNat
      let op := repOpOf hi
      let nReps := if hi < 4 then 1 + (opcode &&& 0x1f).toNat else 1 + (opcode &&& 0x0f).toNat
      let l0 : Item := .line ⟨[opcode], .drawHdr op nReps⟩
      match decodeReps op nReps true rest with
      | (its, .error e) => (l0 :: its, .error e)
      | (its, .ok rest') => (l0 :: its, .ok (.drawing, rest'))
    else if opcode = 0xe1 then
      ([.line ⟨[opcode], .closeEnd⟩, .call .closeEnd], .ok (.styling, rest))
    else if opcode = 0xe2 then single2 opcode .closeAbs (fun x y => .d2 .Y x y) rest
    else if opcode = 0xe3 then single2 opcode .closeRel (fun x y => .d2 .y x y) rest
    else if opcode = 0xe6 then single1 opcode .absH (fun x => .d1 .H x) rest
    else if opcode = 0xe7 then single1 opcode .relH (fun x => .d1 .h x) rest
    else if opcode = 0xe8 then single1 opcode .absV (fun x => .d1 .V x) rest
    else if opcode = 0xe9 then single1 opcode .relV (fun x => .d1 .v x) rest
    else ([], .error .unsupportedDrawingOpcode)

def stepDec : DMode → Bytes → List Item × Except DecErr (DMode × Bytes)
  | .styling, src => decodeStyling src
  | .drawing, src => decodeDrawing src

/-- the main loop of decode.go:136, with fuel -/
def loop : Nat → DMode → Bytes → List Item × Option DecErr
  | 0, _, _ => ([], none)
  | _ + 1, _, [] => ([], none)
  | fuel + 1, m, src =>
    match stepDec m src with
    | (its, .error e) => (its, some e)
    | (its, .ok (m', rest)) =>
      match loop fuel m' rest with
      | (its', r) => (its ++ its', r)

structure Result where
  items : List Item
  err : Option DecErr
deriving Repr, Inhabited

/-- decode.go:99 decode -/
def decodeCore (metadataOnly : Bool) (m0 : Metadata) (opts : List DecodeOption) (src : Bytes) :
    Result × Metadata :=
  if src.take 4 ≠ Enc.magic then (⟨[], some .invalidMagicIdentifier⟩, m0) else
  let l0 : Item := .line ⟨Enc.magic, .magic⟩
  let src1 := src.drop 4
  match decodeNatural src1 with
  | none => (⟨[l0], some .invalidNumberOfMetadataChunks⟩, m0)
  | some (nChunks, _, src2) =>
    let l1 : Item := .line ⟨consumed src1 src2, .nChunks nChunks⟩
    match decodeChunks (src2.length + 1) nChunks m0 0 src2 with
    | (its, .error e) => (⟨l0 :: l1 :: its, some e⟩, m0)
    | (its, .ok (m, src3)) =>
      let m := applyOptions m opts
      if metadataOnly then (⟨l0 :: l1 :: its, none⟩, m) else
      let (its', e) := loop (src3.length + 1) .styling src3
      (⟨l0 :: l1 :: its ++ [.call (.reset m.viewBox m.palette)] ++ its', e⟩, m)

def callsOf : List Item → List (Call F32)
  | [] => []
  | .call c :: r => c :: callsOf r
  | .line _ :: r => callsOf r

def linesOf : List Item → List Line
  | [] => []
  | .line l :: r => l :: linesOf r
  | .call _ :: r => linesOf r

/-- decode.Decode into a recording destination -/
def decode (opts : List DecodeOption) (src : Bytes) : List (Call F32) × Option DecErr :=
  let (r, _) := decodeCore false {} opts src
  (callsOf r.items, r.err)

/-- decode.DecodeViewBox -/
def decodeViewBox (src : Bytes) : ViewBox F32 × Option DecErr :=
  let (r, m) := decodeCore true {} [] src
  (m.viewBox, r.err)

/-- decode.Disassemble (lines only on success) -/
def disassemble (src : Bytes) : Except DecErr (List Line) :=
  let (r, _) := decodeCore false {} [] src
  match r.err with
  | some e => .error e
  | none => .ok (linesOf r.items)

end Ivg.Dec
