import Ivg.Model.Renderer
/-!
# Model: `raster/vec.Rasterizer`, the repository's adapter around the library rasteriser (`golang.org/x/image/vector`)

The adapter owns three things: the library rasteriser it embeds, the destination image `Dst` (a handle: the model never
looks inside an image) and the ONE-SHOT compositing operator `DrawOp`.  Its only method of its own is `Draw`
(raster/vec/rasterizer.go): copy the operator into the library rasteriser, let the library composite `src` (aligned at
`sp`) over rectangle `r` of `Dst`, and fall back to source-over.  Everything else (`Reset`, `MoveTo`, … `Size`) is
promoted from the embedded library type and never touches these three.

What the library is asked to do is recorded as a list of `InnerCall`s; handles (any type `H`) stand for images.
-/
namespace Ivg.Vec
open Ivg.Ren (Rect)

/-- `image/draw.Op`: `Over` = 0, `Src` = 1 (an `int` in Go) -/
abbrev Op := Int
def over : Op := 0

/-- what the adapter asks of the library rasteriser it wraps -/
inductive InnerCall (H : Type)
  | setOp (op : Op)                                            -- `z.Rasterizer.DrawOp = op`
  | draw (dst : H) (r : Rect) (src : H) (spX spY : Int)    -- `z.Rasterizer.Draw(dst, r, src, sp)`
deriving DecidableEq, Repr

structure Adapter (H : Type) where
  dst : H
  drawOp : Op
  inner : List (InnerCall H) := []
deriving DecidableEq, Repr

/-- `(*vec.Rasterizer).Draw` -/
def Adapter.draw {H : Type} (z : Adapter H) (r : Rect) (src : H) (spX spY : Int) : Adapter H :=
  { z with inner := z.inner ++ [.setOp z.drawOp, .draw z.dst r src spX spY], drawOp := over }

structure DrawArgs (H : Type) where
  r : Rect
  src : H
  spX : Int
  spY : Int
deriving DecidableEq, Repr

def Adapter.draws {H : Type} (z : Adapter H) (ds : List (DrawArgs H)) : Adapter H :=
  ds.foldl (fun z d => z.draw d.r d.src d.spX d.spY) z

/-- what the library must have been asked for a list of Draw calls: operator `op` for the first, source-over for the rest,
    every rectangle, source and source point exactly as given, always into the adapter's destination -/
def expected {H : Type} (dst : H) (op : Op) : List (DrawArgs H) → List (InnerCall H)
  | [] => []
  | d :: ds => [.setOp op, .draw dst d.r d.src d.spX d.spY] ++ expected dst over ds

end Ivg.Vec
