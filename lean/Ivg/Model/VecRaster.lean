/-!
# Model of `raster/vec/rasterizer.go`: which compositing operator a `Draw` uses

`vec.Rasterizer` embeds `vector.Rasterizer` (golang.org/x/image/vector) and adds the fields `Dst` and
`DrawOp`.  There are therefore TWO `DrawOp` fields: the outer one (`vec.Rasterizer.DrawOp`, set by the
user) and the one of the embedded rasteriser (`vector.Rasterizer.DrawOp`, read by the embedded
`Draw`).  The methods `Reset`, `MoveTo`, `LineTo`, `QuadTo`, `CubeTo`, `ClosePath` are the promoted
methods of the embedded value: they cannot touch the outer field.  Pixels (the accumulation buffer,
`Dst`) are not modelled.
-/
namespace Ivg.VecRaster

/-- `draw.Op` -/
inductive Op | over | src
deriving DecidableEq, Repr, Inhabited

/-- the two operator fields of a `vec.Rasterizer` -/
structure Rasterizer where
  /-- `vec.Rasterizer.DrawOp` -/
  drawOp : Op
  /-- the embedded `vector.Rasterizer.DrawOp` -/
  innerDrawOp : Op
deriving DecidableEq, Repr, Inhabited

/-- the calls a `raster.Rasterizer` receives (operands are irrelevant here) -/
inductive RCall | reset | pathOp | draw
deriving DecidableEq, Repr, Inhabited

/-- x/image/vector `Rasterizer.Reset` (promoted): "This includes setting z.DrawOp to draw.Over" — the
    embedded rasteriser's own field; the outer `DrawOp` is not reachable from it. -/
def Rasterizer.reset (z : Rasterizer) : Rasterizer := { z with innerDrawOp := .over }

/-- rasterizer.go:40 `Draw`: `z.Rasterizer.DrawOp = z.DrawOp; z.Rasterizer.Draw(…); z.DrawOp = draw.Over`.
    Returns the new state and the operator the embedded `Draw` composites with. -/
def Rasterizer.draw (z : Rasterizer) : Rasterizer × Op :=
  let z := { z with innerDrawOp := z.drawOp }
  ({ z with drawOp := .over }, z.innerDrawOp)

/-- one call; `some op` when it composites -/
def Rasterizer.step (z : Rasterizer) : RCall → Rasterizer × Option Op
  | .reset => (z.reset, none)
  | .pathOp => (z, none)
  | .draw => let (z', op) := z.draw; (z', some op)

/-- the operators used by the successive `Draw`s of a call sequence -/
def Rasterizer.run (z : Rasterizer) : List RCall → List Op
  | [] => []
  | c :: cs =>
    match z.step c with
    | (z', some op) => op :: z'.run cs
    | (z', none) => z'.run cs

end Ivg.VecRaster
