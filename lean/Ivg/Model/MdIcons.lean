import Ivg.Model.Generator
/-!
# Model of `mdicons/parsepath.go` and `mdicons/parsepathdata.go` (number-generic)
The XML layer (`parsefile.go`) is not modelled: the model starts from the unmarshalled path.
-/
namespace Ivg.Md
open Ivg Gen

variable {α : Type} [Arith α]

private def i (n : Int) : α := Arith.ofInt n

/-- what `fmt.Fscanf(r, "%f", &f32)` accepts in the supported dialect: skip spaces, then
    `[+-]?digits[.digits]` or `[+-]?.digits`; returns token and rest -/
def floatToken (d : List Char) : List Char × List Char :=
  let d := d.dropWhile (· = ' ')
  let (sign, r) := match d with
    | '-' :: r => (['-'], r)
    | '+' :: r => (['+'], r)
    | r => ([], r)
  let ip := r.takeWhile isDigit
  let r := r.dropWhile isDigit
  match r with
  | '.' :: r' => (sign ++ ip ++ ['.'] ++ r'.takeWhile isDigit, r'.dropWhile isDigit)
  | _ => (sign ++ ip, r)

/-- parsepathdata.go:93 scan -/
def scanArgs : Nat → List Char → Option (List α × List Char)
  | 0, d => some ([], d)
  | n + 1, d =>
    let (tok, rest) := floatToken d
    match parseDecimal tok with
    | none => none      -- Fscanf error (ignored by Go, leaving a stale value): outside the dialect
    | some (neg, num, k) =>
      match scanArgs n rest with
      | none => none
      | some (vs, d') => some (Arith.ofDecimal neg num k :: vs, d')

/-- parsepathdata.go:105 normalize -/
def normalizeArgs (args : List α) (n : Nat) (op : Char) (size offX offY outSize : α) (relative : Bool) : List α :=
  (List.range args.length).zip args |>.map fun (idx, a) =>
    if idx ≥ n then a else
    let a := a * (outSize / size)
    if relative then a else
    let a := a - outSize / i 2
    if n ≠ 1 then a - (if idx % 2 = 0 then offX else offY)
    else if op = 'H' then a - offX
    else if op = 'V' then a - offY
    else a

def opArgCount (op : Char) : Option Nat :=
  match op with
  | 'H' | 'h' | 'V' | 'v' => some 1
  | 'L' | 'l' | 'M' | 'm' | 'T' | 't' => some 2
  | 'Q' | 'q' | 'S' | 's' => some 4
  | 'C' | 'c' => some 6
  | 'Z' | 'z' => some 0
  | _ => none

def emitOp (op : Char) (started : Bool) (adj : UInt8) (a : List α) : List (Call α) :=
  match op, a with
  | 'H', [x] => [.d1 .H x]
  | 'h', [x] => [.d1 .h x]
  | 'V', [x] => [.d1 .V x]
  | 'v', [x] => [.d1 .v x]
  | 'L', [x, y] => [.d2 .L x y]
  | 'l', [x, y] => [.d2 .l x y]
  | 'M', [x, y] => if !started then [.startPath adj x y] else [.d2 .Y x y]
  | 'm', [x, y] => [.d2 .y x y]
  | 'T', [x, y] => [.d2 .T x y]
  | 't', [x, y] => [.d2 .t x y]
  | 'Q', [x1, y1, x, y] => [.d4 .Q x1 y1 x y]
  | 'q', [x1, y1, x, y] => [.d4 .q x1 y1 x y]
  | 'S', [x1, y1, x, y] => [.d4 .S x1 y1 x y]
  | 's', [x1, y1, x, y] => [.d4 .s x1 y1 x y]
  | 'C', [x1, y1, x2, y2, x, y] => [.d6 .C x1 y1 x2 y2 x y]
  | 'c', [x1, y1, x2, y2, x, y] => [.d6 .c x1 y1 x2 y2 x y]
  | _, _ => []

inductive MdErr | unknownOpcode (c : Char) | malformed
deriving DecidableEq, Repr, Inhabited

/-- parsepathdata.go:17 the loop of ParsePathData (after TrimSuffix "z"); fuel = length + 1 -/
def pathLoop (adj : UInt8) (size offX offY outSize : α) :
    Nat → (started : Bool) → (op : Option Char) → List Char → Except MdErr (List (Call α))
  | 0, _, _, _ => .error .malformed
  | _ + 1, _, _, [] => .ok []
  | fuel + 1, started, op, b :: rest =>
    if b = ' ' then pathLoop adj size offX offY outSize fuel true op rest else
    let isUpper := 'A' ≤ b ∧ b ≤ 'Z'
    let isLow := 'a' ≤ b ∧ b ≤ 'z'
    let (op', d) : Option Char × List Char :=
      if isUpper ∨ isLow then (some b, rest) else (op, b :: rest)
    match op' with
    | none => .error (.unknownOpcode b)
    | some o =>
      match opArgCount o with
      | none => .error (.unknownOpcode b)
      | some n =>
        let relative := 'a' ≤ o ∧ o ≤ 'z'
        match scanArgs (α := α) n d with
        | none => .error .malformed
        | some (args, d') =>
          -- an implicit repeat that consumes nothing would loop forever in Go
          if d'.length ≥ (b :: rest).length then .error .malformed else
          let args := normalizeArgs args n o size offX offY outSize relative
          match pathLoop adj size offX offY outSize fuel true op' d' with
          | .error e => .error e
          | .ok cs => .ok (emitOp o started adj args ++ cs)

def trimSuffixZ (d : List Char) : List Char :=
  match d.reverse with
  | 'z' :: r => r.reverse
  | _ => d

def parsePathData (d : String) (adj : UInt8) (size offX offY outSize : α) : Except MdErr (List (Call α)) :=
  let cs := trimSuffixZ d.toList
  pathLoop adj size offX offY outSize (cs.length + 1) false none cs

structure Circle (α : Type) where
  cx : α
  cy : α
  r : α
deriving Repr, Inhabited

/-- parsepath.go:8 ParsePath.  `adjs` is the opacity → ADJ map (association list, float `==` keys). -/
def parsePath (adjs : List (α × UInt8)) (d : String) (opacity : α) (size offX offY outSize : α)
    (circles : List (Circle α)) : List (α × UInt8) × Except MdErr (List (Call α)) :=
  let (adjs, adj, pre) : List (α × UInt8) × UInt8 × List (Call α) :=
    if Arith.feq opacity (i 1) then (adjs, 0, [])
    else
      match adjs.find? (fun p => Arith.feq p.1 opacity) with
      | some p => (adjs, p.2, [])
      | none =>
        let adj := UInt8.ofNat (adjs.length + 1)
        (adjs ++ [(opacity, adj)], adj,
          [.setCReg adj false (Color.blendColor (Arith.toUInt8 (opacity * i 255)) 0x7f 0x80)])
  let pathPart : Except MdErr (List (Call α)) × Bool :=
    if d = "" then (.ok [], true) else (parsePathData d adj size offX offY outSize, false)
  match pathPart with
  | (.error e, _) => (adjs, .error e)
  | (.ok pcs, needStart) =>
    let rec circ (needStart : Bool) : List (Circle α) → List (Call α)
      | [] => []
      | c :: cs =>
        let cx := c.cx * outSize / size
        let cx := cx - (outSize / i 2 + offX)
        let cy := c.cy * outSize / size
        let cy := cy - (outSize / i 2 + offY)
        let r := c.r * outSize / size
        (if needStart then Call.startPath adj (cx - r) cy else Call.d2 .Y (cx - r) cy) ::
          .arc true r r (i 0) false true (i 2 * r) (i 0) ::
          .arc true r r (i 0) false true (i (-2) * r) (i 0) :: circ false cs
    (adjs, .ok (pre ++ pcs ++ circ needStart circles ++ [.closeEnd]))

end Ivg.Md
