import Ivg.Model.Color
/-!
# Model of `decode/buffer.go`
Each `decodeXxx` returns `none` where Go returns `n == 0`, else the value and the remaining bytes.
`decodeNatural` also returns the width `n` (1, 2 or 4) because the number decoders switch on it.
-/
namespace Ivg.Dec
open Ivg Num

/-- buffer.go:19 decodeNatural -/
def decodeNatural : Bytes → Option (Nat × Nat × Bytes)
  | [] => none
  | x :: rest =>
    if x.toNat % 2 = 0 then some (x.toNat / 2, 1, rest)
    else if x.toNat / 2 % 2 = 0 then
      match rest with
      | y :: rest' => some ((x.toNat + y.toNat * 256) / 4, 2, rest')
      | [] => none
    else
      match rest with
      | b1 :: b2 :: b3 :: rest' =>
        some ((x.toNat + b1.toNat * 256 + b2.toNat * 65536 + b3.toNat * 16777216) / 4, 4, rest')
      | _ => none

/-- buffer.go:42 decodeReal -/
def decodeReal (b : Bytes) : Option (F32 × Bytes) :=
  match decodeNatural b with
  | none => none
  | some (u, n, rest) =>
    if n = 4 then some (F32.ofNatBits (u * 4), rest) else some (F32.ofInt u, rest)

/-- buffer.go:55 decodeCoordinate -/
def decodeCoordinate (b : Bytes) : Option (F32 × Bytes) :=
  match decodeNatural b with
  | none => none
  | some (u, n, rest) =>
    if n = 1 then some (F32.ofInt ((u : Int) - 64), rest)
    else if n = 2 then some (F32.ofInt ((u : Int) - 64 * 128) / F32.ofInt 64, rest)
    else some (F32.ofNatBits (u * 4), rest)

/-- buffer.go:68 decodeZeroToOne -/
def decodeZeroToOne (b : Bytes) : Option (F32 × Bytes) :=
  match decodeNatural b with
  | none => none
  | some (u, n, rest) =>
    if n = 1 then some (F32.ofInt u / F32.ofInt 120, rest)
    else if n = 2 then some (F32.ofInt u / F32.ofInt 15120, rest)
    else some (F32.ofNatBits (u * 4), rest)

def decodeColor1 : Bytes → Option (Color × Bytes)
  | x :: rest => some (Ivg.decodeColor1 x, rest)
  | _ => none

def decodeColor2 : Bytes → Option (Color × Bytes)
  | x :: y :: rest =>
    some (Color.rgbaColor ⟨(0x11 : UInt8) * (x >>> 4), (0x11 : UInt8) * (x &&& 0x0f), (0x11 : UInt8) * (y >>> 4), (0x11 : UInt8) * (y &&& 0x0f)⟩, rest)
  | _ => none

def decodeColor3Direct : Bytes → Option (Color × Bytes)
  | x :: y :: z :: rest => some (Color.rgbaColor ⟨x, y, z, 0xff⟩, rest)
  | _ => none

def decodeColor4 : Bytes → Option (Color × Bytes)
  | x :: y :: z :: w :: rest => some (Color.rgbaColor ⟨x, y, z, w⟩, rest)
  | _ => none

def decodeColor3Indirect : Bytes → Option (Color × Bytes)
  | x :: y :: z :: rest => some (Color.blendColor x y z, rest)
  | _ => none

end Ivg.Dec
