import Ivg.Model.Gradient
import Ivg.Model.ViewBox
/-!
# Model of `render/render.go` (number-generic), with the pen contract of `golang.org/x/image/vector`

The rasteriser is external to the repository.  The model keeps the only two things the Renderer reads
back from it — the pen and the sub-path start — with the semantics of x/image/vector (Reset: both
(0,0); MoveTo: both ← point; LineTo/QuadTo/CubeTo: pen ← end point; ClosePath: pen ← start) and emits
the calls it makes as a list of `RasterOp`s.  Arcs need float64 trigonometry and are supplied as a
parameter (`ArcFn`), instantiated in `Ivg/Model/Arc.lean`.
-/
namespace Ivg.Ren
open Ivg Grad

structure Rect where
  minX : Int
  minY : Int
  maxX : Int
  maxY : Int
deriving DecidableEq, Repr, Inhabited

def Rect.dx (r : Rect) : Int := r.maxX - r.minX
def Rect.dy (r : Rect) : Int := r.maxY - r.minY
def Rect.empty (r : Rect) : Bool := r.minX ≥ r.maxX || r.minY ≥ r.maxY

/-- what `Draw` receives as `src` -/
inductive Paint (β : Type)
  | flat (c : RGBA)
  | gradient (g : Gradient β)
deriving Repr, Inhabited

/-- calls made on the raster.Rasterizer (Pen/Size/Bounds reads are not recorded) -/
inductive RasterOp (α β : Type)
  | reset (w h : Int)
  | moveTo (x y : α)
  | lineTo (x y : α)
  | quadTo (bx by_ cx cy : α)
  | cubeTo (bx by_ cx cy dx dy : α)
  | closePath
  | draw (r : Rect) (paint : Paint β)     -- sp is always (0,0)
deriving Repr, Inhabited

structure Renderer (α β : Type) where
  r : Rect
  scaleX : α
  biasX : α
  scaleY : α
  biasY : α
  viewBox : ViewBox α
  palette : Palette
  lod0 : α
  lod1 : α
  cSel : UInt8
  nSel : UInt8
  disabled : Bool
  prevSmoothType : Nat       -- 0 none, 1 quad, 2 cube
  prevSmoothX : α
  prevSmoothY : α
  fill : Paint β
  cReg : Regs RGBA
  nReg : Regs α
  -- pen contract of the rasteriser
  penX : α
  penY : α
  firstX : α
  firstY : α

variable {α β : Type} [Arith α] [Arith β] [Wide α β]

def zeroA : α := Arith.ofInt 0

/-- what an arc contributes: given the renderer (transform, pen) and the operands in viewBox space,
    the rasteriser calls to make.  The pen after the calls is the end point of the last one. -/
abbrev ArcFn (α β : Type) := Renderer α β → (rx ry rot : α) → (largeArc sweep : Bool) → (x y : α) → List (RasterOp α β)

/-- the zero value of `render.Renderer` -/
def Renderer.zero : Renderer α β :=
  { r := ⟨0, 0, 0, 0⟩, scaleX := zeroA, biasX := zeroA, scaleY := zeroA, biasY := zeroA,
    viewBox := ⟨zeroA, zeroA, zeroA, zeroA⟩, palette := Regs.const ⟨0, 0, 0, 0⟩,
    lod0 := zeroA, lod1 := zeroA, cSel := 0, nSel := 0, disabled := false, prevSmoothType := 0,
    prevSmoothX := zeroA, prevSmoothY := zeroA, fill := .flat ⟨0, 0, 0, 0⟩,
    cReg := Regs.const ⟨0, 0, 0, 0⟩, nReg := Regs.const zeroA,
    penX := zeroA, penY := zeroA, firstX := zeroA, firstY := zeroA }

/-- render.go:99 recalcTransform -/
def Renderer.recalcTransform (z : Renderer α β) : Renderer α β :=
  { z with scaleX := Arith.ofInt z.r.dx / (z.viewBox.maxX - z.viewBox.minX), biasX := -z.viewBox.minX,
           scaleY := Arith.ofInt z.r.dy / (z.viewBox.maxY - z.viewBox.minY), biasY := -z.viewBox.minY }

/-- render.go:73 SetRasterizer (a fresh rasteriser: pen at the origin) -/
def Renderer.setRasterizer (z : Renderer α β) (r : Rect) : Renderer α β :=
  let r := if r.empty then ⟨0, 0, 0, 0⟩ else r
  ({ z with r := r, penX := zeroA, penY := zeroA, firstX := zeroA, firstY := zeroA } : Renderer α β).recalcTransform

/-- `posInf` is supplied by the caller (the float +Inf; for exact arithmetic a value above every height) -/
def Renderer.reset (z : Renderer α β) (posInf : α) (vb : ViewBox α) (pal : Palette) : Renderer α β :=
  ({ z with viewBox := vb, palette := pal, lod0 := zeroA, lod1 := posInf, cSel := 0, nSel := 0,
            prevSmoothType := 0, prevSmoothX := zeroA, prevSmoothY := zeroA,
            cReg := pal, nReg := Regs.const zeroA } : Renderer α β).recalcTransform

def Renderer.unabsX (z : Renderer α β) (x : α) : α := x / z.scaleX - z.biasX
def Renderer.unabsY (z : Renderer α β) (y : α) : α := y / z.scaleY - z.biasY
def Renderer.absX (z : Renderer α β) (x : α) : α := z.scaleX * (x + z.biasX)
def Renderer.absY (z : Renderer α β) (y : α) : α := z.scaleY * (y + z.biasY)
def Renderer.relX (z : Renderer α β) (x : α) : α := z.scaleX * x
def Renderer.relY (z : Renderer α β) (y : α) : α := z.scaleY * y
def Renderer.relVecX (z : Renderer α β) (x : α) : α := z.penX + z.relX x
def Renderer.relVecY (z : Renderer α β) (y : α) : α := z.penY + z.relY y

def two : α := Arith.ofInt 2

/-- render.go:145 implicitSmoothPoint -/
def Renderer.implicitSmoothPoint (z : Renderer α β) (thisType : Nat) : α × α :=
  if z.prevSmoothType ≠ thisType then (z.penX, z.penY)
  else (two * z.penX - z.prevSmoothX, two * z.penY - z.prevSmoothY)

def rgba64Of (c : RGBA) : RGBA64 :=
  ⟨c.r.toNat * 0x101, c.g.toNat * 0x101, c.b.toNat * 0x101, c.a.toNat * 0x101⟩

/-- the stop loop of render.go:156 initGradient: `none` if a stop is invalid -/
def collectStops (cReg : Regs RGBA) (nReg : Regs α) (cBase nBase : UInt8) :
    Nat → UInt8 → α → (first : Bool) → Option (List (Stop β))
  | 0, _, _, _ => some []
  | n + 1, i, prevN, first =>
    let c := cReg.get6 (cBase + i)
    if !c.validPremul then none else
    let v := nReg.get6 (nBase + i)
    if ¬ (zeroA ≤ v ∧ v ≤ Arith.ofInt 1) ∨ ¬ (first ∨ prevN < v) then none else
    match collectStops cReg nReg cBase nBase n (i + 1) v false with
    | none => none
    | some rest => some (⟨Wide.widen v, rgba64Of c⟩ :: rest)

/-- render.go:153 initGradient.  `first` stands for `prevN = -Inf`. -/
def Renderer.initGradient (z : Renderer α β) (rgba : RGBA) : Option (Gradient β) :=
  let p := decodeGradient rgba
  match collectStops (β := β) z.cReg z.nReg p.cBase p.nBase p.nStops.toNat 0 zeroA true with
  | none => none
  | some stops =>
    let one : β := Arith.ofInt 1
    let invZSX := one / Wide.widen z.scaleX
    let invZSY := one / Wide.widen z.scaleY
    let zBX : β := Wide.widen z.biasX
    let zBY : β := Wide.widen z.biasY
    let a : β := Wide.widen (z.nReg.get6 (p.nBase - 6))
    let b : β := Wide.widen (z.nReg.get6 (p.nBase - 5))
    let c : β := Wide.widen (z.nReg.get6 (p.nBase - 4))
    let d : β := Wide.widen (z.nReg.get6 (p.nBase - 3))
    let e : β := Wide.widen (z.nReg.get6 (p.nBase - 2))
    let f : β := Wide.widen (z.nReg.get6 (p.nBase - 1))
    let pix2Grad : Aff3 β := ⟨a * invZSX, b * invZSY, c - a * zBX - b * zBY, d * invZSX, e * invZSY, f - d * zBX - e * zBY⟩
    let (g, ok) := Gradient.init p.shape p.spread pix2Grad stops
    if ok then some g else none

abbrev Out (α β : Type) := Renderer α β × List (RasterOp α β)

def Renderer.moveTo (z : Renderer α β) (x y : α) : Out α β :=
  ({ z with penX := x, penY := y, firstX := x, firstY := y }, [.moveTo x y])
def Renderer.lineTo (z : Renderer α β) (x y : α) : Out α β :=
  ({ z with penX := x, penY := y }, [.lineTo x y])
def Renderer.quadTo (z : Renderer α β) (bx by_ cx cy : α) : Out α β :=
  ({ z with penX := cx, penY := cy }, [.quadTo bx by_ cx cy])
def Renderer.cubeTo (z : Renderer α β) (bx by_ cx cy dx dy : α) : Out α β :=
  ({ z with penX := dx, penY := dy }, [.cubeTo bx by_ cx cy dx dy])
def Renderer.closePath (z : Renderer α β) : Out α β :=
  ({ z with penX := z.firstX, penY := z.firstY }, [.closePath])

/-- render.go:208 StartPath -/
def Renderer.startPath (z : Renderer α β) (adj : UInt8) (x y : α) : Out α β :=
  let flat := z.cReg.get6 (z.cSel - adj)
  let (fill, disabled) : Paint β × Bool :=
    if flat.validPremul then (.flat flat, flat.a == 0)
    else if flat.validGradient then
      match z.initGradient flat with
      | some g => (.gradient g, false)
      | none => (z.fill, true)
    else (z.fill, true)
  let h : α := Arith.ofInt z.r.dy
  let disabled := disabled || !(decide (z.lod0 ≤ h) && decide (h < z.lod1))
  let z := { z with fill := fill, disabled := disabled }
  if disabled then (z, [])
  else
    let z := { z with penX := zeroA, penY := zeroA, firstX := zeroA, firstY := zeroA, prevSmoothType := 0 }
    let (z, ops) := z.moveTo (z.absX x) (z.absY y)
    (z, .reset z.r.dx z.r.dy :: ops)

def Renderer.setSmooth (z : Renderer α β) (t : Nat) (x y : α) : Renderer α β :=
  { z with prevSmoothType := t, prevSmoothX := x, prevSmoothY := y }

/-- the drawing methods render.go:233–404 and the styling methods; `arc` supplies AbsArcTo -/
def Renderer.step (arc : ArcFn α β) (posInf : α) (z : Renderer α β) : Call α → Out α β
  | .reset vb pal => (z.reset posInf vb pal, [])
  | .setCSel v => ({ z with cSel := v &&& 0x3f }, [])
  | .setNSel v => ({ z with nSel := v &&& 0x3f }, [])
  | .setCReg adj incr c =>
    let z := { z with cReg := z.cReg.set6 (z.cSel - adj) (c.resolve z.palette z.cReg) }
    (if incr then { z with cSel := (z.cSel + 1) &&& 0x3f } else z, [])
  | .setNReg adj incr f =>
    let z := { z with nReg := z.nReg.set6 (z.nSel - adj) f }
    (if incr then { z with nSel := (z.nSel + 1) &&& 0x3f } else z, [])
  | .setLOD l0 l1 => ({ z with lod0 := l0, lod1 := l1 }, [])
  | .startPath adj x y => z.startPath adj x y
  | .closeEnd =>
    if z.disabled then (z, []) else
    let (z, ops) := z.closePath
    (z, ops ++ [.draw z.r z.fill])
  | .d2 .Y x y =>
    if z.disabled then (z, []) else
    let z := { z with prevSmoothType := 0 }
    let (z, o1) := z.closePath
    let (z, o2) := z.moveTo (z.absX x) (z.absY y)
    (z, o1 ++ o2)
  | .d2 .y x y =>
    if z.disabled then (z, []) else
    let z := { z with prevSmoothType := 0 }
    let (z, o1) := z.closePath
    let (z, o2) := z.moveTo (z.relVecX x) (z.relVecY y)
    (z, o1 ++ o2)
  | .d1 .H x => if z.disabled then (z, []) else ({ z with prevSmoothType := 0 } : Renderer α β).lineTo (z.absX x) z.penY
  | .d1 .h x => if z.disabled then (z, []) else ({ z with prevSmoothType := 0 } : Renderer α β).lineTo (z.penX + z.relX x) z.penY
  | .d1 .V y => if z.disabled then (z, []) else ({ z with prevSmoothType := 0 } : Renderer α β).lineTo z.penX (z.absY y)
  | .d1 .v y => if z.disabled then (z, []) else ({ z with prevSmoothType := 0 } : Renderer α β).lineTo z.penX (z.penY + z.relY y)
  | .d2 .L x y => if z.disabled then (z, []) else ({ z with prevSmoothType := 0 } : Renderer α β).lineTo (z.absX x) (z.absY y)
  | .d2 .l x y => if z.disabled then (z, []) else ({ z with prevSmoothType := 0 } : Renderer α β).lineTo (z.relVecX x) (z.relVecY y)
  | .d2 .T x y =>
    if z.disabled then (z, []) else
    let (x1, y1) := z.implicitSmoothPoint 1
    (z.setSmooth 1 x1 y1).quadTo x1 y1 (z.absX x) (z.absY y)
  | .d2 .t x y =>
    if z.disabled then (z, []) else
    let (x1, y1) := z.implicitSmoothPoint 1
    (z.setSmooth 1 x1 y1).quadTo x1 y1 (z.relVecX x) (z.relVecY y)
  | .d4 .Q x1 y1 x y =>
    if z.disabled then (z, []) else
    let (x1, y1) := (z.absX x1, z.absY y1)
    (z.setSmooth 1 x1 y1).quadTo x1 y1 (z.absX x) (z.absY y)
  | .d4 .q x1 y1 x y =>
    if z.disabled then (z, []) else
    let (x1, y1) := (z.relVecX x1, z.relVecY y1)
    (z.setSmooth 1 x1 y1).quadTo x1 y1 (z.relVecX x) (z.relVecY y)
  | .d4 .S x2 y2 x y =>
    if z.disabled then (z, []) else
    let (x1, y1) := z.implicitSmoothPoint 2
    let (x2, y2) := (z.absX x2, z.absY y2)
    (z.setSmooth 2 x2 y2).cubeTo x1 y1 x2 y2 (z.absX x) (z.absY y)
  | .d4 .s x2 y2 x y =>
    if z.disabled then (z, []) else
    let (x1, y1) := z.implicitSmoothPoint 2
    let (x2, y2) := (z.relVecX x2, z.relVecY y2)
    (z.setSmooth 2 x2 y2).cubeTo x1 y1 x2 y2 (z.relVecX x) (z.relVecY y)
  | .d6 .C x1 y1 x2 y2 x y =>
    if z.disabled then (z, []) else
    let (x2, y2) := (z.absX x2, z.absY y2)
    (z.setSmooth 2 x2 y2).cubeTo (z.absX x1) (z.absY y1) x2 y2 (z.absX x) (z.absY y)
  | .d6 .c x1 y1 x2 y2 x y =>
    if z.disabled then (z, []) else
    let (x2, y2) := (z.relVecX x2, z.relVecY y2)
    (z.setSmooth 2 x2 y2).cubeTo (z.relVecX x1) (z.relVecY y1) x2 y2 (z.relVecX x) (z.relVecY y)
  | .arc rel rx ry rot la sw x y =>
    -- RelArcTo converts to viewBox space first (render.go:582), then AbsArcTo
    let (x, y) := if rel then (z.unabsX (z.relVecX x), z.unabsY (z.relVecY y)) else (x, y)
    if z.disabled then (z, []) else
    let z := { z with prevSmoothType := 0 }
    let ops := arc z rx ry rot la sw x y
    -- the pen follows the calls made
    let z := ops.foldl (fun (z : Renderer α β) op => match op with
      | .lineTo x y => { z with penX := x, penY := y }
      | .cubeTo _ _ _ _ x y => { z with penX := x, penY := y }
      | _ => z) z
    (z, ops)

def Renderer.run (arc : ArcFn α β) (posInf : α) (z : Renderer α β) : List (Call α) → Out α β
  | [] => (z, [])
  | c :: cs =>
    let (z, o1) := z.step arc posInf c
    let (z, o2) := z.run arc posInf cs
    (z, o1 ++ o2)

end Ivg.Ren
