import Ivg.Num.F32
/-!
# Model of `color.go`, and of the shared types of `ivg.go` / `destination.go`
-/
namespace Ivg

abbrev Bytes := List UInt8

structure RGBA where
  r : UInt8
  g : UInt8
  b : UInt8
  a : UInt8
deriving DecidableEq, Repr, Inhabited, Hashable

def RGBA.black : RGBA := ⟨0, 0, 0, 0xff⟩
def RGBA.zero : RGBA := ⟨0, 0, 0, 0⟩

/-- 64-entry register files / palettes -/
abbrev Regs (α : Type) := Vector α 64
abbrev Palette := Regs RGBA

namespace Regs
@[inline] def get6 (v : Regs α) (i : UInt8) : α := v[i.toNat % 64]'(Nat.mod_lt _ (by decide))
@[inline] def set6 (v : Regs α) (i : UInt8) (x : α) : Regs α := v.set (i.toNat % 64) x (Nat.mod_lt _ (by decide))
def const (x : α) : Regs α := Vector.replicate 64 x
end Regs

def defaultPalette : Palette := Regs.const RGBA.black

/-- color.go: ColorType -/
inductive ColorType where
  | rgba | paletteIndex | cReg | blend
deriving DecidableEq, Repr, Inhabited, Hashable

/-- color.go: Color{typ, data} -/
structure Color where
  typ : ColorType
  data : RGBA
deriving DecidableEq, Repr, Inhabited, Hashable

namespace Color
def rgbaColor (c : RGBA) : Color := ⟨.rgba, c⟩
def paletteIndexColor (i : UInt8) : Color := ⟨.paletteIndex, ⟨i &&& 0x3f, 0, 0, 0⟩⟩
def cRegColor (i : UInt8) : Color := ⟨.cReg, ⟨i &&& 0x3f, 0, 0, 0⟩⟩
def blendColor (t c0 c1 : UInt8) : Color := ⟨.blend, ⟨t, c0, c1, 0⟩⟩

/-- the Colors a Go program can construct (fields are unexported) -/
def WF (c : Color) : Prop :=
  match c.typ with
  | .rgba => True
  | .paletteIndex => c.data.r < 64 ∧ c.data.g = 0 ∧ c.data.b = 0 ∧ c.data.a = 0
  | .cReg => c.data.r < 64 ∧ c.data.g = 0 ∧ c.data.b = 0 ∧ c.data.a = 0
  | .blend => c.data.a = 0
instance (c : Color) : Decidable c.WF := by unfold WF; cases c.typ <;> exact inferInstance
end Color

def dc1Table (i : Nat) : UInt8 :=
  match i with
  | 0 => 0x00 | 1 => 0x40 | 2 => 0x80 | 3 => 0xc0 | _ => 0xff

/-- color.go: DecodeColor1 -/
def decodeColor1 (x : UInt8) : Color :=
  if x ≥ 0x80 then
    if x ≥ 0xc0 then Color.cRegColor x else Color.paletteIndexColor x
  else if x = 125 then Color.rgbaColor ⟨0xc0, 0xc0, 0xc0, 0xc0⟩
  else if x = 126 then Color.rgbaColor ⟨0x80, 0x80, 0x80, 0x80⟩
  else if x = 127 then Color.rgbaColor ⟨0, 0, 0, 0⟩
  else
    let n := x.toNat
    Color.rgbaColor ⟨dc1Table (n / 25), dc1Table (n / 5 % 5), dc1Table (n % 5), 0xff⟩

def is1u (u : UInt8) : Bool := u &&& 0x3f == 0 || u == 0xff
def is2u (u : UInt8) : Bool := u % 0x11 == 0
def RGBA.is1 (c : RGBA) : Bool := is1u c.r && is1u c.g && is1u c.b && is1u c.a
def RGBA.is2 (c : RGBA) : Bool := is2u c.r && is2u c.g && is2u c.b && is2u c.a
def RGBA.is3 (c : RGBA) : Bool := c.a == 0xff
def RGBA.validPremul (c : RGBA) : Bool := c.r ≤ c.a && c.g ≤ c.a && c.b ≤ c.a
def RGBA.validGradient (c : RGBA) : Bool := c.a == 0 && c.b &&& 0x80 != 0

/-- color.go: Color.RGBA -/
def Color.toRGBA (c : Color) : RGBA × Bool :=
  if c.typ ≠ .rgba ∨ !c.data.validPremul then (RGBA.black, false) else (c.data, true)

/-- color.go: Color.Encode1 -/
def Color.encode1 (c : Color) : Option UInt8 :=
  match c.typ with
  | .rgba =>
    if c.data.a ≠ 0xff then
      if c.data = ⟨0, 0, 0, 0⟩ then some 127
      else if c.data = ⟨0x80, 0x80, 0x80, 0x80⟩ then some 126
      else if c.data = ⟨0xc0, 0xc0, 0xc0, 0xc0⟩ then some 125
      else none
    else if c.data.is1 then
      some (25 * (c.data.r / 0x3f) + 5 * (c.data.g / 0x3f) + c.data.b / 0x3f)
    else none
  | .paletteIndex => some (c.data.r ||| 0x80)
  | .cReg => some (c.data.r ||| 0xc0)
  | .blend => none

def Color.encode2 (c : Color) : Option (UInt8 × UInt8) :=
  if c.typ = .rgba ∧ c.data.is2 then
    some ((c.data.r / 0x11) <<< 4 ||| (c.data.g / 0x11), (c.data.b / 0x11) <<< 4 ||| (c.data.a / 0x11))
  else none

def Color.encode3Direct (c : Color) : Option (UInt8 × UInt8 × UInt8) :=
  if c.typ = .rgba ∧ c.data.is3 then some (c.data.r, c.data.g, c.data.b) else none

def Color.encode4 (c : Color) : Option (UInt8 × UInt8 × UInt8 × UInt8) :=
  if c.typ = .rgba then some (c.data.r, c.data.g, c.data.b, c.data.a) else none

def Color.encode3Indirect (c : Color) : Option (UInt8 × UInt8 × UInt8) :=
  if c.typ = .blend then some (c.data.r, c.data.g, c.data.b) else none

/-- one channel of the blend formula, in uint32 arithmetic as Go does (no overflow: ≤ 255·255+128) -/
def blendChan (t : UInt8) (x0 x1 : UInt8) : UInt8 :=
  UInt8.ofNat (((255 - t.toNat) * x0.toNat + t.toNat * x1.toNat + 128) / 255)

/-- color.go: Color.Resolve.  The recursion through `DecodeColor1` is at most one
    level deep because a 1-byte colour is never a blend. -/
def Color.resolve1 (c : Color) (palette cReg : Palette) : RGBA :=
  match c.typ with
  | .rgba => c.data
  | .paletteIndex => palette.get6 (c.data.r &&& 0x3f)
  | .cReg => cReg.get6 (c.data.r &&& 0x3f)
  | .blend => ⟨0, 0, 0, 0⟩   -- unreachable for 1-byte colours

def Color.resolve (c : Color) (palette cReg : Palette) : RGBA :=
  match c.typ with
  | .blend =>
    let t := c.data.r
    let p0 := (decodeColor1 c.data.g).resolve1 palette cReg
    let p1 := (decodeColor1 c.data.b).resolve1 palette cReg
    ⟨blendChan t p0.r p1.r, blendChan t p0.g p1.g, blendChan t p0.b p1.b, blendChan t p0.a p1.a⟩
  | _ => c.resolve1 palette cReg

/-- color.go: EncodeGradient / DecodeGradient -/
def encodeGradient (cBase nBase shape spread nStops : UInt8) : RGBA :=
  let sp : UInt8 := (spread &&& 0x03) <<< 6
  let sh : UInt8 := ((0x02 : UInt8) ||| (shape &&& 0x01)) <<< 6
  ⟨nStops &&& 0x3f, (cBase &&& 0x3f) ||| sp, (nBase &&& 0x3f) ||| sh, 0⟩

structure GradParams where
  cBase : UInt8
  nBase : UInt8
  shape : UInt8
  spread : UInt8
  nStops : UInt8
deriving DecidableEq, Repr

def decodeGradient (c : RGBA) : GradParams :=
  ⟨c.g &&& 0x3f, c.b &&& 0x3f, (c.b >>> 6) &&& 0x01, (c.g >>> 6) &&& 0x03, c.r &&& 0x3f⟩

/-- ivg.go: ViewBox -/
structure ViewBox (α : Type) where
  minX : α
  minY : α
  maxX : α
  maxY : α
deriving DecidableEq, Repr, Inhabited

open Num in
def defaultViewBox : ViewBox F32 := ⟨⟨0xc2000000⟩, ⟨0xc2000000⟩, ⟨0x42000000⟩, ⟨0x42000000⟩⟩

set_option linter.constructorNameAsVariable false

/-- verbs with 1, 2, 4, 6 coordinate operands (encode.go `drawOps`, decode.go `decodeDrawing`) -/
inductive Verb1 | H | h | V | v deriving DecidableEq, Repr, Inhabited
inductive Verb2 | L | l | T | t | Y | y deriving DecidableEq, Repr, Inhabited
inductive Verb4 | Q | q | S | s deriving DecidableEq, Repr, Inhabited
inductive Verb6 | C | c deriving DecidableEq, Repr, Inhabited

/-- destination.go: the 26 delivering methods of `ivg.Destination` (CSel()/NSel() reads deliver nothing).
    The 19 drawing methods are grouped by operand count. -/
inductive Call (α : Type) where
  | reset (vb : ViewBox α) (pal : Palette)
  | setCSel (v : UInt8)
  | setNSel (v : UInt8)
  | setCReg (adj : UInt8) (incr : Bool) (c : Color)
  | setNReg (adj : UInt8) (incr : Bool) (f : α)
  | setLOD (l0 l1 : α)
  | startPath (adj : UInt8) (x y : α)
  | closeEnd
  | d1 (v : Verb1) (x : α)
  | d2 (v : Verb2) (x y : α)
  | d4 (v : Verb4) (x1 y1 x y : α)
  | d6 (v : Verb6) (x1 y1 x2 y2 x y : α)
  | arc (rel : Bool) (rx ry rot : α) (largeArc sweep : Bool) (x y : α)
deriving Repr, Inhabited, DecidableEq

end Ivg
