import Ivg.Model.EncBuffer
/-!
# Model of `encode/encode.go`

State-returning functions for every method of `encode.Encoder`.
Deviations from the Go representation (equivalent on every reachable state):
* `drawArgs []float32` is kept as a list of operand groups (one per buffered call);
  Go appends exactly `nArgs` values per call and consumes them `nArgs` at a time.
* `altBuf` and `scratch` are scratch space and not part of the state; `metadata` is stored but never read.
-/
namespace Ivg.Enc
open Ivg Num

inductive Mode | initial | styling | drawing
deriving DecidableEq, Repr, Inhabited

inductive EncErr
  | drawingOpsUsedInStylingMode
  | invalidSelectorAdjustment
  | invalidIncrementingAdjustment
  | stylingOpsUsedInDrawingMode
deriving DecidableEq, Repr, Inhabited

def EncErr.message : EncErr → String
  | .drawingOpsUsedInStylingMode => "iconvg: drawing ops used in styling mode"
  | .invalidSelectorAdjustment => "iconvg: invalid selector adjustment"
  | .invalidIncrementingAdjustment => "iconvg: invalid incrementing adjustment"
  | .stylingOpsUsedInDrawingMode => "iconvg: styling ops used in drawing mode"

/-- the verb byte kept in `Encoder.drawOp` -/
inductive DrawOp
  | v1 (v : Verb1) | v2 (v : Verb2) | v4 (v : Verb4) | v6 (v : Verb6) | arcAbs | arcRel | Z
deriving DecidableEq, Repr, Inhabited

/-- the ASCII byte Go uses for the verb (index into `drawOps`) -/
def DrawOp.char : DrawOp → Nat
  | .v1 .H => 72 | .v1 .h => 104 | .v1 .V => 86 | .v1 .v => 118
  | .v2 .L => 76 | .v2 .l => 108 | .v2 .T => 84 | .v2 .t => 116 | .v2 .Y => 89 | .v2 .y => 121
  | .v4 .Q => 81 | .v4 .q => 113 | .v4 .S => 83 | .v4 .s => 115
  | .v6 .C => 67 | .v6 .c => 99
  | .arcAbs => 65 | .arcRel => 97 | .Z => 90

structure OpInfo where
  opcodeBase : UInt8
  maxRepCount : Nat
  nArgs : Nat
deriving DecidableEq, Repr

/-- encode.go:468 `drawOps` -/
def opInfo : DrawOp → OpInfo
  | .v2 .L => ⟨0x00, 32, 2⟩ | .v2 .l => ⟨0x20, 32, 2⟩
  | .v2 .T => ⟨0x40, 16, 2⟩ | .v2 .t => ⟨0x50, 16, 2⟩
  | .v4 .Q => ⟨0x60, 16, 4⟩ | .v4 .q => ⟨0x70, 16, 4⟩
  | .v4 .S => ⟨0x80, 16, 4⟩ | .v4 .s => ⟨0x90, 16, 4⟩
  | .v6 .C => ⟨0xa0, 16, 6⟩ | .v6 .c => ⟨0xb0, 16, 6⟩
  | .arcAbs => ⟨0xc0, 16, 6⟩ | .arcRel => ⟨0xd0, 16, 6⟩
  | .Z => ⟨0xe1, 1, 0⟩
  | .v2 .Y => ⟨0xe2, 1, 2⟩ | .v2 .y => ⟨0xe3, 1, 2⟩
  | .v1 .H => ⟨0xe6, 1, 1⟩ | .v1 .h => ⟨0xe7, 1, 1⟩
  | .v1 .V => ⟨0xe8, 1, 1⟩ | .v1 .v => ⟨0xe9, 1, 1⟩

structure Encoder where
  /-- exported field HighResolutionCoordinates -/
  hiRes : Bool := false
  /-- highResolutionCoordinates, the copy taken at StartPath -/
  hiResLocal : Bool := false
  buf : Bytes := []
  err : Option EncErr := none
  lod0 : F32 := F32.zero
  lod1 : F32 := F32.zero
  cSel : UInt8 := 0
  nSel : UInt8 := 0
  mode : Mode := .initial
  drawOp : Option DrawOp := none
  drawArgs : List (List F32) := []
deriving Repr, Inhabited

def magic : Bytes := [0x89, 0x49, 0x56, 0x47]

def f64Half : F64 := ⟨0x3fe0000000000000⟩

/-- encode.go:459 quantize (with the float64 repair) -/
def quantize (hi : Bool) (coord : F32) : F32 :=
  if !hi ∧ F32.ofInt (-128) ≤ coord ∧ coord < F32.ofInt 128 then
    let x := (F64.ofF32 coord * F64.ofInt 64 + f64Half).floor
    x.toF32 / F32.ofInt 64
  else coord

def encCoords (hi : Bool) (args : List F32) : Bytes :=
  args.flatMap fun a => encodeCoordinate (quantize hi a)

/-- the operand bytes of one buffered call -/
def encGroup (hi : Bool) (op : DrawOp) (g : List F32) : Bytes :=
  match op, g with
  | .arcAbs, [rx, ry, rot, fl, x, y] | .arcRel, [rx, ry, rot, fl, x, y] =>
    encodeCoordinate (quantize hi rx) ++ encodeCoordinate (quantize hi ry) ++ encodeAngle rot ++
      encodeNatural fl.toUInt32.toNat ++ encodeCoordinate (quantize hi x) ++ encodeCoordinate (quantize hi y)
  | _, g => encCoords hi g

/-- encode.go:424 the chunking loop of flushDrawOps -/
def chunks (hi : Bool) (op : DrawOp) : Nat → List (List F32) → Bytes
  | 0, _ => []
  | _, [] => []
  | fuel + 1, groups =>
    let m := min groups.length (opInfo op).maxRepCount
    [(opInfo op).opcodeBase + UInt8.ofNat m - 1] ++ ((groups.take m).flatMap (encGroup hi op))
      ++ chunks hi op fuel (groups.drop m)

/-- encode.go:416 flushDrawOps -/
def Encoder.flushDrawOps (e : Encoder) : Encoder :=
  match e.drawOp with
  | none => e
  | some op =>
    if (opInfo op).nArgs = 0 then
      { e with buf := e.buf ++ [(opInfo op).opcodeBase], drawOp := none, drawArgs := [] }
    else
      { e with buf := e.buf ++ chunks e.hiResLocal op e.drawArgs.length e.drawArgs, drawOp := none, drawArgs := [] }

/-- encode.go:171 appendDefaultMetadata -/
def Encoder.appendDefaultMetadata (e : Encoder) : Encoder :=
  { e with buf := magic ++ [0x00], mode := .styling }

/-- encode.go:92 Bytes (with the flush repair) -/
def Encoder.bytes (e : Encoder) : Encoder × Except EncErr Bytes :=
  match e.err with
  | some err => (e, .error err)
  | none =>
    let e := if e.mode = .initial then e.appendDefaultMetadata else e
    let e := e.flushDrawOps
    (e, .ok e.buf)

def vbNeDefault (vb : ViewBox F32) : Bool :=
  !(vb.minX.feq defaultViewBox.minX && vb.minY.feq defaultViewBox.minY &&
    vb.maxX.feq defaultViewBox.maxX && vb.maxY.feq defaultViewBox.maxY)

/-- number of explicit palette entries: index of the last non-black entry + 1 -/
def explicitCount (pal : List RGBA) : Nat :=
  (pal.reverse.dropWhile (· == RGBA.black)).length

def paletteChunk (pal : Palette) : Bytes :=
  let n1 := explicitCount pal.toList           -- n+1
  let cols := pal.toList.take n1
  let enc1 := cols.all fun c => (Color.rgbaColor c).encode1.isSome
  let enc2 := cols.all RGBA.is2
  let enc3 := cols.all RGBA.is3
  let nb := byte (n1 - 1)
  encodeNatural 1 ++
    (if enc1 then [nb ||| 0x00] ++ cols.flatMap fun c => encodeColor1' c
     else if enc2 then [nb ||| 0x40] ++ cols.flatMap fun c => encodeColor2' c
     else if enc3 then [nb ||| 0x80] ++ cols.flatMap fun c => [c.r, c.g, c.b]
     else [nb ||| 0xc0] ++ cols.flatMap fun c => [c.r, c.g, c.b, c.a])
where
  encodeColor1' (c : RGBA) : Bytes := match (Color.rgbaColor c).encode1 with | some x => [x] | none => [0]
  encodeColor2' (c : RGBA) : Bytes := match (Color.rgbaColor c).encode2 with | some (x, y) => [x, y] | none => [0, 0]

def viewBoxChunk (vb : ViewBox F32) : Bytes :=
  encodeNatural 0 ++ encodeCoordinate vb.minX ++ encodeCoordinate vb.minY ++
    encodeCoordinate vb.maxX ++ encodeCoordinate vb.maxY

/-- encode.go:105 Reset -/
def Encoder.reset (_e : Encoder) (vb : ViewBox F32) (pal : Palette) : Encoder :=
  let mcViewBox := vbNeDefault vb
  let mcPal := pal != defaultPalette
  let n := (if mcViewBox then 1 else 0) + (if mcPal then 1 else 0)
  let buf := magic ++ encodeNatural n
  let buf := if mcViewBox then
      let alt := viewBoxChunk vb
      buf ++ encodeNatural alt.length ++ alt else buf
  let buf := if mcPal then
      let alt := paletteChunk pal
      buf ++ encodeNatural alt.length ++ alt else buf
  { buf := buf, mode := .styling, lod1 := F32.posInf }

/-- encode.go:198 checkModeStyling -/
def Encoder.checkModeStyling (e : Encoder) : Encoder :=
  match e.mode with
  | .styling => e
  | .initial => e.appendDefaultMetadata
  | .drawing => { e with err := some .stylingOpsUsedInDrawingMode }

def Encoder.readCSel (e : Encoder) : Encoder × UInt8 :=
  let e := if e.mode = .initial then e.appendDefaultMetadata else e
  (e, e.cSel)
def Encoder.readNSel (e : Encoder) : Encoder × UInt8 :=
  let e := if e.mode = .initial then e.appendDefaultMetadata else e
  (e, e.nSel)
def Encoder.readLOD (e : Encoder) : Encoder × F32 × F32 :=
  let e := if e.mode = .initial then e.appendDefaultMetadata else e
  (e, e.lod0, e.lod1)

def Encoder.setCSel (e : Encoder) (v : UInt8) : Encoder :=
  let e := e.checkModeStyling
  if e.err.isSome then e else
  let s := v &&& 0x3f
  { e with cSel := s, buf := e.buf ++ [s] }

def Encoder.setNSel (e : Encoder) (v : UInt8) : Encoder :=
  let e := e.checkModeStyling
  if e.err.isSome then e else
  let s := v &&& 0x3f
  { e with nSel := s, buf := e.buf ++ [s ||| 0x40] }

/-- the colour part of SetCReg: opcode base and payload -/
def cregForm (c : Color) : UInt8 × Bytes :=
  match c.encode1 with
  | some x => (0x80, [x])
  | none =>
  match c.encode2 with
  | some (x, y) => (0x88, [x, y])
  | none =>
  match c.encode3Direct with
  | some (x, y, z) => (0x90, [x, y, z])
  | none =>
  match c.encode4 with
  | some (x, y, z, w) => (0x98, [x, y, z, w])
  | none =>
  match c.encode3Indirect with
  | some (x, y, z) => (0xa0, [x, y, z])
  | none => (0xff, [])   -- Go panics "unreachable"; not reachable for constructible colours

def Encoder.setCReg (e : Encoder) (adj : UInt8) (incr : Bool) (c : Color) : Encoder :=
  let e := e.checkModeStyling
  if e.err.isSome then e else
  if adj > 6 then { e with err := some .invalidSelectorAdjustment } else
  let e := if incr then
      { e with err := if adj ≠ 0 then some .invalidIncrementingAdjustment else e.err,
               cSel := (e.cSel + 1) &&& 0x3f } else e
  let adj := if incr then 7 else adj
  let (base, payload) := cregForm c
  { e with buf := e.buf ++ [adj ||| base] ++ payload }

/-- the number part of SetNReg: tries real, coordinate, zero-to-one; first shortest wins -/
def nregForm (f : F32) : UInt8 × Bytes :=
  let r := encodeReal f
  let best : UInt8 × Bytes := (0xa8, r)
  let c := encodeCoordinate f
  let best := if c.length < best.2.length then (0xb0, c) else best
  let z := encodeZeroToOne f
  if z.length < best.2.length then (0xb8, z) else best

def Encoder.setNReg (e : Encoder) (adj : UInt8) (incr : Bool) (f : F32) : Encoder :=
  let e := e.checkModeStyling
  if e.err.isSome then e else
  if adj > 6 then { e with err := some .invalidSelectorAdjustment } else
  let e := if incr then
      { e with err := if adj ≠ 0 then some .invalidIncrementingAdjustment else e.err,
               nSel := (e.nSel + 1) &&& 0x3f } else e
  let adj := if incr then 7 else adj
  let (opcode, payload) := nregForm f
  { e with buf := e.buf ++ [adj ||| opcode] ++ payload }

def Encoder.setLOD (e : Encoder) (l0 l1 : F32) : Encoder :=
  let e := e.checkModeStyling
  if e.err.isSome then e else
  { e with lod0 := l0, lod1 := l1, buf := e.buf ++ [0xc7] ++ encodeReal l0 ++ encodeReal l1 }

def Encoder.startPath (e : Encoder) (adj : UInt8) (x y : F32) : Encoder :=
  let e := e.checkModeStyling
  if e.err.isSome then e else
  if adj > 6 then { e with err := some .invalidSelectorAdjustment } else
  let hi := e.hiRes
  { e with hiResLocal := hi,
           buf := e.buf ++ [0xc0 + adj] ++ encodeCoordinate (quantize hi x) ++ encodeCoordinate (quantize hi y),
           mode := .drawing }

/-- encode.go:381 draw -/
def Encoder.draw (e : Encoder) (op : DrawOp) (args : List F32) : Encoder :=
  if e.err.isSome then e else
  if e.mode ≠ .drawing then { e with err := some .drawingOpsUsedInStylingMode } else
  let e := if e.drawOp ≠ some op then e.flushDrawOps else e
  let e := { e with drawOp := some op }
  let e := if (opInfo op).nArgs = 0 then e else { e with drawArgs := e.drawArgs ++ [args] }
  match op with
  | .Z => { e with mode := .styling }.flushDrawOps
  | .v2 .Y | .v2 .y => e.flushDrawOps
  | _ => e

def arcFlags (largeArc sweep : Bool) : F32 :=
  F32.ofInt ((if largeArc then 1 else 0) + (if sweep then 2 else 0))

def Encoder.step (e : Encoder) : Call F32 → Encoder
  | .reset vb pal => e.reset vb pal
  | .setCSel v => e.setCSel v
  | .setNSel v => e.setNSel v
  | .setCReg adj incr c => e.setCReg adj incr c
  | .setNReg adj incr f => e.setNReg adj incr f
  | .setLOD l0 l1 => e.setLOD l0 l1
  | .startPath adj x y => e.startPath adj x y
  | .closeEnd => e.draw .Z []
  | .d1 v x => e.draw (.v1 v) [x]
  | .d2 v x y => e.draw (.v2 v) [x, y]
  | .d4 v a b c d => e.draw (.v4 v) [a, b, c, d]
  | .d6 v a b c d x y => e.draw (.v6 v) [a, b, c, d, x, y]
  | .arc rel rx ry rot la sw x y =>
    e.draw (if rel then .arcRel else .arcAbs) [rx, ry, rot, arcFlags la sw, x, y]

/-- histories over the whole Encoder API -/
inductive EncOp
  | call (c : Call F32)
  | readCSel | readNSel | readLOD | bytes
  | setHiRes (b : Bool)
deriving Repr, Inhabited

inductive EncObs
  | sel (v : UInt8)
  | lod (l0 l1 : F32)
  | bytes (r : Except EncErr Bytes)
deriving Repr

def Encoder.stepOp (e : Encoder) : EncOp → Encoder × Option EncObs
  | .call c => (e.step c, none)
  | .readCSel => let (e, v) := e.readCSel; (e, some (.sel v))
  | .readNSel => let (e, v) := e.readNSel; (e, some (.sel v))
  | .readLOD => let (e, a, b) := e.readLOD; (e, some (.lod a b))
  | .bytes => let (e, r) := e.bytes; (e, some (.bytes r))
  | .setHiRes b => ({ e with hiRes := b }, none)

def Encoder.runOps (e : Encoder) : List EncOp → Encoder × List EncObs
  | [] => (e, [])
  | op :: ops =>
    let (e, o) := e.stepOp op
    let (e, os) := e.runOps ops
    (e, match o with | some o => o :: os | none => os)

def Encoder.run (e : Encoder) (cs : List (Call F32)) : Encoder := cs.foldl Encoder.step e

end Ivg.Enc
