import Ivg.Num.F32
/-!
# Go `math.Sin / Cos / Asin / Acos / Atan` (pure-Go amd64 code paths, go1.23.5)

Line-by-line port of `/usr/lib/go-1.23/src/math/{sin,asin,atan,trig_reduce}.go`
onto the bit-exact soft double `Ivg.Num.F64`.

* On amd64 `haveArchSin = haveArchCos = haveArchAsin = haveArchAcos =
  haveArchAtan = false`, so the portable Go code below is what executes.
  `math.Sqrt` is the SQRTSD intrinsic (correctly rounded) = `F64.sqrt`;
  `math.Abs` clears the sign bit = `F64.abs`.
* The amd64 compiler never fuses `x*y + z`; every `*`, `+`, `-`, `/` is one
  correctly-rounded binary64 operation, evaluated in Go's left-to-right
  associativity.  The expressions below are parenthesised exactly like Go
  parses them.
* Every floating constant is the exact bit pattern printed by
  `math.Float64bits(<constant>)` from a Go program (never typed by hand).
  Untyped constant expressions (`4/Pi`, `Pi/2`, `Pi/4`, `0.5*Morebits`) are
  evaluated exactly by Go and rounded to float64 ONCE; the bits below are
  those single roundings.
* The Payne–Hanek path (`trigReduce`, |x| ≥ 2^29) IS implemented
  (`bits.Mul64` / `bits.Add64` / shifts via `Nat`), so `sin`/`cos` are
  bit-exact over the whole double range.  No known limitations.

Validated bit-for-bit against the real Go functions with
`harness/cmd/gomathvec` + `lean/Test/GoMathCheck.lean`.
-/
namespace Ivg.GoMath
open Ivg.Num

/-! ## constants (bits from Go) -/

/-- `math.Pi` -/
def pi : F64 := F64.ofNatBits 0x400921fb54442d18
/-- `Pi/2` rounded once to float64 -/
def piO2 : F64 := F64.ofNatBits 0x3ff921fb54442d18
/-- `Pi/4` rounded once to float64 -/
def piO4 : F64 := F64.ofNatBits 0x3fe921fb54442d18
/-- `math.NaN()` = `Float64frombits(uvnan)`, `uvnan = 0x7FF8000000000001` (bits.go:8,31) -/
def nan : F64 := F64.ofNatBits 0x7ff8000000000001
def half : F64 := F64.ofNatBits 0x3fe0000000000000
def one : F64 := F64.ofNatBits 0x3ff0000000000000

/-- `math.IsInf(x, 0)` -/
def isInf (x : F64) : Bool := x.abs.bits == 0x7ff0000000000000

-- sin.go:93-100  `_sin`
def sin0 : F64 := F64.ofNatBits 0x3de5d8fd1fd19ccd
def sin1 : F64 := F64.ofNatBits 0xbe5ae5e5a9291f5d
def sin2 : F64 := F64.ofNatBits 0x3ec71de3567d48a1
def sin3 : F64 := F64.ofNatBits 0xbf2a01a019bfdf03
def sin4 : F64 := F64.ofNatBits 0x3f8111111110f7d0
def sin5 : F64 := F64.ofNatBits 0xbfc5555555555548
-- sin.go:103-110  `_cos`
def cos0 : F64 := F64.ofNatBits 0xbda8fa49a0861a9b
def cos1 : F64 := F64.ofNatBits 0x3e21ee9d7b4e3f05
def cos2 : F64 := F64.ofNatBits 0xbe927e4f7eac4bc6
def cos3 : F64 := F64.ofNatBits 0x3efa01a019c844f5
def cos4 : F64 := F64.ofNatBits 0xbf56c16c16c14f91
def cos5 : F64 := F64.ofNatBits 0x3fa555555555554b
-- sin.go:126-130 / 193-197
def PI4A : F64 := F64.ofNatBits 0x3fe921fb40000000
def PI4B : F64 := F64.ofNatBits 0x3e64442d00000000
def PI4C : F64 := F64.ofNatBits 0x3ce8469898cc5170
/-- the constant `(4 / Pi)` of sin.go:146/218 converted to float64 -/
def fourOverPi : F64 := F64.ofNatBits 0x3ff45f306dc9c883
/-- trig_reduce.go:22 `reduceThreshold = 1 << 29` as float64 -/
def reduceThreshold : F64 := F64.ofNatBits 0x41c0000000000000

/-! ## trig_reduce.go -/

-- trig_reduce.go:81-102
def mPi4 : Array Nat := #[
  0x0000000000000001, 0x45f306dc9c882a53, 0xf84eafa3ea69bb81, 0xb6c52b3278872083,
  0xfca2c757bd778ac3, 0x6e48dc74849ba5c0, 0x0c925dd413a32439, 0xfc3bd63962534e7d,
  0xd1046bea5d768909, 0xd338e04d68befc82, 0x7323ac7306a673e9, 0x3908bf177bf25076,
  0x3ff12fffbc0b301f, 0xde5e2316b414da3e, 0xda6cfd9e4f96136e, 0x9e8c7ecd3cbfd45a,
  0xea4f758fd7cbe2f6, 0x7a0e73ef14a525d4, 0xd7f6bf623f1aba10, 0xac06608df8f6d757]

def two64 : Nat := 2 ^ 64
/-- Go `a << s` on uint64 with an unsigned shift count (count ≥ 64 gives 0) -/
def shl64 (a s : Nat) : Nat := if s ≥ 64 then 0 else (a * 2 ^ s) % two64
/-- Go `a >> s` on uint64 with an unsigned shift count (count ≥ 64 gives 0) -/
def shr64 (a s : Nat) : Nat := if s ≥ 64 then 0 else a / 2 ^ s
/-- Go `a >> (64 - k)` where `64 - k` is computed in `uint` (wraps to a huge count when k > 64) -/
def shr64c (a k : Nat) : Nat := if k > 64 then 0 else shr64 a (64 - k)

/-- trig_reduce.go:31-75 `trigReduce` (x > 0, finite) -/
def trigReduce (x : F64) : Nat × F64 :=
  -- :32-35
  if x < piO4 then (0, x) else
  -- :38-41   shift = 52, mask = 0x7FF, bias = 1023
  let ix0 := x.bits.toNat
  let exp : Int := ((ix0 / 2 ^ 52 % 2048 : Nat) : Int) - 1023 - 52
  let ix := ix0 % 2 ^ 52 + 2 ^ 52
  -- :45
  let u := (exp + 61).toNat
  let digit := u / 64
  let bitshift := u % 64
  -- :46-48
  let d0 := mPi4.getD digit 0
  let d1 := mPi4.getD (digit + 1) 0
  let d2 := mPi4.getD (digit + 2) 0
  let d3 := mPi4.getD (digit + 3) 0
  let z0 := shl64 d0 bitshift ||| shr64c d1 bitshift
  let z1 := shl64 d1 bitshift ||| shr64c d2 bitshift
  let z2 := shl64 d2 bitshift ||| shr64c d3 bitshift
  -- :50-54
  let z2hi := z2 * ix / two64
  let z1hi := z1 * ix / two64
  let z1lo := z1 * ix % two64
  let z0lo := z0 * ix % two64
  let lo := (z1lo + z2hi) % two64
  let c := (z1lo + z2hi) / two64
  let hi := (z0lo + z1hi + c) % two64
  -- :56
  let j := hi / 2 ^ 61
  -- :58
  let hi := shl64 hi 3 ||| shr64 lo 61
  -- :59-60
  let lz := 64 - bitLen hi
  let e := 1023 - (lz + 1)
  -- :62-65
  let hi := shl64 hi (lz + 1) ||| shr64c lo (lz + 1)
  let hi := shr64 hi 12
  let hi := hi ||| shl64 e 52
  -- :66
  let z := F64.ofNatBits hi
  -- :68-72
  let odd := j % 2 == 1
  let j := if odd then (j + 1) % 8 else j
  let z := if odd then z - one else z
  -- :74
  (j, z * piO4)

/-- sin.go:143-156 / 215-228: octant `j` (already `&7`) and reduced argument `z` for x ≥ 0 finite -/
def reduce (x : F64) : Nat × F64 :=
  if reduceThreshold ≤ x then trigReduce x
  else
    let j := (F64.toInt64 (x * fourOverPi)).toNat   -- j = uint64(x * (4 / Pi))
    let y := F64.ofInt j                            -- y = float64(j)
    let odd := j % 2 == 1                           -- if j&1 == 1 { j++; y++ }
    let j := if odd then j + 1 else j
    let y := if odd then y + one else y
    let j := j % 8                                  -- j &= 7
    (j, ((x - y * PI4A) - y * PI4B) - y * PI4C)

/-- `z + z*zz*((((((_sin[0]*zz)+_sin[1])*zz+_sin[2])*zz+_sin[3])*zz+_sin[4])*zz+_sin[5])` (sin.go:168/238) -/
def sinPoly (z zz : F64) : F64 :=
  z + ((z * zz) * ((((((sin0 * zz) + sin1) * zz + sin2) * zz + sin3) * zz + sin4) * zz + sin5))

/-- `1.0 - 0.5*zz + zz*zz*((((((_cos[0]*zz)+_cos[1])*zz+_cos[2])*zz+_cos[3])*zz+_cos[4])*zz+_cos[5])` (sin.go:170/236) -/
def cosPoly (zz : F64) : F64 :=
  (one - half * zz) + ((zz * zz) * ((((((cos0 * zz) + cos1) * zz + cos2) * zz + cos3) * zz + cos4) * zz + cos5))

/-- sin.go:125-176 `cos` -/
def cos (x : F64) : F64 :=
  -- :132-135
  if x.isNaN || isInf x then nan else
  -- :138-139
  let x := x.abs
  -- :141-156
  let jz := reduce x
  let j := jz.1
  let z := jz.2
  -- :158-161
  let sign := j > 3
  let j := if j > 3 then j - 4 else j
  -- :162-164
  let sign := if j > 1 then !sign else sign
  -- :166-171
  let zz := z * z
  let y := if j == 1 || j == 2 then sinPoly z zz else cosPoly zz
  -- :172-175
  if sign then -y else y

/-- sin.go:192-244 `sin` -/
def sin (x : F64) : F64 :=
  -- :199-204
  if x.feq 0 || x.isNaN then x
  else if isInf x then nan else
  -- :207-211
  let sign := decide (x < 0)
  let x := if sign then -x else x
  -- :213-228
  let jz := reduce x
  let j := jz.1
  let z := jz.2
  -- :230-233
  let sign := if j > 3 then !sign else sign
  let j := if j > 3 then j - 4 else j
  -- :234-239
  let zz := z * z
  let y := if j == 1 || j == 2 then cosPoly zz else sinPoly z zz
  -- :240-243
  if sign then -y else y

/-! ## atan.go -/

-- atan.go:56-67
def P0 : F64 := F64.ofNatBits 0xbfec007fa1f72594
def P1 : F64 := F64.ofNatBits 0xc03028545b6b807a
def P2 : F64 := F64.ofNatBits 0xc052c08c36880273
def P3 : F64 := F64.ofNatBits 0xc05eb8bf2d05ba25
def P4 : F64 := F64.ofNatBits 0xc0503669fd28ec8e
def Q0 : F64 := F64.ofNatBits 0x4038dbc45b14603c
def Q1 : F64 := F64.ofNatBits 0x4064a0dd43b8fa25
def Q2 : F64 := F64.ofNatBits 0x407b0e18d2e2be3b
def Q3 : F64 := F64.ofNatBits 0x407e563f13b049ea
def Q4 : F64 := F64.ofNatBits 0x4068519efbbd62ec
-- atan.go:77-80
def Morebits : F64 := F64.ofNatBits 0x3c91a62633145c07
/-- the constant expression `0.5*Morebits` (atan.go:87) -/
def halfMorebits : F64 := F64.ofNatBits 0x3c81a62633145c07
def Tan3pio8 : F64 := F64.ofNatBits 0x4003504f333f9de6
/-- `0.66` (atan.go:81) -/
def c066 : F64 := F64.ofNatBits 0x3fe51eb851eb851f
/-- `0.7` (asin.go:41) -/
def c07 : F64 := F64.ofNatBits 0x3fe6666666666666

/-- atan.go:55-72 `xatan` -/
def xatan (x : F64) : F64 :=
  let z := x * x                                                          -- :68
  let z := (z * ((((P0 * z + P1) * z + P2) * z + P3) * z + P4)) /
           (((((z + Q0) * z + Q1) * z + Q2) * z + Q3) * z + Q4)           -- :69
  x * z + x                                                               -- :70

/-- atan.go:76-88 `satan` -/
def satan (x : F64) : F64 :=
  if x ≤ c066 then xatan x                                                -- :81-83
  else if Tan3pio8 < x then (piO2 - xatan (one / x)) + Morebits           -- :84-86
  else (piO4 + xatan ((x - one) / (x + one))) + halfMorebits              -- :87

/-- atan.go:103-111 `atan` -/
def atan (x : F64) : F64 :=
  if x.feq 0 then x                                                       -- :104-106
  else if (0 : F64) < x then satan x                                      -- :107-109
  else -(satan (-x))                                                      -- :110

/-! ## asin.go -/

/-- asin.go:27-51 `asin` -/
def asin (x : F64) : F64 :=
  if x.feq 0 then x else                                                  -- :28-30
  let sign := decide (x < 0)                                              -- :31-35
  let x := if sign then -x else x
  if one < x then nan else                                                -- :36-38
  let temp := F64.sqrt (one - x * x)                                      -- :40
  let temp := if c07 < x then piO2 - satan (temp / x)                     -- :41-42
              else satan (x / temp)                                       -- :43-45
  if sign then -temp else temp                                            -- :47-50

/-- asin.go:65-67 `acos` -/
def acos (x : F64) : F64 := piO2 - asin x

end Ivg.GoMath
