import Ivg.Model.Color
/-!
# Model of `encode/buffer.go`
Each `encodeXxx` returns the bytes the Go method appends.
-/
namespace Ivg.Enc
open Ivg Num

@[inline] def byte (n : Nat) : UInt8 := UInt8.ofNat (n % 256)

/-- buffer.go:19 encodeNatural (argument is a Go uint32) -/
def encodeNatural (u : Nat) : Bytes :=
  if u < 128 then [byte (u * 2)]
  else if u < 16384 then
    let v := u * 4 + 1
    [byte v, byte (v / 256)]
  else
    let v := (u * 4) % 2 ^ 32 + 3   -- (u << 2) | 3 in uint32
    [byte v, byte (v / 256), byte (v / 65536), byte (v / 16777216)]

/-- buffer.go:49 encode4ByteReal -/
def encode4ByteReal (f : F32) : Bytes :=
  let u := f.bits.toNat
  let v := u % 0x800000
  let v := if v < 0x7ffffe then v + 2 else v
  let u := u / 0x800000 * 0x800000 + v
  let u := u / 4 * 4 + 3      -- u |= 0x03
  [byte u, byte (u / 256), byte (u / 65536), byte (u / 16777216)]

/-- buffer.go:34 encodeReal -/
def encodeReal (f : F32) : Bytes :=
  let u := f.toUInt32.toNat
  if (F32.ofInt u).feq f ∧ u < 16384 then
    if u < 128 then [byte (u * 2)]
    else
      let v := u * 4 + 1
      [byte v, byte (v / 256)]
  else encode4ByteReal f

/-- buffer.go:65 encodeCoordinate -/
def encodeCoordinate (f : F32) : Bytes :=
  let i := f.toInt32
  if -64 ≤ i ∧ i < 64 ∧ (F32.ofInt i).feq f then
    [byte ((i + 64).toNat * 2)]
  else
    let f64 := f * (F32.ofInt 64)
    let i := f64.toInt32
    if -128 * 64 ≤ i ∧ i < 128 * 64 ∧ (F32.ofInt i).feq f64 then
      let v := (i + 128 * 64).toNat * 4 + 1
      [byte v, byte (v / 256)]
    else encode4ByteReal f

/-- buffer.go:90 encodeZeroToOne -/
def encodeZeroToOne (f : F32) : Bytes :=
  let g := f * (F32.ofInt 15120)
  let u := g.toUInt32.toNat
  if (F32.ofInt u).feq g ∧ u < 15120 then
    if u % 126 = 0 then [byte (u / 126 * 2)]
    else
      let v := u * 4 + 1
      [byte v, byte (v / 256)]
  else encode4ByteReal f

/-- buffer.go:83 encodeAngle -/
def encodeAngle (f : F32) : Bytes :=
  let g := F64.ofF32 f
  let g := g - g.floor
  encodeZeroToOne g.toF32

def encodeColor1 (c : Color) : Bytes :=
  match c.encode1 with | some x => [x] | none => [0x00]
def encodeColor2 (c : Color) : Bytes :=
  match c.encode2 with | some (x, y) => [x, y] | none => [0x00, 0x0f]
def encodeColor3Direct (c : Color) : Bytes :=
  match c.encode3Direct with | some (x, y, z) => [x, y, z] | none => [0, 0, 0]
def encodeColor4 (c : Color) : Bytes :=
  match c.encode4 with | some (x, y, z, w) => [x, y, z, w] | none => [0, 0, 0, 0xff]
def encodeColor3Indirect (c : Color) : Bytes :=
  match c.encode3Indirect with | some (x, y, z) => [x, y, z] | none => [0, 0, 0]

end Ivg.Enc
