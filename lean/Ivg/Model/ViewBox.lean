import Ivg.Arith
import Ivg.Model.Color
/-!
# Model of `ivg.go`: ViewBox.Size / AspectMeet / AspectSlice (number-generic)
-/
namespace Ivg
variable {α : Type} [Arith α]

/-- ivg.go:36 Size -/
def ViewBox.size (v : ViewBox α) : α × α := (v.maxX - v.minX, v.maxY - v.minY)

/-- ivg.go:44 AspectMeet -/
def ViewBox.aspectMeet (v : ViewBox α) (dx dy ax ay : α) : α × α × α × α :=
  let (vdx0, vdy0) := v.size
  let vbAR := vdx0 / vdy0
  let (vdx, vdy) := if dx / dy < vbAR then (dx, dx / vbAR) else (dy * vbAR, dy)
  let minX := (dx - vdx) * ax
  let maxX := minX + vdx
  let minY := (dy - vdy) * ay
  let maxY := minY + vdy
  (minX, minY, maxX, maxY)

/-- ivg.go:64 AspectSlice -/
def ViewBox.aspectSlice (v : ViewBox α) (dx dy ax ay : α) : α × α × α × α :=
  let (vdx0, vdy0) := v.size
  let vbAR := vdx0 / vdy0
  let (vdx, vdy) := if dx / dy < vbAR then (dy * vbAR, dy) else (dx, dx / vbAR)
  -- the far edges are measured from the target's far edges (so that the target stays covered)
  let one : α := Arith.ofInt 1
  let minX := (dx - vdx) * ax
  let maxX := dx - (dx - vdx) * (one - ax)
  let minY := (dy - vdy) * ay
  let maxY := dy - (dy - vdy) * (one - ay)
  (minX, minY, maxX, maxY)

end Ivg
