import Ivg.Arith
import Ivg.Model.Color
/-!
# Model of `generate/generate.go` (number-generic)

A Generator helper reads the destination's selectors and makes Destination calls; the model is a
function from the read-back selector values to the list of calls (or the error returned before any call).
-/
namespace Ivg.Gen
open Ivg

inductive GenErr
  | cselUsedAsBothGradientAndStop
  | tooManyGradientStops
  | unrecognizedPathDataVerb (verb : Char)
  | parseFloat            -- strconv.ParseFloat failed on a token
  | malformed             -- Go would index out of range (outside the supported dialect)
deriving DecidableEq, Repr, Inhabited

def GenErr.message : GenErr → String
  | .cselUsedAsBothGradientAndStop => "ivg: CSEL used as both gradient and stop"
  | .tooManyGradientStops => "ivg: too many gradient stops"
  | .unrecognizedPathDataVerb v => s!"ivg: unrecognized path data verb ({v})"
  | .parseFloat => "parse-float-error"
  | .malformed => "PANIC"

/-- generate.go:29 Aff3 -/
structure Aff3 (α : Type) where
  a0 : α
  a1 : α
  a2 : α
  a3 : α
  a4 : α
  a5 : α
deriving Repr, Inhabited, DecidableEq

variable {α : Type} [Arith α]

private def i (n : Int) : α := Arith.ofInt n

def Aff3.identity : Aff3 α := ⟨i 1, i 0, i 0, i 0, i 1, i 0⟩
def translate (x y : α) : Aff3 α := ⟨i 1, i 0, x, i 0, i 1, y⟩
def scale2 (sx sy : α) : Aff3 α := ⟨sx, i 0, i 0, i 0, sy, i 0⟩

/-- generate.go:50 Concat -/
def concat : List (Aff3 α) → Aff3 α
  | [] => Aff3.identity
  | [a] => a
  | affs => affs.foldl (fun a b =>
      ⟨a.a0 * b.a0 + a.a3 * b.a1, a.a1 * b.a0 + a.a4 * b.a1, a.a2 * b.a0 + a.a5 * b.a1 + b.a2,
       a.a0 * b.a3 + a.a3 * b.a4, a.a1 * b.a3 + a.a4 * b.a4, a.a2 * b.a3 + a.a5 * b.a4 + b.a5⟩) Aff3.identity

/-- generate.go:68 MulAff3 -/
def mulAff3 (x y : α) (a : Aff3 α) : α × α :=
  (x * a.a0 + y * a.a1 + a.a2, x * a.a3 + y * a.a4 + a.a5)

/-- generate.go:187 SetGradient.  `stops` carry the colour after `Color.RGBA()>>8`. -/
def setGradient (cSel nSel : UInt8) (shape spread : UInt8) (stops : List (α × RGBA)) (t : Aff3 α) :
    Except GenErr (List (Call α)) :=
  let cBase : UInt8 := 10
  let nBase : UInt8 := 10
  if stops.length > 64 - 6 then .error .tooManyGradientStops else
  let nStops : UInt8 := UInt8.ofNat stops.length
  let x := cSel
  let y := cSel + 64
  if (cBase ≤ x ∧ x < cBase + nStops) ∨ (cBase ≤ y ∧ y < cBase + nStops) then
    .error .cselUsedAsBothGradientAndStop
  else
    .ok ([.setCReg 0 false (Color.rgbaColor (encodeGradient cBase nBase shape spread nStops)),
          .setCSel cBase, .setNSel nBase,
          .setNReg 6 false t.a0, .setNReg 5 false t.a1, .setNReg 4 false t.a2,
          .setNReg 3 false t.a3, .setNReg 2 false t.a4, .setNReg 1 false t.a5] ++
         stops.flatMap (fun (off, c) => [.setCReg 0 true (Color.rgbaColor c), .setNReg 0 true off]) ++
         [.setCSel cSel, .setNSel nSel])

/-- generate.go:107 SetLinearGradient: the matrix -/
def linearMatrix (x1 y1 x2 y2 : α) : Aff3 α :=
  let dx := x2 - x1
  let dy := y2 - y1
  let d := dx * dx + dy * dy
  let ma := dx / d
  let mb := dy / d
  ⟨ma, mb, -ma * x1 - mb * y1, i 0, i 0, i 0⟩

/-- generate.go:124 SetCircularGradient: the matrix (needs float64 sqrt) -/
def circularMatrix {β : Type} [Arith β] [Wide α β] (cx cy rx ry : α) : Aff3 α :=
  let invR : α := Wide.narrow ((Arith.ofInt 1 : β) / Wide.sqrt (α := α) (Wide.widen (rx * rx + ry * ry)))
  ⟨invR, i 0, -cx * invR, i 0, invR, -cy * invR⟩

/-- generate.go:140 SetEllipticalGradient: the matrix -/
def ellipticalMatrix (cx cy rx ry sx sy : α) : Aff3 α :=
  let invRSSR := i 1 / (rx * sy - sx * ry)
  let ma := sy * invRSSR
  let mb := -sx * invRSSR
  let mc := -(ma * cx) - mb * cy
  let md := -ry * invRSSR
  let me := rx * invRSSR
  let mf := -(md * cx) - me * cy
  ⟨ma, mb, mc, md, me, mf⟩

/-! ## SetPathData -/

def isDigit (c : Char) : Bool := '0' ≤ c ∧ c ≤ '9'

/-- value of a decimal token `[+-]?digits[.digits]` as (neg, n, k) meaning ±n/10^k; `none` if
    `strconv.ParseFloat` would reject it -/
def parseDecimal (tok : List Char) : Option (Bool × Nat × Nat) :=
  let (neg, rest) := match tok with
    | '-' :: r => (true, r)
    | '+' :: r => (false, r)
    | r => (false, r)
  let intPart := rest.takeWhile isDigit
  let rest' := rest.dropWhile isDigit
  let (frac, tail, hadDot) := match rest' with
    | '.' :: r => (r.takeWhile isDigit, r.dropWhile isDigit, true)
    | r => ([], r, false)
  if tail ≠ [] ∨ (intPart = [] ∧ frac = []) then none else
  let _ := hadDot
  let digits := intPart ++ frac
  let n := digits.foldl (fun acc c => acc * 10 + (c.toNat - '0'.toNat)) 0
  some (neg, n, frac.length)

/-- the token-length scan of generate.go:316: returns `j` -/
def scanTokenLen : Nat → Nat → List Char → Option Nat
  | _, _, [] => none                       -- d[j] out of range: Go panics
  | nDots, j, c :: rest =>
    if isDigit c then scanTokenLen nDots (j + 1) rest
    else if c = '.' then
      if nDots + 1 = 1 then scanTokenLen 1 (j + 1) rest else some j
    else some j

/-- generate.go:310 scan: reads `n` numbers -/
def scanArgs : Nat → List Char → Except GenErr (List α × List Char)
  | 0, d => .ok ([], d)
  | n + 1, d =>
    match d with
    | [] => .error .malformed
    | c0 :: rest0 =>
      let nDots := if c0 = '.' then 1 else 0
      match scanTokenLen nDots 1 rest0 with
      | none => .error .malformed
      | some j =>
        match parseDecimal (d.take j) with
        | none => .error .parseFloat
        | some (neg, num, k) =>
          let v : α := Arith.ofDecimalVia64 neg num k
          let rest := (d.drop j).dropWhile (fun c => c = ' ' ∨ c = ',')
          -- Go indexes d[j] while skipping separators: running off the end panics
          if rest = [] then .error .malformed else
          match scanArgs n rest with
          | .error e => .error e
          | .ok (vs, d') => .ok (v :: vs, d')

def isLower (v : Char) : Bool := 'a' ≤ v ∧ v ≤ 'z'

/-- generate.go:347 normalize (the live branch) on the first `n` arguments -/
def normalizeArgs (args : List α) (n : Nat) (verb : Char) (transforms : List (Aff3 α)) : List α :=
  if transforms.isEmpty then args else
  let transform0 := concat transforms
  let scale : Aff3 α := ⟨transform0.a0, i 0, i 0, i 0, transform0.a4, i 0⟩
  let transform := if isLower verb then scale else transform0
  match n, args with
  | 7, [a0, a1, a2, a3, a4, a5, a6] =>
    let (r0, r1) := mulAff3 a0 a1 scale
    let (r5, r6) := mulAff3 a5 a6 transform
    [r0, r1, a2, a3, a4, r5, r6]
  | 6, [a0, a1, a2, a3, a4, a5] =>
    let (r4, r5) := mulAff3 a4 a5 transform
    let (r2, r3) := mulAff3 a2 a3 transform
    let (r0, r1) := mulAff3 a0 a1 transform
    [r0, r1, r2, r3, r4, r5]
  | 4, [a0, a1, a2, a3] =>
    let (r2, r3) := mulAff3 a2 a3 transform
    let (r0, r1) := mulAff3 a0 a1 transform
    [r0, r1, r2, r3]
  | 2, [a0, a1] =>
    let (r0, r1) := mulAff3 a0 a1 transform
    [r0, r1]
  | 1, [a0] =>
    if verb = 'H' ∨ verb = 'h' then [(mulAff3 a0 (i 0) transform).1]
    else if verb = 'V' ∨ verb = 'v' then [(mulAff3 (i 0) a0 transform).2]
    else [a0]
  | _, args => args

def verbArgCount (verb : Char) : Option Nat :=
  match verb with
  | 'H' | 'h' | 'V' | 'v' => some 1
  | 'L' | 'l' | 'M' | 'm' | 'T' | 't' => some 2
  | 'Q' | 'q' | 'S' | 's' => some 4
  | 'C' | 'c' => some 6
  | 'A' | 'a' => some 7
  | 'Z' | 'z' => some 0
  | _ => none

def emitVerb (verb : Char) (adj : UInt8) (a : List α) : Except GenErr (List (Call α)) :=
  match verb, a with
  | 'H', [x] => .ok [.d1 .H x]
  | 'h', [x] => .ok [.d1 .h x]
  | 'V', [x] => .ok [.d1 .V x]
  | 'v', [x] => .ok [.d1 .v x]
  | 'L', [x, y] => .ok [.d2 .L x y]
  | 'l', [x, y] => .ok [.d2 .l x y]
  | '@', [x, y] => .ok [.startPath adj x y]
  | 'M', [x, y] => .ok [.d2 .Y x y]
  | 'm', [x, y] => .ok [.d2 .y x y]
  | 'T', [x, y] => .ok [.d2 .T x y]
  | 't', [x, y] => .ok [.d2 .t x y]
  | 'Q', [x1, y1, x, y] => .ok [.d4 .Q x1 y1 x y]
  | 'q', [x1, y1, x, y] => .ok [.d4 .q x1 y1 x y]
  | 'S', [x1, y1, x, y] => .ok [.d4 .S x1 y1 x y]
  | 's', [x1, y1, x, y] => .ok [.d4 .s x1 y1 x y]
  | 'C', [x1, y1, x2, y2, x, y] => .ok [.d6 .C x1 y1 x2 y2 x y]
  | 'c', [x1, y1, x2, y2, x, y] => .ok [.d6 .c x1 y1 x2 y2 x y]
  | 'A', [rx, ry, rot, la, sw, x, y] =>
    .ok [.arc false rx ry (rot / i 360) (!Arith.feq la (i 0)) (!Arith.feq sw (i 0)) x y]
  | 'a', [rx, ry, rot, la, sw, x, y] =>
    .ok [.arc true rx ry (rot / i 360) (!Arith.feq la (i 0)) (!Arith.feq sw (i 0)) x y]
  | 'Z', _ => .ok []
  | 'z', _ => .ok []
  | v, _ => .error (.unrecognizedPathDataVerb v)

/-- the loop of generate.go:214 SetPathData; fuel = remaining length + 1 -/
def pathLoop (transforms : List (Aff3 α)) (adj : UInt8) :
    Nat → (start : Bool) → (prevN : Nat) → (prevVerb : Option Char) → List Char → Except GenErr (List (Call α))
  | 0, _, _, _, _ => .error .malformed
  | fuel + 1, start, prevN, prevVerb, d =>
    if d = ['z'] then .ok [.closeEnd] else
    match d with
    | [] => .error .malformed
    | v0 :: dTail =>
      let step : Except GenErr (Nat × Char × Bool) :=
        match verbArgCount v0 with
        | some n => .ok (n, v0, false)
        | none =>
          match prevVerb with
          | none => .error (.unrecognizedPathDataVerb v0)
          | some pv => .ok (prevN, pv, true)
      match step with
      | .error e => .error e
      | .ok (n, verb, implicit) =>
        let prevVerb' := if verb = 'M' then 'L' else if verb = 'm' then 'l' else verb
        let verb' := if start then '@' else verb
        let d1 := if implicit then d else dTail
        match scanArgs (α := α) n d1 with
        | .error e => .error e
        | .ok (args, d2) =>
          let args := normalizeArgs args n verb' transforms
          match emitVerb verb' adj args with
          | .error e => .error e
          | .ok calls =>
            -- implicit repeats of a zero-argument verb would not consume input
            if implicit ∧ n = 0 then .error .malformed else
            match pathLoop transforms adj fuel false n (some prevVerb') d2 with
            | .error e => .error e
            | .ok rest => .ok (calls ++ rest)

def setPathData (transforms : List (Aff3 α)) (d : String) (adj : UInt8) : Except GenErr (List (Call α)) :=
  pathLoop transforms adj (d.length + 1) true 0 none d.toList

end Ivg.Gen
