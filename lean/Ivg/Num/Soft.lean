/-!
# Soft IEEE-754 binary floating point (core Lean only)

One parametric implementation over bit patterns (`Nat`), instantiated for
binary32 (`F32`) and binary64 (`F64`) in `Ivg/Num/F32.lean`, `F64.lean`.

Every operation is exact integer arithmetic on the decoded `±m·2^e` pairs
followed by ONE rounding (`roundPack`, round-to-nearest-even).  Division and
square root produce a truncated result with a sticky flag which is folded into
the mantissa as an extra low bit before rounding.

NaN handling follows x86-64 SSE: an invalid operation yields the "real
indefinite" quiet NaN (sign set, top mantissa bit set); a NaN operand is
propagated quieted (first operand first).
-/

namespace Ivg.Num

structure Fmt where
  mbits : Nat   -- explicit mantissa bits (23 / 52)
  ebits : Nat   -- exponent bits (8 / 11)
deriving Repr, DecidableEq

namespace Fmt
def f32 : Fmt := ⟨23, 8⟩
def f64 : Fmt := ⟨52, 11⟩
@[inline] def prec (f : Fmt) : Nat := f.mbits + 1
@[inline] def bias (f : Fmt) : Nat := 2 ^ (f.ebits - 1) - 1
/-- exponent of the least significant bit of subnormals -/
@[inline] def emin (f : Fmt) : Int := 1 - (f.bias : Int) - (f.mbits : Int)
@[inline] def expMax (f : Fmt) : Nat := 2 ^ f.ebits - 1
@[inline] def signBit (f : Fmt) : Nat := 2 ^ (f.mbits + f.ebits)
@[inline] def infBits (f : Fmt) : Nat := f.expMax * 2 ^ f.mbits
@[inline] def quietBit (f : Fmt) : Nat := 2 ^ (f.mbits - 1)
/-- x86 "real indefinite" -/
@[inline] def defaultNaN (f : Fmt) : Nat := f.signBit + f.infBits + f.quietBit
@[inline] def width (f : Fmt) : Nat := f.mbits + f.ebits + 1
end Fmt

/-- unpacked value -/
inductive Unp where
  | nan (bits : Nat)            -- original bit pattern
  | inf (neg : Bool)
  | fin (neg : Bool) (m : Nat) (e : Int)   -- ±m·2^e, m may be 0
deriving Repr, DecidableEq

def unpack (f : Fmt) (b : Nat) : Unp :=
  let neg := b / f.signBit % 2 == 1
  let ex := b / 2 ^ f.mbits % 2 ^ f.ebits
  let mt := b % 2 ^ f.mbits
  if ex == f.expMax then
    if mt == 0 then .inf neg else .nan b
  else if ex == 0 then .fin neg mt f.emin
  else .fin neg (mt + 2 ^ f.mbits) ((ex : Int) - 1 + f.emin)

@[inline] def bitLen (m : Nat) : Nat := if m == 0 then 0 else Nat.log2 m + 1

/-- magnitude bits (no sign) of round-to-nearest-even of `m·2^e`, `m > 0`;
    returns `infBits` on overflow. -/
def roundMag (f : Fmt) (m : Nat) (e : Int) : Nat :=
  let e0 : Int := e + (bitLen m : Int) - (f.prec : Int)
  let fe : Int := if e0 < f.emin then f.emin else e0
  let q : Nat :=
    if fe ≤ e then m * 2 ^ (e - fe).toNat
    else
      let s := (fe - e).toNat
      let q0 := m / 2 ^ s
      let r := m % 2 ^ s
      let half := 2 ^ (s - 1)
      if r > half || (r == half && q0 % 2 == 1) then q0 + 1 else q0
  let bits := (fe - f.emin).toNat * 2 ^ f.mbits + q
  if bits ≥ f.infBits then f.infBits else bits

def withSign (f : Fmt) (neg : Bool) (mag : Nat) : Nat :=
  if neg then f.signBit + mag else mag

/-- round `±(m + sticky·ε)·2^e`; `m` must carry at least `prec+2` bits when
    `sticky` is set. -/
def roundPack (f : Fmt) (neg : Bool) (m : Nat) (e : Int) (sticky : Bool := false) : Nat :=
  if m == 0 && !sticky then withSign f neg 0
  else if sticky then withSign f neg (roundMag f (2 * m + 1) (e - 1))
  else withSign f neg (roundMag f m e)

def quiet (f : Fmt) (b : Nat) : Nat :=
  if b / f.quietBit % 2 == 1 then b else b + f.quietBit

def isNaN (f : Fmt) (b : Nat) : Bool :=
  b % f.signBit > f.infBits

/-- SSE NaN propagation for a binary operation -/
def propNaN (f : Fmt) (a b : Nat) : Nat :=
  if isNaN f a then quiet f a else quiet f b

def neg (f : Fmt) (a : Nat) : Nat :=
  if a ≥ f.signBit then a - f.signBit else a + f.signBit

def abs (f : Fmt) (a : Nat) : Nat := a % f.signBit

def add (f : Fmt) (a b : Nat) : Nat :=
  match unpack f a, unpack f b with
  | .nan _, _ => propNaN f a b
  | _, .nan _ => propNaN f a b
  | .inf s, .inf t => if s == t then a else f.defaultNaN
  | .inf _, _ => a
  | _, .inf _ => b
  | .fin s m e, .fin t n g =>
    let e0 := if e ≤ g then e else g
    let x : Int := (m * 2 ^ (e - e0).toNat : Nat)
    let y : Int := (n * 2 ^ (g - e0).toNat : Nat)
    let x := if s then -x else x
    let y := if t then -y else y
    let z := x + y
    if z == 0 then
      -- exact zero: -0 only if both operands negative(-zero) in RNE
      withSign f (s && t) 0
    else roundPack f (z < 0) z.natAbs e0

def sub (f : Fmt) (a b : Nat) : Nat :=
  -- a - b = a + (-b) except NaN propagation keeps b's own bits
  if isNaN f a || isNaN f b then propNaN f a b else add f a (neg f b)

def mul (f : Fmt) (a b : Nat) : Nat :=
  match unpack f a, unpack f b with
  | .nan _, _ => propNaN f a b
  | _, .nan _ => propNaN f a b
  | .inf s, .inf t => withSign f (s != t) f.infBits
  | .inf s, .fin t n _ => if n == 0 then f.defaultNaN else withSign f (s != t) f.infBits
  | .fin s m _, .inf t => if m == 0 then f.defaultNaN else withSign f (s != t) f.infBits
  | .fin s m e, .fin t n g => roundPack f (s != t) (m * n) (e + g)

def div (f : Fmt) (a b : Nat) : Nat :=
  match unpack f a, unpack f b with
  | .nan _, _ => propNaN f a b
  | _, .nan _ => propNaN f a b
  | .inf _, .inf _ => f.defaultNaN
  | .inf s, .fin t _ _ => withSign f (s != t) f.infBits
  | .fin s _ _, .inf t => withSign f (s != t) 0
  | .fin s m e, .fin t n g =>
    if n == 0 then
      if m == 0 then f.defaultNaN else withSign f (s != t) f.infBits
    else if m == 0 then withSign f (s != t) 0
    else
      let k := f.prec + 3 + bitLen n - bitLen m   -- Nat subtraction truncates at 0
      let num := m * 2 ^ k
      roundPack f (s != t) (num / n) (e - g - (k : Int)) (num % n != 0)

def sqrt (f : Fmt) (a : Nat) : Nat :=
  match unpack f a with
  | .nan _ => quiet f a
  | .inf s => if s then f.defaultNaN else a
  | .fin s m e =>
    if m == 0 then a
    else if s then f.defaultNaN
    else
      -- scale so that the exponent is even and the radicand has ≥ 2·prec+6 bits
      let k0 := 2 * f.prec + 6 - bitLen m
      let k := if (e - (k0 : Int)) % 2 == 0 then k0 else k0 + 1
      let r := m * 2 ^ k
      let q := Nat.sqrt r
      roundPack f false q ((e - (k : Int)) / 2) (q * q != r)

/-- floor; keeps the sign of zero results as Go's math.Floor does -/
def floor (f : Fmt) (a : Nat) : Nat :=
  match unpack f a with
  | .nan _ => quiet f a
  | .inf _ => a
  | .fin s m e =>
    if e ≥ 0 then a
    else
      let sh := (-e).toNat
      let q := m / 2 ^ sh
      let r := m % 2 ^ sh
      let q := if s && r != 0 then q + 1 else q
      roundPack f s q 0

def ceil (f : Fmt) (a : Nat) : Nat := neg f (floor f (neg f a))

/-- IEEE comparisons -/
def toOrd (f : Fmt) (a : Nat) : Option Int :=
  -- a totally ordered key for non-NaN values with -0 = +0
  if isNaN f a then none
  else if a ≥ f.signBit then some (-((a - f.signBit : Nat) : Int)) else some (a : Int)

def lt (f : Fmt) (a b : Nat) : Bool :=
  match toOrd f a, toOrd f b with
  | some x, some y => x < y
  | _, _ => false
def le (f : Fmt) (a b : Nat) : Bool :=
  match toOrd f a, toOrd f b with
  | some x, some y => x ≤ y
  | _, _ => false
def eq (f : Fmt) (a b : Nat) : Bool :=
  match toOrd f a, toOrd f b with
  | some x, some y => x == y
  | _, _ => false

/-- exact conversion from an integer -/
def ofInt (f : Fmt) (i : Int) : Nat :=
  if i == 0 then 0 else roundPack f (i < 0) i.natAbs 0

/-- truncation toward zero to an integer; `none` for NaN/Inf -/
def truncInt (f : Fmt) (a : Nat) : Option Int :=
  match unpack f a with
  | .nan _ => none
  | .inf _ => none
  | .fin s m e =>
    let q : Nat := if e ≥ 0 then m * 2 ^ e.toNat else m / 2 ^ (-e).toNat
    some (if s then -(q : Int) else (q : Int))

/-- format conversion (rounding when narrowing); NaN payload is kept in the top bits -/
def convert (src dst : Fmt) (a : Nat) : Nat :=
  match unpack src a with
  | .nan _ =>
    let neg := a / src.signBit % 2 == 1
    let mt := a % 2 ^ src.mbits
    let mt' := if dst.mbits ≥ src.mbits then mt * 2 ^ (dst.mbits - src.mbits)
               else mt / 2 ^ (src.mbits - dst.mbits)
    quiet dst (withSign dst neg (dst.infBits + mt'))
  | .inf s => withSign dst s dst.infBits
  | .fin s m e => roundPack dst s m e

end Ivg.Num
