import Ivg.Num.Soft
/-!
# binary32 / binary64 wrappers and the Go conversions used by ivg (amd64 semantics)
-/
namespace Ivg.Num

structure F32 where
  bits : UInt32
deriving DecidableEq, Repr, Inhabited, Hashable

structure F64 where
  bits : UInt64
deriving DecidableEq, Repr, Inhabited, Hashable

namespace F32
@[inline] def ofNatBits (n : Nat) : F32 := ⟨UInt32.ofNat n⟩
@[inline] def nb (a : F32) : Nat := a.bits.toNat
def add (a b : F32) : F32 := ofNatBits (Num.add .f32 a.nb b.nb)
def sub (a b : F32) : F32 := ofNatBits (Num.sub .f32 a.nb b.nb)
def mul (a b : F32) : F32 := ofNatBits (Num.mul .f32 a.nb b.nb)
def div (a b : F32) : F32 := ofNatBits (Num.div .f32 a.nb b.nb)
def neg (a : F32) : F32 := ofNatBits (Num.neg .f32 a.nb)
def lt (a b : F32) : Bool := Num.lt .f32 a.nb b.nb
def le (a b : F32) : Bool := Num.le .f32 a.nb b.nb
def feq (a b : F32) : Bool := Num.eq .f32 a.nb b.nb
def isNaN (a : F32) : Bool := Num.isNaN .f32 a.nb
def ofInt (i : Int) : F32 := ofNatBits (Num.ofInt .f32 i)
def zero : F32 := ⟨0⟩
def one : F32 := ⟨0x3f800000⟩
def posInf : F32 := ⟨0x7f800000⟩
def negInf : F32 := ⟨0xff800000⟩
instance : Add F32 := ⟨add⟩
instance : Sub F32 := ⟨sub⟩
instance : Mul F32 := ⟨mul⟩
instance : Div F32 := ⟨div⟩
instance : Neg F32 := ⟨neg⟩
instance : LT F32 := ⟨fun a b => lt a b = true⟩
instance : LE F32 := ⟨fun a b => le a b = true⟩
instance : DecidableRel (α := F32) (· < ·) := fun a b => inferInstanceAs (Decidable (lt a b = true))
instance : DecidableRel (α := F32) (· ≤ ·) := fun a b => inferInstanceAs (Decidable (le a b = true))
instance : OfNat F32 n := ⟨ofInt n⟩

/-- Go `uint32(f)` on amd64: CVTTSS2SQ then truncation to 32 bits. -/
def toUInt32 (a : F32) : UInt32 :=
  match Num.truncInt .f32 a.nb with
  | none => 0
  | some i => if i < -(2:Int)^63 ∨ i ≥ (2:Int)^63 then 0 else UInt32.ofNat (i % (2:Int)^32).toNat
/-- Go `int32(f)` on amd64: CVTTSS2SL. Result as Int in [-2^31, 2^31). -/
def toInt32 (a : F32) : Int :=
  match Num.truncInt .f32 a.nb with
  | none => -(2:Int)^31
  | some i => if i < -(2:Int)^31 ∨ i ≥ (2:Int)^31 then -(2:Int)^31 else i
/-- Go `uint8(f)` on amd64: CVTTSS2SL then truncation to 8 bits. -/
def toUInt8 (a : F32) : UInt8 := UInt8.ofNat ((toInt32 a) % 256).toNat
end F32

namespace F64
@[inline] def ofNatBits (n : Nat) : F64 := ⟨UInt64.ofNat n⟩
@[inline] def nb (a : F64) : Nat := a.bits.toNat
def add (a b : F64) : F64 := ofNatBits (Num.add .f64 a.nb b.nb)
def sub (a b : F64) : F64 := ofNatBits (Num.sub .f64 a.nb b.nb)
def mul (a b : F64) : F64 := ofNatBits (Num.mul .f64 a.nb b.nb)
def div (a b : F64) : F64 := ofNatBits (Num.div .f64 a.nb b.nb)
def neg (a : F64) : F64 := ofNatBits (Num.neg .f64 a.nb)
def abs (a : F64) : F64 := ofNatBits (Num.abs .f64 a.nb)
def sqrt (a : F64) : F64 := ofNatBits (Num.sqrt .f64 a.nb)
def floor (a : F64) : F64 := ofNatBits (Num.floor .f64 a.nb)
def ceil (a : F64) : F64 := ofNatBits (Num.ceil .f64 a.nb)
def lt (a b : F64) : Bool := Num.lt .f64 a.nb b.nb
def le (a b : F64) : Bool := Num.le .f64 a.nb b.nb
def feq (a b : F64) : Bool := Num.eq .f64 a.nb b.nb
def isNaN (a : F64) : Bool := Num.isNaN .f64 a.nb
def ofInt (i : Int) : F64 := ofNatBits (Num.ofInt .f64 i)
def zero : F64 := ⟨0⟩
instance : Add F64 := ⟨add⟩
instance : Sub F64 := ⟨sub⟩
instance : Mul F64 := ⟨mul⟩
instance : Div F64 := ⟨div⟩
instance : Neg F64 := ⟨neg⟩
instance : LT F64 := ⟨fun a b => lt a b = true⟩
instance : LE F64 := ⟨fun a b => le a b = true⟩
instance : DecidableRel (α := F64) (· < ·) := fun a b => inferInstanceAs (Decidable (lt a b = true))
instance : DecidableRel (α := F64) (· ≤ ·) := fun a b => inferInstanceAs (Decidable (le a b = true))
instance : OfNat F64 n := ⟨ofInt n⟩
def ofF32 (a : F32) : F64 := ofNatBits (Num.convert .f32 .f64 a.nb)
def toF32 (a : F64) : F32 := F32.ofNatBits (Num.convert .f64 .f32 a.nb)
/-- Go `int(x)` / `int64(x)` on amd64: CVTTSD2SQ. -/
def toInt64 (a : F64) : Int :=
  match Num.truncInt .f64 a.nb with
  | none => -(2:Int)^63
  | some i => if i < -(2:Int)^63 ∨ i ≥ (2:Int)^63 then -(2:Int)^63 else i
/-- Go `uint16(x)`: CVTTSD2SQ then truncation. -/
def toUInt16 (a : F64) : UInt16 := UInt16.ofNat ((toInt64 a) % 65536).toNat
/-- decimal rational → nearest double (what a correctly rounded ParseFloat does): `±n / d` -/
def ofRatio (neg : Bool) (n d : Nat) : F64 :=
  if n == 0 then ofNatBits (Num.withSign .f64 neg 0) else
  let k := 64 + bitLen d - bitLen n   -- ≥ 55+3 significant quotient bits
  let num := n * 2 ^ k
  ofNatBits (Num.roundPack .f64 neg (num / d) (-(k : Int)) (num % d != 0))
end F64

def F32.ofRatio (neg : Bool) (n d : Nat) : F32 :=
  if n == 0 then F32.ofNatBits (Num.withSign .f32 neg 0) else
  let k := 40 + bitLen d - bitLen n
  let num := n * 2 ^ k
  F32.ofNatBits (Num.roundPack .f32 neg (num / d) (-(k : Int)) (num % d != 0))

end Ivg.Num
