import Ivg.Num.F32
/-!
# The arithmetic interface the number-generic model code is written against

`Arith α` is what the Go code uses of `float32`; `Wide α β` adds what it uses of `float64`
(conversions, floor, sqrt, truncation).  Instances: `(F32, F64)` here (bit-exact with Go, used by
the driver) and `ℚ` in the proof modules.
-/
namespace Ivg

class Arith (α : Type) extends Add α, Sub α, Mul α, Div α, Neg α, LT α, LE α where
  ofInt : Int → α
  decLt : DecidableRel (α := α) (· < ·)
  decLe : DecidableRel (α := α) (· ≤ ·)
  /-- Go `==` on floats -/
  feq : α → α → Bool
  /-- Go `uint8(x)` -/
  toUInt8 : α → UInt8
  /-- the value of the decimal literal `±n / 10^k` read directly into this type
      (`strconv.ParseFloat(s, 32)`, as `fmt.Fscanf("%f", *float32)` does) -/
  ofDecimal : Bool → Nat → Nat → α
  /-- the same literal read as a float64 and then converted (`float32(strconv.ParseFloat(s, 64))`) -/
  ofDecimalVia64 : Bool → Nat → Nat → α

attribute [instance] Arith.decLt Arith.decLe

class Wide (α : outParam Type) (β : Type) [Arith α] [Arith β] where
  widen : α → β
  narrow : β → α
  half : β
  floor : β → β
  sqrt : β → β
  /-- Go `int(x)` -/
  trunc : β → Int

open Num

instance : Arith F32 where
  ofInt := F32.ofInt
  decLt := inferInstance
  decLe := inferInstance
  feq := F32.feq
  toUInt8 := F32.toUInt8
  ofDecimal neg n k := F32.ofRatio neg n (10 ^ k)
  ofDecimalVia64 neg n k := (F64.ofRatio neg n (10 ^ k)).toF32

instance : Arith F64 where
  ofInt := F64.ofInt
  decLt := inferInstance
  decLe := inferInstance
  feq := F64.feq
  toUInt8 x := UInt8.ofNat (x.toInt64 % 256).toNat
  ofDecimal neg n k := F64.ofRatio neg n (10 ^ k)
  ofDecimalVia64 neg n k := F64.ofRatio neg n (10 ^ k)

instance : Wide F32 F64 where
  widen := F64.ofF32
  narrow := F64.toF32
  half := ⟨0x3fe0000000000000⟩
  floor := F64.floor
  sqrt := F64.sqrt
  trunc := F64.toInt64

end Ivg
