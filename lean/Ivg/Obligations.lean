import Lean
/-!
`#obligations ID [thm₁, thm₂, …]` — closes every property file.  For each listed theorem it prints
one line `OBLIGATION ID name axioms=[…] stmt=<hash>`; the check counts these lines (obligations) and
audits the axiom sets (discharged).  A name that does not resolve (a code tie that no longer checks is not in the
environment, see `Ivg/Gen/Tie/Tolerant.lean`) prints `OBLIGATION-MISSING ID name` and is counted as not discharged.
-/
open Lean Elab Command

syntax (name := obligationsCmd) "#obligations " ident " [" ident,* "]" : command

@[command_elab obligationsCmd] def elabObligations : CommandElab := fun stx => do
  let id := stx[1].getId
  let names := stx[3].getSepArgs
  for n in names do
    let c ← try
        liftCoreM <| realizeGlobalConstNoOverloadWithInfo n
      catch _ =>
        logInfo m!"OBLIGATION-MISSING {id} {n.getId}"
        continue
    let axs ← liftCoreM <| collectAxioms c
    let some info := (← getEnv).find? c | throwError "unknown constant {c}"
    let isThm := match info with | .thmInfo _ => true | _ => false
    unless isThm do throwError "{c} is not a theorem"
    let axs := axs.toList.map (·.toString) |>.mergeSort
    logInfo m!"OBLIGATION {id} {c} axioms={axs} stmt={hash info.type}"
