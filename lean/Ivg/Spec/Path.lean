import Ivg.Model.Color
/-!
# Specification of path drawing (property C05), written from the property text / SVG path semantics

"Every drawn path reaches the rasteriser as the same sequence of move/line/quadratic/cubic segments as its
drawing operations …: absolute operations map points, relative operations are offsets from the current pen,
H/V keep the other coordinate, smooth operations use the reflection of the previous same-degree control
point about the pen (or the pen itself when the previous operation was of another kind), close-and-move
operations close the sub-path before moving (relative moves being relative to the sub-path start), and the
path is closed and drawn exactly once … when it ends."

This file gives the meaning of the drawing calls IN VIEWBOX SPACE, over any type with `+` and `−`; it does
not mention the renderer.  Only the shared interface type `Call α` (the Destination methods) is imported.
-/
namespace Ivg.Spec.Path
open Ivg
set_option linter.constructorNameAsVariable false

structure Pt (α : Type) where
  x : α
  y : α
deriving Repr

/-- a path segment as a rasteriser sees it (end points and control points are absolute) -/
inductive Seg (α : Type)
  | move (p : Pt α)
  | line (p : Pt α)
  | quad (c p : Pt α)
  | cube (c1 c2 p : Pt α)
  | close
deriving Repr

def Seg.map {α β : Type} (f : Pt α → Pt β) : Seg α → Seg β
  | .move p => .move (f p)
  | .line p => .line (f p)
  | .quad c p => .quad (f c) (f p)
  | .cube c1 c2 p => .cube (f c1) (f c2) (f p)
  | .close => .close

/-- the control point the previous operation left behind, with its degree -/
inductive Ctrl (α : Type)
  | none
  | quad (c : Pt α)
  | cube (c : Pt α)
deriving Repr

/-- the state SVG path semantics needs: current point, start of the current sub-path, last control point -/
structure State (α : Type) where
  pen : Pt α
  start : Pt α
  ctrl : Ctrl α
deriving Repr

variable {α : Type} [Add α] [Sub α]

/-- offset from a point -/
def Pt.off (p : Pt α) (dx dy : α) : Pt α := ⟨p.x + dx, p.y + dy⟩

/-- reflection of `c` about `p`, i.e. `2p − c`, written `p + (p − c)` -/
def reflect (p c : Pt α) : Pt α := ⟨p.x + (p.x - c.x), p.y + (p.y - c.y)⟩

/-- first control point of a smooth quadratic: the reflection of the previous QUADRATIC control point about
    the pen, or the pen itself when the previous operation was of another kind -/
def smoothQuad (s : State α) : Pt α :=
  match s.ctrl with
  | .quad c => reflect s.pen c
  | _ => s.pen

/-- first control point of a smooth cubic: same, with the previous CUBIC (second) control point -/
def smoothCube (s : State α) : Pt α :=
  match s.ctrl with
  | .cube c => reflect s.pen c
  | _ => s.pen

def lineTo (s : State α) (p : Pt α) : State α × List (Seg α) := ({ s with pen := p, ctrl := .none }, [.line p])
def quadTo (s : State α) (c p : Pt α) : State α × List (Seg α) := ({ s with pen := p, ctrl := .quad c }, [.quad c p])
def cubeTo (s : State α) (c1 c2 p : Pt α) : State α × List (Seg α) :=
  ({ s with pen := p, ctrl := .cube c2 }, [.cube c1 c2 p])
/-- close the current sub-path (the pen returns to its start) and start a new one at `p` -/
def closeMove (_s : State α) (p : Pt α) : State α × List (Seg α) := (⟨p, p, .none⟩, [.close, .move p])

/-- the meaning of one drawing call (the 1-, 2-, 4- and 6-operand verbs); other calls draw nothing -/
def step (s : State α) : Call α → State α × List (Seg α)
  -- lines; H/V keep the other coordinate
  | .d1 .H x => lineTo s ⟨x, s.pen.y⟩
  | .d1 .h dx => lineTo s ⟨s.pen.x + dx, s.pen.y⟩
  | .d1 .V y => lineTo s ⟨s.pen.x, y⟩
  | .d1 .v dy => lineTo s ⟨s.pen.x, s.pen.y + dy⟩
  | .d2 .L x y => lineTo s ⟨x, y⟩
  | .d2 .l dx dy => lineTo s (s.pen.off dx dy)
  -- smooth quadratic
  | .d2 .T x y => quadTo s (smoothQuad s) ⟨x, y⟩
  | .d2 .t dx dy => quadTo s (smoothQuad s) (s.pen.off dx dy)
  -- close-and-move; the relative form is relative to the sub-path start (where closing puts the pen)
  | .d2 .Y x y => closeMove s ⟨x, y⟩
  | .d2 .y dx dy => closeMove s (s.start.off dx dy)
  -- quadratic
  | .d4 .Q x1 y1 x y => quadTo s ⟨x1, y1⟩ ⟨x, y⟩
  | .d4 .q dx1 dy1 dx dy => quadTo s (s.pen.off dx1 dy1) (s.pen.off dx dy)
  -- smooth cubic
  | .d4 .S x2 y2 x y => cubeTo s (smoothCube s) ⟨x2, y2⟩ ⟨x, y⟩
  | .d4 .s dx2 dy2 dx dy => cubeTo s (smoothCube s) (s.pen.off dx2 dy2) (s.pen.off dx dy)
  -- cubic
  | .d6 .C x1 y1 x2 y2 x y => cubeTo s ⟨x1, y1⟩ ⟨x2, y2⟩ ⟨x, y⟩
  | .d6 .c dx1 dy1 dx2 dy2 dx dy => cubeTo s (s.pen.off dx1 dy1) (s.pen.off dx2 dy2) (s.pen.off dx dy)
  | _ => (s, [])

/-- a sequence of drawing calls -/
def run (s : State α) : List (Call α) → State α × List (Seg α)
  | [] => (s, [])
  | c :: cs => ((run (step s c).1 cs).1, (step s c).2 ++ (run (step s c).1 cs).2)

/-- the state at the start of a path that begins at `p` -/
def start (p : Pt α) : State α := ⟨p, p, .none⟩

/-- the segments of a whole path `StartPath(x, y); body; ClosePathEndPath`: a move, the body, one close -/
def pathSegs (x y : α) (body : List (Call α)) : List (Seg α) :=
  .move ⟨x, y⟩ :: (run (start ⟨x, y⟩) body).2 ++ [.close]

/-- the calls this specification gives a meaning to: the non-arc drawing calls -/
def isSeg : Call α → Bool
  | .d1 _ _ | .d2 _ _ _ | .d4 _ _ _ _ _ | .d6 _ _ _ _ _ _ _ => true
  | _ => false

end Ivg.Spec.Path
