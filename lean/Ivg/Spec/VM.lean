import Ivg.Arith
import Ivg.Model.Color
/-!
# The IconVG virtual machine, written from the specification text

Source: `/repo/spec/iconvg-spec-v0.md`, sections *Registers*, *Level of Detail*, *Colors and
Gradients*, *Colors*, *Palettes*, *Styling Opcodes*.  Nothing here refers to the Renderer model
(`Ivg/Model/Renderer.lean`) or to the colour functions of `Ivg/Model/Color.lean`; only the shared
*types* `RGBA`, `Color` (the four forms a colour takes in the instruction stream), `Palette`,
`ViewBox` and `Call` (the instruction alphabet) are imported.

The number type `α` is opaque (`Arith α`): the machine only stores numbers and compares them with the
class's `≤` / `<`.
-/
namespace Ivg.Spec.VM
open Ivg

variable {α : Type} [Arith α]

/-- "Register indexing is done modulo 64, so `CREG[70]` is the same as `CREG[6]`, and `CREG[-1]` is
    the same as `CREG[63]`." -/
def wrap (i : Int) : Fin 64 := ⟨(i % 64).toNat, by omega⟩

/-- a register file with one register replaced -/
def upd {γ : Type} (f : Fin 64 → γ) (i : Fin 64) (x : γ) : Fin 64 → γ := fun j => if j = i then x else f j

/-- Machine state (sections *Registers* and *Level of Detail*): the custom palette, 64 colour and 64
    number registers, the two 6-bit selectors and the two level-of-detail registers. -/
structure VM (α : Type) where
  palette : Palette
  cReg : Fin 64 → RGBA
  nReg : Fin 64 → α
  cSel : Fin 64
  nSel : Fin 64
  lod0 : α
  lod1 : α

def num0 : α := Arith.ofInt 0
def num1 : α := Arith.ofInt 1

/-- "The `CREG` registers are initialized to the custom palette; the `NREG` registers are initialized
    to `0`. … `CSEL` and `NSEL` … are also initialized to `0`." — "`LOD0` and `LOD1` … initialized to
    `+0` and `+infinity`" (`+infinity` is the parameter `posInf`). -/
def VM.init (posInf : α) (pal : Palette) : VM α :=
  { palette := pal, cReg := fun i => pal[i.val], nReg := fun _ => num0, cSel := 0, nSel := 0,
    lod0 := num0, lod1 := posInf }

/-! ## Colours (section *Colors*) -/

/-- "`0`, `1`, `2`, `3` and `4` map to `0x00`, `0x40`, `0x80`, `0xC0` and `0xFF`" -/
def chan5 : Nat → UInt8
  | 0 => 0x00 | 1 => 0x40 | 2 => 0x80 | 3 => 0xC0 | _ => 0xFF

/-- The 1 byte encoding, resolved against the machine state: "byte values in the range `[0, 125)`
    encode the `RGBA` color where the red, green and blue values come from the base-5 encoding of that
    byte value …  The alpha value is `0xFF`. …  A byte value of `125`, `126` or `127` mean the colors
    `C0:C0:C0:C0`, `80:80:80:80` and `00:00:00:00` respectively.  Byte values in the range
    `[128, 192)` mean a color from the custom palette (indexed by that byte value minus `128`).  Byte
    values in the range `[192, 256)` mean the value of a `CREG` color register (with `CREG` indexed by
    that byte value minus `192`)." -/
def VM.color1 (m : VM α) (x : UInt8) : RGBA :=
  let n := x.toNat
  if n < 125 then ⟨chan5 (n / 25), chan5 (n / 5 % 5), chan5 (n % 5), 0xFF⟩
  else if n = 125 then ⟨0xC0, 0xC0, 0xC0, 0xC0⟩
  else if n = 126 then ⟨0x80, 0x80, 0x80, 0x80⟩
  else if n = 127 then ⟨0x00, 0x00, 0x00, 0x00⟩
  else if h : n < 192 then m.palette[n - 128]'(by omega)
  else m.cReg ⟨n - 192, by have := x.toNat_lt; omega⟩

/-- "`RESULTANT.RED = (((255-T) * C0.RED) + (T * C1.RED) + 128) / 255` rounded down" -/
def blend1 (t c0 c1 : UInt8) : UInt8 :=
  UInt8.ofNat (((255 - t.toNat) * c0.toNat + t.toNat * c1.toNat + 128) / 255)

/-- The colour an instruction's colour operand denotes at the time the instruction executes: a direct
    RGBA value as is (1-, 2-, 3-direct and 4-byte encodings), a palette index, a `CREG` reference, or
    the 3 byte indirect encoding "`T`, `C0`, `C1`" blending two resolved 1-byte colours channel by
    channel.  `Color` stores the index / `T, C0, C1` in the bytes of `data`. -/
def VM.resolve (m : VM α) (c : Color) : RGBA :=
  match c.typ with
  | .rgba => c.data
  | .paletteIndex => m.palette[c.data.r.toNat % 64]'(Nat.mod_lt _ (by decide))
  | .cReg => m.cReg ⟨c.data.r.toNat % 64, Nat.mod_lt _ (by decide)⟩
  | .blend =>
    let t := c.data.r
    let c0 := m.color1 c.data.g
    let c1 := m.color1 c.data.b
    ⟨blend1 t c0.r c1.r, blend1 t c0.g c1.g, blend1 t c0.b c1.b, blend1 t c0.a c1.a⟩

/-! ## Styling instructions (section *Styling Opcodes*) -/

/-- `CREG[CSEL-ADJ]` / `NREG[NSEL-ADJ]`: the register a selector and an adjustment address -/
def sub (sel : Fin 64) (adj : UInt8) : Fin 64 := wrap ((sel.val : Int) - (adj.toNat : Int))

/-- One instruction.  Selectors take "the low 6 bits"; `SetCReg`/`SetNReg` store into
    `CREG[CSEL-ADJ]` / `NREG[NSEL-ADJ]` — the colour is resolved *now*, against the state before the
    store — and the post-increment forms then increment the selector by 1 (a 6-bit integer);
    `SetLOD` stores the bounds; `Reset` re-initialises for new metadata.  Starting and drawing a path
    do not change the registers. -/
def VM.step (posInf : α) (m : VM α) : Call α → VM α
  | .reset _ pal => VM.init posInf pal
  | .setCSel v => { m with cSel := wrap v.toNat }
  | .setNSel v => { m with nSel := wrap v.toNat }
  | .setCReg adj incr c =>
    let m' := { m with cReg := upd m.cReg (sub m.cSel adj) (m.resolve c) }
    if incr then { m' with cSel := wrap (m.cSel.val + 1) } else m'
  | .setNReg adj incr f =>
    let m' := { m with nReg := upd m.nReg (sub m.nSel adj) f }
    if incr then { m' with nSel := wrap (m.nSel.val + 1) } else m'
  | .setLOD l0 l1 => { m with lod0 := l0, lod1 := l1 }
  | _ => m

/-! ## Paint of a path (sections *Colors and Gradients*, *Level of Detail*, opcodes `0xC0`–`0xC6`) -/

/-- alpha-premultiplied: no colour channel exceeds alpha -/
def premul (c : RGBA) : Prop := c.r.toNat ≤ c.a.toNat ∧ c.g.toNat ≤ c.a.toNat ∧ c.b.toNat ≤ c.a.toNat
instance (c : RGBA) : Decidable (premul c) := by unfold premul; exact inferInstance

/-- "Any color register whose alpha value is `0` but whose blue value is at least `128` is a gradient." -/
def isGradient (c : RGBA) : Prop := c.a.toNat = 0 ∧ 128 ≤ c.b.toNat
instance (c : RGBA) : Decidable (isGradient c) := by unfold isGradient; exact inferInstance

/-- what the specification says about a gradient paint: shape (0 linear, 1 radial), spread
    (0 none, 1 pad, 2 reflect, 3 repeat), the `NSTOPS` stops (offset `NREG[NBASE+i]`, colour
    `CREG[CBASE+i]`) and the matrix `a=NREG[NBASE-6], …, f=NREG[NBASE-1]` -/
structure GradSpec (α : Type) where
  shape : UInt8
  spread : UInt8
  stops : List (α × RGBA)
  a : α
  b : α
  c : α
  d : α
  e : α
  f : α

inductive PaintSpec (α : Type)
  | flat (c : RGBA)
  | gradient (g : GradSpec α)

/-- offsets strictly increasing, each compared with its predecessor -/
def increasing : List α → Prop
  | a :: b :: rest => a < b ∧ increasing (b :: rest)
  | _ => True

instance decIncreasing : (l : List α) → Decidable (increasing l)
  | [] => isTrue trivial
  | [_] => isTrue trivial
  | a :: b :: rest =>
    have := decIncreasing (b :: rest)
    by unfold increasing; exact inferInstance

/-- "At the time a gradient is used to fill a path, it is invalid for any of the stop colors to
    itself be a gradient, or for any stop offset to be less than or equal to a previous offset, or
    outside the range `[0, 1]`."  Property C04 words the first condition as "non-premultiplied
    colour", which is what is stated here (every gradient value is non-premultiplied; a
    non-premultiplied non-gradient stop colour has "undefined" rendering in the specification). -/
def stopsValid (stops : List (α × RGBA)) : Prop :=
  (∀ s ∈ stops, premul s.2) ∧ (∀ s ∈ stops, num0 ≤ s.1 ∧ s.1 ≤ num1) ∧ increasing (stops.map (·.1))
instance (stops : List (α × RGBA)) : Decidable (stopsValid stops) := by unfold stopsValid; exact inferInstance

/-- the gradient a colour-register value encodes: "the low 6 bits of the red value is `NSTOPS`, … the
    low 6 bits of the green value is `CBASE`, the high 2 bits of the green value is [the spread], …
    the low 6 bits of the blue value is `NBASE`, the `0x40` bit of the blue value denotes the shape" -/
def VM.gradSpec (m : VM α) (g : RGBA) : GradSpec α :=
  let nStops := g.r.toNat % 64
  let cBase := g.g.toNat % 64
  let nBase := g.b.toNat % 64
  let n (k : Int) : α := m.nReg (wrap ((nBase : Int) + k))
  { shape := UInt8.ofNat (g.b.toNat / 64 % 2)
    spread := UInt8.ofNat (g.g.toNat / 64)
    stops := (List.range nStops).map fun (i : Nat) => (n (i : Int), m.cReg (wrap ((cBase : Int) + (i : Int))))
    a := n (-6), b := n (-5), c := n (-4), d := n (-3), e := n (-2), f := n (-1) }

/-- The paint that fills a path started by `StartPath` with adjustment `adj` when the rasterisation is
    `H` pixels high, or `none` when the path's drawing instructions have no effect:

    * "Drawing mode opcodes have no effect (other than leaving drawing mode) unless the height `H` in
      pixels of the rasterization satisfies `(LOD0 <= H)` and `(H < LOD1)`";
    * `CREG[CSEL-ADJ]`, "either a flat color or a gradient, will fill the path": a premultiplied
      colour fills flat — a fully transparent one (alpha 0) paints nothing; a gradient value fills
      with that gradient provided its stops are valid; any other value is nonsensical ("the subsequent
      rendering is undefined" — C04 fixes it as: nothing is drawn);
    * the specification is silent on gradients with fewer than two stops: following the code
      (`Gradient.Init` reports failure when there is no range between stops) they paint nothing. -/
def VM.paintChoice (m : VM α) (H : Int) (adj : UInt8) : Option (PaintSpec α) :=
  let c := m.cReg (sub m.cSel adj)
  let h : α := Arith.ofInt H
  if ¬ (m.lod0 ≤ h ∧ h < m.lod1) then none
  else if premul c then (if c.a = 0 then none else some (.flat c))
  else if isGradient c then
    let g := m.gradSpec c
    if stopsValid g.stops ∧ 2 ≤ g.stops.length then some (.gradient g) else none
  else none

/-- The paints of the paths of a program, in order: run the styling instructions, and at each
    `StartPath` record the machine's choice (`none` = the path has no effect). -/
def VM.choices (posInf : α) (H : Int) (m : VM α) : List (Call α) → List (Option (PaintSpec α))
  | [] => []
  | .startPath adj _ _ :: cs => m.paintChoice H adj :: VM.choices posInf H m cs
  | c :: cs => VM.choices posInf H (m.step posInf c) cs

/-- the paints actually applied: the `some` choices -/
def VM.paints (posInf : α) (H : Int) (m : VM α) (p : List (Call α)) : List (PaintSpec α) :=
  (VM.choices posInf H m p).filterMap id

end Ivg.Spec.VM
