/-!
# Specification of gradient sampling (property C15), written from the property text

Core Lean only (`Rat`, `Rat.floor`); independent of the model files.

"… the piece-wise linear interpolation (in premultiplied space) of its stops at the offset … Offsets
outside [0,1] are handled per spread mode: none gives transparent black, pad the end colours, repeat the
fractional part, reflect a triangle wave of period 2; at a stop's offset the colour is that stop's
colour, and before the first or after the last stop it is the first or last colour."
-/
namespace Ivg.Spec.Grad

/-- spread modes, in the order of their codes 0, 1, 2, 3 -/
inductive Spread | none | pad | reflect | «repeat»
deriving DecidableEq, Repr

def Spread.ofCode (c : UInt8) : Spread :=
  if c = 1 then .pad else if c = 2 then .reflect else if c = 3 then .repeat else .none

/-- the fractional part `x − ⌊x⌋ ∈ [0,1)` -/
def frac (x : Rat) : Rat := x - (x.floor : Rat)

/-- `x mod 2 ∈ [0,2)` -/
def mod2 (x : Rat) : Rat := x - 2 * ((x / 2).floor : Rat)

/-- the triangle wave of period 2 through (0,0), (1,1), (2,0) -/
def tri (x : Rat) : Rat := if mod2 x ≤ 1 then mod2 x else 2 - mod2 x

/-- the offset in `[0,1]` at which the stops are sampled, `none` meaning "transparent black":
    offsets inside `[0,1]` are used as they are, offsets outside per spread mode -/
def spreadOffset (s : Spread) (x : Rat) : Option Rat :=
  if 0 ≤ x ∧ x ≤ 1 then some x
  else match s with
    | .none => Option.none
    | .pad => some (if x < 0 then 0 else 1)
    | .repeat => some (frac x)
    | .reflect => some (tri x)

/-- a colour with 16-bit channels (premultiplied) -/
structure Col where
  r : Nat
  g : Nat
  b : Nat
  a : Nat
deriving DecidableEq, Repr

def Col.transparent : Col := ⟨0, 0, 0, 0⟩
def Col.premul (c : Col) : Prop := c.r ≤ c.a ∧ c.g ≤ c.a ∧ c.b ≤ c.a

/-- linear interpolation of one channel between two stops -/
def lerp (o0 o1 : Rat) (c0 c1 : Nat) (x : Rat) : Rat :=
  (1 - (x - o0) / (o1 - o0)) * (c0 : Rat) + (x - o0) / (o1 - o0) * (c1 : Rat)

/-- piece-wise linear interpolation of the channel `ch` of a list of stops (offset, colour) with
    increasing offsets: the first colour before the first stop, the last colour after the last stop,
    linear in between -/
def sample (ch : Col → Nat) : List (Rat × Col) → Rat → Rat
  | [], _ => 0
  | [(_, c)], _ => (ch c : Rat)
  | (o0, c0) :: (o1, c1) :: rest, x =>
    if x < o0 then (ch c0 : Rat)
    else if x ≤ o1 then lerp o0 o1 (ch c0) (ch c1) x
    else sample ch ((o1, c1) :: rest) x

/-- the 16-bit channel value delivered: the integer part of the exact interpolation -/
def sampleChan (ch : Col → Nat) (stops : List (Rat × Col)) (x : Rat) : Nat := (sample ch stops x).floor.toNat

def sampleCol (stops : List (Rat × Col)) (x : Rat) : Col :=
  ⟨sampleChan (·.r) stops x, sampleChan (·.g) stops x, sampleChan (·.b) stops x, sampleChan (·.a) stops x⟩

/-- the colour of a gradient with the given spread and stops at raw offset `x` -/
def colorAt (s : Spread) (stops : List (Rat × Col)) (x : Rat) : Col :=
  match spreadOffset s x with
  | Option.none => Col.transparent
  | some o => sampleCol stops o

/-- strictly increasing offsets -/
def increasing : List (Rat × Col) → Prop
  | [] => True
  | [_] => True
  | (o0, _) :: (o1, c1) :: rest => o0 < o1 ∧ increasing ((o1, c1) :: rest)

end Ivg.Spec.Grad
