import Ivg.Model.Color
/-!
# The IconVG FFV0 byte grammar, written from `spec/iconvg-spec-v0.md`

An independent reference parser: opcode tables transcribed from the bullets of the sections
"Styling Opcodes" and "Drawing Opcodes", number and colour forms from "Numbers" and "Colors",
metadata framing from "Metadata".  It shares NO code with `Ivg/Model/Decoder.lean` or
`Ivg/Model/DecBuffer.lean`; only the vocabulary of `Ivg/Model/Color.lean` (`RGBA`, `Color`, `Call`, …)
and the float type.  A number form denotes a rational; the float32 delivered is the one nearest to it
(`F32.ofRatio`, a single correct rounding), or the reinterpreted bit pattern for 4-byte forms.

`parse bs = some calls` iff `bs` is well formed, and then `calls` is the operation sequence the
specification assigns to it (starting with `Reset`).
-/
namespace Ivg.Spec.FFV0
open Ivg Num

/-! ## Numbers ("Numbers" section) -/

/-- a natural number: value, encoded width (1, 2 or 4), remaining bytes -/
def natural : Bytes → Option (Nat × Nat × Bytes)
  | b0 :: rest =>
    if b0.toNat % 2 = 0 then
      -- 1 byte: the remaining 7 bits
      some (b0.toNat / 2, 1, rest)
    else if b0.toNat / 2 % 2 = 0 then
      -- 2 bytes: the remaining 14 bits, little endian
      match rest with
      | b1 :: rest => some ((b0.toNat + 256 * b1.toNat) / 4, 2, rest)
      | _ => none
    else
      -- 4 bytes: the remaining 30 bits, little endian
      match rest with
      | b1 :: b2 :: b3 :: rest =>
        some ((b0.toNat + 256 * b1.toNat + 65536 * b2.toNat + 16777216 * b3.toNat) / 4, 4, rest)
      | _ => none
  | [] => none

/-- the float32 nearest to the rational `num / den` with the given sign -/
def nearest (negative : Bool) (num den : Nat) : F32 := F32.ofRatio negative num den

/-- 4-byte forms: the 30 bits shifted left by 2, reinterpreted as IEEE 754 binary32 -/
def reinterpret (r : Nat) : F32 := F32.ofNatBits (r * 4)

/-- "For 1 and 2 byte encodings, the decoded real number equals the decoded natural number." -/
def real (b : Bytes) : Option (F32 × Bytes) :=
  match natural b with
  | none => none
  | some (r, 4, rest) => some (reinterpret r, rest)
  | some (r, _, rest) => some (nearest false r 1, rest)

/-- the float32 nearest to the (possibly negative) rational `(a − b) / den` -/
def nearestDiff (a b den : Nat) : F32 :=
  if a ≥ b then nearest false (a - b) den else nearest true (b - a) den

/-- "((R * scale) - bias)": 1 byte: scale 1, bias 64; 2 bytes: scale 1/64, bias 128 -/
def coordinate (b : Bytes) : Option (F32 × Bytes) :=
  match natural b with
  | none => none
  | some (r, 1, rest) => some (nearestDiff r 64 1, rest)
  | some (r, 2, rest) => some (nearestDiff r (128 * 64) 64, rest)
  | some (r, _, rest) => some (reinterpret r, rest)

/-- "(R * scale)": 1 byte: scale 1/120; 2 bytes: scale 1/15120 -/
def zeroToOne (b : Bytes) : Option (F32 × Bytes) :=
  match natural b with
  | none => none
  | some (r, 1, rest) => some (nearest false r 120, rest)
  | some (r, 2, rest) => some (nearest false r 15120, rest)
  | some (r, _, rest) => some (reinterpret r, rest)

/-! ## Colours ("Colors" section) -/

def base5 : Nat → UInt8
  | 0 => 0x00 | 1 => 0x40 | 2 => 0x80 | 3 => 0xC0 | _ => 0xFF

/-- a 1 byte colour -/
def color1Of (x : Nat) : Color :=
  if x < 125 then
    -- base-5 encoding, e.g. 48 = 1*25 + 4*5 + 3 ↦ 40:FF:C0:FF
    Color.rgbaColor ⟨base5 (x / 25), base5 (x / 5 % 5), base5 (x % 5), 0xFF⟩
  else if x = 125 then Color.rgbaColor ⟨0xC0, 0xC0, 0xC0, 0xC0⟩
  else if x = 126 then Color.rgbaColor ⟨0x80, 0x80, 0x80, 0x80⟩
  else if x = 127 then Color.rgbaColor ⟨0x00, 0x00, 0x00, 0x00⟩
  else if x < 192 then Color.paletteIndexColor (UInt8.ofNat (x - 128))
  else Color.cRegColor (UInt8.ofNat (x - 192))

/-- a nibble extended to 8 bits by duplication -/
def dup (n : Nat) : UInt8 := UInt8.ofNat (n * 16 + n)

inductive ColorForm | one | two | threeDirect | four | threeIndirect
deriving DecidableEq, Repr

def color : ColorForm → Bytes → Option (Color × Bytes)
  | .one, x :: rest => some (color1Of x.toNat, rest)
  | .two, x :: y :: rest =>
    some (Color.rgbaColor ⟨dup (x.toNat / 16), dup (x.toNat % 16), dup (y.toNat / 16), dup (y.toNat % 16)⟩, rest)
  | .threeDirect, r :: g :: b :: rest => some (Color.rgbaColor ⟨r, g, b, 0xFF⟩, rest)
  | .four, r :: g :: b :: a :: rest => some (Color.rgbaColor ⟨r, g, b, a⟩, rest)
  | .threeIndirect, t :: c0 :: c1 :: rest => some (Color.blendColor t c0 c1, rest)
  | _, _ => none

/-! ## Opcode tables -/

inductive NumForm | real | coordinate | zeroToOne
deriving DecidableEq, Repr

def number : NumForm → Bytes → Option (F32 × Bytes)
  | .real => real
  | .coordinate => coordinate
  | .zeroToOne => zeroToOne

/-- what a styling opcode means -/
inductive Styling
  | setCSel (v : Nat)
  | setNSel (v : Nat)
  | setCReg (form : ColorForm) (adj : Nat) (incr : Bool)
  | setNReg (form : NumForm) (adj : Nat) (incr : Bool)
  | startPath (adj : Nat)
  | setLOD
deriving Repr

structure Row (α : Type) where
  lo : Nat
  hi : Nat
  make : Nat → α      -- argument: opcode − lo

/-- the bullets of "Styling Opcodes" -/
def stylingTable : List (Row Styling) := [
  ⟨0x00, 0x3F, fun i => .setCSel i⟩,
  ⟨0x40, 0x7F, fun i => .setNSel i⟩,
  ⟨0x80, 0x86, fun i => .setCReg .one i false⟩,
  ⟨0x88, 0x8E, fun i => .setCReg .two i false⟩,
  ⟨0x90, 0x96, fun i => .setCReg .threeDirect i false⟩,
  ⟨0x98, 0x9E, fun i => .setCReg .four i false⟩,
  ⟨0xA0, 0xA6, fun i => .setCReg .threeIndirect i false⟩,
  ⟨0x87, 0x87, fun _ => .setCReg .one 0 true⟩,
  ⟨0x8F, 0x8F, fun _ => .setCReg .two 0 true⟩,
  ⟨0x97, 0x97, fun _ => .setCReg .threeDirect 0 true⟩,
  ⟨0x9F, 0x9F, fun _ => .setCReg .four 0 true⟩,
  ⟨0xA7, 0xA7, fun _ => .setCReg .threeIndirect 0 true⟩,
  ⟨0xA8, 0xAE, fun i => .setNReg .real i false⟩,
  ⟨0xB0, 0xB6, fun i => .setNReg .coordinate i false⟩,
  ⟨0xB8, 0xBE, fun i => .setNReg .zeroToOne i false⟩,
  ⟨0xAF, 0xAF, fun _ => .setNReg .real 0 true⟩,
  ⟨0xB7, 0xB7, fun _ => .setNReg .coordinate 0 true⟩,
  ⟨0xBF, 0xBF, fun _ => .setNReg .zeroToOne 0 true⟩,
  ⟨0xC0, 0xC6, fun i => .startPath i⟩,
  ⟨0xC7, 0xC7, fun _ => .setLOD⟩ ]
  -- "All other opcodes are reserved."

/-- a drawing operation with `RC` repetitions, or one of the miscellaneous ones -/
inductive Drawing
  | rep2 (v : Verb2) (rc : Nat)        -- RC sets of (x, y)
  | rep4 (v : Verb4) (rc : Nat)        -- RC sets of (x1, y1, x, y) / (x2, y2, x, y)
  | rep6 (v : Verb6) (rc : Nat)        -- RC sets of (x1, y1, x2, y2, x, y)
  | arcs (relative : Bool) (rc : Nat)  -- RC sets of (rx, ry, xAxisRotation, flags, x, y)
  | closeEnd                           -- one z op and then end the path
  | closeMove (relative : Bool)        -- one z op and then an implicit M / m
  | one (v : Verb1)                    -- one H / h / V / v op
deriving Repr

/-- the bullets of "Drawing Opcodes" -/
def drawingTable : List (Row Drawing) := [
  ⟨0x00, 0x1F, fun i => .rep2 .L (i + 1)⟩,
  ⟨0x20, 0x3F, fun i => .rep2 .l (i + 1)⟩,
  ⟨0x40, 0x4F, fun i => .rep2 .T (i + 1)⟩,
  ⟨0x50, 0x5F, fun i => .rep2 .t (i + 1)⟩,
  ⟨0x60, 0x6F, fun i => .rep4 .Q (i + 1)⟩,
  ⟨0x70, 0x7F, fun i => .rep4 .q (i + 1)⟩,
  ⟨0x80, 0x8F, fun i => .rep4 .S (i + 1)⟩,
  ⟨0x90, 0x9F, fun i => .rep4 .s (i + 1)⟩,
  ⟨0xA0, 0xAF, fun i => .rep6 .C (i + 1)⟩,
  ⟨0xB0, 0xBF, fun i => .rep6 .c (i + 1)⟩,
  ⟨0xC0, 0xCF, fun i => .arcs false (i + 1)⟩,
  ⟨0xD0, 0xDF, fun i => .arcs true (i + 1)⟩,
  -- 0xE0 reserved
  ⟨0xE1, 0xE1, fun _ => .closeEnd⟩,
  ⟨0xE2, 0xE2, fun _ => .closeMove false⟩,
  ⟨0xE3, 0xE3, fun _ => .closeMove true⟩,
  -- 0xE4, 0xE5 reserved
  ⟨0xE6, 0xE6, fun _ => .one .H⟩,
  ⟨0xE7, 0xE7, fun _ => .one .h⟩,
  ⟨0xE8, 0xE8, fun _ => .one .V⟩,
  ⟨0xE9, 0xE9, fun _ => .one .v⟩ ]
  -- "All other opcodes are reserved."

def lookup {α : Type} (table : List (Row α)) (opcode : Nat) : Option α :=
  match table.find? (fun r => r.lo ≤ opcode ∧ opcode ≤ r.hi) with
  | some r => some (r.make (opcode - r.lo))
  | none => none

/-! ## Instructions -/

inductive Mode | styling | drawing
deriving DecidableEq, Repr

def u8 (n : Nat) : UInt8 := UInt8.ofNat n

/-- read `n` coordinates -/
def coords : Nat → Bytes → Option (List F32 × Bytes)
  | 0, b => some ([], b)
  | n + 1, b =>
    match coordinate b with
    | none => none
    | some (x, b) =>
      match coords n b with
      | none => none
      | some (xs, b) => some (x :: xs, b)

/-- `rc` repetitions of an operation reading its operands with `one` -/
def repeated (one : Bytes → Option (Call F32 × Bytes)) : Nat → Bytes → Option (List (Call F32) × Bytes)
  | 0, b => some ([], b)
  | rc + 1, b =>
    match one b with
    | none => none
    | some (c, b) =>
      match repeated one rc b with
      | none => none
      | some (cs, b) => some (c :: cs, b)

def arcOperands (relative : Bool) (b : Bytes) : Option (Call F32 × Bytes) :=
  match coords 2 b with
  | some ([rx, ry], b) =>
    match zeroToOne b with
    | none => none
    | some (rotation, b) =>
      match natural b with
      | none => none
      | some (flags, _, b) =>
        match coords 2 b with
        | some ([x, y], b) =>
          -- "The 0x01 bit … is the large-arc-flag and the 0x02 bit is the sweep-flag."
          some (.arc relative rx ry rotation (flags % 2 = 1) (flags / 2 % 2 = 1) x y, b)
        | _ => none
  | _ => none

/-- one instruction: the calls it stands for, the mode afterwards, the remaining bytes;
    `none` for a reserved opcode or incomplete operands -/
def instruction : Mode → Bytes → Option (List (Call F32) × Mode × Bytes)
  | _, [] => none
  | .styling, op :: b =>
    match lookup stylingTable op.toNat with
    | none => none
    | some (.setCSel v) => some ([.setCSel (u8 v)], .styling, b)
    | some (.setNSel v) => some ([.setNSel (u8 v)], .styling, b)
    | some (.setCReg form adj incr) =>
      match color form b with
      | none => none
      | some (c, b) => some ([.setCReg (u8 adj) incr c], .styling, b)
    | some (.setNReg form adj incr) =>
      match number form b with
      | none => none
      | some (f, b) => some ([.setNReg (u8 adj) incr f], .styling, b)
    | some (.startPath adj) =>
      match coords 2 b with
      | some ([x, y], b) => some ([.startPath (u8 adj) x y], .drawing, b)
      | _ => none
    | some .setLOD =>
      match real b with
      | none => none
      | some (lod0, b) =>
        match real b with
        | none => none
        | some (lod1, b) => some ([.setLOD lod0 lod1], .styling, b)
  | .drawing, op :: b =>
    match lookup drawingTable op.toNat with
    | none => none
    | some (.rep2 v rc) =>
      (repeated (fun b => match coords 2 b with
        | some ([x, y], b) => some (.d2 v x y, b) | _ => none) rc b).map fun (cs, b) => (cs, .drawing, b)
    | some (.rep4 v rc) =>
      (repeated (fun b => match coords 4 b with
        | some ([x1, y1, x, y], b) => some (.d4 v x1 y1 x y, b) | _ => none) rc b).map fun (cs, b) => (cs, .drawing, b)
    | some (.rep6 v rc) =>
      (repeated (fun b => match coords 6 b with
        | some ([x1, y1, x2, y2, x, y], b) => some (.d6 v x1 y1 x2 y2 x y, b) | _ => none) rc b).map
        fun (cs, b) => (cs, .drawing, b)
    | some (.arcs relative rc) => (repeated (arcOperands relative) rc b).map fun (cs, b) => (cs, .drawing, b)
    | some .closeEnd => some ([.closeEnd], .styling, b)
    | some (.closeMove relative) =>
      match coords 2 b with
      | some ([x, y], b) => some ([.d2 (if relative then .y else .Y) x y], .drawing, b)
      | _ => none
    | some (.one v) =>
      match coords 1 b with
      | some ([x], b) => some ([.d1 v x], .drawing, b)
      | _ => none

/-- the instruction sequence: "rendering proceeds by reading a one byte opcode followed by a variable
    number of data bytes"; `fuel` ≥ number of bytes -/
def instructions : Nat → Mode → Bytes → Option (List (Call F32))
  | _, _, [] => some []
  | 0, _, _ :: _ => none
  | fuel + 1, m, b =>
    match instruction m b with
    | none => none
    | some (cs, m, b) =>
      match instructions fuel m b with
      | none => none
      | some rest => some (cs ++ rest)

/-! ## Metadata ("Metadata" section) -/

structure Meta where
  viewBox : ViewBox F32
  palette : Palette

def opaqueBlack : RGBA := ⟨0x00, 0x00, 0x00, 0xFF⟩

def defaultMeta : Meta :=
  ⟨⟨nearest true 32 1, nearest true 32 1, nearest false 32 1, nearest false 32 1⟩, Vector.replicate 64 opaqueBlack⟩

def isFinite (f : F32) : Bool := f.bits.toNat / 2 ^ 23 % 256 ≠ 255

/-- a suggested-palette colour: indirect colours and colours that are nonsensical as
    alpha-premultiplied colours resolve to opaque black -/
def paletteColor (c : Color) : RGBA :=
  if c.typ = .rgba ∧ c.data.r ≤ c.data.a ∧ c.data.g ≤ c.data.a ∧ c.data.b ≤ c.data.a then c.data else opaqueBlack

def paletteColors (form : ColorForm) : Nat → Nat → Palette → Bytes → Option (Palette × Bytes)
  | 0, _, pal, b => some (pal, b)
  | n + 1, i, pal, b =>
    match color form b with
    | none => none
    | some (c, b) => paletteColors form n (i + 1) (pal.set (i % 64) (paletteColor c) (Nat.mod_lt _ (by decide))) b

/-- MID-specific data: returns the updated metadata and the rest -/
def chunkData (m : Meta) (mid : Nat) (b : Bytes) : Option (Meta × Bytes) :=
  if mid = 0 then
    -- MID 0: four coordinates; invalid if min > max or a value is infinite or NaN
    match coords 4 b with
    | some ([minX, minY, maxX, maxY], b) =>
      if maxX < minX ∨ maxY < minY ∨ !isFinite minX ∨ !isFinite minY ∨ !isFinite maxX ∨ !isFinite maxY then none
      else some ({ m with viewBox := ⟨minX, minY, maxX, maxY⟩ }, b)
    | _ => none
  else if mid = 1 then
    -- MID 1: low 6 bits N, high 2 bits the colour format; N+1 explicit colours, the rest opaque black
    match b with
    | h :: b =>
      let form := match h.toNat / 64 with
        | 0 => ColorForm.one | 1 => .two | 2 => .threeDirect | _ => .four
      match paletteColors form (h.toNat % 64 + 1) 0 m.palette b with
      | none => none
      | some (pal, b) => some ({ m with palette := pal }, b)
    | [] => none
  else none   -- no other MID is defined

/-- `count` chunks in increasing MID order, none repeated; each starts with the length remaining -/
def chunks : Nat → Nat → Meta → Nat → Bytes → Option (Meta × Bytes)
  | _, 0, m, _, b => some (m, b)
  | 0, _ + 1, _, _, _ => none
  | fuel + 1, count + 1, m, minMID, b =>
    match natural b with
    | none => none
    | some (length, _, b) =>
      match natural b with
      | none => none
      | some (mid, _, b') =>
        if mid < minMID then none else
        match chunkData m mid b' with
        | none => none
        | some (m, rest) =>
          -- the declared length is what the chunk occupies after the length itself
          if b.length ≠ length + rest.length then none
          else chunks fuel count m (mid + 1) rest

/-- the whole graphic -/
def parse (bs : Bytes) : Option (List (Call F32)) :=
  match bs with
  | 0x89 :: 0x49 :: 0x56 :: 0x47 :: b =>
    match natural b with
    | none => none
    | some (count, _, b) =>
      match chunks (b.length + 1) count defaultMeta 0 b with
      | none => none
      | some (m, b) =>
        match instructions (b.length + 1) .styling b with
        | none => none
        | some cs => some (.reset m.viewBox m.palette :: cs)
  | _ => none

end Ivg.Spec.FFV0
