import Ivg.Model.Generator
import Ivg.Model.MdIcons
/-!
# Specification of SVG path data (property C20, parsing clauses), written from the SVG path grammar

"For well-formed SVG path data in the dialect each front end supports, the generator's path-data method
and the Material Design converter emit exactly the operations spelled by the path (the first move starts
the path with the given register adjustment, later moves close-and-move, a verb's operand groups may
repeat without restating the verb, the path is ended exactly once) with coordinates transformed by the
configured scale-and-translate transform …"

This file fixes, WITHOUT mentioning either parser,

* the abstract syntax of path data (`Cmd`: a verb letter and its operand groups; `Tok`: a decimal numeral),
* what a path spells (`spelled` for the generator, `spelledMd` for the converter): a list of `Call`s,
* a printer for concrete syntax (`renderC` with arbitrary separator runs, `render` canonical) and
* the decidable well-formedness predicates (`WellFormedC`, `WellFormed`, `WellFormedMd`) delimiting
  the dialect each front end supports.

From the model files only the coordinate maps are used (`Gen.normalizeArgs`, `Md.normalizeArgs`, proved
to be the scale-and-translate maps in `Ivg/Props/C20.lean`: `normalize_abs_rel`, `md_normalize`), the
interface type `Call α` and the matrix type `Gen.Aff3`; the tokenisers, scanners and loops
(`scanTokenLen`, `parseDecimal`, `scanArgs`, `emitVerb`, `pathLoop`, `floatToken`, …) are not.
-/
namespace Ivg.Spec.PathData
open Ivg

/-! ## abstract syntax -/

/-- one path command: a verb letter followed by its operand groups (≥ 1 group, 0 for `z`/`Z`);
    "a verb's operand groups may repeat without restating the verb" -/
structure Cmd (α : Type) where
  verb : Char
  groups : List (List α)
deriving Repr, DecidableEq

def Cmd.map {α β : Type} (f : α → β) (c : Cmd α) : Cmd β := ⟨c.verb, c.groups.map (·.map f)⟩

/-- operands per group of an SVG path verb (SVG 1.1 §8.3.2–8.3.8) -/
def arity (verb : Char) : Option Nat :=
  match verb with
  | 'M' | 'm' | 'L' | 'l' | 'T' | 't' => some 2
  | 'H' | 'h' | 'V' | 'v' => some 1
  | 'Q' | 'q' | 'S' | 's' => some 4
  | 'C' | 'c' => some 6
  | 'A' | 'a' => some 7
  | 'Z' | 'z' => some 0
  | _ => none

/-- SVG 1.1 §8.3.2: "If a moveto is followed by multiple pairs of coordinates, the subsequent pairs are
    treated as implicit lineto commands" (relative after `m`, absolute after `M`) -/
def lineVerb (verb : Char) : Char := if verb = 'M' then 'L' else if verb = 'm' then 'l' else verb

section calls
variable {α : Type} [Arith α]

/-- the Destination call one (already transformed) operand group of a verb stands for.
    `M`/`m` here are the LATER moves (close-and-move); arcs: flags are `≠ 0`, rotation degrees → turns. -/
def draw (verb : Char) (g : List α) : List (Call α) :=
  match verb, g with
  | 'H', [x] => [.d1 .H x]
  | 'h', [x] => [.d1 .h x]
  | 'V', [y] => [.d1 .V y]
  | 'v', [y] => [.d1 .v y]
  | 'L', [x, y] => [.d2 .L x y]
  | 'l', [x, y] => [.d2 .l x y]
  | 'M', [x, y] => [.d2 .Y x y]
  | 'm', [x, y] => [.d2 .y x y]
  | 'T', [x, y] => [.d2 .T x y]
  | 't', [x, y] => [.d2 .t x y]
  | 'Q', [x1, y1, x, y] => [.d4 .Q x1 y1 x y]
  | 'q', [x1, y1, x, y] => [.d4 .q x1 y1 x y]
  | 'S', [x2, y2, x, y] => [.d4 .S x2 y2 x y]
  | 's', [x2, y2, x, y] => [.d4 .s x2 y2 x y]
  | 'C', [x1, y1, x2, y2, x, y] => [.d6 .C x1 y1 x2 y2 x y]
  | 'c', [x1, y1, x2, y2, x, y] => [.d6 .c x1 y1 x2 y2 x y]
  | 'A', [rx, ry, rot, la, sw, x, y] =>
    [.arc false rx ry (rot / Arith.ofInt 360) (!Arith.feq la (Arith.ofInt 0)) (!Arith.feq sw (Arith.ofInt 0)) x y]
  | 'a', [rx, ry, rot, la, sw, x, y] =>
    [.arc true rx ry (rot / Arith.ofInt 360) (!Arith.feq la (Arith.ofInt 0)) (!Arith.feq sw (Arith.ofInt 0)) x y]
  | _, _ => []

/-- the start of the path: the first move, ALWAYS absolute (SVG 1.1 §8.3.2: "If a relative moveto (m)
    appears as the first element of the path, then it is treated as a pair of absolute coordinates") -/
def start (adj : UInt8) (g : List α) : List (Call α) :=
  match g with
  | [x, y] => [.startPath adj x y]
  | _ => []

/-- the 19 drawing methods (everything a path may contain between its start and its end) -/
def isDrawing : Call α → Bool
  | .d1 .. | .d2 .. | .d4 .. | .d6 .. | .arc .. => true
  | _ => false

def isStart : Call α → Bool
  | .startPath .. => true
  | _ => false

def isEnd : Call α → Bool
  | .closeEnd => true
  | _ => false

/-! ### the generator -/

/-- one operand group of `verb` under the configured transforms -/
def op (ts : List (Gen.Aff3 α)) (verb : Char) (g : List α) : List (Call α) :=
  draw verb (Gen.normalizeArgs g g.length verb ts)

/-- a command that is not the first: every group is one call; the groups after the first of a move are
    line-tos.  `z`/`Z` (no groups) spells no call of its own: the close is performed by the
    close-and-move or the end-of-path that follows (see the remark at `WellFormedC`). -/
def cmdCalls (ts : List (Gen.Aff3 α)) (c : Cmd α) : List (Call α) :=
  match c.groups with
  | [] => []
  | g :: gs => op ts c.verb g ++ gs.flatMap (op ts (lineVerb c.verb))

/-- the first command (a move): its first group starts the path — as an absolute point, with the given
    register adjustment —, the following groups are line-tos -/
def firstCalls (adj : UInt8) (ts : List (Gen.Aff3 α)) (c : Cmd α) : List (Call α) :=
  match c.groups with
  | [] => []
  | g :: gs => start adj (Gen.normalizeArgs g 2 'M' ts) ++ gs.flatMap (op ts (lineVerb c.verb))

/-- the operations spelled by a path, for the generator: start, drawing calls, and the path is ended
    exactly once -/
def spelled (adj : UInt8) (ts : List (Gen.Aff3 α)) : List (Cmd α) → List (Call α)
  | [] => [.closeEnd]
  | c :: cs => firstCalls adj ts c ++ cs.flatMap (cmdCalls ts) ++ [.closeEnd]

/-! ### the converter (its own coordinate map; no arcs) -/

def isRel (verb : Char) : Bool := 'a' ≤ verb ∧ verb ≤ 'z'

def opMd (size offX offY outSize : α) (verb : Char) (g : List α) : List (Call α) :=
  draw verb (Md.normalizeArgs g g.length verb size offX offY outSize (isRel verb))

def cmdCallsMd (size offX offY outSize : α) (c : Cmd α) : List (Call α) :=
  match c.groups with
  | [] => []
  | g :: gs => opMd size offX offY outSize c.verb g ++ gs.flatMap (opMd size offX offY outSize (lineVerb c.verb))

def firstCallsMd (adj : UInt8) (size offX offY outSize : α) (c : Cmd α) : List (Call α) :=
  match c.groups with
  | [] => []
  | g :: gs => start adj (Md.normalizeArgs g 2 'M' size offX offY outSize false) ++
      gs.flatMap (opMd size offX offY outSize (lineVerb c.verb))

/-- the operations spelled by a path's data, for the converter's `ParsePathData` (the end of the path is
    emitted by `ParsePath`, after the circles) -/
def spelledMd (adj : UInt8) (size offX offY outSize : α) : List (Cmd α) → List (Call α)
  | [] => []
  | c :: cs => firstCallsMd adj size offX offY outSize c ++ cs.flatMap (cmdCallsMd size offX offY outSize)

end calls

/-! ## number tokens -/

inductive Sign | none | plus | minus
deriving DecidableEq, Repr

/-- a decimal numeral `[+-]? digits [. digits]` (`5`, `-5`, `+5`, `1.25`, `.5`, `5.`) -/
structure Tok where
  sign : Sign
  int : List (Fin 10)
  /-- `none`: no decimal point; `some f`: a point followed by the digits `f` -/
  frac : Option (List (Fin 10))
deriving DecidableEq, Repr

def Tok.fracDigits (t : Tok) : List (Fin 10) := t.frac.getD []
def Tok.hasDot (t : Tok) : Bool := t.frac.isSome
/-- at least one digit -/
def Tok.ok (t : Tok) : Bool := !t.int.isEmpty || !t.fracDigits.isEmpty

def natOfDigits (ds : List (Fin 10)) : Nat := ds.foldl (fun acc d => acc * 10 + d.val) 0

/-- the number the numeral denotes, read the way the generator does (`float32(ParseFloat(s, 64))`):
    `± digits / 10^(number of fraction digits)` -/
def Tok.value {α : Type} [Arith α] (t : Tok) : α :=
  Arith.ofDecimalVia64 (t.sign == .minus) (natOfDigits (t.int ++ t.fracDigits)) t.fracDigits.length

/-- … and the way the converter does (`Fscanf("%f", *float32)`, i.e. `ParseFloat(s, 32)`) -/
def Tok.value32 {α : Type} [Arith α] (t : Tok) : α :=
  Arith.ofDecimal (t.sign == .minus) (natOfDigits (t.int ++ t.fracDigits)) t.fracDigits.length

def digitChar (d : Fin 10) : Char := Char.ofNat (48 + d.val)

def Sign.render : Sign → List Char
  | .none => []
  | .plus => ['+']
  | .minus => ['-']

def Tok.render (t : Tok) : List Char :=
  t.sign.render ++ t.int.map digitChar ++
    (match t.frac with
     | none => []
     | some f => '.' :: f.map digitChar)

/-! ## concrete syntax: tokens with the separator run that follows them -/

def isSep (c : Char) : Bool := c = ' ' ∨ c = ','

structure CTok where
  tok : Tok
  /-- what is written between this numeral and whatever follows it (spaces and commas, possibly nothing) -/
  sep : List Char
deriving DecidableEq, Repr

def CTok.render (t : CTok) : List Char := t.tok.render ++ t.sep

def renderCmd (c : Cmd CTok) : List Char := c.verb :: c.groups.flatMap (·.flatMap CTok.render)
def renderCmds (cs : List (Cmd CTok)) : List Char := cs.flatMap renderCmd

/-- the general printer: verb letters written once per command, directly followed by the first numeral,
    every numeral followed by its separator run, the data terminated by `z` -/
def renderC (cs : List (Cmd CTok)) : String := String.ofList (renderCmds cs ++ ['z'])

/-- the canonical printer: every numeral followed by one space (`M1 2 3 4 L5 6 z`) -/
def render (cs : List (Cmd Tok)) : String := renderC (cs.map (Cmd.map fun t => ⟨t, [' ']⟩))

/-! ## well-formedness -/

/-- may numeral `t2` follow `t1` (written with separator run `t1.sep`)?  Either the run is not empty, or
    `t2` begins with a sign (`1-2`), or `t2` begins with its decimal point and `t1` already contains one
    (`1.5.5` is `1.5 .5`, SVG grammar's longest-match reading). -/
def adjOK (t1 : CTok) (t2 : Tok) : Bool :=
  !t1.sep.isEmpty || t2.sign != .none || (t2.int.isEmpty && t1.tok.hasDot)

def chainOK : List CTok → Bool
  | t1 :: t2 :: r => adjOK t1 t2.tok && chainOK (t2 :: r)
  | _ => true

/-- a command of the generator's dialect: a known verb, groups of the verb's arity (at least one; none
    for `z`/`Z`), numerals with at least one digit, separator runs of spaces and commas, adjacent
    numerals delimited (`adjOK`), across group boundaries too -/
def cmdOK (c : Cmd CTok) : Bool :=
  match arity c.verb with
  | none => false
  | some 0 => c.groups.isEmpty
  | some n =>
    !c.groups.isEmpty && c.groups.all (·.length == n) &&
    c.groups.all (·.all fun t => t.tok.ok && t.sep.all isSep) &&
    chainOK c.groups.flatten

def isMove (verb : Char) : Bool := verb = 'M' ∨ verb = 'm'

/-- Well-formed path data in the generator's dialect: a non-empty list of `cmdOK` commands starting with
    a move.  Rendered by `renderC` this is the SVG path grammar restricted to: no white space between a
    verb letter and its first numeral, no exponents, no white space before the first command, a final
    lower-case `z`.  A `z`/`Z` in the middle must be followed directly by a verb letter; `spelled`
    gives it no call of its own, which is the SVG meaning for filling when a move (or the end) follows;
    followed by a drawing verb the SVG current point returns to the sub-path start whereas the
    operations emitted continue from the pen (known, accepted). -/
def WellFormedC (cs : List (Cmd CTok)) : Prop :=
  (match cs with
   | c :: _ => isMove c.verb
   | [] => false) = true ∧ cs.all cmdOK = true

instance (cs : List (Cmd CTok)) : Decidable (WellFormedC cs) := by unfold WellFormedC; infer_instance

/-- well-formedness for the canonical printer -/
def WellFormed (cs : List (Cmd Tok)) : Prop :=
  (match cs with
   | c :: _ => isMove c.verb
   | [] => false) = true ∧
  cs.all (fun c =>
    match arity c.verb with
    | none => false
    | some 0 => c.groups.isEmpty
    | some n => !c.groups.isEmpty && c.groups.all (·.length == n) && c.groups.all (·.all Tok.ok)) = true

instance (cs : List (Cmd Tok)) : Decidable (WellFormed cs) := by unfold WellFormed; infer_instance

/-! ### the converter's dialect

No arcs; separators are SPACES only (no commas); spaces may also follow a verb letter (`lead`; the
generator does not accept those).  The first command is an absolute `M` at the very start of the data,
and a move has exactly ONE operand group: the converter re-emits a close-and-move for every further
group of `M`/`m` where SVG spells line-tos, and takes a leading `m` for a later one (see the findings in
`Ivg/Props/C20.lean`). -/

def arityMd (verb : Char) : Option Nat :=
  match verb with
  | 'A' | 'a' => none
  | v => arity v

structure MdCmd where
  cmd : Cmd CTok
  /-- number of spaces between the verb letter and its first numeral (after `z`/`Z`: before the next verb) -/
  lead : Nat
deriving DecidableEq, Repr

def renderMdCmd (c : MdCmd) : List Char :=
  c.cmd.verb :: (List.replicate c.lead ' ' ++ c.cmd.groups.flatMap (·.flatMap CTok.render))

def renderMdCmds (cs : List MdCmd) : List Char := cs.flatMap renderMdCmd

/-- converter printer: the data terminated by one `z` (which `ParsePathData` trims) … -/
def renderMd (cs : List MdCmd) : String := String.ofList (renderMdCmds cs ++ ['z'])
/-- … or not terminated -/
def renderMdOpen (cs : List MdCmd) : String := String.ofList (renderMdCmds cs)

def isSpace (c : Char) : Bool := c = ' '

def mdCmdOK (c : MdCmd) : Bool :=
  match arityMd c.cmd.verb with
  | none => false
  | some 0 => c.cmd.groups.isEmpty
  | some n =>
    !c.cmd.groups.isEmpty && c.cmd.groups.all (·.length == n) &&
    c.cmd.groups.all (·.all fun t => t.tok.ok && t.sep.all isSpace) &&
    chainOK c.cmd.groups.flatten &&
    (!isMove c.cmd.verb || c.cmd.groups.length == 1)

def WellFormedMd (cs : List MdCmd) : Prop :=
  (match cs with
   | c :: _ => c.cmd.verb == 'M'
   | [] => false) = true ∧ cs.all mdCmdOK = true

instance (cs : List MdCmd) : Decidable (WellFormedMd cs) := by unfold WellFormedMd; infer_instance

end Ivg.Spec.PathData
