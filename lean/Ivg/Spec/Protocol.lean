import Ivg.Model.Color
/-!
# Specification automaton of the Encoder call protocol (property C10)

Written from the property text only; this file does NOT import the Encoder model.

  "An Encoder's Bytes reports an error exactly when the call history since the last Reset violated
   the protocol: a drawing operation outside a path, a styling operation or new path inside an open
   path, a register adjustment above 6, or an incrementing form with non-zero adjustment.  The first
   violation is kept until Reset whatever is called afterwards …"

The automaton has four states: `fresh` (zero value, nothing called yet), `styling` (between paths),
`drawing` (inside an open path) and `failed k` (the first violation, of kind `k`).

* `reset` leads to `styling` from ANY state (it clears a failure);
* `failed k` is absorbing for everything else;
* reading a selector / the LOD / the bytes (`observe`) never fails; it turns `fresh` into `styling`
  (the default metadata gets written) and leaves the other states alone;
* setting the exported high-resolution flag (`setHiRes`) has no effect on the protocol state;
* a styling operation or a new path inside an open path fails with `stylingInDrawing`;
* a drawing operation or the end of a path outside an open path fails with `drawingInStyling`
  (also from `fresh`);
* after the mode check, an adjustment above 6 fails with `invalidAdj`;
* after that, an incrementing form with a non-zero adjustment fails with `invalidIncr`;
* a new path leads to `drawing`, the end of a path back to `styling`.
-/
namespace Ivg.Spec.Protocol
open Ivg

/-- the four kinds of protocol violation -/
inductive Kind
  | drawingInStyling   -- a drawing operation (or end of path) outside a path
  | invalidAdj         -- a register adjustment above 6
  | invalidIncr        -- an incrementing form with non-zero adjustment
  | stylingInDrawing   -- a styling operation or a new path inside an open path
deriving DecidableEq, Repr, Inhabited

inductive PState
  | fresh
  | styling
  | drawing
  | failed (kind : Kind)
deriving DecidableEq, Repr, Inhabited

def PState.isFailed : PState → Bool
  | .failed _ => true
  | _ => false

/-- what the protocol sees of one use of the Encoder API -/
inductive Op
  | reset
  /-- CSel() / NSel() / LOD() / Bytes() -/
  | observe
  /-- assignment to the exported field HighResolutionCoordinates -/
  | setHiRes
  /-- a styling operation; operations without adjustment count as `adj = 0`, `incr = false` -/
  | styling (adj : UInt8) (incr : Bool)
  | startPath (adj : UInt8)
  /-- any of the 18 drawing operations that keep the path open -/
  | draw
  /-- ClosePathEndPath -/
  | endPath
deriving DecidableEq, Repr, Inhabited

/-- classification of the 26 delivering methods of `ivg.Destination` -/
def classifyCall {α : Type} : Call α → Op
  | .reset _ _ => .reset
  | .setCSel _ => .styling 0 false
  | .setNSel _ => .styling 0 false
  | .setLOD _ _ => .styling 0 false
  | .setCReg adj incr _ => .styling adj incr
  | .setNReg adj incr _ => .styling adj incr
  | .startPath adj _ _ => .startPath adj
  | .closeEnd => .endPath
  | .d1 _ _ => .draw
  | .d2 _ _ _ => .draw
  | .d4 _ _ _ _ _ => .draw
  | .d6 _ _ _ _ _ _ _ => .draw
  | .arc _ _ _ _ _ _ _ _ => .draw

/-- the adjustment checks shared by the styling operations -/
def checkAdj (adj : UInt8) (incr : Bool) (ok : PState) : PState :=
  if adj > 6 then .failed .invalidAdj
  else if incr = true ∧ adj ≠ 0 then .failed .invalidIncr
  else ok

def pstep : PState → Op → PState
  -- Reset clears everything
  | _, .reset => .styling
  -- the first violation is kept
  | .failed k, _ => .failed k
  -- no effect
  | s, .setHiRes => s
  -- observations
  | .fresh, .observe => .styling
  | .styling, .observe => .styling
  | .drawing, .observe => .drawing
  -- styling operations
  | .drawing, .styling _ _ => .failed .stylingInDrawing
  | .fresh, .styling adj incr => checkAdj adj incr .styling
  | .styling, .styling adj incr => checkAdj adj incr .styling
  -- new path
  | .drawing, .startPath _ => .failed .stylingInDrawing
  | .fresh, .startPath adj => checkAdj adj false .drawing
  | .styling, .startPath adj => checkAdj adj false .drawing
  -- drawing operations
  | .drawing, .draw => .drawing
  | .fresh, .draw => .failed .drawingInStyling
  | .styling, .draw => .failed .drawingInStyling
  -- end of path
  | .drawing, .endPath => .styling
  | .fresh, .endPath => .failed .drawingInStyling
  | .styling, .endPath => .failed .drawingInStyling

def prun (s : PState) (ops : List Op) : PState := ops.foldl pstep s

/-- no prefix of `ops` run from `s` is a violation -/
def ViolationFree (s : PState) (ops : List Op) : Prop :=
  ∀ p, p <+: ops → (prun s p).isFailed = false

/-! sanity checks of the automaton against the property text -/

-- a complete path
example : prun .fresh [.styling 0 false, .startPath 0, .draw, .draw, .endPath, .observe] = .styling := by decide
-- a drawing operation outside a path, also as the very first call
example : prun .fresh [.draw] = .failed .drawingInStyling := by decide
example : prun .fresh [.startPath 0, .endPath, .endPath] = .failed .drawingInStyling := by decide
-- a styling operation / a new path inside an open path
example : prun .fresh [.startPath 0, .styling 0 false] = .failed .stylingInDrawing := by decide
example : prun .fresh [.startPath 0, .startPath 0] = .failed .stylingInDrawing := by decide
-- adjustments
example : prun .fresh [.styling 7 false] = .failed .invalidAdj := by decide
example : prun .fresh [.styling 6 false, .styling 0 true] = .styling := by decide
example : prun .fresh [.styling 1 true] = .failed .invalidIncr := by decide
example : prun .fresh [.styling 7 true] = .failed .invalidAdj := by decide
example : prun .fresh [.startPath 7] = .failed .invalidAdj := by decide
-- the mode check comes first
example : prun .fresh [.startPath 0, .styling 7 true] = .failed .stylingInDrawing := by decide
-- the first violation is kept, until Reset
example : prun .fresh [.draw, .styling 7 false, .observe, .startPath 0] = .failed .drawingInStyling := by decide
example : prun .fresh [.draw, .styling 7 false, .reset, .startPath 0] = .drawing := by decide

end Ivg.Spec.Protocol
