import Ivg.Model.Decoder
import Ivg.Gen.Tie
import Ivg.Obligations
namespace Ivg.Props.C01
open Ivg Enc Dec

/-- placeholder sanity theorem: the default-metadata stream decodes to a single Reset. -/
theorem default_stream_decodes :
    (Dec.decode [] (({} : Encoder).bytes.1.buf)).2 = none := by
  decide

end Ivg.Props.C01
#obligations C01 [Ivg.Props.C01.default_stream_decodes, Ivg.Gen.Tie.drawOps_tie, Ivg.Gen.Tie.magic_tie]
