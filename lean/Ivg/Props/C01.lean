import Ivg.Lemmas.LoopC01
import Ivg.Lemmas.Header
import Ivg.Lemmas.Converse
import Ivg.Lemmas.VBMono
import Ivg.Lemmas.EncoderHist
import Ivg.Gen.Tie.Dc1
import Ivg.Gen.Tie.DefaultViewBox
import Ivg.Gen.Tie.DrawOps
import Ivg.Gen.Tie.Magic
import Ivg.Gen.Tie.Code.EncNumbers
import Ivg.Gen.Tie.Code.EncColors
import Ivg.Gen.Tie.Code.DecNumbers
import Ivg.Gen.Tie.Code.DecColors
import Ivg.Gen.Tie.Code.Encoder
import Ivg.Gen.Tie.Code.Encoder2
import Ivg.Gen.Tie.Code.Encoder3
import Ivg.Gen.Tie.Code.Encoder4
import Ivg.Gen.Tie.Code.Encoder5
import Ivg.Gen.Tie.Code.Encoder6
import Ivg.Gen.Tie.Code.Decoder8
import Ivg.Gen.Tie.Code.Encoder7
import Ivg.Obligations
/-!
# C01 — encode then decode reproduces the drawing program

Model: `Ivg/Model/Encoder.lean` (encode/encode.go, encode/buffer.go), `Ivg/Model/Decoder.lean`
(decode/decode.go, decode/buffer.go), `Ivg/Model/Color.lean` (color.go).

`Q hi c` is the call the decoder delivers for an encoded call `c`: selectors masked to 6 bits,
coordinates `rtCoord (quantize hi ·)`, LOD `rtReal`, NREG `rtNReg`, rotation `rtAngle`; ADJ,
increment flags, arc flags and colours unchanged.  The round-trip functions are characterised in C08
(`Ivg/Lemmas/Codec.lean`: exact when a short form applies, else `trunc30`, the 30-bit float).
-/
namespace Ivg.Props.C01
open Ivg Num Enc Dec Codec RoundTrip EncoderInv Header LoopC01 DecoderProto Converse VBMono EncoderHist

/-- **Forward direction, full strength on structure.**  For every viewBox that is valid after the
    coordinate round trip (or is the default), every premultiplied suggested palette, either resolution
    and every protocol-respecting program `p` (all ADJ values, all colour kinds constructible in Go,
    runs of any length, any float operands, the last path possibly still open): `Bytes` succeeds and
    decoding the bytes delivers `Reset` with the round-tripped metadata followed by exactly `p.map (Q hi)`,
    without error. -/
theorem encode_decode (vb : ViewBox F32) (pal : Palette) (hi : Bool) (p : List (Call F32)) (endPath : Bool)
    (hv : vbNeDefault vb = true → VBValid vb) (hp : ∀ c ∈ pal.toList, c.validPremul = true)
    (hproto : Proto false p endPath) :
    let e := ({ (({} : Encoder).reset vb pal) with hiRes := hi } : Encoder).run p
    ∃ bs, e.bytes.2 = .ok bs ∧ Dec.decode [] bs = (.reset (rtViewBox vb) pal :: p.map (Q hi), none) := by
  intro e
  have h0 : Inv hi (({} : Encoder).reset vb pal).buf ({ (({} : Encoder).reset vb pal) with hiRes := hi } : Encoder) [] false := by
    refine ⟨rfl, rfl, rfl, by simp, fun _ => rfl, by simp [Encoder.reset], [], [], [], rfl, by simp, rfl, fun _ => rfl,
      fun d hd => by simp [Encoder.reset] at hd, fun k => by simp [modeOf]⟩
  have h1 := inv_run dstep p _ [] false endPath h0 hproto
  obtain ⟨body, hb, hdec⟩ := inv_bytes dstep h1
  refine ⟨_, hb, ?_⟩
  rw [header_decodes _ vb pal hv hp body, hdec, Dc_nil]
  simp

/-- the same for a reused Encoder: `Reset` forgets whatever state came before (see also C17) -/
theorem encode_decode_reused (e₀ : Encoder) (vb : ViewBox F32) (pal : Palette) (hi : Bool) (p : List (Call F32))
    (endPath : Bool) (hv : vbNeDefault vb = true → VBValid vb) (hp : ∀ c ∈ pal.toList, c.validPremul = true)
    (hproto : Proto false p endPath) :
    let e := ({ (e₀.step (.reset vb pal)) with hiRes := hi } : Encoder).run p
    ∃ bs, e.bytes.2 = .ok bs ∧ Dec.decode [] bs = (.reset (rtViewBox vb) pal :: p.map (Q hi), none) :=
  encode_decode vb pal hi p endPath hv hp hproto

/-- **Converse direction.**  Every stream the decoder accepts delivers `Reset vb pal` followed by a
    protocol-respecting program `p` (possibly ending inside a path); feeding these calls to an Encoder at either
    resolution gives no error, and the re-encoded stream is accepted and decodes to the same operations up to
    the same quantisation `Q hi` (and the viewBox up to the coordinate round trip, which `reencode_coord`
    shows is numerically the identity on decoder outputs).  Hence transcoding never fails. -/
theorem decode_encode (bs : Bytes) (cs : List (Call F32)) (hi : Bool) (h : Dec.decode [] bs = (cs, none)) :
    ∃ vb pal p, cs = .reset vb pal :: p ∧
      ∃ bs', (({ (({} : Encoder).step (.reset vb pal)) with hiRes := hi } : Encoder).run p).bytes.2 = .ok bs' ∧
        Dec.decode [] bs' = (.reset (rtViewBox vb) pal :: p.map (Q hi), none) := by
  obtain ⟨vb, pal, p, endPath, hcs, hproto, hpal, hvb⟩ := decode_accepted_shape bs cs h
  refine ⟨vb, pal, p, hcs, ?_⟩
  exact encode_decode vb pal hi p endPath (vbValid_of_accepted hvb) hpal hproto

/-- repeated transcoding never fails: the output of one transcoding is again accepted, so the
    statement applies to it in turn -/
theorem transcode_accepted (bs : Bytes) (cs : List (Call F32)) (hi : Bool) (h : Dec.decode [] bs = (cs, none)) :
    ∃ bs' cs', (Dec.decode [] bs') = (cs', none) ∧ cs'.length = cs.length := by
  obtain ⟨vb, pal, p, hcs, bs', _, hdec⟩ := decode_encode bs cs hi h
  exact ⟨bs', _, hdec, by simp [hcs]⟩

/-- non-vacuity: a two-path program with a run, an arc, a blend and an incrementing register write -/
example : Proto false
    [.setCSel 70, .setCReg 0 true (Color.blendColor 40 0x7f 0x80), .setNReg 3 false ⟨0x3f000000⟩,
     .startPath 2 ⟨0x3f800000⟩ ⟨0xc0000000⟩, .d2 .L ⟨0x40400000⟩ ⟨0x40400000⟩, .d2 .L ⟨0x40400000⟩ ⟨0⟩,
     .arc true ⟨0x40000000⟩ ⟨0x40000000⟩ ⟨0x3e800000⟩ true false ⟨0x3f800000⟩ ⟨0x3f800000⟩, .closeEnd,
     .setLOD ⟨0⟩ ⟨0x7f800000⟩, .startPath 0 ⟨0⟩ ⟨0⟩, .d1 .H ⟨0x41200000⟩, .closeEnd] false := by
  simp [Proto, StylingOK, IsDrawing, drawOpOf, Color.WF, Color.blendColor]

example : VBValid ⟨⟨0xc1c00000⟩, ⟨0xc1c00000⟩, ⟨0x41c00000⟩, ⟨0x41c00000⟩⟩ := by
  unfold VBValid rtVB; decide +kernel

/-! ## every finite, ordered viewBox is acceptable -/

/-- **Forward direction with hypotheses on the metadata as the caller hands it over.**  `VBFiniteOrdered vb`
    is the decoder's own viewBox test applied to `vb` (four finite components, `¬ maxX < minX`,
    `¬ maxY < minY`; equivalently `minX ≤ maxX ∧ minY ≤ maxY`, `vbFiniteOrdered_iff`; zero width or height
    allowed, as in the decoder).  The coordinate round trip `rtCoord` is monotone (`rtCoord_mono`), so the
    viewBox the Encoder writes is accepted, whether or not its bounds are representable in 30 bits. -/
theorem encode_decode_valid (vb : ViewBox F32) (pal : Palette) (hi : Bool) (p : List (Call F32)) (endPath : Bool)
    (hv : VBFiniteOrdered vb) (hp : ∀ c ∈ pal.toList, c.validPremul = true)
    (hproto : Proto false p endPath) :
    let e := ({ (({} : Encoder).reset vb pal) with hiRes := hi } : Encoder).run p
    ∃ bs, e.bytes.2 = .ok bs ∧ Dec.decode [] bs = (.reset (rtViewBox vb) pal :: p.map (Q hi), none) :=
  encode_decode vb pal hi p endPath (fun _ => vbValid_of_finite_ordered vb hv) hp hproto

/-- the hypothesis of `encode_decode` characterised on `vb` itself: exactly the viewBoxes with four finite
    components whose 30-bit images `trunc30` are ordered survive (so `VBFiniteOrdered` is sufficient but
    not necessary: see `VBMono.repair_example`) -/
theorem vbValid_iff (vb : ViewBox F32) :
    VBValid vb ↔
      isNaNOrInfinity vb.minX = false ∧ isNaNOrInfinity vb.minY = false ∧
      isNaNOrInfinity vb.maxX = false ∧ isNaNOrInfinity vb.maxY = false ∧
      trunc30 vb.minX ≤ trunc30 vb.maxX ∧ trunc30 vb.minY ≤ trunc30 vb.maxY :=
  VBMono.vbValid_iff vb

/-- the monotonicity behind it: float `≤` (operands not NaN) survives the coordinate round trip -/
theorem rtCoord_mono {a b : F32} (h : a ≤ b) : rtCoord a ≤ rtCoord b := VBMono.rtCoord_mono h

/-- non-vacuity: `[-1/3, 1/3]²`; `1/3 = 0x3eaaaaab` is not representable in 30 bits, the decoder reports
    `0x3eaaaaac` -/
example : VBFiniteOrdered vbThird ∧ vbNeDefault vbThird = true ∧
    rtViewBox vbThird = ⟨⟨0xbeaaaaac⟩, ⟨0xbeaaaaac⟩, ⟨0x3eaaaaac⟩, ⟨0x3eaaaaac⟩⟩ ∧ rtViewBox vbThird ≠ vbThird := by
  have h : rtViewBox vbThird = ⟨⟨0xbeaaaaac⟩, ⟨0xbeaaaaac⟩, ⟨0x3eaaaaac⟩, ⟨0x3eaaaaac⟩⟩ := by
    unfold rtViewBox; rw [vbThird_ne_default, if_pos rfl, vbThird_rt]
  refine ⟨vbThird_finite_ordered, vbThird_ne_default, h, ?_⟩
  rw [h]; decide

/-- boundary behaviour: strictly ordered bounds may collapse (`[1, 0x3f800001] ↦ [1, 1]`), which the
    decoder accepts because its test is `max < min`; and a viewBox inverted by less than the rounding
    (`[0x3f800001, 1]`) is repaired to `[1, 1]` although the decoder would reject it unrounded -/
example : VBValid ⟨⟨0x3f800000⟩, ⟨0⟩, ⟨0x3f800001⟩, ⟨0x3f800000⟩⟩ ∧
    ¬ VBFiniteOrdered ⟨⟨0x3f800001⟩, ⟨0⟩, ⟨0x3f800000⟩, ⟨0x3f800000⟩⟩ ∧
    VBValid ⟨⟨0x3f800001⟩, ⟨0⟩, ⟨0x3f800000⟩, ⟨0x3f800000⟩⟩ :=
  ⟨collapse_example.2.2.2, repair_example.1, repair_example.2⟩

/-! ## the resolution may change at any time -/

/-- **Forward direction for histories over the whole Encoder API.**  `h` interleaves calls (which obey the
    protocol: `Proto` on `callsIn h`) with assignments `setHiRes b` of `HighResolutionCoordinates` and with
    the reads `readCSel`, `readNSel`, `readLOD`, `bytes`, all of them anywhere, also inside a path.  `Bytes`
    succeeds and the decoder delivers `Reset` followed by the calls of `h` in order, each quantised at its
    own resolution `resAt false h i` (`delivered`): the value of the exported flag at the last `StartPath`
    up to and including entry `i`.  So an assignment inside a path takes effect at the next `StartPath`,
    whose own two operands are already written at the new value; `Reset` sets the flag to `false`. -/
theorem encode_decode_hist (vb : ViewBox F32) (pal : Palette) (h : List EncOp) (endPath : Bool)
    (hv : vbNeDefault vb = true → VBValid vb) (hp : ∀ c ∈ pal.toList, c.validPremul = true)
    (hproto : Proto false (callsIn h) endPath) :
    let e := ((({} : Encoder).reset vb pal).runOps h).1
    ∃ bs, e.bytes.2 = .ok bs ∧ Dec.decode [] bs = (.reset (rtViewBox vb) pal :: delivered false h, none) := by
  intro e
  have h1 := invH_runOps dstep h _ [] false endPath (invH_reset {} vb pal) hproto
  obtain ⟨body, hb, hdec⟩ := invH_bytes dstep h1
  refine ⟨_, hb, ?_⟩
  rw [header_decodes _ vb pal hv hp body, hdec, Dc_nil, delivered_eq]
  have e1 : (({} : Encoder).reset vb pal).hiRes = false := rfl
  have e2 : (({} : Encoder).reset vb pal).hiResLocal = false := rfl
  simp [e1, e2]

/-- the same with the hypothesis on the viewBox as handed over -/
theorem encode_decode_hist_valid (vb : ViewBox F32) (pal : Palette) (h : List EncOp) (endPath : Bool)
    (hv : VBFiniteOrdered vb) (hp : ∀ c ∈ pal.toList, c.validPremul = true)
    (hproto : Proto false (callsIn h) endPath) :
    let e := ((({} : Encoder).reset vb pal).runOps h).1
    ∃ bs, e.bytes.2 = .ok bs ∧ Dec.decode [] bs = (.reset (rtViewBox vb) pal :: delivered false h, none) :=
  encode_decode_hist vb pal h endPath (fun _ => vbValid_of_finite_ordered vb hv) hp hproto

/-- the same for a reused Encoder (`Reset` forgets the old flag, too); and since a prefix of a
    protocol-respecting history is protocol-respecting (`endPath` is free), the theorem applied to the prefix
    before a `bytes` entry describes what that intermediate `Bytes()` returns -/
theorem encode_decode_hist_reused (e₀ : Encoder) (vb : ViewBox F32) (pal : Palette) (h : List EncOp)
    (endPath : Bool) (hv : vbNeDefault vb = true → VBValid vb) (hp : ∀ c ∈ pal.toList, c.validPremul = true)
    (hproto : Proto false (callsIn h) endPath) :
    let e := ((e₀.step (.reset vb pal)).runOps h).1
    ∃ bs, e.bytes.2 = .ok bs ∧ Dec.decode [] bs = (.reset (rtViewBox vb) pal :: delivered false h, none) :=
  encode_decode_hist vb pal h endPath hv hp hproto

/-- `encode_decode` is the instance "one assignment, then the program": everything at that value -/
theorem delivered_const (hi : Bool) (p : List (Call F32)) (endPath : Bool) (hproto : Proto false p endPath) :
    delivered false (.setHiRes hi :: p.map .call) = p.map (Q hi) := by
  rw [delivered_eq]
  exact deliv_const hi p false false endPath hproto (by simp)

/-- non-vacuity: the flag is assigned before the first path, inside it (no effect on that path) and
    inside the second path (no effect at all); `bytes` is read in the middle of a run; the resolutions in
    force entry by entry -/
def exampleHist : List EncOp :=
  [.setHiRes true, .call (.setCSel 1), .call (.startPath 0 ⟨0x3eaaaaab⟩ ⟨0x3eaaaaab⟩),
   .call (.d2 .L ⟨0x3eaaaaab⟩ ⟨0x3eaaaaab⟩), .setHiRes false, .bytes, .call (.d2 .L ⟨0x3eaaaaab⟩ ⟨0x3eaaaaab⟩),
   .call .closeEnd, .readCSel, .call (.startPath 0 ⟨0x3eaaaaab⟩ ⟨0x3eaaaaab⟩), .call (.d1 .H ⟨0x3eaaaaab⟩),
   .setHiRes true, .call .closeEnd]

example : Proto false (callsIn exampleHist) false := by
  simp [exampleHist, callsIn, Proto, StylingOK, IsDrawing, drawOpOf]

example : (List.range exampleHist.length).map (resAt false exampleHist) =
    [false, false, true, true, true, true, true, true, true, false, false, false, false] := by decide

/-- … and what the decoder delivers for it: the first path at high resolution (`1/3 ↦ 0x3eaaaaac`), the
    second at low resolution (`1/3 ↦ 21/64 = 0x3ea80000`) -/
example : delivered false exampleHist =
    [.setCSel 1, .startPath 0 ⟨0x3eaaaaac⟩ ⟨0x3eaaaaac⟩, .d2 .L ⟨0x3eaaaaac⟩ ⟨0x3eaaaaac⟩,
     .d2 .L ⟨0x3eaaaaac⟩ ⟨0x3eaaaaac⟩, .closeEnd, .startPath 0 ⟨0x3ea80000⟩ ⟨0x3ea80000⟩, .d1 .H ⟨0x3ea80000⟩,
     .closeEnd] := by
  have h1 : qc true ⟨0x3eaaaaab⟩ = ⟨0x3eaaaaac⟩ := by decide +kernel
  have h2 : qc false ⟨0x3eaaaaab⟩ = ⟨0x3ea80000⟩ := by decide +kernel
  have h3 : ((1 : UInt8) &&& 0x3f) = 1 := by decide
  simp [delivered_eq, exampleHist, deliv, track, Q, h1, h2, h3]

/-- a `Bytes()` in the middle of a run is visible in the final stream (the run `L L` is written as two
    chunks of one instead of one chunk of two: one byte more) but not in what the stream decodes to
    (`encode_decode_hist` holds for both histories, with the same `delivered`) -/
example :
    let hA : List EncOp := [.call (.startPath 0 ⟨0x3f800000⟩ ⟨0x3f800000⟩), .call (.d2 .L ⟨0x40000000⟩ ⟨0x40000000⟩),
      .call (.d2 .L ⟨0x40400000⟩ ⟨0x40400000⟩)]
    let hB : List EncOp := [.call (.startPath 0 ⟨0x3f800000⟩ ⟨0x3f800000⟩), .call (.d2 .L ⟨0x40000000⟩ ⟨0x40000000⟩),
      .bytes, .call (.d2 .L ⟨0x40400000⟩ ⟨0x40400000⟩)]
    let out := fun (h : List EncOp) =>
      match ((({} : Encoder).reset defaultViewBox defaultPalette).runOps h).1.bytes.2 with
      | .ok bs => bs | .error _ => []
    out hA = [0x89, 0x49, 0x56, 0x47, 0x00, 0xc0, 0x82, 0x82, 0x01, 0x84, 0x84, 0x86, 0x86] ∧
    out hB = [0x89, 0x49, 0x56, 0x47, 0x00, 0xc0, 0x82, 0x82, 0x00, 0x84, 0x84, 0x00, 0x86, 0x86] ∧
    delivered false hA = delivered false hB := by
  refine ⟨by decide +kernel, by decide +kernel, ?_⟩
  simp [delivered_eq, deliv, track]

/-!
## Not proved here (documented gaps)
* "never drifts": idempotence of `Q hi` up to float `==` for coordinates and reals is in C08
  (`roundtrip_idempotent`); for `quantize` it is monitored only.
* `encode_decode_hist` starts at `Reset`, which sets `HighResolutionCoordinates` to `false`; a `Reset` in the
  middle of a history starts a new stream (`encode_decode_reused`) and is not part of `Proto`.
* Histories that violate the protocol (they set the sticky error; C16/C17) are outside this property.

Closed since the first version: monotonicity of the coordinate round trip and hence validity of every finite,
ordered viewBox (`encode_decode_valid`, `vbValid_iff`); change of resolution between and inside paths,
reads and `Bytes()` in the middle (`encode_decode_hist`).
-/

end Ivg.Props.C01
#obligations C01 [Ivg.Props.C01.encode_decode, Ivg.Props.C01.encode_decode_reused,
  Ivg.Props.C01.decode_encode, Ivg.Props.C01.transcode_accepted, Ivg.DecoderProto.decode_accepted_shape,
  Ivg.Converse.vbValid_of_accepted,
  Ivg.EncoderInv.inv_run, Ivg.EncoderInv.chunks_dec, Ivg.Header.header_decodes, Ivg.LoopC01.loop_fuel,
  Ivg.Gen.Tie.drawOps_tie, Ivg.Gen.Tie.magic_tie, Ivg.Gen.Tie.dc1Table_tie, Ivg.Gen.Tie.defaultViewBox_tie,
  Ivg.Props.C01.encode_decode_valid, Ivg.Props.C01.vbValid_iff, Ivg.Props.C01.rtCoord_mono,
  Ivg.VBMono.vbValid_of_finite_ordered, Ivg.VBMono.T_key_mono, Ivg.VBMono.toOrd_rtCoord,
  Ivg.Props.C01.encode_decode_hist, Ivg.Props.C01.encode_decode_hist_valid, Ivg.Props.C01.encode_decode_hist_reused,
  Ivg.Props.C01.delivered_const,
  Ivg.EncoderHist.invH_runOps, Ivg.EncoderHist.invH_bytes, Ivg.EncoderHist.delivered_eq,
  -- regenerated code (translator, Ivg/Gen/Code) = model, for all inputs: EncNumbers, EncColors, DecNumbers, DecColors
  Ivg.Gen.Tie.encodeNatural_code_tie,
  Ivg.Gen.Tie.encode4ByteReal_code_tie,
  Ivg.Gen.Tie.encodeReal_code_tie,
  Ivg.Gen.Tie.encodeCoordinate_code_tie,
  Ivg.Gen.Tie.encodeZeroToOne_code_tie,
  Ivg.Gen.Tie.encodeAngle_code_tie,
  Ivg.Gen.Tie.quantize_code_tie,
  Ivg.Gen.Tie.encodeColor1_code_tie,
  Ivg.Gen.Tie.encodeColor2_code_tie,
  Ivg.Gen.Tie.encodeColor3Direct_code_tie,
  Ivg.Gen.Tie.encodeColor4_code_tie,
  Ivg.Gen.Tie.encodeColor3Indirect_code_tie,
  Ivg.Gen.Tie.encodeColor1_code_tie_badTyp,
  Ivg.Gen.Tie.encodeColor2_code_tie_badTyp,
  Ivg.Gen.Tie.encodeColor3Direct_code_tie_badTyp,
  Ivg.Gen.Tie.encodeColor4_code_tie_badTyp,
  Ivg.Gen.Tie.encodeColor3Indirect_code_tie_badTyp,
  Ivg.Gen.Tie.decodeNatural_code_tie,
  Ivg.Gen.Tie.decodeNatural_model_eq,
  Ivg.Gen.Tie.decodeReal_code_tie,
  Ivg.Gen.Tie.decodeReal_model_eq,
  Ivg.Gen.Tie.decodeCoordinate_code_tie,
  Ivg.Gen.Tie.decodeCoordinate_model_eq,
  Ivg.Gen.Tie.decodeZeroToOne_code_tie,
  Ivg.Gen.Tie.decodeZeroToOne_model_eq,
  Ivg.Gen.Tie.isNaNOrInfinity_code_tie,
  Ivg.Gen.Tie.buffer_decodeColor1_code_tie,
  Ivg.Gen.Tie.decodeColor2_code_tie,
  Ivg.Gen.Tie.decodeColor3Direct_code_tie,
  Ivg.Gen.Tie.decodeColor4_code_tie,
  Ivg.Gen.Tie.decodeColor3Indirect_code_tie,
  Ivg.Gen.Tie.buffer_decodeColor1_model_eq,
  Ivg.Gen.Tie.decodeColor2_model_eq,
  Ivg.Gen.Tie.decodeColor3Direct_model_eq,
  Ivg.Gen.Tie.decodeColor4_model_eq,
  Ivg.Gen.Tie.decodeColor3Indirect_model_eq,
  -- regenerated code (translator): the whole encode.Encoder (every method except SetNReg) = the model's Encoder.step, through the representation encOf / WFEnc
  Ivg.Gen.Tie.drawOps_code_tie_all,
  Ivg.Gen.Tie.drawOps_code_tie,
  Ivg.Gen.Tie.errDrawingOpsUsedInStylingMode_code_tie,
  Ivg.Gen.Tie.errInvalidSelectorAdjustment_code_tie,
  Ivg.Gen.Tie.errInvalidIncrementingAdjustment_code_tie,
  Ivg.Gen.Tie.errStylingOpsUsedInDrawingMode_code_tie,
  Ivg.Gen.Tie.encodeError_Error_code_tie,
  Ivg.Gen.Tie.positiveInfinity_code_tie_enc,
  Ivg.Gen.Tie.negativeInfinity_code_tie_enc,
  Ivg.Gen.Tie.appendDefaultMetadata_code_tie,
  Ivg.Gen.Tie.cSel_code_tie,
  Ivg.Gen.Tie.nSel_code_tie,
  Ivg.Gen.Tie.lOD_code_tie,
  Ivg.Gen.Tie.checkModeStyling_code_tie,
  Ivg.Gen.Tie.setCSel_code_tie,
  Ivg.Gen.Tie.setNSel_code_tie,
  Ivg.Gen.Tie.setLOD_code_tie,
  Ivg.Gen.Tie.encoder_startPath_code_tie,
  Ivg.Gen.Tie.setCReg_code_tie,
  Ivg.Gen.Tie.flushDrawOps_code_tie,
  Ivg.Gen.Tie.draw_code_tie,
  Ivg.Gen.Tie.draw_code_tie',
  Ivg.Gen.Tie.encoder_absHLineTo_code_tie,
  Ivg.Gen.Tie.encoder_relHLineTo_code_tie,
  Ivg.Gen.Tie.encoder_absVLineTo_code_tie,
  Ivg.Gen.Tie.encoder_relVLineTo_code_tie,
  Ivg.Gen.Tie.encoder_absLineTo_code_tie,
  Ivg.Gen.Tie.encoder_relLineTo_code_tie,
  Ivg.Gen.Tie.encoder_absSmoothQuadTo_code_tie,
  Ivg.Gen.Tie.encoder_relSmoothQuadTo_code_tie,
  Ivg.Gen.Tie.encoder_closePathAbsMoveTo_code_tie,
  Ivg.Gen.Tie.encoder_closePathRelMoveTo_code_tie,
  Ivg.Gen.Tie.encoder_absQuadTo_code_tie,
  Ivg.Gen.Tie.encoder_relQuadTo_code_tie,
  Ivg.Gen.Tie.encoder_absSmoothCubeTo_code_tie,
  Ivg.Gen.Tie.encoder_relSmoothCubeTo_code_tie,
  Ivg.Gen.Tie.encoder_absCubeTo_code_tie,
  Ivg.Gen.Tie.encoder_relCubeTo_code_tie,
  Ivg.Gen.Tie.encoder_closePathEndPath_code_tie,
  Ivg.Gen.Tie.arcTo_code_tie,
  Ivg.Gen.Tie.absArcTo_code_tie,
  Ivg.Gen.Tie.relArcTo_code_tie,
  Ivg.Gen.Tie.bytes_code_tie,
  Ivg.Gen.Tie.setCSel_code_tie_state,
  Ivg.Gen.Tie.setNSel_code_tie_state,
  Ivg.Gen.Tie.setCReg_code_tie_state,
  Ivg.Gen.Tie.setLOD_code_tie_state,
  Ivg.Gen.Tie.encoder_startPath_code_tie_state,
  Ivg.Gen.Tie.cSel_code_tie_state,
  Ivg.Gen.Tie.nSel_code_tie_state,
  Ivg.Gen.Tie.lOD_code_tie_state,
  Ivg.Gen.Tie.draw_code_tie_state,
  Ivg.Gen.Tie.bytes_code_tie_state,
  Ivg.Gen.Tie.reset_code_tie,
  Ivg.Gen.Tie.reset_code_tie_state,
  Ivg.Gen.Tie.wfEnc_init,
  Ivg.Gen.Tie.wfEnc_step,
  Ivg.Gen.Tie.wfEnc_runOps,
  -- regenerated code (translator) = model, for all inputs: the decoder from bytes to Destination calls (Tie/Code/Decoder*.lean)
  Ivg.Gen.Tie.decode_Decode_code_tie,
  Ivg.Gen.Tie.scratch_readback, Ivg.Gen.Tie.setNReg_code_tie, Ivg.Gen.Tie.setNReg_code_tie_state]
