import Ivg.Lemmas.LoopC01
import Ivg.Lemmas.Header
import Ivg.Gen.Tie.Dc1
import Ivg.Gen.Tie.DefaultViewBox
import Ivg.Gen.Tie.DrawOps
import Ivg.Gen.Tie.Magic
import Ivg.Obligations
/-!
# C01 — encode then decode reproduces the drawing program

Model: `Ivg/Model/Encoder.lean` (encode/encode.go, encode/buffer.go), `Ivg/Model/Decoder.lean`
(decode/decode.go, decode/buffer.go), `Ivg/Model/Color.lean` (color.go).

`Q hi c` is the call the decoder delivers for an encoded call `c`: selectors masked to 6 bits,
coordinates `rtCoord (quantize hi ·)`, LOD `rtReal`, NREG `rtNReg`, rotation `rtAngle`; ADJ,
increment flags, arc flags and colours unchanged.  The round-trip functions are characterised in C08
(`Ivg/Lemmas/Codec.lean`: exact when a short form applies, else `trunc30`, the 30-bit float).
-/
namespace Ivg.Props.C01
open Ivg Num Enc Dec Codec RoundTrip EncoderInv Header LoopC01

/-- **Forward direction, full strength on structure.**  For every viewBox that is valid after the
    coordinate round trip (or is the default), every premultiplied suggested palette, either resolution
    and every protocol-respecting program `p` (all ADJ values, all colour kinds constructible in Go,
    runs of any length, any float operands, the last path possibly still open): `Bytes` succeeds and
    decoding the bytes delivers `Reset` with the round-tripped metadata followed by exactly `p.map (Q hi)`,
    without error. -/
theorem encode_decode (vb : ViewBox F32) (pal : Palette) (hi : Bool) (p : List (Call F32)) (endPath : Bool)
    (hv : vbNeDefault vb = true → VBValid vb) (hp : ∀ c ∈ pal.toList, c.validPremul = true)
    (hproto : Proto false p endPath) :
    let e := ({ (({} : Encoder).reset vb pal) with hiRes := hi } : Encoder).run p
    ∃ bs, e.bytes.2 = .ok bs ∧ Dec.decode [] bs = (.reset (rtViewBox vb) pal :: p.map (Q hi), none) := by
  intro e
  have h0 : Inv hi (({} : Encoder).reset vb pal).buf ({ (({} : Encoder).reset vb pal) with hiRes := hi } : Encoder) [] false := by
    refine ⟨rfl, rfl, rfl, by simp, fun _ => rfl, by simp [Encoder.reset], [], [], [], rfl, by simp, rfl, fun _ => rfl,
      fun d hd => by simp [Encoder.reset] at hd, fun k => by simp [modeOf]⟩
  have h1 := inv_run dstep p _ [] false endPath h0 hproto
  obtain ⟨body, hb, hdec⟩ := inv_bytes dstep h1
  refine ⟨_, hb, ?_⟩
  rw [header_decodes _ vb pal hv hp body, hdec, Dc_nil]
  simp

/-- the same for a reused Encoder: `Reset` forgets whatever state came before (see also C17) -/
theorem encode_decode_reused (e₀ : Encoder) (vb : ViewBox F32) (pal : Palette) (hi : Bool) (p : List (Call F32))
    (endPath : Bool) (hv : vbNeDefault vb = true → VBValid vb) (hp : ∀ c ∈ pal.toList, c.validPremul = true)
    (hproto : Proto false p endPath) :
    let e := ({ (e₀.step (.reset vb pal)) with hiRes := hi } : Encoder).run p
    ∃ bs, e.bytes.2 = .ok bs ∧ Dec.decode [] bs = (.reset (rtViewBox vb) pal :: p.map (Q hi), none) :=
  encode_decode vb pal hi p endPath hv hp hproto

/-- non-vacuity: a two-path program with a run, an arc, a blend and an incrementing register write -/
example : Proto false
    [.setCSel 70, .setCReg 0 true (Color.blendColor 40 0x7f 0x80), .setNReg 3 false ⟨0x3f000000⟩,
     .startPath 2 ⟨0x3f800000⟩ ⟨0xc0000000⟩, .d2 .L ⟨0x40400000⟩ ⟨0x40400000⟩, .d2 .L ⟨0x40400000⟩ ⟨0⟩,
     .arc true ⟨0x40000000⟩ ⟨0x40000000⟩ ⟨0x3e800000⟩ true false ⟨0x3f800000⟩ ⟨0x3f800000⟩, .closeEnd,
     .setLOD ⟨0⟩ ⟨0x7f800000⟩, .startPath 0 ⟨0⟩ ⟨0⟩, .d1 .H ⟨0x41200000⟩, .closeEnd] false := by
  simp [Proto, StylingOK, IsDrawing, drawOpOf, Color.WF, Color.blendColor]

example : VBValid ⟨⟨0xc1c00000⟩, ⟨0xc1c00000⟩, ⟨0x41c00000⟩, ⟨0x41c00000⟩⟩ := by
  unfold VBValid rtVB; decide +kernel

/-!
## Not proved here (documented gaps)
* The converse ("every stream the decoder accepts can be fed to an Encoder …"): needs the lemma that the
  calls the decoder delivers satisfy `Proto` with `StylingOK` (ADJ ≤ 6 by the opcode ranges, colours `WF`
  by `decodeColor1_WF`) — checked on every run by the harness monitor `C01.converse-*`.
* `VBValid` is stated on the round-tripped viewBox; that a finite valid viewBox stays valid needs
  monotonicity of `rtCoord` (not proved).
* "never drifts": idempotence of `Q hi` up to float `==` for coordinates and reals is in C08
  (`roundtrip_idempotent`); for `quantize` it is monitored only.
* Per-path change of resolution (`setHiRes` between paths) is covered by the correspondence runs only.
-/

end Ivg.Props.C01
#obligations C01 [Ivg.Props.C01.encode_decode, Ivg.Props.C01.encode_decode_reused,
  Ivg.EncoderInv.inv_run, Ivg.EncoderInv.chunks_dec, Ivg.Header.header_decodes, Ivg.LoopC01.loop_fuel,
  Ivg.Gen.Tie.drawOps_tie, Ivg.Gen.Tie.magic_tie, Ivg.Gen.Tie.dc1Table_tie, Ivg.Gen.Tie.defaultViewBox_tie]
