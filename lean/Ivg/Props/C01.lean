import Ivg.Lemmas.LoopC01
import Ivg.Lemmas.Header
import Ivg.Lemmas.Converse
import Ivg.Gen.Tie.Dc1
import Ivg.Gen.Tie.DefaultViewBox
import Ivg.Gen.Tie.DrawOps
import Ivg.Gen.Tie.Magic
import Ivg.Obligations
/-!
# C01 — encode then decode reproduces the drawing program

Model: `Ivg/Model/Encoder.lean` (encode/encode.go, encode/buffer.go), `Ivg/Model/Decoder.lean`
(decode/decode.go, decode/buffer.go), `Ivg/Model/Color.lean` (color.go).

`Q hi c` is the call the decoder delivers for an encoded call `c`: selectors masked to 6 bits,
coordinates `rtCoord (quantize hi ·)`, LOD `rtReal`, NREG `rtNReg`, rotation `rtAngle`; ADJ,
increment flags, arc flags and colours unchanged.  The round-trip functions are characterised in C08
(`Ivg/Lemmas/Codec.lean`: exact when a short form applies, else `trunc30`, the 30-bit float).
-/
namespace Ivg.Props.C01
open Ivg Num Enc Dec Codec RoundTrip EncoderInv Header LoopC01 DecoderProto Converse

/-- **Forward direction, full strength on structure.**  For every viewBox that is valid after the
    coordinate round trip (or is the default), every premultiplied suggested palette, either resolution
    and every protocol-respecting program `p` (all ADJ values, all colour kinds constructible in Go,
    runs of any length, any float operands, the last path possibly still open): `Bytes` succeeds and
    decoding the bytes delivers `Reset` with the round-tripped metadata followed by exactly `p.map (Q hi)`,
    without error. -/
theorem encode_decode (vb : ViewBox F32) (pal : Palette) (hi : Bool) (p : List (Call F32)) (endPath : Bool)
    (hv : vbNeDefault vb = true → VBValid vb) (hp : ∀ c ∈ pal.toList, c.validPremul = true)
    (hproto : Proto false p endPath) :
    let e := ({ (({} : Encoder).reset vb pal) with hiRes := hi } : Encoder).run p
    ∃ bs, e.bytes.2 = .ok bs ∧ Dec.decode [] bs = (.reset (rtViewBox vb) pal :: p.map (Q hi), none) := by
  intro e
  have h0 : Inv hi (({} : Encoder).reset vb pal).buf ({ (({} : Encoder).reset vb pal) with hiRes := hi } : Encoder) [] false := by
    refine ⟨rfl, rfl, rfl, by simp, fun _ => rfl, by simp [Encoder.reset], [], [], [], rfl, by simp, rfl, fun _ => rfl,
      fun d hd => by simp [Encoder.reset] at hd, fun k => by simp [modeOf]⟩
  have h1 := inv_run dstep p _ [] false endPath h0 hproto
  obtain ⟨body, hb, hdec⟩ := inv_bytes dstep h1
  refine ⟨_, hb, ?_⟩
  rw [header_decodes _ vb pal hv hp body, hdec, Dc_nil]
  simp

/-- the same for a reused Encoder: `Reset` forgets whatever state came before (see also C17) -/
theorem encode_decode_reused (e₀ : Encoder) (vb : ViewBox F32) (pal : Palette) (hi : Bool) (p : List (Call F32))
    (endPath : Bool) (hv : vbNeDefault vb = true → VBValid vb) (hp : ∀ c ∈ pal.toList, c.validPremul = true)
    (hproto : Proto false p endPath) :
    let e := ({ (e₀.step (.reset vb pal)) with hiRes := hi } : Encoder).run p
    ∃ bs, e.bytes.2 = .ok bs ∧ Dec.decode [] bs = (.reset (rtViewBox vb) pal :: p.map (Q hi), none) :=
  encode_decode vb pal hi p endPath hv hp hproto

/-- **Converse direction.**  Every stream the decoder accepts delivers `Reset vb pal` followed by a
    protocol-respecting program `p` (possibly ending inside a path); feeding these calls to an Encoder at either
    resolution gives no error, and the re-encoded stream is accepted and decodes to the same operations up to
    the same quantisation `Q hi` (and the viewBox up to the coordinate round trip, which `reencode_coord`
    shows is numerically the identity on decoder outputs).  Hence transcoding never fails. -/
theorem decode_encode (bs : Bytes) (cs : List (Call F32)) (hi : Bool) (h : Dec.decode [] bs = (cs, none)) :
    ∃ vb pal p, cs = .reset vb pal :: p ∧
      ∃ bs', (({ (({} : Encoder).step (.reset vb pal)) with hiRes := hi } : Encoder).run p).bytes.2 = .ok bs' ∧
        Dec.decode [] bs' = (.reset (rtViewBox vb) pal :: p.map (Q hi), none) := by
  obtain ⟨vb, pal, p, endPath, hcs, hproto, hpal, hvb⟩ := decode_accepted_shape bs cs h
  refine ⟨vb, pal, p, hcs, ?_⟩
  exact encode_decode vb pal hi p endPath (vbValid_of_accepted hvb) hpal hproto

/-- repeated transcoding never fails: the output of one transcoding is again accepted, so the
    statement applies to it in turn -/
theorem transcode_accepted (bs : Bytes) (cs : List (Call F32)) (hi : Bool) (h : Dec.decode [] bs = (cs, none)) :
    ∃ bs' cs', (Dec.decode [] bs') = (cs', none) ∧ cs'.length = cs.length := by
  obtain ⟨vb, pal, p, hcs, bs', _, hdec⟩ := decode_encode bs cs hi h
  exact ⟨bs', _, hdec, by simp [hcs]⟩

/-- non-vacuity: a two-path program with a run, an arc, a blend and an incrementing register write -/
example : Proto false
    [.setCSel 70, .setCReg 0 true (Color.blendColor 40 0x7f 0x80), .setNReg 3 false ⟨0x3f000000⟩,
     .startPath 2 ⟨0x3f800000⟩ ⟨0xc0000000⟩, .d2 .L ⟨0x40400000⟩ ⟨0x40400000⟩, .d2 .L ⟨0x40400000⟩ ⟨0⟩,
     .arc true ⟨0x40000000⟩ ⟨0x40000000⟩ ⟨0x3e800000⟩ true false ⟨0x3f800000⟩ ⟨0x3f800000⟩, .closeEnd,
     .setLOD ⟨0⟩ ⟨0x7f800000⟩, .startPath 0 ⟨0⟩ ⟨0⟩, .d1 .H ⟨0x41200000⟩, .closeEnd] false := by
  simp [Proto, StylingOK, IsDrawing, drawOpOf, Color.WF, Color.blendColor]

example : VBValid ⟨⟨0xc1c00000⟩, ⟨0xc1c00000⟩, ⟨0x41c00000⟩, ⟨0x41c00000⟩⟩ := by
  unfold VBValid rtVB; decide +kernel

/-!
## Not proved here (documented gaps)
* In the forward direction `VBValid` is stated on the round-tripped viewBox; that an arbitrary finite valid
  viewBox stays valid under the 30-bit truncation needs monotonicity of `rtCoord` (not proved).  In the
  converse direction this is proved (`vbValid_of_accepted`): decoder outputs re-encode to numerically equal values.
* "never drifts": idempotence of `Q hi` up to float `==` for coordinates and reals is in C08
  (`roundtrip_idempotent`); for `quantize` it is monitored only.
* Per-path change of resolution (`setHiRes` between paths) is covered by the correspondence runs only.
-/

end Ivg.Props.C01
#obligations C01 [Ivg.Props.C01.encode_decode, Ivg.Props.C01.encode_decode_reused,
  Ivg.Props.C01.decode_encode, Ivg.Props.C01.transcode_accepted, Ivg.DecoderProto.decode_accepted_shape,
  Ivg.Converse.vbValid_of_accepted,
  Ivg.EncoderInv.inv_run, Ivg.EncoderInv.chunks_dec, Ivg.Header.header_decodes, Ivg.LoopC01.loop_fuel,
  Ivg.Gen.Tie.drawOps_tie, Ivg.Gen.Tie.magic_tie, Ivg.Gen.Tie.dc1Table_tie, Ivg.Gen.Tie.defaultViewBox_tie]
