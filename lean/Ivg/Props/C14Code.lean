import Ivg.Props.C14
import Ivg.Props.C02Code
/-!
# C14 — palette options, restated ON THE CODE

`decode.Decode` WITH options as regenerated from /repo's source (`decode_Decode`, options as functions on the metadata,
`optFn`): what its first delivered call carries.
-/
namespace Ivg.Props.C14Code
open Ivg Ivg.Num Ivg.Gen Ivg.Gen.Code Ivg.Gen.Tie Dec DecL
open Ivg.Props.C02Code (codeCalls Enough codeCalls_eq)

/-- If the translated `Decode` delivers anything, its first call is `Reset` with the viewBox of the metadata and the
    palette the options make of the decoded one: the options folded in order, then sanitised (when there are any). -/
theorem code_reset_after_options (fuel : Nat) (src : Bytes) (opts : List DecodeOption) (hf : Enough fuel src opts)
    (c : Call F32) (cs : List (Call F32)) (h : codeCalls fuel src opts = c :: cs) :
    ∃ hdr m rest, MetaOk {} src hdr m rest ∧ c = .reset m.viewBox (applyOptions m opts).palette := by
  obtain ⟨hdr, m, rest, hm, hc, _⟩ := Ivg.Props.C02Code.code_no_early_delivery fuel src opts hf c cs h
  exact ⟨hdr, m, rest, hm, by rw [hc, Ivg.Lemmas.Options.applyOptions_viewBox]⟩

/-- `WithPalette p` given last: the Destination is reset with `p`, nonsensical entries replaced by opaque black —
    whatever the file suggested and whatever options came before. -/
theorem code_withPalette_last (fuel : Nat) (src : Bytes) (before : List DecodeOption) (p : Palette)
    (hf : Enough fuel src (before ++ [.withPalette p])) (c : Call F32) (cs : List (Call F32))
    (h : codeCalls fuel src (before ++ [.withPalette p]) = c :: cs) :
    ∃ vb, c = .reset vb (sanitizePalette p) := by
  obtain ⟨_, m, _, _, hc⟩ := code_reset_after_options fuel src _ hf c cs h
  exact ⟨m.viewBox, by rw [hc, C14.withPalette_last]⟩

end Ivg.Props.C14Code

#obligations C14 [Ivg.Props.C14Code.code_reset_after_options, Ivg.Props.C14Code.code_withPalette_last]
