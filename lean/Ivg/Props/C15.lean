import Ivg.Lemmas.GradQ
import Ivg.Lemmas.RenderHistQ
import Ivg.Gen.Tie.GradientFields
import Ivg.Gen.Tie.RendererFields
import Ivg.Obligations
/-!
# C15 — gradient paints

Property text: "A gradient paint evaluated at any pixel returns a valid premultiplied colour equal to the
piece-wise linear interpolation (in premultiplied space) of its stops at the offset obtained by mapping
the pixel centre through the viewBox-to-gradient matrix composed with the pixel-to-viewBox map (x
coordinate for linear, distance from the origin for radial). Offsets outside [0,1] are handled per spread
mode: none gives transparent black, pad the end colours, repeat the fractional part, reflect a triangle
wave of period 2; at a stop's offset the colour is that stop's colour, and before the first or after the
last stop it is the first or last colour."

Model: `Ivg/Model/Gradient.lean` (`clamp`, `Gradient.init`, `Gradient.at`; Go: `/repo/render/gradient.go`)
and `Renderer.initGradient` (`/repo/render/render.go`).  Specification: `Ivg/Spec/Grad.lean`
(`spreadOffset`, `sample`, `colorAt`, written from the text above, core Lean only).
All theorems are about the model instantiated at EXACT arithmetic (`ℚ` for both float32 and float64);
the float64 square root of the radial shape is a parameter (`[SqrtQ]`) and stays symbolic:
`GradQ.rawOffset g x y` is `m.a·px + m.b·py + m.c` for the linear shape and
`Wide.sqrt (gx² + gy²)` for the radial shape, with `(px, py) = (x + ½, y + ½)` the pixel centre.
-/
namespace Ivg.Props.C15
open Ivg Grad Ren GradQ
open Ivg.Spec.Grad (Spread frac tri spreadOffset Col lerp sample sampleCol colorAt increasing)

variable [SqrtQ]

/-! ## spread modes -/

/-- Clause "offsets outside [0,1] are handled per spread mode", all at once: the model's `Clamp` equals the
    specification's spread function for EVERY `x` and every spread code, `-1` standing for "none, outside"
    (which `At` turns into transparent black, see `at_none_outside`). -/
theorem clamp_spec (spread : UInt8) (x : ℚ) :
    clamp (α := ℚ) spread x = (spreadOffset (Spread.ofCode spread) x).getD (-1) :=
  GradQ.clamp_spec spread x

/-- … inside `[0,1]` the offset is used as it is, for every spread mode. -/
theorem clamp_inside (spread : UInt8) (x : ℚ) (h0 : 0 ≤ x) (h1 : x ≤ 1) : clamp (α := ℚ) spread x = x :=
  GradQ.clamp_inside spread x h0 h1
example : (0 : ℚ) ≤ 1 / 3 ∧ (1 / 3 : ℚ) ≤ 1 := by norm_num

/-- "pad the end colours": below 0 ↦ 0, above 1 ↦ 1. -/
theorem clamp_pad (x : ℚ) : clamp (α := ℚ) 1 x = if x < 0 then 0 else if x ≤ 1 then x else 1 :=
  GradQ.clamp_pad x

/-- "repeat the fractional part": outside `[0,1]`, `x ↦ x − ⌊x⌋` (also for negative `x`). -/
theorem clamp_repeat (x : ℚ) (h : ¬ (0 ≤ x ∧ x ≤ 1)) : clamp (α := ℚ) 3 x = frac x := GradQ.clamp_repeat x h
example : ¬ ((0 : ℚ) ≤ -5 / 4 ∧ (-5 / 4 : ℚ) ≤ 1) := by norm_num

/-- "reflect a triangle wave of period 2": outside `[0,1]`, `x ↦ tri x` where `tri` is the triangle wave
    through (0,0), (1,1), (2,0) — for every `x`, including the odd integers (where the value is 1) and
    negative `x`. -/
theorem clamp_reflect (x : ℚ) (h : ¬ (0 ≤ x ∧ x ≤ 1)) : clamp (α := ℚ) 2 x = tri x := GradQ.clamp_reflect x h
omit [SqrtQ] in
/-- the triangle wave in closed form from the integer part: rising on even, falling on odd intervals -/
theorem tri_of_floor (x : ℚ) (n : ℤ) (hn : ⌊x⌋ = n) : tri x = if n % 2 = 0 then x - n else n + 1 - x :=
  GradQ.tri_of_floor x n hn
-- at the odd integer 3 and at the negative odd integer −1 the reflected offset is 1, at 2 it is 0
example : clamp (α := ℚ) 2 (3 : ℚ) = 1 ∧ clamp (α := ℚ) 2 (-1 : ℚ) = 1 ∧ clamp (α := ℚ) 2 (2 : ℚ) = 0 ∧
    clamp (α := ℚ) 2 (-5 / 2 : ℚ) = 1 / 2 := by
  refine ⟨?_, ?_, ?_, ?_⟩
  · rw [GradQ.clamp_reflect _ (by norm_num), GradQ.tri_of_floor 3 3 (by norm_num)]; norm_num
  · rw [GradQ.clamp_reflect _ (by norm_num), GradQ.tri_of_floor (-1) (-1) (by norm_num)]; norm_num
  · rw [GradQ.clamp_reflect _ (by norm_num), GradQ.tri_of_floor 2 2 (by norm_num)]; norm_num
  · rw [GradQ.clamp_reflect _ (by norm_num),
      GradQ.tri_of_floor (-5 / 2) (-3) (by rw [Int.floor_eq_iff]; norm_num)]; norm_num

/-- "none gives transparent black", step 1: for any spread code other than 1, 2, 3 `Clamp` returns `-1`
    outside `[0,1]` … -/
theorem clamp_none (spread : UInt8) (hs : spread ≠ 1 ∧ spread ≠ 2 ∧ spread ≠ 3) (x : ℚ)
    (h : ¬ (0 ≤ x ∧ x ≤ 1)) : clamp (α := ℚ) spread x = -1 := GradQ.clamp_none spread hs x h

/-- … step 2: and then `At` returns transparent black. -/
theorem at_none_outside (shape spread : UInt8) (m : Aff3 ℚ) (s0 s1 : Stop ℚ) (rest : List (Stop ℚ))
    (hs : spread ≠ 1 ∧ spread ≠ 2 ∧ spread ≠ 3) (x y : Int)
    (hout : ¬ (0 ≤ rawOffset (Gradient.init shape spread m (s0 :: s1 :: rest)).1 x y ∧
               rawOffset (Gradient.init shape spread m (s0 :: s1 :: rest)).1 x y ≤ 1)) :
    (Gradient.init shape spread m (s0 :: s1 :: rest)).1.at x y = ⟨0, 0, 0, 0⟩ :=
  GradQ.at_none_outside shape spread m s0 s1 rest hs x y hout

/-! ## interpolation -/

/-- Headline: for a gradient made by `Init` from at least two stops with strictly increasing offsets and
    16-bit channels, `At` returns at every pixel the specification's colour `colorAt`: the spread function
    applied to the raw offset of the pixel centre, then the piece-wise linear interpolation of the stops
    (the integer part of the exact value, per channel), or transparent black. -/
theorem at_spec (shape spread : UInt8) (m : Aff3 ℚ) (s0 s1 : Stop ℚ) (rest : List (Stop ℚ))
    (hinc : increasing (specStops (s0 :: s1 :: rest))) (hok : ∀ s ∈ s0 :: s1 :: rest, chanOK s.color)
    (x y : Int) :
    toCol ((Gradient.init shape spread m (s0 :: s1 :: rest)).1.at x y) =
      colorAt (Spread.ofCode spread) (specStops (s0 :: s1 :: rest))
        (rawOffset (Gradient.init shape spread m (s0 :: s1 :: rest)).1 x y) :=
  GradQ.at_spec shape spread m s0 s1 rest hinc hok x y
-- non-vacuity: two stops, transparent at 0 and opaque white (0xffff) at 1
example : increasing (specStops [(⟨0, ⟨0, 0, 0, 0⟩⟩ : Stop ℚ), ⟨1, ⟨0xffff, 0xffff, 0xffff, 0xffff⟩⟩]) ∧
    ∀ s ∈ [(⟨0, ⟨0, 0, 0, 0⟩⟩ : Stop ℚ), ⟨1, ⟨0xffff, 0xffff, 0xffff, 0xffff⟩⟩], chanOK s.color := by
  refine ⟨⟨by norm_num, trivial⟩, ?_⟩
  intro s hs
  simp only [List.mem_cons, List.mem_nil_iff, or_false] at hs
  rcases hs with rfl | rfl <;> simp [chanOK]

/-- Clause "at a stop's offset the colour is that stop's colour" (any stop, first, interior or last). -/
theorem at_stop (shape spread : UInt8) (m : Aff3 ℚ) (s0 s1 : Stop ℚ) (rest : List (Stop ℚ))
    (hinc : increasing (specStops (s0 :: s1 :: rest))) (hok : ∀ s ∈ s0 :: s1 :: rest, chanOK s.color)
    (x y : Int) (i : Nat) (hi : i < (s0 :: s1 :: rest).length)
    (hso : spreadOffset (Spread.ofCode spread)
      (rawOffset (Gradient.init shape spread m (s0 :: s1 :: rest)).1 x y) = some ((s0 :: s1 :: rest)[i].offset)) :
    (Gradient.init shape spread m (s0 :: s1 :: rest)).1.at x y = (s0 :: s1 :: rest)[i].color :=
  GradQ.at_stop shape spread m s0 s1 rest hinc hok x y i hi hso

/-- Clause "before the first or after the last stop it is the first or last colour". -/
theorem before_first_after_last (shape spread : UInt8) (m : Aff3 ℚ) (s0 s1 : Stop ℚ) (rest : List (Stop ℚ))
    (hinc : increasing (specStops (s0 :: s1 :: rest))) (hok : ∀ s ∈ s0 :: s1 :: rest, chanOK s.color)
    (x y : Int) (o : ℚ)
    (hso : spreadOffset (Spread.ofCode spread)
      (rawOffset (Gradient.init shape spread m (s0 :: s1 :: rest)).1 x y) = some o) :
    (o < s0.offset → (Gradient.init shape spread m (s0 :: s1 :: rest)).1.at x y = s0.color) ∧
    (((s0 :: s1 :: rest).getLast (by simp)).offset < o →
      (Gradient.init shape spread m (s0 :: s1 :: rest)).1.at x y = ((s0 :: s1 :: rest).getLast (by simp)).color) :=
  GradQ.before_first_after_last shape spread m s0 s1 rest hinc hok x y o hso

/-- Clause "equal to the piece-wise linear interpolation (in premultiplied space) of its stops": inside a
    range (`oᵢ < o ≤ oᵢ₊₁`) every channel is the integer part of `(1−t)·c₀ + t·c₁`, `t = (o − oᵢ)/(oᵢ₊₁ − oᵢ)`
    (`Spec.Grad.lerp`). -/
theorem at_interp (shape spread : UInt8) (m : Aff3 ℚ) (s0 s1 : Stop ℚ) (rest : List (Stop ℚ))
    (hinc : increasing (specStops (s0 :: s1 :: rest))) (hok : ∀ s ∈ s0 :: s1 :: rest, chanOK s.color)
    (x y : Int) (o : ℚ)
    (hso : spreadOffset (Spread.ofCode spread)
      (rawOffset (Gradient.init shape spread m (s0 :: s1 :: rest)).1 x y) = some o)
    (i : Nat) (hi : i + 1 < (s0 :: s1 :: rest).length)
    (h0 : (s0 :: s1 :: rest)[i].offset < o) (h1 : o ≤ (s0 :: s1 :: rest)[i + 1].offset) :
    let a := (s0 :: s1 :: rest)[i]
    let b := (s0 :: s1 :: rest)[i + 1]
    let c := (Gradient.init shape spread m (s0 :: s1 :: rest)).1.at x y
    c.r = (lerp a.offset b.offset a.color.r b.color.r o).floor.toNat ∧
    c.g = (lerp a.offset b.offset a.color.g b.color.g o).floor.toNat ∧
    c.b = (lerp a.offset b.offset a.color.b b.color.b o).floor.toNat ∧
    c.a = (lerp a.offset b.offset a.color.a b.color.a o).floor.toNat :=
  GradQ.at_interp shape spread m s0 s1 rest hinc hok x y o hso i hi h0 h1

/-- Clause "returns a valid premultiplied colour": premultiplied stops give `R, G, B ≤ A` at every pixel
    (interpolation and truncation are monotone). -/
theorem premul_valid (shape spread : UInt8) (m : Aff3 ℚ) (s0 s1 : Stop ℚ) (rest : List (Stop ℚ))
    (hinc : increasing (specStops (s0 :: s1 :: rest))) (hok : ∀ s ∈ s0 :: s1 :: rest, chanOK s.color)
    (hp : ∀ s ∈ s0 :: s1 :: rest, s.color.r ≤ s.color.a ∧ s.color.g ≤ s.color.a ∧ s.color.b ≤ s.color.a)
    (x y : Int) :
    let c := (Gradient.init shape spread m (s0 :: s1 :: rest)).1.at x y
    c.r ≤ c.a ∧ c.g ≤ c.a ∧ c.b ≤ c.a :=
  GradQ.premul_valid shape spread m s0 s1 rest hinc hok hp x y

/-! ## the gradients the renderer builds -/

omit [SqrtQ] in
/-- Clause "the offset obtained by mapping the pixel centre through the viewBox-to-gradient matrix composed
    with the pixel-to-viewBox map": the matrix `initGradient` builds (`pixMatrix`), applied to pixel
    coordinates, is the NREG matrix `[a b c; d e f]` applied to `(px/scaleX − biasX, py/scaleY − biasY)`,
    the inverse of the viewBox-to-pixel map (`unabsX`, `unabsY`; see `Ivg.Props.C05.unabs_abs`). -/
theorem pix2grad_compose (z : Renderer ℚ ℚ) (nBase : UInt8) (px py : ℚ) :
    let m := pixMatrix z nBase
    m.a * px + m.b * py + m.c =
      z.nReg.get6 (nBase - 6) * z.unabsX px + z.nReg.get6 (nBase - 5) * z.unabsY py + z.nReg.get6 (nBase - 4) ∧
    m.d * px + m.e * py + m.f =
      z.nReg.get6 (nBase - 3) * z.unabsX px + z.nReg.get6 (nBase - 2) * z.unabsY py + z.nReg.get6 (nBase - 1) :=
  GradQ.pix2grad_compose z nBase px py

/-- The whole property for a gradient the renderer accepts (`initGradient … = some g`): its stops are the
    register contents CREG/NREG[base+k] (at least two, strictly increasing), its shape, spread and matrix are
    the decoded ones resp. `pixMatrix`, and at every pixel the colour is the specification's `colorAt` and is
    a valid premultiplied colour. -/
theorem gradient_at_spec (z : Renderer ℚ ℚ) (rgba : RGBA) (g : Gradient ℚ) (h : z.initGradient rgba = some g) :
    ∃ stops : List (Stop ℚ),
      stops.length = (decodeGradient rgba).nStops.toNat ∧ 2 ≤ stops.length ∧
      (∀ k (hk : k < stops.length), stops[k] =
        ⟨z.nReg.get6 ((decodeGradient rgba).nBase + (0 + UInt8.ofNat k)),
         rgba64Of (z.cReg.get6 ((decodeGradient rgba).cBase + (0 + UInt8.ofNat k)))⟩) ∧
      increasing (specStops stops) ∧
      g.shape = (decodeGradient rgba).shape ∧ g.spread = (decodeGradient rgba).spread ∧
      g.pix2Grad = pixMatrix z (decodeGradient rgba).nBase ∧
      ∀ x y : Int,
        toCol (g.at x y) = colorAt (Spread.ofCode (decodeGradient rgba).spread) (specStops stops) (rawOffset g x y) ∧
        ((g.at x y).r ≤ (g.at x y).a ∧ (g.at x y).g ≤ (g.at x y).a ∧ (g.at x y).b ≤ (g.at x y).a) :=
  GradQ.gradient_at_spec z rgba g h

-- non-vacuity: a concrete register state (two-stop linear gradient in CREG/NREG[10,11], matrix in NREG[4…9])
-- whose gradient value `initGradient` accepts
example : ∃ g, GradQ.exampleState.initGradient (encodeGradient 10 10 0 1 2) = some g :=
  Option.isSome_iff_exists.mp GradQ.example_accepted

/-- what the raw offset is (linear: x coordinate; radial: `sqrt` of the squared distance from the origin,
    `sqrt` being the instance's parameter) -/
theorem rawOffset_eq (g : Gradient ℚ) (x y : Int) :
    rawOffset g x y =
      (let px : ℚ := (x : ℚ) + 1 / 2
       let py : ℚ := (y : ℚ) + 1 / 2
       let m := g.pix2Grad
       if g.shape = 0 then m.a * px + m.b * py + m.c
       else SqrtQ.sq ((m.a * px + m.b * py + m.c) * (m.a * px + m.b * py + m.c) +
                      (m.d * px + m.e * py + m.f) * (m.d * px + m.e * py + m.f))) := rfl


/-! ## histories of a reused Renderer: the matrix follows `SetRasterizer`

`RenOp ℚ` is a Destination call or `SetRasterizer(_, r)`; `z.runOps` runs a history
(`Ivg/Lemmas/RenderHist.lean`).  `RenderHistQ.pixMatrixAt R vb nReg nBase` is the matrix `initGradient` must
build for the target rectangle `R` and the viewBox `vb`; `RenderHistQ.pix2vb R vb` is the pixel-to-viewBox
map of `R` and `vb` (the inverse of the affine map of C05, `Tof_pix2vb`). -/
section histories
open Ivg.RenderHist Ivg.RenderHistQ Ivg.Lemmas.RendererVM

omit [SqrtQ] in
/-- Clause "composed with the pixel-to-viewBox map", state form: same registers, another rectangle ⇒ the
    matrix of the NEW rectangle — right after `SetRasterizer r`, whatever transform `z` had. -/
theorem pixMatrix_after_rast (z : Renderer ℚ ℚ) (r : Rect) (nBase : UInt8) :
    pixMatrix (z.setRasterizer r) nBase = pixMatrixAt (Rect.norm r) z.viewBox z.nReg nBase :=
  RenderHistQ.pixMatrix_after_rast z r nBase

omit [SqrtQ] in
/-- … and that matrix is the NREG matrix `[a b c; d e f]` applied after the pixel-to-viewBox map of `R`, `vb`. -/
theorem pixMatrixAt_compose (R : Rect) (vb : ViewBox ℚ) (nReg : Regs ℚ) (nBase : UInt8)
    (hx : (R.dx : ℚ) ≠ 0) (hy : (R.dy : ℚ) ≠ 0) (p : Spec.Path.Pt ℚ) :
    let m := pixMatrixAt R vb nReg nBase
    m.a * p.x + m.b * p.y + m.c =
      nReg.get6 (nBase - 6) * (pix2vb R vb p).x + nReg.get6 (nBase - 5) * (pix2vb R vb p).y + nReg.get6 (nBase - 4) ∧
    m.d * p.x + m.e * p.y + m.f =
      nReg.get6 (nBase - 3) * (pix2vb R vb p).x + nReg.get6 (nBase - 2) * (pix2vb R vb p).y + nReg.get6 (nBase - 1) :=
  RenderHistQ.pixMatrixAt_compose R vb nReg nBase hx hy p
example : (((⟨5, 7, 133, 39⟩ : Rect).dx : ℤ) : ℚ) ≠ 0 ∧ (((⟨5, 7, 133, 39⟩ : Rect).dy : ℤ) : ℚ) ≠ 0 := by
  constructor <;> simp [Rect.dx, Rect.dy]

omit [SqrtQ] in
/-- `pix2vb R vb` is the inverse of the viewBox-to-pixel map of `R`, `vb` (non-degenerate `R`, `vb`). -/
theorem pix2vb_inverse (R : Rect) (vb : ViewBox ℚ) (hx : (R.dx : ℚ) ≠ 0) (hy : (R.dy : ℚ) ≠ 0)
    (hW : vb.maxX - vb.minX ≠ 0) (hH : vb.maxY - vb.minY ≠ 0) (p : Spec.Path.Pt ℚ) :
    Tof R vb (pix2vb R vb p) = p ∧ pix2vb R vb (Tof R vb p) = p := Tof_pix2vb R vb hx hy hW hH p

/-- `gradient_uses_current_transform`: after ANY history `h` (from any state), `SetRasterizer r`, and calls
    `cs` other than `Reset` (register loads, earlier paths — with or without gradients): when `StartPath`
    starts an enabled path painted with a gradient `g`, then `g` is what `initGradient` builds NOW, in the
    current state (so `gradient_at_spec` applies to it with the current registers), its matrix is
    `pixMatrixAt` of `r` and of the viewBox of the last `Reset`, i.e. the NREG matrix composed with the
    pixel-to-viewBox map of `r` — never a matrix computed for an earlier rectangle or an earlier path. -/
theorem gradient_current_transform (arc : ArcFn ℚ ℚ) (posInf : ℚ) (z0 : Renderer ℚ ℚ) (h : List (RenOp ℚ))
    (r : Rect) (cs : List (Call ℚ)) (hcs : ∀ c ∈ cs, isReset c = false) (adj : UInt8) (x y : ℚ) (g : Gradient ℚ)
    (hen : ((z0.runOps arc posInf (h ++ .rast r :: cs.map .call)).1.startPath adj x y).1.disabled = false)
    (hf : ((z0.runOps arc posInf (h ++ .rast r :: cs.map .call)).1.startPath adj x y).1.fill = .gradient g) :
    let z := (z0.runOps arc posInf (h ++ .rast r :: cs.map .call)).1
    let vb := viewBoxAfter z0.viewBox h
    let nBase := (decodeGradient (z.cReg.get6 (z.cSel - adj))).nBase
    z.initGradient (z.cReg.get6 (z.cSel - adj)) = some g ∧
    g.pix2Grad = pixMatrixAt (Rect.norm r) vb z.nReg nBase ∧
    (((Rect.norm r).dx : ℚ) ≠ 0 → ((Rect.norm r).dy : ℚ) ≠ 0 → ∀ p : Spec.Path.Pt ℚ,
      g.pix2Grad.a * p.x + g.pix2Grad.b * p.y + g.pix2Grad.c =
        z.nReg.get6 (nBase - 6) * (pix2vb (Rect.norm r) vb p).x +
        z.nReg.get6 (nBase - 5) * (pix2vb (Rect.norm r) vb p).y + z.nReg.get6 (nBase - 4) ∧
      g.pix2Grad.d * p.x + g.pix2Grad.e * p.y + g.pix2Grad.f =
        z.nReg.get6 (nBase - 3) * (pix2vb (Rect.norm r) vb p).x +
        z.nReg.get6 (nBase - 2) * (pix2vb (Rect.norm r) vb p).y + z.nReg.get6 (nBase - 1)) :=
  RenderHistQ.gradient_uses_current_transform arc posInf z0 h r cs hcs adj x y g hen hf

end histories

-- non-vacuity (default `SqrtQ`; linear gradient): an icon drawn at 64×64, then the same Renderer pointed at
-- 128×32 at (5,7), the gradient's registers loaded, `StartPath`: enabled, painted with a gradient …
example : (RenderHistQ.Ex.zAfter.startPath 0 0 0).1.disabled = false ∧
    ∃ g, (RenderHistQ.Ex.zAfter.startPath 0 0 0).1.fill = .gradient g :=
  ⟨RenderHistQ.Ex.gradient_path_enabled.1, RenderHistQ.Ex.gradient_path_fill⟩
example : ∀ c ∈ RenderHistQ.Ex.load, RenderHist.isReset c = false := RenderHistQ.Ex.load_noReset
-- … whose matrix is the one of the 128-wide rectangle (`NREG[4]·64/128 = 1/128`; the 64-wide one used before
-- would give `1/64`)
example : (match (RenderHistQ.Ex.zAfter.startPath 0 0 0).1.fill with
     | .gradient g => decide (g.pix2Grad.a = 1 / 128 ∧ g.pix2Grad.c = 0)
     | _ => false) = true := RenderHistQ.Ex.gradient_path_matrix

/-!
## Not proved in this file

* Rounding: everything is about the `ℚ` instance.  At float64 the interpolation `s*c0 + t*c1` is rounded
  before truncation, `x − floor x` and the matrix products are rounded; no error bound is proved.
* The radial offset is `Wide.sqrt (gx² + gy²)` with `sqrt` an uninterpreted function on `ℚ`: "distance from
  the origin" holds to the extent that this function is the square root.
* `Spec.Grad.sample` breaks ties at a stop towards the range ENDING there (as `findRange` does); since both
  neighbouring ranges give the stop's colour there (`at_stop`), this is not observable.
-/

end Ivg.Props.C15

#obligations C15 [Ivg.Props.C15.clamp_spec,
  Ivg.Props.C15.clamp_inside,
  Ivg.Props.C15.clamp_pad,
  Ivg.Props.C15.clamp_repeat,
  Ivg.Props.C15.clamp_reflect,
  Ivg.Props.C15.tri_of_floor,
  Ivg.Props.C15.clamp_none,
  Ivg.Props.C15.at_none_outside,
  Ivg.Props.C15.at_spec,
  Ivg.Props.C15.at_stop,
  Ivg.Props.C15.before_first_after_last,
  Ivg.Props.C15.at_interp,
  Ivg.Props.C15.premul_valid,
  Ivg.Props.C15.pix2grad_compose,
  Ivg.Props.C15.gradient_at_spec,
  Ivg.Props.C15.rawOffset_eq,
  Ivg.Props.C15.pixMatrix_after_rast,
  Ivg.Props.C15.pixMatrixAt_compose,
  Ivg.Props.C15.pix2vb_inverse,
  Ivg.Props.C15.gradient_current_transform,
  Ivg.Gen.Tie.renderer_fields_tie,
  Ivg.Gen.Tie.gradient_fields_tie]
