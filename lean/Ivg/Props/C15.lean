import Ivg.Lemmas.GradQ
import Ivg.Lemmas.RenderHistQ
import Ivg.Lemmas.Grad64e
import Ivg.Gen.Tie.GradientFields
import Ivg.Gen.Tie.RendererFields
import Ivg.Gen.Tie.Code.Clamp
import Ivg.Gen.Tie.Code.Logger
import Ivg.Gen.Tie.Code.Retarget
import Ivg.Gen.Tie.Code.Ranges
import Ivg.Gen.Tie.Code.GradAt
import Ivg.Obligations
/-!
# C15 — gradient paints

Property text: "A gradient paint evaluated at any pixel returns a valid premultiplied colour equal to the
piece-wise linear interpolation (in premultiplied space) of its stops at the offset obtained by mapping
the pixel centre through the viewBox-to-gradient matrix composed with the pixel-to-viewBox map (x
coordinate for linear, distance from the origin for radial). Offsets outside [0,1] are handled per spread
mode: none gives transparent black, pad the end colours, repeat the fractional part, reflect a triangle
wave of period 2; at a stop's offset the colour is that stop's colour, and before the first or after the
last stop it is the first or last colour."

Model: `Ivg/Model/Gradient.lean` (`clamp`, `Gradient.init`, `Gradient.at`; Go: `/repo/render/gradient.go`)
and `Renderer.initGradient` (`/repo/render/render.go`).  Specification: `Ivg/Spec/Grad.lean`
(`spreadOffset`, `sample`, `colorAt`, written from the text above, core Lean only).
All theorems are about the model instantiated at EXACT arithmetic (`ℚ` for both float32 and float64);
the float64 square root of the radial shape is a parameter (`[SqrtQ]`) and stays symbolic:
`GradQ.rawOffset g x y` is `m.a·px + m.b·py + m.c` for the linear shape and
`Wide.sqrt (gx² + gy²)` for the radial shape, with `(px, py) = (x + ½, y + ½)` the pixel centre.

The LAST section ("float64") is about the same model functions instantiated at the soft floats `(F32, F64)`
— the instance that is bit-exact with Go — and proves the part of the property that is EXACT in floats
(`Ivg/Lemmas/Grad64.lean` … `Grad64e.lean`).
-/
namespace Ivg.Props.C15
open Ivg Grad Ren GradQ
open Ivg.Spec.Grad (Spread frac tri spreadOffset Col lerp sample sampleCol colorAt increasing)

variable [SqrtQ]

/-! ## spread modes -/

/-- Clause "offsets outside [0,1] are handled per spread mode", all at once: the model's `Clamp` equals the
    specification's spread function for EVERY `x` and every spread code, `-1` standing for "none, outside"
    (which `At` turns into transparent black, see `at_none_outside`). -/
theorem clamp_spec (spread : UInt8) (x : ℚ) :
    clamp (α := ℚ) spread x = (spreadOffset (Spread.ofCode spread) x).getD (-1) :=
  GradQ.clamp_spec spread x

/-- … inside `[0,1]` the offset is used as it is, for every spread mode. -/
theorem clamp_inside (spread : UInt8) (x : ℚ) (h0 : 0 ≤ x) (h1 : x ≤ 1) : clamp (α := ℚ) spread x = x :=
  GradQ.clamp_inside spread x h0 h1
example : (0 : ℚ) ≤ 1 / 3 ∧ (1 / 3 : ℚ) ≤ 1 := by norm_num

/-- "pad the end colours": below 0 ↦ 0, above 1 ↦ 1. -/
theorem clamp_pad (x : ℚ) : clamp (α := ℚ) 1 x = if x < 0 then 0 else if x ≤ 1 then x else 1 :=
  GradQ.clamp_pad x

/-- "repeat the fractional part": outside `[0,1]`, `x ↦ x − ⌊x⌋` (also for negative `x`). -/
theorem clamp_repeat (x : ℚ) (h : ¬ (0 ≤ x ∧ x ≤ 1)) : clamp (α := ℚ) 3 x = frac x := GradQ.clamp_repeat x h
example : ¬ ((0 : ℚ) ≤ -5 / 4 ∧ (-5 / 4 : ℚ) ≤ 1) := by norm_num

/-- "reflect a triangle wave of period 2": outside `[0,1]`, `x ↦ tri x` where `tri` is the triangle wave
    through (0,0), (1,1), (2,0) — for every `x`, including the odd integers (where the value is 1) and
    negative `x`. -/
theorem clamp_reflect (x : ℚ) (h : ¬ (0 ≤ x ∧ x ≤ 1)) : clamp (α := ℚ) 2 x = tri x := GradQ.clamp_reflect x h
omit [SqrtQ] in
/-- the triangle wave in closed form from the integer part: rising on even, falling on odd intervals -/
theorem tri_of_floor (x : ℚ) (n : ℤ) (hn : ⌊x⌋ = n) : tri x = if n % 2 = 0 then x - n else n + 1 - x :=
  GradQ.tri_of_floor x n hn
-- at the odd integer 3 and at the negative odd integer −1 the reflected offset is 1, at 2 it is 0
example : clamp (α := ℚ) 2 (3 : ℚ) = 1 ∧ clamp (α := ℚ) 2 (-1 : ℚ) = 1 ∧ clamp (α := ℚ) 2 (2 : ℚ) = 0 ∧
    clamp (α := ℚ) 2 (-5 / 2 : ℚ) = 1 / 2 := by
  refine ⟨?_, ?_, ?_, ?_⟩
  · rw [GradQ.clamp_reflect _ (by norm_num), GradQ.tri_of_floor 3 3 (by norm_num)]; norm_num
  · rw [GradQ.clamp_reflect _ (by norm_num), GradQ.tri_of_floor (-1) (-1) (by norm_num)]; norm_num
  · rw [GradQ.clamp_reflect _ (by norm_num), GradQ.tri_of_floor 2 2 (by norm_num)]; norm_num
  · rw [GradQ.clamp_reflect _ (by norm_num),
      GradQ.tri_of_floor (-5 / 2) (-3) (by rw [Int.floor_eq_iff]; norm_num)]; norm_num

/-- "none gives transparent black", step 1: for any spread code other than 1, 2, 3 `Clamp` returns `-1`
    outside `[0,1]` … -/
theorem clamp_none (spread : UInt8) (hs : spread ≠ 1 ∧ spread ≠ 2 ∧ spread ≠ 3) (x : ℚ)
    (h : ¬ (0 ≤ x ∧ x ≤ 1)) : clamp (α := ℚ) spread x = -1 := GradQ.clamp_none spread hs x h

/-- … step 2: and then `At` returns transparent black. -/
theorem at_none_outside (shape spread : UInt8) (m : Aff3 ℚ) (s0 s1 : Stop ℚ) (rest : List (Stop ℚ))
    (hs : spread ≠ 1 ∧ spread ≠ 2 ∧ spread ≠ 3) (x y : Int)
    (hout : ¬ (0 ≤ rawOffset (Gradient.init shape spread m (s0 :: s1 :: rest)).1 x y ∧
               rawOffset (Gradient.init shape spread m (s0 :: s1 :: rest)).1 x y ≤ 1)) :
    (Gradient.init shape spread m (s0 :: s1 :: rest)).1.at x y = ⟨0, 0, 0, 0⟩ :=
  GradQ.at_none_outside shape spread m s0 s1 rest hs x y hout

/-! ## interpolation -/

/-- Headline: for a gradient made by `Init` from at least two stops with strictly increasing offsets and
    16-bit channels, `At` returns at every pixel the specification's colour `colorAt`: the spread function
    applied to the raw offset of the pixel centre, then the piece-wise linear interpolation of the stops
    (the integer part of the exact value, per channel), or transparent black. -/
theorem at_spec (shape spread : UInt8) (m : Aff3 ℚ) (s0 s1 : Stop ℚ) (rest : List (Stop ℚ))
    (hinc : increasing (specStops (s0 :: s1 :: rest))) (hok : ∀ s ∈ s0 :: s1 :: rest, chanOK s.color)
    (x y : Int) :
    toCol ((Gradient.init shape spread m (s0 :: s1 :: rest)).1.at x y) =
      colorAt (Spread.ofCode spread) (specStops (s0 :: s1 :: rest))
        (rawOffset (Gradient.init shape spread m (s0 :: s1 :: rest)).1 x y) :=
  GradQ.at_spec shape spread m s0 s1 rest hinc hok x y
-- non-vacuity: two stops, transparent at 0 and opaque white (0xffff) at 1
example : increasing (specStops [(⟨0, ⟨0, 0, 0, 0⟩⟩ : Stop ℚ), ⟨1, ⟨0xffff, 0xffff, 0xffff, 0xffff⟩⟩]) ∧
    ∀ s ∈ [(⟨0, ⟨0, 0, 0, 0⟩⟩ : Stop ℚ), ⟨1, ⟨0xffff, 0xffff, 0xffff, 0xffff⟩⟩], chanOK s.color := by
  refine ⟨⟨by norm_num, trivial⟩, ?_⟩
  intro s hs
  simp only [List.mem_cons, List.mem_nil_iff, or_false] at hs
  rcases hs with rfl | rfl <;> simp [chanOK]

/-- Clause "at a stop's offset the colour is that stop's colour" (any stop, first, interior or last). -/
theorem at_stop (shape spread : UInt8) (m : Aff3 ℚ) (s0 s1 : Stop ℚ) (rest : List (Stop ℚ))
    (hinc : increasing (specStops (s0 :: s1 :: rest))) (hok : ∀ s ∈ s0 :: s1 :: rest, chanOK s.color)
    (x y : Int) (i : Nat) (hi : i < (s0 :: s1 :: rest).length)
    (hso : spreadOffset (Spread.ofCode spread)
      (rawOffset (Gradient.init shape spread m (s0 :: s1 :: rest)).1 x y) = some ((s0 :: s1 :: rest)[i].offset)) :
    (Gradient.init shape spread m (s0 :: s1 :: rest)).1.at x y = (s0 :: s1 :: rest)[i].color :=
  GradQ.at_stop shape spread m s0 s1 rest hinc hok x y i hi hso

/-- Clause "before the first or after the last stop it is the first or last colour". -/
theorem before_first_after_last (shape spread : UInt8) (m : Aff3 ℚ) (s0 s1 : Stop ℚ) (rest : List (Stop ℚ))
    (hinc : increasing (specStops (s0 :: s1 :: rest))) (hok : ∀ s ∈ s0 :: s1 :: rest, chanOK s.color)
    (x y : Int) (o : ℚ)
    (hso : spreadOffset (Spread.ofCode spread)
      (rawOffset (Gradient.init shape spread m (s0 :: s1 :: rest)).1 x y) = some o) :
    (o < s0.offset → (Gradient.init shape spread m (s0 :: s1 :: rest)).1.at x y = s0.color) ∧
    (((s0 :: s1 :: rest).getLast (by simp)).offset < o →
      (Gradient.init shape spread m (s0 :: s1 :: rest)).1.at x y = ((s0 :: s1 :: rest).getLast (by simp)).color) :=
  GradQ.before_first_after_last shape spread m s0 s1 rest hinc hok x y o hso

/-- Clause "equal to the piece-wise linear interpolation (in premultiplied space) of its stops": inside a
    range (`oᵢ < o ≤ oᵢ₊₁`) every channel is the integer part of `(1−t)·c₀ + t·c₁`, `t = (o − oᵢ)/(oᵢ₊₁ − oᵢ)`
    (`Spec.Grad.lerp`). -/
theorem at_interp (shape spread : UInt8) (m : Aff3 ℚ) (s0 s1 : Stop ℚ) (rest : List (Stop ℚ))
    (hinc : increasing (specStops (s0 :: s1 :: rest))) (hok : ∀ s ∈ s0 :: s1 :: rest, chanOK s.color)
    (x y : Int) (o : ℚ)
    (hso : spreadOffset (Spread.ofCode spread)
      (rawOffset (Gradient.init shape spread m (s0 :: s1 :: rest)).1 x y) = some o)
    (i : Nat) (hi : i + 1 < (s0 :: s1 :: rest).length)
    (h0 : (s0 :: s1 :: rest)[i].offset < o) (h1 : o ≤ (s0 :: s1 :: rest)[i + 1].offset) :
    let a := (s0 :: s1 :: rest)[i]
    let b := (s0 :: s1 :: rest)[i + 1]
    let c := (Gradient.init shape spread m (s0 :: s1 :: rest)).1.at x y
    c.r = (lerp a.offset b.offset a.color.r b.color.r o).floor.toNat ∧
    c.g = (lerp a.offset b.offset a.color.g b.color.g o).floor.toNat ∧
    c.b = (lerp a.offset b.offset a.color.b b.color.b o).floor.toNat ∧
    c.a = (lerp a.offset b.offset a.color.a b.color.a o).floor.toNat :=
  GradQ.at_interp shape spread m s0 s1 rest hinc hok x y o hso i hi h0 h1

/-- Clause "returns a valid premultiplied colour": premultiplied stops give `R, G, B ≤ A` at every pixel
    (interpolation and truncation are monotone). -/
theorem premul_valid (shape spread : UInt8) (m : Aff3 ℚ) (s0 s1 : Stop ℚ) (rest : List (Stop ℚ))
    (hinc : increasing (specStops (s0 :: s1 :: rest))) (hok : ∀ s ∈ s0 :: s1 :: rest, chanOK s.color)
    (hp : ∀ s ∈ s0 :: s1 :: rest, s.color.r ≤ s.color.a ∧ s.color.g ≤ s.color.a ∧ s.color.b ≤ s.color.a)
    (x y : Int) :
    let c := (Gradient.init shape spread m (s0 :: s1 :: rest)).1.at x y
    c.r ≤ c.a ∧ c.g ≤ c.a ∧ c.b ≤ c.a :=
  GradQ.premul_valid shape spread m s0 s1 rest hinc hok hp x y

/-! ## the gradients the renderer builds -/

omit [SqrtQ] in
/-- Clause "the offset obtained by mapping the pixel centre through the viewBox-to-gradient matrix composed
    with the pixel-to-viewBox map": the matrix `initGradient` builds (`pixMatrix`), applied to pixel
    coordinates, is the NREG matrix `[a b c; d e f]` applied to `(px/scaleX − biasX, py/scaleY − biasY)`,
    the inverse of the viewBox-to-pixel map (`unabsX`, `unabsY`; see `Ivg.Props.C05.unabs_abs`). -/
theorem pix2grad_compose (z : Renderer ℚ ℚ) (nBase : UInt8) (px py : ℚ) :
    let m := pixMatrix z nBase
    m.a * px + m.b * py + m.c =
      z.nReg.get6 (nBase - 6) * z.unabsX px + z.nReg.get6 (nBase - 5) * z.unabsY py + z.nReg.get6 (nBase - 4) ∧
    m.d * px + m.e * py + m.f =
      z.nReg.get6 (nBase - 3) * z.unabsX px + z.nReg.get6 (nBase - 2) * z.unabsY py + z.nReg.get6 (nBase - 1) :=
  GradQ.pix2grad_compose z nBase px py

/-- The whole property for a gradient the renderer accepts (`initGradient … = some g`): its stops are the
    register contents CREG/NREG[base+k] (at least two, strictly increasing), its shape, spread and matrix are
    the decoded ones resp. `pixMatrix`, and at every pixel the colour is the specification's `colorAt` and is
    a valid premultiplied colour. -/
theorem gradient_at_spec (z : Renderer ℚ ℚ) (rgba : RGBA) (g : Gradient ℚ) (h : z.initGradient rgba = some g) :
    ∃ stops : List (Stop ℚ),
      stops.length = (decodeGradient rgba).nStops.toNat ∧ 2 ≤ stops.length ∧
      (∀ k (hk : k < stops.length), stops[k] =
        ⟨z.nReg.get6 ((decodeGradient rgba).nBase + (0 + UInt8.ofNat k)),
         rgba64Of (z.cReg.get6 ((decodeGradient rgba).cBase + (0 + UInt8.ofNat k)))⟩) ∧
      increasing (specStops stops) ∧
      g.shape = (decodeGradient rgba).shape ∧ g.spread = (decodeGradient rgba).spread ∧
      g.pix2Grad = pixMatrix z (decodeGradient rgba).nBase ∧
      ∀ x y : Int,
        toCol (g.at x y) = colorAt (Spread.ofCode (decodeGradient rgba).spread) (specStops stops) (rawOffset g x y) ∧
        ((g.at x y).r ≤ (g.at x y).a ∧ (g.at x y).g ≤ (g.at x y).a ∧ (g.at x y).b ≤ (g.at x y).a) :=
  GradQ.gradient_at_spec z rgba g h

-- non-vacuity: a concrete register state (two-stop linear gradient in CREG/NREG[10,11], matrix in NREG[4…9])
-- whose gradient value `initGradient` accepts
example : ∃ g, GradQ.exampleState.initGradient (encodeGradient 10 10 0 1 2) = some g :=
  Option.isSome_iff_exists.mp GradQ.example_accepted

/-- what the raw offset is (linear: x coordinate; radial: `sqrt` of the squared distance from the origin,
    `sqrt` being the instance's parameter) -/
theorem rawOffset_eq (g : Gradient ℚ) (x y : Int) :
    rawOffset g x y =
      (let px : ℚ := (x : ℚ) + 1 / 2
       let py : ℚ := (y : ℚ) + 1 / 2
       let m := g.pix2Grad
       if g.shape = 0 then m.a * px + m.b * py + m.c
       else SqrtQ.sq ((m.a * px + m.b * py + m.c) * (m.a * px + m.b * py + m.c) +
                      (m.d * px + m.e * py + m.f) * (m.d * px + m.e * py + m.f))) := rfl


/-! ## histories of a reused Renderer: the matrix follows `SetRasterizer`

`RenOp ℚ` is a Destination call or `SetRasterizer(_, r)`; `z.runOps` runs a history
(`Ivg/Lemmas/RenderHist.lean`).  `RenderHistQ.pixMatrixAt R vb nReg nBase` is the matrix `initGradient` must
build for the target rectangle `R` and the viewBox `vb`; `RenderHistQ.pix2vb R vb` is the pixel-to-viewBox
map of `R` and `vb` (the inverse of the affine map of C05, `Tof_pix2vb`). -/
section histories
open Ivg.RenderHist Ivg.RenderHistQ Ivg.Lemmas.RendererVM

omit [SqrtQ] in
/-- Clause "composed with the pixel-to-viewBox map", state form: same registers, another rectangle ⇒ the
    matrix of the NEW rectangle — right after `SetRasterizer r`, whatever transform `z` had. -/
theorem pixMatrix_after_rast (z : Renderer ℚ ℚ) (r : Rect) (nBase : UInt8) :
    pixMatrix (z.setRasterizer r) nBase = pixMatrixAt (Rect.norm r) z.viewBox z.nReg nBase :=
  RenderHistQ.pixMatrix_after_rast z r nBase

omit [SqrtQ] in
/-- … and that matrix is the NREG matrix `[a b c; d e f]` applied after the pixel-to-viewBox map of `R`, `vb`. -/
theorem pixMatrixAt_compose (R : Rect) (vb : ViewBox ℚ) (nReg : Regs ℚ) (nBase : UInt8)
    (hx : (R.dx : ℚ) ≠ 0) (hy : (R.dy : ℚ) ≠ 0) (p : Spec.Path.Pt ℚ) :
    let m := pixMatrixAt R vb nReg nBase
    m.a * p.x + m.b * p.y + m.c =
      nReg.get6 (nBase - 6) * (pix2vb R vb p).x + nReg.get6 (nBase - 5) * (pix2vb R vb p).y + nReg.get6 (nBase - 4) ∧
    m.d * p.x + m.e * p.y + m.f =
      nReg.get6 (nBase - 3) * (pix2vb R vb p).x + nReg.get6 (nBase - 2) * (pix2vb R vb p).y + nReg.get6 (nBase - 1) :=
  RenderHistQ.pixMatrixAt_compose R vb nReg nBase hx hy p
example : (((⟨5, 7, 133, 39⟩ : Rect).dx : ℤ) : ℚ) ≠ 0 ∧ (((⟨5, 7, 133, 39⟩ : Rect).dy : ℤ) : ℚ) ≠ 0 := by
  constructor <;> simp [Rect.dx, Rect.dy]

omit [SqrtQ] in
/-- `pix2vb R vb` is the inverse of the viewBox-to-pixel map of `R`, `vb` (non-degenerate `R`, `vb`). -/
theorem pix2vb_inverse (R : Rect) (vb : ViewBox ℚ) (hx : (R.dx : ℚ) ≠ 0) (hy : (R.dy : ℚ) ≠ 0)
    (hW : vb.maxX - vb.minX ≠ 0) (hH : vb.maxY - vb.minY ≠ 0) (p : Spec.Path.Pt ℚ) :
    Tof R vb (pix2vb R vb p) = p ∧ pix2vb R vb (Tof R vb p) = p := Tof_pix2vb R vb hx hy hW hH p

/-- `gradient_uses_current_transform`: after ANY history `h` (from any state), `SetRasterizer r`, and calls
    `cs` other than `Reset` (register loads, earlier paths — with or without gradients): when `StartPath`
    starts an enabled path painted with a gradient `g`, then `g` is what `initGradient` builds NOW, in the
    current state (so `gradient_at_spec` applies to it with the current registers), its matrix is
    `pixMatrixAt` of `r` and of the viewBox of the last `Reset`, i.e. the NREG matrix composed with the
    pixel-to-viewBox map of `r` — never a matrix computed for an earlier rectangle or an earlier path. -/
theorem gradient_current_transform (arc : ArcFn ℚ ℚ) (posInf : ℚ) (z0 : Renderer ℚ ℚ) (h : List (RenOp ℚ))
    (r : Rect) (cs : List (Call ℚ)) (hcs : ∀ c ∈ cs, isReset c = false) (adj : UInt8) (x y : ℚ) (g : Gradient ℚ)
    (hen : ((z0.runOps arc posInf (h ++ .rast r :: cs.map .call)).1.startPath adj x y).1.disabled = false)
    (hf : ((z0.runOps arc posInf (h ++ .rast r :: cs.map .call)).1.startPath adj x y).1.fill = .gradient g) :
    let z := (z0.runOps arc posInf (h ++ .rast r :: cs.map .call)).1
    let vb := viewBoxAfter z0.viewBox h
    let nBase := (decodeGradient (z.cReg.get6 (z.cSel - adj))).nBase
    z.initGradient (z.cReg.get6 (z.cSel - adj)) = some g ∧
    g.pix2Grad = pixMatrixAt (Rect.norm r) vb z.nReg nBase ∧
    (((Rect.norm r).dx : ℚ) ≠ 0 → ((Rect.norm r).dy : ℚ) ≠ 0 → ∀ p : Spec.Path.Pt ℚ,
      g.pix2Grad.a * p.x + g.pix2Grad.b * p.y + g.pix2Grad.c =
        z.nReg.get6 (nBase - 6) * (pix2vb (Rect.norm r) vb p).x +
        z.nReg.get6 (nBase - 5) * (pix2vb (Rect.norm r) vb p).y + z.nReg.get6 (nBase - 4) ∧
      g.pix2Grad.d * p.x + g.pix2Grad.e * p.y + g.pix2Grad.f =
        z.nReg.get6 (nBase - 3) * (pix2vb (Rect.norm r) vb p).x +
        z.nReg.get6 (nBase - 2) * (pix2vb (Rect.norm r) vb p).y + z.nReg.get6 (nBase - 1)) :=
  RenderHistQ.gradient_uses_current_transform arc posInf z0 h r cs hcs adj x y g hen hf

end histories

-- non-vacuity (default `SqrtQ`; linear gradient): an icon drawn at 64×64, then the same Renderer pointed at
-- 128×32 at (5,7), the gradient's registers loaded, `StartPath`: enabled, painted with a gradient …
example : (RenderHistQ.Ex.zAfter.startPath 0 0 0).1.disabled = false ∧
    ∃ g, (RenderHistQ.Ex.zAfter.startPath 0 0 0).1.fill = .gradient g :=
  ⟨RenderHistQ.Ex.gradient_path_enabled.1, RenderHistQ.Ex.gradient_path_fill⟩
example : ∀ c ∈ RenderHistQ.Ex.load, RenderHist.isReset c = false := RenderHistQ.Ex.load_noReset
-- … whose matrix is the one of the 128-wide rectangle (`NREG[4]·64/128 = 1/128`; the 64-wide one used before
-- would give `1/64`)
example : (match (RenderHistQ.Ex.zAfter.startPath 0 0 0).1.fill with
     | .gradient g => decide (g.pix2Grad.a = 1 / 128 ∧ g.pix2Grad.c = 0)
     | _ => false) = true := RenderHistQ.Ex.gradient_path_matrix

end Ivg.Props.C15

/-! ## float64: the clauses that are exact in floating point

Everything below is about `Gradient F64` with the arithmetic of `Ivg/Num/Soft.lean` (`Arith F64`,
`Wide F32 F64`), i.e. about what the Go code computes bit for bit.  Vocabulary (`Ivg/Lemmas/Float*.lean`):
`Fn a` — `a` is finite; `val a : ℚ` — its value; `Rnd v b` — the bit pattern `b` is the correct rounding
(to nearest, ties to even) of the rational `v`; `a ≤ b`, `a < b`, `Arith.feq a b` — Go's `<=`, `<`, `==`.
`Grad64.StopsOK stops`: every offset satisfies `0 <= off && off <= 1` (hence is finite), consecutive offsets
satisfy `off_i < off_{i+1}` (float64 comparisons), channels are 16-bit.  `Grad64.premul c`: `R, G, B ≤ A`.
`Grad64.offsetAt g x y = clamp g.spread (Grad64.rawOffset g x y)` is the offset `At` computes for the pixel. -/
namespace Ivg.Props.C15
open Ivg Grad Num
open Ivg.Spec.Grad (Spread frac tri spreadOffset)

/-- `At` is "offset, then colour": `Grad64.colorOf` is the part of `At` after the offset (test `offset >= 0`,
    first colour, `findRange`, interpolation, last colour). -/
theorem at_eq_f64 (g : Gradient F64) (x y : Int) : g.at (α := F32) x y = Grad64.colorOf g (Grad64.offsetAt g x y) :=
  Grad64.at_eq g x y

theorem offsetAt_eq_f64 (g : Gradient F64) (x y : Int) :
    Grad64.offsetAt g x y = clamp (α := F32) g.spread (Grad64.rawOffset g x y) := rfl

/-- the raw offset: the pixel centre through `pix2Grad`, every operation a float64 operation -/
theorem rawOffset_eq_f64 (g : Gradient F64) (x y : Int) :
    Grad64.rawOffset g x y =
      (let px : F64 := F64.ofInt x + ⟨0x3fe0000000000000⟩
       let py : F64 := F64.ofInt y + ⟨0x3fe0000000000000⟩
       let m := g.pix2Grad
       if g.shape = 0 then m.a * px + m.b * py + m.c
       else F64.sqrt ((m.a * px + m.b * py + m.c) * (m.a * px + m.b * py + m.c) +
                      (m.d * px + m.e * py + m.f) * (m.d * px + m.e * py + m.f))) := rfl

/-- Clause "at a stop's offset the colour is that stop's colour", at float64, EXACTLY: if the offset of the
    pixel `==` the offset of stop `k` (Go float equality), `At` returns stop `k`'s colour, all four channels
    — for the first, an interior or the last stop, whichever range `findRange` selects (the one ending or
    the one starting there), HOWEVER CLOSE the neighbouring stops are: `(x − off0)/width` is `a/a = 1` or
    `0/a = 0` exactly, `s*c0 + t*c1` with `{s,t} = {0,1}` is exact, and so is `uint16` of an integer `≤ 65535`.
    (A `width` raised to some minimum when two stops are closer than that would violate this.) -/
theorem at_stop_f64 (shape spread : UInt8) (m : Aff3 F64) (s0 s1 : Stop F64) (rest : List (Stop F64))
    (hok : Grad64.StopsOK (s0 :: s1 :: rest)) (x y : Int) (k : Nat) (hk : k < (s0 :: s1 :: rest).length)
    (hx : Arith.feq (Grad64.offsetAt (Gradient.init shape spread m (s0 :: s1 :: rest)).1 x y)
      (s0 :: s1 :: rest)[k].offset = true) :
    (Gradient.init shape spread m (s0 :: s1 :: rest)).1.at (α := F32) x y = (s0 :: s1 :: rest)[k].color :=
  Grad64.at_stop_f64 shape spread m s0 s1 rest hok x y k hk hx

/-- … the same with the RAW offset (before `Clamp`): a stop's offset lies in `[0,1]`, where `Clamp` is the
    identity for every spread mode. -/
theorem at_stop_raw_f64 (shape spread : UInt8) (m : Aff3 F64) (s0 s1 : Stop F64) (rest : List (Stop F64))
    (hok : Grad64.StopsOK (s0 :: s1 :: rest)) (x y : Int) (k : Nat) (hk : k < (s0 :: s1 :: rest).length)
    (hx : Arith.feq (Grad64.rawOffset (Gradient.init shape spread m (s0 :: s1 :: rest)).1 x y)
      (s0 :: s1 :: rest)[k].offset = true) :
    (Gradient.init shape spread m (s0 :: s1 :: rest)).1.at (α := F32) x y = (s0 :: s1 :: rest)[k].color :=
  Grad64.at_stop_raw_f64 shape spread m s0 s1 rest hok x y k hk hx

-- non-vacuity, concrete bit patterns: three stops at 0.25, at the float32 `0x3e800001` widened (ONE float32
-- step above 0.25: width `2^-25`) and at 1.0; the matrix maps every pixel to the offset `c`
set_option maxRecDepth 100000 in
example : F64.ofF32 ⟨0x3e800000⟩ = Grad64.Ex.sA.offset ∧ F64.ofF32 ⟨0x3e800001⟩ = Grad64.Ex.sB.offset := by
  decide +kernel
set_option maxRecDepth 100000 in
example : Grad64.StopsOK [Grad64.Ex.sA, Grad64.Ex.sB, Grad64.Ex.sC] := by decide +kernel
set_option maxRecDepth 100000 in
example : Arith.feq (Grad64.offsetAt
    (Gradient.init 0 0 (Grad64.Ex.mC Grad64.Ex.sB.offset) [Grad64.Ex.sA, Grad64.Ex.sB, Grad64.Ex.sC]).1 7 3)
    [Grad64.Ex.sA, Grad64.Ex.sB, Grad64.Ex.sC][1].offset = true := by decide +kernel
-- … evaluated exactly at the upper of the two close stops (range [A,B], t = 1), at the lower one (t = 0),
-- at the last stop, and half a float32 step above A (a genuine interpolation)
set_option maxRecDepth 100000 in
example : (Gradient.init 0 0 (Grad64.Ex.mC Grad64.Ex.sB.offset) [Grad64.Ex.sA, Grad64.Ex.sB, Grad64.Ex.sC]).1.at
    (α := F32) 7 3 = ⟨0xFFFF, 0x8000, 0x0001, 0xFFFF⟩ := by decide +kernel
set_option maxRecDepth 100000 in
example : (Gradient.init 0 0 (Grad64.Ex.mC Grad64.Ex.sA.offset) [Grad64.Ex.sA, Grad64.Ex.sB, Grad64.Ex.sC]).1.at
    (α := F32) 7 3 = ⟨0x1111, 0x2222, 0x3333, 0x4444⟩ := by decide +kernel
set_option maxRecDepth 100000 in
example : (Gradient.init 0 3 (Grad64.Ex.mC Grad64.Ex.sC.offset) [Grad64.Ex.sA, Grad64.Ex.sB, Grad64.Ex.sC]).1.at
    (α := F32) (-1000000000) 999999999 = ⟨0, 0, 0, 0⟩ := by decide +kernel
set_option maxRecDepth 100000 in
example : (Gradient.init 0 0 (Grad64.Ex.mC ⟨0x3FD0000010000000⟩) [Grad64.Ex.sA, Grad64.Ex.sB, Grad64.Ex.sC]).1.at
    (α := F32) 7 3 = ⟨34952, 20753, 6554, 41505⟩ := by decide +kernel

/-- Clause "returns a valid premultiplied colour", at float64, at EVERY pixel (no hypothesis on the offset:
    NaN and infinite offsets give transparent black or an end colour): premultiplied stops give
    `R, G, B ≤ A`.  Inside a range `0 ≤ t ≤ 1`, `0 ≤ s = rnd(1−t) ≤ 1` and `s + t ≤ 1 + 2^-53`, so each
    `rnd(rnd(s*c0) + rnd(t*c1))` is below `65536` (no wrap-around in `uint16(…)`, see `at_inside_f64`); `+`
    and `*` by non-negative factors are monotone after rounding, and so is truncation. -/
theorem premul_valid_f64 (shape spread : UInt8) (m : Aff3 F64) (stops : List (Stop F64))
    (hok : Grad64.StopsOK stops) (hp : ∀ s ∈ stops, Grad64.premul s.color) (x y : Int) :
    Grad64.premul ((Gradient.init shape spread m stops).1.at (α := F32) x y) :=
  Grad64.premul_valid_f64 shape spread m stops hok hp x y
example : ∀ s ∈ [Grad64.Ex.sA, Grad64.Ex.sB, Grad64.Ex.sC], Grad64.premul s.color := by decide

/-- … and every channel is a 16-bit value. -/
theorem channel_range_f64 (shape spread : UInt8) (m : Aff3 F64) (stops : List (Stop F64))
    (hok : ∀ s ∈ stops, Grad64.chanOK s.color) (x y : Int) :
    Grad64.chanOK ((Gradient.init shape spread m stops).1.at (α := F32) x y) :=
  Grad64.channel_range_f64 shape spread m stops hok x y
example : ∀ s ∈ [Grad64.Ex.sA, Grad64.Ex.sB, Grad64.Ex.sC], Grad64.chanOK s.color := by decide

/-- Clause "before the first or after the last stop it is the first or last colour", at float64, exactly.
    The model (as the Go code) compares the offset with `Ranges[0].Offset0` before it looks for a range, and
    returns `g.Last` when no range contains the offset: `0 <= o < off_first` gives the first stop's colour,
    `off_last < o` (also `o = +Inf`) the last stop's. -/
theorem end_colours_f64 (shape spread : UInt8) (m : Aff3 F64) (s0 s1 : Stop F64) (rest : List (Stop F64))
    (hok : Grad64.StopsOK (s0 :: s1 :: rest)) (x y : Int) :
    let g := (Gradient.init shape spread m (s0 :: s1 :: rest)).1
    ((zeroB : F64) ≤ Grad64.offsetAt g x y → Grad64.offsetAt g x y < s0.offset → g.at (α := F32) x y = s0.color) ∧
    (((s0 :: s1 :: rest).getLast (by simp)).offset < Grad64.offsetAt g x y →
      g.at (α := F32) x y = ((s0 :: s1 :: rest).getLast (by simp)).color) :=
  Grad64.end_colours_f64 shape spread m s0 s1 rest hok x y
-- non-vacuity: offset 0.125 is below the first stop (0.25); with two stops [A, B], offset 0.5 is above the last
set_option maxRecDepth 100000 in
example : let g := (Gradient.init 0 0 (Grad64.Ex.mC ⟨0x3FC0000000000000⟩) [Grad64.Ex.sA, Grad64.Ex.sB]).1
    (zeroB : F64) ≤ Grad64.offsetAt g 0 0 ∧ Grad64.offsetAt g 0 0 < Grad64.Ex.sA.offset ∧
    g.at (α := F32) 0 0 = Grad64.Ex.sA.color := by decide +kernel
set_option maxRecDepth 100000 in
example : let g := (Gradient.init 0 0 (Grad64.Ex.mC ⟨0x3FE0000000000000⟩) [Grad64.Ex.sA, Grad64.Ex.sB]).1
    Grad64.Ex.sB.offset < Grad64.offsetAt g 0 0 ∧ g.at (α := F32) 0 0 = Grad64.Ex.sB.color := by decide +kernel

/-- Between the first and the last offset (float comparisons) there is no gap: the offset lies in the range
    `[a.offset, b.offset]` of two CONSECUTIVE stops `a`, `b` (no stop strictly between), `t` and `s = 1 − t`
    are finite and in `[0,1]`, and every channel is the integer part of the float `s*c0 + t*c1`
    (`Grad64.lerpF`), which is finite and `< 65536`: the conversion `uint16(…)` never wraps around. -/
theorem at_inside_f64 (shape spread : UInt8) (m : Aff3 F64) (s0 s1 : Stop F64) (rest : List (Stop F64))
    (hok : Grad64.StopsOK (s0 :: s1 :: rest)) (x y : Int)
    (h0 : s0.offset ≤ Grad64.offsetAt (Gradient.init shape spread m (s0 :: s1 :: rest)).1 x y)
    (h1 : Grad64.offsetAt (Gradient.init shape spread m (s0 :: s1 :: rest)).1 x y ≤
      ((s0 :: s1 :: rest).getLast (by simp)).offset) :
    let g := (Gradient.init shape spread m (s0 :: s1 :: rest)).1
    let o := Grad64.offsetAt g x y
    ∃ a b, a ∈ s0 :: s1 :: rest ∧ b ∈ s0 :: s1 :: rest ∧ a.offset < b.offset ∧
      (∀ s ∈ s0 :: s1 :: rest, s = a ∨ s = b ∨ s.offset < a.offset ∨ b.offset < s.offset) ∧
      a.offset ≤ o ∧ o ≤ b.offset ∧
      (let t := (o - a.offset) / (b.offset - a.offset)
       let s := (oneB : F64) - t
       let c := g.at (α := F32) x y
       (FloatErr64.Fn t ∧ 0 ≤ FloatMono.val t ∧ FloatMono.val t ≤ 1 ∧
        FloatErr64.Fn s ∧ 0 ≤ FloatMono.val s ∧ FloatMono.val s ≤ 1) ∧
       ((c.r : Int) = ⌊FloatMono.val (Grad64.lerpF s t a.color.r b.color.r)⌋ ∧
          FloatMono.val (Grad64.lerpF s t a.color.r b.color.r) < 65536) ∧
       ((c.g : Int) = ⌊FloatMono.val (Grad64.lerpF s t a.color.g b.color.g)⌋ ∧
          FloatMono.val (Grad64.lerpF s t a.color.g b.color.g) < 65536) ∧
       ((c.b : Int) = ⌊FloatMono.val (Grad64.lerpF s t a.color.b b.color.b)⌋ ∧
          FloatMono.val (Grad64.lerpF s t a.color.b b.color.b) < 65536) ∧
       ((c.a : Int) = ⌊FloatMono.val (Grad64.lerpF s t a.color.a b.color.a)⌋ ∧
          FloatMono.val (Grad64.lerpF s t a.color.a b.color.a) < 65536)) :=
  Grad64.at_inside_f64 shape spread m s0 s1 rest hok x y h0 h1
set_option maxRecDepth 100000 in
example : let g := (Gradient.init 0 0 (Grad64.Ex.mC ⟨0x3FD0000010000000⟩) [Grad64.Ex.sA, Grad64.Ex.sB, Grad64.Ex.sC]).1
    Grad64.Ex.sA.offset ≤ Grad64.offsetAt g 7 3 ∧ Grad64.offsetAt g 7 3 ≤ Grad64.Ex.sC.offset := by decide +kernel

/-! ### spread modes at float64 -/

/-- Clause "offsets outside [0,1] are handled per spread mode", at float64, all modes at once: for every
    FINITE `x`, `Clamp` is the specification's `spreadOffset` of the value of `x`, ROUNDED ONCE — `none,
    outside` gives the marker `-1`, otherwise the result is the correct rounding of the exact offset (inside
    `[0,1]` and for `pad` that is exact, see below; `⌊x⌋ + 1` in `reflect` is exact whenever `int(x)` is odd). -/
theorem clamp_spec_f64 (spread : UInt8) (x : F64) (fx : FloatErr64.Fn x) :
    match spreadOffset (Spread.ofCode spread) (FloatMono.val x) with
    | none => clamp (α := F32) spread x = Arith.ofInt (-1)
    | some o => FloatOrder.Rnd o (clamp (α := F32) spread x).nb :=
  Grad64.clamp_spec_f64 spread x fx
example : FloatErr64.Fn (⟨0xC004000000000000⟩ : F64) := by decide   -- -2.5

/-- For EVERY float64 `x` (NaN and ±Inf included) and every spread code: if the clamped offset passes `At`'s
    test `offset >= 0` — i.e. whenever a colour is computed from it — it is finite and `0 ≤ offset ≤ 1`.
    With `premul_valid_f64`/`channel_range_f64`: a valid premultiplied colour at any pixel. -/
theorem clamp_range_f64 (spread : UInt8) (x : F64) (h : (zeroB : F64) ≤ clamp (α := F32) spread x) :
    FloatErr64.Fn (clamp (α := F32) spread x) ∧ 0 ≤ FloatMono.val (clamp (α := F32) spread x) ∧
    FloatMono.val (clamp (α := F32) spread x) ≤ 1 :=
  Grad64.clamp_range spread x h
set_option maxRecDepth 100000 in
example : (zeroB : F64) ≤ clamp (α := F32) 2 (⟨0xC004000000000000⟩ : F64) := by decide +kernel   -- reflect(-2.5) = 0.5

/-- … and if it fails the test (the marker `-1` of `none`, or a NaN), `At` returns transparent black. -/
theorem at_no_colour_f64 (g : Gradient F64) (x y : Int) (h : ¬ (zeroB : F64) ≤ Grad64.offsetAt g x y) :
    g.at (α := F32) x y = ⟨0, 0, 0, 0⟩ :=
  Grad64.at_no_colour_f64 g x y h
set_option maxRecDepth 100000 in
example : ¬ (zeroB : F64) ≤ Grad64.offsetAt
    (Gradient.init 0 0 (Grad64.Ex.mC ⟨0xC004000000000000⟩) [Grad64.Ex.sA, Grad64.Ex.sB]).1 1 2 := by decide +kernel

/-- inside `[0,1]` (`0 <= x && x <= 1`) the offset is used as it is, bit for bit, for every spread mode -/
theorem clamp_inside_f64 (spread : UInt8) (x : F64) (h0 : (zeroB : F64) ≤ x) (h1 : x ≤ (oneB : F64)) :
    clamp (α := F32) spread x = x :=
  Grad64.clamp_inside_f64 spread x h0 h1
set_option maxRecDepth 100000 in
example : (zeroB : F64) ≤ (⟨0x3FE8000000000000⟩ : F64) ∧ (⟨0x3FE8000000000000⟩ : F64) ≤ (oneB : F64) := by
  decide +kernel   -- 0.75; also -0 (`0x8000000000000000`) passes both tests and is returned as it is

/-- "none gives transparent black": finite raw offset outside `[0,1]`, spread code other than 1, 2, 3 -/
theorem at_none_outside_f64 (g : Gradient F64) (hs : g.spread ≠ 1 ∧ g.spread ≠ 2 ∧ g.spread ≠ 3) (x y : Int)
    (fx : FloatErr64.Fn (Grad64.rawOffset g x y))
    (hout : ¬ (0 ≤ FloatMono.val (Grad64.rawOffset g x y) ∧ FloatMono.val (Grad64.rawOffset g x y) ≤ 1)) :
    g.at (α := F32) x y = ⟨0, 0, 0, 0⟩ :=
  Grad64.at_none_outside_f64 g hs x y fx hout
set_option maxRecDepth 100000 in
example : let g := (Gradient.init 0 0 (Grad64.Ex.mC ⟨0xC004000000000000⟩) [Grad64.Ex.sA, Grad64.Ex.sB]).1
    Grad64.rawOffset g 1 2 = ⟨0xC004000000000000⟩ ∧ g.at (α := F32) 1 2 = ⟨0, 0, 0, 0⟩ := by decide +kernel
example : FloatErr64.Fn (⟨0xC004000000000000⟩ : F64) ∧
    ¬ (0 ≤ FloatMono.val (⟨0xC004000000000000⟩ : F64) ∧ FloatMono.val (⟨0xC004000000000000⟩ : F64) ≤ 1) := by
  have f : FloatErr64.Fn (⟨0xC004000000000000⟩ : F64) := by decide
  have := (FloatMono.lt_iff_val f Grad64.zeroB_fin.1).1 (by decide +kernel)
  rw [Grad64.zeroB_fin.2] at this
  exact ⟨f, fun h => absurd h.1 (not_le.2 this)⟩

/-- "pad the end colours": exactly `0`, `x` or `1`, for every non-NaN `x` (±Inf included) -/
theorem clamp_pad_f64 (x : F64) (hn : FloatMono.NN x) :
    clamp (α := F32) 1 x = if x < (zeroB : F64) then zeroB else if x ≤ (oneB : F64) then x else oneB :=
  Grad64.clamp_pad_f64 x hn
example : FloatMono.NN (⟨0xFFF0000000000000⟩ : F64) := by decide   -- -Inf

/-- "repeat the fractional part": for every finite `x > 1`, of any magnitude, `x − math.Floor(x)` is EXACT.
    (For negative `x` it is only correctly rounded, `clamp_spec_f64`: `−2^-60 ↦ 1.0`, example below.) -/
theorem clamp_repeat_exact_f64 (x : F64) (fx : FloatErr64.Fn x) (h1 : 1 < FloatMono.val x) :
    FloatErr64.Fn (clamp (α := F32) 3 x) ∧ FloatMono.val (clamp (α := F32) 3 x) = frac (FloatMono.val x) :=
  Grad64.clamp_repeat_exact_f64 x fx h1
example : FloatErr64.Fn (⟨0x4006000000000000⟩ : F64) ∧ 1 < FloatMono.val (⟨0x4006000000000000⟩ : F64) := by   -- 2.75
  have f : FloatErr64.Fn (⟨0x4006000000000000⟩ : F64) := by decide
  have := (FloatMono.lt_iff_val Grad64.oneB_fin.1 f).1 (by decide +kernel)
  rw [Grad64.oneB_fin.2] at this
  exact ⟨f, this⟩

/-- `repeat` and `reflect` of `±Inf` (and of a NaN) give a NaN (`Inf − Inf`), hence transparent black
    (`at_no_colour_f64`); `pad` maps `±Inf` to `1`/`0` (`clamp_pad_f64`). -/
theorem clamp_nonfinite_f64 (spread : UInt8) (hs : spread = 2 ∨ spread = 3) (x : F64) (hf : ¬ FloatErr64.Fn x) :
    FloatMono.NaN (clamp (α := F32) spread x) :=
  Grad64.clamp_nonfinite_f64 spread hs x hf
example : ¬ FloatErr64.Fn (⟨0x7FF0000000000000⟩ : F64) := by decide   -- +Inf

-- concrete bit patterns: repeat(2.75) = 0.75, repeat(-2^-60) = 1.0 (rounded), reflect(2^53 − 1) = 1.0 (odd:
-- floor + 1 = 2^53 exact), reflect(2^53 + 2) = 0, reflect(-2.5) = 0.5, reflect(3.0) = 1.0, repeat(+Inf) = NaN,
-- pad(-Inf) = 0, none(1.5) = -1
set_option maxRecDepth 100000 in
example : clamp (α := F32) 3 (⟨0x4006000000000000⟩ : F64) = ⟨0x3FE8000000000000⟩ ∧
    clamp (α := F32) 3 (⟨0xBC30000000000000⟩ : F64) = ⟨0x3FF0000000000000⟩ ∧
    clamp (α := F32) 2 (⟨0x433FFFFFFFFFFFFF⟩ : F64) = ⟨0x3FF0000000000000⟩ ∧
    clamp (α := F32) 2 (⟨0x4340000000000001⟩ : F64) = ⟨0⟩ ∧
    clamp (α := F32) 2 (⟨0xC004000000000000⟩ : F64) = ⟨0x3FE0000000000000⟩ ∧
    clamp (α := F32) 2 (⟨0x4008000000000000⟩ : F64) = ⟨0x3FF0000000000000⟩ ∧
    clamp (α := F32) 3 (⟨0x7FF0000000000000⟩ : F64) = ⟨0xFFF8000000000000⟩ ∧
    clamp (α := F32) 1 (⟨0xFFF0000000000000⟩ : F64) = ⟨0⟩ ∧
    clamp (α := F32) 0 (⟨0x3FF8000000000000⟩ : F64) = ⟨0xBFF0000000000000⟩ := by decide +kernel

/-! ### the gradients the float renderer builds -/

/-- The hypotheses above hold for every gradient the float renderer paints with: a successful
    `initGradient` (render.go) is `Init` of a VALID (`StopsOK`), premultiplied stop list whose offsets are
    the float32 registers NREG[nBase+k] widened and whose colours are CREG[cBase+k] widened to 16 bits.
    Hence at every pixel: a valid premultiplied 16-bit colour; exactly stop `k`'s colour where the offset
    `==` stop `k`'s offset; the first / last colour before / after the first / last stop. -/
theorem renderer_gradient_f64 (z : Ren.Renderer F32 F64) (rgba : RGBA) (g : Gradient F64)
    (h : z.initGradient rgba = some g) :
    let p := decodeGradient rgba
    let off (k : Nat) : F64 := F64.ofF32 (z.nReg.get6 (p.nBase + (0 + UInt8.ofNat k)))
    let col (k : Nat) : RGBA64 := Ren.rgba64Of (z.cReg.get6 (p.cBase + (0 + UInt8.ofNat k)))
    2 ≤ p.nStops.toNat ∧
    ∀ x y : Int,
      Grad64.premul (g.at (α := F32) x y) ∧ Grad64.chanOK (g.at (α := F32) x y) ∧
      (∀ k, k < p.nStops.toNat → Arith.feq (Grad64.offsetAt g x y) (off k) = true → g.at (α := F32) x y = col k) ∧
      ((zeroB : F64) ≤ Grad64.offsetAt g x y → Grad64.offsetAt g x y < off 0 → g.at (α := F32) x y = col 0) ∧
      (off (p.nStops.toNat - 1) < Grad64.offsetAt g x y → g.at (α := F32) x y = col (p.nStops.toNat - 1)) :=
  Grad64.renderer_gradient_f64 z rgba g h

/-- … what `initGradient` returns: `Init` of the decoded shape and spread, the float64 matrix
    `Grad64.pixMatrix64` and the stops read from the registers. -/
theorem initGradient_f64 (z : Ren.Renderer F32 F64) (rgba : RGBA) (g : Gradient F64)
    (h : z.initGradient rgba = some g) :
    ∃ s0 s1 rest,
      g = (Gradient.init (decodeGradient rgba).shape (decodeGradient rgba).spread
            (Grad64.pixMatrix64 z (decodeGradient rgba).nBase) (s0 :: s1 :: rest)).1 ∧
      (s0 :: s1 :: rest).length = (decodeGradient rgba).nStops.toNat ∧
      Grad64.StopsOK (s0 :: s1 :: rest) ∧ (∀ s ∈ s0 :: s1 :: rest, Grad64.premul s.color) ∧
      (∀ k (hk : k < (s0 :: s1 :: rest).length), (s0 :: s1 :: rest)[k] =
        ⟨F64.ofF32 (z.nReg.get6 ((decodeGradient rgba).nBase + (0 + UInt8.ofNat k))),
         Ren.rgba64Of (z.cReg.get6 ((decodeGradient rgba).cBase + (0 + UInt8.ofNat k)))⟩) :=
  Grad64.initGradient_ok z rgba g h

-- non-vacuity: a register state whose two stop offsets are the float32 values 0.25 and 0x3e800001 (one float32
-- step apart) is accepted; its matrix maps every pixel to the second offset, and `At` returns CREG[11] widened
set_option maxRecDepth 100000 in
example : (Grad64.Ex.state.initGradient (encodeGradient 10 10 0 1 2)).isSome = true := by decide +kernel
set_option maxRecDepth 100000 in
example : (match Grad64.Ex.state.initGradient (encodeGradient 10 10 0 1 2) with
    | some g => decide (Arith.feq (Grad64.offsetAt g 5 9) (F64.ofF32 (Grad64.Ex.state.nReg.get6 11)) = true ∧
        g.at (α := F32) 5 9 = Ren.rgba64Of (Grad64.Ex.state.cReg.get6 11) ∧
        g.at (α := F32) 5 9 = ⟨0x8080, 0x4040, 0x2020, 0x8080⟩)
    | none => false) = true := by decide +kernel

/-!
## Not proved in this file

* Rounding: the theorems of the first sections are about the `ℚ` instance.  At float64 (last section) the
  EXACT part is proved — the stop colours, the end colours, the validity of the colour at every pixel, no
  wrap-around of `uint16`, `Clamp` as ONE correct rounding of the specification's spread function (exact inside
  `[0,1]`, for `pad`, and for `repeat` of `x > 1`).  NOT proved: an error bound between the float64 colour
  strictly inside a range and the exact interpolation (`t = rnd(rnd(o − off0)/width)`, `s = rnd(1 − t)`, two
  rounded products and a rounded sum precede the truncation; the channel may differ from the `ℚ` value
  where the exact value is close to an integer); an error bound for the raw offset (the matrix
  products and sums, and the square root of the radial shape, are rounded; `initGradient`'s matrix is
  itself computed in float64 from float32 registers).
* A NaN raw offset (only possible with non-finite matrix entries) is outside the property: `none` gives
  transparent black, `repeat`/`reflect` a NaN offset and transparent black, but `pad` maps it to offset `0`
  (Go: `x >= 0` is false, `SpreadPad` returns 0).  The colour is still a valid premultiplied colour.
* The radial offset is `Wide.sqrt (gx² + gy²)` with `sqrt` an uninterpreted function on `ℚ`: "distance from
  the origin" holds to the extent that this function is the square root.
* `Spec.Grad.sample` breaks ties at a stop towards the range ENDING there (as `findRange` does); since both
  neighbouring ranges give the stop's colour there (`at_stop`, `at_stop_f64`), this is not observable.
-/

end Ivg.Props.C15

#obligations C15 [Ivg.Props.C15.clamp_spec,
  Ivg.Props.C15.clamp_inside,
  Ivg.Props.C15.clamp_pad,
  Ivg.Props.C15.clamp_repeat,
  Ivg.Props.C15.clamp_reflect,
  Ivg.Props.C15.tri_of_floor,
  Ivg.Props.C15.clamp_none,
  Ivg.Props.C15.at_none_outside,
  Ivg.Props.C15.at_spec,
  Ivg.Props.C15.at_stop,
  Ivg.Props.C15.before_first_after_last,
  Ivg.Props.C15.at_interp,
  Ivg.Props.C15.premul_valid,
  Ivg.Props.C15.pix2grad_compose,
  Ivg.Props.C15.gradient_at_spec,
  Ivg.Props.C15.rawOffset_eq,
  Ivg.Props.C15.pixMatrix_after_rast,
  Ivg.Props.C15.pixMatrixAt_compose,
  Ivg.Props.C15.pix2vb_inverse,
  Ivg.Props.C15.gradient_current_transform,
  Ivg.Props.C15.at_eq_f64,
  Ivg.Props.C15.offsetAt_eq_f64,
  Ivg.Props.C15.rawOffset_eq_f64,
  Ivg.Props.C15.at_stop_f64,
  Ivg.Props.C15.at_stop_raw_f64,
  Ivg.Props.C15.premul_valid_f64,
  Ivg.Props.C15.channel_range_f64,
  Ivg.Props.C15.end_colours_f64,
  Ivg.Props.C15.at_inside_f64,
  Ivg.Props.C15.clamp_spec_f64,
  Ivg.Props.C15.clamp_range_f64,
  Ivg.Props.C15.at_no_colour_f64,
  Ivg.Props.C15.clamp_inside_f64,
  Ivg.Props.C15.at_none_outside_f64,
  Ivg.Props.C15.clamp_pad_f64,
  Ivg.Props.C15.clamp_repeat_exact_f64,
  Ivg.Props.C15.clamp_nonfinite_f64,
  Ivg.Props.C15.renderer_gradient_f64,
  Ivg.Props.C15.initGradient_f64,
  Ivg.Gen.Tie.renderer_fields_tie,
  Ivg.Gen.Tie.gradient_fields_tie,
  -- regenerated code (translator, Ivg/Gen/Code) = model, for all inputs: Clamp
  Ivg.Gen.Tie.spread_Clamp_code_tie,
  Ivg.Gen.Tie.gradient_GradientShape_code_tie,
  Ivg.Gen.Tie.gradient_SpreadMethod_code_tie,
  Ivg.Gen.Tie.gradient_Transform_code_tie,
  Ivg.Gen.Tie.makeRange_code_tie,
  Ivg.Gen.Tie.makeRange_code_tie_model,
  -- regenerated code (translator): Gradient.Bounds is the fixed ±10^9 square
  Ivg.Gen.Tie.gradient_Bounds_code_tie,
  -- regenerated code (translator): SetRasterizer recomputes the transform from the current viewBox and the new rectangle
  Ivg.Gen.Tie.rectangle_Empty_code_tie,
  Ivg.Gen.Tie.renderer_SetRasterizer_code_tie,
  Ivg.Gen.Tie.renderer_SetRasterizer_code_tie_frame,
  -- regenerated code with loops/recursion (translator, fuel) = model, for all inputs and sufficient fuel: Ranges, GradAt
  Ivg.Gen.Tie.appendRanges_code_tie,
  Ivg.Gen.Tie.appendRanges_code_tie_nonempty,
  Ivg.Gen.Tie.gradient_Init_code_tie,
  Ivg.Gen.Tie.gradient_At_code_tie,
  Ivg.Gen.Tie.gradient_At_code_tie_fits,
  Ivg.Gen.Tie.gradient_Init_code_tie',
  Ivg.Gen.Tie.renderer_initGradient_code_tie]
