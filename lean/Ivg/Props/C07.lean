import Ivg.Lemmas.Selectors
import Ivg.Model.Arc
import Ivg.Gen.Tie.EncoderFields
import Ivg.Gen.Tie.RendererFields
import Ivg.Obligations
/-!
# C07 — selector clause: the Encoder and the Renderer report the same CSEL / NSEL

Property text (selector clause): "At every point of the sequence the CSEL and NSEL values reported by
an Encoder equal, modulo 64, those reported by a Renderer fed the same calls, i.e. the values the
decoding machine will hold at that point of the stream."

The decoding machine's selectors are specified by `Selectors.vmSel` (from the format specification:
0 after the metadata, "Set CSEL/NSEL" store the low six bits, the incrementing forms of "Set
CREG/NREG" add one modulo 64, nothing else touches them).  The theorems are about the executable
models `Ivg.Enc.Encoder` (`CSel()`/`NSel()` report the fields `cSel`/`nSel`, see `reads_report`) and
`Ivg.Ren.Renderer` (`CSel()`/`NSel()` return the fields), for ANY arc implementation and any wide
number type.
-/
namespace Ivg.Props.C07
open Ivg Ivg.Num Ivg.Enc Ivg.Ren Ivg.Selectors Ivg.EncoderProto

section
variable {β : Type} [Arith β] [Wide F32 β]

/-- The selector clause, from the zero values: at every point `p` (prefix) of a call sequence `h`
    whose calls the Encoder accepts, the CSEL and NSEL held by the Encoder equal those held by a
    Renderer fed the same calls.  Both sides are 6-bit values (`encoder_selectors_6bit`,
    `renderer_selectors_6bit`), so "modulo 64" is plain equality.  The hypothesis is necessary: the
    Encoder ignores a rejected call, the Renderer does not (example below); it is implied by the
    sequence being violation free (`accepted_of_violationFree`) and, for a sequence without Reset, by
    the absence of an error at the end (`accepted_of_final`). -/
theorem sel_agree (arc : ArcFn F32 β) (posInf : F32) (h : List (Call F32))
    (herr : ∀ p, p <+: h → (({} : Encoder).run p).err = none) (p : List (Call F32)) (hp : p <+: h) :
    (({} : Encoder).run p).cSel = ((Renderer.zero : Renderer F32 β).run arc posInf p).1.cSel ∧
    (({} : Encoder).run p).nSel = ((Renderer.zero : Renderer F32 β).run arc posInf p).1.nSel :=
  Selectors.sel_agree arc posInf h herr p hp

/-- The same after a Reset, from ANY Encoder state and ANY Renderer state. -/
theorem sel_agree_after_reset (arc : ArcFn F32 β) (posInf : F32) (e : Encoder) (z : Renderer F32 β)
    (vb : ViewBox F32) (pal : Palette) (h : List (Call F32))
    (herr : ∀ p, p <+: h → ((e.step (.reset vb pal)).run p).err = none) (p : List (Call F32)) (hp : p <+: h) :
    (e.run (.reset vb pal :: p)).cSel = (z.run arc posInf (.reset vb pal :: p)).1.cSel ∧
    (e.run (.reset vb pal :: p)).nSel = (z.run arc posInf (.reset vb pal :: p)).1.nSel :=
  Selectors.sel_agree_after_reset arc posInf e z vb pal h herr p hp

end

/-- the hypothesis of `sel_agree` in terms of the protocol automaton of C10 -/
theorem accepted_of_violationFree (h : List (Call F32))
    (hv : Spec.Protocol.ViolationFree .fresh (h.map Spec.Protocol.classifyCall)) :
    ∀ p, p <+: h → (({} : Encoder).run p).err = none := err_none_of_violationFree h hv

/-- … and, for a sequence without Reset, in terms of the final state only -/
theorem accepted_of_final (h : List (Call F32)) (hnr : ∀ c ∈ h, Spec.Protocol.classifyCall c ≠ .reset)
    (hend : (({} : Encoder).run h).err = none) :
    ∀ p, p <+: h → (({} : Encoder).run p).err = none := err_none_of_final h hnr hend

/-- a sequence that dirties both selectors, wraps NSEL around, and draws a path -/
def exampleCalls : List (Call F32) :=
  [.setCSel 200, .setCReg 0 true (Color.rgbaColor ⟨0, 0, 0, 0xff⟩), .setNSel 63, .setNReg 0 true F32.zero,
   .startPath 2 F32.zero F32.zero, .d1 .h F32.zero, .closeEnd, .setCReg 6 false (Color.paletteIndexColor 3)]
set_option maxRecDepth 100000 in
example : ∀ p, p <+: exampleCalls → (({} : Encoder).run p).err = none :=
  accepted_of_final exampleCalls (by decide) (by decide +kernel)
set_option maxRecDepth 100000 in
example : (({} : Encoder).run exampleCalls).cSel = 9 ∧ (({} : Encoder).run exampleCalls).nSel = 0 := by
  decide +kernel
-- without the hypothesis the two disagree: the Encoder ignores the rejected SetCSel, a Renderer obeys it
set_option maxRecDepth 100000 in
example : (({} : Encoder).run [.startPath 0 F32.zero F32.zero, .setCSel 5]).cSel = 0 ∧
    vmSelRun (0, 0) [Call.startPath 0 F32.zero F32.zero, .setCSel 5] = (5, 0) := by
  decide +kernel

/-- Each machine follows the specification of the decoding machine's selectors, call by call:
    the Renderer always; the Encoder whenever it accepts the call (`err = none` afterwards). -/
theorem both_follow_vm {α β : Type} [Arith α] [Arith β] [Wide α β]
    (arc : ArcFn α β) (posInf : α) (z : Renderer α β) (c : Call α) (e : Encoder) (c' : Call F32) :
    ((z.step arc posInf c).1.cSel, (z.step arc posInf c).1.nSel) = vmSel (z.cSel, z.nSel) c ∧
    ((e.step c').err = none → ((e.step c').cSel, (e.step c').nSel) = vmSel (e.cSel, e.nSel) c') :=
  ⟨renderer_sel arc posInf z c, encoder_sel e c'⟩
example : ((({} : Encoder).step (.setCReg 3 false (Color.rgbaColor ⟨0, 0, 0, 0xff⟩))).err = none) := by decide

/-- `vmSel` is arithmetic modulo 64 (also across the byte wrap-around) and stays below 64. -/
theorem vm_mod64 (v : UInt8) {α : Type} (s : UInt8 × UInt8) (c : Call α) :
    ((v + 1) % 64).toNat = (v.toNat + 1) % 64 ∧ (v % 64).toNat = v.toNat % 64 ∧ v &&& 0x3f = v % 64 ∧
    (s.1 < 64 ∧ s.2 < 64 → (vmSel s c).1 < 64 ∧ (vmSel s c).2 < 64) :=
  ⟨succ_mod64_toNat v, by simp [UInt8.toNat_mod], and_3f v, vmSel_lt s c⟩

/-- The Renderer's selectors are 6-bit values after any call sequence from the zero value … -/
theorem renderer_selectors_6bit {α β : Type} [Arith α] [Arith β] [Wide α β]
    (arc : ArcFn α β) (posInf : α) (cs : List (Call α)) :
    ((Renderer.zero : Renderer α β).run arc posInf cs).1.cSel < 64 ∧
    ((Renderer.zero : Renderer α β).run arc posInf cs).1.nSel < 64 :=
  Selectors.renderer_selectors_6bit arc posInf cs

/-- … and so are the Encoder's after any history over its whole API (accepted or not). -/
theorem encoder_selectors_6bit (ops : List EncOp) :
    (({} : Encoder).runOps ops).1.cSel < 64 ∧ (({} : Encoder).runOps ops).1.nSel < 64 :=
  Selectors.encoder_selectors_6bit ops

/-- What `CSel()` / `NSel()` report is the selector held, in every state; the reads (like `LOD()`,
    `Bytes()` and assignments to `HighResolutionCoordinates`) do not move the selectors. -/
theorem reads_report (e : Encoder) :
    (e.stepOp .readCSel).2 = some (.sel e.cSel) ∧ (e.stepOp .readNSel).2 = some (.sel e.nSel) ∧
    ∀ op, (∀ c, op ≠ .call c) → ((e.stepOp op).1.cSel, (e.stepOp op).1.nSel) = (e.cSel, e.nSel) :=
  ⟨(read_reports e).1, (read_reports e).2, fun op hop => esel_stepOp e op hop⟩

/-!
## Not proved in this file

* "rendering directly equals rendering via encode + decode" (the first clause of C07) depends on the
  encode/decode round trip C01 and is not addressed here.
* The Generator and DestinationLogger clauses of C07 (selector tracking in `generate.Generator`, the
  pass-through of a logging destination) are not addressed here.
* That `vmSel` is what the DECODER holds is by reading the format specification; the decoder model
  (`Ivg/Model/Decoder.lean`) delivers calls and keeps no selector state of its own.
-/

end Ivg.Props.C07

#obligations C07 [
  Ivg.Props.C07.sel_agree, Ivg.Props.C07.sel_agree_after_reset, Ivg.Props.C07.accepted_of_violationFree,
  Ivg.Props.C07.accepted_of_final, Ivg.Props.C07.both_follow_vm, Ivg.Props.C07.vm_mod64,
  Ivg.Props.C07.renderer_selectors_6bit, Ivg.Props.C07.encoder_selectors_6bit, Ivg.Props.C07.reads_report,
  Ivg.Gen.Tie.encoder_fields_tie, Ivg.Gen.Tie.renderer_fields_tie]
