import Ivg.Model.Decoder
import Ivg.Model.Arc
import Ivg.Model.MdIcons
import Ivg.Gen.Tie
import Ivg.Obligations
/-! # Property C07 — theorems (work in progress: tie obligations only so far) -/
namespace Ivg.Props.C07
end Ivg.Props.C07
#obligations C07 [Ivg.Gen.Tie.drawOps_tie, Ivg.Gen.Tie.magic_tie, Ivg.Gen.Tie.errorStrings_tie]
