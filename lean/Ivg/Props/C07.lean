import Ivg.Lemmas.Selectors
import Ivg.Props.C01
import Ivg.Lemmas.GenSel
import Ivg.Model.Arc
import Ivg.Gen.Tie.EncoderFields
import Ivg.Gen.Tie.RendererFields
import Ivg.Gen.Tie.LoggerForwards
import Ivg.Gen.Tie.Code.RenderRegs
import Ivg.Gen.Tie.Code.Resolve
import Ivg.Gen.Tie.Code.Encoder
import Ivg.Gen.Tie.Code.Encoder2
import Ivg.Gen.Tie.Code.Encoder3
import Ivg.Gen.Tie.Code.Encoder4
import Ivg.Gen.Tie.Code.Encoder5
import Ivg.Gen.Tie.Code.Encoder6
import Ivg.Gen.Tie.Code.GenGrad
import Ivg.Gen.Tie.Code.Encoder7
import Ivg.Obligations
/-!
# C07 — selector clause: the Encoder and the Renderer report the same CSEL / NSEL

Property text (selector clause): "At every point of the sequence the CSEL and NSEL values reported by
an Encoder equal, modulo 64, those reported by a Renderer fed the same calls, i.e. the values the
decoding machine will hold at that point of the stream."

The decoding machine's selectors are specified by `Selectors.vmSel` (from the format specification:
0 after the metadata, "Set CSEL/NSEL" store the low six bits, the incrementing forms of "Set
CREG/NREG" add one modulo 64, nothing else touches them).  The theorems are about the executable
models `Ivg.Enc.Encoder` (`CSel()`/`NSel()` report the fields `cSel`/`nSel`, see `reads_report`) and
`Ivg.Ren.Renderer` (`CSel()`/`NSel()` return the fields), for ANY arc implementation and any wide
number type.
-/
namespace Ivg.Props.C07
open Ivg Ivg.Num Ivg.Enc Ivg.Ren Ivg.Selectors Ivg.EncoderProto

section
variable {β : Type} [Arith β] [Wide F32 β]

/-- The selector clause, from the zero values: at every point `p` (prefix) of a call sequence `h`
    whose calls the Encoder accepts, the CSEL and NSEL held by the Encoder equal those held by a
    Renderer fed the same calls.  Both sides are 6-bit values (`encoder_selectors_6bit`,
    `renderer_selectors_6bit`), so "modulo 64" is plain equality.  The hypothesis is necessary: the
    Encoder ignores a rejected call, the Renderer does not (example below); it is implied by the
    sequence being violation free (`accepted_of_violationFree`) and, for a sequence without Reset, by
    the absence of an error at the end (`accepted_of_final`). -/
theorem sel_agree (arc : ArcFn F32 β) (posInf : F32) (h : List (Call F32))
    (herr : ∀ p, p <+: h → (({} : Encoder).run p).err = none) (p : List (Call F32)) (hp : p <+: h) :
    (({} : Encoder).run p).cSel = ((Renderer.zero : Renderer F32 β).run arc posInf p).1.cSel ∧
    (({} : Encoder).run p).nSel = ((Renderer.zero : Renderer F32 β).run arc posInf p).1.nSel :=
  Selectors.sel_agree arc posInf h herr p hp

/-- The same after a Reset, from ANY Encoder state and ANY Renderer state. -/
theorem sel_agree_after_reset (arc : ArcFn F32 β) (posInf : F32) (e : Encoder) (z : Renderer F32 β)
    (vb : ViewBox F32) (pal : Palette) (h : List (Call F32))
    (herr : ∀ p, p <+: h → ((e.step (.reset vb pal)).run p).err = none) (p : List (Call F32)) (hp : p <+: h) :
    (e.run (.reset vb pal :: p)).cSel = (z.run arc posInf (.reset vb pal :: p)).1.cSel ∧
    (e.run (.reset vb pal :: p)).nSel = (z.run arc posInf (.reset vb pal :: p)).1.nSel :=
  Selectors.sel_agree_after_reset arc posInf e z vb pal h herr p hp

end

/-! ## first clause: rendering directly and rendering via encode + decode -/

section
variable {β : Type} [Arith β] [Wide F32 β]

/-- Clause "directly into a Renderer, or into an Encoder whose bytes are then decoded into a Renderer,
    produces the same rasteriser activity and paints up to coordinate quantisation": for every
    protocol-respecting program `p` (any operands, last path possibly open) after `Reset vb pal`, the
    Encoder's bytes decode, and a Renderer in ANY state `z` (any arc implementation) fed the decoded
    calls ends in the same state and emits the same rasteriser operations as when fed, directly,
    `Reset` and the program with every numeric operand replaced by what the format can hold
    (`Q hi`, characterised in C08: the identity on operands with a short encoding, otherwise a
    truncation to 30 bits of the float / 1/64 or 1/1024 grid of `quantize`). -/
theorem render_via_bytes (arc : ArcFn F32 β) (posInf : F32) (z : Renderer F32 β)
    (vb : ViewBox F32) (pal : Palette) (hi : Bool) (p : List (Call F32)) (endPath : Bool)
    (hv : vbNeDefault vb = true → Header.VBValid vb) (hp : ∀ c ∈ pal.toList, c.validPremul = true)
    (hproto : EncoderInv.Proto false p endPath) :
    let e := ({ (({} : Encoder).reset vb pal) with hiRes := hi } : Encoder).run p
    ∃ bs, e.bytes.2 = .ok bs ∧
      z.run arc posInf (Dec.decode [] bs).1 =
        z.run arc posInf (.reset (Header.rtViewBox vb) pal :: p.map (RoundTrip.Q hi)) := by
  intro e
  obtain ⟨bs, hb, hd⟩ := Ivg.Props.C01.encode_decode vb pal hi p endPath hv hp hproto
  exact ⟨bs, hb, by rw [hd]⟩

/-- … and EXACTLY the same activity and state when the operands are ones the format holds exactly
    (`Q hi` and the viewBox round trip fix them; non-vacuous, see the example below). -/
theorem render_direct_eq_via_bytes (arc : ArcFn F32 β) (posInf : F32) (z : Renderer F32 β)
    (vb : ViewBox F32) (pal : Palette) (hi : Bool) (p : List (Call F32)) (endPath : Bool)
    (hv : vbNeDefault vb = true → Header.VBValid vb) (hp : ∀ c ∈ pal.toList, c.validPremul = true)
    (hproto : EncoderInv.Proto false p endPath)
    (hq : p.map (RoundTrip.Q hi) = p) (hvb : Header.rtViewBox vb = vb) :
    let e := ({ (({} : Encoder).reset vb pal) with hiRes := hi } : Encoder).run p
    ∃ bs, e.bytes.2 = .ok bs ∧
      z.run arc posInf (Dec.decode [] bs).1 = z.run arc posInf (.reset vb pal :: p) := by
  intro e
  obtain ⟨bs, hb, hd⟩ := render_via_bytes arc posInf z vb pal hi p endPath hv hp hproto
  exact ⟨bs, hb, by rw [hd, hq, hvb]⟩

/-- the selector masking that `Q` applies is invisible to a Renderer: it masks itself -/
theorem renderer_masks (arc : ArcFn F32 β) (posInf : F32) (z : Renderer F32 β) (v : UInt8) :
    z.step arc posInf (.setCSel (v &&& 0x3f)) = z.step arc posInf (.setCSel v) ∧
    z.step arc posInf (.setNSel (v &&& 0x3f)) = z.step arc posInf (.setNSel v) := by
  have h : v &&& 0x3f &&& 0x3f = v &&& 0x3f := by
    apply UInt8.eq_of_toBitVec_eq; simp [BitVec.and_assoc]
  constructor <;> simp [Renderer.step, h]

end

/-- operands on the grid: a program that the quantisation leaves alone -/
def gridCalls : List (Call F32) :=
  [.setCSel 5, .setNReg 0 false ⟨0x3f000000⟩, .startPath 2 ⟨0x3f800000⟩ ⟨0xc0000000⟩,
   .d2 .L ⟨0x40400000⟩ ⟨0x40400000⟩, .d1 .h ⟨0x3e800000⟩, .closeEnd]
set_option maxRecDepth 100000 in
example : gridCalls.map (RoundTrip.Q false) = gridCalls ∧ Header.rtViewBox defaultViewBox = defaultViewBox := by
  decide +kernel

/-! ## the Generator's gradient helpers, which read the selectors back -/

section
variable {β : Type} [Arith β] [Wide F32 β]

/-- Clause "including the Generator's gradient helpers which read the selector registers back": a
    program of plain calls and gradient helpers (`generate.Generator.SetGradient` and the three shapes
    built on it) driven into an Encoder and into a Renderer holding the same selectors delivers the
    SAME calls to both — every read-back agrees — as long as the Encoder accepts what it is given; so
    `render_via_bytes` applies to the delivered sequence. -/
theorem generator_same_calls (arc : ArcFn F32 β) (posInf : F32) (ops : List GenSel.GenOp)
    (e : Encoder) (z : Renderer F32 β) (hs : (e.cSel, e.nSel) = (z.cSel, z.nSel))
    (herr : ∀ p, p <+: (GenSel.genRun GenSel.encDest e ops).2 → (e.run p).err = none) :
    (GenSel.genRun GenSel.encDest e ops).2 = (GenSel.genRun (GenSel.renDest arc posInf) z ops).2 :=
  (GenSel.gen_same_calls arc posInf ops e z hs herr).1

end

/-- a gradient with two stops written while CSEL = 3, NSEL = 62, then a path -/
def exampleGen : List GenSel.GenOp :=
  [.call (.setCSel 3), .call (.setNSel 62),
   .grad 0 1 [(F32.zero, ⟨0xff, 0, 0, 0xff⟩), (⟨0x3f800000⟩, ⟨0, 0, 0xff, 0xff⟩)] Gen.Aff3.identity,
   .call (.startPath 0 F32.zero F32.zero), .call .closeEnd]
set_option maxRecDepth 100000 in
example : (GenSel.genRun GenSel.encDest {} exampleGen).2.length = 19 ∧
    (({} : Encoder).run (GenSel.genRun GenSel.encDest {} exampleGen).2).err = none ∧
    ((GenSel.genRun GenSel.encDest {} exampleGen).1.cSel, (GenSel.genRun GenSel.encDest {} exampleGen).1.nSel) = (3, 62) := by
  decide +kernel

/-- the hypothesis of `sel_agree` in terms of the protocol automaton of C10 -/
theorem accepted_of_violationFree (h : List (Call F32))
    (hv : Spec.Protocol.ViolationFree .fresh (h.map Spec.Protocol.classifyCall)) :
    ∀ p, p <+: h → (({} : Encoder).run p).err = none := err_none_of_violationFree h hv

/-- … and, for a sequence without Reset, in terms of the final state only -/
theorem accepted_of_final (h : List (Call F32)) (hnr : ∀ c ∈ h, Spec.Protocol.classifyCall c ≠ .reset)
    (hend : (({} : Encoder).run h).err = none) :
    ∀ p, p <+: h → (({} : Encoder).run p).err = none := err_none_of_final h hnr hend

/-- a sequence that dirties both selectors, wraps NSEL around, and draws a path -/
def exampleCalls : List (Call F32) :=
  [.setCSel 200, .setCReg 0 true (Color.rgbaColor ⟨0, 0, 0, 0xff⟩), .setNSel 63, .setNReg 0 true F32.zero,
   .startPath 2 F32.zero F32.zero, .d1 .h F32.zero, .closeEnd, .setCReg 6 false (Color.paletteIndexColor 3)]
set_option maxRecDepth 100000 in
example : ∀ p, p <+: exampleCalls → (({} : Encoder).run p).err = none :=
  accepted_of_final exampleCalls (by decide) (by decide +kernel)
set_option maxRecDepth 100000 in
example : (({} : Encoder).run exampleCalls).cSel = 9 ∧ (({} : Encoder).run exampleCalls).nSel = 0 := by
  decide +kernel
-- without the hypothesis the two disagree: the Encoder ignores the rejected SetCSel, a Renderer obeys it
set_option maxRecDepth 100000 in
example : (({} : Encoder).run [.startPath 0 F32.zero F32.zero, .setCSel 5]).cSel = 0 ∧
    vmSelRun (0, 0) [Call.startPath 0 F32.zero F32.zero, .setCSel 5] = (5, 0) := by
  decide +kernel

/-- Each machine follows the specification of the decoding machine's selectors, call by call:
    the Renderer always; the Encoder whenever it accepts the call (`err = none` afterwards). -/
theorem both_follow_vm {α β : Type} [Arith α] [Arith β] [Wide α β]
    (arc : ArcFn α β) (posInf : α) (z : Renderer α β) (c : Call α) (e : Encoder) (c' : Call F32) :
    ((z.step arc posInf c).1.cSel, (z.step arc posInf c).1.nSel) = vmSel (z.cSel, z.nSel) c ∧
    ((e.step c').err = none → ((e.step c').cSel, (e.step c').nSel) = vmSel (e.cSel, e.nSel) c') :=
  ⟨renderer_sel arc posInf z c, encoder_sel e c'⟩
example : ((({} : Encoder).step (.setCReg 3 false (Color.rgbaColor ⟨0, 0, 0, 0xff⟩))).err = none) := by decide

/-- `vmSel` is arithmetic modulo 64 (also across the byte wrap-around) and stays below 64. -/
theorem vm_mod64 (v : UInt8) {α : Type} (s : UInt8 × UInt8) (c : Call α) :
    ((v + 1) % 64).toNat = (v.toNat + 1) % 64 ∧ (v % 64).toNat = v.toNat % 64 ∧ v &&& 0x3f = v % 64 ∧
    (s.1 < 64 ∧ s.2 < 64 → (vmSel s c).1 < 64 ∧ (vmSel s c).2 < 64) :=
  ⟨succ_mod64_toNat v, by simp [UInt8.toNat_mod], and_3f v, vmSel_lt s c⟩

/-- The Renderer's selectors are 6-bit values after any call sequence from the zero value … -/
theorem renderer_selectors_6bit {α β : Type} [Arith α] [Arith β] [Wide α β]
    (arc : ArcFn α β) (posInf : α) (cs : List (Call α)) :
    ((Renderer.zero : Renderer α β).run arc posInf cs).1.cSel < 64 ∧
    ((Renderer.zero : Renderer α β).run arc posInf cs).1.nSel < 64 :=
  Selectors.renderer_selectors_6bit arc posInf cs

/-- … and so are the Encoder's after any history over its whole API (accepted or not). -/
theorem encoder_selectors_6bit (ops : List EncOp) :
    (({} : Encoder).runOps ops).1.cSel < 64 ∧ (({} : Encoder).runOps ops).1.nSel < 64 :=
  Selectors.encoder_selectors_6bit ops

/-- What `CSel()` / `NSel()` report is the selector held, in every state; the reads (like `LOD()`,
    `Bytes()` and assignments to `HighResolutionCoordinates`) do not move the selectors. -/
theorem reads_report (e : Encoder) :
    (e.stepOp .readCSel).2 = some (.sel e.cSel) ∧ (e.stepOp .readNSel).2 = some (.sel e.nSel) ∧
    ∀ op, (∀ c, op ≠ .call c) → ((e.stepOp op).1.cSel, (e.stepOp op).1.nSel) = (e.cSel, e.nSel) :=
  ⟨(read_reports e).1, (read_reports e).2, fun op hop => esel_stepOp e op hop⟩

/-!
## Not proved in this file

* "up to coordinate quantisation" is made precise as the operand map `Q hi` (C01/C08); how far the
  pixels move under that map (continuity of the rasteriser) is not a statement about this repository.
* `DestinationLogger` (logger.go, a logging pass-through Destination) is not part of the executable model: that
  each of its 26 methods makes exactly one call on the wrapped Destination — the same method with the same
  arguments in order, guarded only by the nil test — is the regenerated fact `Gen.Tie.logger_forwards_tie`
  (syntactic, from the Go source on every run); the harness additionally compares the calls received behind a
  logger with the calls made (`C07.logger-forwards`).
* That `vmSel` is what the DECODER holds is by reading the format specification; the decoder model
  (`Ivg/Model/Decoder.lean`) delivers calls and keeps no selector state of its own.
-/

end Ivg.Props.C07

#obligations C07 [
  Ivg.Props.C07.sel_agree, Ivg.Props.C07.sel_agree_after_reset, Ivg.Props.C07.accepted_of_violationFree,
  Ivg.Props.C07.accepted_of_final, Ivg.Props.C07.both_follow_vm, Ivg.Props.C07.vm_mod64,
  Ivg.Props.C07.renderer_selectors_6bit, Ivg.Props.C07.encoder_selectors_6bit, Ivg.Props.C07.reads_report,
  Ivg.Props.C07.render_via_bytes, Ivg.Props.C07.render_direct_eq_via_bytes, Ivg.Props.C07.renderer_masks, Ivg.Props.C07.generator_same_calls,
  Ivg.Gen.Tie.encoder_fields_tie, Ivg.Gen.Tie.renderer_fields_tie,
  Ivg.Gen.Tie.logger_forwards_tie, Ivg.Gen.Tie.logger_methods_tie,
  -- regenerated code (translator, Ivg/Gen/Code) = model, for all inputs: RenderRegs
  Ivg.Gen.Tie.renderer_CSel_code_tie,
  Ivg.Gen.Tie.renderer_NSel_code_tie,
  Ivg.Gen.Tie.renderer_SetCSel_code_tie,
  Ivg.Gen.Tie.renderer_SetNSel_code_tie,
  Ivg.Gen.Tie.renderer_SetLOD_code_tie,
  Ivg.Gen.Tie.renderer_SetNReg_code_tie,
  Ivg.Gen.Tie.positiveInfinity_code_tie,
  Ivg.Gen.Tie.renderer_Reset_code_tie,
  Ivg.Gen.Tie.renderer_Reset_code_tie_frame,
  -- regenerated code with loops/recursion (translator, fuel) = model, for all inputs and sufficient fuel: Resolve
  Ivg.Gen.Tie.color_Resolve_code_tie,
  Ivg.Gen.Tie.color_Resolve_code_tie_badTyp,
  Ivg.Gen.Tie.renderer_SetCReg_code_tie,
  Ivg.Gen.Tie.renderer_SetCReg_code_tie',
  -- regenerated code (translator): the whole encode.Encoder (every method except SetNReg) = the model's Encoder.step, through the representation encOf / WFEnc
  Ivg.Gen.Tie.drawOps_code_tie_all,
  Ivg.Gen.Tie.drawOps_code_tie,
  Ivg.Gen.Tie.errDrawingOpsUsedInStylingMode_code_tie,
  Ivg.Gen.Tie.errInvalidSelectorAdjustment_code_tie,
  Ivg.Gen.Tie.errInvalidIncrementingAdjustment_code_tie,
  Ivg.Gen.Tie.errStylingOpsUsedInDrawingMode_code_tie,
  Ivg.Gen.Tie.encodeError_Error_code_tie,
  Ivg.Gen.Tie.positiveInfinity_code_tie_enc,
  Ivg.Gen.Tie.negativeInfinity_code_tie_enc,
  Ivg.Gen.Tie.appendDefaultMetadata_code_tie,
  Ivg.Gen.Tie.cSel_code_tie,
  Ivg.Gen.Tie.nSel_code_tie,
  Ivg.Gen.Tie.lOD_code_tie,
  Ivg.Gen.Tie.checkModeStyling_code_tie,
  Ivg.Gen.Tie.setCSel_code_tie,
  Ivg.Gen.Tie.setNSel_code_tie,
  Ivg.Gen.Tie.setLOD_code_tie,
  Ivg.Gen.Tie.encoder_startPath_code_tie,
  Ivg.Gen.Tie.setCReg_code_tie,
  Ivg.Gen.Tie.flushDrawOps_code_tie,
  Ivg.Gen.Tie.draw_code_tie,
  Ivg.Gen.Tie.draw_code_tie',
  Ivg.Gen.Tie.encoder_absHLineTo_code_tie,
  Ivg.Gen.Tie.encoder_relHLineTo_code_tie,
  Ivg.Gen.Tie.encoder_absVLineTo_code_tie,
  Ivg.Gen.Tie.encoder_relVLineTo_code_tie,
  Ivg.Gen.Tie.encoder_absLineTo_code_tie,
  Ivg.Gen.Tie.encoder_relLineTo_code_tie,
  Ivg.Gen.Tie.encoder_absSmoothQuadTo_code_tie,
  Ivg.Gen.Tie.encoder_relSmoothQuadTo_code_tie,
  Ivg.Gen.Tie.encoder_closePathAbsMoveTo_code_tie,
  Ivg.Gen.Tie.encoder_closePathRelMoveTo_code_tie,
  Ivg.Gen.Tie.encoder_absQuadTo_code_tie,
  Ivg.Gen.Tie.encoder_relQuadTo_code_tie,
  Ivg.Gen.Tie.encoder_absSmoothCubeTo_code_tie,
  Ivg.Gen.Tie.encoder_relSmoothCubeTo_code_tie,
  Ivg.Gen.Tie.encoder_absCubeTo_code_tie,
  Ivg.Gen.Tie.encoder_relCubeTo_code_tie,
  Ivg.Gen.Tie.encoder_closePathEndPath_code_tie,
  Ivg.Gen.Tie.arcTo_code_tie,
  Ivg.Gen.Tie.absArcTo_code_tie,
  Ivg.Gen.Tie.relArcTo_code_tie,
  Ivg.Gen.Tie.bytes_code_tie,
  Ivg.Gen.Tie.setCSel_code_tie_state,
  Ivg.Gen.Tie.setNSel_code_tie_state,
  Ivg.Gen.Tie.setCReg_code_tie_state,
  Ivg.Gen.Tie.setLOD_code_tie_state,
  Ivg.Gen.Tie.encoder_startPath_code_tie_state,
  Ivg.Gen.Tie.cSel_code_tie_state,
  Ivg.Gen.Tie.nSel_code_tie_state,
  Ivg.Gen.Tie.lOD_code_tie_state,
  Ivg.Gen.Tie.draw_code_tie_state,
  Ivg.Gen.Tie.bytes_code_tie_state,
  Ivg.Gen.Tie.reset_code_tie,
  Ivg.Gen.Tie.reset_code_tie_state,
  Ivg.Gen.Tie.wfEnc_init,
  Ivg.Gen.Tie.wfEnc_step,
  Ivg.Gen.Tie.wfEnc_runOps,
  -- regenerated code (translator): the Generator helper that reads the selectors back
  Ivg.Gen.Tie.setGradient_code_tie,
  Ivg.Gen.Tie.setGradient_selectors_restored,
  Ivg.Gen.Tie.scratch_readback, Ivg.Gen.Tie.setNReg_code_tie, Ivg.Gen.Tie.setNReg_code_tie_state]
