import Ivg.Lemmas.ColorCodec
import Ivg.Lemmas.Codec
import Ivg.Gen.Tie.Dc1
import Ivg.Gen.Tie.DrawOps
import Ivg.Gen.Tie.Magic
import Ivg.Gen.Tie.Code.Color
import Ivg.Gen.Tie.Code.EncColors
import Ivg.Gen.Tie.Code.DecColors
import Ivg.Gen.Tie.Code.Resolve
import Ivg.Gen.Tie.Code.Decoder8
import Ivg.Gen.Tie.Code.Encoder6
import Ivg.Obligations
/-!
# C09 — colours are stored exactly; colour forms and blending follow the tables

Property text: "Every colour the encoder writes, whether a register assignment (direct RGBA incl.
gradient-encoding values, palette index, register reference, blend) or a (valid premultiplied) entry
of the suggested palette, decodes to exactly the same colour; each of the 1-, 2-, 3- and 4-byte forms
decodes as the specification's tables say for every possible byte pattern; and resolving a blend
computes ((255-t)*c0 + t*c1 + 128)/255 per channel on the resolved operands, giving c0 at t=0, c1 at
t=255, and never a non-premultiplied result from premultiplied operands."

The theorems are about the executable model (`Ivg.Color.*`, `Ivg.Enc.cregForm`, `Ivg.Enc.paletteChunk`,
`Ivg.Dec.decodeColor*`, `Ivg.Dec.decodePaletteColors`), tied to /repo by the differential suite and by
`Ivg.Gen.Tie.dc1Table_tie`.  Each implication is followed by an `example` exhibiting an instance of
its hypotheses.  See the end of the file for what is not proved here.
-/
namespace Ivg.Props.C09
open Ivg Num ColorCodec

/-! ## register assignments: every form decodes to the colour it was made from -/

/-- Clause "every colour the encoder writes … decodes to exactly the same colour", 1-byte form
    (the 125 opaque table colours, the three translucent greys, palette index, register reference).
    `c.WF` says `c` is a value a Go program can construct (unexported fields). -/
theorem form1_roundtrip (c : Color) (hwf : c.WF) (x : UInt8) (h : c.encode1 = some x) :
    Ivg.decodeColor1 x = c := decodeColor1_encode1 c hwf x h
example : (Color.paletteIndexColor 5).WF ∧ (Color.paletteIndexColor 5).encode1 = some 0x85 := by decide
example : (Color.rgbaColor ⟨0x40, 0xff, 0x00, 0xff⟩).encode1 = some 45 := by decide

/-- … 2-byte form (every channel a multiple of 0x11). -/
theorem form2_roundtrip (c : Color) (x y : UInt8) (h : c.encode2 = some (x, y)) (rest : Bytes) :
    Dec.decodeColor2 (x :: y :: rest) = some (c, rest) := decodeColor2_encode2 c x y h rest
example : (Color.rgbaColor ⟨0x33, 0x44, 0x00, 0x55⟩).encode2 = some (0x34, 0x05) := by decide

/-- … 3-byte direct form (opaque). -/
theorem form3_roundtrip (c : Color) (x y z : UInt8) (h : c.encode3Direct = some (x, y, z))
    (rest : Bytes) : Dec.decodeColor3Direct (x :: y :: z :: rest) = some (c, rest) :=
  decodeColor3Direct_encode3Direct c x y z h rest
example : (Color.rgbaColor ⟨1, 2, 3, 0xff⟩).encode3Direct = some (1, 2, 3) := by decide

/-- … 4-byte form: ANY RGBA value, premultiplied or not, hence also gradient-encoding values. -/
theorem form4_roundtrip (c : Color) (x y z w : UInt8) (h : c.encode4 = some (x, y, z, w))
    (rest : Bytes) : Dec.decodeColor4 (x :: y :: z :: w :: rest) = some (c, rest) :=
  decodeColor4_encode4 c x y z w h rest
example : (encodeGradient 10 20 1 2 3).validGradient = true ∧
    (Color.rgbaColor (encodeGradient 10 20 1 2 3)).encode4 = some (3, 0x8a, 0xd4, 0) := by decide

/-- … 3-byte indirect form (blend). -/
theorem blend_roundtrip (c : Color) (hwf : c.WF) (x y z : UInt8)
    (h : c.encode3Indirect = some (x, y, z)) (rest : Bytes) :
    Dec.decodeColor3Indirect (x :: y :: z :: rest) = some (c, rest) :=
  decodeColor3Indirect_encode3Indirect c hwf x y z h rest
example : (Color.blendColor 0x40 0x7f 0x80).WF ∧
    (Color.blendColor 0x40 0x7f 0x80).encode3Indirect = some (0x40, 0x7f, 0x80) := by decide

/-- `SetCReg` always finds a form (the Go `panic("unreachable")` is unreachable) and its opcode base
    is one of the five SetCReg bases. -/
theorem creg_form_total (c : Color) :
    (Enc.cregForm c).1 ≠ 0xff ∧
    ((Enc.cregForm c).1 = 0x80 ∨ (Enc.cregForm c).1 = 0x88 ∨ (Enc.cregForm c).1 = 0x90 ∨
     (Enc.cregForm c).1 = 0x98 ∨ (Enc.cregForm c).1 = 0xa0) :=
  ⟨cregForm_total c, cregForm_base c⟩

/-- Headline (`creg_colour_roundtrip` in DESIGN.md): for every constructible colour, the colour
    decoder that `decodeStyling` selects from the opcode (`decoderFor`, via `(opcode-0x80)>>3`)
    applied to the payload `SetCReg` wrote returns exactly that colour and the untouched rest. -/
theorem creg_colour_roundtrip (c : Color) (hwf : c.WF) (rest : Bytes) :
    decoderFor (Enc.cregForm c).1 ((Enc.cregForm c).2 ++ rest) = some (c, rest) :=
  cregForm_decodes c hwf rest
example : (Color.rgbaColor ⟨0x12, 0x34, 0x56, 0x78⟩).WF ∧
    Enc.cregForm (Color.rgbaColor ⟨0x12, 0x34, 0x56, 0x78⟩) = (0x98, [0x12, 0x34, 0x56, 0x78]) := by decide
example : Enc.cregForm (Color.cRegColor 63) = (0x80, [0xff]) ∧
    Enc.cregForm (Color.blendColor 1 2 3) = (0xa0, [1, 2, 3]) ∧
    Enc.cregForm (Color.rgbaColor ⟨0x11, 0x22, 0x33, 0x44⟩) = (0x88, [0x12, 0x34]) ∧
    Enc.cregForm (Color.rgbaColor ⟨1, 2, 3, 0xff⟩) = (0x90, [1, 2, 3]) := by decide

/-- The colour decoders are fixed-width: they consume exactly 1/2/3/4/3 bytes, never more … -/
theorem colour_no_overread {b : Bytes} {c : Color} {rest : Bytes} :
    (Dec.decodeColor1 b = some (c, rest) → b.length = 1 + rest.length ∧ b = b.take 1 ++ rest) ∧
    (Dec.decodeColor2 b = some (c, rest) → b.length = 2 + rest.length ∧ b = b.take 2 ++ rest) ∧
    (Dec.decodeColor3Direct b = some (c, rest) → b.length = 3 + rest.length ∧ b = b.take 3 ++ rest) ∧
    (Dec.decodeColor4 b = some (c, rest) → b.length = 4 + rest.length ∧ b = b.take 4 ++ rest) ∧
    (Dec.decodeColor3Indirect b = some (c, rest) → b.length = 3 + rest.length ∧ b = b.take 3 ++ rest) :=
  ⟨Codec.decodeColor1_consumes, Codec.decodeColor2_consumes, Codec.decodeColor3Direct_consumes,
   Codec.decodeColor4_consumes, Codec.decodeColor3Indirect_consumes⟩
example : Dec.decodeColor2 [0x12, 0x34, 0x56] = some (Color.rgbaColor ⟨0x11, 0x22, 0x33, 0x44⟩, [0x56]) := by
  decide

/-- … and fail exactly on input shorter than their width (a colour cut short is an error). -/
theorem colour_truncated (b : Bytes) :
    (Dec.decodeColor1 b = none ↔ b.length < 1) ∧ (Dec.decodeColor2 b = none ↔ b.length < 2) ∧
    (Dec.decodeColor3Direct b = none ↔ b.length < 3) ∧ (Dec.decodeColor4 b = none ↔ b.length < 4) ∧
    (Dec.decodeColor3Indirect b = none ↔ b.length < 3) :=
  ⟨decodeColor1_none_iff b, decodeColor2_none_iff b, decodeColor3Direct_none_iff b,
   decodeColor4_none_iff b, decodeColor3Indirect_none_iff b⟩

/-! ## suggested palette -/

/-- Clause "a (valid premultiplied) entry of the suggested palette decodes to exactly the same
    colour", per entry: in each of the four palette formats the entry's bytes decode to the direct
    colour `c` (formats 0–2 under the condition by which `paletteChunk` selects them) … -/
theorem palette_entry_roundtrip (c : RGBA) (rest : Bytes) :
    ((Color.rgbaColor c).encode1.isSome = true →
      Dec.decodeColor1 (palEnc1 c ++ rest) = some (Color.rgbaColor c, rest)) ∧
    (c.is2 = true → Dec.decodeColor2 (palEnc2 c ++ rest) = some (Color.rgbaColor c, rest)) ∧
    (c.is3 = true → Dec.decodeColor3Direct (palEnc3 c ++ rest) = some (Color.rgbaColor c, rest)) ∧
    Dec.decodeColor4 (palEnc4 c ++ rest) = some (Color.rgbaColor c, rest) :=
  ⟨fun h => palEntry1 c h rest, fun h => palEntry2 c h rest, fun h => palEntry3 c h rest,
   palEntry4 c rest⟩
example : (Color.rgbaColor ⟨0x80, 0x80, 0x80, 0x80⟩).encode1.isSome = true ∧
    (⟨0x22, 0x22, 0x22, 0x22⟩ : RGBA).is2 = true ∧ (⟨1, 2, 3, 0xff⟩ : RGBA).is3 = true := by decide
-- the F2 witness of DESIGN.md (40:40:40:40) is no longer classed 1-byte: it goes to format 3
example : (Color.rgbaColor ⟨0x40, 0x40, 0x40, 0x40⟩).encode1.isSome = false ∧
    (⟨0x40, 0x40, 0x40, 0x40⟩ : RGBA).is2 = false := by decide

/-- … and the decoder's `Color.RGBA()` conversion delivers a premultiplied entry unchanged, a
    non-premultiplied one as opaque black. -/
theorem palette_entry_delivered (c : RGBA) :
    (c.validPremul = true → (Color.rgbaColor c).toRGBA = (c, true)) ∧
    (c.validPremul = false → (Color.rgbaColor c).toRGBA = (RGBA.black, false)) :=
  ⟨toRGBA_rgbaColor c, toRGBA_rgbaColor_invalid c⟩
example : (⟨0x10, 0x20, 0x30, 0x40⟩ : RGBA).validPremul = true ∧
    (⟨0x50, 0x20, 0x30, 0x40⟩ : RGBA).validPremul = false := by decide

/-- Whole chunk body: for a list of premultiplied entries, the decoder's palette loop run on what
    `paletteChunk` writes in the format it selects (see `ColorCodec.paletteChunk_eq`) consumes exactly
    the entries and stores them, in order, from slot `i`. -/
theorem palette_body_roundtrip (cols : List RGBA) (hp : ∀ c ∈ cols, c.validPremul = true)
    (i : Nat) (pal : Palette) (rest : Bytes) :
    (cols.all (fun c => (Color.rgbaColor c).encode1.isSome) = true →
      (Dec.decodePaletteColors Dec.decodeColor1 cols.length i pal (cols.flatMap palEnc1 ++ rest)).map (·.2) =
        some (setFrom pal i cols, rest)) ∧
    (cols.all RGBA.is2 = true →
      (Dec.decodePaletteColors Dec.decodeColor2 cols.length i pal (cols.flatMap palEnc2 ++ rest)).map (·.2) =
        some (setFrom pal i cols, rest)) ∧
    (cols.all RGBA.is3 = true →
      (Dec.decodePaletteColors Dec.decodeColor3Direct cols.length i pal
        (cols.flatMap palEnc3 ++ rest)).map (·.2) = some (setFrom pal i cols, rest)) ∧
    (Dec.decodePaletteColors Dec.decodeColor4 cols.length i pal (cols.flatMap palEnc4 ++ rest)).map (·.2) =
      some (setFrom pal i cols, rest) :=
  ⟨fun h => paletteBody1 cols hp h i pal rest, fun h => paletteBody2 cols hp h i pal rest,
   fun h => paletteBody3 cols h hp i pal rest, paletteBody4 cols hp i pal rest⟩
example : ∀ c ∈ [(⟨0x40, 0x40, 0x40, 0x40⟩ : RGBA), ⟨0, 0, 0, 0⟩, ⟨1, 2, 3, 0xff⟩], c.validPremul = true := by
  decide

/-- Headline (`palette_roundtrip` in DESIGN.md): the whole suggested-palette chunk.  For a palette that
    differs from the default and consists of valid premultiplied colours, the chunk `Encoder.reset`
    writes — length prefix, identifier 1, header byte, the explicit entries in the shortest common
    format, trailing opaque black trimmed — is decoded by `decodeMetadataChunk` (from the default
    palette, as `decode` does) to EXACTLY that palette, consuming exactly the chunk. -/
theorem palette_roundtrip (pal : Palette) (hne : pal ≠ defaultPalette)
    (hp : ∀ c ∈ pal.toList, c.validPremul = true) (m : Dec.Metadata)
    (hm : m.palette = defaultPalette) (minMID : Nat) (hmin : minMID ≤ 1) (rest : Bytes) :
    ∃ its, Dec.decodeMetadataChunk m minMID
        (Enc.encodeNatural (Enc.paletteChunk pal).length ++ Enc.paletteChunk pal ++ rest) =
      (its, .ok ({ m with palette := pal }, 2, rest)) :=
  paletteChunk_decodes pal (explicitCount_ne_zero pal hne) hp m hm minMID hmin rest
example : (defaultPalette.set6 3 ⟨0x40, 0x40, 0x40, 0x40⟩) ≠ defaultPalette ∧
    (∀ c ∈ (defaultPalette.set6 3 ⟨0x40, 0x40, 0x40, 0x40⟩).toList, c.validPremul = true) ∧
    Enc.paletteChunk (defaultPalette.set6 3 ⟨0x40, 0x40, 0x40, 0x40⟩) =
      [0x02, 0xc3, 0, 0, 0, 0xff, 0, 0, 0, 0xff, 0, 0, 0, 0xff, 0x40, 0x40, 0x40, 0x40] := by decide

/-- **SetCReg instruction round trip**: the opcode byte `adj | base` and payload `Encoder.setCReg`
    writes for a constructible colour are decoded by `Dec.decodeStyling` to the call
    `SetCReg(adj, incr, c)` with exactly that colour, consuming exactly opcode and payload
    (`a = 7` is the incrementing form). -/
theorem creg_instruction_roundtrip (c : Color) (hwf : c.WF) (a : UInt8) (ha : a ≤ 7) (rest : Bytes) :
    ∃ l0 l1, Dec.decodeStyling ((a ||| (Enc.cregForm c).1) :: ((Enc.cregForm c).2 ++ rest)) =
      ([.line l0, .line l1, .call (.setCReg (if a == 7 then 0 else a) (a == 7) c)],
       .ok (.styling, rest)) ∧
      l0.bytes = [a ||| (Enc.cregForm c).1] ∧ l1.bytes = (Enc.cregForm c).2 ∧ l1.kind = .color c :=
  setCReg_instruction c hwf a ha rest
example : (Color.blendColor 0x40 0x7f 0x80).WF ∧ (3 : UInt8) ≤ 7 := by decide

/-! ## the tables, for every possible byte pattern -/

/-- 1-byte form, `x < 125`: opaque, channels are the base-5 digits of `x` (red most significant)
    looked up in `{00, 40, 80, c0, ff}` (tied to Go's `dc1Table` by `Gen.Tie.dc1Table_tie`). -/
theorem table1_opaque : ∀ x : UInt8, x < 125 →
    Ivg.decodeColor1 x = Color.rgbaColor
      ⟨chanTable[x.toNat / 25]!, chanTable[x.toNat / 5 % 5]!, chanTable[x.toNat % 5]!, 0xff⟩ :=
  decodeColor1_lt125
example : (124 : UInt8) < 125 ∧ Ivg.decodeColor1 124 = Color.rgbaColor ⟨0xff, 0xff, 0xff, 0xff⟩ := by decide

/-- 1-byte form, 125/126/127: the three translucent greys. -/
theorem table1_special :
    Ivg.decodeColor1 125 = Color.rgbaColor ⟨0xc0, 0xc0, 0xc0, 0xc0⟩ ∧
    Ivg.decodeColor1 126 = Color.rgbaColor ⟨0x80, 0x80, 0x80, 0x80⟩ ∧
    Ivg.decodeColor1 127 = Color.rgbaColor ⟨0x00, 0x00, 0x00, 0x00⟩ :=
  ⟨decodeColor1_125, decodeColor1_126, decodeColor1_127⟩

/-- 1-byte form, `0x80..0xbf`: palette index `x - 0x80`. -/
theorem table1_palette : ∀ x : UInt8, 0x80 ≤ x → x < 0xc0 →
    Ivg.decodeColor1 x = ⟨.paletteIndex, ⟨x &&& 0x3f, 0, 0, 0⟩⟩ ∧ (x &&& 0x3f).toNat = x.toNat - 0x80 :=
  decodeColor1_80_bf
example : (0x80 : UInt8) ≤ 0x9a ∧ (0x9a : UInt8) < 0xc0 := by decide

/-- 1-byte form, `0xc0..0xff`: colour register `x - 0xc0`. -/
theorem table1_creg : ∀ x : UInt8, 0xc0 ≤ x →
    Ivg.decodeColor1 x = ⟨.cReg, ⟨x &&& 0x3f, 0, 0, 0⟩⟩ ∧ (x &&& 0x3f).toNat = x.toNat - 0xc0 :=
  decodeColor1_c0_ff
example : (0xc0 : UInt8) ≤ 0xff := by decide

/-- Every 1-byte colour is constructible and none is a blend (so `Resolve` recurses one level). -/
theorem table1_wf : ∀ x : UInt8, (Ivg.decodeColor1 x).WF ∧ (Ivg.decodeColor1 x).typ ≠ .blend :=
  fun x => ⟨decodeColor1_WF x, decodeColor1_not_blend x⟩

/-- 2-byte form, all 65536 patterns: each nibble `n` becomes the channel `0x11 * n`. -/
theorem table2 (x y : UInt8) (rest : Bytes) :
    ∃ c : RGBA, Dec.decodeColor2 (x :: y :: rest) = some (Color.rgbaColor c, rest) ∧
      c.r.toNat = 17 * (x.toNat / 16) ∧ c.g.toNat = 17 * (x.toNat % 16) ∧
      c.b.toNat = 17 * (y.toNat / 16) ∧ c.a.toNat = 17 * (y.toNat % 16) :=
  decodeColor2_table x y rest

/-- 3-byte direct (opaque RGB), 4-byte (verbatim RGBA) and 3-byte indirect (blend t, c0, c1) forms,
    all patterns. -/
theorem table34 (x y z w : UInt8) (rest : Bytes) :
    Dec.decodeColor3Direct (x :: y :: z :: rest) = some (Color.rgbaColor ⟨x, y, z, 0xff⟩, rest) ∧
    Dec.decodeColor4 (x :: y :: z :: w :: rest) = some (Color.rgbaColor ⟨x, y, z, w⟩, rest) ∧
    Dec.decodeColor3Indirect (x :: y :: z :: rest) = some (Color.blendColor x y z, rest) :=
  ⟨rfl, rfl, rfl⟩

/-! ## blending -/

/-- Clause "resolving a blend computes ((255-t)*c0 + t*c1 + 128)/255 per channel" — the channel
    formula (no 8-bit wrap-around: the quotient is < 256) … -/
theorem blend_formula (t x0 x1 : UInt8) :
    (blendChan t x0 x1).toNat = ((255 - t.toNat) * x0.toNat + t.toNat * x1.toNat + 128) / 255 :=
  blendChan_toNat t x0 x1

/-- … "on the resolved operands": the operands are the 1-byte colours `c0`, `c1` looked up in the
    palette / register file. -/
theorem blend_resolve (c : Color) (h : c.typ = .blend) (pal creg : Palette) :
    c.resolve pal creg =
      (let t := c.data.r
       let p0 := (Ivg.decodeColor1 c.data.g).resolve1 pal creg
       let p1 := (Ivg.decodeColor1 c.data.b).resolve1 pal creg
       ⟨blendChan t p0.r p1.r, blendChan t p0.g p1.g, blendChan t p0.b p1.b, blendChan t p0.a p1.a⟩) :=
  resolve_blend c h pal creg
example : (Color.blendColor 0x40 0x7f 0x80).typ = .blend := rfl

/-- Clause "giving c0 at t=0, c1 at t=255". -/
theorem blend_ends (x0 x1 : UInt8) : blendChan 0 x0 x1 = x0 ∧ blendChan 255 x0 x1 = x1 :=
  ⟨blendChan_zero x0 x1, blendChan_255 x0 x1⟩
theorem blend_resolve_ends (c : Color) (h : c.typ = .blend) (pal creg : Palette) :
    (c.data.r = 0 → c.resolve pal creg = (Ivg.decodeColor1 c.data.g).resolve1 pal creg) ∧
    (c.data.r = 255 → c.resolve pal creg = (Ivg.decodeColor1 c.data.b).resolve1 pal creg) :=
  ⟨fun ht => resolve_blend_zero c h ht pal creg, fun ht => resolve_blend_255 c h ht pal creg⟩
example : (Color.blendColor 0 0x7f 0x80).typ = .blend ∧ (Color.blendColor 0 0x7f 0x80).data.r = 0 ∧
    (Color.blendColor 255 0x7f 0x80).data.r = 255 := by decide

/-- The channel blend is monotone in both operands … -/
theorem blend_mono (t : UInt8) {x0 x1 a0 a1 : UInt8} (h0 : x0 ≤ a0) (h1 : x1 ≤ a1) :
    blendChan t x0 x1 ≤ blendChan t a0 a1 := blendChan_mono t h0 h1
example : (3 : UInt8) ≤ 200 ∧ (17 : UInt8) ≤ 17 := by decide

/-- … hence clause "never a non-premultiplied result from premultiplied operands". -/
theorem blend_premul (c : Color) (h : c.typ = .blend) (pal creg : Palette)
    (h0 : ((Ivg.decodeColor1 c.data.g).resolve1 pal creg).validPremul = true)
    (h1 : ((Ivg.decodeColor1 c.data.b).resolve1 pal creg).validPremul = true) :
    (c.resolve pal creg).validPremul = true :=
  ColorCodec.blend_premul c h pal creg h0 h1
example : ((Ivg.decodeColor1 126).resolve1 defaultPalette defaultPalette).validPremul = true ∧
    ((Ivg.decodeColor1 0x85).resolve1 defaultPalette defaultPalette).validPremul = true := by decide

/-!
## Not proved in this file

* The end-to-end statement over `Encoder` histories and `Dec.decode` (that `Encoder.setCReg` /
  `Encoder.reset` append exactly these bytes at an instruction boundary) belongs to C01;
  `creg_instruction_roundtrip` and `palette_roundtrip` are the per-instruction / per-chunk facts it needs.
* A palette with a NON-premultiplied entry is (by design of the decoder) not round-tripped: the entry is
  delivered as opaque black (`palette_entry_delivered`).
-/

end Ivg.Props.C09

#obligations C09 [
  Ivg.Props.C09.form1_roundtrip, Ivg.Props.C09.form2_roundtrip, Ivg.Props.C09.form3_roundtrip,
  Ivg.Props.C09.form4_roundtrip, Ivg.Props.C09.blend_roundtrip, Ivg.Props.C09.creg_form_total,
  Ivg.Props.C09.creg_colour_roundtrip, Ivg.Props.C09.colour_no_overread, Ivg.Props.C09.colour_truncated,
  Ivg.Props.C09.palette_entry_roundtrip, Ivg.Props.C09.palette_entry_delivered,
  Ivg.Props.C09.palette_body_roundtrip, Ivg.Props.C09.palette_roundtrip,
  Ivg.Props.C09.creg_instruction_roundtrip,
  Ivg.Props.C09.table1_opaque, Ivg.Props.C09.table1_special, Ivg.Props.C09.table1_palette,
  Ivg.Props.C09.table1_creg, Ivg.Props.C09.table1_wf, Ivg.Props.C09.table2, Ivg.Props.C09.table34,
  Ivg.Props.C09.blend_formula, Ivg.Props.C09.blend_resolve, Ivg.Props.C09.blend_ends,
  Ivg.Props.C09.blend_resolve_ends, Ivg.Props.C09.blend_mono, Ivg.Props.C09.blend_premul,
  Ivg.Gen.Tie.dc1Table_tie, Ivg.Gen.Tie.drawOps_tie, Ivg.Gen.Tie.magic_tie,
  -- regenerated code (translator, Ivg/Gen/Code) = model, for all inputs: Color, EncColors, DecColors
  Ivg.Gen.Tie.rGBAColor_code_tie,
  Ivg.Gen.Tie.paletteIndexColor_code_tie,
  Ivg.Gen.Tie.cRegColor_code_tie,
  Ivg.Gen.Tie.blendColor_code_tie,
  Ivg.Gen.Tie.decodeColor1_code_tie,
  Ivg.Gen.Tie.is1_1_code_tie,
  Ivg.Gen.Tie.is2_1_code_tie,
  Ivg.Gen.Tie.is1_code_tie,
  Ivg.Gen.Tie.is2_code_tie,
  Ivg.Gen.Tie.is3_code_tie,
  Ivg.Gen.Tie.validAlphaPremulColor_code_tie,
  Ivg.Gen.Tie.validGradient_code_tie,
  Ivg.Gen.Tie.encodeGradient_code_tie,
  Ivg.Gen.Tie.decodeGradient_code_tie,
  Ivg.Gen.Tie.color_Is1_code_tie,
  Ivg.Gen.Tie.color_Is2_code_tie,
  Ivg.Gen.Tie.color_Is3_code_tie,
  Ivg.Gen.Tie.color_RGBA_code_tie,
  Ivg.Gen.Tie.color_Encode1_code_tie,
  Ivg.Gen.Tie.color_Encode2_code_tie,
  Ivg.Gen.Tie.color_Encode3Direct_code_tie,
  Ivg.Gen.Tie.color_Encode4_code_tie,
  Ivg.Gen.Tie.color_Encode3Indirect_code_tie,
  Ivg.Gen.Tie.color_rgba_code_tie,
  Ivg.Gen.Tie.color_paletteIndex_code_tie,
  Ivg.Gen.Tie.color_cReg_code_tie,
  Ivg.Gen.Tie.color_blend_code_tie,
  Ivg.Gen.Tie.color_Is1_code_tie_badTyp,
  Ivg.Gen.Tie.color_Is2_code_tie_badTyp,
  Ivg.Gen.Tie.color_Is3_code_tie_badTyp,
  Ivg.Gen.Tie.color_RGBA_code_tie_badTyp,
  Ivg.Gen.Tie.color_Encode1_code_tie_badTyp,
  Ivg.Gen.Tie.color_Encode2_code_tie_badTyp,
  Ivg.Gen.Tie.color_Encode3Direct_code_tie_badTyp,
  Ivg.Gen.Tie.color_Encode4_code_tie_badTyp,
  Ivg.Gen.Tie.color_Encode3Indirect_code_tie_badTyp,
  Ivg.Gen.Tie.dc1Table_code_tie,
  Ivg.Gen.Tie.defaultViewBox_code_tie,
  Ivg.Gen.Tie.defaultPalette_code_tie,
  Ivg.Gen.Tie.defaultMetadata_code_tie,
  Ivg.Gen.Tie.encodeColor1_code_tie,
  Ivg.Gen.Tie.encodeColor2_code_tie,
  Ivg.Gen.Tie.encodeColor3Direct_code_tie,
  Ivg.Gen.Tie.encodeColor4_code_tie,
  Ivg.Gen.Tie.encodeColor3Indirect_code_tie,
  Ivg.Gen.Tie.encodeColor1_code_tie_badTyp,
  Ivg.Gen.Tie.encodeColor2_code_tie_badTyp,
  Ivg.Gen.Tie.encodeColor3Direct_code_tie_badTyp,
  Ivg.Gen.Tie.encodeColor4_code_tie_badTyp,
  Ivg.Gen.Tie.encodeColor3Indirect_code_tie_badTyp,
  Ivg.Gen.Tie.buffer_decodeColor1_code_tie,
  Ivg.Gen.Tie.decodeColor2_code_tie,
  Ivg.Gen.Tie.decodeColor3Direct_code_tie,
  Ivg.Gen.Tie.decodeColor4_code_tie,
  Ivg.Gen.Tie.decodeColor3Indirect_code_tie,
  Ivg.Gen.Tie.buffer_decodeColor1_model_eq,
  Ivg.Gen.Tie.decodeColor2_model_eq,
  Ivg.Gen.Tie.decodeColor3Direct_model_eq,
  Ivg.Gen.Tie.decodeColor4_model_eq,
  Ivg.Gen.Tie.decodeColor3Indirect_model_eq,
  -- regenerated code with loops/recursion (translator, fuel) = model, for all inputs and sufficient fuel: Resolve
  Ivg.Gen.Tie.color_Resolve_code_tie,
  Ivg.Gen.Tie.color_Resolve_code_tie_badTyp,
  Ivg.Gen.Tie.renderer_SetCReg_code_tie,
  Ivg.Gen.Tie.renderer_SetCReg_code_tie',
  -- regenerated code (translator) = model, for all inputs: the decoder from bytes to Destination calls (Tie/Code/Decoder*.lean)
  Ivg.Gen.Tie.decodeSetCReg_code_tie,
  Ivg.Gen.Tie.decode_Decode_code_tie,
  -- regenerated code (translator): Encoder.Reset (it writes the suggested palette) = model, every field
  Ivg.Gen.Tie.reset_code_tie,
  Ivg.Gen.Tie.reset_code_tie_state]
