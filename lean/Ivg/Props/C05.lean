import Ivg.Lemmas.GeomQ
import Ivg.Gen.Tie.GradientFields
import Ivg.Gen.Tie.RendererFields
import Ivg.Gen.Tie.MiscFields
import Ivg.Obligations
/-!
# C05 — drawing operations reach the rasteriser as the right segments, affinely mapped

Property text: "Every drawn path reaches the rasteriser as the same sequence of move/line/quadratic/cubic
segments as its drawing operations, each coordinate mapped by the affine map that takes the viewBox onto the
target rectangle (independent x and y scale): absolute operations map points, relative operations are offsets
from the current pen, H/V keep the other coordinate, smooth operations use the reflection of the previous
same-degree control point about the pen (or the pen itself when the previous operation was of another kind),
close-and-move operations close the sub-path before moving (relative moves being relative to the sub-path
start), and the path is closed and drawn exactly once, over the target rectangle, when it ends."

Model: `Ivg/Model/Renderer.lean` (Go: `/repo/render/render.go`, with the pen contract of
`golang.org/x/image/vector`).  Specification: `Ivg/Spec/Path.lean` — SVG path semantics in viewBox space
(`Spec.Path.step`, `Spec.Path.pathSegs`), written from the text above.  The refinement theorems are about
the model instantiated at EXACT arithmetic (`ℚ`); the structural theorems hold for every number type.
`GeomQ.T z` is the renderer's affine map `(x, y) ↦ (scaleX·(x + biasX), scaleY·(y + biasY))`;
`GeomQ.toOp` turns a specification segment into the corresponding rasteriser call;
`GeomQ.Inv z s` says the renderer state `z` (enabled) represents the specification state `s`:
pen = `T s.pen`, sub-path start = `T s.start`, and the smooth-point bookkeeping (`prevSmoothType`, point) is
`T` of the specification's last control point of that degree.
-/
namespace Ivg.Props.C05
open Ivg Ren GeomQ
open Ivg.Spec.Path (Pt Seg Ctrl State)

/-! ## the affine map -/

/-- Clause "the affine map that takes the viewBox onto the target rectangle (independent x and y scale)",
    part 1: after `SetRasterizer r` (non-empty) and `Reset vb`, the transform fields are those of `vb`, `r`. -/
theorem transform_after_reset [SqrtQ] (z0 : Renderer ℚ ℚ) (r : Rect) (posInf : ℚ) (vb : ViewBox ℚ)
    (pal : Palette) (hr : r.empty = false) :
    let z := (z0.setRasterizer r).reset posInf vb pal
    z.r = r ∧ z.viewBox = vb ∧
    z.scaleX = (r.dx : ℚ) / (vb.maxX - vb.minX) ∧ z.biasX = -vb.minX ∧
    z.scaleY = (r.dy : ℚ) / (vb.maxY - vb.minY) ∧ z.biasY = -vb.minY :=
  GeomQ.transform_after_reset z0 r posInf vb pal hr
example : (⟨0, 0, 64, 48⟩ : Rect).empty = false := by decide

/-- … part 2: then `T` is `x ↦ dx·(x − minX)/(maxX − minX)`, `y ↦ dy·(y − minY)/(maxY − minY)` … -/
theorem T_closed (z : Renderer ℚ ℚ) (dx dy : ℚ) (vb : ViewBox ℚ)
    (hsx : z.scaleX = dx / (vb.maxX - vb.minX)) (hbx : z.biasX = -vb.minX)
    (hsy : z.scaleY = dy / (vb.maxY - vb.minY)) (hby : z.biasY = -vb.minY) (p : Pt ℚ) :
    T z p = ⟨dx * (p.x - vb.minX) / (vb.maxX - vb.minX), dy * (p.y - vb.minY) / (vb.maxY - vb.minY)⟩ :=
  GeomQ.T_closed z dx dy vb hsx hbx hsy hby p

/-- … parts 1 and 2 together. -/
theorem T_after_reset [SqrtQ] (z0 : Renderer ℚ ℚ) (r : Rect) (posInf : ℚ) (vb : ViewBox ℚ) (pal : Palette)
    (hr : r.empty = false) (p : Pt ℚ) :
    T ((z0.setRasterizer r).reset posInf vb pal) p =
      ⟨(r.dx : ℚ) * (p.x - vb.minX) / (vb.maxX - vb.minX), (r.dy : ℚ) * (p.y - vb.minY) / (vb.maxY - vb.minY)⟩ :=
  GeomQ.T_after_reset z0 r posInf vb pal hr p

/-- … part 3: which maps the viewBox's corners to the corners `(0,0)`, `(dx,dy)` of the target rectangle. -/
theorem T_corners (z : Renderer ℚ ℚ) (dx dy : ℚ) (vb : ViewBox ℚ)
    (hsx : z.scaleX = dx / (vb.maxX - vb.minX)) (hbx : z.biasX = -vb.minX)
    (hsy : z.scaleY = dy / (vb.maxY - vb.minY)) (hby : z.biasY = -vb.minY)
    (hx : vb.minX < vb.maxX) (hy : vb.minY < vb.maxY) :
    T z ⟨vb.minX, vb.minY⟩ = ⟨0, 0⟩ ∧ T z ⟨vb.maxX, vb.maxY⟩ = ⟨dx, dy⟩ :=
  GeomQ.T_corners z dx dy vb hsx hbx hsy hby hx hy

/-- `unabsX`/`unabsY` (used by relative arcs and gradients) invert `T` when the scale is non-zero. -/
theorem unabs_abs (z : Renderer ℚ ℚ) (hsx : z.scaleX ≠ 0) (hsy : z.scaleY ≠ 0) (p : Pt ℚ) :
    z.unabsX (T z p).x = p.x ∧ z.unabsY (T z p).y = p.y := GeomQ.unabs_abs z hsx hsy p

/-! ## one drawing call -/

/-- Clauses "absolute operations map points, relative operations are offsets from the current pen, H/V keep
    the other coordinate, smooth operations use the reflection …, close-and-move operations close the sub-path
    before moving (relative moves being relative to the sub-path start)": for EVERY non-arc drawing call `c`
    (the sixteen verbs of `d1 d2 d4 d6`, including `Y`/`y`), an enabled renderer representing the
    specification state `s` makes exactly the rasteriser calls `toOp (T segment)` for the segments
    `Spec.Path.step s c` prescribes, ends in a state representing the specification's next state, and leaves
    the rest of its state (`frame`: target rectangle, transform, registers, selectors, paint, …) untouched. -/
theorem step_refines [SqrtQ] (arc : ArcFn ℚ ℚ) (posInf : ℚ) (z : Renderer ℚ ℚ) (s : State ℚ) (h : Inv z s)
    (c : Call ℚ) (hc : Spec.Path.isSeg c = true) :
    (z.step arc posInf c).2 = ((Spec.Path.step s c).2.map (Seg.map (T z))).map toOp ∧
    Inv (z.step arc posInf c).1 (Spec.Path.step s c).1 ∧
    frame (z.step arc posInf c).1 = frame z :=
  GeomQ.step_refines arc posInf z s h c hc

/-- … and for a whole arc-free sequence of drawing calls. -/
theorem run_refines [SqrtQ] (arc : ArcFn ℚ ℚ) (posInf : ℚ) (body : List (Call ℚ)) (z : Renderer ℚ ℚ)
    (s : State ℚ) (h : Inv z s) (hb : ∀ c ∈ body, Spec.Path.isSeg c = true) :
    (z.run arc posInf body).2 = ((Spec.Path.run s body).2.map (Seg.map (T z))).map toOp ∧
    Inv (z.run arc posInf body).1 (Spec.Path.run s body).1 ∧
    frame (z.run arc posInf body).1 = frame z :=
  GeomQ.run_refines arc posInf body z s h hb

/-- `StartPath` establishes the invariant: it either disables the renderer and draws nothing, or resets the
    rasteriser to the size of the target rectangle and moves to `T (x, y)`, the state then representing the
    start of a path at `(x, y)`. -/
theorem startPath_cases [SqrtQ] (z : Renderer ℚ ℚ) (adj : UInt8) (x y : ℚ) :
    ((z.startPath adj x y).1.disabled = true ∧ (z.startPath adj x y).2 = []) ∨
    ((z.startPath adj x y).1.disabled = false ∧
      (z.startPath adj x y).2 = [.reset z.r.dx z.r.dy, toOp (.move (T z ⟨x, y⟩))] ∧
      Inv (z.startPath adj x y).1 (Spec.Path.start ⟨x, y⟩) ∧
      (z.startPath adj x y).1.r = z.r ∧ T (z.startPath adj x y).1 = T z) :=
  GeomQ.startPath_cases z adj x y

/-! ## a whole path -/

/-- Headline (whole property at exact arithmetic, arcs excepted): an enabled path
    `StartPath(adj, x, y); body; ClosePathEndPath` with an arc-free `body` reaches the rasteriser as:
    `Reset` to the size of the target rectangle; then exactly the specification's segments of the path — the
    initial move, the body's segments, one final close (`Spec.Path.pathSegs`) — each point mapped by `T z`;
    then exactly ONE `Draw`, over the target rectangle `z.r`, with the paint `StartPath` selected. -/
theorem geometry_refines [SqrtQ] (arc : ArcFn ℚ ℚ) (posInf : ℚ) (z : Renderer ℚ ℚ) (adj : UInt8) (x y : ℚ)
    (body : List (Call ℚ)) (hbody : ∀ c ∈ body, Spec.Path.isSeg c = true)
    (hen : (z.startPath adj x y).1.disabled = false) :
    (z.run arc posInf (.startPath adj x y :: body ++ [.closeEnd])).2 =
      .reset z.r.dx z.r.dy ::
        ((Spec.Path.pathSegs x y body).map (Seg.map (T z))).map toOp ++
        [.draw z.r (z.startPath adj x y).1.fill] :=
  GeomQ.geometry_refines arc posInf z adj x y body hbody hen
-- non-vacuity: a renderer set up for a 64×64 target and the default viewBox is enabled by `StartPath 0`;
-- a body using a relative line, a smooth quadratic after a quadratic, and a relative close-and-move
example : ((((Renderer.zero (α := ℚ) (β := ℚ)).setRasterizer ⟨0, 0, 64, 64⟩).reset 100 ⟨-32, -32, 32, 32⟩
    defaultPalette).startPath 0 (-16) 8).1.disabled = false := GeomQ.example_enabled
example : ∀ c ∈ ([.d2 .l 3 4, .d4 .Q 1 2 3 4, .d2 .T 5 6, .d2 .y 1 1, .d1 .H 7] : List (Call ℚ)),
    Spec.Path.isSeg c = true := by decide
-- what the specification says for that body: the smooth quadratic's control point is the reflection
-- 2·(3,4) − (1,2) = (5,6) of the previous quadratic control point about the pen; the relative close-and-move
-- goes to start + (1,1)
example : (Spec.Path.run (Spec.Path.start (⟨-16, 8⟩ : Pt ℚ)) [.d4 .Q 1 2 3 4, .d2 .T 5 6, .d2 .y 1 1]).2 =
    [.quad ⟨1, 2⟩ ⟨3, 4⟩, .quad ⟨3 + (3 - 1), 4 + (4 - 2)⟩ ⟨5, 6⟩, .close, .move ⟨-16 + 1, 8 + 1⟩] := rfl

/-! ## structure, for every number type -/
section generic
variable {α β : Type} [Arith α] [Arith β] [Wide α β]

/-- For every number type an enabled renderer makes, for each non-arc drawing call, rasteriser calls of exactly
    the kinds the specification prescribes (one line / quadratic / cubic, or a close followed by a move). -/
theorem step_kinds (arc : ArcFn α β) (posInf : α) (z : Renderer α β) (s : State α) (hen : z.disabled = false)
    (c : Call α) (hc : Spec.Path.isSeg c = true) :
    (z.step arc posInf c).2.map opKind = (Spec.Path.step s c).2.map segKind :=
  GeomQ.step_kinds arc posInf z s hen c hc

/-- For every number type a disabled renderer makes no rasteriser call. -/
theorem step_disabled (arc : ArcFn α β) (posInf : α) (z : Renderer α β) (hd : z.disabled = true)
    (c : Call α) (hc : Spec.Path.isSeg c = true ∨ c = .closeEnd) : (z.step arc posInf c).2 = [] :=
  GeomQ.step_disabled arc posInf z hd c hc

/-- Clause "close-and-move operations close the sub-path before moving (relative moves being relative to the
    sub-path start)", for every number type: the relative form moves to `start + scale·offset` — `ClosePath`
    has put the pen at the sub-path start before the offset is added. -/
theorem closeMove_generic (arc : ArcFn α β) (posInf : α) (z : Renderer α β) (hen : z.disabled = false) (x y : α) :
    (z.step arc posInf (.d2 .y x y)).2 =
      [.closePath, .moveTo (z.firstX + z.scaleX * x) (z.firstY + z.scaleY * y)] ∧
    (z.step arc posInf (.d2 .Y x y)).2 =
      [.closePath, .moveTo (z.scaleX * (x + z.biasX)) (z.scaleY * (y + z.biasY))] :=
  GeomQ.closeMove_generic arc posInf z hen x y

/-- Clause "the path is closed and drawn exactly once, over the target rectangle, when it ends", for every
    number type. -/
theorem closeEnd_generic (arc : ArcFn α β) (posInf : α) (z : Renderer α β) (hen : z.disabled = false) :
    (z.step arc posInf .closeEnd).2 = [.closePath, .draw z.r z.fill] :=
  GeomQ.closeEnd_generic arc posInf z hen
end generic

/-!
## Not proved in this file

* Arcs (`Call.arc`): they are a parameter of the model (`ArcFn`) and are the subject of another property;
  `geometry_refines` is for arc-free bodies.
* Rounding: at float32 `T` is computed as `scaleX * (x + biasX)` with two roundings, relative operations
  add a rounded `scaleX * dx` to the rounded pen, and the reflection is `2*pen − prev` in float32; only the
  structural theorems (`step_kinds`, `step_disabled`, `closeMove_generic`, `closeEnd_generic`) are proved there.
* That the calls reach the renderer in this order from an encoded icon (decoder) is C04/C06; which paint
  `StartPath` selects and when it disables the renderer is C13/C14.
-/

end Ivg.Props.C05

#obligations C05 [Ivg.Props.C05.transform_after_reset,
  Ivg.Props.C05.T_closed,
  Ivg.Props.C05.T_after_reset,
  Ivg.Props.C05.T_corners,
  Ivg.Props.C05.unabs_abs,
  Ivg.Props.C05.step_refines,
  Ivg.Props.C05.run_refines,
  Ivg.Props.C05.startPath_cases,
  Ivg.Props.C05.geometry_refines,
  Ivg.Props.C05.step_kinds,
  Ivg.Props.C05.step_disabled,
  Ivg.Props.C05.closeMove_generic,
  Ivg.Props.C05.closeEnd_generic,
  Ivg.Gen.Tie.renderer_fields_tie,
  Ivg.Gen.Tie.gradient_fields_tie,
  Ivg.Gen.Tie.viewBox_fields_tie]
