import Ivg.Lemmas.GeomQ
import Ivg.Lemmas.RenderHistQ
import Ivg.Lemmas.Geom32c
import Ivg.Gen.Tie.GradientFields
import Ivg.Gen.Tie.RendererFields
import Ivg.Gen.Tie.MiscFields
import Ivg.Gen.Tie.LoggerForwards
import Ivg.Gen.Tie.Code.Draw
import Ivg.Gen.Tie.Code.Transform
import Ivg.Gen.Tie.Code.RenderRegs
import Ivg.Gen.Tie.Code.Logger
import Ivg.Gen.Tie.Code.Retarget
import Ivg.Gen.Tie.Code.Paint
import Ivg.Obligations
/-!
# C05 — drawing operations reach the rasteriser as the right segments, affinely mapped

Property text: "Every drawn path reaches the rasteriser as the same sequence of move/line/quadratic/cubic
segments as its drawing operations, each coordinate mapped by the affine map that takes the viewBox onto the
target rectangle (independent x and y scale): absolute operations map points, relative operations are offsets
from the current pen, H/V keep the other coordinate, smooth operations use the reflection of the previous
same-degree control point about the pen (or the pen itself when the previous operation was of another kind),
close-and-move operations close the sub-path before moving (relative moves being relative to the sub-path
start), and the path is closed and drawn exactly once, over the target rectangle, when it ends."

Model: `Ivg/Model/Renderer.lean` (Go: `/repo/render/render.go`, with the pen contract of
`golang.org/x/image/vector`).  Specification: `Ivg/Spec/Path.lean` — SVG path semantics in viewBox space
(`Spec.Path.step`, `Spec.Path.pathSegs`), written from the text above.  The refinement theorems are about
the model instantiated at EXACT arithmetic (`ℚ`); the structural theorems hold for every number type; the
section "float32" bounds the rounding error of the `F32` instance against the exact affine map.
`GeomQ.T z` is the renderer's affine map `(x, y) ↦ (scaleX·(x + biasX), scaleY·(y + biasY))`;
`GeomQ.toOp` turns a specification segment into the corresponding rasteriser call;
`GeomQ.Inv z s` says the renderer state `z` (enabled) represents the specification state `s`:
pen = `T s.pen`, sub-path start = `T s.start`, and the smooth-point bookkeeping (`prevSmoothType`, point) is
`T` of the specification's last control point of that degree.
-/
namespace Ivg.Props.C05
open Ivg Ren GeomQ
open Ivg.Spec.Path (Pt Seg Ctrl State)

/-! ## the affine map -/

/-- Clause "the affine map that takes the viewBox onto the target rectangle (independent x and y scale)",
    part 1: after `SetRasterizer r` (non-empty) and `Reset vb`, the transform fields are those of `vb`, `r`. -/
theorem transform_after_reset [SqrtQ] (z0 : Renderer ℚ ℚ) (r : Rect) (posInf : ℚ) (vb : ViewBox ℚ)
    (pal : Palette) (hr : r.empty = false) :
    let z := (z0.setRasterizer r).reset posInf vb pal
    z.r = r ∧ z.viewBox = vb ∧
    z.scaleX = (r.dx : ℚ) / (vb.maxX - vb.minX) ∧ z.biasX = -vb.minX ∧
    z.scaleY = (r.dy : ℚ) / (vb.maxY - vb.minY) ∧ z.biasY = -vb.minY :=
  GeomQ.transform_after_reset z0 r posInf vb pal hr
example : (⟨0, 0, 64, 48⟩ : Rect).empty = false := by decide

/-- … part 2: then `T` is `x ↦ dx·(x − minX)/(maxX − minX)`, `y ↦ dy·(y − minY)/(maxY − minY)` … -/
theorem T_closed (z : Renderer ℚ ℚ) (dx dy : ℚ) (vb : ViewBox ℚ)
    (hsx : z.scaleX = dx / (vb.maxX - vb.minX)) (hbx : z.biasX = -vb.minX)
    (hsy : z.scaleY = dy / (vb.maxY - vb.minY)) (hby : z.biasY = -vb.minY) (p : Pt ℚ) :
    T z p = ⟨dx * (p.x - vb.minX) / (vb.maxX - vb.minX), dy * (p.y - vb.minY) / (vb.maxY - vb.minY)⟩ :=
  GeomQ.T_closed z dx dy vb hsx hbx hsy hby p

/-- … parts 1 and 2 together. -/
theorem T_after_reset [SqrtQ] (z0 : Renderer ℚ ℚ) (r : Rect) (posInf : ℚ) (vb : ViewBox ℚ) (pal : Palette)
    (hr : r.empty = false) (p : Pt ℚ) :
    T ((z0.setRasterizer r).reset posInf vb pal) p =
      ⟨(r.dx : ℚ) * (p.x - vb.minX) / (vb.maxX - vb.minX), (r.dy : ℚ) * (p.y - vb.minY) / (vb.maxY - vb.minY)⟩ :=
  GeomQ.T_after_reset z0 r posInf vb pal hr p

/-- … part 3: which maps the viewBox's corners to the corners `(0,0)`, `(dx,dy)` of the target rectangle. -/
theorem T_corners (z : Renderer ℚ ℚ) (dx dy : ℚ) (vb : ViewBox ℚ)
    (hsx : z.scaleX = dx / (vb.maxX - vb.minX)) (hbx : z.biasX = -vb.minX)
    (hsy : z.scaleY = dy / (vb.maxY - vb.minY)) (hby : z.biasY = -vb.minY)
    (hx : vb.minX < vb.maxX) (hy : vb.minY < vb.maxY) :
    T z ⟨vb.minX, vb.minY⟩ = ⟨0, 0⟩ ∧ T z ⟨vb.maxX, vb.maxY⟩ = ⟨dx, dy⟩ :=
  GeomQ.T_corners z dx dy vb hsx hbx hsy hby hx hy

/-- `unabsX`/`unabsY` (used by relative arcs and gradients) invert `T` when the scale is non-zero. -/
theorem unabs_abs (z : Renderer ℚ ℚ) (hsx : z.scaleX ≠ 0) (hsy : z.scaleY ≠ 0) (p : Pt ℚ) :
    z.unabsX (T z p).x = p.x ∧ z.unabsY (T z p).y = p.y := GeomQ.unabs_abs z hsx hsy p

/-! ## one drawing call -/

/-- Clauses "absolute operations map points, relative operations are offsets from the current pen, H/V keep
    the other coordinate, smooth operations use the reflection …, close-and-move operations close the sub-path
    before moving (relative moves being relative to the sub-path start)": for EVERY non-arc drawing call `c`
    (the sixteen verbs of `d1 d2 d4 d6`, including `Y`/`y`), an enabled renderer representing the
    specification state `s` makes exactly the rasteriser calls `toOp (T segment)` for the segments
    `Spec.Path.step s c` prescribes, ends in a state representing the specification's next state, and leaves
    the rest of its state (`frame`: target rectangle, transform, registers, selectors, paint, …) untouched. -/
theorem step_refines [SqrtQ] (arc : ArcFn ℚ ℚ) (posInf : ℚ) (z : Renderer ℚ ℚ) (s : State ℚ) (h : Inv z s)
    (c : Call ℚ) (hc : Spec.Path.isSeg c = true) :
    (z.step arc posInf c).2 = ((Spec.Path.step s c).2.map (Seg.map (T z))).map toOp ∧
    Inv (z.step arc posInf c).1 (Spec.Path.step s c).1 ∧
    frame (z.step arc posInf c).1 = frame z :=
  GeomQ.step_refines arc posInf z s h c hc

/-- … and for a whole arc-free sequence of drawing calls. -/
theorem run_refines [SqrtQ] (arc : ArcFn ℚ ℚ) (posInf : ℚ) (body : List (Call ℚ)) (z : Renderer ℚ ℚ)
    (s : State ℚ) (h : Inv z s) (hb : ∀ c ∈ body, Spec.Path.isSeg c = true) :
    (z.run arc posInf body).2 = ((Spec.Path.run s body).2.map (Seg.map (T z))).map toOp ∧
    Inv (z.run arc posInf body).1 (Spec.Path.run s body).1 ∧
    frame (z.run arc posInf body).1 = frame z :=
  GeomQ.run_refines arc posInf body z s h hb

/-- `StartPath` establishes the invariant: it either disables the renderer and draws nothing, or resets the
    rasteriser to the size of the target rectangle and moves to `T (x, y)`, the state then representing the
    start of a path at `(x, y)`. -/
theorem startPath_cases [SqrtQ] (z : Renderer ℚ ℚ) (adj : UInt8) (x y : ℚ) :
    ((z.startPath adj x y).1.disabled = true ∧ (z.startPath adj x y).2 = []) ∨
    ((z.startPath adj x y).1.disabled = false ∧
      (z.startPath adj x y).2 = [.reset z.r.dx z.r.dy, toOp (.move (T z ⟨x, y⟩))] ∧
      Inv (z.startPath adj x y).1 (Spec.Path.start ⟨x, y⟩) ∧
      (z.startPath adj x y).1.r = z.r ∧ T (z.startPath adj x y).1 = T z) :=
  GeomQ.startPath_cases z adj x y

/-! ## a whole path -/

/-- Headline (whole property at exact arithmetic, arcs excepted): an enabled path
    `StartPath(adj, x, y); body; ClosePathEndPath` with an arc-free `body` reaches the rasteriser as:
    `Reset` to the size of the target rectangle; then exactly the specification's segments of the path — the
    initial move, the body's segments, one final close (`Spec.Path.pathSegs`) — each point mapped by `T z`;
    then exactly ONE `Draw`, over the target rectangle `z.r`, with the paint `StartPath` selected. -/
theorem geometry_refines [SqrtQ] (arc : ArcFn ℚ ℚ) (posInf : ℚ) (z : Renderer ℚ ℚ) (adj : UInt8) (x y : ℚ)
    (body : List (Call ℚ)) (hbody : ∀ c ∈ body, Spec.Path.isSeg c = true)
    (hen : (z.startPath adj x y).1.disabled = false) :
    (z.run arc posInf (.startPath adj x y :: body ++ [.closeEnd])).2 =
      .reset z.r.dx z.r.dy ::
        ((Spec.Path.pathSegs x y body).map (Seg.map (T z))).map toOp ++
        [.draw z.r (z.startPath adj x y).1.fill] :=
  GeomQ.geometry_refines arc posInf z adj x y body hbody hen
-- non-vacuity: a renderer set up for a 64×64 target and the default viewBox is enabled by `StartPath 0`;
-- a body using a relative line, a smooth quadratic after a quadratic, and a relative close-and-move
example : ((((Renderer.zero (α := ℚ) (β := ℚ)).setRasterizer ⟨0, 0, 64, 64⟩).reset 100 ⟨-32, -32, 32, 32⟩
    defaultPalette).startPath 0 (-16) 8).1.disabled = false := GeomQ.example_enabled
example : ∀ c ∈ ([.d2 .l 3 4, .d4 .Q 1 2 3 4, .d2 .T 5 6, .d2 .y 1 1, .d1 .H 7] : List (Call ℚ)),
    Spec.Path.isSeg c = true := by decide
-- what the specification says for that body: the smooth quadratic's control point is the reflection
-- 2·(3,4) − (1,2) = (5,6) of the previous quadratic control point about the pen; the relative close-and-move
-- goes to start + (1,1)
example : (Spec.Path.run (Spec.Path.start (⟨-16, 8⟩ : Pt ℚ)) [.d4 .Q 1 2 3 4, .d2 .T 5 6, .d2 .y 1 1]).2 =
    [.quad ⟨1, 2⟩ ⟨3, 4⟩, .quad ⟨3 + (3 - 1), 4 + (4 - 2)⟩ ⟨5, 6⟩, .close, .move ⟨-16 + 1, 8 + 1⟩] := rfl

/-! ## structure, for every number type -/
section generic
variable {α β : Type} [Arith α] [Arith β] [Wide α β]

/-- For every number type an enabled renderer makes, for each non-arc drawing call, rasteriser calls of exactly
    the kinds the specification prescribes (one line / quadratic / cubic, or a close followed by a move). -/
theorem step_kinds (arc : ArcFn α β) (posInf : α) (z : Renderer α β) (s : State α) (hen : z.disabled = false)
    (c : Call α) (hc : Spec.Path.isSeg c = true) :
    (z.step arc posInf c).2.map opKind = (Spec.Path.step s c).2.map segKind :=
  GeomQ.step_kinds arc posInf z s hen c hc

/-- For every number type a disabled renderer makes no rasteriser call. -/
theorem step_disabled (arc : ArcFn α β) (posInf : α) (z : Renderer α β) (hd : z.disabled = true)
    (c : Call α) (hc : Spec.Path.isSeg c = true ∨ c = .closeEnd) : (z.step arc posInf c).2 = [] :=
  GeomQ.step_disabled arc posInf z hd c hc

/-- Clause "close-and-move operations close the sub-path before moving (relative moves being relative to the
    sub-path start)", for every number type: the relative form moves to `start + scale·offset` — `ClosePath`
    has put the pen at the sub-path start before the offset is added. -/
theorem closeMove_generic (arc : ArcFn α β) (posInf : α) (z : Renderer α β) (hen : z.disabled = false) (x y : α) :
    (z.step arc posInf (.d2 .y x y)).2 =
      [.closePath, .moveTo (z.firstX + z.scaleX * x) (z.firstY + z.scaleY * y)] ∧
    (z.step arc posInf (.d2 .Y x y)).2 =
      [.closePath, .moveTo (z.scaleX * (x + z.biasX)) (z.scaleY * (y + z.biasY))] :=
  GeomQ.closeMove_generic arc posInf z hen x y

/-- Clause "the path is closed and drawn exactly once, over the target rectangle, when it ends", for every
    number type. -/
theorem closeEnd_generic (arc : ArcFn α β) (posInf : α) (z : Renderer α β) (hen : z.disabled = false) :
    (z.step arc posInf .closeEnd).2 = [.closePath, .draw z.r z.fill] :=
  GeomQ.closeEnd_generic arc posInf z hen
end generic


/-! ## histories of a reused Renderer: `SetRasterizer` between graphics and between paths

`RenOp α` is a Destination call or `SetRasterizer(_, r)` (`Ivg/Lemmas/RenderHist.lean`); `z.runOps` runs a
history.  The theorems above are about ONE `SetRasterizer` followed by ONE `Reset`; these are about every
state a history reaches, from ANY initial state. -/
section histories
open Ivg.RenderHist Ivg.RenderHistQ Ivg.Lemmas.RendererVM
variable {α β : Type} [Arith α] [Arith β] [Wide α β]

/-- Clause "the affine map that takes the viewBox onto the target rectangle", as an invariant of the
    Renderer's life, for every number type: `TransformOK z` says the four transform fields are
    `recalcTransform` of the CURRENT rectangle and viewBox.  It holds after `SetRasterizer` and after `Reset`
    whatever the state was, every other call preserves it — so it holds in every state reached by a history
    that contains at least one `SetRasterizer` or `Reset`, from any initial state. -/
theorem transform_invariant (arc : ArcFn α β) (posInf : α) (z0 : Renderer α β) (h : List (RenOp α))
    (hs : h.any settles = true) : TransformOK (z0.runOps arc posInf h).1 :=
  transformOK_of_settled arc posInf h z0 hs
example : [RenOp.call (.setCSel 1 : Call Num.F32), .rast ⟨0, 0, 8, 8⟩, .call .closeEnd].any settles = true := rfl
/-- the zero value itself does not satisfy it at float32 (`0/0` is NaN, `-0 ≠ +0`) — one `SetRasterizer` or
    `Reset` is needed — although it does at exact arithmetic -/
example : ¬ TransformOK (Renderer.zero : Renderer Num.F32 Num.F64) := RenderHist.Ex.zero_not_transformOK
example : TransformOK (Renderer.zero : Renderer ℚ ℚ) := RenderHistQ.Ex.zero_transformOK

/-- … its three ingredients: established by `SetRasterizer`, established by `Reset`, preserved by every
    Destination call (any arc implementation). -/
theorem transform_invariant_steps (arc : ArcFn α β) (posInf : α) (z : Renderer α β) :
    (∀ r, TransformOK (z.setRasterizer r)) ∧ (∀ vb pal, TransformOK (z.reset posInf vb pal)) ∧
    (∀ c, TransformOK z → TransformOK (z.step arc posInf c).1) :=
  ⟨transformOK_setRasterizer z, transformOK_reset z posInf, fun c hz => transformOK_step arc posInf z c hz⟩

/-- … explicitly: in such a state the rectangle is the (normalised) one of the LAST `SetRasterizer`
    (`rectAfter`), the viewBox the one of the LAST `Reset` (`viewBoxAfter`), and scale and bias are those of
    exactly these two. -/
theorem transform_of_history (arc : ArcFn α β) (posInf : α) (z0 : Renderer α β) (h : List (RenOp α))
    (hs : h.any settles = true) :
    let z := (z0.runOps arc posInf h).1
    let R := rectAfter z0.r h
    let vb := viewBoxAfter z0.viewBox h
    z.r = R ∧ z.viewBox = vb ∧
    z.scaleX = Arith.ofInt R.dx / (vb.maxX - vb.minX) ∧ z.biasX = -vb.minX ∧
    z.scaleY = Arith.ofInt R.dy / (vb.maxY - vb.minY) ∧ z.biasY = -vb.minY :=
  RenderHist.transform_of_history arc posInf z0 h hs

/-- `setRasterizer_transform`: after ANY history `h`, `SetRasterizer r` and any calls other than `Reset`
    (styling, whole paths), the map used for the geometry that follows is the one of `r` and of the viewBox
    of the last `Reset` — e.g. the same icon re-rendered at a new size is not drawn with the old scale. -/
theorem setRasterizer_transform (arc : ArcFn α β) (posInf : α) (z0 : Renderer α β) (h : List (RenOp α))
    (r : Rect) (cs : List (Call α)) (hcs : ∀ c ∈ cs, isReset c = false) :
    let z := (z0.runOps arc posInf (h ++ .rast r :: cs.map .call)).1
    let vb := viewBoxAfter z0.viewBox h
    z.r = Rect.norm r ∧ z.viewBox = vb ∧
    z.scaleX = Arith.ofInt (Rect.norm r).dx / (vb.maxX - vb.minX) ∧ z.biasX = -vb.minX ∧
    z.scaleY = Arith.ofInt (Rect.norm r).dy / (vb.maxY - vb.minY) ∧ z.biasY = -vb.minY :=
  RenderHist.setRasterizer_transform arc posInf z0 h r cs hcs
example : ∀ c ∈ RenderHistQ.Ex.load, isReset c = false := RenderHistQ.Ex.load_noReset

/-- … and after `Reset vb` following any history: the map of `vb` and of the rectangle of the last
    `SetRasterizer`, also when `vb` is the viewBox the Renderer already had. -/
theorem reset_transform (arc : ArcFn α β) (posInf : α) (z0 : Renderer α β) (h : List (RenOp α))
    (vb : ViewBox α) (pal : Palette) (cs : List (Call α)) (hcs : ∀ c ∈ cs, isReset c = false) :
    let z := (z0.runOps arc posInf (h ++ .call (.reset vb pal) :: cs.map .call)).1
    let R := rectAfter z0.r h
    z.r = R ∧ z.viewBox = vb ∧
    z.scaleX = Arith.ofInt R.dx / (vb.maxX - vb.minX) ∧ z.biasX = -vb.minX ∧
    z.scaleY = Arith.ofInt R.dy / (vb.maxY - vb.minY) ∧ z.biasY = -vb.minY :=
  RenderHist.reset_transform arc posInf z0 h vb pal cs hcs

/-- Clause "drawn exactly once, over the target rectangle", over histories (`draw_uses_current_rect`), for
    every number type and every arc implementation that only adds segments: after ANY history and
    `SetRasterizer r`, whatever calls follow until the next `SetRasterizer`, every `Draw` is over `r`
    (normalised as `SetRasterizer` does) and every `Reset` of the rasteriser has the size of `r`
    (`OverRect`) — never a rectangle used earlier, also when the new one has the same size. -/
theorem draw_uses_current_rect (arc : ArcFn α β) (hArc : ArcPure arc) (posInf : α) (z0 : Renderer α β)
    (h : List (RenOp α)) (r : Rect) (cs : List (Call α)) :
    (z0.runOps arc posInf (h ++ .rast r :: cs.map .call)).2 =
      (z0.runOps arc posInf h).2 ++ (((z0.runOps arc posInf h).1.setRasterizer r).run arc posInf cs).2 ∧
    ∀ op ∈ (((z0.runOps arc posInf h).1.setRasterizer r).run arc posInf cs).2, OverRect (Rect.norm r) op :=
  RenderHist.draw_uses_current_rect arc hArc posInf z0 h r cs
example : ArcPure arcF32 := arcF32_pure

/-- … for one path `StartPath … ClosePathEndPath` started after `SetRasterizer r` (any history before, any
    calls in between): no rasteriser call at all, or `Reset` to the size of `r`, `MoveTo`, segments,
    `ClosePath` and ONE `Draw` over `r`. -/
theorem path_after_rast (arc : ArcFn α β) (hArc : ArcPure arc) (posInf : α) (z0 : Renderer α β)
    (h : List (RenOp α)) (r : Rect) (cs : List (Call α))
    (adj : UInt8) (x y : α) (segs : List (Call α)) (hs : ∀ s ∈ segs, isSegment s = true) :
    let z := (z0.runOps arc posInf (h ++ .rast r :: cs.map .call)).1
    let out := (z.run arc posInf (.startPath adj x y :: (segs ++ [.closeEnd]))).2
    z.r = Rect.norm r ∧
    (((Ivg.Lemmas.RendererVM.absVM z).paintChoice (Rect.norm r).dy adj = none ∧ out = []) ∨
     ∃ p mid, (Ivg.Lemmas.RendererVM.absVM z).paintChoice (Rect.norm r).dy adj = some p ∧
      (∀ op ∈ mid, isPathOp op = true) ∧
      out = .reset (Rect.norm r).dx (Rect.norm r).dy :: .moveTo (z.absX x) (z.absY y) ::
        (mid ++ [.closePath, .draw (Rect.norm r) (realise z p)])) :=
  RenderHist.path_after_rast arc hArc posInf z0 h r cs adj x y segs hs
set_option maxRecDepth 100000 in
/-- the model run on a concrete life (24×24 outside the LOD range; 48×48 set between two paths; the same
    size at another origin; the same icon again at 24×24): `Draw`s over the current rectangles, rasteriser
    `Reset` to their sizes, start point mapped with the current scale (x = 24, 24, 12) -/
example :
    let out := ((Renderer.zero : Renderer Num.F32 Num.F64).runOps arcF32 Ex.posInf RenderHist.Ex.hist).2
    (drawsOf out).map (·.1) = [⟨0, 0, 48, 48⟩, ⟨100, 100, 148, 148⟩, ⟨0, 0, 24, 24⟩] ∧
    RenderHist.Ex.resetSizes out = [(48, 48), (48, 48), (24, 24)] ∧
    RenderHist.Ex.moveXs out = [Ex.n 24, Ex.n 24, Ex.n 12] := RenderHist.Ex.hist_run

/-- At exact arithmetic: after ANY history `h`, `SetRasterizer r` and calls other than `Reset`, the
    renderer's map `T` is `Tof (norm r) vb : (x, y) ↦ (dx·(x − minX)/(maxX − minX), dy·(y − minY)/(maxY − minY))`
    for the size of `r` and the viewBox `vb` of the last `Reset` in `h`. -/
theorem T_after_rast [SqrtQ] (arc : ArcFn ℚ ℚ) (posInf : ℚ) (z0 : Renderer ℚ ℚ) (h : List (RenOp ℚ)) (r : Rect)
    (cs : List (Call ℚ)) (hcs : ∀ c ∈ cs, isReset c = false) :
    T (z0.runOps arc posInf (h ++ .rast r :: cs.map .call)).1 = Tof (Rect.norm r) (viewBoxAfter z0.viewBox h) :=
  RenderHistQ.T_after_rast arc posInf z0 h r cs hcs

/-- … and after `Reset vb` following any history. -/
theorem T_after_reset_hist [SqrtQ] (arc : ArcFn ℚ ℚ) (posInf : ℚ) (z0 : Renderer ℚ ℚ) (h : List (RenOp ℚ))
    (vb : ViewBox ℚ) (pal : Palette) (cs : List (Call ℚ)) (hcs : ∀ c ∈ cs, isReset c = false) :
    T (z0.runOps arc posInf (h ++ .call (.reset vb pal) :: cs.map .call)).1 = Tof (rectAfter z0.r h) vb :=
  RenderHistQ.T_after_reset_hist arc posInf z0 h vb pal cs hcs

/-- **Headline over histories** (whole property at exact arithmetic, arcs excepted): an enabled arc-free
    path that starts after ANY history `h`, `SetRasterizer r` and calls `cs` other than `Reset` adds to the
    rasteriser traffic exactly: `Reset` to the size of `r`; the specification's segments mapped by the affine
    map of `r` and of the viewBox of the last `Reset`; one `Draw` over `r` with the paint `StartPath` chose. -/
theorem geometry_after_rast [SqrtQ] (arc : ArcFn ℚ ℚ) (posInf : ℚ) (z0 : Renderer ℚ ℚ) (h : List (RenOp ℚ))
    (r : Rect) (cs : List (Call ℚ)) (hcs : ∀ c ∈ cs, isReset c = false) (adj : UInt8) (x y : ℚ)
    (body : List (Call ℚ)) (hbody : ∀ c ∈ body, Spec.Path.isSeg c = true)
    (hen : ((z0.runOps arc posInf (h ++ .rast r :: cs.map .call)).1.startPath adj x y).1.disabled = false) :
    (z0.runOps arc posInf (h ++ .rast r :: (cs ++ (Call.startPath adj x y :: body ++ [Call.closeEnd])).map .call)).2 =
      (z0.runOps arc posInf (h ++ .rast r :: cs.map .call)).2 ++
      (.reset (Rect.norm r).dx (Rect.norm r).dy ::
        ((Spec.Path.pathSegs x y body).map (Seg.map (Tof (Rect.norm r) (viewBoxAfter z0.viewBox h)))).map toOp ++
        [.draw (Rect.norm r) ((z0.runOps arc posInf (h ++ .rast r :: cs.map .call)).1.startPath adj x y).1.fill]) :=
  RenderHistQ.geometry_after_rast arc posInf z0 h r cs hcs adj x y body hbody hen
-- non-vacuity: an icon drawn at 64×64, then (same Renderer) `SetRasterizer` to 128×32 at (5,7), register
-- loads, and a path that is enabled
example : (((Renderer.zero (α := ℚ) (β := ℚ)).runOps RenderHistQ.Ex.noArc 100
    (RenderHistQ.Ex.hist ++ .rast ⟨5, 7, 133, 39⟩ :: RenderHistQ.Ex.load.map .call)).1.startPath 0 0 0).1.disabled = false :=
  RenderHistQ.Ex.gradient_path_enabled.1

end histories

/-! ## float32: explicit rounding-error bounds for the transform

The theorems above are exact (`ℚ`) or structural.  This section is about the model instantiated at the
soft-float `F32` (bit-exact with Go's float32), in the standard model of `Ivg/Lemmas/FloatErr.lean`:
`u = 2^-24` is the unit roundoff, `minN = 2^-126` the smallest normal number, `maxv` the largest finite one,
`val a : ℚ` the value of a finite float, `Fn a` finiteness.  Proofs: `Ivg/Lemmas/Geom32.lean` (one axis),
`Geom32b.lean` (the Renderer model), `Geom32c.lean` (runs of relative operations, concrete instances).

`Geom32.axX z`, `axY z : Axis` are the data of one axis (`lo`, `hi`: the viewBox bounds; `d`: the side of the
target rectangle); `a.s = d/(hi − lo)` is the EXACT scale and `a.map x = a.s·(x − lo)` the exact affine map
(a coordinate of `Tof`: `f32_map_eq_Tof`).  Constants: `g2 = 2u/(1−u)`, `g3 = (1+u)²/(1−u) − 1`,
`g4 = (1+u)³/(1−u) − 1`; `f32_constants`: `g2 ≤ 2u + 3u²`, `g4 ≤ 4u + 8u² ≤ 5u`.
Range hypotheses, stated of EXACT quantities: `a.InRange` — finite bounds, `|d| < 2^24` (`float32(d)` exact),
`|hi − lo| ≤ maxv`, `2·2^-126 ≤ |s| ≤ maxv/2`; `a.CoordOK x` — `x` finite, `|x − lo| ≤ maxv`,
`|s·(x − lo)| ≤ maxv/2`; `a.OffOK pen x` — finite, `|pen| + |s·x| ≤ maxv/2`.  They exclude overflow only;
a product below the normal range contributes the explicit absolute term `u·minN = 2^-150`.
`f32_range_simple` gives a simple sufficient condition.  `TransformOK z` (the transform fields are
`recalcTransform` of the current rectangle and viewBox) holds in every state reached after a `SetRasterizer`
or `Reset` (`transform_invariant`).

What the analysis shows: a mapped ABSOLUTE coordinate has a small RELATIVE error (`g4 ≈ 4u`) with respect to
its own exact image `s·(x − min)` — not merely with respect to the larger of the mapped coordinate and the
mapped viewBox origin.  There is no cancellation problem in `x + bias` even when the viewBox is far from the
origin, because `x` and `bias = −min` are exact inputs of that single addition (the weaker
`C·u·|s|·(|x| + |min|)` form, `C = 5`, is `f32_abs_err_mag`).  Cancellation does matter where ROUNDED
quantities are subtracted or added: relative operations (error relative to `|pen| + |s·x|`, accumulating
additively) and the smooth reflection `2·pen − prev`.  No input in range was found whose float image is
further than these few units in the last place from the exact one.
-/
section float32
open Ivg.Num Ivg.FloatMono32 Ivg.FloatErr Ivg.Geom32
open Ivg.RenderHist Ivg.RenderHistQ Ivg.Lemmas.RendererVM

/-- The constants of the bounds below, against multiples of `u = 2^-24`. -/
theorem f32_constants : g2 ≤ 2 * u + 3 * u * u ∧ g3 ≤ 3 * u + 5 * u * u ∧ g4 ≤ 4 * u + 8 * u * u ∧
    g4 ≤ 5 * u ∧ u + g4 ≤ 6 * u := ⟨g2_le, g3_le, g4_le, g4_le5, Axis.six_u⟩

/-- A simple sufficient condition for the range hypotheses (`Axis.Simple`: finite viewBox bounds in
    `[−2^20, 2^20]`, extent at least `2^-20`, target side in `[1, 2^15]`): the axis is `InRange` (the exact scale
    then lies in `[2^-21, 2^35]`), every finite coordinate in `[−2^20, 2^20]` is `CoordOK`, every finite offset in
    `[−2^21, 2^21]` from a pen of magnitude at most `2^57` is `OffOK`. -/
theorem f32_range_simple (a : Axis) (h : a.Simple) :
    a.InRange ∧ (1 / 2097152 ≤ a.s ∧ a.s ≤ 34359738368) ∧
    (∀ x : F32, Fn x → |val x| ≤ 1048576 → a.CoordOK x) ∧
    (∀ pen x : F32, Fn pen → Fn x → |val pen| ≤ 144115188075855872 → |val x| ≤ 2097152 → a.OffOK pen x) :=
  ⟨h.inRange, h.s_bounds, fun _ fx hx => h.coordOK fx hx, fun _ _ fp fx hp hx => h.offOK fp fx hp hx⟩
-- non-vacuity: the viewBox [0,3] onto 100 pixels (exact scale 100/3, not a float)
example : Geom32.Ex.ax3.Simple := Geom32.Ex.ax3_simple

/-- The exact map of the float bounds is the affine map `Tof` of the exact theorems (`T_after_rast`,
    `geometry_after_rast`) for the viewBox read as rationals. -/
theorem f32_map_eq_Tof (z : Renderer F32 F64) (p : Pt ℚ) :
    Tof z.r (vbQ z.viewBox) p = ⟨(axX z).map p.x, (axY z).map p.y⟩ := by
  unfold Tof Axis.map Axis.s Axis.ext axX axY vbQ
  simp only
  congr 1 <;> ring

/-- Rounding, 1 (`scale_err`): in every state with `TransformOK` both scales are finite and within RELATIVE
    error `g2 = 2u/(1−u) ≤ 2u + 3u²` of the exact `dx/(maxX − minX)`, `dy/(maxY − minY)` — one rounding of the
    extent (no exception for gradual underflow: a difference of floats lies on the grid `2^-149·ℤ`), one of the
    quotient, `float32(dx)` exact — and the biases are EXACTLY `−minX`, `−minY`. -/
theorem f32_scale_err (z : Renderer F32 F64) (ht : TransformOK z) (hx : (axX z).InRange) (hy : (axY z).InRange) :
    (Fn z.scaleX ∧ |val z.scaleX - (axX z).s| ≤ g2 * |(axX z).s|) ∧
    (Fn z.scaleY ∧ |val z.scaleY - (axY z).s| ≤ g2 * |(axY z).s|) ∧
    (Fn z.biasX ∧ val z.biasX = - val z.viewBox.minX) ∧ (Fn z.biasY ∧ val z.biasY = - val z.viewBox.minY) :=
  Geom32.tr_err ht hx hy
-- non-vacuity: a fresh Renderer after `SetRasterizer` 48×48 and `Reset` with the viewBox [0,3]×[0,3]
example : TransformOK Geom32.Ex.z48 ∧ (axX Geom32.Ex.z48).InRange ∧ (axY Geom32.Ex.z48).InRange :=
  ⟨Geom32.Ex.z48_tr, by rw [Geom32.Ex.z48_axes.1]; exact Geom32.Ex.ax48_simple.inRange,
    by rw [Geom32.Ex.z48_axes.2]; exact Geom32.Ex.ax48_simple.inRange⟩

/-- … spelled out for `recalcTransform` (the last step of `SetRasterizer` and of `Reset`). -/
theorem f32_recalc_err (z : Renderer F32 F64) (hx : (axX z).InRange) (hy : (axY z).InRange) :
    (Fn z.recalcTransform.scaleX ∧
      |val z.recalcTransform.scaleX - (z.r.dx : ℚ) / (val z.viewBox.maxX - val z.viewBox.minX)| ≤
        g2 * |(z.r.dx : ℚ) / (val z.viewBox.maxX - val z.viewBox.minX)|) ∧
    (Fn z.recalcTransform.scaleY ∧
      |val z.recalcTransform.scaleY - (z.r.dy : ℚ) / (val z.viewBox.maxY - val z.viewBox.minY)| ≤
        g2 * |(z.r.dy : ℚ) / (val z.viewBox.maxY - val z.viewBox.minY)|) ∧
    (Fn z.recalcTransform.biasX ∧ val z.recalcTransform.biasX = - val z.viewBox.minX) ∧
    (Fn z.recalcTransform.biasY ∧ val z.recalcTransform.biasY = - val z.viewBox.minY) :=
  Geom32.recalc_err z hx hy

/-- … and when the exact extent `max − min` is itself a float (e.g. integer bounds), the subtraction is exact and
    the scale carries a single rounding: relative error `u`. -/
theorem f32_scale_err_exact (a : Axis) (h : a.InRange) (c : F32) (fc : Fn c) (hc : val c = val a.hi - val a.lo) :
    |val a.scale - a.s| ≤ u * |a.s| := Axis.scale_err_exact h c fc hc
example : Fn (Ex.n 3) ∧ val (Ex.n 3) = val Geom32.Ex.ax3.hi - val Geom32.Ex.ax3.lo := Geom32.Ex.ext_float
-- the scale of [0,3] → 100 pixels, bit for bit, and its value 8738133/2^18 = 33.3333320… against 100/3
example : Geom32.Ex.ax3.scale = ⟨0x42055555⟩ ∧ val Geom32.Ex.ax3.scale = 8738133 / 262144 ∧
    Geom32.Ex.ax3.s = 100 / 3 := ⟨Geom32.Ex.ax3_bits.1, Geom32.Ex.ax3_values.1, Geom32.Ex.ax3_s⟩

/-- Rounding, 2 (`absX_err`, strong form): a mapped coordinate `absX x = fl(scaleX · fl(x + biasX))` is finite
    and within RELATIVE error `g4 = (1+u)³/(1−u) − 1 ≤ 4u + 8u²` of its exact image `s·(x − minX)`, plus
    `u·2^-126 = 2^-150` (needed only when the product is below the normal range); same for `absY`. -/
theorem f32_abs_err (z : Renderer F32 F64) (ht : TransformOK z) (hax : (axX z).InRange) (hay : (axY z).InRange) :
    (∀ x, (axX z).CoordOK x →
      Fn (z.absX x) ∧ |val (z.absX x) - (axX z).map (val x)| ≤ g4 * |(axX z).map (val x)| + u * minN) ∧
    (∀ y, (axY z).CoordOK y →
      Fn (z.absY y) ∧ |val (z.absY y) - (axY z).map (val y)| ≤ g4 * |(axY z).map (val y)| + u * minN) :=
  ⟨fun _ hx => Geom32.absX_err (ax := axX z) (ay := axY z) ht hax hx,
   fun _ hy => Geom32.absY_err (ax := axX z) (ay := axY z) ht hay hy⟩
-- non-vacuity and a concrete instance: x = 0.1f = 0x3dcccccd on [0,3] → 100 pixels is mapped to 0x40555555 =
-- 3.33333325…; the exact image is 3.33333338…; the error 13/100663296 ≈ 1.3·10^-7 is 0.65u relative
example : Geom32.Ex.ax3.CoordOK Geom32.Ex.x01 := Geom32.Ex.x01_ok
example : Geom32.Ex.ax3.abs Geom32.Ex.x01 = ⟨0x40555555⟩ ∧
    val (Geom32.Ex.ax3.abs Geom32.Ex.x01) = 13981013 / 4194304 ∧
    Geom32.Ex.ax3.map (val Geom32.Ex.x01) = 335544325 / 100663296 :=
  ⟨Geom32.Ex.ax3_bits.2, Geom32.Ex.ax3_values.2.1, Geom32.Ex.ax3_values.2.2⟩

/-- Rounding, 2 (`absX_err`, the form with the operand magnitudes): if the mapped magnitude
    `|s|·(|x| + |minX|)` is not below the normal range, the absolute error of a mapped coordinate is at most
    `C·u·|s|·(|x| + |minX|)` with `C = 5`; same for `absY`.  (Weaker than `f32_abs_err` when `x` is close to
    `minX` relative to their magnitudes.) -/
theorem f32_abs_err_mag (z : Renderer F32 F64) (ht : TransformOK z) (hax : (axX z).InRange)
    (hay : (axY z).InRange) :
    (∀ x, (axX z).CoordOK x → minN ≤ |(axX z).s| * (|val x| + |val z.viewBox.minX|) →
      |val (z.absX x) - (axX z).s * (val x - val z.viewBox.minX)| ≤
        5 * u * (|(axX z).s| * (|val x| + |val z.viewBox.minX|))) ∧
    (∀ y, (axY z).CoordOK y → minN ≤ |(axY z).s| * (|val y| + |val z.viewBox.minY|) →
      |val (z.absY y) - (axY z).s * (val y - val z.viewBox.minY)| ≤
        5 * u * (|(axY z).s| * (|val y| + |val z.viewBox.minY|))) :=
  ⟨fun _ hx hn => Geom32.absX_err_mag (ax := axX z) (ay := axY z) ht hax hx hn,
   fun _ hy hn => Geom32.absY_err_mag (ax := axX z) (ay := axY z) ht hay hy hn⟩
example : minN ≤ |Geom32.Ex.ax3.s| * (|val Geom32.Ex.x01| + |val Geom32.Ex.ax3.lo|) := Geom32.Ex.mag_ok.1

/-- Rounding, 3 (`relVec_err`): a relative operation computes `relVecX x = fl(penX + fl(scaleX · x))`; against
    `penX + s·x` with the ACTUAL float pen and the EXACT scale the error is at most
    `u·|penX| + g4·|s·x| + 2u·2^-126`; same for `relVecY`. -/
theorem f32_relVec_err (z : Renderer F32 F64) (ht : TransformOK z) (hax : (axX z).InRange)
    (hay : (axY z).InRange) :
    (∀ x, (axX z).OffOK z.penX x → Fn (z.relVecX x) ∧
      |val (z.relVecX x) - (val z.penX + (axX z).s * val x)| ≤
        u * |val z.penX| + g4 * |(axX z).s * val x| + 2 * u * minN) ∧
    (∀ y, (axY z).OffOK z.penY y → Fn (z.relVecY y) ∧
      |val (z.relVecY y) - (val z.penY + (axY z).s * val y)| ≤
        u * |val z.penY| + g4 * |(axY z).s * val y| + 2 * u * minN) :=
  ⟨fun _ hx => Geom32.relVecX_err (ax := axX z) (ay := axY z) ht hax hx,
   fun _ hy => Geom32.relVecY_err (ax := axX z) (ay := axY z) ht hay hy⟩
example : Geom32.Ex.ax3.OffOK (Geom32.Ex.ax3.abs Geom32.Ex.x01) Geom32.Ex.x01 := Geom32.Ex.off_ok

/-- … in the form `C'·u·(|pen| + |s|·|x|)`, `C' = 5`, when that magnitude is not below the normal range. -/
theorem f32_relVec_err_mag (z : Renderer F32 F64) (ht : TransformOK z) (hax : (axX z).InRange)
    (hay : (axY z).InRange) :
    (∀ x, (axX z).OffOK z.penX x → minN ≤ |val z.penX| + |(axX z).s| * |val x| →
      |val (z.relVecX x) - (val z.penX + (axX z).s * val x)| ≤ 5 * u * (|val z.penX| + |(axX z).s| * |val x|)) ∧
    (∀ y, (axY z).OffOK z.penY y → minN ≤ |val z.penY| + |(axY z).s| * |val y| →
      |val (z.relVecY y) - (val z.penY + (axY z).s * val y)| ≤ 5 * u * (|val z.penY| + |(axY z).s| * |val y|)) :=
  ⟨fun _ hx hn => Geom32.relVecX_err_mag (ax := axX z) (ay := axY z) ht hax hx hn,
   fun _ hy hn => Geom32.relVecY_err_mag (ax := axX z) (ay := axY z) ht hay hy hn⟩
example : minN ≤ |val (Geom32.Ex.ax3.abs Geom32.Ex.x01)| + |Geom32.Ex.ax3.s| * |val Geom32.Ex.x01| :=
  Geom32.Ex.mag_ok.2

/-- Rounding, 4 (`smooth_err`): when the previous operation was of the same degree `t`, the implicit control
    point is the reflection `2·pen − prev` of the two FLOAT points computed with ONE rounding per coordinate
    (the doubling is exact): relative error `u` of the exact reflection; otherwise it is the pen, bit for bit. -/
theorem f32_smooth_err (z : Renderer F32 F64) (t : Nat)
    (fpx : Fn z.penX) (fpy : Fn z.penY) (fqx : Fn z.prevSmoothX) (fqy : Fn z.prevSmoothY)
    (h2x : |2 * val z.penX| ≤ maxv) (h2y : |2 * val z.penY| ≤ maxv)
    (hrx : |2 * val z.penX - val z.prevSmoothX| ≤ maxv) (hry : |2 * val z.penY - val z.prevSmoothY| ≤ maxv) :
    (z.prevSmoothType ≠ t → z.implicitSmoothPoint t = (z.penX, z.penY)) ∧
    (z.prevSmoothType = t →
      (Fn (z.implicitSmoothPoint t).1 ∧
        |val (z.implicitSmoothPoint t).1 - (2 * val z.penX - val z.prevSmoothX)| ≤
          u * |2 * val z.penX - val z.prevSmoothX|) ∧
      (Fn (z.implicitSmoothPoint t).2 ∧
        |val (z.implicitSmoothPoint t).2 - (2 * val z.penY - val z.prevSmoothY)| ≤
          u * |2 * val z.penY - val z.prevSmoothY|)) :=
  Geom32.smoothPoint_err z t fpx fpy fqx fqy h2x h2y hrx hry

/-- … hence against EXACT points: if the pen and the previous control point are within `ep`, `eq` of `P`, `Q`,
    the reflected coordinate `fl(2·pen − prev)` is within `u·|2·pen − prev| + 2·ep + eq` of `2P − Q` (the errors
    of the two points are inherited with weights 2 and 1; `2P − Q` may cancel, so no relative bound exists). -/
theorem f32_smooth_err_of {pen prev : F32} {P Q ep eq : ℚ} (fp : Fn pen) (fq : Fn prev)
    (h2 : |2 * val pen| ≤ maxv) (hr : |2 * val pen - val prev| ≤ maxv)
    (hP : |val pen - P| ≤ ep) (hQ : |val prev - Q| ≤ eq) :
    |val (Axis.smooth pen prev) - (2 * P - Q)| ≤ u * |2 * val pen - val prev| + 2 * ep + eq :=
  Axis.smooth_err_of fp fq h2 hr hP hQ
-- non-vacuity: pen = T(0.1) on [0,3] → 100 pixels, previous control point 0.1
example : Fn (Geom32.Ex.ax3.abs Geom32.Ex.x01) ∧ Fn Geom32.Ex.x01 ∧
    |2 * val (Geom32.Ex.ax3.abs Geom32.Ex.x01)| ≤ maxv ∧
    |2 * val (Geom32.Ex.ax3.abs Geom32.Ex.x01) - val Geom32.Ex.x01| ≤ maxv := Geom32.Ex.smooth_ok

/-- Rounding, 5 (**a whole absolute-only path at float32**): an enabled path
    `StartPath(adj, x, y); body; ClosePathEndPath` whose body consists of ABSOLUTE calls `H V L Q C` and the
    absolute close-and-move `Y` (SVG `Z M`), with operands in range (`AbsOK`), reaches the rasteriser as `Reset` to
    the size of the target rectangle; then calls of exactly the kinds of the specification's segments
    (`Spec.Path.pathSegs` over the operands read as rationals, `callQ`), every coordinate `Near` — finite and
    within `g4·|image| + 2^-150`, `g4 ≤ 4u + 8u²` — the exact affine image of the specification's coordinate
    (`OpNear`); then ONE `Draw` over the target rectangle.  No accumulation: the one-coordinate bound holds
    whatever the length of the path (`H`/`V` re-use the unchanged float of the other coordinate). -/
theorem f32_path_abs_err (arc : ArcFn F32 F64) (posInf : F32) (z : Renderer F32 F64) (ht : TransformOK z)
    (hax : (axX z).InRange) (hay : (axY z).InRange) (adj : UInt8) (x y : F32) (body : List (Call F32))
    (hx : (axX z).CoordOK x) (hy : (axY z).CoordOK y) (hbody : ∀ c ∈ body, AbsOK (axX z) (axY z) c)
    (hen : (z.startPath adj x y).1.disabled = false) :
    ∃ ops, (z.run arc posInf (.startPath adj x y :: body ++ [.closeEnd])).2 =
        .reset z.r.dx z.r.dy :: ops ++ [.draw z.r (z.startPath adj x y).1.fill] ∧
      List.Forall₂ (OpNear (axX z) (axY z)) ops (Spec.Path.pathSegs (val x) (val y) (body.map callQ)) :=
  Geom32.path_abs_err arc posInf hax hay z ht adj x y body hx hy hbody hen
-- non-vacuity: the Renderer `z48` above, a body using every absolute verb with integer and non-integer operands
example : ∀ c ∈ Geom32.Ex.body, AbsOK Geom32.Ex.ax48 Geom32.Ex.ax48 c := Geom32.Ex.body_ok
example : (Geom32.Ex.z48.startPath 0 Geom32.Ex.x01 (Ex.n 1)).1.disabled = false := Geom32.Ex.z48_enabled

/-- … after ANY history containing a `SetRasterizer` or a `Reset` (`transform_invariant`). -/
theorem f32_path_abs_err_hist (arc : ArcFn F32 F64) (posInf : F32) (z0 : Renderer F32 F64) (h : List (RenOp F32))
    (hs : h.any settles = true) (adj : UInt8) (x y : F32) (body : List (Call F32)) :
    let z := (z0.runOps arc posInf h).1
    (axX z).InRange → (axY z).InRange → (axX z).CoordOK x → (axY z).CoordOK y →
    (∀ c ∈ body, AbsOK (axX z) (axY z) c) → (z.startPath adj x y).1.disabled = false →
    ∃ ops, (z.run arc posInf (.startPath adj x y :: body ++ [.closeEnd])).2 =
        .reset z.r.dx z.r.dy :: ops ++ [.draw z.r (z.startPath adj x y).1.fill] ∧
      List.Forall₂ (OpNear (axX z) (axY z)) ops (Spec.Path.pathSegs (val x) (val y) (body.map callQ)) := by
  intro z hax hay hx hy hb hen
  exact Geom32.path_abs_err arc posInf hax hay z (transformOK_of_settled arc posInf h z0 hs) adj x y body hx hy hb hen

/-- Rounding, relative verbs: the one-step errors of `f32_relVec_err` ACCUMULATE ADDITIVELY.  After `n` relative
    `LineTo`s whose starting pens and exact offsets `s·x` are at most `B` in magnitude (`Axis.RunOK`), the float
    pen is within `n·((u + g4)·B + 2u·2^-126) ≤ n·(6u·B + 2^-149)` of `pen₀ + s·Σ offsets` on each axis. -/
theorem f32_rel_run_err (arc : ArcFn F32 F64) (posInf : F32) (z : Renderer F32 F64) (ht : TransformOK z)
    (hax : (axX z).InRange) (hay : (axY z).InRange) (hen : z.disabled = false) (pts : List (F32 × F32)) (B : ℚ)
    (hx : (axX z).RunOK B z.penX (pts.map Prod.fst)) (hy : (axY z).RunOK B z.penY (pts.map Prod.snd)) :
    |val (z.run arc posInf (pts.map fun p => .d2 .l p.1 p.2)).1.penX -
        (val z.penX + (axX z).s * ((pts.map Prod.fst).map val).sum)| ≤
      (pts.length : ℚ) * ((u + g4) * B + 2 * u * minN) ∧
    |val (z.run arc posInf (pts.map fun p => .d2 .l p.1 p.2)).1.penY -
        (val z.penY + (axY z).s * ((pts.map Prod.snd).map val).sum)| ≤
      (pts.length : ℚ) * ((u + g4) * B + 2 * u * minN) :=
  Geom32.run_l_err arc posInf hax hay z ht hen pts B hx hy
-- non-vacuity: one step from the pen T(0.1) by 0.1 on [0,3] → 100 pixels, B = 4
example : Geom32.Ex.ax3.RunOK 4 (Geom32.Ex.ax3.abs Geom32.Ex.x01) [Geom32.Ex.x01] := Geom32.Ex.run_ok

end float32

/-!
## Not proved in this file

* Arcs (`Call.arc`): they are a parameter of the model (`ArcFn`) and are the subject of another property;
  `geometry_refines` is for arc-free bodies.
* Rounding (section "float32"): the scale, a mapped absolute coordinate, a relative operation and the smooth
  reflection each have an explicit float32 error bound (`f32_scale_err`, `f32_abs_err`, `f32_relVec_err`,
  `f32_smooth_err`), and a whole path has one when all its calls are ABSOLUTE `H V L Y Q C`
  (`f32_path_abs_err`).  What remains open there:
  - no whole-path theorem for paths with RELATIVE verbs (`h v l y t q s c`) or SMOOTH verbs (`T S t s`): for
    these only the one-step bounds are proved, plus additive accumulation along a run of relative `LineTo`s
    (`f32_rel_run_err`); a mixed path would need the invariant "pen within `e` of the exact pen" with `e` growing
    by the one-step bound at each relative/smooth step (`f32_smooth_err_of` gives the growth `2·ep + eq` for a
    reflection), which is not assembled into a theorem about `Renderer.run`;
  - the bounds are under the explicit range hypotheses `InRange`/`CoordOK`/`OffOK` (no overflow; finite
    operands); NaN/Inf operands and overflowing intermediates are covered only by the structural theorems
    (`step_kinds`, `step_disabled`, `closeMove_generic`, `closeEnd_generic`);
  - `unabsX`/`unabsY` (relative arcs, and the float64 inverse used by gradients) have no rounding analysis here;
  - the reference is the exact image of the FLOAT operands (`val x`): how far these are from the numbers in
    the encoded icon is the codec's accuracy (C01).
* That the calls reach the renderer in this order from an encoded icon (decoder) is C04/C06; which paint
  `StartPath` selects and when it disables the renderer is C13/C14.
* Histories: `SetRasterizer` is modelled as handing over a FRESH rasteriser (pen at the origin) — what the
  rasteriser's own state is when the caller passes a used one is outside /repo.  `geometry_after_rast` is for
  a path that starts after the `SetRasterizer`; a `SetRasterizer` in the middle of a path (allowed by the Go
  API, meaningless) is covered only by the structural theorems (`transform_invariant`,
  `draw_uses_current_rect`), not by a geometric specification.
-/

end Ivg.Props.C05

#obligations C05 [Ivg.Props.C05.transform_after_reset,
  Ivg.Props.C05.T_closed,
  Ivg.Props.C05.T_after_reset,
  Ivg.Props.C05.T_corners,
  Ivg.Props.C05.unabs_abs,
  Ivg.Props.C05.step_refines,
  Ivg.Props.C05.run_refines,
  Ivg.Props.C05.startPath_cases,
  Ivg.Props.C05.geometry_refines,
  Ivg.Props.C05.step_kinds,
  Ivg.Props.C05.step_disabled,
  Ivg.Props.C05.closeMove_generic,
  Ivg.Props.C05.closeEnd_generic,
  Ivg.Props.C05.transform_invariant,
  Ivg.Props.C05.transform_invariant_steps,
  Ivg.Props.C05.transform_of_history,
  Ivg.Props.C05.setRasterizer_transform,
  Ivg.Props.C05.reset_transform,
  Ivg.Props.C05.draw_uses_current_rect,
  Ivg.Props.C05.path_after_rast,
  Ivg.Props.C05.T_after_rast,
  Ivg.Props.C05.T_after_reset_hist,
  Ivg.Props.C05.geometry_after_rast,
  Ivg.Props.C05.f32_constants,
  Ivg.Props.C05.f32_range_simple,
  Ivg.Props.C05.f32_map_eq_Tof,
  Ivg.Props.C05.f32_scale_err,
  Ivg.Props.C05.f32_recalc_err,
  Ivg.Props.C05.f32_scale_err_exact,
  Ivg.Props.C05.f32_abs_err,
  Ivg.Props.C05.f32_abs_err_mag,
  Ivg.Props.C05.f32_relVec_err,
  Ivg.Props.C05.f32_relVec_err_mag,
  Ivg.Props.C05.f32_smooth_err,
  Ivg.Props.C05.f32_smooth_err_of,
  Ivg.Props.C05.f32_path_abs_err,
  Ivg.Props.C05.f32_path_abs_err_hist,
  Ivg.Props.C05.f32_rel_run_err,
  Ivg.Gen.Tie.renderer_fields_tie,
  Ivg.Gen.Tie.gradient_fields_tie,
  Ivg.Gen.Tie.viewBox_fields_tie,
  Ivg.Gen.Tie.logger_forwards_tie, Ivg.Gen.Tie.rasterizer_logger_forwards_tie,
  -- regenerated code (translator) = model, for all inputs: render.go drawing methods over an abstract rasteriser with the pen contract
  Ivg.Gen.Tie.relVec2_code_tie,
  Ivg.Gen.Tie.implicitSmoothPoint_code_tie,
  Ivg.Gen.Tie.absLineTo_code_tie,
  Ivg.Gen.Tie.relLineTo_code_tie,
  Ivg.Gen.Tie.absHLineTo_code_tie,
  Ivg.Gen.Tie.relHLineTo_code_tie,
  Ivg.Gen.Tie.absVLineTo_code_tie,
  Ivg.Gen.Tie.relVLineTo_code_tie,
  Ivg.Gen.Tie.closePathAbsMoveTo_code_tie,
  Ivg.Gen.Tie.closePathRelMoveTo_code_tie,
  Ivg.Gen.Tie.absQuadTo_code_tie,
  Ivg.Gen.Tie.relQuadTo_code_tie,
  Ivg.Gen.Tie.absCubeTo_code_tie,
  Ivg.Gen.Tie.relCubeTo_code_tie,
  Ivg.Gen.Tie.absSmoothQuadTo_code_tie,
  Ivg.Gen.Tie.relSmoothQuadTo_code_tie,
  Ivg.Gen.Tie.absSmoothCubeTo_code_tie,
  Ivg.Gen.Tie.relSmoothCubeTo_code_tie,
  Ivg.Gen.Tie.smoothOK_zero,
  Ivg.Gen.Tie.smoothOK_step,
  -- regenerated code (translator, Ivg/Gen/Code) = model, for all inputs: Transform
  Ivg.Gen.Tie.rectangle_Dx_code_tie,
  Ivg.Gen.Tie.rectangle_Dy_code_tie,
  Ivg.Gen.Tie.renderer_absX_code_tie,
  Ivg.Gen.Tie.renderer_absY_code_tie,
  Ivg.Gen.Tie.renderer_relX_code_tie,
  Ivg.Gen.Tie.renderer_relY_code_tie,
  Ivg.Gen.Tie.renderer_unabsX_code_tie,
  Ivg.Gen.Tie.renderer_unabsY_code_tie,
  Ivg.Gen.Tie.renderer_absVec2_code_tie,
  Ivg.Gen.Tie.renderer_recalcTransform_code_tie,
  Ivg.Gen.Tie.renderer_recalcTransform_code_tie_frame,
  -- regenerated code (translator, Ivg/Gen/Code) = model, for all inputs: RenderRegs (Reset recomputes the transform; the selectors keep six bits)
  Ivg.Gen.Tie.renderer_CSel_code_tie,
  Ivg.Gen.Tie.renderer_NSel_code_tie,
  Ivg.Gen.Tie.renderer_SetCSel_code_tie,
  Ivg.Gen.Tie.renderer_SetNSel_code_tie,
  Ivg.Gen.Tie.renderer_SetLOD_code_tie,
  Ivg.Gen.Tie.renderer_SetNReg_code_tie,
  Ivg.Gen.Tie.positiveInfinity_code_tie,
  Ivg.Gen.Tie.renderer_Reset_code_tie,
  Ivg.Gen.Tie.renderer_Reset_code_tie_frame,
  -- regenerated code (translator): the RasterizerLogger reads are transparent
  Ivg.Gen.Tie.rasterizerLogger_Pen_code_tie,
  Ivg.Gen.Tie.rasterizerLogger_Bounds_code_tie,
  Ivg.Gen.Tie.rasterizerLogger_Size_code_tie,
  -- regenerated code (translator): SetRasterizer recomputes the transform from the current viewBox and the new rectangle
  Ivg.Gen.Tie.rectangle_Empty_code_tie,
  Ivg.Gen.Tie.renderer_SetRasterizer_code_tie,
  Ivg.Gen.Tie.renderer_SetRasterizer_code_tie_frame,
  -- regenerated code (translator): StartPath (paint choice, LOD test, gradient initialisation, Reset+MoveTo) and ClosePathEndPath (one Draw over the target rectangle, source point (0,0))
  Ivg.Gen.Tie.closePathEndPath_code_tie,
  Ivg.Gen.Tie.startPath_code_tie]
