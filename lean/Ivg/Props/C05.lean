import Ivg.Lemmas.GeomQ
import Ivg.Lemmas.RenderHistQ
import Ivg.Gen.Tie.GradientFields
import Ivg.Gen.Tie.RendererFields
import Ivg.Gen.Tie.MiscFields
import Ivg.Gen.Tie.LoggerForwards
import Ivg.Obligations
/-!
# C05 — drawing operations reach the rasteriser as the right segments, affinely mapped

Property text: "Every drawn path reaches the rasteriser as the same sequence of move/line/quadratic/cubic
segments as its drawing operations, each coordinate mapped by the affine map that takes the viewBox onto the
target rectangle (independent x and y scale): absolute operations map points, relative operations are offsets
from the current pen, H/V keep the other coordinate, smooth operations use the reflection of the previous
same-degree control point about the pen (or the pen itself when the previous operation was of another kind),
close-and-move operations close the sub-path before moving (relative moves being relative to the sub-path
start), and the path is closed and drawn exactly once, over the target rectangle, when it ends."

Model: `Ivg/Model/Renderer.lean` (Go: `/repo/render/render.go`, with the pen contract of
`golang.org/x/image/vector`).  Specification: `Ivg/Spec/Path.lean` — SVG path semantics in viewBox space
(`Spec.Path.step`, `Spec.Path.pathSegs`), written from the text above.  The refinement theorems are about
the model instantiated at EXACT arithmetic (`ℚ`); the structural theorems hold for every number type.
`GeomQ.T z` is the renderer's affine map `(x, y) ↦ (scaleX·(x + biasX), scaleY·(y + biasY))`;
`GeomQ.toOp` turns a specification segment into the corresponding rasteriser call;
`GeomQ.Inv z s` says the renderer state `z` (enabled) represents the specification state `s`:
pen = `T s.pen`, sub-path start = `T s.start`, and the smooth-point bookkeeping (`prevSmoothType`, point) is
`T` of the specification's last control point of that degree.
-/
namespace Ivg.Props.C05
open Ivg Ren GeomQ
open Ivg.Spec.Path (Pt Seg Ctrl State)

/-! ## the affine map -/

/-- Clause "the affine map that takes the viewBox onto the target rectangle (independent x and y scale)",
    part 1: after `SetRasterizer r` (non-empty) and `Reset vb`, the transform fields are those of `vb`, `r`. -/
theorem transform_after_reset [SqrtQ] (z0 : Renderer ℚ ℚ) (r : Rect) (posInf : ℚ) (vb : ViewBox ℚ)
    (pal : Palette) (hr : r.empty = false) :
    let z := (z0.setRasterizer r).reset posInf vb pal
    z.r = r ∧ z.viewBox = vb ∧
    z.scaleX = (r.dx : ℚ) / (vb.maxX - vb.minX) ∧ z.biasX = -vb.minX ∧
    z.scaleY = (r.dy : ℚ) / (vb.maxY - vb.minY) ∧ z.biasY = -vb.minY :=
  GeomQ.transform_after_reset z0 r posInf vb pal hr
example : (⟨0, 0, 64, 48⟩ : Rect).empty = false := by decide

/-- … part 2: then `T` is `x ↦ dx·(x − minX)/(maxX − minX)`, `y ↦ dy·(y − minY)/(maxY − minY)` … -/
theorem T_closed (z : Renderer ℚ ℚ) (dx dy : ℚ) (vb : ViewBox ℚ)
    (hsx : z.scaleX = dx / (vb.maxX - vb.minX)) (hbx : z.biasX = -vb.minX)
    (hsy : z.scaleY = dy / (vb.maxY - vb.minY)) (hby : z.biasY = -vb.minY) (p : Pt ℚ) :
    T z p = ⟨dx * (p.x - vb.minX) / (vb.maxX - vb.minX), dy * (p.y - vb.minY) / (vb.maxY - vb.minY)⟩ :=
  GeomQ.T_closed z dx dy vb hsx hbx hsy hby p

/-- … parts 1 and 2 together. -/
theorem T_after_reset [SqrtQ] (z0 : Renderer ℚ ℚ) (r : Rect) (posInf : ℚ) (vb : ViewBox ℚ) (pal : Palette)
    (hr : r.empty = false) (p : Pt ℚ) :
    T ((z0.setRasterizer r).reset posInf vb pal) p =
      ⟨(r.dx : ℚ) * (p.x - vb.minX) / (vb.maxX - vb.minX), (r.dy : ℚ) * (p.y - vb.minY) / (vb.maxY - vb.minY)⟩ :=
  GeomQ.T_after_reset z0 r posInf vb pal hr p

/-- … part 3: which maps the viewBox's corners to the corners `(0,0)`, `(dx,dy)` of the target rectangle. -/
theorem T_corners (z : Renderer ℚ ℚ) (dx dy : ℚ) (vb : ViewBox ℚ)
    (hsx : z.scaleX = dx / (vb.maxX - vb.minX)) (hbx : z.biasX = -vb.minX)
    (hsy : z.scaleY = dy / (vb.maxY - vb.minY)) (hby : z.biasY = -vb.minY)
    (hx : vb.minX < vb.maxX) (hy : vb.minY < vb.maxY) :
    T z ⟨vb.minX, vb.minY⟩ = ⟨0, 0⟩ ∧ T z ⟨vb.maxX, vb.maxY⟩ = ⟨dx, dy⟩ :=
  GeomQ.T_corners z dx dy vb hsx hbx hsy hby hx hy

/-- `unabsX`/`unabsY` (used by relative arcs and gradients) invert `T` when the scale is non-zero. -/
theorem unabs_abs (z : Renderer ℚ ℚ) (hsx : z.scaleX ≠ 0) (hsy : z.scaleY ≠ 0) (p : Pt ℚ) :
    z.unabsX (T z p).x = p.x ∧ z.unabsY (T z p).y = p.y := GeomQ.unabs_abs z hsx hsy p

/-! ## one drawing call -/

/-- Clauses "absolute operations map points, relative operations are offsets from the current pen, H/V keep
    the other coordinate, smooth operations use the reflection …, close-and-move operations close the sub-path
    before moving (relative moves being relative to the sub-path start)": for EVERY non-arc drawing call `c`
    (the sixteen verbs of `d1 d2 d4 d6`, including `Y`/`y`), an enabled renderer representing the
    specification state `s` makes exactly the rasteriser calls `toOp (T segment)` for the segments
    `Spec.Path.step s c` prescribes, ends in a state representing the specification's next state, and leaves
    the rest of its state (`frame`: target rectangle, transform, registers, selectors, paint, …) untouched. -/
theorem step_refines [SqrtQ] (arc : ArcFn ℚ ℚ) (posInf : ℚ) (z : Renderer ℚ ℚ) (s : State ℚ) (h : Inv z s)
    (c : Call ℚ) (hc : Spec.Path.isSeg c = true) :
    (z.step arc posInf c).2 = ((Spec.Path.step s c).2.map (Seg.map (T z))).map toOp ∧
    Inv (z.step arc posInf c).1 (Spec.Path.step s c).1 ∧
    frame (z.step arc posInf c).1 = frame z :=
  GeomQ.step_refines arc posInf z s h c hc

/-- … and for a whole arc-free sequence of drawing calls. -/
theorem run_refines [SqrtQ] (arc : ArcFn ℚ ℚ) (posInf : ℚ) (body : List (Call ℚ)) (z : Renderer ℚ ℚ)
    (s : State ℚ) (h : Inv z s) (hb : ∀ c ∈ body, Spec.Path.isSeg c = true) :
    (z.run arc posInf body).2 = ((Spec.Path.run s body).2.map (Seg.map (T z))).map toOp ∧
    Inv (z.run arc posInf body).1 (Spec.Path.run s body).1 ∧
    frame (z.run arc posInf body).1 = frame z :=
  GeomQ.run_refines arc posInf body z s h hb

/-- `StartPath` establishes the invariant: it either disables the renderer and draws nothing, or resets the
    rasteriser to the size of the target rectangle and moves to `T (x, y)`, the state then representing the
    start of a path at `(x, y)`. -/
theorem startPath_cases [SqrtQ] (z : Renderer ℚ ℚ) (adj : UInt8) (x y : ℚ) :
    ((z.startPath adj x y).1.disabled = true ∧ (z.startPath adj x y).2 = []) ∨
    ((z.startPath adj x y).1.disabled = false ∧
      (z.startPath adj x y).2 = [.reset z.r.dx z.r.dy, toOp (.move (T z ⟨x, y⟩))] ∧
      Inv (z.startPath adj x y).1 (Spec.Path.start ⟨x, y⟩) ∧
      (z.startPath adj x y).1.r = z.r ∧ T (z.startPath adj x y).1 = T z) :=
  GeomQ.startPath_cases z adj x y

/-! ## a whole path -/

/-- Headline (whole property at exact arithmetic, arcs excepted): an enabled path
    `StartPath(adj, x, y); body; ClosePathEndPath` with an arc-free `body` reaches the rasteriser as:
    `Reset` to the size of the target rectangle; then exactly the specification's segments of the path — the
    initial move, the body's segments, one final close (`Spec.Path.pathSegs`) — each point mapped by `T z`;
    then exactly ONE `Draw`, over the target rectangle `z.r`, with the paint `StartPath` selected. -/
theorem geometry_refines [SqrtQ] (arc : ArcFn ℚ ℚ) (posInf : ℚ) (z : Renderer ℚ ℚ) (adj : UInt8) (x y : ℚ)
    (body : List (Call ℚ)) (hbody : ∀ c ∈ body, Spec.Path.isSeg c = true)
    (hen : (z.startPath adj x y).1.disabled = false) :
    (z.run arc posInf (.startPath adj x y :: body ++ [.closeEnd])).2 =
      .reset z.r.dx z.r.dy ::
        ((Spec.Path.pathSegs x y body).map (Seg.map (T z))).map toOp ++
        [.draw z.r (z.startPath adj x y).1.fill] :=
  GeomQ.geometry_refines arc posInf z adj x y body hbody hen
-- non-vacuity: a renderer set up for a 64×64 target and the default viewBox is enabled by `StartPath 0`;
-- a body using a relative line, a smooth quadratic after a quadratic, and a relative close-and-move
example : ((((Renderer.zero (α := ℚ) (β := ℚ)).setRasterizer ⟨0, 0, 64, 64⟩).reset 100 ⟨-32, -32, 32, 32⟩
    defaultPalette).startPath 0 (-16) 8).1.disabled = false := GeomQ.example_enabled
example : ∀ c ∈ ([.d2 .l 3 4, .d4 .Q 1 2 3 4, .d2 .T 5 6, .d2 .y 1 1, .d1 .H 7] : List (Call ℚ)),
    Spec.Path.isSeg c = true := by decide
-- what the specification says for that body: the smooth quadratic's control point is the reflection
-- 2·(3,4) − (1,2) = (5,6) of the previous quadratic control point about the pen; the relative close-and-move
-- goes to start + (1,1)
example : (Spec.Path.run (Spec.Path.start (⟨-16, 8⟩ : Pt ℚ)) [.d4 .Q 1 2 3 4, .d2 .T 5 6, .d2 .y 1 1]).2 =
    [.quad ⟨1, 2⟩ ⟨3, 4⟩, .quad ⟨3 + (3 - 1), 4 + (4 - 2)⟩ ⟨5, 6⟩, .close, .move ⟨-16 + 1, 8 + 1⟩] := rfl

/-! ## structure, for every number type -/
section generic
variable {α β : Type} [Arith α] [Arith β] [Wide α β]

/-- For every number type an enabled renderer makes, for each non-arc drawing call, rasteriser calls of exactly
    the kinds the specification prescribes (one line / quadratic / cubic, or a close followed by a move). -/
theorem step_kinds (arc : ArcFn α β) (posInf : α) (z : Renderer α β) (s : State α) (hen : z.disabled = false)
    (c : Call α) (hc : Spec.Path.isSeg c = true) :
    (z.step arc posInf c).2.map opKind = (Spec.Path.step s c).2.map segKind :=
  GeomQ.step_kinds arc posInf z s hen c hc

/-- For every number type a disabled renderer makes no rasteriser call. -/
theorem step_disabled (arc : ArcFn α β) (posInf : α) (z : Renderer α β) (hd : z.disabled = true)
    (c : Call α) (hc : Spec.Path.isSeg c = true ∨ c = .closeEnd) : (z.step arc posInf c).2 = [] :=
  GeomQ.step_disabled arc posInf z hd c hc

/-- Clause "close-and-move operations close the sub-path before moving (relative moves being relative to the
    sub-path start)", for every number type: the relative form moves to `start + scale·offset` — `ClosePath`
    has put the pen at the sub-path start before the offset is added. -/
theorem closeMove_generic (arc : ArcFn α β) (posInf : α) (z : Renderer α β) (hen : z.disabled = false) (x y : α) :
    (z.step arc posInf (.d2 .y x y)).2 =
      [.closePath, .moveTo (z.firstX + z.scaleX * x) (z.firstY + z.scaleY * y)] ∧
    (z.step arc posInf (.d2 .Y x y)).2 =
      [.closePath, .moveTo (z.scaleX * (x + z.biasX)) (z.scaleY * (y + z.biasY))] :=
  GeomQ.closeMove_generic arc posInf z hen x y

/-- Clause "the path is closed and drawn exactly once, over the target rectangle, when it ends", for every
    number type. -/
theorem closeEnd_generic (arc : ArcFn α β) (posInf : α) (z : Renderer α β) (hen : z.disabled = false) :
    (z.step arc posInf .closeEnd).2 = [.closePath, .draw z.r z.fill] :=
  GeomQ.closeEnd_generic arc posInf z hen
end generic


/-! ## histories of a reused Renderer: `SetRasterizer` between graphics and between paths

`RenOp α` is a Destination call or `SetRasterizer(_, r)` (`Ivg/Lemmas/RenderHist.lean`); `z.runOps` runs a
history.  The theorems above are about ONE `SetRasterizer` followed by ONE `Reset`; these are about every
state a history reaches, from ANY initial state. -/
section histories
open Ivg.RenderHist Ivg.RenderHistQ Ivg.Lemmas.RendererVM
variable {α β : Type} [Arith α] [Arith β] [Wide α β]

/-- Clause "the affine map that takes the viewBox onto the target rectangle", as an invariant of the
    Renderer's life, for every number type: `TransformOK z` says the four transform fields are
    `recalcTransform` of the CURRENT rectangle and viewBox.  It holds after `SetRasterizer` and after `Reset`
    whatever the state was, every other call preserves it — so it holds in every state reached by a history
    that contains at least one `SetRasterizer` or `Reset`, from any initial state. -/
theorem transform_invariant (arc : ArcFn α β) (posInf : α) (z0 : Renderer α β) (h : List (RenOp α))
    (hs : h.any settles = true) : TransformOK (z0.runOps arc posInf h).1 :=
  transformOK_of_settled arc posInf h z0 hs
example : [RenOp.call (.setCSel 1 : Call Num.F32), .rast ⟨0, 0, 8, 8⟩, .call .closeEnd].any settles = true := rfl
/-- the zero value itself does not satisfy it at float32 (`0/0` is NaN, `-0 ≠ +0`) — one `SetRasterizer` or
    `Reset` is needed — although it does at exact arithmetic -/
example : ¬ TransformOK (Renderer.zero : Renderer Num.F32 Num.F64) := RenderHist.Ex.zero_not_transformOK
example : TransformOK (Renderer.zero : Renderer ℚ ℚ) := RenderHistQ.Ex.zero_transformOK

/-- … its three ingredients: established by `SetRasterizer`, established by `Reset`, preserved by every
    Destination call (any arc implementation). -/
theorem transform_invariant_steps (arc : ArcFn α β) (posInf : α) (z : Renderer α β) :
    (∀ r, TransformOK (z.setRasterizer r)) ∧ (∀ vb pal, TransformOK (z.reset posInf vb pal)) ∧
    (∀ c, TransformOK z → TransformOK (z.step arc posInf c).1) :=
  ⟨transformOK_setRasterizer z, transformOK_reset z posInf, fun c hz => transformOK_step arc posInf z c hz⟩

/-- … explicitly: in such a state the rectangle is the (normalised) one of the LAST `SetRasterizer`
    (`rectAfter`), the viewBox the one of the LAST `Reset` (`viewBoxAfter`), and scale and bias are those of
    exactly these two. -/
theorem transform_of_history (arc : ArcFn α β) (posInf : α) (z0 : Renderer α β) (h : List (RenOp α))
    (hs : h.any settles = true) :
    let z := (z0.runOps arc posInf h).1
    let R := rectAfter z0.r h
    let vb := viewBoxAfter z0.viewBox h
    z.r = R ∧ z.viewBox = vb ∧
    z.scaleX = Arith.ofInt R.dx / (vb.maxX - vb.minX) ∧ z.biasX = -vb.minX ∧
    z.scaleY = Arith.ofInt R.dy / (vb.maxY - vb.minY) ∧ z.biasY = -vb.minY :=
  RenderHist.transform_of_history arc posInf z0 h hs

/-- `setRasterizer_transform`: after ANY history `h`, `SetRasterizer r` and any calls other than `Reset`
    (styling, whole paths), the map used for the geometry that follows is the one of `r` and of the viewBox
    of the last `Reset` — e.g. the same icon re-rendered at a new size is not drawn with the old scale. -/
theorem setRasterizer_transform (arc : ArcFn α β) (posInf : α) (z0 : Renderer α β) (h : List (RenOp α))
    (r : Rect) (cs : List (Call α)) (hcs : ∀ c ∈ cs, isReset c = false) :
    let z := (z0.runOps arc posInf (h ++ .rast r :: cs.map .call)).1
    let vb := viewBoxAfter z0.viewBox h
    z.r = Rect.norm r ∧ z.viewBox = vb ∧
    z.scaleX = Arith.ofInt (Rect.norm r).dx / (vb.maxX - vb.minX) ∧ z.biasX = -vb.minX ∧
    z.scaleY = Arith.ofInt (Rect.norm r).dy / (vb.maxY - vb.minY) ∧ z.biasY = -vb.minY :=
  RenderHist.setRasterizer_transform arc posInf z0 h r cs hcs
example : ∀ c ∈ RenderHistQ.Ex.load, isReset c = false := RenderHistQ.Ex.load_noReset

/-- … and after `Reset vb` following any history: the map of `vb` and of the rectangle of the last
    `SetRasterizer`, also when `vb` is the viewBox the Renderer already had. -/
theorem reset_transform (arc : ArcFn α β) (posInf : α) (z0 : Renderer α β) (h : List (RenOp α))
    (vb : ViewBox α) (pal : Palette) (cs : List (Call α)) (hcs : ∀ c ∈ cs, isReset c = false) :
    let z := (z0.runOps arc posInf (h ++ .call (.reset vb pal) :: cs.map .call)).1
    let R := rectAfter z0.r h
    z.r = R ∧ z.viewBox = vb ∧
    z.scaleX = Arith.ofInt R.dx / (vb.maxX - vb.minX) ∧ z.biasX = -vb.minX ∧
    z.scaleY = Arith.ofInt R.dy / (vb.maxY - vb.minY) ∧ z.biasY = -vb.minY :=
  RenderHist.reset_transform arc posInf z0 h vb pal cs hcs

/-- Clause "drawn exactly once, over the target rectangle", over histories (`draw_uses_current_rect`), for
    every number type and every arc implementation that only adds segments: after ANY history and
    `SetRasterizer r`, whatever calls follow until the next `SetRasterizer`, every `Draw` is over `r`
    (normalised as `SetRasterizer` does) and every `Reset` of the rasteriser has the size of `r`
    (`OverRect`) — never a rectangle used earlier, also when the new one has the same size. -/
theorem draw_uses_current_rect (arc : ArcFn α β) (hArc : ArcPure arc) (posInf : α) (z0 : Renderer α β)
    (h : List (RenOp α)) (r : Rect) (cs : List (Call α)) :
    (z0.runOps arc posInf (h ++ .rast r :: cs.map .call)).2 =
      (z0.runOps arc posInf h).2 ++ (((z0.runOps arc posInf h).1.setRasterizer r).run arc posInf cs).2 ∧
    ∀ op ∈ (((z0.runOps arc posInf h).1.setRasterizer r).run arc posInf cs).2, OverRect (Rect.norm r) op :=
  RenderHist.draw_uses_current_rect arc hArc posInf z0 h r cs
example : ArcPure arcF32 := arcF32_pure

/-- … for one path `StartPath … ClosePathEndPath` started after `SetRasterizer r` (any history before, any
    calls in between): no rasteriser call at all, or `Reset` to the size of `r`, `MoveTo`, segments,
    `ClosePath` and ONE `Draw` over `r`. -/
theorem path_after_rast (arc : ArcFn α β) (hArc : ArcPure arc) (posInf : α) (z0 : Renderer α β)
    (h : List (RenOp α)) (r : Rect) (cs : List (Call α))
    (adj : UInt8) (x y : α) (segs : List (Call α)) (hs : ∀ s ∈ segs, isSegment s = true) :
    let z := (z0.runOps arc posInf (h ++ .rast r :: cs.map .call)).1
    let out := (z.run arc posInf (.startPath adj x y :: (segs ++ [.closeEnd]))).2
    z.r = Rect.norm r ∧
    (((Ivg.Lemmas.RendererVM.absVM z).paintChoice (Rect.norm r).dy adj = none ∧ out = []) ∨
     ∃ p mid, (Ivg.Lemmas.RendererVM.absVM z).paintChoice (Rect.norm r).dy adj = some p ∧
      (∀ op ∈ mid, isPathOp op = true) ∧
      out = .reset (Rect.norm r).dx (Rect.norm r).dy :: .moveTo (z.absX x) (z.absY y) ::
        (mid ++ [.closePath, .draw (Rect.norm r) (realise z p)])) :=
  RenderHist.path_after_rast arc hArc posInf z0 h r cs adj x y segs hs
set_option maxRecDepth 100000 in
/-- the model run on a concrete life (24×24 outside the LOD range; 48×48 set between two paths; the same
    size at another origin; the same icon again at 24×24): `Draw`s over the current rectangles, rasteriser
    `Reset` to their sizes, start point mapped with the current scale (x = 24, 24, 12) -/
example :
    let out := ((Renderer.zero : Renderer Num.F32 Num.F64).runOps arcF32 Ex.posInf RenderHist.Ex.hist).2
    (drawsOf out).map (·.1) = [⟨0, 0, 48, 48⟩, ⟨100, 100, 148, 148⟩, ⟨0, 0, 24, 24⟩] ∧
    RenderHist.Ex.resetSizes out = [(48, 48), (48, 48), (24, 24)] ∧
    RenderHist.Ex.moveXs out = [Ex.n 24, Ex.n 24, Ex.n 12] := RenderHist.Ex.hist_run

/-- At exact arithmetic: after ANY history `h`, `SetRasterizer r` and calls other than `Reset`, the
    renderer's map `T` is `Tof (norm r) vb : (x, y) ↦ (dx·(x − minX)/(maxX − minX), dy·(y − minY)/(maxY − minY))`
    for the size of `r` and the viewBox `vb` of the last `Reset` in `h`. -/
theorem T_after_rast [SqrtQ] (arc : ArcFn ℚ ℚ) (posInf : ℚ) (z0 : Renderer ℚ ℚ) (h : List (RenOp ℚ)) (r : Rect)
    (cs : List (Call ℚ)) (hcs : ∀ c ∈ cs, isReset c = false) :
    T (z0.runOps arc posInf (h ++ .rast r :: cs.map .call)).1 = Tof (Rect.norm r) (viewBoxAfter z0.viewBox h) :=
  RenderHistQ.T_after_rast arc posInf z0 h r cs hcs

/-- … and after `Reset vb` following any history. -/
theorem T_after_reset_hist [SqrtQ] (arc : ArcFn ℚ ℚ) (posInf : ℚ) (z0 : Renderer ℚ ℚ) (h : List (RenOp ℚ))
    (vb : ViewBox ℚ) (pal : Palette) (cs : List (Call ℚ)) (hcs : ∀ c ∈ cs, isReset c = false) :
    T (z0.runOps arc posInf (h ++ .call (.reset vb pal) :: cs.map .call)).1 = Tof (rectAfter z0.r h) vb :=
  RenderHistQ.T_after_reset_hist arc posInf z0 h vb pal cs hcs

/-- **Headline over histories** (whole property at exact arithmetic, arcs excepted): an enabled arc-free
    path that starts after ANY history `h`, `SetRasterizer r` and calls `cs` other than `Reset` adds to the
    rasteriser traffic exactly: `Reset` to the size of `r`; the specification's segments mapped by the affine
    map of `r` and of the viewBox of the last `Reset`; one `Draw` over `r` with the paint `StartPath` chose. -/
theorem geometry_after_rast [SqrtQ] (arc : ArcFn ℚ ℚ) (posInf : ℚ) (z0 : Renderer ℚ ℚ) (h : List (RenOp ℚ))
    (r : Rect) (cs : List (Call ℚ)) (hcs : ∀ c ∈ cs, isReset c = false) (adj : UInt8) (x y : ℚ)
    (body : List (Call ℚ)) (hbody : ∀ c ∈ body, Spec.Path.isSeg c = true)
    (hen : ((z0.runOps arc posInf (h ++ .rast r :: cs.map .call)).1.startPath adj x y).1.disabled = false) :
    (z0.runOps arc posInf (h ++ .rast r :: (cs ++ (Call.startPath adj x y :: body ++ [Call.closeEnd])).map .call)).2 =
      (z0.runOps arc posInf (h ++ .rast r :: cs.map .call)).2 ++
      (.reset (Rect.norm r).dx (Rect.norm r).dy ::
        ((Spec.Path.pathSegs x y body).map (Seg.map (Tof (Rect.norm r) (viewBoxAfter z0.viewBox h)))).map toOp ++
        [.draw (Rect.norm r) ((z0.runOps arc posInf (h ++ .rast r :: cs.map .call)).1.startPath adj x y).1.fill]) :=
  RenderHistQ.geometry_after_rast arc posInf z0 h r cs hcs adj x y body hbody hen
-- non-vacuity: an icon drawn at 64×64, then (same Renderer) `SetRasterizer` to 128×32 at (5,7), register
-- loads, and a path that is enabled
example : (((Renderer.zero (α := ℚ) (β := ℚ)).runOps RenderHistQ.Ex.noArc 100
    (RenderHistQ.Ex.hist ++ .rast ⟨5, 7, 133, 39⟩ :: RenderHistQ.Ex.load.map .call)).1.startPath 0 0 0).1.disabled = false :=
  RenderHistQ.Ex.gradient_path_enabled.1

end histories

/-!
## Not proved in this file

* Arcs (`Call.arc`): they are a parameter of the model (`ArcFn`) and are the subject of another property;
  `geometry_refines` is for arc-free bodies.
* Rounding: at float32 `T` is computed as `scaleX * (x + biasX)` with two roundings, relative operations
  add a rounded `scaleX * dx` to the rounded pen, and the reflection is `2*pen − prev` in float32; only the
  structural theorems (`step_kinds`, `step_disabled`, `closeMove_generic`, `closeEnd_generic`) are proved there.
* That the calls reach the renderer in this order from an encoded icon (decoder) is C04/C06; which paint
  `StartPath` selects and when it disables the renderer is C13/C14.
* Histories: `SetRasterizer` is modelled as handing over a FRESH rasteriser (pen at the origin) — what the
  rasteriser's own state is when the caller passes a used one is outside /repo.  `geometry_after_rast` is for
  a path that starts after the `SetRasterizer`; a `SetRasterizer` in the middle of a path (allowed by the Go
  API, meaningless) is covered only by the structural theorems (`transform_invariant`,
  `draw_uses_current_rect`), not by a geometric specification.
-/

end Ivg.Props.C05

#obligations C05 [Ivg.Props.C05.transform_after_reset,
  Ivg.Props.C05.T_closed,
  Ivg.Props.C05.T_after_reset,
  Ivg.Props.C05.T_corners,
  Ivg.Props.C05.unabs_abs,
  Ivg.Props.C05.step_refines,
  Ivg.Props.C05.run_refines,
  Ivg.Props.C05.startPath_cases,
  Ivg.Props.C05.geometry_refines,
  Ivg.Props.C05.step_kinds,
  Ivg.Props.C05.step_disabled,
  Ivg.Props.C05.closeMove_generic,
  Ivg.Props.C05.closeEnd_generic,
  Ivg.Props.C05.transform_invariant,
  Ivg.Props.C05.transform_invariant_steps,
  Ivg.Props.C05.transform_of_history,
  Ivg.Props.C05.setRasterizer_transform,
  Ivg.Props.C05.reset_transform,
  Ivg.Props.C05.draw_uses_current_rect,
  Ivg.Props.C05.path_after_rast,
  Ivg.Props.C05.T_after_rast,
  Ivg.Props.C05.T_after_reset_hist,
  Ivg.Props.C05.geometry_after_rast,
  Ivg.Gen.Tie.renderer_fields_tie,
  Ivg.Gen.Tie.gradient_fields_tie,
  Ivg.Gen.Tie.viewBox_fields_tie,
  Ivg.Gen.Tie.logger_forwards_tie, Ivg.Gen.Tie.rasterizer_logger_forwards_tie]
