import Ivg.Model.Decoder
import Ivg.Model.Arc
import Ivg.Model.MdIcons
import Ivg.Gen.Tie
import Ivg.Obligations
/-! # Property C16 — theorems (work in progress: tie obligations only so far) -/
namespace Ivg.Props.C16
end Ivg.Props.C16
#obligations C16 [Ivg.Gen.Tie.drawOps_tie, Ivg.Gen.Tie.magic_tie, Ivg.Gen.Tie.errorStrings_tie]
