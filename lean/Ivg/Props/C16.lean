import Ivg.Lemmas.RendererVM
import Ivg.Lemmas.ScaleQ
import Ivg.Gen.Tie.RendererFields
import Ivg.Gen.Tie.VecRasterizerFields
import Ivg.Gen.Tie.Code.Transform
import Ivg.Gen.Tie.Code.Paint
import Ivg.Gen.Tie.Code.Vec
import Ivg.Obligations
/-!
# C16 — invariances of rendering (the repository's part)

Property text (the clauses this file settles; pixels come from golang.org/x/image/vector, which is not
modelled): "(a) drawn into a rectangle at any offset … (c) coloured through palette indices, registers
and blends versus the equivalent direct colours. … the configured compositing operator applies to the
first drawn path only, later paths compositing source-over."

What the repository contributes to these clauses is the sequence of calls the Renderer makes on the
rasteriser (`RasterOp`s: `Reset`, `MoveTo`, …, `Draw(r, paint)`), and the operator `vec.Rasterizer`
passes to each `Draw`.  The theorems say these sequences are equal under (a) and (c); given equal
calls, equal pixels are x/image/vector's determinism.
-/
namespace Ivg.Props.C16
open Ivg Ivg.Ren Ivg.Spec.VM Ivg.Lemmas.RendererVM Ivg.VecRaster

variable {α β : Type} [Arith α] [Arith β] [Wide α β]

/-! ## (a) offset of the destination rectangle -/

/-- Clause (a): pointing the Renderer at the same rectangle moved by `(ox, oy)` and delivering the same
    call sequence makes exactly the same rasteriser calls (the rasteriser is reset to the same size and
    receives the same path coordinates and paints), except that each `Draw` targets the moved
    rectangle.  `arc` may be any arc implementation that only adds path segments and does not look at
    the rectangle. -/
theorem origin_independent (arc : ArcFn α β) (hArc : ArcRectIndep arc) (hPure : ArcPure arc) (posInf : α)
    (z0 : Renderer α β) (r : Rect) (ox oy : Int) (p : List (Call α)) :
    ((z0.setRasterizer (Rect.translate r ox oy)).run arc posInf p).2 =
      ((z0.setRasterizer r).run arc posInf p).2.map (retarget (Rect.norm (Rect.translate r ox oy))) :=
  Lemmas.RendererVM.origin_independent arc hArc hPure posInf z0 r ox oy p
/-- both arc hypotheses hold for the model of `AbsArcTo` -/
example : ArcRectIndep arcF32 ∧ ArcPure arcF32 := ⟨arcF32_rectIndep, arcF32_pure⟩

/-- One call, same statement with the resulting states: a Renderer pointed at another rectangle of the
    same size goes through the same states (up to the rectangle). -/
theorem origin_independent_step (arc : ArcFn α β) (hArc : ArcRectIndep arc) (hPure : ArcPure arc)
    (posInf : α) (z : Renderer α β) (r' : Rect) (hx : r'.dx = z.r.dx) (hy : r'.dy = z.r.dy) (c : Call α) :
    Renderer.step arc posInf { z with r := r' } c =
      ({ (z.step arc posInf c).1 with r := r' }, (z.step arc posInf c).2.map (retarget r')) :=
  step_setR arc hArc hPure posInf z r' hx hy c
example : (⟨110, 220, 134, 244⟩ : Rect).dx = Ex.z24.r.dx ∧ (⟨110, 220, 134, 244⟩ : Rect).dy = Ex.z24.r.dy := by
  decide

/-! ## (c) colour indirection -/

/-- Clause (c): replacing in a program the colour operand of every `SetCReg` — palette index, register
    reference, blend — by the direct RGBA colour the specification's machine resolves it to at that
    point (`directify` threads the machine state, starting from the state the Renderer represents)
    drives the Renderer through exactly the same states and makes exactly the same rasteriser calls
    with the same paints.  Any program, any Renderer state, any arc implementation. -/
theorem colour_indirection (arc : ArcFn α β) (posInf : α) (p : List (Call α)) (z : Renderer α β) :
    z.run arc posInf (directify posInf (absVM z) p) = z.run arc posInf p :=
  Lemmas.RendererVM.colour_indirection arc posInf p z

/-- … for a whole graphic delivered to any Renderer: the machine state after `Reset` is the
    specification's initial state for the custom palette. -/
theorem colour_indirection_program (arc : ArcFn α β) (posInf : α) (z0 : Renderer α β) (vb : ViewBox α)
    (pal : Palette) (body : List (Call α)) :
    z0.run arc posInf (.reset vb pal :: directify posInf (VM.init posInf pal) body) =
      z0.run arc posInf (.reset vb pal :: body) := by
  rw [run_cons, run_cons]
  have h1 : z0.step arc posInf (.reset vb pal) = (z0.reset posInf vb pal, []) := rfl
  rw [h1, ← abs_reset z0 posInf vb pal, Lemmas.RendererVM.colour_indirection]
set_option maxRecDepth 100000 in
/-- the transformer is not the identity: in `Ex.body` the palette-index, register-reference and blend
    operands become direct colours (opaque black, opaque black, black at alpha 0x40) -/
example : ((directify Ex.posInf (VM.init Ex.posInf defaultPalette) Ex.body).drop 21).take 3 =
    [.setCReg 3 false (Color.rgbaColor ⟨0, 0, 0, 0xff⟩), .setCReg 4 false (Color.rgbaColor ⟨0, 0, 0, 0xff⟩),
     .setCReg 5 false (Color.rgbaColor ⟨0, 0, 0, 0x40⟩)] := by decide +kernel

/-! ## the configured compositing operator -/

/-- Clause "the configured compositing operator applies to the first drawn path only, later paths
    compositing source-over", in `raster/vec`: over any sequence of rasteriser calls — resets, path
    operations, draws — starting with `DrawOp = op`, the operators used by the successive draws are
    `op, Over, Over, …` (the promoted `Reset` of the embedded `vector.Rasterizer` cannot clear the
    outer field; `Draw` copies it inward and then sets it to `Over`). -/
theorem drawop_first_only (z : Rasterizer) (cs : List RCall) :
    z.run cs = match cs.count .draw with
      | 0 => []
      | n + 1 => z.drawOp :: List.replicate n .over :=
  Lemmas.RendererVM.drawop_first_only z cs
example : (⟨.src, .over⟩ : Rasterizer).run [.reset, .pathOp, .draw, .reset, .pathOp, .draw, .reset, .draw] =
    [.src, .over, .over] := by decide

/-- … composed with the Renderer: for a program that respects the protocol, the operators with which
    its paths are composited are the configured one for the first path that the machine paints and
    `Over` for all later ones (paths that are not painted do not consume it). -/
theorem renderer_drawops (arc : ArcFn α β) (hArc : ArcPure arc) (posInf : α) (z0 : Renderer α β)
    (vb : ViewBox α) (pal : Palette) (body : List (Call α)) (hb : Body body) (v : Rasterizer) :
    v.run ((z0.run arc posInf (.reset vb pal :: body)).2.map toRCall) =
      match (VM.paints posInf z0.r.dy (VM.init posInf pal) body).length with
      | 0 => []
      | n + 1 => v.drawOp :: List.replicate n .over := by
  rw [Lemmas.RendererVM.drawop_first_only, count_draw,
    Lemmas.RendererVM.render_refines_vm arc hArc posInf z0 vb pal body hb, List.length_map]
  generalize (VM.paints posInf z0.r.dy (VM.init posInf pal) body).length = n
  cases n <;> rfl
example : Body Ex.body := Ex.body_ok


/-! ## (b) the same graphic with viewBox, coordinates and gradient matrices scaled — exact arithmetic

Model instantiated at `ℚ` (`Ivg/Lemmas/ScaleQ.lean`); the scalar is ANY `k ≠ 0`.
`ScaleQ.scaleCall k` multiplies the viewBox of `Reset` and every coordinate operand (absolute and relative;
arc radii and end point, not rotation and flags) by `k`; `ScaleQ.scaleProgram k role` does so for a program and
divides by `k` the operand of the `SetNReg` calls at the positions marked by `role` — those that write the
entries `a, b, d, e` of a gradient's matrix (viewBox space → gradient space; `c, f` and stop offsets are not
scaled).  `ScaleQ.Scaled k z z'`: `z'` is the state `z` re-expressed at scale `k` (see `scaled_iff`). -/
section scaling
open Ivg.ScaleQ Ivg.RenderHist
variable [SqrtQ]

omit [SqrtQ] in
/-- what `Scaled k z z'` says: same rectangle, selectors, colour registers, palette, LOD, flags, paint, and
    the same pen / sub-path start / smooth point (they live in PIXEL space); viewBox `k • vb`; scale `/ k`, bias
    `· k`.  Nothing about the number registers (`NRegRel`, `initGradient_scaled`). -/
theorem scaled_iff (k : ℚ) (z z' : Renderer ℚ ℚ) :
    Scaled k z z' ↔
      (z'.r = z.r ∧ z'.viewBox = scaleVB k z.viewBox ∧
       z'.scaleX = z.scaleX / k ∧ z'.biasX = k * z.biasX ∧ z'.scaleY = z.scaleY / k ∧ z'.biasY = k * z.biasY ∧
       z'.palette = z.palette ∧ z'.lod0 = z.lod0 ∧ z'.lod1 = z.lod1 ∧ z'.cSel = z.cSel ∧ z'.nSel = z.nSel ∧
       z'.disabled = z.disabled ∧ z'.prevSmoothType = z.prevSmoothType ∧ z'.prevSmoothX = z.prevSmoothX ∧
       z'.prevSmoothY = z.prevSmoothY ∧ z'.fill = z.fill ∧ z'.cReg = z.cReg ∧
       z'.penX = z.penX ∧ z'.penY = z.penY ∧ z'.firstX = z.firstX ∧ z'.firstY = z.firstY) :=
  ScaleQ.scaled_iff k z z'

omit [SqrtQ] in
/-- the relation between the transforms is the one `recalcTransform` produces: if `z` has the recalculated
    transform of its rectangle and viewBox (`RenderHist.TransformOK`, an invariant of the Renderer's life,
    `C05.transform_invariant`), so has its re-expression for the scaled viewBox. -/
theorem scaled_transformOK (k : ℚ) (z : Renderer ℚ ℚ) (n' : Regs ℚ) (h : TransformOK z) :
    TransformOK (sc k z n') := sc_transformOK k z n' h

/-- "gradient matrices scaled" (`initGradient_scaled`): in related states, if the stop offsets of the gradient
    value `rgba` agree and its six matrix registers satisfy `a' = a/k, b' = b/k, c' = c, d' = d/k, e' = e/k,
    f' = f`, then `initGradient` returns the SAME result — same validity verdict, same stops, same
    pixel-space matrix. -/
theorem initGradient_scaled {k : ℚ} (hk : k ≠ 0) (z z' : Renderer ℚ ℚ) (h : Scaled k z z') (rgba : RGBA)
    (hstops : ∀ j, j < (decodeGradient rgba).nStops.toNat →
      z'.nReg.get6 ((decodeGradient rgba).nBase + (0 + UInt8.ofNat j)) =
        z.nReg.get6 ((decodeGradient rgba).nBase + (0 + UInt8.ofNat j)))
    (ha : z'.nReg.get6 ((decodeGradient rgba).nBase - 6) = z.nReg.get6 ((decodeGradient rgba).nBase - 6) / k)
    (hb : z'.nReg.get6 ((decodeGradient rgba).nBase - 5) = z.nReg.get6 ((decodeGradient rgba).nBase - 5) / k)
    (hc : z'.nReg.get6 ((decodeGradient rgba).nBase - 4) = z.nReg.get6 ((decodeGradient rgba).nBase - 4))
    (hd : z'.nReg.get6 ((decodeGradient rgba).nBase - 3) = z.nReg.get6 ((decodeGradient rgba).nBase - 3) / k)
    (he : z'.nReg.get6 ((decodeGradient rgba).nBase - 2) = z.nReg.get6 ((decodeGradient rgba).nBase - 2) / k)
    (hf : z'.nReg.get6 ((decodeGradient rgba).nBase - 1) = z.nReg.get6 ((decodeGradient rgba).nBase - 1)) :
    z'.initGradient rgba = z.initGradient rgba :=
  ScaleQ.initGradient_scaled' hk z z' h rgba hstops ha hb hc hd he hf

/-- One call (`step_scaled`): for every call other than `SetNReg` — the styling calls, `StartPath`,
    `ClosePathEndPath`, the sixteen line/curve verbs absolute and relative, and arcs for an arc function that
    is covariant under the re-expression (`ArcScale`) — related states make the same rasteriser calls for
    `c` and `scaleCall k c`, and stay related.  For a `StartPath` that selects a gradient value the agreement
    of `initGradient` is a hypothesis (discharged by `initGradient_scaled`). -/
theorem step_scaled {k : ℚ} (hk : k ≠ 0) (arc : ArcFn ℚ ℚ) (hArc : ArcScale arc k) (posInf : ℚ)
    (z z' : Renderer ℚ ℚ) (h : Scaled k z z') (c : Call ℚ) (hn : isSetNReg c = false)
    (hg : ∀ adj x y, c = .startPath adj x y →
      (z.cReg.get6 (z.cSel - adj)).validPremul = false → (z.cReg.get6 (z.cSel - adj)).validGradient = true →
      z'.initGradient (z.cReg.get6 (z.cSel - adj)) = z.initGradient (z.cReg.get6 (z.cSel - adj))) :
    (z'.step arc posInf (scaleCall k c)).2 = (z.step arc posInf c).2 ∧
    Scaled k (z.step arc posInf c).1 (z'.step arc posInf (scaleCall k c)).1 :=
  ScaleQ.step_scaled hk arc hArc posInf z z' h c hn hg
example : isSetNReg (.d4 .s 1 2 3 4 : Call ℚ) = false ∧ (4 : ℚ) ≠ 0 := ⟨rfl, by norm_num⟩
/-- an exactly covariant arc function (the chord to the end point) -/
example : ArcScale ScaleQ.Ex.chordArc 4 := ScaleQ.Ex.chordArc_scale (by norm_num)

/-- … unconditional when the path is painted with a flat colour (or not at all). -/
theorem step_scaled_flat {k : ℚ} (hk : k ≠ 0) (arc : ArcFn ℚ ℚ) (hArc : ArcScale arc k) (posInf : ℚ)
    (z z' : Renderer ℚ ℚ) (h : Scaled k z z') (c : Call ℚ) (hn : isSetNReg c = false)
    (hflat : ∀ adj x y, c = .startPath adj x y →
      (z.cReg.get6 (z.cSel - adj)).validPremul = true ∨ (z.cReg.get6 (z.cSel - adj)).validGradient = false) :
    (z'.step arc posInf (scaleCall k c)).2 = (z.step arc posInf c).2 ∧
    Scaled k (z.step arc posInf c).1 (z'.step arc posInf (scaleCall k c)).1 :=
  ScaleQ.step_scaled_flat hk arc hArc posInf z z' h c hn hflat

/-- … and `SetNReg` with any two operands keeps the states related. -/
theorem step_scaled_setNReg (k : ℚ) (arc : ArcFn ℚ ℚ) (posInf : ℚ) (z z' : Renderer ℚ ℚ) (h : Scaled k z z')
    (adj : UInt8) (incr : Bool) (f f' : ℚ) :
    (z'.step arc posInf (.setNReg adj incr f')).2 = (z.step arc posInf (.setNReg adj incr f)).2 ∧
    Scaled k (z.step arc posInf (.setNReg adj incr f)).1 (z'.step arc posInf (.setNReg adj incr f')).1 :=
  ScaleQ.step_scaled_setNReg k arc posInf z z' h adj incr f f'

/-- Programs (`run_scaled`): from related states whose number registers are related by the marking `mk`
    (`NRegRel`: marked registers `/ k`, unmarked equal), if along the run of `p` every `StartPath` that selects a
    gradient value finds the registers of `a, b, d, e` last written by marked `SetNReg` calls and those of
    `c, f` and the stop offsets by unmarked ones (`rolesOK`, a Boolean evaluated on the ORIGINAL program), the
    scaled program makes exactly the rasteriser calls of `p` and the final states are related. -/
theorem run_scaled {k : ℚ} (hk : k ≠ 0) (arc : ArcFn ℚ ℚ) (hArc : ArcScale arc k) (posInf : ℚ) (role : Nat → Bool)
    (p : List (Call ℚ)) (i : Nat) (mk : Nat → Bool) (z z' : Renderer ℚ ℚ) (h : Scaled k z z')
    (hrel : NRegRel k mk z.nReg z'.nReg) (hok : rolesOK arc posInf role i mk z p = true) :
    (z'.run arc posInf (scaleFrom k role i p)).2 = (z.run arc posInf p).2 ∧
    Scaled k (z.run arc posInf p).1 (z'.run arc posInf (scaleFrom k role i p)).1 :=
  ScaleQ.run_scaled' hk arc hArc posInf role p i mk z z' h hrel hok

/-- **Clause (b), exact arithmetic (`pow2_scaling_exact`).**  For EVERY `k > 0` (in particular every power of
    two, `pow2_scaling_exact_pow2`): a whole graphic `Reset vb pal :: body`, delivered to a Renderer in any
    state `z0` (any rectangle, any earlier history), and the same graphic expressed with the viewBox, all
    coordinates and the gradient matrices scaled by `k`, make EXACTLY the same rasteriser calls — the same
    `Reset(w, h)`, the same path coordinates in pixel space, the same `Draw`s with the same paints (flat
    colours, and gradients with the same stops and the same pixel-space matrix).

    Covered: all styling and drawing calls, relative and absolute, smooth curves, close-and-move, LOD, disabled
    paths, invalid gradients; arcs UNDER the hypothesis `ArcScale arc k` (exact covariance of the arc function).
    Hypothesis `rolesOK`: `role` marks the right `SetNReg` calls (it holds for every `role` when no path
    selects a gradient value, `pow2_scaling_exact_flat`).

    NOT covered: this is the model evaluated in EXACT arithmetic.  It shows that the re-expression is the
    identity on the rasteriser's input as a matter of algebra.  That the float32/float64 evaluation
    (`scaleX = dx / (k·W)`, `scaleX · (k·x + k·bias)`, `a/k · (1 / (scaleX/k))`, …) commutes with scaling by a
    power of two — true for IEEE arithmetic absent overflow, underflow and subnormals — is NOT proved here, nor
    that `arcF32` (float64 trigonometry) is covariant beyond rounding; the differential harness compares the
    real pixels for these. -/
theorem pow2_scaling_exact {k : ℚ} (hk : 0 < k) (arc : ArcFn ℚ ℚ) (hArc : ArcScale arc k) (posInf : ℚ)
    (role : Nat → Bool) (z0 : Renderer ℚ ℚ) (vb : ViewBox ℚ) (pal : Palette) (body : List (Call ℚ))
    (mk0 : Nat → Bool) (hroles : rolesOK arc posInf role 0 mk0 z0 (.reset vb pal :: body) = true) :
    (z0.run arc posInf (scaleProgram k role (.reset vb pal :: body))).2 =
      (z0.run arc posInf (.reset vb pal :: body)).2 :=
  ScaleQ.program_scaled (ne_of_gt hk) arc hArc posInf role z0 vb pal body mk0 hroles
/-- … for the powers of two `2^n`, `n` any integer (scaling up or down). -/
theorem pow2_scaling_exact_pow2 (n : ℤ) (arc : ArcFn ℚ ℚ) (hArc : ArcScale arc ((2 : ℚ) ^ n)) (posInf : ℚ)
    (role : Nat → Bool) (z0 : Renderer ℚ ℚ) (vb : ViewBox ℚ) (pal : Palette) (body : List (Call ℚ))
    (mk0 : Nat → Bool) (hroles : rolesOK arc posInf role 0 mk0 z0 (.reset vb pal :: body) = true) :
    (z0.run arc posInf (scaleProgram ((2 : ℚ) ^ n) role (.reset vb pal :: body))).2 =
      (z0.run arc posInf (.reset vb pal :: body)).2 :=
  ScaleQ.program_scaled (zpow_ne_zero n (by norm_num)) arc hArc posInf role z0 vb pal body mk0 hroles

/-- … and with no hypothesis on `role` for graphics whose paths all select flat colours. -/
theorem pow2_scaling_exact_flat {k : ℚ} (hk : 0 < k) (arc : ArcFn ℚ ℚ) (hArc : ArcScale arc k) (posInf : ℚ)
    (role : Nat → Bool) (z0 : Renderer ℚ ℚ) (vb : ViewBox ℚ) (pal : Palette) (body : List (Call ℚ))
    (hflat : ∀ (pre : List (Call ℚ)) (adj : UInt8) (x y : ℚ) (post : List (Call ℚ)),
      Call.reset vb pal :: body = pre ++ .startPath adj x y :: post →
        ((z0.run arc posInf pre).1.cReg.get6 ((z0.run arc posInf pre).1.cSel - adj)).validPremul = true ∨
        ((z0.run arc posInf pre).1.cReg.get6 ((z0.run arc posInf pre).1.cSel - adj)).validGradient = false) :
    (z0.run arc posInf (scaleProgram k role (.reset vb pal :: body))).2 =
      (z0.run arc posInf (.reset vb pal :: body)).2 :=
  ScaleQ.program_scaled_flat (ne_of_gt hk) arc hArc posInf role z0 vb pal body hflat

end scaling

section scaling_examples
open Ivg.ScaleQ
-- non-vacuity, k = 4: a graphic with a flat path (relative line, relative quadratic and cubic, smooth
-- quadratic) and a path painted with a two-stop linear gradient (relative arc, close-and-move, H, v); `role`
-- marks the four `SetNReg` calls that write a, b, d, e; both paths are drawn, the second with a gradient
example : (0 : ℚ) < 4 ∧ ArcScale ScaleQ.Ex.chordArc 4 ∧
    rolesOK ScaleQ.Ex.chordArc 1000 ScaleQ.Ex.role 0 (fun _ => false)
      ((Renderer.zero : Renderer ℚ ℚ).setRasterizer ⟨0, 0, 48, 24⟩) ScaleQ.Ex.prog = true :=
  ⟨by norm_num, ScaleQ.Ex.chordArc_scale (by norm_num), ScaleQ.Ex.prog_rolesOK⟩
example : (drawsOf (((Renderer.zero : Renderer ℚ ℚ).setRasterizer ⟨0, 0, 48, 24⟩).run ScaleQ.Ex.chordArc 1000
    ScaleQ.Ex.prog).2).map (fun d => match d.2 with | .gradient _ => true | .flat _ => false) = [false, true] :=
  ScaleQ.Ex.prog_draws
-- what the scaled graphic looks like: viewBox and coordinates ×4, matrix entries a, b, d, e ÷4, c, f and the
-- stop offsets untouched, arc radii and end point ×4 but not its rotation
example : ((scaleProgram 4 ScaleQ.Ex.role ScaleQ.Ex.prog).drop 11).take 8 =
      [.setNReg 0 true (1 / 256), .setNReg 0 true 0, .setNReg 0 true (1 / 2),
       .setNReg 0 true 0, .setNReg 0 true (1 / 256), .setNReg 0 true (1 / 2),
       .setNReg 0 true 0, .setNReg 0 true 1] ∧
    (scaleProgram 4 ScaleQ.Ex.role ScaleQ.Ex.prog).take 3 =
      [.reset ⟨-128, -128, 128, 128⟩ defaultPalette, .startPath 0 (-64) 32, .d2 .l 12 16] ∧
    ((scaleProgram 4 ScaleQ.Ex.role ScaleQ.Ex.prog).drop 22).take 2 =
      [.d1 .H 20, .arc true 12 8 30 true false 16 16] := ScaleQ.Ex.prog_scaled_shape
end scaling_examples

/-! ## the adapter's `Draw`, as the code has it

`Ivg/Model/VecAdapter.lean` models `(*vec.Rasterizer).Draw` with everything it hands to the library rasteriser it wraps
(operator, destination, rectangle, source, source point); `Gen.Tie.vecDraw_code_tie` proves the method as translated
from raster/vec/rasterizer.go on this run equal to it, for all arguments. -/

/-- Any history of Draw calls on the adapter — whatever the rectangles (empty, overhanging the image, …), the sources
    (flat colours, gradients) and the source points: the library is asked for exactly these draws, in order, into the
    adapter's destination, with the rectangle, source and source point of each call UNCHANGED, the configured operator
    for the first and source-over for every later one. -/
theorem adapter_draws {H : Type} (z : Vec.Adapter H) (ds : List (Vec.DrawArgs H)) :
    (z.draws ds).inner = z.inner ++ Vec.expected z.dst z.drawOp ds ∧ (z.draws ds).dst = z.dst :=
  ⟨Vec.draws_inner z ds, Vec.draws_dst z ds⟩

/-- the operator model above (`VecRaster`, two fields) and the adapter model agree on the operator of every Draw -/
def opCode : VecRaster.Op → Vec.Op
  | .over => 0
  | .src => 1
theorem adapter_operator_agrees {H : Type} (z : VecRaster.Rasterizer) (a : Vec.Adapter H) (h : a.drawOp = opCode z.drawOp)
    (r : Ren.Rect) (src : H) (spX spY : Int) :
    (a.draw r src spX spY).inner = a.inner ++ [.setOp (opCode z.draw.2), .draw a.dst r src spX spY] ∧
    (a.draw r src spX spY).drawOp = opCode z.draw.1.drawOp := by
  simp [Vec.Adapter.draw, VecRaster.Rasterizer.draw, h, opCode, Vec.over]
example : ((⟨7, 1, []⟩ : Vec.Adapter Nat).draws [⟨⟨0, 0, 0, 0⟩, 3, 0, 0⟩, ⟨⟨2, 2, 6, 6⟩, 5, 0, 0⟩]).inner =
    [.setOp 1, .draw 7 ⟨0, 0, 0, 0⟩ 3 0 0, .setOp 0, .draw 7 ⟨2, 2, 6, 6⟩ 5 0 0] := by decide

/-!
## Not proved here

* Pixels: `vector.Rasterizer` (accumulation, `Draw`'s compositing) is outside the repository and not
  modelled; the theorems stop at the calls made on it.  That drawing at `r.Min + (ox, oy)` with the
  same mask and paint yields the translated pixels is a property of x/image/vector (`Draw` aligns
  `r.Min` with `sp = (0,0)`) — for gradient paints note that `Gradient.At` is evaluated in the
  rasteriser's coordinates relative to `r.Min`, which the model's `Draw (r, paint)` with `sp = (0,0)`
  records but does not interpret.
* Clause (b), power-of-two scaling: proved above for the model at EXACT arithmetic (`pow2_scaling_exact`, any
  `k > 0`): the scaled graphic makes the same rasteriser calls.  NOT proved: that float32/float64 evaluation
  commutes with multiplication by a power of two (it does for IEEE arithmetic absent overflow, underflow and
  subnormal results; e.g. `scaleX = dx / (k·W)` and `a/k · (1/(scaleX/k))` are then exact rescalings) — no
  theorem about the (F32, F64) instance is given for clause (b), the differential harness compares pixels; that
  `arcF32` satisfies `ArcScale` (it can only up to rounding of its float64 trigonometry); and the choice of
  `role` is an input — a `SetNReg` operand's role is not visible at the call level, so a graphic that uses one
  register write both as a matrix entry `a, b, d, e` and as a stop offset or `c, f` has no scaled form
  (`rolesOK` is then false).
* `NewRasterizer` (which calls the inner `Reset`) is not modelled: it does not touch the outer `DrawOp`
  (`Gen.Tie.vecRasterizer_fields_tie` pins the field list).
-/

end Ivg.Props.C16

#obligations C16 [
  Ivg.Props.C16.origin_independent, Ivg.Props.C16.origin_independent_step,
  Ivg.Props.C16.colour_indirection, Ivg.Props.C16.colour_indirection_program,
  Ivg.Props.C16.drawop_first_only, Ivg.Props.C16.renderer_drawops,
  Ivg.Props.C16.adapter_draws, Ivg.Props.C16.adapter_operator_agrees,
  -- regenerated code (translator): (*vec.Rasterizer).Draw, the library rasteriser an opaque object
  Ivg.Gen.Tie.vecDraw_code_tie,
  Ivg.Props.C16.scaled_iff, Ivg.Props.C16.scaled_transformOK, Ivg.Props.C16.initGradient_scaled,
  Ivg.Props.C16.step_scaled, Ivg.Props.C16.step_scaled_flat, Ivg.Props.C16.step_scaled_setNReg,
  Ivg.Props.C16.run_scaled, Ivg.Props.C16.pow2_scaling_exact, Ivg.Props.C16.pow2_scaling_exact_pow2,
  Ivg.Props.C16.pow2_scaling_exact_flat,
  Ivg.Lemmas.RendererVM.arcF32_rectIndep, Ivg.Lemmas.RendererVM.arcF32_pure,
  Ivg.Gen.Tie.vecRasterizer_fields_tie, Ivg.Gen.Tie.renderer_fields_tie,
  -- regenerated code (translator, Ivg/Gen/Code) = model, for all inputs: Transform
  Ivg.Gen.Tie.rectangle_Dx_code_tie,
  Ivg.Gen.Tie.rectangle_Dy_code_tie,
  Ivg.Gen.Tie.renderer_absX_code_tie,
  Ivg.Gen.Tie.renderer_absY_code_tie,
  Ivg.Gen.Tie.renderer_relX_code_tie,
  Ivg.Gen.Tie.renderer_relY_code_tie,
  Ivg.Gen.Tie.renderer_unabsX_code_tie,
  Ivg.Gen.Tie.renderer_unabsY_code_tie,
  Ivg.Gen.Tie.renderer_absVec2_code_tie,
  Ivg.Gen.Tie.renderer_recalcTransform_code_tie,
  Ivg.Gen.Tie.renderer_recalcTransform_code_tie_frame,
  -- regenerated code (translator): StartPath (paint choice, LOD test, gradient initialisation, Reset+MoveTo) and ClosePathEndPath (one Draw over the target rectangle, source point (0,0))
  Ivg.Gen.Tie.closePathEndPath_code_tie,
  Ivg.Gen.Tie.startPath_code_tie]
