import Ivg.Lemmas.RendererVM
import Ivg.Gen.Tie.RendererFields
import Ivg.Gen.Tie.VecRasterizerFields
import Ivg.Obligations
/-!
# C16 — invariances of rendering (the repository's part)

Property text (the clauses this file settles; pixels come from golang.org/x/image/vector, which is not
modelled): "(a) drawn into a rectangle at any offset … (c) coloured through palette indices, registers
and blends versus the equivalent direct colours. … the configured compositing operator applies to the
first drawn path only, later paths compositing source-over."

What the repository contributes to these clauses is the sequence of calls the Renderer makes on the
rasteriser (`RasterOp`s: `Reset`, `MoveTo`, …, `Draw(r, paint)`), and the operator `vec.Rasterizer`
passes to each `Draw`.  The theorems say these sequences are equal under (a) and (c); given equal
calls, equal pixels are x/image/vector's determinism.
-/
namespace Ivg.Props.C16
open Ivg Ivg.Ren Ivg.Spec.VM Ivg.Lemmas.RendererVM Ivg.VecRaster

variable {α β : Type} [Arith α] [Arith β] [Wide α β]

/-! ## (a) offset of the destination rectangle -/

/-- Clause (a): pointing the Renderer at the same rectangle moved by `(ox, oy)` and delivering the same
    call sequence makes exactly the same rasteriser calls (the rasteriser is reset to the same size and
    receives the same path coordinates and paints), except that each `Draw` targets the moved
    rectangle.  `arc` may be any arc implementation that only adds path segments and does not look at
    the rectangle. -/
theorem origin_independent (arc : ArcFn α β) (hArc : ArcRectIndep arc) (hPure : ArcPure arc) (posInf : α)
    (z0 : Renderer α β) (r : Rect) (ox oy : Int) (p : List (Call α)) :
    ((z0.setRasterizer (Rect.translate r ox oy)).run arc posInf p).2 =
      ((z0.setRasterizer r).run arc posInf p).2.map (retarget (Rect.norm (Rect.translate r ox oy))) :=
  Lemmas.RendererVM.origin_independent arc hArc hPure posInf z0 r ox oy p
/-- both arc hypotheses hold for the model of `AbsArcTo` -/
example : ArcRectIndep arcF32 ∧ ArcPure arcF32 := ⟨arcF32_rectIndep, arcF32_pure⟩

/-- One call, same statement with the resulting states: a Renderer pointed at another rectangle of the
    same size goes through the same states (up to the rectangle). -/
theorem origin_independent_step (arc : ArcFn α β) (hArc : ArcRectIndep arc) (hPure : ArcPure arc)
    (posInf : α) (z : Renderer α β) (r' : Rect) (hx : r'.dx = z.r.dx) (hy : r'.dy = z.r.dy) (c : Call α) :
    Renderer.step arc posInf { z with r := r' } c =
      ({ (z.step arc posInf c).1 with r := r' }, (z.step arc posInf c).2.map (retarget r')) :=
  step_setR arc hArc hPure posInf z r' hx hy c
example : (⟨110, 220, 134, 244⟩ : Rect).dx = Ex.z24.r.dx ∧ (⟨110, 220, 134, 244⟩ : Rect).dy = Ex.z24.r.dy := by
  decide

/-! ## (c) colour indirection -/

/-- Clause (c): replacing in a program the colour operand of every `SetCReg` — palette index, register
    reference, blend — by the direct RGBA colour the specification's machine resolves it to at that
    point (`directify` threads the machine state, starting from the state the Renderer represents)
    drives the Renderer through exactly the same states and makes exactly the same rasteriser calls
    with the same paints.  Any program, any Renderer state, any arc implementation. -/
theorem colour_indirection (arc : ArcFn α β) (posInf : α) (p : List (Call α)) (z : Renderer α β) :
    z.run arc posInf (directify posInf (absVM z) p) = z.run arc posInf p :=
  Lemmas.RendererVM.colour_indirection arc posInf p z

/-- … for a whole graphic delivered to any Renderer: the machine state after `Reset` is the
    specification's initial state for the custom palette. -/
theorem colour_indirection_program (arc : ArcFn α β) (posInf : α) (z0 : Renderer α β) (vb : ViewBox α)
    (pal : Palette) (body : List (Call α)) :
    z0.run arc posInf (.reset vb pal :: directify posInf (VM.init posInf pal) body) =
      z0.run arc posInf (.reset vb pal :: body) := by
  rw [run_cons, run_cons]
  have h1 : z0.step arc posInf (.reset vb pal) = (z0.reset posInf vb pal, []) := rfl
  rw [h1, ← abs_reset z0 posInf vb pal, Lemmas.RendererVM.colour_indirection]
set_option maxRecDepth 100000 in
/-- the transformer is not the identity: in `Ex.body` the palette-index, register-reference and blend
    operands become direct colours (opaque black, opaque black, black at alpha 0x40) -/
example : ((directify Ex.posInf (VM.init Ex.posInf defaultPalette) Ex.body).drop 21).take 3 =
    [.setCReg 3 false (Color.rgbaColor ⟨0, 0, 0, 0xff⟩), .setCReg 4 false (Color.rgbaColor ⟨0, 0, 0, 0xff⟩),
     .setCReg 5 false (Color.rgbaColor ⟨0, 0, 0, 0x40⟩)] := by decide +kernel

/-! ## the configured compositing operator -/

/-- Clause "the configured compositing operator applies to the first drawn path only, later paths
    compositing source-over", in `raster/vec`: over any sequence of rasteriser calls — resets, path
    operations, draws — starting with `DrawOp = op`, the operators used by the successive draws are
    `op, Over, Over, …` (the promoted `Reset` of the embedded `vector.Rasterizer` cannot clear the
    outer field; `Draw` copies it inward and then sets it to `Over`). -/
theorem drawop_first_only (z : Rasterizer) (cs : List RCall) :
    z.run cs = match cs.count .draw with
      | 0 => []
      | n + 1 => z.drawOp :: List.replicate n .over :=
  Lemmas.RendererVM.drawop_first_only z cs
example : (⟨.src, .over⟩ : Rasterizer).run [.reset, .pathOp, .draw, .reset, .pathOp, .draw, .reset, .draw] =
    [.src, .over, .over] := by decide

/-- … composed with the Renderer: for a program that respects the protocol, the operators with which
    its paths are composited are the configured one for the first path that the machine paints and
    `Over` for all later ones (paths that are not painted do not consume it). -/
theorem renderer_drawops (arc : ArcFn α β) (hArc : ArcPure arc) (posInf : α) (z0 : Renderer α β)
    (vb : ViewBox α) (pal : Palette) (body : List (Call α)) (hb : Body body) (v : Rasterizer) :
    v.run ((z0.run arc posInf (.reset vb pal :: body)).2.map toRCall) =
      match (VM.paints posInf z0.r.dy (VM.init posInf pal) body).length with
      | 0 => []
      | n + 1 => v.drawOp :: List.replicate n .over := by
  rw [Lemmas.RendererVM.drawop_first_only, count_draw,
    Lemmas.RendererVM.render_refines_vm arc hArc posInf z0 vb pal body hb, List.length_map]
  generalize (VM.paints posInf z0.r.dy (VM.init posInf pal) body).length = n
  cases n <;> rfl
example : Body Ex.body := Ex.body_ok

/-!
## Not proved here

* Pixels: `vector.Rasterizer` (accumulation, `Draw`'s compositing) is outside the repository and not
  modelled; the theorems stop at the calls made on it.  That drawing at `r.Min + (ox, oy)` with the
  same mask and paint yields the translated pixels is a property of x/image/vector (`Draw` aligns
  `r.Min` with `sp = (0,0)`) — for gradient paints note that `Gradient.At` is evaluated in the
  rasteriser's coordinates relative to `r.Min`, which the model's `Draw (r, paint)` with `sp = (0,0)`
  records but does not interpret.
* Clause (b) / power-of-two scaling (`pow2_scaling`) is handled elsewhere.
* `NewRasterizer` (which calls the inner `Reset`) and the `Dst` field are not modelled: neither touches
  the outer `DrawOp` (`Gen.Tie.vecRasterizer_fields_tie` pins the field list).
-/

end Ivg.Props.C16

#obligations C16 [
  Ivg.Props.C16.origin_independent, Ivg.Props.C16.origin_independent_step,
  Ivg.Props.C16.colour_indirection, Ivg.Props.C16.colour_indirection_program,
  Ivg.Props.C16.drawop_first_only, Ivg.Props.C16.renderer_drawops,
  Ivg.Lemmas.RendererVM.arcF32_rectIndep, Ivg.Lemmas.RendererVM.arcF32_pure,
  Ivg.Gen.Tie.vecRasterizer_fields_tie, Ivg.Gen.Tie.renderer_fields_tie]
