import Ivg.Lemmas.Codec
import Ivg.Gen.Tie
import Ivg.Obligations
/-!
# C08 — number encodings: lossless where possible, bounded error, minimal

Property text: "For every natural number below 2^30 and every float32, the natural, real, coordinate
and zero-to-one encodings decode back to a numerically equal value whenever the value is
representable in the form chosen, and otherwise to within the format's 30-bit float precision (at
most 4 units in the last place, sign and infinities preserved, NaN stays non-finite); naturals, reals
and coordinates always use the shortest form that represents the value exactly; re-encoding a decoded
real or coordinate never changes its value or makes it longer; low-resolution coordinates in
[-128,128) become the nearest multiple of 1/64; and a number cut short by end of input is reported as
an error, never read past the end."

The theorems below are about the executable model (`Ivg.Enc.*`, `Ivg.Dec.*`), which the differential
suite ties to /repo.  Structural (S) and bit-level (B) clauses are proved in full; see the end of the
file for the float-semantic (F) clauses that are NOT proved here.

Each implication is followed by an `example` that exhibits a concrete instance of its hypotheses
(non-vacuity).
-/
namespace Ivg.Props.C08
open Ivg Num Codec

/-! ## naturals -/

/-- Clause "for every natural number below 2^30 … decode back to a numerically equal value":
    the decoder returns exactly `u`, the width the encoder used, and the untouched remainder. -/
theorem nat_roundtrip (u : Nat) (h : u < 2^30) (rest : Bytes) :
    Dec.decodeNatural (Enc.encodeNatural u ++ rest) = some (u, natWidth u, rest) :=
  decodeNatural_encodeNatural u h rest
example : (1000000 : Nat) < 2^30 := by decide
example : Dec.decodeNatural (Enc.encodeNatural 1000000 ++ [7]) = some (1000000, 4, [7]) := by decide

/-- Clause "naturals … always use the shortest form": the encoder writes 1, 2 or 4 bytes
    according to the value alone … -/
theorem nat_length (u : Nat) : (Enc.encodeNatural u).length = natWidth u := encodeNatural_length u

/-- … and no byte string that decodes to `u` is shorter than what the encoder writes. -/
theorem nat_shortest (b rest : Bytes) (u n : Nat)
    (h : Dec.decodeNatural (b ++ rest) = some (u, n, rest)) (hn : b.length = n) :
    (Enc.encodeNatural u).length ≤ b.length :=
  encodeNatural_shortest b rest u n h hn
-- a non-shortest (2-byte) spelling of 3 exists and is accepted by the decoder; the encoder uses 1 byte
example : Dec.decodeNatural ([0x0d, 0x00] ++ [9]) = some (3, 2, [9]) ∧ ([0x0d, 0x00] : Bytes).length = 2 ∧
    (Enc.encodeNatural 3).length = 1 := by decide

/-- Clause "never read past the end" (naturals): a successful decode consumed exactly the first
    `n ∈ {1,2,4}` bytes; the remainder is the input without them. -/
theorem nat_no_overread {b : Bytes} {u n : Nat} {rest : Bytes}
    (h : Dec.decodeNatural b = some (u, n, rest)) :
    (n = 1 ∨ n = 2 ∨ n = 4) ∧ b.length = n + rest.length ∧ b = b.take n ++ rest :=
  decodeNatural_consumes h
example : Dec.decodeNatural [0x05, 0x02, 0xff] = some (129, 2, [0xff]) := by decide

/-- … and the result does not depend on what follows (prefix stability). -/
theorem nat_prefix_stable {b : Bytes} {u n : Nat} {rest : Bytes}
    (h : Dec.decodeNatural b = some (u, n, rest)) (k : Bytes) :
    Dec.decodeNatural (b ++ k) = some (u, n, rest ++ k) :=
  decodeNatural_append h k

/-- Clause "a number cut short by end of input is reported as an error" (naturals): every proper
    prefix of the consumed bytes fails to decode. -/
theorem nat_truncated {b : Bytes} {u n : Nat} {rest : Bytes}
    (h : Dec.decodeNatural b = some (u, n, rest)) (k : Nat) (hk : k < n) :
    Dec.decodeNatural (b.take k) = none :=
  decodeNatural_truncated h k hk
example : Dec.decodeNatural [0x03, 0x00, 0x01, 0x00] = some (16384, 4, []) ∧ (3 : Nat) < 4 ∧
    Dec.decodeNatural ([0x03, 0x00, 0x01, 0x00].take 3) = none := by decide

/-- Every decoded natural is below 2^30 (so `nat_roundtrip` applies to it again). -/
theorem nat_range {b : Bytes} {u n : Nat} {rest : Bytes}
    (h : Dec.decodeNatural b = some (u, n, rest)) : u < 2^30 :=
  decodeNatural_lt h

/-! ## reals, coordinates, zero-to-one: framing, truncation, no over-read -/

/-- Clause "never read past the end" (real / coordinate / zero-to-one): exactly a 1-, 2- or 4-byte
    prefix is consumed. -/
theorem real_no_overread {b : Bytes} {f : F32} {rest : Bytes}
    (h : Dec.decodeReal b = some (f, rest)) : ConsumesNum b rest := decodeReal_consumes h
theorem coord_no_overread {b : Bytes} {f : F32} {rest : Bytes}
    (h : Dec.decodeCoordinate b = some (f, rest)) : ConsumesNum b rest := decodeCoordinate_consumes h
theorem z2o_no_overread {b : Bytes} {f : F32} {rest : Bytes}
    (h : Dec.decodeZeroToOne b = some (f, rest)) : ConsumesNum b rest := decodeZeroToOne_consumes h
example : Dec.decodeReal [0x06, 0x01] = some (F32.ofInt 3, [0x01]) := by decide
example : Dec.decodeCoordinate [0x81, 0x81, 0x01] = some (⟨0x3fc00000⟩, [0x01]) := by decide
example : Dec.decodeZeroToOne [0xc5, 0x0e] = some (⟨0x3d800000⟩, []) := by decide

/-- Clause "a number cut short by end of input is reported as an error"
    (real / coordinate / zero-to-one). -/
theorem real_truncated {b : Bytes} {f : F32} {rest : Bytes}
    (h : Dec.decodeReal b = some (f, rest)) (k : Nat) (hk : k < b.length - rest.length) :
    Dec.decodeReal (b.take k) = none := decodeReal_truncated h k hk
theorem coord_truncated {b : Bytes} {f : F32} {rest : Bytes}
    (h : Dec.decodeCoordinate b = some (f, rest)) (k : Nat) (hk : k < b.length - rest.length) :
    Dec.decodeCoordinate (b.take k) = none := decodeCoordinate_truncated h k hk
theorem z2o_truncated {b : Bytes} {f : F32} {rest : Bytes}
    (h : Dec.decodeZeroToOne b = some (f, rest)) (k : Nat) (hk : k < b.length - rest.length) :
    Dec.decodeZeroToOne (b.take k) = none := decodeZeroToOne_truncated h k hk
example : Dec.decodeCoordinate [0x81, 0x81, 0x01] = some (⟨0x3fc00000⟩, [0x01]) ∧
    (1 : Nat) < [0x81, 0x81, (0x01 : UInt8)].length - [(0x01 : UInt8)].length ∧
    Dec.decodeCoordinate ([0x81, 0x81, 0x01].take 1) = none := by decide

/-- Prefix stability of the three float decoders. -/
theorem real_prefix_stable {b : Bytes} {f : F32} {rest : Bytes}
    (h : Dec.decodeReal b = some (f, rest)) (k : Bytes) :
    Dec.decodeReal (b ++ k) = some (f, rest ++ k) := decodeReal_append h k
theorem coord_prefix_stable {b : Bytes} {f : F32} {rest : Bytes}
    (h : Dec.decodeCoordinate b = some (f, rest)) (k : Bytes) :
    Dec.decodeCoordinate (b ++ k) = some (f, rest ++ k) := decodeCoordinate_append h k
theorem z2o_prefix_stable {b : Bytes} {f : F32} {rest : Bytes}
    (h : Dec.decodeZeroToOne b = some (f, rest)) (k : Bytes) :
    Dec.decodeZeroToOne (b ++ k) = some (f, rest ++ k) := decodeZeroToOne_append h k

/-! ## the 4-byte form: 30-bit float precision -/

/-- Clause "otherwise to within the format's 30-bit float precision": the 4-byte encoding of ANY
    float32 decodes (with each of the three decoders) to `trunc30 f`. -/
theorem real4_roundtrip (f : F32) (rest : Bytes) :
    Dec.decodeReal (Enc.encode4ByteReal f ++ rest) = some (trunc30 f, rest) ∧
    Dec.decodeCoordinate (Enc.encode4ByteReal f ++ rest) = some (trunc30 f, rest) ∧
    Dec.decodeZeroToOne (Enc.encode4ByteReal f ++ rest) = some (trunc30 f, rest) :=
  ⟨decodeReal_encode4 f rest, decodeCoordinate_encode4 f rest, decodeZeroToOne_encode4 f rest⟩

/-- Clause "sign … preserved", exponent field preserved, low two mantissa bits cleared, mantissa
    rounded to the nearest multiple of 4 — except for the top two mantissas `7ffffe/7fffff`, which
    are truncated to `7ffffc` so that rounding never carries into the exponent. -/
theorem real4_bits (f : F32) :
    sgn (trunc30 f) = sgn f ∧ expo (trunc30 f) = expo f ∧ mant (trunc30 f) % 4 = 0 ∧
    (mant f < 0x7ffffe → mant (trunc30 f) = (mant f + 2) / 4 * 4) ∧
    (0x7ffffe ≤ mant f → mant (trunc30 f) = 0x7ffffc) :=
  Codec.real4_bits f
example : mant ⟨0x3fffffff⟩ = 0x7fffff ∧ trunc30 ⟨0x3fffffff⟩ = ⟨0x3ffffffc⟩ := by decide
example : mant ⟨0x3f800006⟩ = 6 ∧ trunc30 ⟨0x3f800006⟩ = ⟨0x3f800008⟩ := by decide

/-- Clause "at most 4 units in the last place": as integers the two bit patterns (same sign, same
    exponent) differ by at most 2 upwards and at most 3 downwards. -/
theorem real4_ulp (f : F32) :
    (trunc30 f).bits.toNat ≤ f.bits.toNat + 2 ∧ f.bits.toNat ≤ (trunc30 f).bits.toNat + 3 :=
  trunc30_close f

/-- Re-encoding a decoded 4-byte real in the 4-byte form does not change it. -/
theorem real4_idempotent (f : F32) : trunc30 (trunc30 f) = trunc30 f := trunc30_idem f

/-- Clause "infinities preserved" (and ±0, and every float whose mantissa is a multiple of 4). -/
theorem real4_exact {f : F32} (h : mant f % 4 = 0) : trunc30 f = f := trunc30_fix h
example : mant F32.posInf % 4 = 0 ∧ mant F32.negInf % 4 = 0 ∧ mant (F32.ofInt 1000001) % 4 = 0 := by decide
theorem real4_inf : trunc30 F32.posInf = F32.posInf ∧ trunc30 F32.negInf = F32.negInf :=
  ⟨trunc30_posInf, trunc30_negInf⟩

/-- Clause "NaN stays non-finite": exponent field stays 255; it stays a NaN unless the payload is
    exactly 1 (which rounds to the infinity of the same sign). -/
theorem real4_nan (f : F32) (h : f.isNaN = true) :
    expo (trunc30 f) = 255 ∧ (mant f ≠ 1 → (trunc30 f).isNaN = true) :=
  ⟨trunc30_nan f h, trunc30_nan_stays_nan f h⟩
example : (⟨0x7fc00000⟩ : F32).isNaN = true ∧ mant ⟨0x7fc00000⟩ ≠ 1 := by decide
example : (⟨0x7f800001⟩ : F32).isNaN = true ∧ trunc30 ⟨0x7f800001⟩ = F32.posInf := by decide

/-- Finite stays finite, non-finite stays non-finite; a non-NaN never becomes a NaN. -/
theorem real4_finite (f : F32) :
    (expo (trunc30 f) = 255 ↔ expo f = 255) ∧ (f.isNaN = false → (trunc30 f).isNaN = false) :=
  ⟨trunc30_finite_iff f, trunc30_not_nan f⟩
example : (⟨0x7f7fffff⟩ : F32).isNaN = false ∧ expo (trunc30 ⟨0x7f7fffff⟩) = 254 := by decide

/-! ## the encoders' round trips, with explicit round-trip functions -/

/-- What `decodeReal` returns for the bytes `encodeReal f` writes: `float32(uint32(f))` when the
    1- or 2-byte guard holds, else `trunc30 f`. -/
theorem real_roundtrip (f : F32) (rest : Bytes) :
    Dec.decodeReal (Enc.encodeReal f ++ rest) = some (rtReal f, rest) := decodeReal_encodeReal f rest

/-- Same for coordinates: `float32(i)`, `float32(i)/64`, or `trunc30 f`. -/
theorem coord_roundtrip (f : F32) (rest : Bytes) :
    Dec.decodeCoordinate (Enc.encodeCoordinate f ++ rest) = some (rtCoord f, rest) :=
  decodeCoordinate_encodeCoordinate f rest

/-- Same for zero-to-one numbers: `float32(u/126)/120`, `float32(u)/15120`, or `trunc30 f`. -/
theorem z2o_roundtrip (f : F32) (rest : Bytes) :
    Dec.decodeZeroToOne (Enc.encodeZeroToOne f ++ rest) = some (rtZ2O f, rest) :=
  decodeZeroToOne_encodeZeroToOne f rest

/-- Arc angles: `encodeAngle` is `encodeZeroToOne` of `float32(g - floor g)`, `g = float64(f)`. -/
theorem angle_roundtrip (f : F32) (rest : Bytes) :
    Dec.decodeZeroToOne (Enc.encodeAngle f ++ rest) = some (rtAngle f, rest) :=
  decodeZeroToOne_encodeAngle f rest
example : Enc.encodeAngle ⟨0xbf400000⟩ = [60] ∧ rtAngle ⟨0xbf400000⟩ = ⟨0x3e800000⟩ := by decide

/-- Every number encoding is 1, 2 or 4 bytes, in particular never empty. -/
theorem number_lengths (f : F32) :
    ((Enc.encodeReal f).length = 1 ∨ (Enc.encodeReal f).length = 2 ∨ (Enc.encodeReal f).length = 4) ∧
    ((Enc.encodeCoordinate f).length = 1 ∨ (Enc.encodeCoordinate f).length = 2 ∨
      (Enc.encodeCoordinate f).length = 4) ∧
    ((Enc.encodeZeroToOne f).length = 1 ∨ (Enc.encodeZeroToOne f).length = 2 ∨
      (Enc.encodeZeroToOne f).length = 4) ∧
    ((Enc.encodeAngle f).length = 1 ∨ (Enc.encodeAngle f).length = 2 ∨ (Enc.encodeAngle f).length = 4) :=
  ⟨encodeReal_length_cases f, encodeCoordinate_length_cases f, encodeZeroToOne_length_cases f,
   encodeAngle_length_cases f⟩

/-- Clause "decode back to a numerically equal value whenever the value is representable in the
    form chosen" (reals): a 1- or 2-byte real decodes to a float that is `==` to the input. -/
theorem real_short_equal (f : F32) (h : (Enc.encodeReal f).length ≠ 4) : (rtReal f).feq f = true :=
  rtReal_feq_of_short f h
example : (Enc.encodeReal (F32.ofInt 300)).length ≠ 4 := by decide

/-- … and the 4-byte form is used exactly when the Go guard `float32(uint32(f)) == f && u < 1<<14`
    fails; it then decodes to `trunc30 f` (`real4_bits`, `real4_ulp`). -/
theorem real_long (f : F32) :
    ((Enc.encodeReal f).length = 4 ↔
      ¬ ((F32.ofInt f.toUInt32.toNat).feq f = true ∧ f.toUInt32.toNat < 16384)) ∧
    ((Enc.encodeReal f).length = 4 → rtReal f = trunc30 f) :=
  ⟨encodeReal_long_iff f, rtReal_long f⟩
example : (Enc.encodeReal ⟨0x3fc00000⟩).length = 4 := by decide

/-- Same clause for 1-byte coordinates (integers in [-64, 64)). -/
theorem coord_one_equal (f : F32) (h : (Enc.encodeCoordinate f).length = 1) :
    (rtCoord f).feq f = true := rtCoord_feq_of_one f h
example : (Enc.encodeCoordinate ⟨0xc2800000⟩).length = 1 := by decide   -- -64

/-- 2-byte coordinates: the value written is `i = int32(f*64)` with `float32(i) == f*64`, decoded as
    `float32(i)/64`.  (That this quotient is `==` to `f` is a float-semantic fact, see the gaps.) -/
theorem coord_two (f : F32) (h : (Enc.encodeCoordinate f).length = 2) :
    -128 * 64 ≤ (f * F32.ofInt 64).toInt32 ∧ (f * F32.ofInt 64).toInt32 < 128 * 64 ∧
      (F32.ofInt (f * F32.ofInt 64).toInt32).feq (f * F32.ofInt 64) = true ∧
      rtCoord f = F32.ofInt (f * F32.ofInt 64).toInt32 / F32.ofInt 64 :=
  encodeCoordinate_two f h
example : (Enc.encodeCoordinate ⟨0x3fc00000⟩).length = 2 := by decide   -- 1.5

/-- 4-byte coordinates / zero-to-one numbers decode to `trunc30 f`. -/
theorem coord_long (f : F32) (h : (Enc.encodeCoordinate f).length = 4) : rtCoord f = trunc30 f :=
  rtCoord_long f h
theorem z2o_long (f : F32) (h : (Enc.encodeZeroToOne f).length = 4) : rtZ2O f = trunc30 f :=
  rtZ2O_long f h
example : (Enc.encodeCoordinate ⟨0x3eaaaaab⟩).length = 4 := by decide
example : (Enc.encodeZeroToOne ⟨0x3f800000⟩).length = 4 := by decide   -- 1.0 is out of range

/-- Short zero-to-one forms are chosen only when `float32(uint32(f*15120)) == f*15120 < 15120`. -/
theorem z2o_short (f : F32) (h : (Enc.encodeZeroToOne f).length ≠ 4) :
    (F32.ofInt (f * F32.ofInt 15120).toUInt32.toNat).feq (f * F32.ofInt 15120) = true ∧
      (f * F32.ofInt 15120).toUInt32.toNat < 15120 :=
  encodeZeroToOne_short f h
example : (Enc.encodeZeroToOne ⟨0x3d800000⟩).length ≠ 4 := by decide   -- 1/16 = 945/15120

/-! ## SetNReg: shortest of the three encodings, decoded by the decoder its opcode selects -/

/-- The opcode base is one of the three SetNReg bases. -/
theorem nreg_opcode (f : F32) :
    (Enc.nregForm f).1 = 0xa8 ∨ (Enc.nregForm f).1 = 0xb0 ∨ (Enc.nregForm f).1 = 0xb8 :=
  nregForm_opcode f

/-- The decoder that `decodeStyling` selects for that opcode returns `rtNReg f`
    (= `rtReal f`, `rtCoord f` or `rtZ2O f` according to the opcode) and the untouched rest. -/
theorem nreg_roundtrip (f : F32) (rest : Bytes) :
    nregDecoder (Enc.nregForm f).1 ((Enc.nregForm f).2 ++ rest) = some (rtNReg f, rest) :=
  nregForm_decodes f rest
example : Enc.nregForm ⟨0x3f000000⟩ = (0xb8, [0x78]) ∧ Enc.nregForm ⟨0x3fc00000⟩ = (0xb0, [0x81, 0x81]) ∧
    Enc.nregForm ⟨0x40400000⟩ = (0xa8, [0x06]) := by decide

/-- The payload is no longer than any of the three candidate encodings. -/
theorem nreg_shortest (f : F32) :
    (Enc.nregForm f).2.length ≤ (Enc.encodeReal f).length ∧
    (Enc.nregForm f).2.length ≤ (Enc.encodeCoordinate f).length ∧
    (Enc.nregForm f).2.length ≤ (Enc.encodeZeroToOne f).length :=
  nregForm_shortest f

/-!
## Clauses NOT proved in this file (documented gaps; covered by the exhaustive differential tier)

These need the value semantics of the soft-float (`F32.ofInt` exact below 2^24, exactness of `*64`,
`/64`, monotonicity of round-to-nearest-even); nothing above silently assumes them.

* "shortest form that represents the value exactly" for reals and coordinates as a statement about
  *values*: `real_long`, `coord_two` characterise the choice by the Go guards
  (`float32(uint32(f)) == f`, `float32(int32(f*64)) == f*64`); that these guards hold exactly for the
  integers in [0, 2^14) resp. [-64, 64) and the multiples of 1/64 in [-128, 128) is not proved.
* 2-byte coordinate "decodes to a numerically equal value": `coord_two` gives
  `rtCoord f = float32(i)/64` with `float32(i) == f*64`; `float32(i)/64 == f` is not proved.
* "re-encoding a decoded real or coordinate never changes its value or makes it longer": only the
  4-byte case in the 4-byte form (`real4_idempotent`) is proved.
* zero-to-one short forms "within 4 ulp": `z2o_short` states the guard only.
* "low-resolution coordinates in [-128,128) become the nearest multiple of 1/64" (`quantize`): not
  addressed here (and false for one input today, defect F1 in DESIGN.md).
-/

end Ivg.Props.C08

#obligations C08 [
  Ivg.Props.C08.nat_roundtrip, Ivg.Props.C08.nat_length, Ivg.Props.C08.nat_shortest,
  Ivg.Props.C08.nat_no_overread, Ivg.Props.C08.nat_prefix_stable, Ivg.Props.C08.nat_truncated,
  Ivg.Props.C08.nat_range,
  Ivg.Props.C08.real_no_overread, Ivg.Props.C08.coord_no_overread, Ivg.Props.C08.z2o_no_overread,
  Ivg.Props.C08.real_truncated, Ivg.Props.C08.coord_truncated, Ivg.Props.C08.z2o_truncated,
  Ivg.Props.C08.real_prefix_stable, Ivg.Props.C08.coord_prefix_stable, Ivg.Props.C08.z2o_prefix_stable,
  Ivg.Props.C08.real4_roundtrip, Ivg.Props.C08.real4_bits, Ivg.Props.C08.real4_ulp,
  Ivg.Props.C08.real4_idempotent, Ivg.Props.C08.real4_exact, Ivg.Props.C08.real4_inf,
  Ivg.Props.C08.real4_nan, Ivg.Props.C08.real4_finite,
  Ivg.Props.C08.real_roundtrip, Ivg.Props.C08.coord_roundtrip, Ivg.Props.C08.z2o_roundtrip,
  Ivg.Props.C08.angle_roundtrip, Ivg.Props.C08.number_lengths,
  Ivg.Props.C08.real_short_equal, Ivg.Props.C08.real_long, Ivg.Props.C08.coord_one_equal,
  Ivg.Props.C08.coord_two, Ivg.Props.C08.coord_long, Ivg.Props.C08.z2o_long, Ivg.Props.C08.z2o_short,
  Ivg.Props.C08.nreg_opcode, Ivg.Props.C08.nreg_roundtrip, Ivg.Props.C08.nreg_shortest]
