import Ivg.Lemmas.Codec
import Ivg.Lemmas.Quantize
import Ivg.Lemmas.ZeroToOne
import Ivg.Lemmas.Angle
import Ivg.Gen.Tie.DrawOps
import Ivg.Gen.Tie.Magic
import Ivg.Gen.Tie.Code.EncNumbers
import Ivg.Gen.Tie.Code.DecNumbers
import Ivg.Gen.Tie.Code.Encoder7
import Ivg.Obligations
/-!
# C08 — number encodings: lossless where possible, bounded error, minimal

Property text: "For every natural number below 2^30 and every float32, the natural, real, coordinate
and zero-to-one encodings decode back to a numerically equal value whenever the value is
representable in the form chosen, and otherwise to within the format's 30-bit float precision (at
most 4 units in the last place, sign and infinities preserved, NaN stays non-finite); naturals, reals
and coordinates always use the shortest form that represents the value exactly; re-encoding a decoded
real or coordinate never changes its value or makes it longer; low-resolution coordinates in
[-128,128) become the nearest multiple of 1/64; and a number cut short by end of input is reported as
an error, never read past the end."

The theorems below are about the executable model (`Ivg.Enc.*`, `Ivg.Dec.*`), which the differential
suite ties to /repo.  Structural (S) and bit-level (B) clauses are proved in full, and so are the
float-semantic (F) clauses about reals, coordinates, `quantize`, zero-to-one numbers and angles.

Each implication is followed by an `example` that exhibits a concrete instance of its hypotheses
(non-vacuity).
-/
namespace Ivg.Props.C08
open Ivg Num Codec

/-! ## naturals -/

/-- Clause "for every natural number below 2^30 … decode back to a numerically equal value":
    the decoder returns exactly `u`, the width the encoder used, and the untouched remainder. -/
theorem nat_roundtrip (u : Nat) (h : u < 2^30) (rest : Bytes) :
    Dec.decodeNatural (Enc.encodeNatural u ++ rest) = some (u, natWidth u, rest) :=
  decodeNatural_encodeNatural u h rest
example : (1000000 : Nat) < 2^30 := by decide
example : Dec.decodeNatural (Enc.encodeNatural 1000000 ++ [7]) = some (1000000, 4, [7]) := by decide

/-- Clause "naturals … always use the shortest form": the encoder writes 1, 2 or 4 bytes
    according to the value alone … -/
theorem nat_length (u : Nat) : (Enc.encodeNatural u).length = natWidth u := encodeNatural_length u

/-- … and no byte string that decodes to `u` is shorter than what the encoder writes. -/
theorem nat_shortest (b rest : Bytes) (u n : Nat)
    (h : Dec.decodeNatural (b ++ rest) = some (u, n, rest)) (hn : b.length = n) :
    (Enc.encodeNatural u).length ≤ b.length :=
  encodeNatural_shortest b rest u n h hn
-- a non-shortest (2-byte) spelling of 3 exists and is accepted by the decoder; the encoder uses 1 byte
example : Dec.decodeNatural ([0x0d, 0x00] ++ [9]) = some (3, 2, [9]) ∧ ([0x0d, 0x00] : Bytes).length = 2 ∧
    (Enc.encodeNatural 3).length = 1 := by decide

/-- Clause "never read past the end" (naturals): a successful decode consumed exactly the first
    `n ∈ {1,2,4}` bytes; the remainder is the input without them. -/
theorem nat_no_overread {b : Bytes} {u n : Nat} {rest : Bytes}
    (h : Dec.decodeNatural b = some (u, n, rest)) :
    (n = 1 ∨ n = 2 ∨ n = 4) ∧ b.length = n + rest.length ∧ b = b.take n ++ rest :=
  decodeNatural_consumes h
example : Dec.decodeNatural [0x05, 0x02, 0xff] = some (129, 2, [0xff]) := by decide

/-- … and the result does not depend on what follows (prefix stability). -/
theorem nat_prefix_stable {b : Bytes} {u n : Nat} {rest : Bytes}
    (h : Dec.decodeNatural b = some (u, n, rest)) (k : Bytes) :
    Dec.decodeNatural (b ++ k) = some (u, n, rest ++ k) :=
  decodeNatural_append h k

/-- Clause "a number cut short by end of input is reported as an error" (naturals): every proper
    prefix of the consumed bytes fails to decode. -/
theorem nat_truncated {b : Bytes} {u n : Nat} {rest : Bytes}
    (h : Dec.decodeNatural b = some (u, n, rest)) (k : Nat) (hk : k < n) :
    Dec.decodeNatural (b.take k) = none :=
  decodeNatural_truncated h k hk
example : Dec.decodeNatural [0x03, 0x00, 0x01, 0x00] = some (16384, 4, []) ∧ (3 : Nat) < 4 ∧
    Dec.decodeNatural ([0x03, 0x00, 0x01, 0x00].take 3) = none := by decide

/-- Every decoded natural is below 2^30 (so `nat_roundtrip` applies to it again). -/
theorem nat_range {b : Bytes} {u n : Nat} {rest : Bytes}
    (h : Dec.decodeNatural b = some (u, n, rest)) : u < 2^30 :=
  decodeNatural_lt h

/-! ## reals, coordinates, zero-to-one: framing, truncation, no over-read -/

/-- Clause "never read past the end" (real / coordinate / zero-to-one): exactly a 1-, 2- or 4-byte
    prefix is consumed. -/
theorem real_no_overread {b : Bytes} {f : F32} {rest : Bytes}
    (h : Dec.decodeReal b = some (f, rest)) : ConsumesNum b rest := decodeReal_consumes h
theorem coord_no_overread {b : Bytes} {f : F32} {rest : Bytes}
    (h : Dec.decodeCoordinate b = some (f, rest)) : ConsumesNum b rest := decodeCoordinate_consumes h
theorem z2o_no_overread {b : Bytes} {f : F32} {rest : Bytes}
    (h : Dec.decodeZeroToOne b = some (f, rest)) : ConsumesNum b rest := decodeZeroToOne_consumes h
example : Dec.decodeReal [0x06, 0x01] = some (F32.ofInt 3, [0x01]) := by decide
example : Dec.decodeCoordinate [0x81, 0x81, 0x01] = some (⟨0x3fc00000⟩, [0x01]) := by decide
example : Dec.decodeZeroToOne [0xc5, 0x0e] = some (⟨0x3d800000⟩, []) := by decide

/-- Clause "a number cut short by end of input is reported as an error"
    (real / coordinate / zero-to-one). -/
theorem real_truncated {b : Bytes} {f : F32} {rest : Bytes}
    (h : Dec.decodeReal b = some (f, rest)) (k : Nat) (hk : k < b.length - rest.length) :
    Dec.decodeReal (b.take k) = none := decodeReal_truncated h k hk
theorem coord_truncated {b : Bytes} {f : F32} {rest : Bytes}
    (h : Dec.decodeCoordinate b = some (f, rest)) (k : Nat) (hk : k < b.length - rest.length) :
    Dec.decodeCoordinate (b.take k) = none := decodeCoordinate_truncated h k hk
theorem z2o_truncated {b : Bytes} {f : F32} {rest : Bytes}
    (h : Dec.decodeZeroToOne b = some (f, rest)) (k : Nat) (hk : k < b.length - rest.length) :
    Dec.decodeZeroToOne (b.take k) = none := decodeZeroToOne_truncated h k hk
example : Dec.decodeCoordinate [0x81, 0x81, 0x01] = some (⟨0x3fc00000⟩, [0x01]) ∧
    (1 : Nat) < [0x81, 0x81, (0x01 : UInt8)].length - [(0x01 : UInt8)].length ∧
    Dec.decodeCoordinate ([0x81, 0x81, 0x01].take 1) = none := by decide

/-- Prefix stability of the three float decoders. -/
theorem real_prefix_stable {b : Bytes} {f : F32} {rest : Bytes}
    (h : Dec.decodeReal b = some (f, rest)) (k : Bytes) :
    Dec.decodeReal (b ++ k) = some (f, rest ++ k) := decodeReal_append h k
theorem coord_prefix_stable {b : Bytes} {f : F32} {rest : Bytes}
    (h : Dec.decodeCoordinate b = some (f, rest)) (k : Bytes) :
    Dec.decodeCoordinate (b ++ k) = some (f, rest ++ k) := decodeCoordinate_append h k
theorem z2o_prefix_stable {b : Bytes} {f : F32} {rest : Bytes}
    (h : Dec.decodeZeroToOne b = some (f, rest)) (k : Bytes) :
    Dec.decodeZeroToOne (b ++ k) = some (f, rest ++ k) := decodeZeroToOne_append h k

/-! ## the 4-byte form: 30-bit float precision -/

/-- Clause "otherwise to within the format's 30-bit float precision": the 4-byte encoding of ANY
    float32 decodes (with each of the three decoders) to `trunc30 f`. -/
theorem real4_roundtrip (f : F32) (rest : Bytes) :
    Dec.decodeReal (Enc.encode4ByteReal f ++ rest) = some (trunc30 f, rest) ∧
    Dec.decodeCoordinate (Enc.encode4ByteReal f ++ rest) = some (trunc30 f, rest) ∧
    Dec.decodeZeroToOne (Enc.encode4ByteReal f ++ rest) = some (trunc30 f, rest) :=
  ⟨decodeReal_encode4 f rest, decodeCoordinate_encode4 f rest, decodeZeroToOne_encode4 f rest⟩

/-- Clause "sign … preserved", exponent field preserved, low two mantissa bits cleared, mantissa
    rounded to the nearest multiple of 4 — except for the top two mantissas `7ffffe/7fffff`, which
    are truncated to `7ffffc` so that rounding never carries into the exponent. -/
theorem real4_bits (f : F32) :
    sgn (trunc30 f) = sgn f ∧ expo (trunc30 f) = expo f ∧ mant (trunc30 f) % 4 = 0 ∧
    (mant f < 0x7ffffe → mant (trunc30 f) = (mant f + 2) / 4 * 4) ∧
    (0x7ffffe ≤ mant f → mant (trunc30 f) = 0x7ffffc) :=
  Codec.real4_bits f
example : mant ⟨0x3fffffff⟩ = 0x7fffff ∧ trunc30 ⟨0x3fffffff⟩ = ⟨0x3ffffffc⟩ := by decide
example : mant ⟨0x3f800006⟩ = 6 ∧ trunc30 ⟨0x3f800006⟩ = ⟨0x3f800008⟩ := by decide

/-- Clause "at most 4 units in the last place": as integers the two bit patterns (same sign, same
    exponent) differ by at most 2 upwards and at most 3 downwards. -/
theorem real4_ulp (f : F32) :
    (trunc30 f).bits.toNat ≤ f.bits.toNat + 2 ∧ f.bits.toNat ≤ (trunc30 f).bits.toNat + 3 :=
  trunc30_close f

/-- Re-encoding a decoded 4-byte real in the 4-byte form does not change it. -/
theorem real4_idempotent (f : F32) : trunc30 (trunc30 f) = trunc30 f := trunc30_idem f

/-- Clause "infinities preserved" (and ±0, and every float whose mantissa is a multiple of 4). -/
theorem real4_exact {f : F32} (h : mant f % 4 = 0) : trunc30 f = f := trunc30_fix h
example : mant F32.posInf % 4 = 0 ∧ mant F32.negInf % 4 = 0 ∧ mant (F32.ofInt 1000001) % 4 = 0 := by decide
theorem real4_inf : trunc30 F32.posInf = F32.posInf ∧ trunc30 F32.negInf = F32.negInf :=
  ⟨trunc30_posInf, trunc30_negInf⟩

/-- Clause "NaN stays non-finite": exponent field stays 255; it stays a NaN unless the payload is
    exactly 1 (which rounds to the infinity of the same sign). -/
theorem real4_nan (f : F32) (h : f.isNaN = true) :
    expo (trunc30 f) = 255 ∧ (mant f ≠ 1 → (trunc30 f).isNaN = true) :=
  ⟨trunc30_nan f h, trunc30_nan_stays_nan f h⟩
example : (⟨0x7fc00000⟩ : F32).isNaN = true ∧ mant ⟨0x7fc00000⟩ ≠ 1 := by decide
example : (⟨0x7f800001⟩ : F32).isNaN = true ∧ trunc30 ⟨0x7f800001⟩ = F32.posInf := by decide

/-- Finite stays finite, non-finite stays non-finite; a non-NaN never becomes a NaN. -/
theorem real4_finite (f : F32) :
    (expo (trunc30 f) = 255 ↔ expo f = 255) ∧ (f.isNaN = false → (trunc30 f).isNaN = false) :=
  ⟨trunc30_finite_iff f, trunc30_not_nan f⟩
example : (⟨0x7f7fffff⟩ : F32).isNaN = false ∧ expo (trunc30 ⟨0x7f7fffff⟩) = 254 := by decide

/-! ## the encoders' round trips, with explicit round-trip functions -/

/-- What `decodeReal` returns for the bytes `encodeReal f` writes: `float32(uint32(f))` when the
    1- or 2-byte guard holds, else `trunc30 f`. -/
theorem real_roundtrip (f : F32) (rest : Bytes) :
    Dec.decodeReal (Enc.encodeReal f ++ rest) = some (rtReal f, rest) := decodeReal_encodeReal f rest

/-- Same for coordinates: `float32(i)`, `float32(i)/64`, or `trunc30 f`. -/
theorem coord_roundtrip (f : F32) (rest : Bytes) :
    Dec.decodeCoordinate (Enc.encodeCoordinate f ++ rest) = some (rtCoord f, rest) :=
  decodeCoordinate_encodeCoordinate f rest

/-- Same for zero-to-one numbers: `float32(u/126)/120`, `float32(u)/15120`, or `trunc30 f`. -/
theorem z2o_roundtrip (f : F32) (rest : Bytes) :
    Dec.decodeZeroToOne (Enc.encodeZeroToOne f ++ rest) = some (rtZ2O f, rest) :=
  decodeZeroToOne_encodeZeroToOne f rest

/-- Arc angles: `encodeAngle` is `encodeZeroToOne` of `float32(g - floor g)`, `g = float64(f)`. -/
theorem angle_roundtrip (f : F32) (rest : Bytes) :
    Dec.decodeZeroToOne (Enc.encodeAngle f ++ rest) = some (rtAngle f, rest) :=
  decodeZeroToOne_encodeAngle f rest
example : Enc.encodeAngle ⟨0xbf400000⟩ = [60] ∧ rtAngle ⟨0xbf400000⟩ = ⟨0x3e800000⟩ := by decide

/-- Every number encoding is 1, 2 or 4 bytes, in particular never empty. -/
theorem number_lengths (f : F32) :
    ((Enc.encodeReal f).length = 1 ∨ (Enc.encodeReal f).length = 2 ∨ (Enc.encodeReal f).length = 4) ∧
    ((Enc.encodeCoordinate f).length = 1 ∨ (Enc.encodeCoordinate f).length = 2 ∨
      (Enc.encodeCoordinate f).length = 4) ∧
    ((Enc.encodeZeroToOne f).length = 1 ∨ (Enc.encodeZeroToOne f).length = 2 ∨
      (Enc.encodeZeroToOne f).length = 4) ∧
    ((Enc.encodeAngle f).length = 1 ∨ (Enc.encodeAngle f).length = 2 ∨ (Enc.encodeAngle f).length = 4) :=
  ⟨encodeReal_length_cases f, encodeCoordinate_length_cases f, encodeZeroToOne_length_cases f,
   encodeAngle_length_cases f⟩

/-- Clause "decode back to a numerically equal value whenever the value is representable in the
    form chosen" (reals): a 1- or 2-byte real decodes to a float that is `==` to the input. -/
theorem real_short_equal (f : F32) (h : (Enc.encodeReal f).length ≠ 4) : (rtReal f).feq f = true :=
  rtReal_feq_of_short f h
example : (Enc.encodeReal (F32.ofInt 300)).length ≠ 4 := by decide

/-- … and the 4-byte form is used exactly when the Go guard `float32(uint32(f)) == f && u < 1<<14`
    fails; it then decodes to `trunc30 f` (`real4_bits`, `real4_ulp`). -/
theorem real_long (f : F32) :
    ((Enc.encodeReal f).length = 4 ↔
      ¬ ((F32.ofInt f.toUInt32.toNat).feq f = true ∧ f.toUInt32.toNat < 16384)) ∧
    ((Enc.encodeReal f).length = 4 → rtReal f = trunc30 f) :=
  ⟨encodeReal_long_iff f, rtReal_long f⟩
example : (Enc.encodeReal ⟨0x3fc00000⟩).length = 4 := by decide

/-- Same clause for 1-byte coordinates (integers in [-64, 64)). -/
theorem coord_one_equal (f : F32) (h : (Enc.encodeCoordinate f).length = 1) :
    (rtCoord f).feq f = true := rtCoord_feq_of_one f h
example : (Enc.encodeCoordinate ⟨0xc2800000⟩).length = 1 := by decide   -- -64

/-- 2-byte coordinates: the value written is `i = int32(f*64)` with `float32(i) == f*64`, decoded as
    `float32(i)/64`.  (That this quotient is bit-for-bit `f` is `coord_two_exact` below.) -/
theorem coord_two (f : F32) (h : (Enc.encodeCoordinate f).length = 2) :
    -128 * 64 ≤ (f * F32.ofInt 64).toInt32 ∧ (f * F32.ofInt 64).toInt32 < 128 * 64 ∧
      (F32.ofInt (f * F32.ofInt 64).toInt32).feq (f * F32.ofInt 64) = true ∧
      rtCoord f = F32.ofInt (f * F32.ofInt 64).toInt32 / F32.ofInt 64 :=
  encodeCoordinate_two f h
example : (Enc.encodeCoordinate ⟨0x3fc00000⟩).length = 2 := by decide   -- 1.5

/-- 4-byte coordinates / zero-to-one numbers decode to `trunc30 f`. -/
theorem coord_long (f : F32) (h : (Enc.encodeCoordinate f).length = 4) : rtCoord f = trunc30 f :=
  rtCoord_long f h
theorem z2o_long (f : F32) (h : (Enc.encodeZeroToOne f).length = 4) : rtZ2O f = trunc30 f :=
  rtZ2O_long f h
example : (Enc.encodeCoordinate ⟨0x3eaaaaab⟩).length = 4 := by decide
example : (Enc.encodeZeroToOne ⟨0x3f800000⟩).length = 4 := by decide   -- 1.0 is out of range

/-- Short zero-to-one forms are chosen only when `float32(uint32(f*15120)) == f*15120 < 15120`. -/
theorem z2o_short (f : F32) (h : (Enc.encodeZeroToOne f).length ≠ 4) :
    (F32.ofInt (f * F32.ofInt 15120).toUInt32.toNat).feq (f * F32.ofInt 15120) = true ∧
      (f * F32.ofInt 15120).toUInt32.toNat < 15120 :=
  encodeZeroToOne_short f h
example : (Enc.encodeZeroToOne ⟨0x3d800000⟩).length ≠ 4 := by decide   -- 1/16 = 945/15120

/-! ## SetNReg: shortest of the three encodings, decoded by the decoder its opcode selects -/

/-- The opcode base is one of the three SetNReg bases. -/
theorem nreg_opcode (f : F32) :
    (Enc.nregForm f).1 = 0xa8 ∨ (Enc.nregForm f).1 = 0xb0 ∨ (Enc.nregForm f).1 = 0xb8 :=
  nregForm_opcode f

/-- The decoder that `decodeStyling` selects for that opcode returns `rtNReg f`
    (= `rtReal f`, `rtCoord f` or `rtZ2O f` according to the opcode) and the untouched rest. -/
theorem nreg_roundtrip (f : F32) (rest : Bytes) :
    nregDecoder (Enc.nregForm f).1 ((Enc.nregForm f).2 ++ rest) = some (rtNReg f, rest) :=
  nregForm_decodes f rest
example : Enc.nregForm ⟨0x3f000000⟩ = (0xb8, [0x78]) ∧ Enc.nregForm ⟨0x3fc00000⟩ = (0xb0, [0x81, 0x81]) ∧
    Enc.nregForm ⟨0x40400000⟩ = (0xa8, [0x06]) := by decide

/-- The payload is no longer than any of the three candidate encodings. -/
theorem nreg_shortest (f : F32) :
    (Enc.nregForm f).2.length ≤ (Enc.encodeReal f).length ∧
    (Enc.nregForm f).2.length ≤ (Enc.encodeCoordinate f).length ∧
    (Enc.nregForm f).2.length ≤ (Enc.encodeZeroToOne f).length :=
  nregForm_shortest f

/-! ## float semantics: exactness, shortest exact form, re-encoding

Proved from the soft-float definitions (`Ivg/Num/Soft.lean`) by integer arithmetic on bit patterns:
`float32(i)` is exact for `|i| < 2^24`, `*64` and `/64` shift the exponent field by 6 on normal
numbers, Go's `==` is bit equality up to the two zeros. -/

/-- `float32(i)` is exact below 2^24: converting back gives `i` (both Go conversions). -/
theorem ofInt_exact (i : Int) (h : i.natAbs < 16777216) :
    (F32.ofInt i).toInt32 = i ∧ (F32.ofInt i).isNaN = false ∧
    (0 ≤ i → (F32.ofInt i).toUInt32.toNat = i.toNat) := by
  refine ⟨toInt32_ofInt i h, ofInt_not_nan i h, fun h0 => ?_⟩
  have : i = ((i.toNat : Nat) : Int) := by omega
  rw [this, toUInt32_ofInt i.toNat (by omega)]
  omega
example : (-16777215 : Int).natAbs < 16777216 := by decide

/-- Clause "reals always use the shortest form that represents the value exactly": a float that is
    `==` to an integer `u < 2^14` is written byte-for-byte like the natural `u` (1 byte below 128,
    else 2 bytes) … -/
theorem real_shortest_exact (f : F32) (u : Nat) (hu : u < 16384) (h : (F32.ofInt u).feq f = true) :
    Enc.encodeReal f = Enc.encodeNatural u := encodeReal_of_feq f u hu h
example : (300 : Nat) < 16384 ∧ (F32.ofInt (300 : Nat)).feq ⟨0x43960000⟩ = true := by decide
example : (F32.ofInt (0 : Nat)).feq ⟨0x80000000⟩ = true := by decide    -- -0 == 0

/-- … and the short forms are used for no other float. -/
theorem real_short_iff (f : F32) :
    (Enc.encodeReal f).length ≠ 4 ↔ ∃ u, u < 16384 ∧ (F32.ofInt (u : Nat)).feq f = true :=
  Codec.real_short_iff f

/-- Clause "coordinates always use the shortest form …", 1 byte: exactly the floats `==` to an
    integer in [-64, 64). -/
theorem coord_one_iff (f : F32) :
    (Enc.encodeCoordinate f).length = 1 ↔
      ∃ i : Int, -64 ≤ i ∧ i < 64 ∧ (F32.ofInt i).feq f = true := Codec.coord_one_iff f

/-- 1 or 2 bytes: exactly the floats `==` to `float32(k)/64` for an integer `k ∈ [-8192, 8192)`, i.e.
    the multiples of 1/64 in [-128, 128). -/
theorem coord_short_iff (f : F32) :
    (Enc.encodeCoordinate f).length ≠ 4 ↔
      ∃ k : Int, -8192 ≤ k ∧ k < 8192 ∧ (F32.ofInt k / F32.ofInt 64).feq f = true :=
  Codec.coord_short_iff f

/-- Clause "decode back to a numerically equal value whenever the value is representable in the form
    chosen", 2-byte coordinates: the decoded float is bit-for-bit the input. -/
theorem coord_two_exact (f : F32) (h : (Enc.encodeCoordinate f).length = 2) : rtCoord f = f :=
  Codec.coord_two_exact f h
example : (Enc.encodeCoordinate ⟨0xc2ffe000⟩).length = 2 := by decide   -- -127.9375

/-- … hence every short coordinate form decodes to a float `==` to the input. -/
theorem coord_short_equal (f : F32) (h : (Enc.encodeCoordinate f).length ≠ 4) :
    (rtCoord f).feq f = true := rtCoord_feq_of_short f h

/-- Clause "re-encoding a decoded real never changes its value or makes it longer": for EVERY byte
    string the decoder accepts (shortest or not), the decoded float re-encodes in at most as many
    bytes as were consumed and decodes again to the same float (bit-identical, or `==` when a
    4-byte pattern holding a small integer is shortened). -/
theorem reencode_real {b : Bytes} {d : F32} {rest : Bytes} (h : Dec.decodeReal b = some (d, rest)) :
    (Enc.encodeReal d).length ≤ b.length - rest.length ∧
      (rtReal d = d ∨ (rtReal d).feq d = true) := Codec.reencode_real h
example : Dec.decodeReal [0x0d, 0x00, 0x07] = some (F32.ofInt 3, [0x07]) := by decide

/-- Same clause for coordinates. -/
theorem reencode_coord {b : Bytes} {d : F32} {rest : Bytes}
    (h : Dec.decodeCoordinate b = some (d, rest)) :
    (Enc.encodeCoordinate d).length ≤ b.length - rest.length ∧
      (rtCoord d = d ∨ (rtCoord d).feq d = true) := Codec.reencode_coord h
set_option maxRecDepth 10000 in
example : Dec.decodeCoordinate [0x01, 0x80, 0x07] = some (⟨0⟩, [0x07]) := by decide   -- 2-byte zero

/-- Encode → decode → encode → decode: the second round trip is not longer and changes nothing, up to
    the sign of zero.  (Bitwise idempotence is FALSE: the negative subnormal `0x80000001` is written
    in 4 bytes and decodes to `-0`, which is then written in 1 byte and decodes to `+0`.) -/
theorem roundtrip_idempotent (f : F32) :
    ((Enc.encodeCoordinate (rtCoord f)).length ≤ (Enc.encodeCoordinate f).length ∧
      (rtCoord (rtCoord f) = rtCoord f ∨ (rtCoord (rtCoord f)).feq (rtCoord f) = true)) ∧
    ((Enc.encodeReal (rtReal f)).length ≤ (Enc.encodeReal f).length ∧
      (rtReal (rtReal f) = rtReal f ∨ (rtReal (rtReal f)).feq (rtReal f) = true)) :=
  ⟨rtCoord_idem f, rtReal_idem f⟩
example : rtCoord ⟨0x80000001⟩ = ⟨0x80000000⟩ ∧ rtCoord (rtCoord ⟨0x80000001⟩) = ⟨0⟩ := by decide

/-- **SetNReg instruction round trip**: opcode byte `adj | opcode` and payload as written by
    `Encoder.setNReg` are decoded by `Dec.decodeStyling` to the call `SetNReg(adj, incr, rtNReg f)`,
    consuming exactly opcode and payload (`a = 7` is the incrementing form). -/
theorem nreg_instruction_roundtrip (f : F32) (a : UInt8) (ha : a ≤ 7) (rest : Bytes) :
    ∃ l0 l1, Dec.decodeStyling ((a ||| (Enc.nregForm f).1) :: ((Enc.nregForm f).2 ++ rest)) =
      ([.line l0, .line l1, .call (.setNReg (if a == 7 then 0 else a) (a == 7) (rtNReg f))],
       .ok (.styling, rest)) ∧
      l0.bytes = [a ||| (Enc.nregForm f).1] ∧ l1.bytes = (Enc.nregForm f).2 ∧
      l1.kind = .nregNumber (rtNReg f) :=
  setNReg_instruction f a ha rest
example : (7 : UInt8) ≤ 7 := by decide

/-- Arc flags (written with `encodeNatural(uint32(float32(flags)))`) decode to the same two flags. -/
theorem arcflags_roundtrip (la sw : Bool) (rest : Bytes) :
    ∃ fl, Dec.decodeNatural (Enc.encodeNatural (Enc.arcFlags la sw).toUInt32.toNat ++ rest) =
      some (fl, 1, rest) ∧ (fl % 2 != 0) = la ∧ (fl / 2 % 2 != 0) = sw :=
  arcFlags_roundtrip la sw rest

/-! ## `quantize`: low-resolution coordinates become the nearest multiple of 1/64

`Enc.quantize false f = float32(floor(float64(f)*64 + 0.5)) / 64` under the float guard
`-128 ≤ f < 128`.  Proved in `Ivg/Lemmas/Quantize.lean` through the five float64/float32 stages
(`float64(f)` exact, `*64` exact, `+0.5` exact when `|64 f| ≥ 1/2` and otherwise rounding to something
in (0,1), `floor`, `float32(·)` of an integer exact, `/64` exact). -/

/-- Clause "low-resolution coordinates in [-128,128) become the nearest multiple of 1/64" (ties up):
    for EVERY float32 satisfying the model's guard (normal, subnormal or zero) the result is
    `float32(k)/64` with `k = ⌊64·f + 1/2⌋`.  The condition is stated on the exact integer
    `Quant.scaled f = f·2^149`: `k·2^150 ≤ 128·(f·2^149) + 2^149 < (k+1)·2^150`, which is
    `k ≤ 64·f + 1/2 < k+1`, i.e. `64·f − 1/2 < k ≤ 64·f + 1/2`. -/
theorem quantize_nearest (f : F32) (h1 : F32.ofInt (-128) ≤ f) (h2 : f < F32.ofInt 128) :
    ∃ k : Int, -8192 ≤ k ∧ k ≤ 8192 ∧
      Enc.quantize false f = F32.ofInt k / F32.ofInt 64 ∧
      k * 2^150 ≤ 128 * Quant.scaled f + 2^149 ∧ 128 * Quant.scaled f + 2^149 < (k + 1) * 2^150 :=
  Quant.quantize_nearest f h1 h2
-- the F1 witness of DESIGN.md (x·64 = 0.49999997) now goes to 0, and the top of the range to 128.0
example : F32.ofInt (-128) ≤ (⟨0x3bffffff⟩ : F32) ∧ (⟨0x3bffffff⟩ : F32) < F32.ofInt 128 := by decide
set_option maxRecDepth 100000 in
example : Enc.quantize false ⟨0x3bffffff⟩ = ⟨0⟩ ∧ Enc.quantize false ⟨0x42fffffe⟩ = F32.ofInt 128 := by
  decide +kernel
-- `scaled` is the value times 2^149: 1.0 ↦ 2^149, the smallest subnormal ↦ 1, -1.5 ↦ -3·2^148
example : Quant.scaled ⟨0x3f800000⟩ = 2^149 ∧ Quant.scaled ⟨0x00000001⟩ = 1 ∧
    Quant.scaled ⟨0xbfc00000⟩ = -3 * 2^148 := by decide

/-- High-resolution mode, and values outside the guard (NaN, ±Inf, |f| > 128, f = 128), are left alone. -/
theorem quantize_unchanged (f : F32) :
    Enc.quantize true f = f ∧
    (¬ (F32.ofInt (-128) ≤ f ∧ f < F32.ofInt 128) → Enc.quantize false f = f) :=
  ⟨Quant.quantize_hi f, Quant.quantize_out_of_range f⟩
example : ¬ (F32.ofInt (-128) ≤ F32.ofInt 128 ∧ F32.ofInt 128 < F32.ofInt 128) := by decide

/-- The quantised value always takes a 1- or 2-byte coordinate form, except 128.0 (which the guard
    lets through for inputs in (127.9921875, 128)). -/
theorem quantize_short (f : F32) (h1 : F32.ofInt (-128) ≤ f) (h2 : f < F32.ofInt 128) :
    (Enc.encodeCoordinate (Enc.quantize false f)).length ≠ 4 ∨ Enc.quantize false f = F32.ofInt 128 :=
  Quant.quantize_short f h1 h2

/-- Quantising is idempotent, bit for bit. -/
theorem quantize_idem (f : F32) :
    Enc.quantize false (Enc.quantize false f) = Enc.quantize false f := Quant.quantize_idem f

/-! ## zero-to-one numbers: the short forms are accurate to one unit in the last place -/

/-- Clause "… and otherwise to within the format's precision (at most 4 units in the last place, sign
    preserved)" for the SHORT zero-to-one forms, where two float32 roundings (`f*15120`, then
    `u/15120` or `(u/126)/120`) separate the decoded value from `f`: the decoded float is `==` to `f`
    (both are zeros) or both are positive with bit patterns at distance at most ONE.  Proved
    analytically in `Ivg/Lemmas/ZeroToOne.lean` (half-unit error of the product, half-unit error of the
    correctly rounded quotient — `SpecDiv.lean` — and linear arithmetic per exponent configuration). -/
theorem z2o_bound (f : F32) (h : (Enc.encodeZeroToOne f).length ≠ 4) :
    (rtZ2O f).feq f = true ∨
    (sgn (rtZ2O f) = 0 ∧ sgn f = 0 ∧ (rtZ2O f).nb ≤ f.nb + 1 ∧ f.nb ≤ (rtZ2O f).nb + 1) :=
  Z2O.z2o_bound f h
-- 0.3 (0x3e99999a) is written as 4536/15120 in two bytes and read back as 0x3e99999a again
example : (Enc.encodeZeroToOne ⟨0x3e99999a⟩).length ≠ 4 ∧ rtZ2O ⟨0x3e99999a⟩ = ⟨0x3e99999a⟩ := by decide

/-- Hence for arc angles: a short angle form decodes to within one unit of `angleNorm f`. -/
theorem angle_bound (f : F32) (h : (Enc.encodeAngle f).length ≠ 4) :
    (rtAngle f).feq (angleNorm f) = true ∨
    (sgn (rtAngle f) = 0 ∧ sgn (angleNorm f) = 0 ∧ (rtAngle f).nb ≤ (angleNorm f).nb + 1 ∧
      (angleNorm f).nb ≤ (rtAngle f).nb + 1) :=
  Z2O.z2o_bound (angleNorm f) h

/-! ## arc angles: `encodeAngle` normalises modulo 1 with a single binary32 rounding -/

/-- `angleNorm f = float32(g − floor g)`, `g = float64(f)`, is the float32 NEAREST to the exact
    rational `f − ⌊f⌋` (= `N/2^149` with the integer `N = Angle.fracN f`), for every finite float32:
    `float64(f)` and `floor` are exact, the float64 subtraction is exact except for tiny negative `f`
    (`|f| < 2^-30`, where both sides are 1.0), and `float32(·)` rounds once.  `F32.ofRatio` is the
    model's correctly rounded rational → float32 conversion (ties to even). -/
theorem angle_mod1 (f : F32) (hfin : expo f ≠ 255) :
    angleNorm f = F32.ofRatio false (Angle.fracN f) (2^149) := Angle.angle_mod1 f hfin
-- -0.75 ↦ 0.25: N = 2^147
example : expo ⟨0xbf400000⟩ ≠ 255 ∧ Angle.fracN ⟨0xbf400000⟩ = 2^147 := by decide
set_option maxRecDepth 100000 in
example : angleNorm ⟨0xbf400000⟩ = ⟨0x3e800000⟩ := by decide +kernel

/-- The normalised angle lies in [0, 1]: sign bit clear, bit pattern at most that of 1.0 (1.0 itself is
    reached for tiny negative inputs and is then written in the 4-byte form). -/
theorem angle_range (f : F32) (hfin : expo f ≠ 255) :
    sgn (angleNorm f) = 0 ∧ (angleNorm f).nb ≤ 1065353216 := Angle.angle_range f hfin

/-- An already normalised angle `0 ≤ f < 1` is unchanged, bit for bit (so `encodeAngle f =
    encodeZeroToOne f` there). -/
theorem angle_id (f : F32) (h : f.nb < 1065353216) : angleNorm f = f := Angle.angleNorm_id f h
example : (⟨0x3e99999a⟩ : F32).nb < 1065353216 := by decide

/-!
## Clauses NOT proved in this file

None of the clauses of the property text remains open at the level of the model.  Outside the text:
for NaN / ±Inf inputs `angleNorm` is not characterised (`angle_mod1` assumes a finite input; the
encoder then writes the 4-byte form of whatever NaN results).
-/

end Ivg.Props.C08

#obligations C08 [
  Ivg.Props.C08.nat_roundtrip, Ivg.Props.C08.nat_length, Ivg.Props.C08.nat_shortest,
  Ivg.Props.C08.nat_no_overread, Ivg.Props.C08.nat_prefix_stable, Ivg.Props.C08.nat_truncated,
  Ivg.Props.C08.nat_range,
  Ivg.Props.C08.real_no_overread, Ivg.Props.C08.coord_no_overread, Ivg.Props.C08.z2o_no_overread,
  Ivg.Props.C08.real_truncated, Ivg.Props.C08.coord_truncated, Ivg.Props.C08.z2o_truncated,
  Ivg.Props.C08.real_prefix_stable, Ivg.Props.C08.coord_prefix_stable, Ivg.Props.C08.z2o_prefix_stable,
  Ivg.Props.C08.real4_roundtrip, Ivg.Props.C08.real4_bits, Ivg.Props.C08.real4_ulp,
  Ivg.Props.C08.real4_idempotent, Ivg.Props.C08.real4_exact, Ivg.Props.C08.real4_inf,
  Ivg.Props.C08.real4_nan, Ivg.Props.C08.real4_finite,
  Ivg.Props.C08.real_roundtrip, Ivg.Props.C08.coord_roundtrip, Ivg.Props.C08.z2o_roundtrip,
  Ivg.Props.C08.angle_roundtrip, Ivg.Props.C08.number_lengths,
  Ivg.Props.C08.real_short_equal, Ivg.Props.C08.real_long, Ivg.Props.C08.coord_one_equal,
  Ivg.Props.C08.coord_two, Ivg.Props.C08.coord_long, Ivg.Props.C08.z2o_long, Ivg.Props.C08.z2o_short,
  Ivg.Props.C08.nreg_opcode, Ivg.Props.C08.nreg_roundtrip, Ivg.Props.C08.nreg_shortest,
  Ivg.Props.C08.ofInt_exact, Ivg.Props.C08.real_shortest_exact, Ivg.Props.C08.real_short_iff,
  Ivg.Props.C08.coord_one_iff, Ivg.Props.C08.coord_short_iff, Ivg.Props.C08.coord_two_exact,
  Ivg.Props.C08.coord_short_equal, Ivg.Props.C08.reencode_real, Ivg.Props.C08.reencode_coord,
  Ivg.Props.C08.roundtrip_idempotent, Ivg.Props.C08.nreg_instruction_roundtrip,
  Ivg.Props.C08.arcflags_roundtrip,
  Ivg.Props.C08.quantize_nearest, Ivg.Props.C08.quantize_unchanged, Ivg.Props.C08.quantize_short,
  Ivg.Props.C08.quantize_idem, Ivg.Props.C08.z2o_bound, Ivg.Props.C08.angle_bound,
  Ivg.Props.C08.angle_mod1, Ivg.Props.C08.angle_range, Ivg.Props.C08.angle_id,
  Ivg.Gen.Tie.drawOps_tie, Ivg.Gen.Tie.magic_tie,
  -- regenerated code (translator, Ivg/Gen/Code) = model, for all inputs: EncNumbers, DecNumbers
  Ivg.Gen.Tie.encodeNatural_code_tie,
  Ivg.Gen.Tie.encode4ByteReal_code_tie,
  Ivg.Gen.Tie.encodeReal_code_tie,
  Ivg.Gen.Tie.encodeCoordinate_code_tie,
  Ivg.Gen.Tie.encodeZeroToOne_code_tie,
  Ivg.Gen.Tie.encodeAngle_code_tie,
  Ivg.Gen.Tie.quantize_code_tie,
  Ivg.Gen.Tie.decodeNatural_code_tie,
  Ivg.Gen.Tie.decodeNatural_model_eq,
  Ivg.Gen.Tie.decodeReal_code_tie,
  Ivg.Gen.Tie.decodeReal_model_eq,
  Ivg.Gen.Tie.decodeCoordinate_code_tie,
  Ivg.Gen.Tie.decodeCoordinate_model_eq,
  Ivg.Gen.Tie.decodeZeroToOne_code_tie,
  Ivg.Gen.Tie.decodeZeroToOne_model_eq,
  Ivg.Gen.Tie.isNaNOrInfinity_code_tie,
  Ivg.Gen.Tie.scratch_readback, Ivg.Gen.Tie.setNReg_code_tie, Ivg.Gen.Tie.setNReg_code_tie_state]
