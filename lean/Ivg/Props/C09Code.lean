import Ivg.Props.C09
import Ivg.Gen.Tie.Code.EncColors
import Ivg.Gen.Tie.Code.DecColors
/-!
# C09 — colour round trips, restated ON THE CODE

`encode_buffer_encodeColorN` / `decode_buffer_decodeColorN` are the colour codecs of encode/buffer.go and decode/buffer.go as
the translator regenerates them from /repo's source on every run.  What the regenerated decoder returns on the bytes the
regenerated encoder appended (followed by anything), whenever the colour has the form in question: the colour itself
(as the Go struct, `colorOf c`) and the number of bytes consumed.
-/
namespace Ivg.Props.C09Code
open Ivg Ivg.Num Ivg.Gen Ivg.Gen.Code Ivg.Gen.Tie

/-- the 4-byte form holds ANY RGBA value (premultiplied or not, gradient-encoding values included) exactly -/
theorem code_form4_roundtrip (c : Color) (x y z w : UInt8) (h : c.encode4 = some (x, y, z, w)) (rest : Bytes) :
    decode_buffer_decodeColor4 (encode_buffer_encodeColor4 [] (colorOf c) ++ rest)
      = (colorOf c, (4 : Int)) := by
  rw [encodeColor4_code_tie, decodeColor4_code_tie]
  simp only [Enc.encodeColor4, h, List.nil_append, List.cons_append]
  rw [C09.form4_roundtrip c x y z w h rest]
  simp [decColorResOf, decResOf]; omega

theorem code_form3_roundtrip (c : Color) (x y z : UInt8) (h : c.encode3Direct = some (x, y, z)) (rest : Bytes) :
    decode_buffer_decodeColor3Direct (encode_buffer_encodeColor3Direct [] (colorOf c) ++ rest)
      = (colorOf c, (3 : Int)) := by
  rw [encodeColor3Direct_code_tie, decodeColor3Direct_code_tie]
  simp only [Enc.encodeColor3Direct, h, List.nil_append, List.cons_append]
  rw [C09.form3_roundtrip c x y z h rest]
  simp [decColorResOf, decResOf]; omega

theorem code_form2_roundtrip (c : Color) (x y : UInt8) (h : c.encode2 = some (x, y)) (rest : Bytes) :
    decode_buffer_decodeColor2 (encode_buffer_encodeColor2 [] (colorOf c) ++ rest)
      = (colorOf c, (2 : Int)) := by
  rw [encodeColor2_code_tie, decodeColor2_code_tie]
  simp only [Enc.encodeColor2, h, List.nil_append, List.cons_append]
  rw [C09.form2_roundtrip c x y h rest]
  simp [decColorResOf, decResOf]; omega

end Ivg.Props.C09Code

#obligations C09 [
  Ivg.Props.C09Code.code_form4_roundtrip, Ivg.Props.C09Code.code_form3_roundtrip, Ivg.Props.C09Code.code_form2_roundtrip]
