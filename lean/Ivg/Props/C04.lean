import Ivg.Lemmas.RendererVM
import Ivg.Lemmas.RenderHist
import Ivg.Gen.Tie.Dc1
import Ivg.Gen.Tie.RendererFields
import Ivg.Gen.Tie.Code.RenderRegs
import Ivg.Gen.Tie.Code.Resolve
import Ivg.Gen.Tie.Code.Ranges
import Ivg.Gen.Tie.Code.GradAt
import Ivg.Gen.Tie.Code.Paint
import Ivg.Obligations
/-!
# C04 — the Renderer fills each path with the paint the specification's machine prescribes

Property text: "For every instruction sequence the renderer fills each path with exactly the paint the
specification's virtual machine prescribes: 64 colour and 64 number registers addressed modulo 64 as
selector minus ADJ, post-increment variants, colour registers initialised from the custom palette and
number registers and selectors from zero, palette/register/blend colours resolved when stored, and
level-of-detail bounds tested against the raster height (LOD0 <= H < LOD1) when the path starts. A path
whose paint is fully transparent, is a non-gradient non-premultiplied colour, is a gradient with
invalid stops (non-premultiplied colour, offset outside [0,1] or not strictly increasing), or that is
outside the level-of-detail range causes no rasteriser activity at all, while the machine still leaves
drawing mode."

The specification's machine is `Ivg.Spec.VM` (written from `/repo/spec/iconvg-spec-v0.md`, independent
of the Renderer model).  The theorems relate it to `Ivg.Ren.Renderer` (the model of render/render.go,
tied to the Go code by the differential suite and `Gen.Tie.renderer_fields_tie`), through the
abstraction `absVM` (registers as functions on `Fin 64`, selectors modulo 64) and `realise` (the
`image.Image` a prescribed paint becomes).  All statements are generic in the number types
(`α` = float32, `β` = float64): numbers are only stored and compared.
-/
namespace Ivg.Props.C04
open Ivg Ivg.Ren Ivg.Spec.VM Ivg.Lemmas.RendererVM

variable {α β : Type} [Arith α] [Arith β] [Wide α β]

/-! ## registers -/

/-- Clause "colour registers initialised from the custom palette and number registers and selectors
    from zero" (and LOD from `0`, `+∞`): after `Reset` the Renderer represents the machine's initial
    state, whatever it was before. -/
theorem reset_initialises (z : Renderer α β) (posInf : α) (vb : ViewBox α) (pal : Palette) :
    absVM (z.reset posInf vb pal) = VM.init posInf pal := abs_reset z posInf vb pal

/-- Clause "addressed modulo 64 as selector minus ADJ": `(sel - adj) & 0x3f` in `uint8` arithmetic is
    `SEL - ADJ` modulo 64 for every selector byte and every adjustment byte. -/
theorem register_index (sel adj : UInt8) :
    (sel - adj).toNat % 64 = (sub ⟨sel.toNat % 64, Nat.mod_lt _ (by decide)⟩ adj).val := sel_index sel adj

/-- Clauses "64 colour and 64 number registers addressed modulo 64 as selector minus ADJ,
    post-increment variants, … palette/register/blend colours resolved when stored": each of the six
    styling calls makes no rasteriser call and changes the represented machine state exactly as the
    specification's instruction does. -/
theorem styling_refines (arc : ArcFn α β) (posInf : α) (z : Renderer α β) (c : Call α)
    (hc : isStyling c = true) :
    (z.step arc posInf c).2 = [] ∧ absVM (z.step arc posInf c).1 = (absVM z).step posInf c :=
  Lemmas.RendererVM.styling_refines arc posInf z c hc
example : isStyling (.setCReg 3 false (Color.blendColor 0x40 0x7f 0x85) : Call Num.F32) = true ∧
    isStyling (.setNReg 0 true (Ex.n 1) : Call Num.F32) = true := ⟨rfl, rfl⟩

/-- … for every Destination call (path calls leave the machine's registers alone). -/
theorem every_call_refines (arc : ArcFn α β) (posInf : α) (z : Renderer α β) (c : Call α) :
    absVM (z.step arc posInf c).1 = (absVM z).step posInf c := step_abs arc posInf z c

/-- "resolved when stored": `Color.Resolve` against the Renderer's palette and registers is the
    specification's resolution (direct colour, palette entry, register value, per-channel blend of two
    1-byte colours) in the represented state … -/
theorem colour_resolution (z : Renderer α β) (c : Color) :
    c.resolve z.palette z.cReg = (absVM z).resolve c := resolve_eq z c

/-- … where the 1-byte colours are the specification's table (125 opaque base-5 colours, three greys,
    palette entries, register values) — `DecodeColor1` followed by `Resolve`. -/
theorem colour1_table (z : Renderer α β) (x : UInt8) :
    (decodeColor1 x).resolve1 z.palette z.cReg = (absVM z).color1 x := color1_eq z x

/-- The selectors the Renderer reports (`CSel()`, `NSel()`) are 6-bit values from `Reset` on, so the
    abstraction reads them as they are. -/
theorem selectors_six_bit (arc : ArcFn α β) (posInf : α) (z : Renderer α β) (vb : ViewBox α)
    (pal : Palette) (p : List (Call α)) :
    SelBounds (z.run arc posInf (.reset vb pal :: p)).1 :=
  selBounds_run arc posInf p _ (selBounds_reset z posInf vb pal)

/-! ## the paint chosen when a path starts -/

/-- Clauses "level-of-detail bounds tested against the raster height (LOD0 <= H < LOD1) when the path
    starts" and "fills each path with exactly the paint … prescribes": `StartPath` follows
    `VM.paintChoice` evaluated at the height of the Renderer's rectangle.  A prescribed paint ⇒ the
    rasteriser is reset to the rectangle's size and moved to the start point, the paint is stored, the
    Renderer is enabled; none ⇒ the Renderer is disabled and makes NO rasteriser call. -/
theorem startPath_paint (z : Renderer α β) (adj : UInt8) (x y : α) :
    match (absVM z).paintChoice z.r.dy adj with
    | some p => z.startPath adj x y =
        (started z (realise z p) x y, [.reset z.r.dx z.r.dy, .moveTo (z.absX x) (z.absY y)])
    | none => z.startPath adj x y = ({ z with fill := (choose z adj).1, disabled := true }, []) :=
  Lemmas.RendererVM.startPath_paint z adj x y

/-- enabled exactly when the machine prescribes a paint -/
theorem startPath_enabled_iff (z : Renderer α β) (adj : UInt8) (x y : α) :
    (z.startPath adj x y).1.disabled = false ↔ ((absVM z).paintChoice z.r.dy adj).isSome = true :=
  Lemmas.RendererVM.startPath_enabled_iff z adj x y

/-- The four reasons of the property text, exhaustively: the machine prescribes no paint iff the
    height is outside the LOD range, or the colour is premultiplied and fully transparent, or it is a
    non-gradient non-premultiplied colour, or it is a gradient with invalid stops (or, following the
    code where the specification is silent, fewer than two stops). -/
theorem no_paint_causes (m : VM α) (H : Int) (adj : UInt8) :
    m.paintChoice H adj = none ↔
      (¬ (m.lod0 ≤ (Arith.ofInt H : α) ∧ (Arith.ofInt H : α) < m.lod1)) ∨
      (premul (m.cReg (sub m.cSel adj)) ∧ (m.cReg (sub m.cSel adj)).a = 0) ∨
      (¬ premul (m.cReg (sub m.cSel adj)) ∧ ¬ isGradient (m.cReg (sub m.cSel adj))) ∨
      (isGradient (m.cReg (sub m.cSel adj)) ∧
        ¬ (stopsValid (m.gradSpec (m.cReg (sub m.cSel adj))).stops ∧
           2 ≤ (m.gradSpec (m.cReg (sub m.cSel adj))).stops.length)) :=
  paintChoice_none_causes m H adj

/-- Gradient paints: `initGradient` succeeds exactly on the gradients whose stops are valid
    (premultiplied colours, offsets in [0,1], each larger than its predecessor) and that have at least
    two stops, and then builds the gradient of the specification's registers. -/
theorem gradient_validity (z : Renderer α β) (g : RGBA) :
    z.initGradient g =
      if stopsValid ((absVM z).gradSpec g).stops ∧ 2 ≤ ((absVM z).gradSpec g).stops.length
      then some (Grad.Gradient.init ((absVM z).gradSpec g).shape ((absVM z).gradSpec g).spread
        (pix2Grad z ((absVM z).gradSpec g)) (((absVM z).gradSpec g).stops.map stopOf)).1
      else none := initGradient_spec z g

/-- What a realised gradient paint contains, read back through the Renderer's own accessors
    (`Gradient.StopOffsets` / `StopColors`): shape and spread of the register value, stop offsets = the
    `NREG` values (widened to float64), stop colours = the `CREG` values. -/
theorem gradient_paint (z : Renderer α β) (g : GradSpec α) (h2 : 2 ≤ g.stops.length) :
    ∃ G : Grad.Gradient β, realise z (.gradient g) = .gradient G ∧ G.shape = g.shape ∧ G.spread = g.spread ∧
      G.pix2Grad = pix2Grad z g ∧
      G.stopOffsets = g.stops.map (fun s => (Wide.widen s.1 : β)) ∧ G.stopColors = g.stops.map (·.2) :=
  realise_gradient z g h2
example : ∃ g : GradSpec Num.F32, 2 ≤ g.stops.length :=
  ⟨⟨0, 1, [(Ex.n 0, ⟨0xff, 0, 0, 0xff⟩), (Ex.n 1, ⟨0, 0, 0xff, 0xff⟩)], Ex.n 1, Ex.n 0, Ex.n 0, Ex.n 0, Ex.n 1, Ex.n 0⟩,
   by decide⟩

/-! ## paths -/

/-- Clause "causes no rasteriser activity at all", per call: while disabled, every drawing call
    (including `ClosePathEndPath`) returns without touching the rasteriser or the Renderer, for any arc
    implementation. -/
theorem disabled_silent (arc : ArcFn α β) (posInf : α) (z : Renderer α β) (c : Call α)
    (hd : z.disabled = true) (hc : isSegment c = true ∨ c = .closeEnd) :
    z.step arc posInf c = (z, []) := Lemmas.RendererVM.disabled_silent arc posInf z c hd hc
example : ({ Ex.z24 with disabled := true } : Renderer Num.F32 Num.F64).disabled = true ∧
    isSegment (.arc true (Ex.n 1) (Ex.n 1) (Ex.n 0) true true (Ex.n 1) (Ex.n 1) : Call Num.F32) = true :=
  ⟨rfl, rfl⟩

/-- … per path: a path for which the machine prescribes no paint makes no rasteriser call; afterwards
    only `fill`/`disabled` differ, so the following styling calls and paths are processed as usual
    ("the machine still leaves drawing mode"). -/
theorem path_silent (arc : ArcFn α β) (posInf : α) (z : Renderer α β)
    (adj : UInt8) (x y : α) (segs : List (Call α)) (hs : ∀ s ∈ segs, isSegment s = true)
    (h : (absVM z).paintChoice z.r.dy adj = none) :
    z.run arc posInf (.startPath adj x y :: (segs ++ [.closeEnd])) =
      ({ z with fill := (choose z adj).1, disabled := true }, []) :=
  Lemmas.RendererVM.path_silent arc posInf z adj x y segs hs h
set_option maxRecDepth 100000 in
example : (absVM { Ex.z24 with lod0 := Ex.n 32 }).paintChoice ({ Ex.z24 with lod0 := Ex.n 32 } : Renderer Num.F32 Num.F64).r.dy 0 = none ∧
    ∀ s ∈ [(.d2 .L (Ex.n 1) (Ex.n 1) : Call Num.F32), .d1 .H (Ex.n 3)], isSegment s = true := by
  refine ⟨?_, by decide⟩
  rw [← Option.isNone_iff_eq_none]
  decide +kernel

/-- An enabled path: `Reset(w,h)`, `MoveTo`, path segments only, `ClosePath`, and exactly one `Draw` —
    last, into the Renderer's rectangle, with the paint the machine prescribed at `StartPath`; the
    registers are unchanged. -/
theorem path_drawn_once (arc : ArcFn α β) (hArc : ArcPure arc) (posInf : α) (z : Renderer α β)
    (adj : UInt8) (x y : α) (segs : List (Call α)) (hs : ∀ s ∈ segs, isSegment s = true)
    (p : PaintSpec α) (h : (absVM z).paintChoice z.r.dy adj = some p) :
    ∃ mid : List (RasterOp α β), (∀ op ∈ mid, isPathOp op = true) ∧
      (z.run arc posInf (.startPath adj x y :: (segs ++ [.closeEnd]))).2 =
        .reset z.r.dx z.r.dy :: .moveTo (z.absX x) (z.absY y) :: (mid ++ [.closePath, .draw z.r (realise z p)]) ∧
      regs (z.run arc posInf (.startPath adj x y :: (segs ++ [.closeEnd]))).1 = regs z :=
  Lemmas.RendererVM.path_drawn_once arc hArc posInf z adj x y segs hs p h
/-- the arc hypothesis holds for the model of `AbsArcTo` -/
example : ArcPure arcF32 := arcF32_pure
example : ∀ s ∈ [(.d4 .S (Ex.n 1) (Ex.n 1) (Ex.n 2) (Ex.n 0) : Call Num.F32),
    .arc true (Ex.n 1) (Ex.n 2) (Ex.n 0) false true (Ex.n 2) (Ex.n 2), .d2 .Y (Ex.n 0) (Ex.n 0)],
    isSegment s = true := by decide
set_option maxRecDepth 100000 in
example : ((absVM Ex.z24).paintChoice Ex.z24.r.dy 0).isSome = true := by decide +kernel

/-! ## headline -/

/-- **Headline.**  For every program that respects the protocol (`Reset`, then register-setting calls
    and paths `StartPath … ClosePathEndPath`), delivered to a Renderer in any state (any rectangle, any
    history), with any arc implementation that only adds path segments: the `Draw` calls made on the
    rasteriser are, in order, exactly the paints the specification's machine prescribes for the paths,
    each drawn into the Renderer's rectangle. -/
theorem render_refines_vm (arc : ArcFn α β) (hArc : ArcPure arc) (posInf : α) (z0 : Renderer α β)
    (vb : ViewBox α) (pal : Palette) (body : List (Call α)) (hb : Body body) :
    drawsOf (z0.run arc posInf (.reset vb pal :: body)).2 =
      (VM.paints posInf z0.r.dy (VM.init posInf pal) body).map
        (fun p => (z0.r, realise (z0.reset posInf vb pal) p)) :=
  Lemmas.RendererVM.render_refines_vm arc hArc posInf z0 vb pal body hb
/-- a body with a gradient path, a transparent path, a path outside the LOD range and a flat path
    painted through palette index / register reference / blend: the machine prescribes
    `[2-stop gradient, none, none, flat (alpha 0x40)]` -/
example : Body Ex.body ∧
    Ex.kinds (VM.choices Ex.posInf 24 (VM.init Ex.posInf defaultPalette) Ex.body) = [2, 0, 0, 1064] :=
  ⟨Ex.body_ok, Ex.body_kinds⟩

/-- Headline for a truncated graphic (the byte stream ends inside a path: `Reset`, a body, and a last
    path that is started but never closed): the unfinished path is never drawn; the draws are those of
    the body. -/
theorem render_refines_vm_open (arc : ArcFn α β) (hArc : ArcPure arc) (posInf : α) (z0 : Renderer α β)
    (vb : ViewBox α) (pal : Palette) (body : List (Call α)) (hb : Body body)
    (adj : UInt8) (x y : α) (segs : List (Call α)) (hs : ∀ s ∈ segs, isSegment s = true) :
    drawsOf (z0.run arc posInf (.reset vb pal :: (body ++ .startPath adj x y :: segs))).2 =
      (VM.paints posInf z0.r.dy (VM.init posInf pal) body).map
        (fun p => (z0.r, realise (z0.reset posInf vb pal) p)) :=
  Lemmas.RendererVM.render_refines_vm_open arc hArc posInf z0 vb pal body hb adj x y segs hs
example : ArcPure arcF32 ∧ Body Ex.body ∧
    ∀ s ∈ [(.d2 .l (Ex.n 1) (Ex.n 1) : Call Num.F32), .d6 .c (Ex.n 1) (Ex.n 1) (Ex.n 2) (Ex.n 2) (Ex.n 3) (Ex.n 0)],
      isSegment s = true := ⟨arcF32_pure, Ex.body_ok, by decide⟩

/-- **Headline, complete form.**  The whole rasteriser traffic is the concatenation, over the paths
    for which the machine prescribes a paint, of blocks
    `Reset(w,h), MoveTo, segments…, ClosePath, Draw(r, paint)`; paths for which it prescribes none
    contribute nothing at all (see `Blocks`). -/
theorem render_blocks (arc : ArcFn α β) (hArc : ArcPure arc) (posInf : α) (z0 : Renderer α β)
    (vb : ViewBox α) (pal : Palette) (body : List (Call α)) (hb : Body body) :
    Blocks z0.r.dx z0.r.dy z0.r (realise (z0.reset posInf vb pal))
      (VM.choices posInf z0.r.dy (VM.init posInf pal) body)
      (z0.run arc posInf (.reset vb pal :: body)).2 :=
  Lemmas.RendererVM.render_blocks arc hArc posInf z0 vb pal body hb
example : ArcPure arcF32 ∧ Body Ex.body := ⟨arcF32_pure, Ex.body_ok⟩

/-- Corollary: a program all of whose paths are prescribed no paint never calls the rasteriser. -/
theorem all_none_silent (arc : ArcFn α β) (hArc : ArcPure arc) (posInf : α) (z0 : Renderer α β)
    (vb : ViewBox α) (pal : Palette) (body : List (Call α)) (hb : Body body)
    (hn : ∀ c ∈ VM.choices posInf z0.r.dy (VM.init posInf pal) body, c = none) :
    (z0.run arc posInf (.reset vb pal :: body)).2 = [] :=
  blocks_all_none (render_blocks arc hArc posInf z0 vb pal body hb) hn
set_option maxRecDepth 100000 in
/-- e.g. at height 24 with `LOD = [32, 64)` -/
example : Body [(.setLOD (Ex.n 32) (Ex.n 64) : Call Num.F32), .startPath 0 (Ex.n 0) (Ex.n 0), .closeEnd] ∧
    ∀ c ∈ VM.choices Ex.posInf 24 (VM.init Ex.posInf defaultPalette)
      [(.setLOD (Ex.n 32) (Ex.n 64) : Call Num.F32), .startPath 0 (Ex.n 0) (Ex.n 0), .closeEnd], c = none := by
  refine ⟨.styling _ _ rfl (.path 0 _ _ [] _ (by simp) .nil), ?_⟩
  have h : (VM.choices Ex.posInf 24 (VM.init Ex.posInf defaultPalette)
      [(.setLOD (Ex.n 32) (Ex.n 64) : Call Num.F32), .startPath 0 (Ex.n 0) (Ex.n 0), .closeEnd]).all
        Option.isNone = true := by decide +kernel
  intro c hc
  exact Option.isNone_iff_eq_none.mp (List.all_eq_true.mp h c hc)


/-! ## histories of a reused Renderer

`RenOp α` is a Destination call or `SetRasterizer(_, r)`; `z.runOps` runs a history
(`Ivg/Lemmas/RenderHist.lean`).  `SetRasterizer` is not an instruction of the specification's machine: it
changes the height the level-of-detail test uses and the rectangle/transform paints are realised for, and
nothing else. -/
section histories
open Ivg.RenderHist

/-- `SetRasterizer` does not touch the represented machine state (palette, 64+64 registers, selectors, LOD),
    nor the paint and the `disabled` flag of the current path, nor whether the colour switch of the next
    `StartPath` disables the path (`choose … .2`: the stops' validity does not depend on the transform). -/
theorem rast_preserves_machine (z : Renderer α β) (r : Rect) :
    absVM (z.setRasterizer r) = absVM z ∧ paintSt (z.setRasterizer r) = paintSt z ∧
    ∀ adj, (choose (z.setRasterizer r) adj).2 = (choose z adj).2 :=
  ⟨abs_setRasterizer z r, paintSt_setRasterizer z r, choose_flag_setRasterizer z r⟩

/-- `every_call_refines` over histories: the machine state a long-lived Renderer represents is the fold of
    the specification's instructions over the history, `SetRasterizer` being skipped (`vmStepOp`). -/
theorem history_refines_vm (arc : ArcFn α β) (posInf : α) (h : List (RenOp α)) (z : Renderer α β) :
    absVM (z.runOps arc posInf h).1 = h.foldl (vmStepOp posInf) (absVM z) :=
  runOps_abs arc posInf h z

/-- Styling calls are unaffected by `SetRasterizer`: each of the six (including `Reset`) commutes with it —
    the same state whichever comes first, and no rasteriser call. -/
theorem styling_comm_rast (arc : ArcFn α β) (posInf : α) (z : Renderer α β) (r : Rect) (c : Call α)
    (hc : isStyling c = true) :
    (z.setRasterizer r).step arc posInf c = ((z.step arc posInf c).1.setRasterizer r, []) :=
  RenderHist.styling_comm_rast arc posInf z r c hc
example : isStyling (.reset defaultViewBox defaultPalette : Call Num.F32) = true := rfl

/-- Clause "level-of-detail bounds tested against the raster height … when the path starts", after
    `SetRasterizer r`: `StartPath` follows the machine's `paintChoice` evaluated at the height of `r`
    (normalised as `SetRasterizer` does), in the UNCHANGED machine state of `z`; the rasteriser is reset to
    the size of `r`. -/
theorem startPath_after_rast (z : Renderer α β) (r : Rect) (adj : UInt8) (x y : α) :
    match (absVM z).paintChoice (Rect.norm r).dy adj with
    | some p => (z.setRasterizer r).startPath adj x y =
        (started (z.setRasterizer r) (realise (z.setRasterizer r) p) x y,
          [.reset (Rect.norm r).dx (Rect.norm r).dy,
           .moveTo ((z.setRasterizer r).absX x) ((z.setRasterizer r).absY y)])
    | none => (z.setRasterizer r).startPath adj x y =
        ({ z.setRasterizer r with fill := (choose (z.setRasterizer r) adj).1, disabled := true }, []) :=
  RenderHist.startPath_after_rast z r adj x y

/-- … enabled exactly when the machine prescribes a paint at the height of `r`. -/
theorem startPath_rast_enabled_iff (z : Renderer α β) (r : Rect) (adj : UInt8) (x y : α) :
    ((z.setRasterizer r).startPath adj x y).1.disabled = false ↔
      ((absVM z).paintChoice (Rect.norm r).dy adj).isSome = true :=
  RenderHist.startPath_after_rast_enabled_iff z r adj x y

/-- What a prescribed paint is realised as depends on the CURRENT rectangle and viewBox only
    (`realiseAt`, `gradMatrixAt`: specification-level data, no Renderer state): in every state whose
    transform is the recalculated one (every state after a `SetRasterizer` or `Reset`,
    `C05.transform_invariant`), and in particular right after `SetRasterizer r`, whatever scale `z` had. -/
theorem realise_current (z : Renderer α β) :
    (TransformOK z → realise z = realiseAt z.r z.viewBox) ∧
    ∀ r g, pix2Grad (z.setRasterizer r) g = gradMatrixAt (Rect.norm r) z.viewBox g :=
  ⟨realise_of_transformOK z, gradient_matrix_after_rast z⟩
example : TransformOK Ex.z24 := transformOK_reset _ _ _ _

/-- … over histories: after ANY history `h`, `SetRasterizer r`, and any calls other than `Reset` (register
    loads, earlier paths — a gradient realised for an earlier path is never reused), every paint is realised
    for `r` and the viewBox of the last `Reset`. -/
theorem realise_after_rast (arc : ArcFn α β) (posInf : α) (z0 : Renderer α β)
    (h : List (RenOp α)) (r : Rect) (cs : List (Call α)) (hcs : ∀ c ∈ cs, isReset c = false) :
    let z := (z0.runOps arc posInf (h ++ .rast r :: cs.map .call)).1
    realise z = realiseAt (Rect.norm r) (viewBoxAfter z0.viewBox h) ∧
    ∀ g, pix2Grad z g = gradMatrixAt (Rect.norm r) (viewBoxAfter z0.viewBox h) g :=
  RenderHist.gradient_uses_current_transform arc posInf z0 h r cs hcs
example : ∀ c ∈ [(.setNReg 0 true (Ex.n 1) : Call Num.F32), .startPath 0 (Ex.n 0) (Ex.n 0), .closeEnd],
    isReset c = false := by decide

/-- **Headline over histories, general form.**  `HBody`: register-setting calls, `Reset`, `SetRasterizer`
    and complete paths in any order and number (several graphics, each at its own size; `SetRasterizer` also
    between the paths of one graphic).  `paintsH` is the specification side: machine state, target rectangle
    (changed by `SetRasterizer`) and viewBox (changed by `Reset`) threaded through the events; each
    `StartPath` contributes the paint the machine prescribes AT THE HEIGHT OF THE CURRENT RECTANGLE, realised
    for the current rectangle and viewBox.  From any state with the recalculated transform the `Draw` calls
    are, in order, exactly these — each over the rectangle current at its `StartPath`. -/
theorem body_refines_hist (arc : ArcFn α β) (hArc : ArcPure arc) (posInf : α) (h : List (RenOp α))
    (hb : HBody h) (z : Renderer α β) (hz : TransformOK z) :
    drawsOf (z.runOps arc posInf h).2 = paintsH posInf z.r z.viewBox (absVM z) h :=
  RenderHist.body_refines_hist arc hArc posInf h hb z hz

/-- **`render_refines_vm` over histories**, from ANY state `z0` (any earlier history): after `Reset vb pal`
    nothing of `z0` but its rectangle matters … -/
theorem render_refines_vm_hist (arc : ArcFn α β) (hArc : ArcPure arc) (posInf : α) (z0 : Renderer α β)
    (vb : ViewBox α) (pal : Palette) (h : List (RenOp α)) (hb : HBody h) :
    drawsOf (z0.runOps arc posInf (.call (.reset vb pal) :: h)).2 =
      paintsH posInf z0.r vb (VM.init posInf pal) h :=
  RenderHist.render_refines_vm_hist arc hArc posInf z0 vb pal h hb

/-- … after `SetRasterizer r` the machine state and viewBox of `z0` are kept, its rectangle and transform
    are not … -/
theorem render_refines_vm_rast (arc : ArcFn α β) (hArc : ArcPure arc) (posInf : α) (z0 : Renderer α β)
    (r : Rect) (h : List (RenOp α)) (hb : HBody h) :
    drawsOf (z0.runOps arc posInf (.rast r :: h)).2 = paintsH posInf (Rect.norm r) z0.viewBox (absVM z0) h :=
  RenderHist.render_refines_vm_rast arc hArc posInf z0 r h hb

/-- … and the documented life: ANY earlier history `A`, then `SetRasterizer r; Reset vb pal; h` — the draws
    after those of `A` are a function of `r`, `vb`, `pal` and `h` alone. -/
theorem render_refines_vm_reuse (arc : ArcFn α β) (hArc : ArcPure arc) (posInf : α) (z0 : Renderer α β)
    (A : List (RenOp α)) (r : Rect) (vb : ViewBox α) (pal : Palette) (h : List (RenOp α)) (hb : HBody h) :
    drawsOf (z0.runOps arc posInf (A ++ .rast r :: .call (.reset vb pal) :: h)).2 =
      drawsOf (z0.runOps arc posInf A).2 ++ paintsH posInf (Rect.norm r) vb (VM.init posInf pal) h :=
  RenderHist.render_refines_vm_reuse arc hArc posInf z0 A r vb pal h hb
set_option maxRecDepth 100000 in
/-- a life with a path outside the LOD range at height 24, then inside it after `SetRasterizer` to height 48
    between two paths of the same graphic, the same size at another origin, and the same icon again at 24:
    the specification prescribes nothing for the first path and one paint over each later rectangle -/
example : HBody RenderHist.Ex.hist ∧ ArcPure arcF32 ∧
    (paintsH (β := Num.F64) Ex.posInf (⟨0, 0, 0, 0⟩ : Rect) (Renderer.zero : Renderer Num.F32 Num.F64).viewBox
      (absVM (Renderer.zero : Renderer Num.F32 Num.F64)) RenderHist.Ex.hist).map (·.1) =
      [⟨0, 0, 48, 48⟩, ⟨100, 100, 148, 148⟩, ⟨0, 0, 24, 24⟩] :=
  ⟨RenderHist.Ex.hist_ok, arcF32_pure, RenderHist.Ex.hist_spec⟩

end histories

/-!
## Not proved here

* The protocol predicate `Body` is an assumption on the call sequence.  That `decode.Decode` delivers
  only `Reset :: body` or `Reset :: body ++ StartPath :: segments` (stream ending inside a path; also
  when a drawing instruction fails to decode) with `Body body` follows from the decoder's mode
  functions (`Dec.decodeStyling` / `Dec.decodeDrawing`) and belongs to the decoder properties
  (`Ivg/Lemmas/Decoder*.lean`: `StepSpec`, `run_no_reset`); both shapes are covered here
  (`render_refines_vm`, `render_refines_vm_open`), and `styling_refines`, `startPath_paint`,
  `disabled_silent`, `every_call_refines` apply to arbitrary call sequences call by call.
* "the machine still leaves drawing mode": the mode is decoder state (independent of the
  Destination); on the Renderer side this is `path_silent` (only `fill`/`disabled` change) together
  with `render_refines_vm` for the calls that follow.
* Histories (`HBody`): `SetRasterizer` is allowed between register-setting calls, `Reset`s and complete
  paths.  A history that ends inside a path, or calls `SetRasterizer` inside a path, is covered call by call
  (`rast_preserves_machine`, `history_refines_vm`, `startPath_after_rast`, `C05.draw_uses_current_rect`)
  but not by `render_refines_vm_hist`.
* The pixel-space matrix of a gradient (`pix2Grad`) is taken from the code; its agreement with the
  specification's appendix is not part of C04.
* The stop-colour condition follows the property text ("non-premultiplied"); the specification says
  "a stop colour that is itself a gradient", which is implied (every gradient value is
  non-premultiplied).
-/

end Ivg.Props.C04

#obligations C04 [
  Ivg.Props.C04.reset_initialises, Ivg.Props.C04.register_index, Ivg.Props.C04.styling_refines,
  Ivg.Props.C04.every_call_refines, Ivg.Props.C04.colour_resolution, Ivg.Props.C04.colour1_table,
  Ivg.Props.C04.selectors_six_bit, Ivg.Props.C04.startPath_paint, Ivg.Props.C04.startPath_enabled_iff,
  Ivg.Props.C04.no_paint_causes, Ivg.Props.C04.gradient_validity, Ivg.Props.C04.gradient_paint,
  Ivg.Props.C04.disabled_silent, Ivg.Props.C04.path_silent, Ivg.Props.C04.path_drawn_once,
  Ivg.Props.C04.render_refines_vm, Ivg.Props.C04.render_refines_vm_open, Ivg.Props.C04.render_blocks, Ivg.Props.C04.all_none_silent,
  Ivg.Props.C04.rast_preserves_machine, Ivg.Props.C04.history_refines_vm, Ivg.Props.C04.styling_comm_rast,
  Ivg.Props.C04.startPath_after_rast, Ivg.Props.C04.startPath_rast_enabled_iff,
  Ivg.Props.C04.realise_current, Ivg.Props.C04.realise_after_rast, Ivg.Props.C04.body_refines_hist,
  Ivg.Props.C04.render_refines_vm_hist, Ivg.Props.C04.render_refines_vm_rast, Ivg.Props.C04.render_refines_vm_reuse,
  Ivg.Lemmas.RendererVM.arcF32_pure,
  Ivg.Gen.Tie.renderer_fields_tie, Ivg.Gen.Tie.dc1Table_tie,
  -- regenerated code (translator, Ivg/Gen/Code) = model, for all inputs: RenderRegs
  Ivg.Gen.Tie.renderer_CSel_code_tie,
  Ivg.Gen.Tie.renderer_NSel_code_tie,
  Ivg.Gen.Tie.renderer_SetCSel_code_tie,
  Ivg.Gen.Tie.renderer_SetNSel_code_tie,
  Ivg.Gen.Tie.renderer_SetLOD_code_tie,
  Ivg.Gen.Tie.renderer_SetNReg_code_tie,
  Ivg.Gen.Tie.positiveInfinity_code_tie,
  Ivg.Gen.Tie.renderer_Reset_code_tie,
  Ivg.Gen.Tie.renderer_Reset_code_tie_frame,
  -- regenerated code with loops/recursion (translator, fuel) = model, for all inputs and sufficient fuel: Resolve, Ranges, GradAt
  Ivg.Gen.Tie.color_Resolve_code_tie,
  Ivg.Gen.Tie.color_Resolve_code_tie_badTyp,
  Ivg.Gen.Tie.renderer_SetCReg_code_tie,
  Ivg.Gen.Tie.renderer_SetCReg_code_tie',
  Ivg.Gen.Tie.appendRanges_code_tie,
  Ivg.Gen.Tie.appendRanges_code_tie_nonempty,
  Ivg.Gen.Tie.gradient_Init_code_tie,
  Ivg.Gen.Tie.gradient_At_code_tie,
  Ivg.Gen.Tie.gradient_At_code_tie_fits,
  Ivg.Gen.Tie.gradient_Init_code_tie',
  Ivg.Gen.Tie.renderer_initGradient_code_tie,
  -- regenerated code (translator): StartPath (paint choice, LOD test, gradient initialisation, Reset+MoveTo) and ClosePathEndPath (one Draw over the target rectangle, source point (0,0))
  Ivg.Gen.Tie.closePathEndPath_code_tie,
  Ivg.Gen.Tie.startPath_code_tie]
