import Ivg.Props.C03
import Ivg.Gen.Tie.Code.Decoder8
/-!
# C03 — "the decoder implements exactly the FFV0 instruction grammar", restated ON THE CODE

`decode_Decode__optsnil` is `decode.Decode(dst, src)` as the translator regenerates it from /repo's source on every run, run
on a Destination that logs its calls.  `decode_Decode_code_tie` proves it equal to the model for every byte string; here
the refinement `decoder model = specification parser` is carried across, so that the statement relates the regenerated
Go function to the parser written from the specification's text (`Ivg/Spec/FFV0.lean`), with no model in between.
-/
namespace Ivg.Props.C03Code
open Ivg Ivg.Num Ivg.Gen Ivg.Gen.Code Ivg.Gen.Tie Ivg.Spec

/-- The translated `decode.Decode` accepts exactly the byte strings the specification's grammar accepts … -/
theorem code_accepts_iff (fuel : Nat) (src : Bytes) (hf : src.length + 64 ≤ fuel) :
    (decode_Decode__optsnil logOps fuel [] src).1 = none ↔ (FFV0.parse src).isSome := by
  rw [decode_Decode_code_tie fuel [] src hf]
  simp only [Option.map_eq_none_iff]
  exact C03.accepts_iff src

/-- … and for an accepted string has delivered exactly the operations the specification assigns to it, and no error;
    a rejected string ends in an error. -/
theorem code_eq_spec (fuel : Nat) (src : Bytes) (hf : src.length + 64 ≤ fuel) :
    match FFV0.parse src with
    | some cs => decode_Decode__optsnil logOps fuel [] src = (none, cs)
    | none => (decode_Decode__optsnil logOps fuel [] src).1 ≠ none := by
  rw [decode_Decode_code_tie fuel [] src hf]
  have h := C03.decode_eq_spec src
  cases hp : FFV0.parse src with
  | some cs => rw [hp] at h; simp only at h ⊢; rw [h]; simp
  | none => rw [hp] at h; simp only at h ⊢; simpa using h

end Ivg.Props.C03Code

#obligations C03 [Ivg.Props.C03Code.code_accepts_iff, Ivg.Props.C03Code.code_eq_spec]
