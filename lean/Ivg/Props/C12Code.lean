import Ivg.Props.C12
/-!
# C12 — aspect-preserving placement, restated ON THE CODE

`ivg_ViewBox_AspectMeet` / `ivg_ViewBox_AspectSlice` are `ivg.go`'s two fit functions as the translator regenerates them
from /repo's source on every run (float32 arithmetic, bit for bit).  The float32 theorems of `C12.lean` carried across
`aspectMeet_code_tie` / `aspectSlice_code_tie`: they now speak about the regenerated Go functions themselves.
-/
namespace Ivg.Props.C12Code
open Ivg Ivg.Num Ivg.Gen Ivg.Gen.Code Ivg.Gen.Tie FitQ FloatOrder32 FloatMono32 FloatErr Fit32

/-- meet, on the code: finite corners within a few units in the last place (of the target size) of the exact placement,
    inside the target up to that rounding, and touching the target in one dimension bit for bit -/
theorem code_aspectMeet_f32 (v : ViewBox F32) (vq : ViewBox ℚ) (dx dy ax ay : F32) (href : Ref v vq)
    (h : Hyp v.size.1 v.size.2 dx dy ax ay) :
    Fin4 (ivg_ViewBox_AspectMeet (vbOf v) dx dy ax ay) ∧
    CornersNear (ivg_ViewBox_AspectMeet (vbOf v) dx dy ax ay)
      (vq.aspectMeet (val dx) (val dy) (val ax) (val ay)) (val dx) (val dy) ∧
    InsideNear (ivg_ViewBox_AspectMeet (vbOf v) dx dy ax ay) (val dx) (val dy) ∧
    Touches (ivg_ViewBox_AspectMeet (vbOf v) dx dy ax ay) dx dy := by
  rw [aspectMeet_code_tie]; exact C12.aspectMeet_f32 v vq dx dy ax ay href h

/-- slice, on the code -/
theorem code_aspectSlice_f32 (v : ViewBox F32) (vq : ViewBox ℚ) (dx dy ax ay : F32) (href : Ref v vq)
    (h : Hyp v.size.1 v.size.2 dx dy ax ay) :
    Fin4 (ivg_ViewBox_AspectSlice (vbOf v) dx dy ax ay) ∧
    CornersNearS (ivg_ViewBox_AspectSlice (vbOf v) dx dy ax ay)
      (vq.aspectSlice (val dx) (val dy) (val ax) (val ay)) (val dx) (val dy) ∧
    CoversNear (ivg_ViewBox_AspectSlice (vbOf v) dx dy ax ay) (val dx) (val dy) ∧
    Touches (ivg_ViewBox_AspectSlice (vbOf v) dx dy ax ay) dx dy := by
  rw [aspectSlice_code_tie]; exact C12.aspectSlice_f32 v vq dx dy ax ay href h

/-- the slice covers the target with NO tolerance in the branch `dx/dy < viewBox aspect ratio`, as float32 comparisons on
    what the regenerated function returns -/
theorem code_aspectSlice_covers_exact (v : ViewBox F32) (dx dy ax ay : F32)
    (h : Hyp v.size.1 v.size.2 dx dy ax ay) (hb : dx / dy < v.size.1 / v.size.2) :
    (ivg_ViewBox_AspectSlice (vbOf v) dx dy ax ay).1 ≤ 0 ∧ dx ≤ (ivg_ViewBox_AspectSlice (vbOf v) dx dy ax ay).2.2.1 ∧
    (ivg_ViewBox_AspectSlice (vbOf v) dx dy ax ay).2.1 ≤ 0 ∧ dy ≤ (ivg_ViewBox_AspectSlice (vbOf v) dx dy ax ay).2.2.2 := by
  rw [aspectSlice_code_tie]; exact (C12.aspectSlice_covers_exact v dx dy ax ay h).1 hb

end Ivg.Props.C12Code

#obligations C12 [
  Ivg.Props.C12Code.code_aspectMeet_f32, Ivg.Props.C12Code.code_aspectSlice_f32,
  Ivg.Props.C12Code.code_aspectSlice_covers_exact]
