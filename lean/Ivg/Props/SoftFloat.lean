import Ivg.Lemmas.FloatSqrt
import Ivg.Lemmas.FloatConv
import Ivg.Lemmas.FloatCmp
import Ivg.Lemmas.FloatNearest
import Ivg.Lemmas.FloatNearest32
import Ivg.Lemmas.FloatSpecial
import Ivg.Lemmas.FloatSpecial32
import Ivg.Obligations
/-!
# SOFTFLOAT — the software IEEE-754 arithmetic of the model is the IEEE arithmetic

`Ivg/Num/Soft.lean` is the semantics of Go's `float32` / `float64` in the whole model.  This file collects
what is PROVED about it (kernel-checked, against values in `ℚ`) so that it need not be trusted:

* `V64.val b` / `V32.val b` (`FloatOrder.bval`, `FloatOrder32.bval`): the rational value `±m·2^e` of a finite
  bit pattern; `Fin64`/`Fin32`: finite; `NN64`/`NN32`: not a NaN.
* `Rnd64 v b` / `Rnd32 v b` (`FloatOrder.Rnd`, `FloatOrder32.Rnd`): the pattern `b` is the correct rounding
  (nearest, ties to even, gradual underflow, overflow to infinity, sign of `v`; either zero for `v = 0`)
  of the rational `v`.  `Rnd` is monotone (`Rnd_mono`), fixes every representable number (`Rnd_self`), and is
  characterised independently of the implementation: `Rnd_nearest`, `Rnd_tie_even`, `Rnd_overflow`, `Rnd_total`,
  `Rnd_unique` (section "the rounding relation") say that `Rnd` IS round-to-nearest-even on `ℚ`.

Bit patterns are `Nat`s (`a < 2^64`, `a < 2^32`); the wrappers `F64`/`F32` of `Ivg/Num/F32.lean` hold exactly
such patterns (`a.nb`), and every operation result fits the width (`…_lt` lemmas in `Ivg/Lemmas/Float*.lean`),
so the wrapper operations are the `Nat`-level ones.

No `Ivg.Gen.Tie` theorem is relevant here: the tie of the soft float to the hardware is the bit-for-bit
differential test, not a generated fact.
-/
namespace Ivg.Props.SoftFloat
open Ivg Num

abbrev Rnd64 := FloatOrder.Rnd
abbrev Rnd32 := FloatOrder32.Rnd
abbrev Fin64 := FloatOrder.FinB
abbrev Fin32 := FloatOrder32.FinB
abbrev NN64 := FloatOrder.NNB
abbrev NN32 := FloatOrder32.NNB
abbrev val64 := FloatOrder.bval
abbrev val32 := FloatOrder32.bval
abbrev key64 := FloatOrder.key
abbrev key32 := FloatOrder32.key

/-! ## the rounding relation -/

/-- Rounding is monotone: `v ≤ v'` implies `b ≤ b'` in the IEEE order (the `toOrd` key). -/
theorem Rnd_mono (v v' : ℚ) (b b' : Nat) (h : Rnd64 v b) (h' : Rnd64 v' b') (hv : v ≤ v') : key64 b ≤ key64 b' :=
  FloatOrder.Rnd_mono v v' b b' h h' hv
theorem Rnd32_mono (v v' : ℚ) (b b' : Nat) (h : Rnd32 v b) (h' : Rnd32 v' b') (hv : v ≤ v') : key32 b ≤ key32 b' :=
  FloatOrder32.Rnd_mono v v' b b' h h' hv

/-- Every finite pattern is the rounding of its own value (rounding is the identity on representable numbers). -/
theorem Rnd_self (b : Nat) (hb : b < 18446744073709551616) (h : Fin64 b) : Rnd64 (val64 b) b :=
  FloatOrder.Rnd_self b hb h
theorem Rnd32_self (b : Nat) (hb : b < 4294967296) (h : Fin32 b) : Rnd32 (val32 b) b :=
  FloatOrder32.Rnd_self b hb h
example : Fin64 0x3FF8000000000000 ∧ Fin32 0x3FC00000 := by decide
-- instances of the hypotheses of `Rnd_mono`: two roundings of ordered rationals
example : Rnd64 (val64 0x3FF8000000000000) 0x3FF8000000000000 ∧ Rnd64 (val64 0x4000000000000000) 0x4000000000000000 ∧
    val64 0x3FF8000000000000 ≤ val64 0x4000000000000000 :=
  ⟨FloatOrder.Rnd_self _ (by decide) (by decide), FloatOrder.Rnd_self _ (by decide) (by decide),
   (FloatOrder.key_le_iff _ _ (by decide) (by decide) (by decide) (by decide)).1 (by decide)⟩

/-- **`Rnd` is round to nearest**: a finite rounding result is at least as close to `v` as every finite number
    (subnormals included: gradual underflow). -/
theorem Rnd_nearest (v : ℚ) (b : Nat) (h : Rnd64 v b) (fb : Fin64 b) (c : Nat) (hc : c < 18446744073709551616)
    (fc : Fin64 c) : |v - val64 b| ≤ |v - val64 c| := FloatNearest.Rnd_nearest v b h fb c hc fc
theorem Rnd32_nearest (v : ℚ) (b : Nat) (h : Rnd32 v b) (fb : Fin32 b) (c : Nat) (hc : c < 4294967296)
    (fc : Fin32 c) : |v - val32 b| ≤ |v - val32 c| := FloatNearest32.Rnd_nearest v b h fb c hc fc
/-- **ties to even**: if a finite number of another value is exactly as close, the result's mantissa is even. -/
theorem Rnd_tie_even (v : ℚ) (b : Nat) (h : Rnd64 v b) (fb : Fin64 b) (c : Nat) (hc : c < 18446744073709551616)
    (fc : Fin64 c) (htie : |v - val64 c| = |v - val64 b|) (hne : val64 c ≠ val64 b) : FloatOrder.mantB b % 2 = 0 :=
  FloatNearest.Rnd_tie_even v b h fb c hc fc htie hne
theorem Rnd32_tie_even (v : ℚ) (b : Nat) (h : Rnd32 v b) (fb : Fin32 b) (c : Nat) (hc : c < 4294967296)
    (fc : Fin32 c) (htie : |v - val32 c| = |v - val32 b|) (hne : val32 c ≠ val32 b) : FloatOrder32.mantB b % 2 = 0 :=
  FloatNearest32.Rnd_tie_even v b h fb c hc fc htie hne
-- `2^53 + 1` lies half way between `2^53` and `2^53 + 2`; the even mantissa wins
example : Rnd64 (9007199254740993 : ℚ) 0x4340000000000000 ∧ Fin64 0x4340000000000000 ∧ Fin64 0x4340000000000001 := by
  refine ⟨?_, by decide, by decide⟩
  have := FloatRound.ofInt_Rnd 9007199254740993
  have e : Num.ofInt .f64 9007199254740993 = 0x4340000000000000 := by decide +kernel
  rw [e] at this; exact_mod_cast this
/-- **overflow**: the result is infinite exactly for `|v| ≥ 2^1024 - 2^970` (`FloatNearest.ovf`, half an ulp above the
    largest finite number), and then it is the infinity of the sign of `v`. -/
theorem Rnd_overflow (v : ℚ) (b : Nat) (h : Rnd64 v b) :
    (¬ Fin64 b ↔ FloatNearest.ovf ≤ |v|) ∧
    (¬ Fin64 b → b = if v < 0 then 0xFFF0000000000000 else 0x7FF0000000000000) := FloatNearest.Rnd_overflow v b h
/-- binary32: overflow for `|v| ≥ 2^128 - 2^103`. -/
theorem Rnd32_overflow (v : ℚ) (b : Nat) (h : Rnd32 v b) :
    (¬ Fin32 b ↔ FloatNearest32.ovf ≤ |v|) ∧
    (¬ Fin32 b → b = if v < 0 then 0xFF800000 else 0x7F800000) := FloatNearest32.Rnd_overflow v b h
example : Rnd64 FloatNearest.ovf 0x7FF0000000000000 ∧ Rnd32 FloatNearest32.ovf 0x7F800000 :=
  ⟨FloatNearest.Rnd_ovf, FloatNearest32.Rnd_ovf⟩
/-- Every rational has a rounding; it is unique except for the sign of zero (`Rnd 0 (+0)`, `Rnd 0 (-0)`). -/
theorem Rnd_total (v : ℚ) : ∃ b, Rnd64 v b := FloatNearest.Rnd_total v
theorem Rnd_unique (v : ℚ) (b b' : Nat) (hv : v ≠ 0) (h : Rnd64 v b) (h' : Rnd64 v b') : b = b' :=
  FloatNearest.Rnd_unique v b b' hv h h'
theorem Rnd32_total (v : ℚ) : ∃ b, Rnd32 v b := FloatNearest32.Rnd_total v
theorem Rnd32_unique (v : ℚ) (b b' : Nat) (hv : v ≠ 0) (h : Rnd32 v b) (h' : Rnd32 v b') : b = b' :=
  FloatNearest32.Rnd_unique v b b' hv h h'

/-! ## `+ - * /` -/

/-- `a + b` on finite operands is the correct rounding of the exact sum. -/
theorem add_Rnd (a b : Nat) (fa : Fin64 a) (fb : Fin64 b) : Rnd64 (val64 a + val64 b) (Num.add .f64 a b) :=
  FloatMono.add_Rnd a b fa fb
/-- `a - b` on finite operands is the correct rounding of the exact difference. -/
theorem sub_Rnd (a b : Nat) (hb : b < 18446744073709551616) (fa : Fin64 a) (fb : Fin64 b) :
    Rnd64 (val64 a - val64 b) (Num.sub .f64 a b) := FloatMono.sub_Rnd a b hb fa fb
/-- `a * b` on finite operands is the correct rounding of the exact product. -/
theorem mul_Rnd (a b : Nat) (fa : Fin64 a) (fb : Fin64 b) : Rnd64 (val64 a * val64 b) (Num.mul .f64 a b) :=
  FloatMono.mul_Rnd a b fa fb
/-- `a / b` on finite operands, `b ≠ ±0`, is the correct rounding of the exact quotient. -/
theorem div_Rnd (a b : Nat) (fa : Fin64 a) (fb : Fin64 b) (hb0 : FloatOrder.mantB b ≠ 0) :
    Rnd64 (val64 a / val64 b) (Num.div .f64 a b) := FloatMono.div_Rnd a b fa fb hb0
example : Fin64 0x3FF0000000000000 ∧ Fin64 0x4008000000000000 ∧ FloatOrder.mantB 0x4008000000000000 ≠ 0 ∧
    Num.div .f64 0x3FF0000000000000 0x4008000000000000 = 0x3FD5555555555555 :=
  ⟨by decide, by decide, by decide, by decide +kernel⟩

/-- binary32: the same four theorems. -/
theorem add32_Rnd (a b : Nat) (fa : Fin32 a) (fb : Fin32 b) : Rnd32 (val32 a + val32 b) (Num.add .f32 a b) :=
  FloatMono32.add_Rnd a b fa fb
theorem sub32_Rnd (a b : Nat) (hb : b < 4294967296) (fa : Fin32 a) (fb : Fin32 b) :
    Rnd32 (val32 a - val32 b) (Num.sub .f32 a b) := FloatMono32.sub_Rnd a b hb fa fb
theorem mul32_Rnd (a b : Nat) (fa : Fin32 a) (fb : Fin32 b) : Rnd32 (val32 a * val32 b) (Num.mul .f32 a b) :=
  FloatMono32.mul_Rnd a b fa fb
theorem div32_Rnd (a b : Nat) (fa : Fin32 a) (fb : Fin32 b) (hb0 : FloatOrder32.mantB b ≠ 0) :
    Rnd32 (val32 a / val32 b) (Num.div .f32 a b) := FloatMono32.div_Rnd a b fa fb hb0
example : Fin32 0x3F800000 ∧ Fin32 0x40400000 ∧ FloatOrder32.mantB 0x40400000 ≠ 0 ∧
    Num.div .f32 0x3F800000 0x40400000 = 0x3EAAAAAB :=
  ⟨by decide, by decide, by decide, by decide +kernel⟩

/-! ## `+ - * /` on zeros, infinities and NaNs -/

/-- The sign of an exact zero result: a sum is `-0` only for two negative operands (`x + (-x) = +0`); a product or
    quotient has the exclusive or of the operand signs. -/
theorem zero_signs (a b : Nat) (fa : Fin64 a) (fb : Fin64 b) :
    (val64 a + val64 b = 0 → Num.add .f64 a b = FloatSpecial.zero (FloatOrder.negB64 a && FloatOrder.negB64 b)) ∧
    (val64 a * val64 b = 0 → Num.mul .f64 a b = FloatSpecial.zero (FloatOrder.negB64 a != FloatOrder.negB64 b)) ∧
    (val64 a = 0 → val64 b ≠ 0 → Num.div .f64 a b = FloatSpecial.zero (FloatOrder.negB64 a != FloatOrder.negB64 b)) :=
  ⟨FloatSpecial.add_zero_sign a b fa fb, FloatSpecial.mul_zero_sign a b fa fb, FloatSpecial.div_zero_sign a b fa fb⟩
theorem zero_signs32 (a b : Nat) (fa : Fin32 a) (fb : Fin32 b) :
    (val32 a + val32 b = 0 → Num.add .f32 a b = FloatSpecial32.zero (FloatOrder32.negB32 a && FloatOrder32.negB32 b)) ∧
    (val32 a * val32 b = 0 → Num.mul .f32 a b = FloatSpecial32.zero (FloatOrder32.negB32 a != FloatOrder32.negB32 b)) ∧
    (val32 a = 0 → val32 b ≠ 0 →
      Num.div .f32 a b = FloatSpecial32.zero (FloatOrder32.negB32 a != FloatOrder32.negB32 b)) :=
  ⟨FloatSpecial32.add_zero_sign a b fa fb, FloatSpecial32.mul_zero_sign a b fa fb,
   FloatSpecial32.div_zero_sign a b fa fb⟩
example : Fin64 0x3FF0000000000000 ∧ Fin64 0xBFF0000000000000 ∧ Num.add .f64 0x3FF0000000000000 0xBFF0000000000000 = 0 :=
  ⟨by decide, by decide, by decide +kernel⟩
/-- Division of a finite number by `±0`: `0/0` is the default NaN, otherwise `±Inf` with the quotient sign. -/
theorem div_by_zero (a b : Nat) (fa : Fin64 a) (fb : Fin64 b) (hb0 : val64 b = 0) :
    Num.div .f64 a b = if val64 a = 0 then FloatSpecial.dNaN
      else FloatSpecial.inf (FloatOrder.negB64 a != FloatOrder.negB64 b) := FloatSpecial.div_by_zero a b fa fb hb0
theorem div32_by_zero (a b : Nat) (fa : Fin32 a) (fb : Fin32 b) (hb0 : val32 b = 0) :
    Num.div .f32 a b = if val32 a = 0 then FloatSpecial32.dNaN
      else FloatSpecial32.inf (FloatOrder32.negB32 a != FloatOrder32.negB32 b) := FloatSpecial32.div_by_zero a b fa fb hb0
example : Num.div .f64 0xBFF0000000000000 0 = 0xFFF0000000000000 ∧ Num.div .f64 0 0x8000000000000000 = FloatSpecial.dNaN := by
  decide +kernel
/-- Infinite operands of `+`: `Inf + x = Inf`, `Inf + Inf = Inf`, `Inf + (-Inf)` = default NaN. -/
theorem add_inf (a b : Nat) :
    (FloatRound.InfB a → Fin64 b → Num.add .f64 a b = a) ∧ (Fin64 a → FloatRound.InfB b → Num.add .f64 a b = b) ∧
    (FloatRound.InfB a → FloatRound.InfB b →
      Num.add .f64 a b = if FloatOrder.negB64 a = FloatOrder.negB64 b then a else FloatSpecial.dNaN) :=
  ⟨FloatSpecial.add_inf_fin a b, FloatSpecial.add_fin_inf a b, FloatSpecial.add_inf_inf a b⟩
theorem add32_inf (a b : Nat) :
    (FloatRound32.InfB a → Fin32 b → Num.add .f32 a b = a) ∧ (Fin32 a → FloatRound32.InfB b → Num.add .f32 a b = b) ∧
    (FloatRound32.InfB a → FloatRound32.InfB b →
      Num.add .f32 a b = if FloatOrder32.negB32 a = FloatOrder32.negB32 b then a else FloatSpecial32.dNaN) :=
  ⟨FloatSpecial32.add_inf_fin a b, FloatSpecial32.add_fin_inf a b, FloatSpecial32.add_inf_inf a b⟩
/-- For non-NaN operands `a - b = a + (-b)` (so the cases of `-` are those of `+`). -/
theorem sub_eq_add_neg (a b : Nat) (ha : NN64 a) (hb : NN64 b) : Num.sub .f64 a b = Num.add .f64 a (Num.neg .f64 b) :=
  FloatSpecial.sub_eq_add_neg a b ha hb
theorem sub32_eq_add_neg (a b : Nat) (ha : NN32 a) (hb : NN32 b) : Num.sub .f32 a b = Num.add .f32 a (Num.neg .f32 b) :=
  FloatSpecial32.sub_eq_add_neg a b ha hb
/-- Infinite operands of `*`: `±Inf` with the product sign, except `Inf · 0` = default NaN. -/
theorem mul_inf (a b : Nat) :
    (FloatRound.InfB a → FloatRound.InfB b → Num.mul .f64 a b = FloatSpecial.inf (FloatOrder.negB64 a != FloatOrder.negB64 b)) ∧
    (FloatRound.InfB a → Fin64 b → Num.mul .f64 a b =
      if val64 b = 0 then FloatSpecial.dNaN else FloatSpecial.inf (FloatOrder.negB64 a != FloatOrder.negB64 b)) ∧
    (Fin64 a → FloatRound.InfB b → Num.mul .f64 a b =
      if val64 a = 0 then FloatSpecial.dNaN else FloatSpecial.inf (FloatOrder.negB64 a != FloatOrder.negB64 b)) :=
  ⟨FloatSpecial.mul_inf_inf a b, FloatSpecial.mul_inf_fin a b, FloatSpecial.mul_fin_inf a b⟩
theorem mul32_inf (a b : Nat) :
    (FloatRound32.InfB a → FloatRound32.InfB b →
      Num.mul .f32 a b = FloatSpecial32.inf (FloatOrder32.negB32 a != FloatOrder32.negB32 b)) ∧
    (FloatRound32.InfB a → Fin32 b → Num.mul .f32 a b =
      if val32 b = 0 then FloatSpecial32.dNaN else FloatSpecial32.inf (FloatOrder32.negB32 a != FloatOrder32.negB32 b)) ∧
    (Fin32 a → FloatRound32.InfB b → Num.mul .f32 a b =
      if val32 a = 0 then FloatSpecial32.dNaN else FloatSpecial32.inf (FloatOrder32.negB32 a != FloatOrder32.negB32 b)) :=
  ⟨FloatSpecial32.mul_inf_inf a b, FloatSpecial32.mul_inf_fin a b, FloatSpecial32.mul_fin_inf a b⟩
/-- Infinite operands of `/`: `Inf/Inf` = default NaN, `Inf/x = ±Inf`, `x/Inf = ±0`. -/
theorem div_inf (a b : Nat) :
    (FloatRound.InfB a → FloatRound.InfB b → Num.div .f64 a b = FloatSpecial.dNaN) ∧
    (FloatRound.InfB a → Fin64 b → Num.div .f64 a b = FloatSpecial.inf (FloatOrder.negB64 a != FloatOrder.negB64 b)) ∧
    (Fin64 a → FloatRound.InfB b → Num.div .f64 a b = FloatSpecial.zero (FloatOrder.negB64 a != FloatOrder.negB64 b)) :=
  ⟨FloatSpecial.div_inf_inf a b, FloatSpecial.div_inf_fin a b, FloatSpecial.div_fin_inf a b⟩
theorem div32_inf (a b : Nat) :
    (FloatRound32.InfB a → FloatRound32.InfB b → Num.div .f32 a b = FloatSpecial32.dNaN) ∧
    (FloatRound32.InfB a → Fin32 b →
      Num.div .f32 a b = FloatSpecial32.inf (FloatOrder32.negB32 a != FloatOrder32.negB32 b)) ∧
    (Fin32 a → FloatRound32.InfB b →
      Num.div .f32 a b = FloatSpecial32.zero (FloatOrder32.negB32 a != FloatOrder32.negB32 b)) :=
  ⟨FloatSpecial32.div_inf_inf a b, FloatSpecial32.div_inf_fin a b, FloatSpecial32.div_fin_inf a b⟩
example : FloatRound.InfB 0x7FF0000000000000 ∧ FloatRound.InfB 0xFFF0000000000000 ∧ Fin64 0 ∧
    Num.add .f64 0x7FF0000000000000 0xFFF0000000000000 = FloatSpecial.dNaN ∧
    Num.mul .f64 0x7FF0000000000000 0 = FloatSpecial.dNaN := ⟨by decide, by decide, by decide, by decide +kernel, by decide +kernel⟩
/-- NaN operands (SSE): the first NaN operand is returned quieted. -/
theorem nan_propagation (a b : Nat) :
    (¬ NN64 a → Num.add .f64 a b = quiet .f64 a ∧ Num.sub .f64 a b = quiet .f64 a ∧
      Num.mul .f64 a b = quiet .f64 a ∧ Num.div .f64 a b = quiet .f64 a) ∧
    (NN64 a → ¬ NN64 b → Num.add .f64 a b = quiet .f64 b ∧ Num.sub .f64 a b = quiet .f64 b ∧
      Num.mul .f64 a b = quiet .f64 b ∧ Num.div .f64 a b = quiet .f64 b) :=
  ⟨fun h => ⟨FloatSpecial.add_nan_left a b h, FloatSpecial.sub_nan_left a b h, FloatSpecial.mul_nan_left a b h,
      FloatSpecial.div_nan_left a b h⟩,
   fun ha h => ⟨FloatSpecial.add_nan_right a b ha h, FloatSpecial.sub_nan_right a b ha h,
      FloatSpecial.mul_nan_right a b ha h, FloatSpecial.div_nan_right a b ha h⟩⟩
theorem nan32_propagation (a b : Nat) :
    (¬ NN32 a → Num.add .f32 a b = quiet .f32 a ∧ Num.sub .f32 a b = quiet .f32 a ∧
      Num.mul .f32 a b = quiet .f32 a ∧ Num.div .f32 a b = quiet .f32 a) ∧
    (NN32 a → ¬ NN32 b → Num.add .f32 a b = quiet .f32 b ∧ Num.sub .f32 a b = quiet .f32 b ∧
      Num.mul .f32 a b = quiet .f32 b ∧ Num.div .f32 a b = quiet .f32 b) :=
  ⟨fun h => ⟨FloatSpecial32.add_nan_left a b h, FloatSpecial32.sub_nan_left a b h, FloatSpecial32.mul_nan_left a b h,
      FloatSpecial32.div_nan_left a b h⟩,
   fun ha h => ⟨FloatSpecial32.add_nan_right a b ha h, FloatSpecial32.sub_nan_right a b ha h,
      FloatSpecial32.mul_nan_right a b ha h, FloatSpecial32.div_nan_right a b ha h⟩⟩
example : ¬ NN64 0x7FF0000000000001 ∧ NN64 0 ∧
    Num.mul .f64 0x7FF0000000000001 0x7FF8000000000002 = 0x7FF8000000000001 := ⟨by decide, by decide, by decide +kernel⟩
/-- `quiet` sets the quiet bit (bit 51 / bit 22) and changes nothing else. -/
theorem quiet_spec (b : Nat) :
    quiet .f64 b = (if b / 2251799813685248 % 2 = 1 then b else b + 2251799813685248) ∧
    quiet .f32 b = (if b / 4194304 % 2 = 1 then b else b + 4194304) :=
  ⟨FloatRound.quiet_f64 b, FloatConv.quiet_f32 b⟩

/-! ## the wrappers `F64`, `F32` never truncate a result -/

/-- The `F64` / `F32` operators are the `Nat`-level operations on the stored patterns. -/
theorem F64_ops (a b : F64) :
    (a + b).nb = Num.add .f64 a.nb b.nb ∧ (a - b).nb = Num.sub .f64 a.nb b.nb ∧
    (a * b).nb = Num.mul .f64 a.nb b.nb ∧ (a / b).nb = Num.div .f64 a.nb b.nb := FloatSpecial.F64_ops a b
theorem F32_ops (a b : F32) :
    (a + b).nb = Num.add .f32 a.nb b.nb ∧ (a - b).nb = Num.sub .f32 a.nb b.nb ∧
    (a * b).nb = Num.mul .f32 a.nb b.nb ∧ (a / b).nb = Num.div .f32 a.nb b.nb := FloatSpecial32.F32_ops a b
theorem F64_unary (a : F64) :
    a.sqrt.nb = Num.sqrt .f64 a.nb ∧ a.floor.nb = Num.floor .f64 a.nb ∧ a.ceil.nb = Num.ceil .f64 a.nb ∧
    (-a).nb = Num.neg .f64 a.nb ∧ (F64.toF32 a).nb = convert .f64 .f32 a.nb :=
  ⟨FloatSqrt.sqrt_nb a, FloatRound.floor_nb a, FloatRound.ceil_nb a, FloatMono.neg_nb a, FloatConv.toF32_nb a⟩
theorem F32_unary (a : F32) (i : Int) :
    (-a).nb = Num.neg .f32 a.nb ∧ (F64.ofF32 a).nb = convert .f32 .f64 a.nb ∧
    (F32.ofInt i).nb = Num.ofInt .f32 i ∧ (F64.ofInt i).nb = Num.ofInt .f64 i :=
  ⟨FloatMono32.neg_nb a, FloatConv.ofF32_nb a, FloatRound32.ofInt_nb i, FloatRound.ofInt_nb i⟩

/-! ## square root (binary64; the model has no binary32 root) -/

/-- **`√a`, `a` finite and positive, is correctly rounded**: there are rationals `q1 ≤ q2` enclosing the real
    root (`q1² ≤ val a ≤ q2²`) which both round to the result; rounding being monotone, the correct rounding
    of the (in general irrational) root is that pattern. -/
theorem sqrt_Rnd (a : Nat) (fa : Fin64 a) (hpos : 0 < val64 a) :
    ∃ q1 q2 : ℚ, 0 < q1 ∧ q1 ≤ q2 ∧ q1 ^ 2 ≤ val64 a ∧ val64 a ≤ q2 ^ 2 ∧
      Rnd64 q1 (Num.sqrt .f64 a) ∧ Rnd64 q2 (Num.sqrt .f64 a) := FloatSqrt.sqrt_Rnd a fa hpos
example : Fin64 0x4000000000000000 ∧ 0 < val64 0x4000000000000000 ∧
    Num.sqrt .f64 0x4000000000000000 = 0x3FF6A09E667F3BCD :=
  ⟨by decide, (FloatSqrt.bval_pos_iff _).2 ⟨by decide, by decide⟩, by decide +kernel⟩

/-- Order-theoretic form: every non-negative rational below the real root rounds to at most the result, every
    one above to at least the result … -/
theorem sqrt_sandwich (a : Nat) (fa : Fin64 a) (hpos : 0 < val64 a) (x : ℚ) (c : Nat) (hx : 0 ≤ x)
    (hR : Rnd64 x c) :
    (x ^ 2 ≤ val64 a → key64 c ≤ key64 (Num.sqrt .f64 a)) ∧ (val64 a ≤ x ^ 2 → key64 (Num.sqrt .f64 a) ≤ key64 c) :=
  FloatSqrt.sqrt_sandwich a fa hpos x c hx hR
/-- … and this determines the result. -/
theorem sqrt_unique (a : Nat) (fa : Fin64 a) (hpos : 0 < val64 a) (b' : Nat)
    (h : ∀ (x : ℚ) (c : Nat), 0 ≤ x → Rnd64 x c →
      (x ^ 2 ≤ val64 a → key64 c ≤ key64 b') ∧ (val64 a ≤ x ^ 2 → key64 b' ≤ key64 c)) :
    key64 b' = key64 (Num.sqrt .f64 a) := FloatSqrt.sqrt_unique a fa hpos b' h
/-- A rational root is rounded correctly (no tie problem: the root itself is rounded). -/
theorem sqrt_exact (a : Nat) (fa : Fin64 a) (x : ℚ) (c : Nat) (hx : 0 < x) (hsq : val64 a = x ^ 2)
    (hR : Rnd64 x c) : Num.sqrt .f64 a = c := FloatSqrt.sqrt_exact a fa x c hx hsq hR
-- `√4 = 2`: `val a = 2²` and `2.0` is the rounding of `2`
example : Fin64 0x4010000000000000 ∧ val64 0x4010000000000000 = (2 : ℚ) ^ 2 ∧ Rnd64 (2 : ℚ) 0x4000000000000000 ∧
    Num.sqrt .f64 0x4010000000000000 = 0x4000000000000000 := by
  refine ⟨by decide, ?_, ?_, by decide +kernel⟩
  · have e1 : FloatOrder.negB64 0x4010000000000000 = false := by decide
    have e2 : FloatOrder.mantB 0x4010000000000000 = 4503599627370496 := by decide
    have e3 : FloatOrder.expB 0x4010000000000000 = -50 := by decide
    show FloatOrder.bval _ = _
    unfold FloatOrder.bval FloatOrder.sval FloatOrder.pow2; rw [e1, e2, e3]; norm_num
  · have := FloatRound.ofInt_Rnd 2
    have e : Num.ofInt .f64 2 = 0x4000000000000000 := by decide +kernel
    rw [e] at this; exact_mod_cast this
/-- The root of a finite positive number is finite, and it is at least as close as any finite number to every
    rational of an enclosure `[q1, q2] ∋ √(val a)`: it is the nearest number to the real root. -/
theorem sqrt_nearest (a : Nat) (fa : Fin64 a) (hpos : 0 < val64 a) :
    Fin64 (Num.sqrt .f64 a) ∧
    ∃ q1 q2 : ℚ, 0 < q1 ∧ q1 ≤ q2 ∧ q1 ^ 2 ≤ val64 a ∧ val64 a ≤ q2 ^ 2 ∧
      ∀ x : ℚ, q1 ≤ x → x ≤ q2 → ∀ c, c < 18446744073709551616 → Fin64 c →
        |x - val64 (Num.sqrt .f64 a)| ≤ |x - val64 c| := FloatNearest.sqrt_nearest a fa hpos

/-- `√(±0) = ±0`. -/
theorem sqrt_zero (a : Nat) (fa : Fin64 a) (h : FloatOrder.mantB a = 0) : Num.sqrt .f64 a = a :=
  FloatSqrt.sqrt_zero a fa h
example : Fin64 0x8000000000000000 ∧ FloatOrder.mantB 0x8000000000000000 = 0 := by decide
/-- `√` of a negative finite number is the default NaN. -/
theorem sqrt_negative (a : Nat) (fa : Fin64 a) (hneg : val64 a < 0) : Num.sqrt .f64 a = 0xFFF8000000000000 :=
  FloatSqrt.sqrt_negative a fa hneg
example : Fin64 0xBFF0000000000000 ∧ val64 0xBFF0000000000000 < 0 :=
  ⟨by decide, (FloatSqrt.bval_neg_iff _).2 ⟨by decide, by decide⟩⟩
/-- `√(+Inf) = +Inf`, `√(-Inf)` = default NaN. -/
theorem sqrt_inf : Num.sqrt .f64 0x7FF0000000000000 = 0x7FF0000000000000 ∧
    Num.sqrt .f64 0xFFF0000000000000 = 0xFFF8000000000000 := ⟨FloatSqrt.sqrt_posInf, FloatSqrt.sqrt_negInf⟩
/-- `√NaN` is the operand quieted. -/
theorem sqrt_nan (a : Nat) (h : ¬ NN64 a) : Num.sqrt .f64 a = quiet .f64 a := FloatSqrt.sqrt_nanB a h
example : ¬ NN64 0x7FF0000000000001 := by decide

/-! ## floor, ceil (binary64) -/

/-- `math.Floor` of a finite number: finite, value `⌊val a⌋` exactly, sign bit of the operand
    (`floor(-0) = -0`, `floor(0.5) = +0`). -/
theorem floor_spec (a : Nat) (ha : a < 18446744073709551616) (fa : Fin64 a) :
    Fin64 (Num.floor .f64 a) ∧ FloatOrder.negB64 (Num.floor .f64 a) = FloatOrder.negB64 a ∧
    val64 (Num.floor .f64 a) = (⌊val64 a⌋ : ℚ) ∧ Num.floor .f64 a < 18446744073709551616 :=
  FloatRound.floor_spec a ha fa
/-- `math.Ceil` of a finite number: finite, value `⌈val a⌉` exactly, sign bit of the operand (`ceil(-0.5) = -0`). -/
theorem ceil_spec (a : Nat) (ha : a < 18446744073709551616) (fa : Fin64 a) :
    Fin64 (Num.ceil .f64 a) ∧ FloatOrder.negB64 (Num.ceil .f64 a) = FloatOrder.negB64 a ∧
    val64 (Num.ceil .f64 a) = (⌈val64 a⌉ : ℚ) ∧ Num.ceil .f64 a < 18446744073709551616 :=
  FloatRound.ceil_spec a ha fa
example : Fin64 0xBFE0000000000000 ∧ Num.floor .f64 0xBFE0000000000000 = 0xBFF0000000000000 ∧
    Num.ceil .f64 0xBFE0000000000000 = 0x8000000000000000 := ⟨by decide, by decide +kernel, by decide +kernel⟩
/-- Infinities are kept, a NaN is returned quieted. -/
theorem floor_ceil_special (a : Nat) (ha : a < 18446744073709551616) :
    (FloatRound.InfB a → Num.floor .f64 a = a ∧ Num.ceil .f64 a = a) ∧
    (¬ NN64 a → Num.floor .f64 a = quiet .f64 a ∧ Num.ceil .f64 a = quiet .f64 a) :=
  ⟨fun h => ⟨FloatRound.floor_inf a h, FloatRound.ceil_inf a ha h⟩,
   fun h => ⟨FloatRound.floor_nan a h, FloatRound.ceil_nan a ha h⟩⟩
example : FloatRound.InfB 0xFFF0000000000000 ∧ ¬ NN64 0xFFF0000000000001 := by decide

/-! ## format conversion -/

/-- `float64(x)` of a finite binary32 number is exact (value and sign bit). -/
theorem widen_exact (a : Nat) (fa : Fin32 a) :
    Fin64 (convert .f32 .f64 a) ∧ val64 (convert .f32 .f64 a) = val32 a ∧
    FloatOrder.negB64 (convert .f32 .f64 a) = FloatOrder32.negB32 a ∧
    convert .f32 .f64 a < 18446744073709551616 := FloatConv.widen_exact a fa
example : Fin32 0x3DCCCCCD ∧ convert .f32 .f64 0x3DCCCCCD = 0x3FB99999A0000000 := ⟨by decide, by decide +kernel⟩
/-- … `±Inf ↦ ±Inf`, NaN ↦ quiet NaN, sign kept, payload in the top mantissa bits. -/
theorem widen_special (a : Nat) (ha : a < 4294967296) :
    (FloatConv.InfB32 a → convert .f32 .f64 a =
      (if FloatOrder32.negB32 a then 0xFFF0000000000000 else 0x7FF0000000000000)) ∧
    (¬ NN32 a → convert .f32 .f64 a =
      (if a ≥ 2147483648 then 0x8000000000000000 else 0) + 0x7FF8000000000000 + (a % 4194304) * 536870912) :=
  ⟨FloatConv.widen_inf a, FloatConv.widen_nan a ha⟩
example : FloatConv.InfB32 0xFF800000 ∧ ¬ NN32 0x7F800001 := by decide
/-- `float32(x)` of a finite binary64 number is the correct rounding of its value, with the operand's sign bit. -/
theorem narrow_Rnd (a : Nat) (fa : Fin64 a) :
    Rnd32 (val64 a) (convert .f64 .f32 a) ∧ FloatOrder32.negB32 (convert .f64 .f32 a) = FloatOrder.negB64 a :=
  ⟨FloatConv.narrow_Rnd a fa, FloatConv.narrow_sign a fa⟩
example : Fin64 0x3FB999999999999A ∧ convert .f64 .f32 0x3FB999999999999A = 0x3DCCCCCD :=
  ⟨by decide, by decide +kernel⟩
/-- … `±Inf ↦ ±Inf`, NaN ↦ quiet NaN, sign kept, top 22 payload bits kept. -/
theorem narrow_special (a : Nat) (ha : a < 18446744073709551616) :
    (FloatRound.InfB a → convert .f64 .f32 a = (if FloatOrder.negB64 a then 0xFF800000 else 0x7F800000)) ∧
    (¬ NN64 a → convert .f64 .f32 a =
      (if a ≥ 9223372036854775808 then 0x80000000 else 0) + 0x7FC00000 + a % 2251799813685248 / 536870912) :=
  ⟨FloatConv.narrow_inf a, FloatConv.narrow_nan a ha⟩
/-- `float32(float64(x)) = x`. -/
theorem toF32_ofF32 (a : F32) (fa : FloatMono32.Fin a) (h0 : FloatMono32.val a ≠ 0) : F64.toF32 (F64.ofF32 a) = a :=
  FloatConv.toF32_ofF32 a fa h0
example : FloatMono32.Fin (⟨0x3DCCCCCD⟩ : F32) ∧ F64.toF32 (F64.ofF32 ⟨0x3DCCCCCD⟩) = ⟨0x3DCCCCCD⟩ :=
  ⟨by decide, by decide +kernel⟩

/-! ## integer conversions -/

/-- `float64(i)` is the correct rounding of `i`, exact for `|i| < 2^53`. -/
theorem ofInt_Rnd (i : Int) : Rnd64 (i : ℚ) (Num.ofInt .f64 i) := FloatRound.ofInt_Rnd i
theorem ofInt_exact (i : Int) (h : i.natAbs < 9007199254740992) :
    Fin64 (Num.ofInt .f64 i) ∧ val64 (Num.ofInt .f64 i) = (i : ℚ) := FloatRound.ofInt_exact i h
/-- `float32(i)` is the correct rounding of `i`, exact for `|i| < 2^24`. -/
theorem ofInt32_Rnd (i : Int) : Rnd32 (i : ℚ) (Num.ofInt .f32 i) := FloatRound32.ofInt_Rnd i
theorem ofInt32_exact (i : Int) (h : i.natAbs < 16777216) :
    Fin32 (Num.ofInt .f32 i) ∧ val32 (Num.ofInt .f32 i) = (i : ℚ) := FloatRound32.ofInt_exact i h
example : (-3 : Int).natAbs < 16777216 ∧ Num.ofInt .f32 16777217 = 0x4B800000 ∧ Num.ofInt .f32 (-3) = 0xC0400000 := by
  decide +kernel

/-- `truncInt` of a finite number is its value truncated toward zero (`FloatRound.tr v = ⌊v⌋` for `v ≥ 0`,
    `⌈v⌉` otherwise); of an infinity or NaN it is `none`. -/
theorem truncInt_spec (a : Nat) :
    (Fin64 a → Num.truncInt .f64 a = some (FloatRound.tr (val64 a))) ∧ (¬ Fin64 a → Num.truncInt .f64 a = none) :=
  ⟨FloatRound.truncInt_spec a, FloatRound.truncInt_none a⟩
theorem truncInt32_spec (a : Nat) :
    (Fin32 a → Num.truncInt .f32 a = some (FloatRound.tr (val32 a))) ∧ (¬ Fin32 a → Num.truncInt .f32 a = none) :=
  ⟨FloatRound32.truncInt_spec a, FloatRound32.truncInt_none a⟩

/-- Go `int64(x)` / `int(x)` (CVTTSD2SQ): truncation for `|val x| < 2^63`; otherwise (also Inf, NaN) `-2^63`. -/
theorem toInt64_spec (a : F64) :
    (FloatMono.Fin a → -(2:ℚ)^63 < FloatMono.val a → FloatMono.val a < (2:ℚ)^63 →
      a.toInt64 = FloatRound.tr (FloatMono.val a)) ∧
    (¬ FloatMono.Fin a ∨ FloatRound.tr (FloatMono.val a) < -(2:Int)^63 ∨ (2:Int)^63 ≤ FloatRound.tr (FloatMono.val a) →
      a.toInt64 = -(2:Int)^63) :=
  ⟨FloatRound.toInt64_val a, FloatRound.toInt64_indefinite a⟩
example : (⟨0xC004000000000000⟩ : F64).toInt64 = -2 ∧ (⟨0x43E0000000000000⟩ : F64).toInt64 = -(2:Int)^63 := by
  decide +kernel
/-- Go `uint16(x)`: low 16 bits of `int64(x)`; the truncation itself for `0 ≤ val x < 65536`. -/
theorem toUInt16_spec (a : F64) :
    a.toUInt16.toNat = (a.toInt64 % 65536).toNat ∧
    (FloatMono.Fin a → 0 ≤ FloatMono.val a → FloatMono.val a < 65536 → (a.toUInt16.toNat : Int) = ⌊FloatMono.val a⌋) :=
  ⟨FloatRound.toUInt16_spec a, FloatRound.toUInt16_inrange a⟩
/-- Go `int32(f)` (CVTTSS2SL): truncation for `|val f| < 2^31`; otherwise (also Inf, NaN) `-2^31`. -/
theorem toInt32_spec (a : F32) :
    (FloatMono32.Fin a → -(2:ℚ)^31 < FloatMono32.val a → FloatMono32.val a < (2:ℚ)^31 →
      a.toInt32 = FloatRound.tr (FloatMono32.val a)) ∧
    (¬ FloatMono32.Fin a ∨ FloatRound.tr (FloatMono32.val a) < -(2:Int)^31 ∨
      (2:Int)^31 ≤ FloatRound.tr (FloatMono32.val a) → a.toInt32 = -(2:Int)^31) :=
  ⟨FloatRound32.toInt32_val a, FloatRound32.toInt32_indefinite a⟩
/-- Go `uint32(f)`: low 32 bits of the 64-bit conversion (CVTTSS2SQ), `0` when that is indefinite; the
    truncation itself for `0 ≤ val f < 2^32`. -/
theorem toUInt32_spec (a : F32) :
    (FloatMono32.Fin a → -(2:Int)^63 ≤ FloatRound.tr (FloatMono32.val a) → FloatRound.tr (FloatMono32.val a) < (2:Int)^63 →
      a.toUInt32.toNat = (FloatRound.tr (FloatMono32.val a) % (2:Int)^32).toNat) ∧
    (¬ FloatMono32.Fin a ∨ FloatRound.tr (FloatMono32.val a) < -(2:Int)^63 ∨
      (2:Int)^63 ≤ FloatRound.tr (FloatMono32.val a) → a.toUInt32 = 0) ∧
    (FloatMono32.Fin a → 0 ≤ FloatMono32.val a → FloatMono32.val a < 4294967296 →
      (a.toUInt32.toNat : Int) = ⌊FloatMono32.val a⌋) :=
  ⟨FloatRound32.toUInt32_spec a, FloatRound32.toUInt32_indefinite a, FloatRound32.toUInt32_inrange a⟩
/-- Go `uint8(f)`: low 8 bits of `int32(f)`; the truncation itself for `0 ≤ val f < 256`. -/
theorem toUInt8_spec (a : F32) :
    a.toUInt8.toNat = (a.toInt32 % 256).toNat ∧
    (FloatMono32.Fin a → 0 ≤ FloatMono32.val a → FloatMono32.val a < 256 → (a.toUInt8.toNat : Int) = ⌊FloatMono32.val a⌋) :=
  ⟨FloatRound32.toUInt8_spec a, FloatRound32.toUInt8_inrange a⟩
example : (⟨0x437F8000⟩ : F32).toUInt8 = 255 ∧ (⟨0x43808000⟩ : F32).toUInt8 = 1 ∧ (⟨0x7FC00000⟩ : F32).toUInt8 = 0 := by
  decide +kernel

/-! ## decimal → binary (`strconv.ParseFloat` on an exact ratio) -/

/-- `F64.ofRatio neg n d` / `F32.ofRatio neg n d` are the correct roundings of the rational `±n/d`. -/
theorem ofRatio_Rnd (neg : Bool) (n d : Nat) (hd : 0 < d) :
    Rnd64 ((if neg then -1 else 1) * ((n : ℚ) / d)) (F64.ofRatio neg n d).nb ∧
    Rnd32 ((if neg then -1 else 1) * ((n : ℚ) / d)) (F32.ofRatio neg n d).nb :=
  ⟨FloatConv.ofRatio64_Rnd neg n d hd, FloatConv.ofRatio32_Rnd neg n d hd⟩
example : (F64.ofRatio false 1 10).bits = 0x3FB999999999999A ∧ (F32.ofRatio true 1 10).bits = 0xBDCCCCCD := by
  decide +kernel

/-! ## comparisons -/

/-- On non-NaN operands `<`, `≤`, `==` are `<`, `≤`, `=` of the extended values (`-Inf = ⊥`, `+Inf = ⊤`,
    `-0` and `+0` both `0`). -/
theorem cmp_spec (a b : Nat) (ha : a < 18446744073709551616) (hb : b < 18446744073709551616) (na : NN64 a) (nb : NN64 b) :
    (Num.lt .f64 a b = true ↔ FloatCmp.xval a < FloatCmp.xval b) ∧
    (Num.le .f64 a b = true ↔ FloatCmp.xval a ≤ FloatCmp.xval b) ∧
    (Num.eq .f64 a b = true ↔ FloatCmp.xval a = FloatCmp.xval b) :=
  ⟨FloatCmp.lt_iff a b ha hb na nb, FloatCmp.le_iff a b ha hb na nb, FloatCmp.eq_iff a b ha hb na nb⟩
theorem cmp32_spec (a b : Nat) (ha : a < 4294967296) (hb : b < 4294967296) (na : NN32 a) (nb : NN32 b) :
    (Num.lt .f32 a b = true ↔ FloatCmp32.xval a < FloatCmp32.xval b) ∧
    (Num.le .f32 a b = true ↔ FloatCmp32.xval a ≤ FloatCmp32.xval b) ∧
    (Num.eq .f32 a b = true ↔ FloatCmp32.xval a = FloatCmp32.xval b) :=
  ⟨FloatCmp32.lt_iff a b ha hb na nb, FloatCmp32.le_iff a b ha hb na nb, FloatCmp32.eq_iff a b ha hb na nb⟩
example : NN64 0x8000000000000000 ∧ NN64 0 ∧ Num.eq .f64 0x8000000000000000 0 = true := by decide +kernel
/-- Finite operands: the order and equality of the rational values. -/
theorem cmp_fin (a b : Nat) (ha : a < 18446744073709551616) (hb : b < 18446744073709551616) (fa : Fin64 a) (fb : Fin64 b) :
    (Num.lt .f64 a b = true ↔ val64 a < val64 b) ∧ (Num.le .f64 a b = true ↔ val64 a ≤ val64 b) ∧
    (Num.eq .f64 a b = true ↔ val64 a = val64 b) :=
  ⟨FloatCmp.lt_fin a b ha hb fa fb, FloatCmp.le_fin a b ha hb fa fb, FloatCmp.eq_fin a b ha hb fa fb⟩
theorem cmp32_fin (a b : Nat) (ha : a < 4294967296) (hb : b < 4294967296) (fa : Fin32 a) (fb : Fin32 b) :
    (Num.lt .f32 a b = true ↔ val32 a < val32 b) ∧ (Num.le .f32 a b = true ↔ val32 a ≤ val32 b) ∧
    (Num.eq .f32 a b = true ↔ val32 a = val32 b) :=
  ⟨FloatCmp32.lt_fin a b ha hb fa fb, FloatCmp32.le_fin a b ha hb fa fb, FloatCmp32.eq_fin a b ha hb fa fb⟩
example : Fin64 0xBFF0000000000000 ∧ Fin64 0x3FF0000000000000 ∧ Num.lt .f64 0xBFF0000000000000 0x3FF0000000000000 = true := by
  decide +kernel
/-- With a NaN operand all three comparisons are false. -/
theorem cmp_nan (a b : Nat) (h : ¬ NN64 a ∨ ¬ NN64 b) :
    Num.lt .f64 a b = false ∧ Num.le .f64 a b = false ∧ Num.eq .f64 a b = false :=
  ⟨FloatCmp.lt_nan a b h, FloatCmp.le_nan a b h, FloatCmp.eq_nan a b h⟩
theorem cmp32_nan (a b : Nat) (h : ¬ NN32 a ∨ ¬ NN32 b) :
    Num.lt .f32 a b = false ∧ Num.le .f32 a b = false ∧ Num.eq .f32 a b = false :=
  ⟨FloatCmp32.lt_nan a b h, FloatCmp32.le_nan a b h, FloatCmp32.eq_nan a b h⟩
example : ¬ NN64 0x7FF8000000000000 ∧ ¬ NN32 0x7FC00000 := by decide

/-! ## negation, absolute value -/

/-- Negation is exact and only flips the sign bit (of every pattern: zero, Inf and NaN included). -/
theorem neg_spec (a : Nat) (ha : a < 18446744073709551616) :
    (Fin64 a → Fin64 (Num.neg .f64 a) ∧ val64 (Num.neg .f64 a) = - val64 a) ∧
    Num.neg .f64 a % 9223372036854775808 = a % 9223372036854775808 ∧
    Num.neg .f64 a / 9223372036854775808 = 1 - a / 9223372036854775808 :=
  ⟨FloatCmp.neg_val a ha, (FloatCmp.neg_bits a ha).1, (FloatCmp.neg_bits a ha).2.1⟩
theorem neg32_spec (a : Nat) (ha : a < 4294967296) :
    (Fin32 a → Fin32 (Num.neg .f32 a) ∧ val32 (Num.neg .f32 a) = - val32 a) ∧
    Num.neg .f32 a % 2147483648 = a % 2147483648 ∧ Num.neg .f32 a / 2147483648 = 1 - a / 2147483648 :=
  ⟨FloatCmp32.neg_val a ha, (FloatCmp32.neg_bits a ha).1, (FloatCmp32.neg_bits a ha).2.1⟩
/-- Absolute value is exact and only clears the sign bit. -/
theorem abs_spec (a : Nat) (ha : a < 18446744073709551616) :
    (Fin64 a → Fin64 (Num.abs .f64 a) ∧ val64 (Num.abs .f64 a) = |val64 a|) ∧
    Num.abs .f64 a % 9223372036854775808 = a % 9223372036854775808 ∧ Num.abs .f64 a < 9223372036854775808 :=
  ⟨FloatCmp.abs_val a ha, FloatCmp.abs_bits a ha⟩
example : Num.neg .f64 0x7FF8000000000001 = 0xFFF8000000000001 ∧ Num.abs .f64 0xBFF8000000000000 = 0x3FF8000000000000 := by
  decide +kernel

/-!
## What is not proved here / what remains trusted

* The reading of a bit pattern: `FloatOrder.bval`, `FinB`, `NNB` (and the binary32 twins) ARE the definition of
  "the value of a finite pattern", "finite", "not a NaN" (sign bit, biased exponent, mantissa with the hidden bit,
  `emin = -1074 / -149`).  They are three-line definitions to be read against IEEE 754 §3.4; `FloatOrder.unpack_fin`
  proves that the model's `unpack` decodes to exactly these fields.
* `sqrt_Rnd` is an enclosure statement over `ℚ` (the real root is irrational in general); together with `Rnd_mono`
  and `Rnd_nearest` it says the result is the rounding of the real root, but no theorem mentions `Real.sqrt`.
* That x86-64 SSE computes IEEE 754 with exactly these NaN conventions (default NaN with the sign bit set, first NaN
  operand quieted, `CVTT*` indefinite values) is the hardware's documentation plus the bit-for-bit differential test;
  `nan_propagation`, `toInt64_spec`, … only state what the model does.
* Not covered: the ports of Go's `sin/cos/acos/atan` (`Ivg/Model/GoMath.lean`; they are ordinary float programs on top
  of these operations, not part of the arithmetic).
-/

end Ivg.Props.SoftFloat

#obligations SOFTFLOAT [
  Ivg.Props.SoftFloat.Rnd_mono,
  Ivg.Props.SoftFloat.Rnd32_mono,
  Ivg.Props.SoftFloat.Rnd_self,
  Ivg.Props.SoftFloat.Rnd32_self,
  Ivg.Props.SoftFloat.Rnd_nearest,
  Ivg.Props.SoftFloat.Rnd32_nearest,
  Ivg.Props.SoftFloat.Rnd_tie_even,
  Ivg.Props.SoftFloat.Rnd32_tie_even,
  Ivg.Props.SoftFloat.Rnd_overflow,
  Ivg.Props.SoftFloat.Rnd32_overflow,
  Ivg.Props.SoftFloat.Rnd_total,
  Ivg.Props.SoftFloat.Rnd_unique,
  Ivg.Props.SoftFloat.Rnd32_total,
  Ivg.Props.SoftFloat.Rnd32_unique,
  Ivg.Props.SoftFloat.add_Rnd,
  Ivg.Props.SoftFloat.sub_Rnd,
  Ivg.Props.SoftFloat.mul_Rnd,
  Ivg.Props.SoftFloat.div_Rnd,
  Ivg.Props.SoftFloat.add32_Rnd,
  Ivg.Props.SoftFloat.sub32_Rnd,
  Ivg.Props.SoftFloat.mul32_Rnd,
  Ivg.Props.SoftFloat.div32_Rnd,
  Ivg.Props.SoftFloat.zero_signs,
  Ivg.Props.SoftFloat.zero_signs32,
  Ivg.Props.SoftFloat.div_by_zero,
  Ivg.Props.SoftFloat.div32_by_zero,
  Ivg.Props.SoftFloat.add_inf,
  Ivg.Props.SoftFloat.add32_inf,
  Ivg.Props.SoftFloat.sub_eq_add_neg,
  Ivg.Props.SoftFloat.sub32_eq_add_neg,
  Ivg.Props.SoftFloat.mul_inf,
  Ivg.Props.SoftFloat.mul32_inf,
  Ivg.Props.SoftFloat.div_inf,
  Ivg.Props.SoftFloat.div32_inf,
  Ivg.Props.SoftFloat.nan_propagation,
  Ivg.Props.SoftFloat.nan32_propagation,
  Ivg.Props.SoftFloat.quiet_spec,
  Ivg.Props.SoftFloat.F64_ops,
  Ivg.Props.SoftFloat.F32_ops,
  Ivg.Props.SoftFloat.F64_unary,
  Ivg.Props.SoftFloat.F32_unary,
  Ivg.Props.SoftFloat.sqrt_Rnd,
  Ivg.Props.SoftFloat.sqrt_sandwich,
  Ivg.Props.SoftFloat.sqrt_unique,
  Ivg.Props.SoftFloat.sqrt_exact,
  Ivg.Props.SoftFloat.sqrt_nearest,
  Ivg.Props.SoftFloat.sqrt_zero,
  Ivg.Props.SoftFloat.sqrt_negative,
  Ivg.Props.SoftFloat.sqrt_inf,
  Ivg.Props.SoftFloat.sqrt_nan,
  Ivg.Props.SoftFloat.floor_spec,
  Ivg.Props.SoftFloat.ceil_spec,
  Ivg.Props.SoftFloat.floor_ceil_special,
  Ivg.Props.SoftFloat.widen_exact,
  Ivg.Props.SoftFloat.widen_special,
  Ivg.Props.SoftFloat.narrow_Rnd,
  Ivg.Props.SoftFloat.narrow_special,
  Ivg.Props.SoftFloat.toF32_ofF32,
  Ivg.Props.SoftFloat.ofInt_Rnd,
  Ivg.Props.SoftFloat.ofInt_exact,
  Ivg.Props.SoftFloat.ofInt32_Rnd,
  Ivg.Props.SoftFloat.ofInt32_exact,
  Ivg.Props.SoftFloat.truncInt_spec,
  Ivg.Props.SoftFloat.truncInt32_spec,
  Ivg.Props.SoftFloat.toInt64_spec,
  Ivg.Props.SoftFloat.toUInt16_spec,
  Ivg.Props.SoftFloat.toInt32_spec,
  Ivg.Props.SoftFloat.toUInt32_spec,
  Ivg.Props.SoftFloat.toUInt8_spec,
  Ivg.Props.SoftFloat.ofRatio_Rnd,
  Ivg.Props.SoftFloat.cmp_spec,
  Ivg.Props.SoftFloat.cmp32_spec,
  Ivg.Props.SoftFloat.cmp_fin,
  Ivg.Props.SoftFloat.cmp32_fin,
  Ivg.Props.SoftFloat.cmp_nan,
  Ivg.Props.SoftFloat.cmp32_nan,
  Ivg.Props.SoftFloat.neg_spec,
  Ivg.Props.SoftFloat.neg32_spec,
  Ivg.Props.SoftFloat.abs_spec]
