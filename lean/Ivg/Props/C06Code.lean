import Ivg.Props.C02
import Ivg.Gen.Tie.Code.Arc
/-!
# C06 / C02 — "at most four cubic segments per arc", restated ON THE CODE

`render_Renderer_AbsArcTo` / `RelArcTo` are the Renderer's arc methods as the translator regenerates them from /repo's
render.go on every run (closures and segment loop included), run on a rasteriser object that logs the calls it receives.
`absArcTo_code_tie` / `relArcTo_code_tie` prove them equal to the model's step for all operands and states; here the
segment bound is carried across: whatever the operands (NaN, infinities, huge radii) and the Renderer's state, the
regenerated Go method makes at most four calls on its rasteriser.
-/
namespace Ivg.Props.C06Code
open Ivg Ivg.Num Ivg.Gen Ivg.Gen.Code Ivg.Gen.Tie Ivg.Ren

theorem code_absArc_at_most_four (pf : Go.Ref → Paint F64) (pinf : F32) (z : Rn) (l : Log) (fuel : Nat) (hf : 5 ≤ fuel)
    (rx ry rot : F32) (la sw : Bool) (x y : F32) :
    (render_Renderer_AbsArcTo (rastOps pf) fuel (objOf z l) z.scaleX z.biasX z.scaleY z.biasY z.disabled (stOf z)
        rx ry rot la sw x y).1.log.length ≤ l.length + 4 := by
  rw [absArcTo_code_tie pf pinf z l fuel hf]
  simp only [out2, objOf, List.length_append]
  have := C02.rasteriser_ops_per_call z pinf (.arc false rx ry rot la sw x y)
  omega

theorem code_relArc_at_most_four (pf : Go.Ref → Paint F64) (pinf : F32) (z : Rn) (l : Log) (fuel : Nat) (hf : 5 ≤ fuel)
    (rx ry rot : F32) (la sw : Bool) (x y : F32) :
    (render_Renderer_RelArcTo (rastOps pf) fuel (objOf z l) z.scaleX z.biasX z.scaleY z.biasY z.disabled (stOf z)
        rx ry rot la sw x y).1.log.length ≤ l.length + 4 := by
  rw [relArcTo_code_tie pf pinf z l fuel hf]
  simp only [out2, objOf, List.length_append]
  have := C02.rasteriser_ops_per_call z pinf (.arc true rx ry rot la sw x y)
  omega

end Ivg.Props.C06Code

#obligations C06 [Ivg.Props.C06Code.code_absArc_at_most_four, Ivg.Props.C06Code.code_relArc_at_most_four]
