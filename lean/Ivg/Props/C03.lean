import Ivg.Lemmas.SpecMeta
import Ivg.Gen.Tie.DrawOps
import Ivg.Gen.Tie.DecodeErrors
import Ivg.Gen.Tie.Magic
import Ivg.Gen.Tie.Dc1
import Ivg.Gen.Tie.Mids
import Ivg.Gen.Tie.DefaultViewBox
import Ivg.Gen.Tie.Code.DecNumbers
import Ivg.Gen.Tie.Code.DecColors
import Ivg.Gen.Tie.Code.Decoder8
import Ivg.Gen.Tie.Code.Decoder9
import Ivg.Obligations
/-!
# C03 — decoding implements the IconVG FFV0 byte grammar, exactly

Property text: "Decoding accepts exactly the byte strings that are well formed under the IconVG FFV0
specification (magic, metadata chunks with consistent lengths, styling and drawing opcodes with complete
operands, no reserved opcodes) and, for every accepted string, delivers exactly the operation sequence
the specification assigns to it: opcode to operation, ADJ and post-increment variants, repeat counts
1..16/32, operand kinds, widths and values (natural, real, coordinate, zero-to-one, 1/2/3/4-byte and
blended colours), arc flag bits, and the switches between styling and drawing mode."

"The specification" is the independent reference parser `Ivg.Spec.FFV0` (`Ivg/Spec/FFV0.lean`), written
from `/repo/spec/iconvg-spec-v0.md`: opcode TABLES transcribed from the bullets of "Styling Opcodes" and
"Drawing Opcodes", number forms as RATIONALS rounded once to float32, colour forms, metadata framing.
It shares no code with the decoder model.  The theorems are about the executable model
(`Ivg.Dec.decode`, `Ivg.Dec.stepDec`, `Ivg.Dec.decodeNatural`, …), tied to /repo by the differential
suite and by the `Ivg.Gen.Tie.*` facts listed at the end.

All statements are for ALL byte strings, without hypotheses, except `calls_eq` (its hypothesis is
exhibited by the examples below).
-/
namespace Ivg.Props.C03
open Ivg Num Dec
open Ivg.Spec
open Ivg.SpecL (dm Agrees colorDec numberDec stylingClass drawingClass okChunks toMeta)

/-! ## headline -/

/-- Clause "Decoding accepts exactly the byte strings that are well formed under the specification":
    `Decode` (no options) reports no error iff the specification parser accepts the string. -/
theorem accepts_iff (bs : Bytes) : (Dec.decode [] bs).2 = none ↔ (FFV0.parse bs).isSome :=
  SpecL.accepts_iff bs

/-- Clause "for every accepted string, delivers exactly the operation sequence the specification
    assigns to it" (starting with `Reset(viewBox, palette)`). -/
theorem calls_eq (bs : Bytes) (cs : List (Call F32)) (h : FFV0.parse bs = some cs) :
    (Dec.decode [] bs).1 = cs := SpecL.calls_eq bs cs h

/-- Both clauses in one statement: accepted ⇒ exactly the spec's calls and no error; rejected ⇒ error. -/
theorem decode_eq_spec (bs : Bytes) :
    match FFV0.parse bs with
    | some cs => Dec.decode [] bs = (cs, none)
    | none => (Dec.decode [] bs).2 ≠ none := SpecL.decode_eq_spec bs

/-! ## layers (each for all byte strings / all opcodes) -/

/-- Clause "operand … widths and values (natural …)": value, width (1, 2, 4) and rest. -/
theorem natural_eq (b : Bytes) : FFV0.natural b = Dec.decodeNatural b := SpecL.natural_eq b

/-- Clause "… values (… real …)": 1/2-byte forms are the float32 nearest to the natural, the 4-byte
    form is the reinterpreted bit pattern. -/
theorem real_eq (b : Bytes) : FFV0.real b = Dec.decodeReal b := SpecL.real_eq b

/-- Clause "… values (… coordinate …)": `R − 64`, `R/64 − 128` correctly rounded, 4-byte as real. -/
theorem coordinate_eq (b : Bytes) : FFV0.coordinate b = Dec.decodeCoordinate b := SpecL.coordinate_eq b

/-- Clause "… values (… zero-to-one …)": `float32(R)/120` and `float32(R)/15120` as the decoder
    computes them are the float32 values nearest to the rationals `R/120`, `R/15120`. -/
theorem zeroToOne_eq (b : Bytes) : FFV0.zeroToOne b = Dec.decodeZeroToOne b := SpecL.zeroToOne_eq b

/-- Clause "… 1/2/3/4-byte and blended colours": each colour form of the spec is the model decoder
    `colorDec form` (= `decodeColor1/2/3Direct/4/3Indirect`). -/
theorem color_eq (form : FFV0.ColorForm) (b : Bytes) : FFV0.color form b = colorDec form b :=
  SpecL.color_eq form b

/-- Clause "opcode to operation, ADJ and post-increment variants … no reserved opcodes", styling mode:
    for all 256 opcodes the table lookup equals the classification `decodeStyling`'s comparison chain
    makes (`stylingClass`: same conditions, masks and shifts as the model), `none` = reserved. -/
theorem styling_dispatch (op : UInt8) : FFV0.lookup FFV0.stylingTable op.toNat = stylingClass op :=
  SpecL.styling_dispatch op

/-- … drawing mode, incl. "repeat counts 1..16/32": `op − lo + 1` vs `1 + (op & 0x1f / 0x0f)`. -/
theorem drawing_dispatch (op : UInt8) : FFV0.lookup FFV0.drawingTable op.toNat = drawingClass op :=
  SpecL.drawing_dispatch op

/-- Clauses "styling and drawing opcodes with complete operands", "operand kinds", "arc flag bits",
    "switches between styling and drawing mode": in either mode, for every byte string, the model's
    one-instruction step rejects iff the spec does, and otherwise yields the same calls, next mode and
    remaining bytes (`Agrees`). -/
theorem instruction_eq (m : FFV0.Mode) (b : Bytes) : Agrees (stepDec (dm m) b) (FFV0.instruction m b) :=
  SpecL.instruction_eq m b

/-- The instruction loop (spec fuel larger than the input; the model's loop with its canonical fuel). -/
theorem instructions_eq (fuel : Nat) (m : FFV0.Mode) (b : Bytes) (h : b.length < fuel) :
    match FFV0.instructions fuel m b with
    | some cs => (DecL.run (dm m) b).2 = none ∧ callsOf (DecL.run (dm m) b).1 = cs
    | none => (DecL.run (dm m) b).2 ≠ none := SpecL.instructions_eq fuel m b h

/-- Clause "metadata chunks with consistent lengths" (also: increasing MIDs, none repeated, only MIDs 0
    and 1, viewBox validity, palette entries): the chunk loops agree on acceptance, metadata, rest. -/
theorem chunks_eq (fuel n : Nat) (m : Metadata) (mm : Nat) (b : Bytes) :
    okChunks (decodeChunks fuel n m mm b).2 = FFV0.chunks fuel n (toMeta m) mm b :=
  SpecL.chunks_eq fuel n m mm b

/-! ## non-vacuity -/

/-- `/repo/testdata/action-info.lores.ivg` (63 bytes: viewBox chunk, C/s/S curves with repeat counts,
    z-m, h, V, v, closeEnd) -/
def actionInfoLores : Bytes := [
  0x89, 0x49, 0x56, 0x47, 0x02, 0x0a, 0x00, 0x50, 0x50, 0xb0, 0xb0, 0xc0,
  0x80, 0x58, 0xa0, 0xf5, 0x74, 0x58, 0x58, 0xf5, 0x74, 0x58, 0x80, 0x91,
  0xf5, 0x88, 0xa8, 0xa8, 0xa8, 0xa8, 0x0d, 0x77, 0xa8, 0x58, 0x80, 0x0d,
  0x8b, 0x58, 0x80, 0x58, 0xe3, 0x84, 0xbc, 0xe7, 0x78, 0xe8, 0x7c, 0xe7,
  0x88, 0xe9, 0x98, 0xe3, 0x80, 0x60, 0xe7, 0x78, 0xe9, 0x78, 0xe7, 0x88,
  0xe9, 0x88, 0xe1]

set_option maxRecDepth 100000 in
/-- the specification accepts a real multi-instruction icon; 17 operations -/
example : (FFV0.parse actionInfoLores).map List.length = some 17 := by decide +kernel

set_option maxRecDepth 100000 in
/-- an instance of the hypothesis of `calls_eq`, with explicit values: default metadata, a path start
    (1-byte coordinates 0 and −20), a relative horizontal line (−4), close-and-end -/
example : FFV0.parse [0x89, 0x49, 0x56, 0x47, 0x00, 0xc0, 0x80, 0x58, 0xe7, 0x78, 0xe1] =
    some [.reset defaultViewBox defaultPalette, .startPath 0 ⟨0⟩ (F32.ofInt (-20)),
          .d1 .h (F32.ofInt (-4)), .closeEnd] := by decide +kernel

set_option maxRecDepth 100000 in
/-- an arc: 2-byte-free operands, angle `5/120` (1-byte zero-to-one), flags `2` = sweep only -/
example : FFV0.parse [0x89, 0x49, 0x56, 0x47, 0x00, 0xc0, 0x80, 0x80, 0xc0, 0x90, 0x90, 0x0a, 0x04,
      0xa0, 0xa0, 0xe1] =
    some [.reset defaultViewBox defaultPalette, .startPath 0 ⟨0⟩ ⟨0⟩,
          .arc false (F32.ofInt 8) (F32.ofInt 8) (F32.ofRatio false 5 120) false true
            (F32.ofInt 16) (F32.ofInt 16), .closeEnd] := by decide +kernel

set_option maxRecDepth 100000 in
/-- rejected: reserved styling opcode 0xc8; reserved drawing opcode 0xe0; truncated operand (one of
    two coordinates); repeated MID 0; declared chunk length 6 ≠ actual 5; undefined MID 2 -/
example :
    FFV0.parse [0x89, 0x49, 0x56, 0x47, 0x00, 0xc8] = none ∧
    FFV0.parse [0x89, 0x49, 0x56, 0x47, 0x00, 0xc0, 0x80, 0x80, 0xe0] = none ∧
    FFV0.parse [0x89, 0x49, 0x56, 0x47, 0x00, 0xc0, 0x80] = none ∧
    FFV0.parse [0x89, 0x49, 0x56, 0x47, 0x04, 0x0a, 0x00, 0x50, 0x50, 0xb0, 0xb0,
                0x0a, 0x00, 0x50, 0x50, 0xb0, 0xb0] = none ∧
    FFV0.parse [0x89, 0x49, 0x56, 0x47, 0x02, 0x0c, 0x00, 0x50, 0x50, 0xb0, 0xb0] = none ∧
    FFV0.parse [0x89, 0x49, 0x56, 0x47, 0x02, 0x02, 0x04] = none := by decide +kernel

set_option maxRecDepth 100000 in
/-- … while the same viewBox chunk with the right length is accepted -/
example : (FFV0.parse [0x89, 0x49, 0x56, 0x47, 0x02, 0x0a, 0x00, 0x50, 0x50, 0xb0, 0xb0]).isSome = true := by
  decide +kernel

/-- `instructions_eq`: an instance of its hypothesis -/
example : ([0xc0, 0x80, 0x58, 0xe1] : Bytes).length < 5 := by decide

/-!
## Not proved in this file / remarks

* Nothing of the property text is left out: acceptance and delivered sequence are settled for all byte
  strings by `decode_eq_spec` (= `accepts_iff` + `calls_eq`).
* How the zero-to-one clause is proved: `SpecL.ofInt_div_eq_ofRatio` (`Ivg/Lemmas/SpecDiv.lean`) shows in
  general that for integers `0 < u, d < 2^24` the soft-float quotient `float32(u) / float32(d)` (`Num.div`:
  27-bit pre-scaling, truncated quotient, sticky bit, one rounding) is the float32 nearest to the rational
  `u/d` (`F32.ofRatio`: a different pre-scaling) — via `rq`, round-to-nearest-even stated on the exact
  rational, which `roundPack` computes (`roundPack_div`) and which is invariant under rescaling
  (`rq_scale`, `rq_cancel`).  The integer and `/64` forms (real, coordinate) are exact
  (`SpecL.ofRatio_pow2`).  No case enumeration over number values is involved.
* `Decode` with options (`WithPalette`, `WithColorAt`) is outside C03 (see C04).
* What "the specification" leaves open and `FFV0` (like the Go code) decides: a metadata chunk with a
  MID other than 0 or 1 is rejected (the text defines only MIDs 0 and 1 and does not say whether unknown
  MIDs may be skipped), witness `89 49 56 47 02 02 04`; a suggested-palette entry that is not a valid
  alpha-premultiplied colour resolves to opaque black; a stream may end in drawing mode.
-/

end Ivg.Props.C03

#obligations C03 [
  Ivg.Props.C03.accepts_iff, Ivg.Props.C03.calls_eq, Ivg.Props.C03.decode_eq_spec,
  Ivg.Props.C03.natural_eq, Ivg.Props.C03.real_eq, Ivg.Props.C03.coordinate_eq,
  Ivg.Props.C03.zeroToOne_eq, Ivg.Props.C03.color_eq,
  Ivg.Props.C03.styling_dispatch, Ivg.Props.C03.drawing_dispatch,
  Ivg.Props.C03.instruction_eq, Ivg.Props.C03.instructions_eq, Ivg.Props.C03.chunks_eq,
  Ivg.Gen.Tie.drawOps_tie, Ivg.Gen.Tie.magic_tie, Ivg.Gen.Tie.dc1Table_tie, Ivg.Gen.Tie.mids_tie,
  Ivg.Gen.Tie.defaultViewBox_tie, Ivg.Gen.Tie.decodeErrors_tie,
  -- regenerated code (translator, Ivg/Gen/Code) = model, for all inputs: DecNumbers, DecColors
  Ivg.Gen.Tie.decodeNatural_code_tie,
  Ivg.Gen.Tie.decodeNatural_model_eq,
  Ivg.Gen.Tie.decodeReal_code_tie,
  Ivg.Gen.Tie.decodeReal_model_eq,
  Ivg.Gen.Tie.decodeCoordinate_code_tie,
  Ivg.Gen.Tie.decodeCoordinate_model_eq,
  Ivg.Gen.Tie.decodeZeroToOne_code_tie,
  Ivg.Gen.Tie.decodeZeroToOne_model_eq,
  Ivg.Gen.Tie.isNaNOrInfinity_code_tie,
  Ivg.Gen.Tie.buffer_decodeColor1_code_tie,
  Ivg.Gen.Tie.decodeColor2_code_tie,
  Ivg.Gen.Tie.decodeColor3Direct_code_tie,
  Ivg.Gen.Tie.decodeColor4_code_tie,
  Ivg.Gen.Tie.decodeColor3Indirect_code_tie,
  Ivg.Gen.Tie.buffer_decodeColor1_model_eq,
  Ivg.Gen.Tie.decodeColor2_model_eq,
  Ivg.Gen.Tie.decodeColor3Direct_model_eq,
  Ivg.Gen.Tie.decodeColor4_model_eq,
  Ivg.Gen.Tie.decodeColor3Indirect_model_eq,
  -- regenerated code (translator) = model, for all inputs: the decoder from bytes to Destination calls (Tie/Code/Decoder*.lean)
  Ivg.Gen.Tie.decodeNumber_decodeCoordinate_code_tie,
  Ivg.Gen.Tie.decodeNumber_decodeReal_code_tie,
  Ivg.Gen.Tie.decodeAngle_code_tie,
  Ivg.Gen.Tie.decodeArcToFlags_code_tie,
  Ivg.Gen.Tie.decodeCoordinates_code_tie,
  Ivg.Gen.Tie.decodeSetNReg_code_tie,
  Ivg.Gen.Tie.decodeSetCReg_code_tie,
  Ivg.Gen.Tie.decodeStartPath_code_tie,
  Ivg.Gen.Tie.decodeSetLOD_code_tie,
  Ivg.Gen.Tie.decodeStyling_code_tie,
  Ivg.Gen.Tie.decodeDrawing_code_tie,
  Ivg.Gen.Tie.decodeMetadataChunk_code_tie,
  Ivg.Gen.Tie.decode_code_tie,
  Ivg.Gen.Tie.decode_Decode_code_tie,
  Ivg.Gen.Tie.decodeViewBox_code_tie,
  Ivg.Gen.Tie.decode_verdict_independent,
  Ivg.Gen.Tie.decode_dstnil_code_tie,
  Ivg.Gen.Tie.errText_message,
  Ivg.Gen.Tie.decodeError_Error_code_tie]
