import Ivg.Model.Decoder
import Ivg.Model.Arc
import Ivg.Model.MdIcons
import Ivg.Gen.Tie.DrawOps
import Ivg.Gen.Tie.DecodeErrors
import Ivg.Gen.Tie.Magic
import Ivg.Obligations
/-! # Property C03 — theorems (work in progress: tie obligations only so far) -/
namespace Ivg.Props.C03
end Ivg.Props.C03
#obligations C03 [Ivg.Gen.Tie.drawOps_tie, Ivg.Gen.Tie.magic_tie, Ivg.Gen.Tie.decodeErrors_tie]
