import Ivg.Props.C02
import Ivg.Gen.Tie.Code.Decoder10
/-!
# C02 — the clauses of `Ivg/Props/C02.lean`, restated ON THE CODE

`decode_Decode` is `decode.Decode` as the translator regenerates it from /repo's source on every run
(`Ivg/Gen/Code/P_decode.lean`), run on a Destination that logs the calls it receives (`logOps`), with any list of the
two options the library offers (`optFn`).  `decode_Decode_opts_code_tie` proves it equal to the model for every byte
string, option list and sufficient fuel; the theorems below carry the model's theorems across that equation, so that they
speak about the regenerated Go function itself.  (Panics are outside the translation: see DESIGN §3.0.)
-/
namespace Ivg.Props.C02Code
open Ivg Ivg.Num Ivg.Gen Ivg.Gen.Code Ivg.Gen.Tie Dec DecL

/-- the calls the translated `decode.Decode` has delivered, and the error it returns -/
def codeCalls (fuel : Nat) (src : Bytes) (opts : List DecodeOption) : List (Call F32) :=
  (decode_Decode logOps fuel [] src (opts.map optFn)).2
def codeErr (fuel : Nat) (src : Bytes) (opts : List DecodeOption) : Go.Err :=
  (decode_Decode logOps fuel [] src (opts.map optFn)).1

/-- enough fuel for the translated loops: Go's meaning is the value for sufficient fuel -/
def Enough (fuel : Nat) (src : Bytes) (opts : List DecodeOption) : Prop := src.length + opts.length + 106 ≤ fuel

theorem codeCalls_eq {fuel : Nat} {src : Bytes} {opts : List DecodeOption} (h : Enough fuel src opts) :
    codeCalls fuel src opts = (decode opts src).1 := by
  unfold codeCalls; rw [decode_Decode_opts_code_tie fuel [] src opts h]; simp

theorem codeErr_eq {fuel : Nat} {src : Bytes} {opts : List DecodeOption} (h : Enough fuel src opts) :
    codeErr fuel src opts = (decode opts src).2.map errText := by
  unfold codeErr; rw [decode_Decode_opts_code_tie fuel [] src opts h]

/-- "terminate": beyond `len src + #opts + 106` the fuel does not matter — the translated loops have run to completion -/
theorem code_fuel_irrelevant (f1 f2 : Nat) (src : Bytes) (opts : List DecodeOption) (h1 : Enough f1 src opts)
    (h2 : Enough f2 src opts) :
    decode_Decode logOps f1 [] src (opts.map optFn) = decode_Decode logOps f2 [] src (opts.map optFn) := by
  rw [decode_Decode_opts_code_tie f1 [] src opts h1, decode_Decode_opts_code_tie f2 [] src opts h2]

/-- "every delivered call consumed at least one input byte", on the code -/
theorem code_calls_linear (fuel : Nat) (src : Bytes) (opts : List DecodeOption) (hf : Enough fuel src opts)
    (h : codeCalls fuel src opts ≠ []) : (codeCalls fuel src opts).length + 4 ≤ src.length := by
  rw [codeCalls_eq hf] at h ⊢; exact C02.calls_linear opts src h

/-- "nothing is delivered unless the magic and every metadata chunk were valid; the first delivered call is Reset", on
    the code -/
theorem code_no_early_delivery (fuel : Nat) (src : Bytes) (opts : List DecodeOption) (hf : Enough fuel src opts)
    (c : Call F32) (cs : List (Call F32)) (h : codeCalls fuel src opts = c :: cs) :
    ∃ hdr m rest, MetaOk {} src hdr m rest ∧
      c = .reset (applyOptions m opts).viewBox (applyOptions m opts).palette ∧
      ∀ c' ∈ cs, isReset c' = false := by
  rw [codeCalls_eq hf] at h; exact C02.no_early_delivery opts src c cs h

/-- "the calls delivered for any prefix of an input are a prefix of the calls delivered for the whole input", on the code -/
theorem code_prefix_monotone (f1 f2 : Nat) (a b : Bytes) (opts : List DecodeOption) (h1 : Enough f1 a opts)
    (h2 : Enough f2 (a ++ b) opts) :
    codeCalls f1 a opts <+: codeCalls f2 (a ++ b) opts := by
  rw [codeCalls_eq h1, codeCalls_eq h2]; exact C02.prefix_monotone opts a b

/-- "either succeed or return a DecodeError": the error text is one of the decoder's messages -/
theorem code_error_is_decode_error (fuel : Nat) (src : Bytes) (opts : List DecodeOption) (hf : Enough fuel src opts)
    (t : String) (h : codeErr fuel src opts = some t) : ∃ e : DecErr, "iconvg: " ++ t = e.message := by
  rw [codeErr_eq hf] at h
  cases he : (decode opts src).2 with
  | none => rw [he] at h; cases h
  | some e => rw [he] at h; simp at h; exact ⟨e, by rw [← h]; exact errText_message e⟩

/-- the premises are satisfiable: a small graphic, enough fuel -/
example : Enough 200 [0x89, 0x49, 0x56, 0x47, 0x00, 0xc0, 0x80, 0x80, 0x01, 0x90, 0x90, 0xa0, 0xa0, 0xe1] [] := by
  unfold Enough; decide

end Ivg.Props.C02Code

#obligations C02 [
  Ivg.Props.C02Code.codeCalls_eq, Ivg.Props.C02Code.codeErr_eq, Ivg.Props.C02Code.code_fuel_irrelevant,
  Ivg.Props.C02Code.code_calls_linear, Ivg.Props.C02Code.code_no_early_delivery,
  Ivg.Props.C02Code.code_prefix_monotone, Ivg.Props.C02Code.code_error_is_decode_error]
