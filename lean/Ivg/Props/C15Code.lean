import Ivg.Props.C15
import Ivg.Props.C15Err
/-!
# C15 — gradient paints, restated ON THE CODE

`render_Spread_Clamp`, `render_Gradient_Init`, `render_Gradient_At` and `render_Renderer_initGradient` are gradient.go's
`Spread.Clamp`, `(*Gradient).Init`, `(*Gradient).At` and render.go's `(*Renderer).initGradient` as the translator regenerates
them from /repo's source on every run (float64 arithmetic bit for bit, the loops with fuel).  The float64 theorems of
`C15.lean` / `C15Err.lean` (the only ones that speak about what the Go code computes; the `ℚ` theorems cannot be carried
over) are carried across `spread_Clamp_code_tie`, `gradient_Init_code_tie'`, `gradient_At_code_tie` and
`renderer_initGradient_code_tie`:

* `codeInitAt` is `g.Init(shape, spread, pix2Grad, stops); g.At(x, y)` — both regenerated functions, Go stops
  (`uint16` channels) in, a Go `color.RGBA64` out;
* `codeOffset` is the offset `At` computes for the pixel: the regenerated `Clamp` of the float64 expression of gradient.go;
* the last section runs the regenerated `At` on the `z.gradient` the regenerated `initGradient` has left.
-/
namespace Ivg.Props.C15Code
open Ivg Ivg.Num Ivg.Gen Ivg.Gen.Code Ivg.Gen.Tie Grad
open Ivg.Spec.Grad (Spread frac spreadOffset sample)

/-! ## `Spread.Clamp` -/

/-- inside `[0,1]` (Go `0 <= x && x <= 1`) the regenerated `Clamp` returns `x` bit for bit, whatever the spread code -/
theorem code_clamp_inside (spread : UInt8) (x : F64) (h0 : (zeroB : F64) ≤ x) (h1 : x ≤ (oneB : F64)) :
    render_Spread_Clamp spread x = x := by
  rw [spread_Clamp_code_tie]; exact C15.clamp_inside_f64 spread x h0 h1

/-- "pad the end colours": exactly `0`, `x` or `1`, for every non-NaN `x` (±Inf included) -/
theorem code_clamp_pad (x : F64) (hn : FloatMono.NN x) :
    render_Spread_Clamp 1 x = if x < (zeroB : F64) then zeroB else if x ≤ (oneB : F64) then x else oneB := by
  rw [spread_Clamp_code_tie]; exact C15.clamp_pad_f64 x hn

/-- all modes at once, every finite `x`: the specification's `spreadOffset` of the value of `x`, rounded once
    (`none` outside `[0,1]`: the marker `-1`) -/
theorem code_clamp_spec (spread : UInt8) (x : F64) (fx : FloatErr64.Fn x) :
    match spreadOffset (Spread.ofCode spread) (FloatMono.val x) with
    | none => render_Spread_Clamp spread x = Arith.ofInt (-1)
    | some o => FloatOrder.Rnd o (render_Spread_Clamp spread x).nb := by
  rw [spread_Clamp_code_tie]; exact C15.clamp_spec_f64 spread x fx

/-- every float64 `x` (NaN, ±Inf included), every spread code: a result that passes `At`'s test `offset >= 0` is finite
    and in `[0,1]` -/
theorem code_clamp_range (spread : UInt8) (x : F64) (h : (zeroB : F64) ≤ render_Spread_Clamp spread x) :
    FloatErr64.Fn (render_Spread_Clamp spread x) ∧ 0 ≤ FloatMono.val (render_Spread_Clamp spread x) ∧
    FloatMono.val (render_Spread_Clamp spread x) ≤ 1 := by
  rw [spread_Clamp_code_tie] at h ⊢; exact C15.clamp_range_f64 spread x h

/-- "repeat the fractional part": exact for every finite `x > 1` -/
theorem code_clamp_repeat_exact (x : F64) (fx : FloatErr64.Fn x) (h1 : 1 < FloatMono.val x) :
    FloatErr64.Fn (render_Spread_Clamp 3 x) ∧ FloatMono.val (render_Spread_Clamp 3 x) = frac (FloatMono.val x) := by
  rw [spread_Clamp_code_tie]; exact C15.clamp_repeat_exact_f64 x fx h1

/-- `repeat` / `reflect` of ±Inf or a NaN: a NaN (hence transparent black, `code_at_no_colour`) -/
theorem code_clamp_nonfinite (spread : UInt8) (hs : spread = 2 ∨ spread = 3) (x : F64) (hf : ¬ FloatErr64.Fn x) :
    FloatMono.NaN (render_Spread_Clamp spread x) := by
  rw [spread_Clamp_code_tie]; exact C15.clamp_nonfinite_f64 spread hs x hf

/-! ## `Init` then `At` -/

/-- gradient.go: `g.Init(shape, spread, pix2Grad, stops)` followed by `g.At(x, y)`, both as regenerated (`r0`: what
    `g.Ranges` held before) -/
def codeInitAt (fuel : Nat) (r0 : List render_Range) (shape spread : UInt8) (M : Vector F64 6) (stops : List render_Stop)
    (x y : Int) : image_color_RGBA64 :=
  let r := render_Gradient_Init fuel r0 shape spread M stops
  render_Gradient_At fuel r.2.1 r.2.2.1 r.2.2.2.1 r.2.2.2.2.1 r.2.2.2.2.2.1 r.2.2.2.2.2.2 x y

/-- the pixel centre through `pix2Grad`, float64 operation by float64 operation (x for linear, distance for radial) -/
def codeRawOffset (shape : UInt8) (M : Vector F64 6) (x y : Int) : F64 :=
  let px : F64 := F64.ofInt x + ⟨0x3fe0000000000000⟩
  let py : F64 := F64.ofInt y + ⟨0x3fe0000000000000⟩
  if shape = 0 then M[0] * px + M[1] * py + M[2]
  else F64.sqrt ((M[0] * px + M[1] * py + M[2]) * (M[0] * px + M[1] * py + M[2]) +
                 (M[3] * px + M[4] * py + M[5]) * (M[3] * px + M[4] * py + M[5]))

/-- … and the offset `At` works with: the regenerated `Clamp` of it -/
def codeOffset (shape spread : UInt8) (M : Vector F64 6) (x y : Int) : F64 :=
  render_Spread_Clamp spread (codeRawOffset shape M x y)

/-- Go `R, G, B ≤ A` on `uint16` channels -/
def Premul (c : image_color_RGBA64) : Prop := c.R ≤ c.A ∧ c.G ≤ c.A ∧ c.B ≤ c.A

theorem appendRanges_length : ∀ l : List (Stop F64), (appendRanges l).length = l.length - 1
  | [] => rfl
  | [_] => rfl
  | s0 :: s1 :: rest => by
    have := appendRanges_length (s1 :: rest)
    simp only [appendRanges, List.length_cons] at this ⊢
    omega

/-- the model gradient the ties speak about (only used in proofs below) -/
abbrev mg (shape spread : UInt8) (M : Vector F64 6) (stops : List render_Stop) : Gradient F64 :=
  (Gradient.init shape spread (gradAff3To M) (stops.map stopTo)).1

theorem codeInitAt_eq (fuel : Nat) (r0 : List render_Range) (shape spread : UInt8) (M : Vector F64 6)
    (stops : List render_Stop) (x y : Int) (hf : stops.length + 1 ≤ fuel) :
    codeInitAt fuel r0 shape spread M stops x y = rgba64Of ((mg shape spread M stops).at (α := F32) x y) := by
  have hl : (mg shape spread M stops).ranges.length + 1 ≤ fuel := by
    simp only [mg, Gradient.init, appendRanges_length, List.length_map]; omega
  have h := gradient_At_code_tie fuel (mg shape spread M stops) x y hl
  rw [← h, codeInitAt, gradient_Init_code_tie' fuel r0 shape spread M stops (by omega)]
  simp only [mg, Gradient.init, gradAff3Of_gradAff3To]

theorem codeOffset_eq (shape spread : UInt8) (M : Vector F64 6) (stops : List render_Stop) (x y : Int) :
    codeOffset shape spread M x y = Grad64.offsetAt (mg shape spread M stops) x y := by
  rw [codeOffset, spread_Clamp_code_tie]; rfl

theorem stopsOK_chan (stops : List render_Stop) : ∀ s ∈ stops.map stopTo, Grad64.chanOK s.color := by
  intro s hs
  obtain ⟨t, _, rfl⟩ := List.mem_map.1 hs
  simp only [stopTo, rgba64To, Grad64.chanOK]
  exact ⟨t.RGBA64.R.toNat_lt, t.RGBA64.G.toNat_lt, t.RGBA64.B.toNat_lt, t.RGBA64.A.toNat_lt⟩

theorem rgba64Of_stopTo (s : render_Stop) : rgba64Of (stopTo s).color = s.RGBA64 := by
  simp [stopTo]

/-- "returns a valid premultiplied colour", at EVERY pixel (NaN and infinite offsets included): stops with offsets in
    `[0,1]`, strictly increasing (`Grad64.StopsOK`), and premultiplied colours give `R, G, B ≤ A` in what `At` returns -/
theorem code_premul_valid (fuel : Nat) (r0 : List render_Range) (shape spread : UInt8) (M : Vector F64 6)
    (stops : List render_Stop) (hf : stops.length + 1 ≤ fuel) (hok : Grad64.StopsOK (stops.map stopTo))
    (hp : ∀ s ∈ stops, Premul s.RGBA64) (x y : Int) :
    Premul (codeInitAt fuel r0 shape spread M stops x y) := by
  rw [codeInitAt_eq fuel r0 shape spread M stops x y hf]
  have hp' : ∀ s ∈ stops.map stopTo, Grad64.premul s.color := by
    intro s hs
    obtain ⟨t, ht, rfl⟩ := List.mem_map.1 hs
    obtain ⟨h1, h2, h3⟩ := hp t ht
    simp only [stopTo, rgba64To, Grad64.premul, ← UInt16.le_iff_toNat_le]
    exact ⟨h1, h2, h3⟩
  obtain ⟨h1, h2, h3⟩ := C15.premul_valid_f64 shape spread (gradAff3To M) _ hok hp' x y
  obtain ⟨c1, c2, c3, c4⟩ := C15.channel_range_f64 shape spread (gradAff3To M) _ (stopsOK_chan stops) x y
  simp only [Premul, rgba64Of, UInt16.le_iff_toNat_le, UInt16.toNat_ofNat']
  refine ⟨?_, ?_, ?_⟩ <;> (rw [Nat.mod_eq_of_lt (by assumption), Nat.mod_eq_of_lt (by assumption)]; assumption)

/-- a pixel whose offset fails `offset >= 0` (the marker `-1` of `none`, or a NaN) is transparent black -/
theorem code_at_no_colour (fuel : Nat) (r0 : List render_Range) (shape spread : UInt8) (M : Vector F64 6)
    (stops : List render_Stop) (hf : stops.length + 1 ≤ fuel) (x y : Int)
    (h : ¬ (zeroB : F64) ≤ codeOffset shape spread M x y) :
    codeInitAt fuel r0 shape spread M stops x y = ⟨0, 0, 0, 0⟩ := by
  rw [codeInitAt_eq fuel r0 shape spread M stops x y hf, C15.at_no_colour_f64 _ x y (by rwa [← codeOffset_eq])]
  rfl

/-- "none gives transparent black": finite raw offset outside `[0,1]`, spread code other than 1, 2, 3 -/
theorem code_at_none_outside (fuel : Nat) (r0 : List render_Range) (shape spread : UInt8) (M : Vector F64 6)
    (stops : List render_Stop) (hf : stops.length + 1 ≤ fuel) (hs : spread ≠ 1 ∧ spread ≠ 2 ∧ spread ≠ 3) (x y : Int)
    (fx : FloatErr64.Fn (codeRawOffset shape M x y))
    (hout : ¬ (0 ≤ FloatMono.val (codeRawOffset shape M x y) ∧ FloatMono.val (codeRawOffset shape M x y) ≤ 1)) :
    codeInitAt fuel r0 shape spread M stops x y = ⟨0, 0, 0, 0⟩ := by
  rw [codeInitAt_eq fuel r0 shape spread M stops x y hf,
    C15.at_none_outside_f64 (mg shape spread M stops) hs x y fx hout]
  rfl

/-- "at a stop's offset the colour is that stop's colour", EXACTLY (Go `==` on the offsets), however close the
    neighbouring stops are -/
theorem code_at_stop (fuel : Nat) (r0 : List render_Range) (shape spread : UInt8) (M : Vector F64 6)
    (s0 s1 : render_Stop) (rest : List render_Stop) (hf : (s0 :: s1 :: rest).length + 1 ≤ fuel)
    (hok : Grad64.StopsOK ((s0 :: s1 :: rest).map stopTo)) (x y : Int) (k : Nat) (hk : k < (s0 :: s1 :: rest).length)
    (hx : Arith.feq (codeOffset shape spread M x y) (s0 :: s1 :: rest)[k].Offset = true) :
    codeInitAt fuel r0 shape spread M (s0 :: s1 :: rest) x y = (s0 :: s1 :: rest)[k].RGBA64 := by
  rw [codeInitAt_eq fuel r0 shape spread M _ x y hf]
  rw [codeOffset_eq shape spread M (s0 :: s1 :: rest)] at hx
  have hk' : k < (stopTo s0 :: stopTo s1 :: rest.map stopTo).length := by simpa using hk
  have he : (stopTo s0 :: stopTo s1 :: rest.map stopTo)[k] = stopTo (s0 :: s1 :: rest)[k] :=
    List.getElem_map (f := stopTo) (l := s0 :: s1 :: rest) (i := k) (h := hk')
  have := C15.at_stop_f64 shape spread (gradAff3To M) (stopTo s0) (stopTo s1) (rest.map stopTo) hok x y k hk'
    (by rw [he]; exact hx)
  show rgba64Of ((Gradient.init shape spread (gradAff3To M) (stopTo s0 :: stopTo s1 :: rest.map stopTo)).1.at
    (α := F32) x y) = _
  rw [this, he, rgba64Of_stopTo]

/-- "before the first or after the last stop it is the first or last colour", exactly -/
theorem code_end_colours (fuel : Nat) (r0 : List render_Range) (shape spread : UInt8) (M : Vector F64 6)
    (s0 s1 : render_Stop) (rest : List render_Stop) (hf : (s0 :: s1 :: rest).length + 1 ≤ fuel)
    (hok : Grad64.StopsOK ((s0 :: s1 :: rest).map stopTo)) (x y : Int) :
    ((zeroB : F64) ≤ codeOffset shape spread M x y → codeOffset shape spread M x y < s0.Offset →
      codeInitAt fuel r0 shape spread M (s0 :: s1 :: rest) x y = s0.RGBA64) ∧
    (((s0 :: s1 :: rest).getLast (by simp)).Offset < codeOffset shape spread M x y →
      codeInitAt fuel r0 shape spread M (s0 :: s1 :: rest) x y = ((s0 :: s1 :: rest).getLast (by simp)).RGBA64) := by
  rw [codeInitAt_eq fuel r0 shape spread M _ x y hf, codeOffset_eq shape spread M (s0 :: s1 :: rest)]
  have := C15.end_colours_f64 shape spread (gradAff3To M) (stopTo s0) (stopTo s1) (rest.map stopTo) hok x y
  simp only [mg, List.map_cons] at this ⊢
  refine ⟨fun h1 h2 => ?_, fun h => ?_⟩
  · rw [this.1 h1 h2, rgba64Of_stopTo]
  · have hl : (stopTo s0 :: stopTo s1 :: rest.map stopTo).getLast (by simp) =
        stopTo ((s0 :: s1 :: rest).getLast (by simp)) :=
      List.getLast_map (f := stopTo) (l := s0 :: s1 :: rest) (by simp)
    rw [hl] at this
    rw [this.2 h, rgba64Of_stopTo]

/-- The interpolation clause with its float64 error bound (`C15Err.at_sample_f64`), at every pixel that gets a colour:
    every channel of what the regenerated `At` returns is `Near` (equal to the integer part of, or one off when the exact
    value is within `7·u·65535 < 2^-34` of an integer) the specification's piece-wise linear interpolation of the stops
    at the VALUE of the float64 offset. -/
theorem code_at_sample (fuel : Nat) (r0 : List render_Range) (shape spread : UInt8) (M : Vector F64 6)
    (s0 s1 : render_Stop) (rest : List render_Stop) (hf : (s0 :: s1 :: rest).length + 1 ≤ fuel)
    (hok : Grad64.StopsOK ((s0 :: s1 :: rest).map stopTo)) (x y : Int)
    (hz : (zeroB : F64) ≤ codeOffset shape spread M x y) :
    Grad64.ColNear (rgba64To (codeInitAt fuel r0 shape spread M (s0 :: s1 :: rest) x y))
      (fun ch => sample ch (Grad64.specStops64 ((s0 :: s1 :: rest).map stopTo))
        (FloatMono.val (codeOffset shape spread M x y))) (7 * FloatErr64.u * 65535) := by
  rw [codeInitAt_eq fuel r0 shape spread M _ x y hf]
  rw [codeOffset_eq shape spread M (s0 :: s1 :: rest)] at hz ⊢
  rw [rgba64To_rgba64Of _ (C15.channel_range_f64 shape spread (gradAff3To M) _ (stopsOK_chan _) x y)]
  exact C15Err.at_sample_f64 shape spread (gradAff3To M) (stopTo s0) (stopTo s1) (rest.map stopTo) hok x y hz

/-! ## the gradients the regenerated renderer builds -/

/-- `g.At(x, y)` on a Go `Gradient` value -/
def codeAt (fuel : Nat) (G : render_Gradient) (x y : Int) : image_color_RGBA64 :=
  render_Gradient_At fuel G.Shape G.Spread G.Pix2Grad G.Ranges G.First G.Last x y

/-- render.go: what `z.initGradient(rgba)` returns on the renderer state `z` (registers, transform), previous
    `z.gradient = g0`, `z.stops = stops0`: `(ok, new z.gradient, new z.stops)` -/
abbrev codeInitGradient (fuel : Nat) (z : Ren.Renderer F32 F64) (g0 : render_Gradient) (stops0 : Vector render_Stop 64)
    (rgba : RGBA) : Bool × render_Gradient × Vector render_Stop 64 :=
  render_Renderer_initGradient fuel z.scaleX z.biasX z.scaleY z.biasY g0 (palOf z.cReg) z.nReg stops0 (rgbaOf rgba)

theorem code_initGradient_ok (fuel : Nat) (z : Ren.Renderer F32 F64) (g0 : render_Gradient)
    (stops0 : Vector render_Stop 64) (rgba : RGBA) (hf : 129 ≤ fuel)
    (hok : (codeInitGradient fuel z g0 stops0 rgba).1 = true) :
    ∃ g, z.initGradient rgba = some g ∧ (codeInitGradient fuel z g0 stops0 rgba).2.1 = gradientOf g ∧
      g.ranges.length + 1 ≤ fuel := by
  have hn := decodeGradient_nStops_le rgba
  have t := renderer_initGradient_code_tie fuel z g0 stops0 rgba (by omega)
  cases hg : z.initGradient rgba with
  | none => rw [hg] at t; simp only [codeInitGradient] at hok; rw [t] at hok; cases hok
  | some g =>
    rw [hg] at t
    refine ⟨g, rfl, t.2, ?_⟩
    obtain ⟨s0, s1, rest, rfl, hlen, _⟩ := C15.initGradient_f64 z rgba g hg
    simp only [Gradient.init, appendRanges_length]
    omega

/-- Whenever the regenerated `initGradient` reports success, the regenerated `At` on the gradient it has left returns a
    valid premultiplied colour at every pixel — whatever the registers, the transform and the pixel. -/
theorem code_renderer_gradient_premul (fuel : Nat) (z : Ren.Renderer F32 F64) (g0 : render_Gradient)
    (stops0 : Vector render_Stop 64) (rgba : RGBA) (hf : 129 ≤ fuel)
    (hok : (codeInitGradient fuel z g0 stops0 rgba).1 = true) (x y : Int) :
    Premul (codeAt fuel (codeInitGradient fuel z g0 stops0 rgba).2.1 x y) := by
  obtain ⟨g, hg, he, hl⟩ := code_initGradient_ok fuel z g0 stops0 rgba hf hok
  rw [he]
  show Premul (render_Gradient_At fuel g.shape g.spread (gradAff3Of g.pix2Grad) (g.ranges.map rangeOf)
    (rgba64Of g.first) (rgba64Of g.last) x y)
  rw [gradient_At_code_tie fuel g x y hl]
  obtain ⟨⟨h1, h2, h3⟩, ⟨c1, c2, c3, c4⟩, _⟩ := (C15.renderer_gradient_f64 z rgba g hg).2 x y
  simp only [Premul, rgba64Of, UInt16.le_iff_toNat_le, UInt16.toNat_ofNat']
  refine ⟨?_, ?_, ?_⟩ <;> (rw [Nat.mod_eq_of_lt (by assumption), Nat.mod_eq_of_lt (by assumption)]; assumption)

/-- … and every channel is `Near` the specification's piece-wise linear interpolation of the stops read from the registers
    (offsets NREG[nBase+k] widened to float64, colours CREG[cBase+k] widened to 16 bits), at the value of the float64
    offset the regenerated `Clamp` delivers for the pixel — at every pixel that gets a colour (`offset >= 0`). -/
theorem code_renderer_gradient_sample (fuel : Nat) (z : Ren.Renderer F32 F64) (g0 : render_Gradient)
    (stops0 : Vector render_Stop 64) (rgba : RGBA) (hf : 129 ≤ fuel)
    (hok : (codeInitGradient fuel z g0 stops0 rgba).1 = true) :
    ∃ stops : List (Stop F64),
      stops.length = (decodeGradient rgba).nStops.toNat ∧
      (∀ k (hk : k < stops.length), stops[k] =
        ⟨F64.ofF32 (z.nReg.get6 ((decodeGradient rgba).nBase + (0 + UInt8.ofNat k))),
         Ren.rgba64Of (z.cReg.get6 ((decodeGradient rgba).cBase + (0 + UInt8.ofNat k)))⟩) ∧
      ∀ x y : Int,
        let G := (codeInitGradient fuel z g0 stops0 rgba).2.1
        (zeroB : F64) ≤ codeOffset G.Shape G.Spread G.Pix2Grad x y →
        Grad64.ColNear (rgba64To (codeAt fuel G x y))
          (fun ch => sample ch (Grad64.specStops64 stops) (FloatMono.val (codeOffset G.Shape G.Spread G.Pix2Grad x y)))
          (7 * FloatErr64.u * 65535) := by
  obtain ⟨g, hg, he, hl⟩ := code_initGradient_ok fuel z g0 stops0 rgba hf hok
  obtain ⟨stops, h1, _, h3, h4⟩ := C15Err.renderer_gradient_sample_f64 z rgba g hg
  refine ⟨stops, h1, h3, fun x y => ?_⟩
  rw [he]
  have ho : codeOffset (gradientOf g).Shape (gradientOf g).Spread (gradientOf g).Pix2Grad x y =
      Grad64.offsetAt g x y := by
    rw [codeOffset, spread_Clamp_code_tie]; rfl
  have ha : codeAt fuel (gradientOf g) x y = rgba64Of (g.at (α := F32) x y) := gradient_At_code_tie fuel g x y hl
  intro G hz
  simp only [G] at hz ⊢
  rw [ho] at hz ⊢
  rw [ha, rgba64To_rgba64Of _ ((C15.renderer_gradient_f64 z rgba g hg).2 x y).2.1]
  exact h4 x y hz

end Ivg.Props.C15Code

#obligations C15 [
  Ivg.Props.C15Code.code_clamp_inside, Ivg.Props.C15Code.code_clamp_pad, Ivg.Props.C15Code.code_clamp_spec,
  Ivg.Props.C15Code.code_clamp_range, Ivg.Props.C15Code.code_clamp_repeat_exact,
  Ivg.Props.C15Code.code_clamp_nonfinite, Ivg.Props.C15Code.codeInitAt_eq, Ivg.Props.C15Code.codeOffset_eq,
  Ivg.Props.C15Code.code_premul_valid, Ivg.Props.C15Code.code_at_no_colour, Ivg.Props.C15Code.code_at_none_outside,
  Ivg.Props.C15Code.code_at_stop, Ivg.Props.C15Code.code_end_colours, Ivg.Props.C15Code.code_at_sample,
  Ivg.Props.C15Code.code_initGradient_ok, Ivg.Props.C15Code.code_renderer_gradient_premul,
  Ivg.Props.C15Code.code_renderer_gradient_sample]
