import Ivg.Lemmas.Decoder2
import Ivg.Gen.Tie.DrawOps
import Ivg.Gen.Tie.DecodeErrors
import Ivg.Gen.Tie.Magic
import Ivg.Gen.Tie.PrinterSites
import Ivg.Obligations
/-!
# C11 — the disassembler agrees with the decoder

Property text: "Disassemble succeeds on exactly the inputs that Decode accepts and fails with the
same error otherwise; in a successful listing the hexadecimal byte column, concatenated in line
order, reproduces the input exactly (every byte once); there is one instruction line per operation
the decoder delivers (explicit or implicit repeat); and the operand values printed (numbers,
colours, selector and ADJ values, repeat counts, arc flags) are the values the decoder delivers for
the same input."

Model: `Dec.disassemble src` returns the structured lines (`Line` = byte column + `LineKind`, the
printed content; the text rendering lives in the driver), `Dec.decode [] src` the delivered calls.
Both are projections of the single traversal `Dec.decodeCore`, exactly as in decode.go.

How "the values printed are the values delivered" is stated: `DecL.callOfLines` is an independent
READER which, given only the printed content of an instruction line and of the operand lines that
follow it, says which Destination call they denote (selector value, ADJ and increment flag, colour,
numbers in order, arc flags as bit 0 / bit 1 of the printed natural, opcode letter).
`DecL.readCalls` applies it to a whole listing (grouping each instruction line with the
non-instruction lines after it, ignoring the metadata section).  `values_agree` says that reading the
listing back gives exactly the calls the decoder delivered after Reset.
-/
namespace Ivg.Props.C11
open Ivg Num Dec DecL

/-- the icon of C02: viewBox chunk, palette chunk, `M 0 0 l 8 8 16 -8 z` -/
def exIcon : Bytes :=
  [0x89, 0x49, 0x56, 0x47, 0x04, 0x0a, 0x00, 0x50, 0x50, 0xb0, 0xb0, 0x08, 0x02, 0x01, 0x7c, 0x80,
   0xc0, 0x80, 0x80, 0x21, 0x90, 0x90, 0xa0, 0x70, 0xe1]

set_option maxRecDepth 100000 in
/-- non-vacuity of the hypotheses `disassemble src = .ok ls` below: 23 lines, 4 instruction lines -/
example : ∃ ls, disassemble exIcon = .ok ls ∧ ls.length = 23 ∧ (ls.filter Line.isInstr).length = 4 :=
  ⟨(linesOf (decodeCore false {} [] exIcon).1.items), by decide +kernel⟩

/-- Clause "fails with the same error otherwise". -/
theorem disasm_error_iff_decode_error (src : Bytes) (e : DecErr) :
    disassemble src = .error e ↔ (decode [] src).2 = some e := disassemble_error_iff src e

/-- Clause "Disassemble succeeds on exactly the inputs that Decode accepts". -/
theorem disasm_ok_iff_decode_ok (src : Bytes) :
    (∃ ls, disassemble src = .ok ls) ↔ (decode [] src).2 = none := disassemble_ok_iff src

set_option maxRecDepth 100000 in
example : disassemble (exIcon.take 22) = .error .invalidNumber ∧
    (decode [] (exIcon.take 22)).2 = some .invalidNumber := by decide +kernel

/-- Clause "the hexadecimal byte column, concatenated in line order, reproduces the input exactly
    (every byte once)". -/
theorem hex_concat (src : Bytes) (ls : List Line) (h : disassemble src = .ok ls) :
    ls.flatMap (·.bytes) = src := disassemble_hex_concat h

/-- Per instruction (also used for failing inputs): the lines of a decoded instruction show exactly
    the bytes it consumed. -/
theorem instruction_bytes (m : DMode) (src : Bytes) (its : List Item) (m' : DMode) (rest : Bytes)
    (h : stepDec m src = (its, .ok (m', rest))) :
    src = (linesOf its).flatMap (·.bytes) ++ rest := by
  obtain ⟨pre, _, rfl, hb⟩ := stepDec_consumes h
  rw [← hb]; rfl
set_option maxRecDepth 100000 in
example : ∃ its, stepDec .drawing [0x21, 0x90, 0x90, 0xa0, 0x70, 0xe1] = (its, .ok (.drawing, [0xe1])) :=
  ⟨(stepDec .drawing [0x21, 0x90, 0x90, 0xa0, 0x70, 0xe1]).1, by decide +kernel⟩

/-- Clause "one instruction line per operation the decoder delivers (explicit or implicit repeat)":
    the instruction lines (`Line.isInstr`: Set CSEL/NSEL/CREG/NREG, Start path, Set LOD, drawing
    opcode, implicit repeat, z, H/h/V/v) are as many as the calls after the initial Reset. -/
theorem one_line_per_call (src : Bytes) (ls : List Line) (h : disassemble src = .ok ls) :
    (ls.filter Line.isInstr).length + 1 = (decode [] src).1.length :=
  disassemble_one_line_per_call h

/-- … and per instruction. -/
theorem instruction_lines_eq_calls (m : DMode) (src : Bytes) (its : List Item) (m' : DMode) (rest : Bytes)
    (h : stepDec m src = (its, .ok (m', rest))) :
    ((linesOf its).filter Line.isInstr).length = (callsOf its).length := by
  obtain ⟨pre, _, _, _, _, _, hi, _⟩ := stepDec_ok h
  exact hi

/-- Clause "the operand values printed … are the values the decoder delivers for the same input":
    the delivered calls are Reset followed by exactly what the reader `readCalls` reconstructs from
    the printed values of the listing. -/
theorem values_agree (src : Bytes) (ls : List Line) (h : disassemble src = .ok ls) :
    ∃ vb pal, (decode [] src).1 = .reset vb pal :: readCalls ls := disassemble_values_agree h

set_option maxRecDepth 100000 in
/-- the reader is not trivial: on the example listing it yields the four drawing calls -/
example : readCalls (linesOf (decodeCore false {} [] exIcon).1.items) =
    [.startPath 0 0 0, .d2 .l 8 8, .d2 .l 16 (-8), .closeEnd] := by decide +kernel

/-- The same, structurally and per instruction: the items of a successfully decoded instruction are
    groups "instruction line, operand lines, call", in each of which the call is the one denoted by
    the printed content of the group's lines (`Grouped`, built on `callOfLines`). -/
theorem instruction_values_agree (m : DMode) (src : Bytes) (its : List Item) (m' : DMode) (rest : Bytes)
    (h : stepDec m src = (its, .ok (m', rest))) : Grouped [] its := by
  obtain ⟨pre, _, _, _, _, _, _, hg, _⟩ := stepDec_ok h
  exact hg

/-- … and for the whole traversal: metadata lines (no instruction line, no call), Reset with the
    decoded metadata, then groups. -/
theorem traversal_values_agree (src : Bytes) (items : List Item) (m : Metadata)
    (h : decodeCore false {} [] src = (⟨items, none⟩, m)) :
    ∃ hdr body, items = hdr ++ [.call (.reset m.viewBox m.palette)] ++ body ∧ callsOf hdr = [] ∧
      instrCount hdr = 0 ∧ Grouped [] body := decodeCore_grouped h
set_option maxRecDepth 100000 in
example : (decodeCore false {} [] exIcon).1.err = none := by decide +kernel

/-- Clause "repeat counts": the count printed on a drawing-opcode line is the number of calls that
    instruction delivers; the first is headed by the opcode line itself, the remaining ones by one
    "implicit" line each. -/
theorem repeat_count_agrees (opcode : UInt8) (rest : Bytes) (its : List Item) (r : DMode × Bytes)
    (h1 : opcode < 0xe0) (h : decodeDrawing (opcode :: rest) = (its, .ok r)) :
    ∃ its', its = .line ⟨[opcode], .drawHdr (repOpOf (opcode >>> 4).toNat) (nRepsOf opcode)⟩ :: its' ∧
      (callsOf its').length = nRepsOf opcode ∧ instrCount its' = nRepsOf opcode - 1 :=
  decodeDrawing_repeat_count h1 h
set_option maxRecDepth 100000 in
example : (0x21 : UInt8) < 0xe0 ∧ nRepsOf 0x21 = 2 ∧
    (decodeDrawing [0x21, 0x90, 0x90, 0xa0, 0x70, 0xe1]).2 = .ok (.drawing, [0xe1]) := by decide +kernel

/-!
## Not proved in this file

* The text rendering of a `Line` (hex column formatting, `%+g` of the numbers, the wording of each
  line) is in the driver and is compared with Go by the differential suite only; the theorems are
  about the structured content (`LineKind`) that rendering prints.
* `repeat_count_agrees` is stated for `decodeDrawing`, the only producer of `drawHdr` lines; it is
  not restated over whole listings.
-/

end Ivg.Props.C11

#obligations C11 [
  Ivg.Props.C11.disasm_error_iff_decode_error, Ivg.Props.C11.disasm_ok_iff_decode_ok,
  Ivg.Props.C11.hex_concat, Ivg.Props.C11.instruction_bytes, Ivg.Props.C11.one_line_per_call,
  Ivg.Props.C11.instruction_lines_eq_calls, Ivg.Props.C11.values_agree,
  Ivg.Props.C11.instruction_values_agree, Ivg.Props.C11.traversal_values_agree,
  Ivg.Props.C11.repeat_count_agrees,
  Ivg.Gen.Tie.drawOps_tie, Ivg.Gen.Tie.magic_tie, Ivg.Gen.Tie.decodeErrors_tie,
  Ivg.Gen.Tie.printerSites_tie, Ivg.Gen.Tie.printerSites_windows_tie]
