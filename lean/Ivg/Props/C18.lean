import Ivg.Model.Decoder
import Ivg.Model.Arc
import Ivg.Gen.Tie.EncoderFields
import Ivg.Gen.Tie.Globals
import Ivg.Gen.Tie.GoStmts
import Ivg.Gen.Tie.GradientFields
import Ivg.Gen.Tie.ParamWrites
import Ivg.Gen.Tie.RendererFields
import Ivg.Obligations
/-!
# C18 — independent decodes, renders and encodes are safe to run concurrently (PARTIAL)

What makes the property true of the code is the absence of shared mutable state.  That has two halves:

1. **Frame (regenerated from the source on every run, `Ivg/Gen/Facts.lean` + `Tie.lean`)**: no package-level
   variable is assigned or appended into outside its declaration (`no_global_writes`), there are no goroutines
   and no `unsafe`/`sync`/`reflect`/cgo/`runtime` imports (`no_go_statements`, `no_risky_imports`), the set of
   package-level variables is the reviewed list of read-only tables and defaults (`package_vars_frame`), and the only
   non-receiver parameters written through are the reviewed caller-local ones (`param_writes_frame`) — in particular
   neither `src []byte` nor a caller's palette.
2. **Interleaving independence (this file)**: machines that share only an immutable value and otherwise step on
   their own local state reach, under EVERY schedule, exactly the local state they reach when run alone.  The
   models of Encoder, Decoder and Renderer are such machines: their step functions are pure functions of
   (shared input, own state).

NOT proved: data-race freedom of the Go program itself (the Go memory model is not modelled).  It is observed on
every run by the race detector (`harness-race`, suite C18), and the completeness of the write-frame extractor for
stores (assignments, inc/dec, `copy`, `append`) is trusted.
-/
namespace Ivg.Props.C18

/-- a machine over a shared immutable value -/
structure Machine (Sh : Type) where
  St : Type
  step : Sh → St → St

variable {Sh : Type} {n : Nat}

/-- global state: one local state per machine -/
def Global (ms : Fin n → Machine Sh) := ∀ i, (ms i).St

/-- one scheduling decision: machine `i` takes a step -/
def stepAt (sh : Sh) (ms : Fin n → Machine Sh) (g : Global ms) (i : Fin n) : Global ms :=
  fun j => if h : j = i then h ▸ (ms i).step sh (g i) else g j

def runSchedule (sh : Sh) (ms : Fin n → Machine Sh) (g : Global ms) : List (Fin n) → Global ms
  | [] => g
  | i :: rest => runSchedule sh ms (stepAt sh ms g i) rest

/-- running machine `i` alone for `k` steps -/
def runAlone (sh : Sh) (m : Machine Sh) (s : m.St) : Nat → m.St
  | 0 => s
  | k + 1 => runAlone sh m (m.step sh s) k

theorem stepAt_self (sh : Sh) (ms : Fin n → Machine Sh) (g : Global ms) (i : Fin n) :
    stepAt sh ms g i i = (ms i).step sh (g i) := by
  simp [stepAt]

theorem stepAt_other (sh : Sh) (ms : Fin n → Machine Sh) (g : Global ms) (i j : Fin n) (h : j ≠ i) :
    stepAt sh ms g i j = g j := by
  simp [stepAt, h]

/-- **Every interleaving yields, per machine, the state of running it alone** for as many steps as the
    schedule gave it. -/
theorem interleaving_independent (sh : Sh) (ms : Fin n → Machine Sh) :
    ∀ (sched : List (Fin n)) (g : Global ms) (i : Fin n),
      runSchedule sh ms g sched i = runAlone sh (ms i) (g i) (sched.count i) := by
  intro sched
  induction sched with
  | nil => intro g i; rfl
  | cons j rest ih =>
    intro g i
    simp only [runSchedule]
    rw [ih]
    by_cases h : i = j
    · subst h
      simp [stepAt_self, runAlone]
    · have hc : (j :: rest).count i = rest.count i := by
        simp [List.count_cons, Ne.symm h]
      rw [hc, stepAt_other sh ms g j i h]

/-- two schedules that give a machine the same number of steps leave it in the same state -/
theorem schedule_irrelevant (sh : Sh) (ms : Fin n → Machine Sh) (s₁ s₂ : List (Fin n)) (g : Global ms) (i : Fin n)
    (h : s₁.count i = s₂.count i) : runSchedule sh ms g s₁ i = runSchedule sh ms g s₂ i := by
  rw [interleaving_independent, interleaving_independent, h]

/-! The models are machines of this kind: the shared value is the input (bytes, program, palette); a step is a
    pure function of it and of the local state. -/

open Ivg Num in
/-- an Encoder fed the `k`-th call of a shared program -/
def encoderMachine : Machine (List (Call F32)) where
  St := Enc.Encoder × Nat
  step := fun prog (e, k) => match prog[k]? with
    | some c => (e.step c, k + 1)
    | none => (e, k)

open Ivg Num in
/-- a Renderer fed the `k`-th call of a shared program -/
def rendererMachine : Machine (List (Call F32)) where
  St := Ren.Renderer F32 F64 × List (Ren.RasterOp F32 F64) × Nat
  step := fun prog (z, ops, k) => match prog[k]? with
    | some c => let (z', o) := z.step Ren.arcF32 F32.posInf c; (z', ops ++ o, k + 1)
    | none => (z, ops, k)

open Ivg Num in
/-- a decoder working through shared input bytes one instruction at a time -/
def decoderMachine : Machine Bytes where
  St := Dec.DMode × Nat × List (Call F32) × Bool     -- mode, position, delivered, failed
  step := fun src (m, pos, cs, failed) =>
    if failed ∨ pos ≥ src.length then (m, pos, cs, failed) else
    match Dec.stepDec m (src.drop pos) with
    | (its, .ok (m', rest)) => (m', src.length - rest.length, cs ++ Dec.callsOf its, false)
    | (its, .error _) => (m, pos, cs ++ Dec.callsOf its, true)

/-- non-vacuity: three pipelines over one shared program, two different schedules, same results -/
example :
    let prog : List (Call Ivg.Num.F32) := [.setCSel 3, .setNSel 5, .setCSel 9, .setCReg 0 true (Ivg.Color.cRegColor 2)]
    let ms : Fin 2 → Machine (List (Call Ivg.Num.F32)) := fun _ => encoderMachine
    let g : Global ms := fun _ => (({} : Ivg.Enc.Encoder), 0)
    (runSchedule prog ms g [0, 1, 0, 1, 0, 1, 0, 1] 0).1.buf = (runSchedule prog ms g [1, 1, 1, 1, 0, 0, 0, 0] 0).1.buf := by
  decide +kernel

end Ivg.Props.C18
#obligations C18 [Ivg.Props.C18.interleaving_independent, Ivg.Props.C18.schedule_irrelevant,
  Ivg.Gen.Tie.no_global_writes, Ivg.Gen.Tie.no_go_statements, Ivg.Gen.Tie.no_risky_imports,
  Ivg.Gen.Tie.param_writes_frame, Ivg.Gen.Tie.package_vars_frame,
  Ivg.Gen.Tie.renderer_fields_tie, Ivg.Gen.Tie.encoder_fields_tie, Ivg.Gen.Tie.gradient_fields_tie]
