import Ivg.Model.Decoder
import Ivg.Model.Arc
import Ivg.Model.MdIcons
import Ivg.Gen.Tie
import Ivg.Obligations
/-! # Property C18 — theorems (work in progress: tie obligations only so far) -/
namespace Ivg.Props.C18
end Ivg.Props.C18
#obligations C18 [Ivg.Gen.Tie.drawOps_tie, Ivg.Gen.Tie.magic_tie, Ivg.Gen.Tie.errorStrings_tie]
