import Ivg.Lemmas.GenQ
import Ivg.Lemmas.Gen32x
import Ivg.Lemmas.PathParse3
import Ivg.Lemmas.PathShape
import Ivg.Lemmas.PathParseErr
import Ivg.Lemmas.MdParse4
import Ivg.Lemmas.PathExamples
import Ivg.Gen.Tie.GeneratorFields
import Ivg.Gen.Tie.MdFields
import Ivg.Gen.Tie.Code.Aff3
import Ivg.Gen.Tie.Code.Concat
import Ivg.Obligations
/-!
# C20 — SVG path data in the generator, transforms, and the Material-Design converter

Property text (the part settled here): "… coordinates transformed by the configured scale-and-translate
transform: absolute operands get the full transform, relative operands the scale only, arc radii the
scale, arc flags unchanged and rotation converted from degrees to turns; concatenating transforms is
matrix composition. The converter maps a path opacity to a blend of transparent with the first palette
colour, reusing one register per distinct opacity, and circles to two half-turn arcs appended to the
first path."

Models: `Ivg/Model/Generator.lean` (`concat`, `mulAff3`, `normalizeArgs`, `emitVerb`; Go:
`/repo/generate/generate.go`) and `Ivg/Model/MdIcons.lean` (`normalizeArgs`, `parsePath`; Go:
`/repo/mdicons/parsepath.go`, `parsepathdata.go`).  Arithmetic facts are proved for the models
instantiated at EXACT arithmetic (`ℚ`) and, with explicit error bounds, at float32 (`Ivg/Lemmas/Xf32.lean`);
structural facts for every number type.
The parsing clauses of C20 (tokenising the path string, implicit verb repetition) are the last two sections:
the specification (`Ivg/Spec/PathData.lean`: abstract syntax `Cmd`, numerals `Tok`, the printers `render` /
`renderC` / `renderMd`, the decidable dialects `WellFormed` / `WellFormedC` / `WellFormedMd`, the spelled
operations `spelled` / `spelledMd`) is written without the parsers; the theorems are round trips
"parse (print p) = the operations p spells", plus the shape of the output for EVERY input string.
-/
namespace Ivg.Props.C20
open Ivg Gen GenQ

/-! ## concatenating transforms is matrix composition (exact arithmetic) -/

/-- Clause "concatenating transforms is matrix composition": applying `Concat(l…)` to a point is applying
    the transforms of `l` one after the other, first to last (`MulAff3` applies one matrix). -/
theorem concat_is_composition (l : List (Aff3 ℚ)) (x y : ℚ) :
    mulAff3 x y (concat l) = l.foldl (fun p a => mulAff3 p.1 p.2 a) (x, y) :=
  GenQ.concat_is_composition l x y

/-- … in particular `Concat(a, b)` is "first `a`, then `b`", `Concat()` is the identity map, and
    concatenation of lists is composition of the concatenations. -/
theorem concat_pair (a b : Aff3 ℚ) (x y : ℚ) :
    mulAff3 x y (concat [a, b]) = mulAff3 (mulAff3 x y a).1 (mulAff3 x y a).2 b ∧
    mulAff3 x y (concat []) = (x, y) ∧
    (∀ l₁ l₂ : List (Aff3 ℚ), mulAff3 x y (concat (l₁ ++ l₂)) =
      mulAff3 (mulAff3 x y (concat l₁)).1 (mulAff3 x y (concat l₁)).2 (concat l₂)) :=
  ⟨GenQ.concat_pair a b x y, mulAff3_ident x y, fun l₁ l₂ => concat_append l₁ l₂ x y⟩

/-- scale followed by translate is the scale-and-translate matrix the theorems below are about -/
theorem concat_scale_translate (sx sy tx ty : ℚ) :
    concat [scale2 sx sy, translate tx ty] = ⟨sx, 0, tx, 0, sy, ty⟩ :=
  GenQ.concat_scale_translate sx sy tx ty

/-! ## `normalize` of the generator (exact arithmetic) -/

/-- Clause "absolute operands get the full transform, relative operands the scale only, arc radii the
    scale, arc flags unchanged [and rotation passed on]": for a non-empty transform list whose
    concatenation is the scale-and-translate matrix `[sx 0 tx; 0 sy ty]`, every operand pair `(x,y)` of a
    2-, 4- or 6-operand verb and the end point of an arc become `xf … rel x y` =
    `(sx·x+tx, sy·y+ty)` for an absolute verb, `(sx·x, sy·y)` for a relative (lower-case) one; the arc's
    radii become `(sx·rx, sy·ry)` and its rotation and two flags are untouched. -/
theorem normalize_abs_rel (ts : List (Aff3 ℚ)) (hne : ts ≠ []) (sx sy tx ty : ℚ)
    (h : concat ts = ⟨sx, 0, tx, 0, sy, ty⟩) (verb : Char) :
    let f := xf sx sy tx ty (isLower verb)
    (∀ a0 a1, normalizeArgs [a0, a1] 2 verb ts = [(f a0 a1).1, (f a0 a1).2]) ∧
    (∀ a0 a1 a2 a3, normalizeArgs [a0, a1, a2, a3] 4 verb ts =
      [(f a0 a1).1, (f a0 a1).2, (f a2 a3).1, (f a2 a3).2]) ∧
    (∀ a0 a1 a2 a3 a4 a5, normalizeArgs [a0, a1, a2, a3, a4, a5] 6 verb ts =
      [(f a0 a1).1, (f a0 a1).2, (f a2 a3).1, (f a2 a3).2, (f a4 a5).1, (f a4 a5).2]) ∧
    (∀ rx ry rot la sw x y, normalizeArgs [rx, ry, rot, la, sw, x, y] 7 verb ts =
      [sx * rx, sy * ry, rot, la, sw, (f x y).1, (f x y).2]) :=
  GenQ.normalize_abs_rel ts hne sx sy tx ty h verb
example : [scale2 (2 : ℚ) 3, translate 5 7] ≠ [] ∧
    concat [scale2 (2 : ℚ) 3, translate 5 7] = ⟨2, 0, 5, 0, 3, 7⟩ :=
  ⟨by simp, GenQ.concat_scale_translate 2 3 5 7⟩
/-- what `xf` is -/
theorem xf_eq (sx sy tx ty x y : ℚ) :
    xf sx sy tx ty false x y = (sx * x + tx, sy * y + ty) ∧ xf sx sy tx ty true x y = (sx * x, sy * y) :=
  ⟨rfl, rfl⟩

/-- … single-operand verbs: `H ↦ sx·x+tx`, `h ↦ sx·x`, `V ↦ sy·y+ty`, `v ↦ sy·y`. -/
theorem normalize_hv (ts : List (Aff3 ℚ)) (hne : ts ≠ []) (sx sy tx ty : ℚ)
    (h : concat ts = ⟨sx, 0, tx, 0, sy, ty⟩) (a : ℚ) :
    normalizeArgs [a] 1 'H' ts = [sx * a + tx] ∧ normalizeArgs [a] 1 'h' ts = [sx * a] ∧
    normalizeArgs [a] 1 'V' ts = [sy * a + ty] ∧ normalizeArgs [a] 1 'v' ts = [sy * a] :=
  GenQ.normalize_hv ts hne sx sy tx ty h a

/-- … and without a configured transform the operands are passed on unchanged (every number type). -/
theorem normalize_no_transform {α : Type} [Arith α] (args : List α) (n : Nat) (verb : Char) :
    normalizeArgs args n verb [] = args := GenQ.normalize_no_transform args n verb

/-- Clause "rotation converted from degrees to turns": the arc call made for `A`/`a` carries `rot / 360`;
    the flags are the `≠ 0` tests of their operands; radii and end point are as normalised. -/
theorem emit_arc (adj : UInt8) (rx ry rot la sw x y : ℚ) :
    emitVerb 'A' adj [rx, ry, rot, la, sw, x, y] =
      .ok [.arc false rx ry (rot / 360) (!decide (la = 0)) (!decide (sw = 0)) x y] ∧
    emitVerb 'a' adj [rx, ry, rot, la, sw, x, y] =
      .ok [.arc true rx ry (rot / 360) (!decide (la = 0)) (!decide (sw = 0)) x y] :=
  GenQ.emit_arc adj rx ry rot la sw x y

/-! ## the converter's coordinate map (exact arithmetic) -/

/-- The converter scales by `outSize/size` (`mdRel`); absolute coordinates are then moved by
    `−outSize/2 − offset` (`mdAbs`, x operands with the x offset, y operands with the y offset). -/
theorem md_normalize (size offX offY outSize : ℚ) (op : Char) :
    let X := MdG.mdAbs size outSize offX
    let Y := MdG.mdAbs size outSize offY
    let R := MdG.mdRel size outSize
    (∀ x y, Md.normalizeArgs [x, y] 2 op size offX offY outSize false = [X x, Y y]) ∧
    (∀ x y, Md.normalizeArgs [x, y] 2 op size offX offY outSize true = [R x, R y]) ∧
    (∀ x1 y1 x y, Md.normalizeArgs [x1, y1, x, y] 4 op size offX offY outSize false = [X x1, Y y1, X x, Y y]) ∧
    (∀ x1 y1 x y, Md.normalizeArgs [x1, y1, x, y] 4 op size offX offY outSize true = [R x1, R y1, R x, R y]) ∧
    (∀ x1 y1 x2 y2 x y, Md.normalizeArgs [x1, y1, x2, y2, x, y] 6 op size offX offY outSize false =
      [X x1, Y y1, X x2, Y y2, X x, Y y]) ∧
    (∀ x1 y1 x2 y2 x y, Md.normalizeArgs [x1, y1, x2, y2, x, y] 6 op size offX offY outSize true =
      [R x1, R y1, R x2, R y2, R x, R y]) :=
  MdG.md_normalize size offX offY outSize op

theorem md_normalize_hv (size offX offY outSize a : ℚ) :
    Md.normalizeArgs [a] 1 'H' size offX offY outSize false = [MdG.mdAbs size outSize offX a] ∧
    Md.normalizeArgs [a] 1 'V' size offX offY outSize false = [MdG.mdAbs size outSize offY a] ∧
    Md.normalizeArgs [a] 1 'h' size offX offY outSize true = [MdG.mdRel size outSize a] ∧
    Md.normalizeArgs [a] 1 'v' size offX offY outSize true = [MdG.mdRel size outSize a] :=
  MdG.md_normalize_hv size offX offY outSize a

theorem md_map_eq (size outSize off a : ℚ) :
    MdG.mdRel size outSize a = a * (outSize / size) ∧
    MdG.mdAbs size outSize off a = a * (outSize / size) - outSize / 2 - off := ⟨rfl, rfl⟩

/-! ## transforms at float32 (the generator and the converter as the Go code runs them)

The models instantiated at the bit-exact soft float `F32`; `val` is the rational value of a float32, `u = 2^-24`,
`Mix32.tiny = 2^-150` (the absolute error of a product or quotient that falls below the normal range — no
hypothesis excludes underflow).  Range hypotheses are simple sufficient conditions excluding overflow:
`Xf32.STOk T` (a scale-and-translate matrix — off-diagonal entries of VALUE zero — with finite entries of
magnitude at most `2^40`), `Xf32.OpOK x` (finite operand, `|x| ≤ 2^40`), `Xf32.AffOK`, `Xf32.MdOK`, `Xf32.MdOp`. -/
section f32
open Num FloatMono32 FloatErr Xf32

/-- Clause "absolute operands get the full transform, relative operands the scale only, arc radii the scale, arc
    flags unchanged [rotation passed on]" at float32.  `T = Concat(ts…)` computed in float32 (for ONE transform
    that transform itself, `concat_single_f32`; for scale-then-translate exactly `[sx 0 tx; 0 sy ty]`,
    `concat_scale_translate_f32`).  Every operand pair of the 2-, 4-, 6-operand verbs and the arc's end point is
    `f x y`, where for operands in range (`Xf32.PairNear`):
    absolute verb — each coordinate is finite and within `3u·|s·x| + u·|t| + 2·2^-150` of `s·x + t`
    (`Xf32.AbsNear`: two roundings, the cross terms `y·0` are exact);
    relative verb — within `u·|s·x| + 2^-150` of `s·x` (`Xf32.RelNear`: one rounding);
    arc radii — `RelNear`; rotation and flags are passed on untouched. -/
theorem normalize_abs_f32 (ts : List (Aff3 F32)) (hne : ts ≠ []) (hT : STOk (concat ts)) (verb : Char) :
    ∃ f : F32 → F32 → F32 × F32,
    (∀ x y, OpOK x → OpOK y → PairNear (concat ts) (isLower verb) x y (f x y).1 (f x y).2) ∧
    (∀ a0 a1, normalizeArgs [a0, a1] 2 verb ts = [(f a0 a1).1, (f a0 a1).2]) ∧
    (∀ a0 a1 a2 a3, normalizeArgs [a0, a1, a2, a3] 4 verb ts =
      [(f a0 a1).1, (f a0 a1).2, (f a2 a3).1, (f a2 a3).2]) ∧
    (∀ a0 a1 a2 a3 a4 a5, normalizeArgs [a0, a1, a2, a3, a4, a5] 6 verb ts =
      [(f a0 a1).1, (f a0 a1).2, (f a2 a3).1, (f a2 a3).2, (f a4 a5).1, (f a4 a5).2]) ∧
    (∀ rx ry rot la sw x y, ∃ r1 r2,
      normalizeArgs [rx, ry, rot, la, sw, x, y] 7 verb ts = [r1, r2, rot, la, sw, (f x y).1, (f x y).2] ∧
      (OpOK rx → OpOK ry → RelNear (concat ts).a0 rx r1 ∧ RelNear (concat ts).a4 ry r2)) :=
  Xf32.normalize_f32 ts hne hT verb
example : [scale2 (F32.ofInt 2) (F32.ofInt 2), translate (F32.ofInt (-32)) (F32.ofInt (-32))] ≠ [] ∧
    STOk (concat [scale2 (F32.ofInt 2) (F32.ofInt 2), translate (F32.ofInt (-32)) (F32.ofInt (-32))]) ∧
    OpOK (F32.ofInt 5) := ⟨by simp, Gen32x.stOK_example, Gen32x.opOK_example⟩

/-- what the three predicates say -/
theorem near_eq (T : Aff3 F32) (s t x y r r1 r2 : F32) :
    (AbsNear s t x r ↔
      Fn r ∧ |val r - (val s * val x + val t)| ≤ 3 * u * |val s * val x| + u * |val t| + 2 * Mix32.tiny) ∧
    (RelNear s x r ↔ Fn r ∧ |val r - val s * val x| ≤ u * |val s * val x| + Mix32.tiny) ∧
    (PairNear T false x y r1 r2 ↔ AbsNear T.a0 T.a2 x r1 ∧ AbsNear T.a4 T.a5 y r2) ∧
    (PairNear T true x y r1 r2 ↔ RelNear T.a0 x r1 ∧ RelNear T.a4 y r2) :=
  ⟨Iff.rfl, Iff.rfl, by simp [PairNear], by simp [PairNear]⟩

/-- … when the magnitudes are not below the normal range (`2^-126`), in the form `C·u·(|s·x| + |t|)`:
    absolute `5u·(|s·x| + |t|)`, relative `2u·|s·x|` -/
theorem near_mag {s t x r : F32} :
    (AbsNear s t x r → minN ≤ |val s * val x| + |val t| →
      |val r - (val s * val x + val t)| ≤ 5 * u * (|val s * val x| + |val t|)) ∧
    (RelNear s x r → minN ≤ |val s * val x| → |val r - val s * val x| ≤ 2 * u * |val s * val x|) :=
  ⟨fun h hn => h.mag hn, fun h hn => h.mag hn⟩

/-- … single-operand verbs: `H ↦ sx·x + tx`, `h ↦ sx·x`, `V ↦ sy·y + ty`, `v ↦ sy·y`, same bounds -/
theorem normalize_hv_f32 (ts : List (Aff3 F32)) (hne : ts ≠ []) (hT : STOk (concat ts)) (a : F32) (ha : OpOK a) :
    (∃ r, normalizeArgs [a] 1 'H' ts = [r] ∧ AbsNear (concat ts).a0 (concat ts).a2 a r) ∧
    (∃ r, normalizeArgs [a] 1 'h' ts = [r] ∧ RelNear (concat ts).a0 a r) ∧
    (∃ r, normalizeArgs [a] 1 'V' ts = [r] ∧ AbsNear (concat ts).a4 (concat ts).a5 a r) ∧
    (∃ r, normalizeArgs [a] 1 'v' ts = [r] ∧ RelNear (concat ts).a4 a r) :=
  Xf32.normalize_hv_f32 ts hne hT a ha

/-- Clause "arc flags unchanged and rotation converted from degrees to turns" at float32: the arc call carries
    `fl(rot / 360)` — one rounding, within `u·|rot/360| + 2^-150` of the exact quotient — and each flag is `true`
    exactly when its operand's value is non-zero. -/
theorem emit_arc_f32 (adj : UInt8) (rx ry rot la sw x y : F32) :
    emitVerb 'A' adj [rx, ry, rot, la, sw, x, y] =
      .ok [.arc false rx ry (rot / F32.ofInt 360) (!F32.feq la (F32.ofInt 0)) (!F32.feq sw (F32.ofInt 0)) x y] ∧
    emitVerb 'a' adj [rx, ry, rot, la, sw, x, y] =
      .ok [.arc true rx ry (rot / F32.ofInt 360) (!F32.feq la (F32.ofInt 0)) (!F32.feq sw (F32.ofInt 0)) x y] ∧
    (Fn rot → Fn (rot / F32.ofInt 360) ∧
      |val (rot / F32.ofInt 360) - val rot / 360| ≤ u * |val rot / 360| + Mix32.tiny) ∧
    (Fn la → ((!F32.feq la (F32.ofInt 0)) = true ↔ val la ≠ 0)) ∧
    (Fn sw → ((!F32.feq sw (F32.ofInt 0)) = true ↔ val sw ≠ 0)) :=
  Xf32.emit_arc_f32 adj rx ry rot la sw x y

/-- Clause "concatenating transforms is matrix composition" at float32 — one transform: itself (every number
    type) -/
theorem concat_single_f32 {α : Type} [Arith α] (a : Aff3 α) : concat [a] = a := rfl

/-- … scale then translate: in VALUE exactly the scale-and-translate matrix (every product is with 0 or 1), so
    `normalize_abs_f32` applies to the generator's usual transform list with no concatenation error -/
theorem concat_scale_translate_f32 {sx sy tx ty : F32} (fsx : Fn sx) (fsy : Fn sy) (ftx : Fn tx) (fty : Fn ty)
    (bsx : |val sx| ≤ 1099511627776) (bsy : |val sy| ≤ 1099511627776)
    (btx : |val tx| ≤ 1099511627776) (bty : |val ty| ≤ 1099511627776) :
    STOk (concat [scale2 sx sy, translate tx ty]) ∧
    valA (concat [scale2 sx sy, translate tx ty]) = ⟨val sx, 0, val tx, 0, val sy, val ty⟩ :=
  Xf32.concat_scale_translate_f32 fsx fsy ftx fty bsx bsy btx bty
example : Fn (F32.ofInt 2) ∧ |val (F32.ofInt 2)| ≤ 1099511627776 :=
  ⟨(Gen32x.ofInt_small 2 (by decide)).1, le_trans (Gen32x.ofInt_small 2 (by decide)).2.2 (by norm_num)⟩

/-- … two general transforms: every entry of `Concat(a, b)` is finite and within `3u·(|p| + |q|) + 3·2^-150`
    (linear part; `p + q` the exact entry) or `4u·(|p| + |q|) + u·|t| + 3·2^-150` (translation part `p + q + t`) of
    the entry of the exact matrix product `GenQ.comp (valA a) (valA b) = concat [valA a, valA b]`
    (`concat_is_composition` at exact arithmetic).  Rounding is relative to the sum of the magnitudes of the
    products: entries that cancel lose relative accuracy, and longer lists accumulate (the float product is not
    associative). -/
theorem concat_pair_f32 {a b : Aff3 F32} (ha : AffOK a) (hb : AffOK b) :
    let c := concat [a, b]
    let A := valA a
    let B := valA b
    let P := GenQ.comp A B
    (Fn c.a0 ∧ Fn c.a1 ∧ Fn c.a2 ∧ Fn c.a3 ∧ Fn c.a4 ∧ Fn c.a5) ∧
    |val c.a0 - P.a0| ≤ 3 * u * (|A.a0 * B.a0| + |A.a3 * B.a1|) + 3 * Mix32.tiny ∧
    |val c.a1 - P.a1| ≤ 3 * u * (|A.a1 * B.a0| + |A.a4 * B.a1|) + 3 * Mix32.tiny ∧
    |val c.a2 - P.a2| ≤ 4 * u * (|A.a2 * B.a0| + |A.a5 * B.a1|) + u * |B.a2| + 3 * Mix32.tiny ∧
    |val c.a3 - P.a3| ≤ 3 * u * (|A.a0 * B.a3| + |A.a3 * B.a4|) + 3 * Mix32.tiny ∧
    |val c.a4 - P.a4| ≤ 3 * u * (|A.a1 * B.a3| + |A.a4 * B.a4|) + 3 * Mix32.tiny ∧
    |val c.a5 - P.a5| ≤ 4 * u * (|A.a2 * B.a3| + |A.a5 * B.a4|) + u * |B.a5| + 3 * Mix32.tiny :=
  Xf32.concat_pair_f32 ha hb
example : AffOK (scale2 (F32.ofInt 2) (F32.ofInt 3)) ∧ AffOK (translate (F32.ofInt 5) (F32.ofInt 7)) :=
  Gen32x.affOK_example
theorem concat_pair_exact (a b : Aff3 F32) : concat [valA a, valA b] = GenQ.comp (valA a) (valA b) :=
  Xf32.concat_pair_exact a b

/-- The converter's coordinate map at float32.  Structure (every number type): the operands of every verb go
    through `mdAbsF` (absolute: `a·(outSize/size) − outSize/2 − off`, as computed, x operands with the x offset, y
    operands with the y offset) or `mdRelF` (relative: `a·(outSize/size)`) … -/
theorem md_normalize_struct {α : Type} [Arith α] (size offX offY outSize : α) (op : Char) :
    let X := mdAbsF size outSize offX
    let Y := mdAbsF size outSize offY
    let R := mdRelF size outSize
    (∀ x y, Md.normalizeArgs [x, y] 2 op size offX offY outSize false = [X x, Y y]) ∧
    (∀ x y, Md.normalizeArgs [x, y] 2 op size offX offY outSize true = [R x, R y]) ∧
    (∀ x1 y1 x y, Md.normalizeArgs [x1, y1, x, y] 4 op size offX offY outSize false = [X x1, Y y1, X x, Y y]) ∧
    (∀ x1 y1 x y, Md.normalizeArgs [x1, y1, x, y] 4 op size offX offY outSize true = [R x1, R y1, R x, R y]) ∧
    (∀ x1 y1 x2 y2 x y, Md.normalizeArgs [x1, y1, x2, y2, x, y] 6 op size offX offY outSize false =
      [X x1, Y y1, X x2, Y y2, X x, Y y]) ∧
    (∀ x1 y1 x2 y2 x y, Md.normalizeArgs [x1, y1, x2, y2, x, y] 6 op size offX offY outSize true =
      [R x1, R y1, R x2, R y2, R x, R y]) ∧
    (∀ a, Md.normalizeArgs [a] 1 'H' size offX offY outSize false = [X a]) ∧
    (∀ a, Md.normalizeArgs [a] 1 'V' size offX offY outSize false = [Y a]) ∧
    (∀ a, Md.normalizeArgs [a] 1 'h' size offX offY outSize true = [R a]) ∧
    (∀ a, Md.normalizeArgs [a] 1 'v' size offX offY outSize true = [R a]) :=
  Xf32.md_normalize_struct size offX offY outSize op

/-- … and the two maps at float32 (`MdOK`: `2^-20 ≤ |size| ≤ 2^20`, `|outSize| ≤ 2^20`; operands and offsets
    finite, at most `2^20`): a relative operand is within `(2u + u²)·|x·outSize/size| + 2^21·2^-150` of
    `x·outSize/size` (two roundings), an absolute one within
    `5u·(|x·outSize/size| + |outSize/2| + |off|) + 2^22·2^-150` of `x·outSize/size − outSize/2 − off` (five
    roundings, relative to the SUM of the three magnitudes). -/
theorem md_normalize_f32 {size outSize : F32} (h : MdOK size outSize) {x off : F32} (hx : MdOp x) (ho : MdOp off) :
    (Fn (mdRelF size outSize x) ∧
      |val (mdRelF size outSize x) - val x * (val outSize / val size)| ≤
        (2 * u + u * u) * |val x * (val outSize / val size)| + 2097152 * Mix32.tiny) ∧
    (Fn (mdAbsF size outSize off x) ∧
      |val (mdAbsF size outSize off x) - (val x * (val outSize / val size) - val outSize / 2 - val off)| ≤
        5 * u * (|val x * (val outSize / val size)| + |val outSize / 2| + |val off|) + 4194304 * Mix32.tiny) :=
  ⟨Xf32.md_rel_f32 h hx, Xf32.md_abs_f32 h hx ho⟩
example : MdOK (F32.ofInt 24) (F32.ofInt 48) ∧ MdOp (F32.ofInt 25) ∧ MdOp (F32.ofInt 0) := Gen32x.mdOK_example

/-- … and the converter's circles, whose centre and radius are mapped with ANOTHER association
    (`c*outSize/size − (outSize/2 + off)`, `r*outSize/size`; `circle_calls` below): the radius is within
    `(2u + u²)·|r·outSize/size| + 2^21·2^-150` of `r·outSize/size`, a centre coordinate within
    `5u·(|c·outSize/size| + |outSize/2| + |off|) + 2^22·2^-150` of `c·outSize/size − (outSize/2 + off)`.  (The start
    point `cx − r` is one more rounded subtraction, the arc end points `±2·r` are exact.) -/
theorem md_circle_f32 {size outSize : F32} (h : MdOK size outSize) {x off : F32} (hx : MdOp x) (ho : MdOp off)
    (offX offY : F32) (adj : UInt8) (needStart : Bool) (c : Md.Circle F32) :
    (Fn (mdCircR size outSize x) ∧
      |val (mdCircR size outSize x) - val x * val outSize / val size| ≤
        (2 * u + u * u) * |val x * val outSize / val size| + 2097152 * Mix32.tiny) ∧
    (Fn (mdCircF size outSize off x) ∧
      |val (mdCircF size outSize off x) - (val x * val outSize / val size - (val outSize / 2 + val off))| ≤
        5 * u * (|val x * val outSize / val size| + |val outSize / 2| + |val off|) + 4194304 * Mix32.tiny) ∧
    MdG.circleCalls size offX offY outSize adj needStart c =
      (let cx := mdCircF size outSize offX c.cx
       let cy := mdCircF size outSize offY c.cy
       let r := mdCircR size outSize c.r
       [if needStart then Call.startPath adj (cx - r) cy else Call.d2 .Y (cx - r) cy,
        .arc true r r (F32.ofInt 0) false true (F32.ofInt 2 * r) (F32.ofInt 0),
        .arc true r r (F32.ofInt 0) false true (F32.ofInt (-2) * r) (F32.ofInt 0)]) :=
  ⟨Xf32.md_circle_r_f32 h hx, Xf32.md_circle_f32 h hx ho, rfl⟩

end f32

/-! ## opacity registers and circles (every number type) -/
section
variable {α : Type} [Arith α]
open Md MdG

/-- Clause "maps a path opacity to a blend of transparent with the first palette colour, reusing one
    register per distinct opacity" — the decision `ParsePath` takes (`MdG.opacityDecision`, the new
    opacity map, the ADJ used, the calls made first):
    opacity 1 ↦ ADJ 0, nothing written;  a known opacity ↦ its recorded ADJ, nothing written;  a new
    opacity ↦ the next ADJ `len+1`, recorded, and ONE `setCReg adj false (blend t 0x7f 0x80)` with
    `t = uint8(opacity·255)`, 0x7f = transparent, 0x80 = first custom palette colour. -/
theorem opacity_decision (adjs : List (α × UInt8)) (opacity : α) :
    (Arith.feq opacity (Arith.ofInt 1) = true → opacityDecision adjs opacity = (adjs, 0, [])) ∧
    (Arith.feq opacity (Arith.ofInt 1) = false →
      (∀ p, adjs.find? (fun p => Arith.feq p.1 opacity) = some p → opacityDecision adjs opacity = (adjs, p.2, [])) ∧
      (adjs.find? (fun p => Arith.feq p.1 opacity) = none →
        opacityDecision adjs opacity =
          (adjs ++ [(opacity, UInt8.ofNat (adjs.length + 1))], UInt8.ofNat (adjs.length + 1),
           [.setCReg (UInt8.ofNat (adjs.length + 1)) false
             (Color.blendColor (Arith.toUInt8 (opacity * Arith.ofInt 255)) 0x7f 0x80)]))) :=
  ⟨opacity_one adjs opacity, fun h => ⟨fun p hp => opacity_known adjs opacity h p hp, opacity_new adjs opacity h⟩⟩

/-- … the map stays an allocation table (entry `k` holds ADJ `k+1`), so distinct recorded opacities have
    distinct registers … -/
theorem opacity_table (adjs : List (α × UInt8)) (opacity : α) (hwf : adjsWF adjs) :
    adjsWF (opacityDecision adjs opacity).1 := opacity_wf adjs opacity hwf
example : adjsWF ([] : List (ℚ × UInt8)) := fun k h => absurd h (Nat.not_lt_zero k)

/-- … and the whole of a successful `ParsePath` is `pre ++ body ++ [closeEnd]` with `(adjs', adj, pre)`
    the decision above, `adjs'` the map handed back, and `body` made of drawing calls and
    `startPath adj` only: no other register write, no other ADJ, and exactly one `closeEnd`, at the end. -/
theorem opacity_registers (adjs : List (α × UInt8)) (d : String) (opacity size offX offY outSize : α)
    (circles : List (Circle α)) (cs : List (Call α))
    (h : (parsePath adjs d opacity size offX offY outSize circles).2 = .ok cs) :
    (parsePath adjs d opacity size offX offY outSize circles).1 = (opacityDecision adjs opacity).1 ∧
    ∃ body, cs = (opacityDecision adjs opacity).2.2 ++ body ++ [.closeEnd] ∧
      ∀ c ∈ body, bodyCall (opacityDecision adjs opacity).2.1 c = true :=
  MdG.opacity_registers adjs d opacity size offX offY outSize circles cs h

/-- Clause "circles to two half-turn arcs appended to the first path": after the path data's calls come,
    per circle, a move to `(cx − r, cy)` (normalised; `startPath` only if the path had no data and this is
    its first circle, otherwise close-and-move) and exactly the two relative arcs
    `(r, r, 0, false, true, +2r, 0)`, `(r, r, 0, false, true, −2r, 0)` (`MdG.circleCalls`), then the one
    `closeEnd`. -/
theorem circles_two_arcs (adjs : List (α × UInt8)) (d : String) (opacity size offX offY outSize : α)
    (circles : List (Circle α)) (cs : List (Call α))
    (h : (parsePath adjs d opacity size offX offY outSize circles).2 = .ok cs) :
    let dec := opacityDecision adjs opacity
    ∃ pcs, (if d = "" then pcs = [] else parsePathData d dec.2.1 size offX offY outSize = .ok pcs) ∧
      cs = dec.2.2 ++ pcs ++
        (match circles with
         | [] => []
         | c :: rest => circleCalls size offX offY outSize dec.2.1 (decide (d = "")) c ++
             rest.flatMap (circleCalls size offX offY outSize dec.2.1 false)) ++ [.closeEnd] :=
  MdG.circles_two_arcs adjs d opacity size offX offY outSize circles cs h

/-- what one circle contributes -/
theorem circle_calls (size offX offY outSize : α) (adj : UInt8) (needStart : Bool) (c : Circle α) :
    circleCalls size offX offY outSize adj needStart c =
      (let cx := c.cx * outSize / size - (outSize / Arith.ofInt 2 + offX)
       let cy := c.cy * outSize / size - (outSize / Arith.ofInt 2 + offY)
       let r := c.r * outSize / size
       [if needStart then Call.startPath adj (cx - r) cy else Call.d2 .Y (cx - r) cy,
        .arc true r r (Arith.ofInt 0) false true (Arith.ofInt 2 * r) (Arith.ofInt 0),
        .arc true r r (Arith.ofInt 0) false true (Arith.ofInt (-2) * r) (Arith.ofInt 0)]) := rfl
end

-- non-vacuity of `opacity_registers` / `circles_two_arcs`: a path without data and one circle, opacity 1/2
example : (Md.parsePath (α := ℚ) [] "" (1 / 2) 24 0 0 48 [⟨12, 12, 6⟩]).2 =
    .ok ([.setCReg 1 false (Color.blendColor (Arith.toUInt8 ((1 / 2 : ℚ) * Arith.ofInt 255)) 0x7f 0x80)] ++ [] ++
      MdG.circleCalls 24 0 0 48 1 true ⟨12, 12, 6⟩ ++ [.closeEnd]) := by
  rw [MdG.parsePath_eq]
  have h : MdG.opacityDecision ([] : List (ℚ × UInt8)) (1 / 2) =
      ([(1 / 2, 1)], 1, [.setCReg 1 false (Color.blendColor (Arith.toUInt8 ((1 / 2 : ℚ) * Arith.ofInt 255)) 0x7f 0x80)]) := by
    rw [MdG.opacity_new] <;> simp [RatInst.feq_eq]
  simp only [h, ↓reduceIte, MdG.circ_cons, MdG.circ_nil, List.append_nil]

/-- at exact arithmetic the two arcs go from the circle's leftmost point to its rightmost and back -/
theorem circle_endpoints (cx r : ℚ) :
    (cx - r) + (Arith.ofInt 2 : ℚ) * r = cx + r ∧ (cx + r) + (Arith.ofInt (-2) : ℚ) * r = cx - r :=
  MdG.circle_endpoints cx r

/-! ## parsing: the generator's `SetPathData` -/
section parsing
open Spec.PathData PathExamples
variable {α : Type} [Arith α]

/-- Clause "for well-formed SVG path data in the dialect [the generator] supports, the path-data method
    emits exactly the operations spelled by the path (the first move starts the path with the given register
    adjustment, later moves close-and-move, a verb's operand groups may repeat without restating the verb,
    the path is ended exactly once) with coordinates transformed by the configured … transform, arc flags
    unchanged and rotation converted from degrees to turns" — canonical concrete syntax (`render`: verb
    letter, numerals each followed by one space, final `z`).  `spelled` (Ivg/Spec/PathData.lean): the first
    group of the first `M`/`m` is `StartPath adj` at the fully transformed point (a leading `m` is absolute,
    SVG 1.1 §8.3.2), further groups of a move are line-tos (`L` after `M`, `l` after `m`), a later move's
    first group is close-and-move, every group of every other verb is one call (`Spec.PathData.draw`),
    one `ClosePathEndPath` at the end; operands through `normalizeArgs` (see `normalize_abs_rel`). -/
theorem setPathData_render (ts : List (Aff3 α)) (adj : UInt8) (cmds : List (Cmd Tok)) (hwf : WellFormed cmds) :
    setPathData ts (render cmds) adj = .ok (spelled adj ts (cmds.map (Cmd.map Tok.value))) :=
  PathParse.setPathData_render ts adj cmds hwf
example : WellFormed exB ∧ render exB = "M1 2 3 4 5 6 C1 2 3 4 5 6 7 8 9 10 11 12 z" := by decide

/-- … the same for the general concrete syntax `renderC`: every numeral (`[+-]? digits [. digits]` with at
    least one digit: `5`, `-5`, `+5`, `1.25`, `.5`, `5.`) is followed by its own run of spaces and commas,
    which may be EMPTY where the next numeral delimits itself (`1-2`, `1.5.5` = `1.5 .5`) or a verb letter
    follows.  `WellFormedC` (decidable) is the dialect: known verbs, groups of the verb's operand count
    (≥ 1; none for `z`/`Z`), first command a move, numerals delimited (`adjOK`).  Outside it, on purpose:
    white space between a verb letter and its first numeral, exponents, compact arc flags — see the
    findings below. -/
theorem setPathData_renderC (ts : List (Aff3 α)) (adj : UInt8) (cs : List (Cmd CTok)) (hwf : WellFormedC cs) :
    setPathData ts (renderC cs) adj = .ok (spelled adj ts (cs.map (Cmd.map fun t => t.tok.value))) :=
  PathParse.setPathData_renderC ts adj cs hwf
example : WellFormedC exA ∧
    renderC exA = "m1,2-3.5.5a1 2 90 0 1 -.5+4 5. 6 7 8 9 10 11zM1 2 3 4H5z" := by decide

/-- Clauses "the path is ended exactly once" and "the first move starts the path with the given register
    adjustment", for EVERY input string: a successful `SetPathData(d, adj)` made `StartPath(adj, x, y)`,
    then drawing calls only, then `ClosePathEndPath` — except for `d = "z"`, where it made the
    `ClosePathEndPath` alone. -/
theorem setPathData_shape (ts : List (Aff3 α)) (d : String) (adj : UInt8) (cs : List (Call α))
    (h : setPathData ts d adj = .ok cs) :
    (d = "z" ∧ cs = [.closeEnd]) ∨
    ∃ x y body, cs = .startPath adj x y :: body ++ [.closeEnd] ∧ ∀ c ∈ body, isDrawing c = true :=
  PathShape.setPathData_shape ts d adj cs h

/-- `ends_once`: exactly one `ClosePathEndPath`, and it is the last call -/
theorem ends_once (ts : List (Aff3 α)) (d : String) (adj : UInt8) (cs : List (Call α))
    (h : setPathData ts d adj = .ok cs) : cs.countP isEnd = 1 ∧ cs.getLast? = some .closeEnd :=
  PathShape.ends_once ts d adj cs h

/-- `starts_once`: (unless the data is the bare `"z"`) exactly one `StartPath`; it is the first call and
    carries the given adjustment -/
theorem starts_once (ts : List (Aff3 α)) (d : String) (adj : UInt8) (cs : List (Call α))
    (h : setPathData ts d adj = .ok cs) (hd : d ≠ "z") :
    cs.countP isStart = 1 ∧ ∃ x y, cs.head? = some (.startPath adj x y) :=
  PathShape.starts_once ts d adj cs h hd

/-- no other call kinds: every call is a drawing call, the start or the end -/
theorem only_drawing_between (ts : List (Aff3 α)) (d : String) (adj : UInt8) (cs : List (Call α))
    (h : setPathData ts d adj = .ok cs) :
    ∀ c ∈ cs, isDrawing c = true ∨ isStart c = true ∨ isEnd c = true :=
  PathShape.only_drawing_between ts d adj cs h

/-- errors: the result is EITHER an error OR the calls (by construction of the model: the Go method has by
    then made the calls of the commands before the offending one — the model does not describe those) … -/
theorem error_no_calls (ts : List (Aff3 α)) (d : String) (adj : UInt8) (e : GenErr)
    (h : setPathData ts d adj = .error e) : ∀ cs, setPathData ts d adj ≠ .ok cs :=
  PathShape.error_no_calls ts d adj e h

/-- … an unknown verb letter at the start of the data is `UnrecognizedPathDataVerb`, whatever follows -/
theorem unknown_first_verb (ts : List (Aff3 α)) (adj : UInt8) (c : Char) (rest : List Char)
    (hc : verbArgCount c = none) :
    setPathData ts (String.ofList (c :: rest)) adj = .error (.unrecognizedPathDataVerb c) :=
  PathShape.unknown_first_verb ts adj c rest hc
example : verbArgCount 'X' = none := by decide

/-- … and a missing operand — fewer numerals than the verb takes before the next verb letter or the final
    `z` — in the first command is an error (ParseFloat's, or Go's index panic: `malformed`) -/
theorem missing_operand_first (ts : List (Aff3 α)) (adj : UInt8) (v : Char) (n : Nat)
    (hv : verbArgCount v = some n) (g : List CTok) (hg : ∀ t ∈ g, PathParse.TokOK t) (hch : chainOK g = true)
    (hshort : g.length < n) (x : Char) (X : List Char) (hx : verbArgCount x ≠ none) :
    ∃ e, setPathData ts (String.ofList (v :: (g.flatMap CTok.render ++ x :: X))) adj = .error e :=
  PathParse.missing_operand_first ts adj v n hv g hg hch hshort x X hx
-- `M1 L3 4z`
example : verbArgCount 'M' = some 2 ∧ (∀ t ∈ [nat 1], PathParse.TokOK t) ∧ chainOK [nat 1] = true ∧
    [nat 1].length < 2 ∧ verbArgCount 'L' ≠ none ∧
    String.ofList ('M' :: ([nat 1].flatMap CTok.render ++ 'L' :: "3 4z".toList)) = "M1 L3 4z" := by
  refine ⟨rfl, ?_, rfl, by decide, by decide, by decide⟩
  intro t ht; simp only [List.mem_singleton] at ht; subst ht; exact ⟨by decide, by decide⟩

end parsing

/-! ### concrete strings at the bit-exact float32 instance (kernel evaluation of the model, independent
of the theorems above) -/
section concrete
open Num Spec.PathData PathExamples

-- decidable equality of results (`PathExamples.exceptDecEq`), for the evaluations below
attribute [local instance] exceptDecEq

-- a relative move as first command (absolute start, then `l`), commas, self-delimiting numerals, `.5`, `5.`,
-- an arc (90° ↦ 0.25 turns, flags 0/1 ↦ false/true) with an implicitly repeated group (7° ↦ 7/360),
-- `z` in the middle, `M` followed by two groups (close-and-move, then `L`), `H`
set_option maxRecDepth 100000 in
example : setPathData (α := F32) [] "m1,2-3.5.5a1 2 90 0 1 -.5+4 5. 6 7 8 9 10 11zM1 2 3 4H5z" 3 =
    .ok [.startPath 3 ⟨0x3f800000⟩ ⟨0x40000000⟩,                      -- StartPath(3, 1, 2)
         .d2 .l ⟨0xc0600000⟩ ⟨0x3f000000⟩,                            -- RelLineTo(-3.5, .5)
         .arc true ⟨0x3f800000⟩ ⟨0x40000000⟩ ⟨0x3e800000⟩ false true ⟨0xbf000000⟩ ⟨0x40800000⟩,
         .arc true ⟨0x40a00000⟩ ⟨0x40c00000⟩ ⟨1017072117⟩ true true ⟨0x41200000⟩ ⟨0x41300000⟩,
         .d2 .Y ⟨0x3f800000⟩ ⟨0x40000000⟩,                            -- ClosePathAbsMoveTo(1, 2)
         .d2 .L ⟨0x40400000⟩ ⟨0x40800000⟩,                            -- AbsLineTo(3, 4)
         .d1 .H ⟨0x40a00000⟩,                                         -- AbsHLineTo(5)
         .closeEnd] := by decide +kernel

-- the same string through the theorem
example (ts : List (Aff3 F32)) :
    setPathData ts "m1,2-3.5.5a1 2 90 0 1 -.5+4 5. 6 7 8 9 10 11zM1 2 3 4H5z" 3 =
      .ok (spelled 3 ts (exA.map (Cmd.map fun t => t.tok.value))) := by
  rw [← setPathData_renderC ts 3 exA (by decide)]; rfl

-- `M` followed by several groups and an implicitly repeated cubic, under scale 2 / translate −32
set_option maxRecDepth 100000 in
example : setPathData (α := F32) [scale2 (F32.ofInt 2) (F32.ofInt 2), translate (F32.ofInt (-32)) (F32.ofInt (-32))]
      "M1 2 3 4 5 6 C1 2 3 4 5 6 7 8 9 10 11 12 z" 0 =
    .ok [.startPath 0 (F32.ofInt (-30)) (F32.ofInt (-28)),
         .d2 .L (F32.ofInt (-26)) (F32.ofInt (-24)), .d2 .L (F32.ofInt (-22)) (F32.ofInt (-20)),
         .d6 .C (F32.ofInt (-30)) (F32.ofInt (-28)) (F32.ofInt (-26)) (F32.ofInt (-24)) (F32.ofInt (-22)) (F32.ofInt (-20)),
         .d6 .C (F32.ofInt (-18)) (F32.ofInt (-16)) (F32.ofInt (-14)) (F32.ofInt (-12)) (F32.ofInt (-10)) (F32.ofInt (-8)),
         .closeEnd] := by decide +kernel

-- errors: a missing operand before a verb letter, a letter that is no verb in the middle, white space
-- after a verb letter (outside the dialect), the data not ending in `z`
set_option maxRecDepth 100000 in
example : setPathData (α := F32) [] "M1 2L3L4 5z" 0 = .error .parseFloat ∧
    setPathData (α := F32) [] "M1 2X3 4z" 0 = .error .parseFloat ∧
    setPathData (α := F32) [] "M 1 2z" 0 = .error .parseFloat ∧
    setPathData (α := F32) [] "M1 2L3z" 0 = .error .malformed ∧
    setPathData (α := F32) [] "M1 2" 0 = .error .malformed := by decide +kernel

end concrete

/-! ## parsing: the converter's `ParsePathData` / `ParsePath` -/
section mdparsing
open Spec.PathData PathExamples Md MdG
variable {α : Type} [Arith α]

/-- Clause "… and the Material Design converter emit exactly the operations spelled by the path" —
    `ParsePathData` on the converter's dialect `WellFormedMd` (decidable): first command an absolute `M`
    at the very start of the data, ONE operand group per `M`/`m`, no arcs, SPACES only as separators (any
    number, also after a verb letter, none where the next numeral delimits itself), the data terminated by
    `z` (trimmed).  The calls are `spelledMd`: `StartPath(adj, …)` for the first move, then one drawing
    call per operand group (implicit repetition included), `z`/`Z` in the middle nothing, operands read as
    `ParseFloat(·, 32)` and mapped by the converter's coordinate map (`md_normalize`).  The end of the
    path is `ParsePath`'s (next theorem). -/
theorem parsePathData_renderMd (adj : UInt8) (size offX offY outSize : α) (cs : List MdCmd)
    (hwf : WellFormedMd cs) :
    parsePathData (renderMd cs) adj size offX offY outSize =
      .ok (spelledMd adj size offX offY outSize (cs.map fun c => c.cmd.map fun t => t.tok.value32)) :=
  MdParse.parsePathData_renderMd adj size offX offY outSize cs hwf
example : WellFormedMd exM ∧ renderMd exM = "M 25 26l1-2-3-4  H30z M31 32 zz" := by decide

/-- … the same for data without the terminating `z` (when it does not end in a `z` command) -/
theorem parsePathData_renderMdOpen (adj : UInt8) (size offX offY outSize : α) (cs : List MdCmd)
    (hwf : WellFormedMd cs) (hz : (renderMdCmds cs).getLast? ≠ some 'z') :
    parsePathData (renderMdOpen cs) adj size offX offY outSize =
      .ok (spelledMd adj size offX offY outSize (cs.map fun c => c.cmd.map fun t => t.tok.value32)) :=
  MdParse.parsePathData_renderMdOpen adj size offX offY outSize cs hwf hz
example : WellFormedMd (exM.take 3) ∧ (renderMdCmds (exM.take 3)).getLast? ≠ some 'z' := by decide

/-- … and the whole of `ParsePath` on such data: the opacity decision's register write (if any), the calls
    spelled by the path data with that decision's ADJ, per circle a close-and-move and the two half-turn
    arcs, and `ClosePathEndPath` exactly once, last. -/
theorem parsePath_renderMd (adjs : List (α × UInt8)) (cs : List MdCmd) (hwf : WellFormedMd cs)
    (opacity size offX offY outSize : α) (circles : List (Circle α)) :
    parsePath adjs (renderMd cs) opacity size offX offY outSize circles =
      (let dec := opacityDecision adjs opacity
       (dec.1, .ok (dec.2.2 ++
          spelledMd dec.2.1 size offX offY outSize (cs.map fun c => c.cmd.map fun t => t.tok.value32) ++
          circles.flatMap (circleCalls size offX offY outSize dec.2.1 false) ++ [.closeEnd]))) :=
  MdParse.parsePath_renderMd adjs cs hwf opacity size offX offY outSize circles

end mdparsing

section mdconcrete
open Num Spec.PathData PathExamples
attribute [local instance] exceptDecEq

-- converter at float32, size 24 → outSize 48 (scale 2, absolute −24): spaces after the verb, numerals
-- delimiting themselves, implicit repetition of `l`, `z` in the middle, a later `M` (close-and-move)
set_option maxRecDepth 100000 in
example : Md.parsePathData (α := F32) "M 25 26l1-2-3-4  H30z M31 32 zz" 3 (F32.ofInt 24) (F32.ofInt 0) (F32.ofInt 0)
      (F32.ofInt 48) =
    .ok [.startPath 3 (F32.ofInt 26) (F32.ofInt 28), .d2 .l (F32.ofInt 2) (F32.ofInt (-4)),
         .d2 .l (F32.ofInt (-6)) (F32.ofInt (-8)), .d1 .H (F32.ofInt 36),
         .d2 .Y (F32.ofInt 38) (F32.ofInt 40)] := by decide +kernel

-- FINDINGS (converter, confirmed on the Go code): further groups of a move are re-emitted as
-- close-and-move where SVG spells line-tos; a leading relative move, or a space before the first `M`,
-- yields no `StartPath` at all
set_option maxRecDepth 100000 in
example :
    Md.parsePathData (α := F32) "M1 2 3 4z" 0 (F32.ofInt 1) (F32.ofInt 0) (F32.ofInt 0) (F32.ofInt 0) =
      .ok [.startPath 0 (F32.ofInt 0) (F32.ofInt 0), .d2 .Y (F32.ofInt 0) (F32.ofInt 0)] ∧
    Md.parsePathData (α := F32) "m1 2 3 4z" 0 (F32.ofInt 1) (F32.ofInt 0) (F32.ofInt 0) (F32.ofInt 0) =
      .ok [.d2 .y (F32.ofInt 0) (F32.ofInt 0), .d2 .y (F32.ofInt 0) (F32.ofInt 0)] ∧
    Md.parsePathData (α := F32) " M1 2z" 0 (F32.ofInt 1) (F32.ofInt 0) (F32.ofInt 0) (F32.ofInt 0) =
      .ok [.d2 .Y (F32.ofInt 0) (F32.ofInt 0)] := by decide +kernel

end mdconcrete

/-!
## Not proved in this file

* Parsing, generator: the round trip is proved for the dialect `WellFormedC` and no further.  Known and
  accepted: the data must end in a lower-case `z`; a `z`/`Z` in the middle is a no-op for the generator
  (`spelled` gives it no call; for SVG the pen returns to the sub-path start, which matters only if a
  drawing verb rather than a move follows).  FINDINGS — well-formed SVG path data on which `SetPathData`
  (model and Go code alike, checked on both) does not make the spelled operations:
    - white space (or a comma) between a verb letter and its first numeral: `"M 1 2 L 3 4 z"` returns the
      `strconv.ParseFloat` error for `" 1"` (no call) where the path spells StartPath(1,2), AbsLineTo(3,4), end;
    - white space after a `z` in the middle: `"M1 2 z M3 4z"` never terminates in Go (the model: `malformed`);
    - compact arc flags `"M1 2a1 2 90 01 3 4z"` (= flags 0 and 1): Go panics (index out of range), model `malformed`;
    - exponents `"M1e1 2z"`: ParseFloat error for `"e1"`;
    - other white space than blanks (new line, tab) between numerals: ParseFloat error;
    - the empty path `"z"` makes a `ClosePathEndPath` without any `StartPath` (`setPathData_shape`).
  Model vs Go outside the dialect: for a first command with ONE operand (`"H5z"`) Go calls
  `StartPath(adj, 5, 0)` (stale second operand); the model returns `UnrecognizedPathDataVerb('@')`.
* Parsing, generator, errors: `unknown_first_verb`, `missing_operand_first` and `error_no_calls` are general
  (and `PathParse.scanArgs_missing`: the scan of a short group fails wherever it occurs); an unknown letter
  or a missing operand BEHIND a well-formed prefix of commands is shown to be an error on examples only (the
  letter is then taken for an implicit repetition and the error is ParseFloat's or an index panic).
* Parsing, converter: the round trip is proved for `WellFormedMd` and no further.  FINDINGS (model and Go
  code alike) — well-formed SVG path data on which `ParsePathData` does not make the spelled operations:
    - `M`/`m` followed by several operand groups: `"M1 2 3 4z"` makes StartPath(1,2), ClosePathAbsMoveTo(3,4)
      where SVG spells StartPath(1,2), AbsLineTo(3,4) (implicit line-to); likewise `m` re-emits
      ClosePathRelMoveTo for every group;
    - a relative move as first command: `"m1 2 3 4z"` makes ClosePathRelMoveTo twice and NO StartPath;
    - a space before the first `M`: `" M1 2z"` makes ClosePathAbsMoveTo(1,2) and NO StartPath;
    - commas are not separators (`Fscanf` fails, the error is ignored and a stale operand used; model: `malformed`);
    - no arcs (`A`/`a`: "unknown opcode").
* Rounding: `normalize` (generator and converter), `Concat` of one and of two transforms, and the arc's
  `rot/360` ARE bounded at float32 (section "transforms at float32"), for scale-and-translate transforms and
  operands in the stated ranges (`2^40`; converter `2^20`).  Not covered: `Concat` of three or more general
  transforms (iterate the one-step bound `Xf32.compF_err`; the float product is not
  associative), non-finite operands, magnitudes above the ranges.  The bounds are relative to the SUM of the
  magnitudes of the summands (`|s·x| + |t|`), not to the result: an absolute coordinate that the translation
  brings close to zero keeps the absolute accuracy of `s·x` and `t`.  For the converter's circles the two maps
  are bounded (`md_circle_f32`) but not the last subtraction `cx − r` of the start point.  The parsing theorems
  hold for every number type, operands being `Arith.ofDecimalVia64` (generator) / `Arith.ofDecimal` (converter)
  of the numeral — at float32 the correctly rounded value (via float64 for the generator).
* `normalize_abs_rel` is stated for transforms whose concatenation has zero off-diagonal entries
  (scale-and-translate), which is what the property text names; for a general matrix the generator's
  "scale" for relative operands is the diagonal of the matrix, which is not the linear part.
* `ParsePath` on a path-data error: the Go code has by then already made the `SetCReg` call; the model
  returns only the error (`(adjs', .error e)`), so "no call on error" is neither claimed nor true.
-/

end Ivg.Props.C20

#obligations C20 [Ivg.Props.C20.concat_is_composition,
  Ivg.Props.C20.concat_pair,
  Ivg.Props.C20.concat_scale_translate,
  Ivg.Props.C20.normalize_abs_rel,
  Ivg.Props.C20.xf_eq,
  Ivg.Props.C20.normalize_hv,
  Ivg.Props.C20.normalize_no_transform,
  Ivg.Props.C20.emit_arc,
  Ivg.Props.C20.md_normalize,
  Ivg.Props.C20.md_normalize_hv,
  Ivg.Props.C20.md_map_eq,
  Ivg.Props.C20.normalize_abs_f32,
  Ivg.Props.C20.near_eq,
  Ivg.Props.C20.near_mag,
  Ivg.Props.C20.normalize_hv_f32,
  Ivg.Props.C20.emit_arc_f32,
  Ivg.Props.C20.concat_single_f32,
  Ivg.Props.C20.concat_scale_translate_f32,
  Ivg.Props.C20.concat_pair_f32,
  Ivg.Props.C20.concat_pair_exact,
  Ivg.Props.C20.md_normalize_struct,
  Ivg.Props.C20.md_normalize_f32,
  Ivg.Props.C20.md_circle_f32,
  Ivg.Props.C20.opacity_decision,
  Ivg.Props.C20.opacity_table,
  Ivg.Props.C20.opacity_registers,
  Ivg.Props.C20.circles_two_arcs,
  Ivg.Props.C20.circle_calls,
  Ivg.Props.C20.circle_endpoints,
  Ivg.Props.C20.setPathData_render,
  Ivg.Props.C20.setPathData_renderC,
  Ivg.Props.C20.setPathData_shape,
  Ivg.Props.C20.ends_once,
  Ivg.Props.C20.starts_once,
  Ivg.Props.C20.only_drawing_between,
  Ivg.Props.C20.error_no_calls,
  Ivg.Props.C20.unknown_first_verb,
  Ivg.Props.C20.missing_operand_first,
  Ivg.Props.C20.parsePathData_renderMd,
  Ivg.Props.C20.parsePathData_renderMdOpen,
  Ivg.Props.C20.parsePath_renderMd,
  Ivg.Gen.Tie.generator_fields_tie,
  Ivg.Gen.Tie.mdPath_fields_tie,
  Ivg.Gen.Tie.mdCircle_fields_tie,
  -- regenerated code (translator, Ivg/Gen/Code) = model, for all inputs: Aff3
  Ivg.Gen.Tie.mulAff3_code_tie,
  Ivg.Gen.Tie.mulAff3_code_tie',
  Ivg.Gen.Tie.translate_code_tie,
  Ivg.Gen.Tie.scale_code_tie,
  -- regenerated code with loops/recursion (translator, fuel) = model, for all inputs and sufficient fuel: Concat
  Ivg.Gen.Tie.concat_code_tie,
  Ivg.Gen.Tie.concat_code_tie_model,
  Ivg.Gen.Tie.generator_SetTransform_code_tie,
  Ivg.Gen.Tie.normalize_code_tie,
  Ivg.Gen.Tie.mdicons_normalize_code_tie,
  Ivg.Gen.Tie.mdicons_normalize_code_tie_take]
