import Ivg.Lemmas.GenQ
import Ivg.Gen.Tie.GeneratorFields
import Ivg.Gen.Tie.MdFields
import Ivg.Obligations
/-!
# C20 — SVG path data in the generator, transforms, and the Material-Design converter

Property text (the part settled here): "… coordinates transformed by the configured scale-and-translate
transform: absolute operands get the full transform, relative operands the scale only, arc radii the
scale, arc flags unchanged and rotation converted from degrees to turns; concatenating transforms is
matrix composition. The converter maps a path opacity to a blend of transparent with the first palette
colour, reusing one register per distinct opacity, and circles to two half-turn arcs appended to the
first path."

Models: `Ivg/Model/Generator.lean` (`concat`, `mulAff3`, `normalizeArgs`, `emitVerb`; Go:
`/repo/generate/generate.go`) and `Ivg/Model/MdIcons.lean` (`normalizeArgs`, `parsePath`; Go:
`/repo/mdicons/parsepath.go`, `parsepathdata.go`).  Arithmetic facts are proved for the models
instantiated at EXACT arithmetic (`ℚ`); structural facts for every number type.
The parsing clauses of C20 (tokenising the path string, implicit verb repetition) are not in this file.
-/
namespace Ivg.Props.C20
open Ivg Gen GenQ

/-! ## concatenating transforms is matrix composition (exact arithmetic) -/

/-- Clause "concatenating transforms is matrix composition": applying `Concat(l…)` to a point is applying
    the transforms of `l` one after the other, first to last (`MulAff3` applies one matrix). -/
theorem concat_is_composition (l : List (Aff3 ℚ)) (x y : ℚ) :
    mulAff3 x y (concat l) = l.foldl (fun p a => mulAff3 p.1 p.2 a) (x, y) :=
  GenQ.concat_is_composition l x y

/-- … in particular `Concat(a, b)` is "first `a`, then `b`", `Concat()` is the identity map, and
    concatenation of lists is composition of the concatenations. -/
theorem concat_pair (a b : Aff3 ℚ) (x y : ℚ) :
    mulAff3 x y (concat [a, b]) = mulAff3 (mulAff3 x y a).1 (mulAff3 x y a).2 b ∧
    mulAff3 x y (concat []) = (x, y) ∧
    (∀ l₁ l₂ : List (Aff3 ℚ), mulAff3 x y (concat (l₁ ++ l₂)) =
      mulAff3 (mulAff3 x y (concat l₁)).1 (mulAff3 x y (concat l₁)).2 (concat l₂)) :=
  ⟨GenQ.concat_pair a b x y, mulAff3_ident x y, fun l₁ l₂ => concat_append l₁ l₂ x y⟩

/-- scale followed by translate is the scale-and-translate matrix the theorems below are about -/
theorem concat_scale_translate (sx sy tx ty : ℚ) :
    concat [scale2 sx sy, translate tx ty] = ⟨sx, 0, tx, 0, sy, ty⟩ :=
  GenQ.concat_scale_translate sx sy tx ty

/-! ## `normalize` of the generator (exact arithmetic) -/

/-- Clause "absolute operands get the full transform, relative operands the scale only, arc radii the
    scale, arc flags unchanged [and rotation passed on]": for a non-empty transform list whose
    concatenation is the scale-and-translate matrix `[sx 0 tx; 0 sy ty]`, every operand pair `(x,y)` of a
    2-, 4- or 6-operand verb and the end point of an arc become `xf … rel x y` =
    `(sx·x+tx, sy·y+ty)` for an absolute verb, `(sx·x, sy·y)` for a relative (lower-case) one; the arc's
    radii become `(sx·rx, sy·ry)` and its rotation and two flags are untouched. -/
theorem normalize_abs_rel (ts : List (Aff3 ℚ)) (hne : ts ≠ []) (sx sy tx ty : ℚ)
    (h : concat ts = ⟨sx, 0, tx, 0, sy, ty⟩) (verb : Char) :
    let f := xf sx sy tx ty (isLower verb)
    (∀ a0 a1, normalizeArgs [a0, a1] 2 verb ts = [(f a0 a1).1, (f a0 a1).2]) ∧
    (∀ a0 a1 a2 a3, normalizeArgs [a0, a1, a2, a3] 4 verb ts =
      [(f a0 a1).1, (f a0 a1).2, (f a2 a3).1, (f a2 a3).2]) ∧
    (∀ a0 a1 a2 a3 a4 a5, normalizeArgs [a0, a1, a2, a3, a4, a5] 6 verb ts =
      [(f a0 a1).1, (f a0 a1).2, (f a2 a3).1, (f a2 a3).2, (f a4 a5).1, (f a4 a5).2]) ∧
    (∀ rx ry rot la sw x y, normalizeArgs [rx, ry, rot, la, sw, x, y] 7 verb ts =
      [sx * rx, sy * ry, rot, la, sw, (f x y).1, (f x y).2]) :=
  GenQ.normalize_abs_rel ts hne sx sy tx ty h verb
example : [scale2 (2 : ℚ) 3, translate 5 7] ≠ [] ∧
    concat [scale2 (2 : ℚ) 3, translate 5 7] = ⟨2, 0, 5, 0, 3, 7⟩ :=
  ⟨by simp, GenQ.concat_scale_translate 2 3 5 7⟩
/-- what `xf` is -/
theorem xf_eq (sx sy tx ty x y : ℚ) :
    xf sx sy tx ty false x y = (sx * x + tx, sy * y + ty) ∧ xf sx sy tx ty true x y = (sx * x, sy * y) :=
  ⟨rfl, rfl⟩

/-- … single-operand verbs: `H ↦ sx·x+tx`, `h ↦ sx·x`, `V ↦ sy·y+ty`, `v ↦ sy·y`. -/
theorem normalize_hv (ts : List (Aff3 ℚ)) (hne : ts ≠ []) (sx sy tx ty : ℚ)
    (h : concat ts = ⟨sx, 0, tx, 0, sy, ty⟩) (a : ℚ) :
    normalizeArgs [a] 1 'H' ts = [sx * a + tx] ∧ normalizeArgs [a] 1 'h' ts = [sx * a] ∧
    normalizeArgs [a] 1 'V' ts = [sy * a + ty] ∧ normalizeArgs [a] 1 'v' ts = [sy * a] :=
  GenQ.normalize_hv ts hne sx sy tx ty h a

/-- … and without a configured transform the operands are passed on unchanged (every number type). -/
theorem normalize_no_transform {α : Type} [Arith α] (args : List α) (n : Nat) (verb : Char) :
    normalizeArgs args n verb [] = args := GenQ.normalize_no_transform args n verb

/-- Clause "rotation converted from degrees to turns": the arc call made for `A`/`a` carries `rot / 360`;
    the flags are the `≠ 0` tests of their operands; radii and end point are as normalised. -/
theorem emit_arc (adj : UInt8) (rx ry rot la sw x y : ℚ) :
    emitVerb 'A' adj [rx, ry, rot, la, sw, x, y] =
      .ok [.arc false rx ry (rot / 360) (!decide (la = 0)) (!decide (sw = 0)) x y] ∧
    emitVerb 'a' adj [rx, ry, rot, la, sw, x, y] =
      .ok [.arc true rx ry (rot / 360) (!decide (la = 0)) (!decide (sw = 0)) x y] :=
  GenQ.emit_arc adj rx ry rot la sw x y

/-! ## the converter's coordinate map (exact arithmetic) -/

/-- The converter scales by `outSize/size` (`mdRel`); absolute coordinates are then moved by
    `−outSize/2 − offset` (`mdAbs`, x operands with the x offset, y operands with the y offset). -/
theorem md_normalize (size offX offY outSize : ℚ) (op : Char) :
    let X := MdG.mdAbs size outSize offX
    let Y := MdG.mdAbs size outSize offY
    let R := MdG.mdRel size outSize
    (∀ x y, Md.normalizeArgs [x, y] 2 op size offX offY outSize false = [X x, Y y]) ∧
    (∀ x y, Md.normalizeArgs [x, y] 2 op size offX offY outSize true = [R x, R y]) ∧
    (∀ x1 y1 x y, Md.normalizeArgs [x1, y1, x, y] 4 op size offX offY outSize false = [X x1, Y y1, X x, Y y]) ∧
    (∀ x1 y1 x y, Md.normalizeArgs [x1, y1, x, y] 4 op size offX offY outSize true = [R x1, R y1, R x, R y]) ∧
    (∀ x1 y1 x2 y2 x y, Md.normalizeArgs [x1, y1, x2, y2, x, y] 6 op size offX offY outSize false =
      [X x1, Y y1, X x2, Y y2, X x, Y y]) ∧
    (∀ x1 y1 x2 y2 x y, Md.normalizeArgs [x1, y1, x2, y2, x, y] 6 op size offX offY outSize true =
      [R x1, R y1, R x2, R y2, R x, R y]) :=
  MdG.md_normalize size offX offY outSize op

theorem md_normalize_hv (size offX offY outSize a : ℚ) :
    Md.normalizeArgs [a] 1 'H' size offX offY outSize false = [MdG.mdAbs size outSize offX a] ∧
    Md.normalizeArgs [a] 1 'V' size offX offY outSize false = [MdG.mdAbs size outSize offY a] ∧
    Md.normalizeArgs [a] 1 'h' size offX offY outSize true = [MdG.mdRel size outSize a] ∧
    Md.normalizeArgs [a] 1 'v' size offX offY outSize true = [MdG.mdRel size outSize a] :=
  MdG.md_normalize_hv size offX offY outSize a

theorem md_map_eq (size outSize off a : ℚ) :
    MdG.mdRel size outSize a = a * (outSize / size) ∧
    MdG.mdAbs size outSize off a = a * (outSize / size) - outSize / 2 - off := ⟨rfl, rfl⟩

/-! ## opacity registers and circles (every number type) -/
section
variable {α : Type} [Arith α]
open Md MdG

/-- Clause "maps a path opacity to a blend of transparent with the first palette colour, reusing one
    register per distinct opacity" — the decision `ParsePath` takes (`MdG.opacityDecision`, the new
    opacity map, the ADJ used, the calls made first):
    opacity 1 ↦ ADJ 0, nothing written;  a known opacity ↦ its recorded ADJ, nothing written;  a new
    opacity ↦ the next ADJ `len+1`, recorded, and ONE `setCReg adj false (blend t 0x7f 0x80)` with
    `t = uint8(opacity·255)`, 0x7f = transparent, 0x80 = first custom palette colour. -/
theorem opacity_decision (adjs : List (α × UInt8)) (opacity : α) :
    (Arith.feq opacity (Arith.ofInt 1) = true → opacityDecision adjs opacity = (adjs, 0, [])) ∧
    (Arith.feq opacity (Arith.ofInt 1) = false →
      (∀ p, adjs.find? (fun p => Arith.feq p.1 opacity) = some p → opacityDecision adjs opacity = (adjs, p.2, [])) ∧
      (adjs.find? (fun p => Arith.feq p.1 opacity) = none →
        opacityDecision adjs opacity =
          (adjs ++ [(opacity, UInt8.ofNat (adjs.length + 1))], UInt8.ofNat (adjs.length + 1),
           [.setCReg (UInt8.ofNat (adjs.length + 1)) false
             (Color.blendColor (Arith.toUInt8 (opacity * Arith.ofInt 255)) 0x7f 0x80)]))) :=
  ⟨opacity_one adjs opacity, fun h => ⟨fun p hp => opacity_known adjs opacity h p hp, opacity_new adjs opacity h⟩⟩

/-- … the map stays an allocation table (entry `k` holds ADJ `k+1`), so distinct recorded opacities have
    distinct registers … -/
theorem opacity_table (adjs : List (α × UInt8)) (opacity : α) (hwf : adjsWF adjs) :
    adjsWF (opacityDecision adjs opacity).1 := opacity_wf adjs opacity hwf
example : adjsWF ([] : List (ℚ × UInt8)) := fun k h => absurd h (Nat.not_lt_zero k)

/-- … and the whole of a successful `ParsePath` is `pre ++ body ++ [closeEnd]` with `(adjs', adj, pre)`
    the decision above, `adjs'` the map handed back, and `body` made of drawing calls and
    `startPath adj` only: no other register write, no other ADJ, and exactly one `closeEnd`, at the end. -/
theorem opacity_registers (adjs : List (α × UInt8)) (d : String) (opacity size offX offY outSize : α)
    (circles : List (Circle α)) (cs : List (Call α))
    (h : (parsePath adjs d opacity size offX offY outSize circles).2 = .ok cs) :
    (parsePath adjs d opacity size offX offY outSize circles).1 = (opacityDecision adjs opacity).1 ∧
    ∃ body, cs = (opacityDecision adjs opacity).2.2 ++ body ++ [.closeEnd] ∧
      ∀ c ∈ body, bodyCall (opacityDecision adjs opacity).2.1 c = true :=
  MdG.opacity_registers adjs d opacity size offX offY outSize circles cs h

/-- Clause "circles to two half-turn arcs appended to the first path": after the path data's calls come,
    per circle, a move to `(cx − r, cy)` (normalised; `startPath` only if the path had no data and this is
    its first circle, otherwise close-and-move) and exactly the two relative arcs
    `(r, r, 0, false, true, +2r, 0)`, `(r, r, 0, false, true, −2r, 0)` (`MdG.circleCalls`), then the one
    `closeEnd`. -/
theorem circles_two_arcs (adjs : List (α × UInt8)) (d : String) (opacity size offX offY outSize : α)
    (circles : List (Circle α)) (cs : List (Call α))
    (h : (parsePath adjs d opacity size offX offY outSize circles).2 = .ok cs) :
    let dec := opacityDecision adjs opacity
    ∃ pcs, (if d = "" then pcs = [] else parsePathData d dec.2.1 size offX offY outSize = .ok pcs) ∧
      cs = dec.2.2 ++ pcs ++
        (match circles with
         | [] => []
         | c :: rest => circleCalls size offX offY outSize dec.2.1 (decide (d = "")) c ++
             rest.flatMap (circleCalls size offX offY outSize dec.2.1 false)) ++ [.closeEnd] :=
  MdG.circles_two_arcs adjs d opacity size offX offY outSize circles cs h

/-- what one circle contributes -/
theorem circle_calls (size offX offY outSize : α) (adj : UInt8) (needStart : Bool) (c : Circle α) :
    circleCalls size offX offY outSize adj needStart c =
      (let cx := c.cx * outSize / size - (outSize / Arith.ofInt 2 + offX)
       let cy := c.cy * outSize / size - (outSize / Arith.ofInt 2 + offY)
       let r := c.r * outSize / size
       [if needStart then Call.startPath adj (cx - r) cy else Call.d2 .Y (cx - r) cy,
        .arc true r r (Arith.ofInt 0) false true (Arith.ofInt 2 * r) (Arith.ofInt 0),
        .arc true r r (Arith.ofInt 0) false true (Arith.ofInt (-2) * r) (Arith.ofInt 0)]) := rfl
end

-- non-vacuity of `opacity_registers` / `circles_two_arcs`: a path without data and one circle, opacity 1/2
example : (Md.parsePath (α := ℚ) [] "" (1 / 2) 24 0 0 48 [⟨12, 12, 6⟩]).2 =
    .ok ([.setCReg 1 false (Color.blendColor (Arith.toUInt8 ((1 / 2 : ℚ) * Arith.ofInt 255)) 0x7f 0x80)] ++ [] ++
      MdG.circleCalls 24 0 0 48 1 true ⟨12, 12, 6⟩ ++ [.closeEnd]) := by
  rw [MdG.parsePath_eq]
  have h : MdG.opacityDecision ([] : List (ℚ × UInt8)) (1 / 2) =
      ([(1 / 2, 1)], 1, [.setCReg 1 false (Color.blendColor (Arith.toUInt8 ((1 / 2 : ℚ) * Arith.ofInt 255)) 0x7f 0x80)]) := by
    rw [MdG.opacity_new] <;> simp [RatInst.feq_eq]
  simp only [h, ↓reduceIte, MdG.circ_cons, MdG.circ_nil, List.append_nil]

/-- at exact arithmetic the two arcs go from the circle's leftmost point to its rightmost and back -/
theorem circle_endpoints (cx r : ℚ) :
    (cx - r) + (Arith.ofInt 2 : ℚ) * r = cx + r ∧ (cx + r) + (Arith.ofInt (-2) : ℚ) * r = cx - r :=
  MdG.circle_endpoints cx r

/-!
## Not proved in this file

* The parsing clauses of C20 (verbs, implicit repetition, number tokens): other files.
* Rounding: `concat`, `normalize` are proved at `ℚ` only; at float32 `Concat` of a single transform is
  that transform, and of several is the rounded product (not associative).
* `normalize_abs_rel` is stated for transforms whose concatenation has zero off-diagonal entries
  (scale-and-translate), which is what the property text names; for a general matrix the generator's
  "scale" for relative operands is the diagonal of the matrix, which is not the linear part.
* `ParsePath` on a path-data error: the Go code has by then already made the `SetCReg` call; the model
  returns only the error (`(adjs', .error e)`), so "no call on error" is neither claimed nor true.
-/

end Ivg.Props.C20

#obligations C20 [Ivg.Props.C20.concat_is_composition,
  Ivg.Props.C20.concat_pair,
  Ivg.Props.C20.concat_scale_translate,
  Ivg.Props.C20.normalize_abs_rel,
  Ivg.Props.C20.xf_eq,
  Ivg.Props.C20.normalize_hv,
  Ivg.Props.C20.normalize_no_transform,
  Ivg.Props.C20.emit_arc,
  Ivg.Props.C20.md_normalize,
  Ivg.Props.C20.md_normalize_hv,
  Ivg.Props.C20.md_map_eq,
  Ivg.Props.C20.opacity_decision,
  Ivg.Props.C20.opacity_table,
  Ivg.Props.C20.opacity_registers,
  Ivg.Props.C20.circles_two_arcs,
  Ivg.Props.C20.circle_calls,
  Ivg.Props.C20.circle_endpoints,
  Ivg.Gen.Tie.generator_fields_tie,
  Ivg.Gen.Tie.mdPath_fields_tie,
  Ivg.Gen.Tie.mdCircle_fields_tie]
