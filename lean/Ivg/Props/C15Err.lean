import Ivg.Lemmas.Grad64h
import Ivg.Gen.Tie.GradientFields
import Ivg.Gen.Tie.RendererFields
import Ivg.Gen.Tie.Code.Clamp
import Ivg.Gen.Tie.Code.Ranges
import Ivg.Gen.Tie.Code.GradAt
import Ivg.Obligations
/-!
# C15 — gradient paints, float64: the error bound strictly inside a range

Complement of `Ivg/Props/C15.lean` (which proves the property at exact rationals and, at float64, the clauses
that are EXACT).  This file settles, for the model instantiated at the soft floats `(F32, F64)` — the instance
that is bit-exact with Go — the clause

  "… returns a … colour equal to the piece-wise linear interpolation (in premultiplied space) of its stops at
   the offset …"

UP TO ROUNDING, with explicit constants.  For the range `r` selected by `findRange` (`Grad64.RangeOK r`: finite
offsets, `0 ≤ off0 < off1 ≤ 1`, `width = fl(off1 − off0)` — what `Gradient.init` makes of a valid stop list) and a
float offset `off0 ≤ o ≤ off1`, `Gradient.at` computes

    t = fl(fl(o − off0) / width)   = `Grad64.tOf r o`
    s = fl(1 − t)                  = `Grad64.sOf r o`
    channel = uint16(fl(fl(s·c0) + fl(t·c1))) = `lerpChan s t c0 c1`,  the float being `Grad64.lerpF s t c0 c1`.

Vocabulary: `u = 2^-53` (`FloatErr64.u`); `Grad64.Tex r o = (o − off0)/(off1 − off0)` and
`Grad64.Cex r o c0 c1 = (1 − T)·c0 + T·c1`, exact rationals of the VALUES of the floats (`Cex (makeRange a b) o c0 c1`
IS the specification's `Spec.Grad.lerp`, by definition);
`Grad64.epsChan c0 c1 = (3u + 4u²)·max c0 c1 + (3u + 3u²)·|c1 − c0|  ≤ 7·u·65535 < 2^-34`;
`Grad64.Near ch C ε`: `ch = ⌊C⌋`, or `ch = ⌊C⌋ + 1` and `⌊C⌋ + 1 − C ≤ ε`, or `ch + 1 = ⌊C⌋` and `C − ⌊C⌋ ≤ ε`.

All bounds are UNIFORM IN THE WIDTH of the range: differences of floats are points of the grid `2^-1074·ℤ` and
round with relative error `≤ u` without an underflow exception, relative errors pass through a quotient, and
the quotient is `≤ 1`.  No bound of the kind `k·u/(off1 − off0)` is needed, however close two stops are.
-/
namespace Ivg.Props.C15Err
open Ivg Grad Num Ren
open Ivg.Grad64 (RangeOK tOf sOf lerpF Tex Cex epsChan Near ChanErr ColNear StopsOK offsetAt specStops64 pixMatrix64)
open Ivg.FloatErr64 (u Fn)
open Ivg.FloatMono (val)
open Ivg.Spec.Grad (lerp sample)

/-! ## (1) the parameter `t` -/

/-- Clause "interpolation … at the offset", step 1 (`t_err`): the float parameter `t` is within `3u(1 + u)` of
    the exact parameter `T`, for every range, however narrow. -/
theorem t_err {r : Range F64} (h : RangeOK r) (o : F64) (h0 : r.offset0 ≤ o) (h1 : o ≤ r.offset1) :
    |val (tOf r o) - Tex r o| ≤ 3 * u + 3 * u ^ 2 := Grad64.t_err h o h0 h1

/-- … refined: the part of the error that comes from the two subtractions is proportional to `T`. -/
theorem t_err_T {r : Range F64} (h : RangeOK r) (o : F64) (h0 : r.offset0 ≤ o) (h1 : o ≤ r.offset1) :
    |val (tOf r o) - Tex r o| ≤ u + (2 * u + 3 * u ^ 2) * Tex r o := Grad64.t_err_T h o h0 h1

/-- … in round numbers. -/
theorem t_err4 {r : Range F64} (h : RangeOK r) (o : F64) (h0 : r.offset0 ≤ o) (h1 : o ≤ r.offset1) :
    |val (tOf r o) - Tex r o| ≤ 4 * u := Grad64.t_err4 h o h0 h1

-- vocabulary (definitional unfoldings, not obligations)
example (r : Range F64) (o : F64) : Tex r o = (val o - val r.offset0) / (val r.offset1 - val r.offset0) := rfl
example (r : Range F64) (o : F64) : tOf r o = (o - r.offset0) / r.width := rfl
example (r : Range F64) (o : F64) : sOf r o = (oneB : F64) - tOf r o := rfl
example (r : Range F64) (o : F64) (c0 c1 : Nat) : Cex r o c0 c1 = (1 - Tex r o) * (c0 : ℚ) + Tex r o * (c1 : ℚ) := rfl
example (s t : F64) (c0 c1 : Nat) : lerpF s t c0 c1 = s * Arith.ofInt (c0 : Int) + t * Arith.ofInt (c1 : Int) := rfl
example (s t : F64) (c0 c1 : Nat) : lerpChan (α := F32) s t c0 c1 = toU16 (α := F32) (lerpF s t c0 c1) := rfl

-- non-vacuity: the range between the stops 0.25 and 1.0 and the offset `0x3FE360A056F07490 ≈ 0.6055`
set_option maxRecDepth 100000 in
example : RangeOK (makeRange Grad64.Ex.sP Grad64.Ex.sQ) ∧
    (makeRange Grad64.Ex.sP Grad64.Ex.sQ).offset0 ≤ Grad64.Ex.oLow ∧
    Grad64.Ex.oLow ≤ (makeRange Grad64.Ex.sP Grad64.Ex.sQ).offset1 :=
  ⟨Grad64.RangeOK_make (by decide +kernel) (by decide +kernel) (by decide +kernel), by decide +kernel,
    by decide +kernel⟩

/-! ## (2) one channel as a float -/

/-- Step 2 (`lerp_err`): for ANY finite `t ∈ [0,1]`, `s = fl(1 − t)` and channel ends `c0, c1 ≤ M ≤ 65535`, the
    float `fl(fl(s·c0) + fl(t·c1))` is within `(3u + 4u²)·M` of `(1 − t)·c0 + t·c1`; measured against the
    interpolation at another parameter `T`, the error of `t` enters multiplied by `|c1 − c0|`. -/
theorem lerp_err (t : F64) (ft : Fn t) (t0 : 0 ≤ val t) (t1 : val t ≤ 1) (T : ℚ) (c0 c1 : Nat) (M : ℚ)
    (h0 : (c0 : ℚ) ≤ M) (h1 : (c1 : ℚ) ≤ M) (hM : M ≤ 65535) :
    |val (lerpF ((oneB : F64) - t) t c0 c1) - ((1 - T) * (c0 : ℚ) + T * (c1 : ℚ))| ≤
      (3 * u + 4 * u ^ 2) * M + |val t - T| * |(c1 : ℚ) - (c0 : ℚ)| :=
  Grad64.lerp_err t ft t0 t1 T c0 c1 M h0 h1 hM
-- non-vacuity: `t = 0.75`
example : Fn (⟨0x3FE8000000000000⟩ : F64) ∧ 0 ≤ val (⟨0x3FE8000000000000⟩ : F64) ∧
    val (⟨0x3FE8000000000000⟩ : F64) ≤ 1 := by
  have f : Fn (⟨0x3FE8000000000000⟩ : F64) := by decide
  have a := (FloatMono.le_iff_val Grad64.zeroB_fin.1 f).1 (by decide +kernel)
  have b := (FloatMono.le_iff_val f Grad64.oneB_fin.1).1 (by decide +kernel)
  rw [Grad64.zeroB_fin.2] at a; rw [Grad64.oneB_fin.2] at b
  exact ⟨f, a, b⟩
example : ((0x8000 : Nat) : ℚ) ≤ 65535 ∧ ((0xFFFF : Nat) : ℚ) ≤ 65535 := by norm_num

/-- (1) + (2) (`chan_err`): in a range, the float the model converts to `uint16` is within `epsChan c0 c1` of the
    exact interpolated channel value. -/
theorem chan_err {r : Range F64} (h : RangeOK r) (o : F64) (h0 : r.offset0 ≤ o) (h1 : o ≤ r.offset1)
    (c0 c1 : Nat) (hc0 : c0 < 65536) (hc1 : c1 < 65536) :
    |val (lerpF (sOf r o) (tOf r o) c0 c1) - Cex r o c0 c1| ≤ epsChan c0 c1 :=
  Grad64.chan_err h o h0 h1 c0 c1 hc0 hc1

example (c0 c1 : Nat) : epsChan c0 c1 =
    (3 * u + 4 * u ^ 2) * max (c0 : ℚ) (c1 : ℚ) + (3 * u + 3 * u ^ 2) * |(c1 : ℚ) - (c0 : ℚ)| := rfl

/-- the error bound in round numbers: `epsChan c0 c1 ≤ 7·u·65535` for 16-bit channel ends … -/
theorem epsChan_le (c0 c1 : Nat) (h0 : c0 < 65536) (h1 : c1 < 65536) : epsChan c0 c1 ≤ 7 * u * 65535 :=
  Grad64.epsChan_le c0 c1 h0 h1
/-- … which is below `2^-34`. -/
theorem eps_small : 7 * u * 65535 < 1 / 17179869184 := Grad64.eps_small

-- the exact value is the specification's `lerp` at the values of the three float offsets (by definition)
example (a b : Stop F64) (o : F64) (c0 c1 : Nat) :
    Cex (makeRange a b) o c0 c1 = lerp (val a.offset) (val b.offset) c0 c1 (val o) := rfl

/-! ## (3) the delivered channel -/

/-- Step 3 (`channel_err`): the delivered channel is the integer part of the exact value `C`; or one more,
    and then `C` is at most `epsChan c0 c1` below that integer; or one less, and then `C` is at most
    `epsChan c0 c1` above its integer part.  (The model's `lerpChan` is Go's `uint16(s*c0 + t*c1)`.) -/
theorem channel_err {r : Range F64} (h : RangeOK r) (o : F64) (h0 : r.offset0 ≤ o) (h1 : o ≤ r.offset1)
    (c0 c1 : Nat) (hc0 : c0 < 65536) (hc1 : c1 < 65536) :
    Near (lerpChan (α := F32) (sOf r o) (tOf r o) c0 c1) (Cex r o c0 c1) (epsChan c0 c1) :=
  Grad64.channel_err h o h0 h1 c0 c1 hc0 hc1

example (ch : Nat) (C ε : ℚ) : Near ch C ε ↔
    ((ch : Int) = ⌊C⌋ ∨ ((ch : Int) = ⌊C⌋ + 1 ∧ ((⌊C⌋ : ℚ) + 1) - C ≤ ε) ∨
      ((ch : Int) + 1 = ⌊C⌋ ∧ C - (⌊C⌋ : ℚ) ≤ ε)) := Iff.rfl

/-- … in terms of the nearest integer: the channel is `⌊C⌋`, or `C` is within `ε` of an integer and the
    channel is `⌊C⌋ ± 1`. -/
theorem near_round {ch : Nat} {C ε : ℚ} (h : Near ch C ε) :
    (ch : Int) = ⌊C⌋ ∨ (|C - (round C : ℚ)| ≤ ε ∧ ((ch : Int) = ⌊C⌋ + 1 ∨ (ch : Int) + 1 = ⌊C⌋)) := h.round

/-- … the channel is always within one of `⌊C⌋` … -/
theorem near_within_one {ch : Nat} {C ε : ℚ} (h : Near ch C ε) :
    ⌊C⌋ - 1 ≤ (ch : Int) ∧ (ch : Int) ≤ ⌊C⌋ + 1 := h.within_one

/-- … and exactly `⌊C⌋` when `C` is farther than `ε` from the integers on both sides. -/
theorem near_exact {ch : Nat} {C ε : ℚ} (h : Near ch C ε) (h1 : ε < C - (⌊C⌋ : ℚ)) (h2 : ε < ((⌊C⌋ : ℚ) + 1) - C) :
    (ch : Int) = ⌊C⌋ := h.exact h1 h2
-- non-vacuity: `C = 100.5`, `ε = 2^-34`
example : (1 / 17179869184 : ℚ) < (201 / 2 : ℚ) - (⌊(201 / 2 : ℚ)⌋ : ℚ) ∧
    (1 / 17179869184 : ℚ) < ((⌊(201 / 2 : ℚ)⌋ : ℚ) + 1) - (201 / 2 : ℚ) := by
  have : ⌊(201 / 2 : ℚ)⌋ = 100 := by rw [Int.floor_eq_iff]; norm_num
  rw [this]; norm_num

/-- A CONSTANT channel (`c0 = c1 = c`; e.g. the alpha of two opaque stops) is delivered as `c` — or as `c − 1`:
    `s + t` may be `1 − 2^-53` after rounding (when `t < 1/2`), or the products round down. -/
theorem channel_const {r : Range F64} (h : RangeOK r) (o : F64) (h0 : r.offset0 ≤ o) (h1 : o ≤ r.offset1)
    (c : Nat) (hc : c < 65536) :
    lerpChan (α := F32) (sOf r o) (tOf r o) c c = c ∨ lerpChan (α := F32) (sOf r o) (tOf r o) c c + 1 = c :=
  Grad64.channel_const h o h0 h1 c hc

/-- The delivered channel never exceeds the larger of the two channel ends and is at most one below the smaller
    one (`min c0 c1 − 1 ≤ channel ≤ max c0 c1`). -/
theorem channel_between {r : Range F64} (h : RangeOK r) (o : F64) (h0 : r.offset0 ≤ o) (h1 : o ≤ r.offset1)
    (c0 c1 : Nat) (hc0 : c0 < 65536) (hc1 : c1 < 65536) :
    min c0 c1 ≤ lerpChan (α := F32) (sOf r o) (tOf r o) c0 c1 + 1 ∧
    lerpChan (α := F32) (sOf r o) (tOf r o) c0 c1 ≤ max c0 c1 :=
  Grad64.channel_between h o h0 h1 c0 c1 hc0 hc1

/-- The bounds cannot be improved to "the channel is `⌊C⌋`": BOTH off-by-one cases occur (concrete bit patterns,
    computed by the model, confirmed by running `/repo/render` `(*Gradient).At`).
    A gradient between two OPAQUE WHITE stops at 0.25 and 1.0 returns `0xFFFE` in every channel (alpha included)
    at the offset `0x3FE360A056F07490 ≈ 0.6055` — the exact value is `65535`; about 3 % of the float64 offsets in
    `[0.25, 1]` behave like this. -/
theorem one_less_occurs :
    (Gradient.init 0 0 (Grad64.Ex.mC Grad64.Ex.oLow) [Grad64.Ex.sP, Grad64.Ex.sQ]).1.at (α := F32) 7 3 =
      ⟨0xFFFE, 0xFFFE, 0xFFFE, 0xFFFE⟩ := Grad64.Ex.opaque_not_opaque

/-- … and stops at 0.0 and 1.0 with channel values 32768 and 32896, offset `0.90625 − 2^-53`: the exact value
    is `32884 − 2^-46` (integer part `32883`), the delivered channel is `32884`. -/
theorem one_more_occurs :
    (Gradient.init 0 0 (Grad64.Ex.mC Grad64.Ex.oHigh) [Grad64.Ex.sG0, Grad64.Ex.sG1]).1.at (α := F32) 7 3 =
      ⟨32884, 32884, 32884, 32884⟩ := Grad64.Ex.one_more

/-! ## the statements about `Gradient.at` -/

/-- (1), (2), (3) about the model's `Gradient.at` (float64 instance): for a gradient made by `Init` from a valid
    stop list (`Grad64.StopsOK`) and a pixel whose clamped offset `o` lies between the first and the last stop
    offset, `findRange` selects the range `[a.offset, b.offset]` of two CONSECUTIVE stops containing `o`, and with
    `t`, `s` as `At` computes them: `|t − T| ≤ 3u + 3u²`, and for each channel (`ChanErr`) the delivered value is
    the integer part of the float `s*c0 + t*c1`, that float is within `epsChan c0 c1` of the specification's
    `lerp` at the value of `o`, and the delivered value is `Near` it. -/
theorem at_err_f64 (shape spread : UInt8) (m : Aff3 F64) (s0 s1 : Stop F64) (rest : List (Stop F64))
    (hok : StopsOK (s0 :: s1 :: rest)) (x y : Int)
    (h0 : s0.offset ≤ offsetAt (Gradient.init shape spread m (s0 :: s1 :: rest)).1 x y)
    (h1 : offsetAt (Gradient.init shape spread m (s0 :: s1 :: rest)).1 x y ≤
      ((s0 :: s1 :: rest).getLast (by simp)).offset) :
    let g := (Gradient.init shape spread m (s0 :: s1 :: rest)).1
    let o := offsetAt g x y
    ∃ a b, a ∈ s0 :: s1 :: rest ∧ b ∈ s0 :: s1 :: rest ∧ a.offset < b.offset ∧
      (∀ s ∈ s0 :: s1 :: rest, s = a ∨ s = b ∨ s.offset < a.offset ∨ b.offset < s.offset) ∧
      a.offset ≤ o ∧ o ≤ b.offset ∧
      (let t := (o - a.offset) / (b.offset - a.offset)
       let s := (oneB : F64) - t
       let c := g.at (α := F32) x y
       let C := fun c0 c1 : Nat => lerp (val a.offset) (val b.offset) c0 c1 (val o)
       |val t - (val o - val a.offset) / (val b.offset - val a.offset)| ≤ 3 * u + 3 * u ^ 2 ∧
       ChanErr c.r (lerpF s t a.color.r b.color.r) (C a.color.r b.color.r) (epsChan a.color.r b.color.r) ∧
       ChanErr c.g (lerpF s t a.color.g b.color.g) (C a.color.g b.color.g) (epsChan a.color.g b.color.g) ∧
       ChanErr c.b (lerpF s t a.color.b b.color.b) (C a.color.b b.color.b) (epsChan a.color.b b.color.b) ∧
       ChanErr c.a (lerpF s t a.color.a b.color.a) (C a.color.a b.color.a) (epsChan a.color.a b.color.a)) :=
  Grad64.at_err_f64 shape spread m s0 s1 rest hok x y h0 h1

example (ch : Nat) (F : F64) (C ε : ℚ) :
    ChanErr ch F C ε ↔ ((ch : Int) = ⌊val F⌋ ∧ |val F - C| ≤ ε ∧ Near ch C ε) := Iff.rfl

-- non-vacuity: the two examples above satisfy the hypotheses
example : StopsOK [Grad64.Ex.sP, Grad64.Ex.sQ] ∧ StopsOK [Grad64.Ex.sG0, Grad64.Ex.sG1] := Grad64.Ex.stops_ok
example : Grad64.Ex.sP.offset ≤ offsetAt (Gradient.init 0 0 (Grad64.Ex.mC Grad64.Ex.oLow) [Grad64.Ex.sP, Grad64.Ex.sQ]).1 7 3 ∧
    offsetAt (Gradient.init 0 0 (Grad64.Ex.mC Grad64.Ex.oLow) [Grad64.Ex.sP, Grad64.Ex.sQ]).1 7 3 ≤ Grad64.Ex.sQ.offset :=
  ⟨Grad64.Ex.offsets_inside.1, Grad64.Ex.offsets_inside.2.1⟩

/-- Short form with the uniform `ε = 7·u·65535 < 2^-34`. -/
theorem at_near_f64 (shape spread : UInt8) (m : Aff3 F64) (s0 s1 : Stop F64) (rest : List (Stop F64))
    (hok : StopsOK (s0 :: s1 :: rest)) (x y : Int)
    (h0 : s0.offset ≤ offsetAt (Gradient.init shape spread m (s0 :: s1 :: rest)).1 x y)
    (h1 : offsetAt (Gradient.init shape spread m (s0 :: s1 :: rest)).1 x y ≤
      ((s0 :: s1 :: rest).getLast (by simp)).offset) :
    let g := (Gradient.init shape spread m (s0 :: s1 :: rest)).1
    let o := offsetAt g x y
    ∃ a b, a ∈ s0 :: s1 :: rest ∧ b ∈ s0 :: s1 :: rest ∧ a.offset < b.offset ∧
      (∀ s ∈ s0 :: s1 :: rest, s = a ∨ s = b ∨ s.offset < a.offset ∨ b.offset < s.offset) ∧
      a.offset ≤ o ∧ o ≤ b.offset ∧
      (let c := g.at (α := F32) x y
       let C := fun c0 c1 : Nat => lerp (val a.offset) (val b.offset) c0 c1 (val o)
       Near c.r (C a.color.r b.color.r) (7 * u * 65535) ∧ Near c.g (C a.color.g b.color.g) (7 * u * 65535) ∧
       Near c.b (C a.color.b b.color.b) (7 * u * 65535) ∧ Near c.a (C a.color.a b.color.a) (7 * u * 65535)) :=
  Grad64.at_near_f64 shape spread m s0 s1 rest hok x y h0 h1

/-- The whole interpolation clause at float64, AT EVERY PIXEL THAT GETS A COLOUR (`offset >= 0` after `Clamp`;
    the offset is then finite and in `[0,1]`, `C15.clamp_range_f64`; all other pixels are transparent black,
    `C15.at_no_colour_f64`): every channel of `At` is `Near` the specification's piece-wise linear interpolation
    `Spec.Grad.sample` of the stops — first colour before the first stop, last colour after the last, linear in
    between — evaluated at the VALUE of the clamped float offset.  `specStops64 stops` is the stop list as the
    specification sees it: the values of the float64 offsets, the colours unchanged. -/
theorem at_sample_f64 (shape spread : UInt8) (m : Aff3 F64) (s0 s1 : Stop F64) (rest : List (Stop F64))
    (hok : StopsOK (s0 :: s1 :: rest)) (x y : Int)
    (hz : (zeroB : F64) ≤ offsetAt (Gradient.init shape spread m (s0 :: s1 :: rest)).1 x y) :
    ColNear ((Gradient.init shape spread m (s0 :: s1 :: rest)).1.at (α := F32) x y)
      (fun ch => sample ch (specStops64 (s0 :: s1 :: rest))
        (val (offsetAt (Gradient.init shape spread m (s0 :: s1 :: rest)).1 x y))) (7 * u * 65535) :=
  Grad64.at_sample_f64 shape spread m s0 s1 rest hok x y hz

example (c : RGBA64) (S : (Spec.Grad.Col → Nat) → ℚ) (ε : ℚ) :
    ColNear c S ε ↔ (Near c.r (S (·.r)) ε ∧ Near c.g (S (·.g)) ε ∧ Near c.b (S (·.b)) ε ∧ Near c.a (S (·.a)) ε) :=
  Iff.rfl
example (stops : List (Stop F64)) :
    specStops64 stops = stops.map (fun s => (val s.offset, (⟨s.color.r, s.color.g, s.color.b, s.color.a⟩ : Spec.Grad.Col))) :=
  rfl
set_option maxRecDepth 100000 in
example : (zeroB : F64) ≤ offsetAt (Gradient.init 0 0 (Grad64.Ex.mC Grad64.Ex.oLow) [Grad64.Ex.sP, Grad64.Ex.sQ]).1 7 3 := by
  decide +kernel

/-! ## the gradients the float renderer builds -/

/-- `at_err_f64` for every gradient the float renderer paints with: a successful `initGradient` (render.go) is
    `Init` of a valid stop list whose offsets are the float32 registers NREG[nBase+k] widened and whose colours
    are CREG[cBase+k] widened to 16 bits (`C15.initGradient_f64`). -/
theorem renderer_gradient_err_f64 (z : Renderer F32 F64) (rgba : RGBA) (g : Gradient F64)
    (h : z.initGradient rgba = some g) :
    ∃ s0 s1 rest,
      g = (Gradient.init (decodeGradient rgba).shape (decodeGradient rgba).spread
            (pixMatrix64 z (decodeGradient rgba).nBase) (s0 :: s1 :: rest)).1 ∧
      StopsOK (s0 :: s1 :: rest) ∧
      (∀ k (hk : k < (s0 :: s1 :: rest).length), (s0 :: s1 :: rest)[k] =
        ⟨F64.ofF32 (z.nReg.get6 ((decodeGradient rgba).nBase + (0 + UInt8.ofNat k))),
         rgba64Of (z.cReg.get6 ((decodeGradient rgba).cBase + (0 + UInt8.ofNat k)))⟩) ∧
      ∀ x y : Int, s0.offset ≤ offsetAt g x y → offsetAt g x y ≤ ((s0 :: s1 :: rest).getLast (by simp)).offset →
        ∃ a b, a ∈ s0 :: s1 :: rest ∧ b ∈ s0 :: s1 :: rest ∧ a.offset < b.offset ∧
          (∀ s ∈ s0 :: s1 :: rest, s = a ∨ s = b ∨ s.offset < a.offset ∨ b.offset < s.offset) ∧
          a.offset ≤ offsetAt g x y ∧ offsetAt g x y ≤ b.offset ∧
          (let t := (offsetAt g x y - a.offset) / (b.offset - a.offset)
           let s := (oneB : F64) - t
           let c := g.at (α := F32) x y
           let C := fun c0 c1 : Nat => lerp (val a.offset) (val b.offset) c0 c1 (val (offsetAt g x y))
           |val t - (val (offsetAt g x y) - val a.offset) / (val b.offset - val a.offset)| ≤ 3 * u + 3 * u ^ 2 ∧
           ChanErr c.r (lerpF s t a.color.r b.color.r) (C a.color.r b.color.r) (epsChan a.color.r b.color.r) ∧
           ChanErr c.g (lerpF s t a.color.g b.color.g) (C a.color.g b.color.g) (epsChan a.color.g b.color.g) ∧
           ChanErr c.b (lerpF s t a.color.b b.color.b) (C a.color.b b.color.b) (epsChan a.color.b b.color.b) ∧
           ChanErr c.a (lerpF s t a.color.a b.color.a) (C a.color.a b.color.a) (epsChan a.color.a b.color.a)) :=
  Grad64.renderer_gradient_err_f64 z rgba g h

/-- `at_sample_f64` for every gradient the float renderer paints with, at every pixel that gets a colour. -/
theorem renderer_gradient_sample_f64 (z : Renderer F32 F64) (rgba : RGBA) (g : Gradient F64)
    (h : z.initGradient rgba = some g) :
    ∃ stops : List (Stop F64),
      stops.length = (decodeGradient rgba).nStops.toNat ∧ StopsOK stops ∧
      (∀ k (hk : k < stops.length), stops[k] =
        ⟨F64.ofF32 (z.nReg.get6 ((decodeGradient rgba).nBase + (0 + UInt8.ofNat k))),
         rgba64Of (z.cReg.get6 ((decodeGradient rgba).cBase + (0 + UInt8.ofNat k)))⟩) ∧
      ∀ x y : Int, (zeroB : F64) ≤ offsetAt g x y →
        ColNear (g.at (α := F32) x y) (fun ch => sample ch (specStops64 stops) (val (offsetAt g x y)))
          (7 * u * 65535) :=
  Grad64.renderer_gradient_sample_f64 z rgba g h
-- non-vacuity: the register state of `C15.lean`'s last examples is accepted by `initGradient`
set_option maxRecDepth 100000 in
example : (Grad64.Ex.state.initGradient (encodeGradient 10 10 0 1 2)).isSome = true := by decide +kernel

/-!
## Not proved in this file

* The RAW offset: all statements are in terms of the float64 offset `o = Clamp(raw offset)` the code computes for
  the pixel (`Grad64.offsetAt`), and compare with the exact interpolation at the VALUE of that float.  No bound
  between `o` and the exact offset of the pixel centre is proved (matrix products and sums, the square root of
  the radial shape, `initGradient`'s matrix computed in float64 from float32 registers; `C15.clamp_spec_f64` gives
  `Clamp` itself as one correct rounding).  Since the colour is Lipschitz in the offset only with constant
  `|c1 − c0|/(off1 − off0)`, such a bound would NOT be uniform in the width.
* Sharpness of the constants: `3u + 3u²` (not `3u`) for `t` and `(3u + 4u²)·max c0 c1 + (3u + 3u²)·|c1 − c0|` for the
  channel follow from the standard model `|fl(x) − x| ≤ u·|x|` alone; they are not claimed optimal (the second-order
  terms come from `1/(1 − u)`; a random search over float32-widened stop offsets found no `|t − T|` above `0.5·u` and no
  channel error above `1.8·u·65535`).
  What IS sharp is the shape of (3): both off-by-one cases occur (`one_less_occurs`, `one_more_occurs`), so the
  float64 colour is NOT always the integer part of the exact interpolation — not even for a constant channel.
* The model evaluates `s*c0 + t*c1` with two rounded products and a rounded sum, as the Go compiler does on amd64
  (default `GOAMD64=v1`; the differential test confirms it); where Go fuses `x*y + z` into one FMA (arm64, ppc64le,
  s390x, riscv64, `GOAMD64=v3`) one product is not rounded.  The proofs do not cover that evaluation order (the bounds would
  hold a fortiori, the bit patterns of `one_less_occurs`/`one_more_occurs` need not).
* NaN / infinite raw offsets: as in `C15.lean` (they never reach the interpolation: `Clamp` maps them to a NaN, to
  `0`/`1` (pad) or to the marker `-1`).
-/

end Ivg.Props.C15Err

#obligations C15 [Ivg.Props.C15Err.t_err,
  Ivg.Props.C15Err.t_err_T,
  Ivg.Props.C15Err.t_err4,
  Ivg.Props.C15Err.lerp_err,
  Ivg.Props.C15Err.chan_err,
  Ivg.Props.C15Err.epsChan_le,
  Ivg.Props.C15Err.eps_small,
  Ivg.Props.C15Err.channel_err,
  Ivg.Props.C15Err.near_round,
  Ivg.Props.C15Err.near_within_one,
  Ivg.Props.C15Err.near_exact,
  Ivg.Props.C15Err.channel_const,
  Ivg.Props.C15Err.channel_between,
  Ivg.Props.C15Err.one_less_occurs,
  Ivg.Props.C15Err.one_more_occurs,
  Ivg.Props.C15Err.at_err_f64,
  Ivg.Props.C15Err.at_near_f64,
  Ivg.Props.C15Err.at_sample_f64,
  Ivg.Props.C15Err.renderer_gradient_err_f64,
  Ivg.Props.C15Err.renderer_gradient_sample_f64,
  Ivg.Gen.Tie.renderer_fields_tie,
  Ivg.Gen.Tie.gradient_fields_tie,
  -- regenerated code (translator, Ivg/Gen/Code) = model, for all inputs: Clamp, MakeRange, AppendRanges/Init, At
  Ivg.Gen.Tie.spread_Clamp_code_tie,
  Ivg.Gen.Tie.makeRange_code_tie,
  Ivg.Gen.Tie.makeRange_code_tie_model,
  Ivg.Gen.Tie.appendRanges_code_tie,
  Ivg.Gen.Tie.gradient_Init_code_tie,
  Ivg.Gen.Tie.gradient_At_code_tie,
  Ivg.Gen.Tie.gradient_At_code_tie_fits]
