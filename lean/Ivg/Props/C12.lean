import Ivg.Lemmas.FitQ
import Ivg.Gen.Tie.MiscFields
import Ivg.Obligations
/-!
# C12 — aspect-preserving fitting (`ViewBox.AspectMeet` / `AspectSlice` / `Size`)

Property text: "For every viewBox of positive size and every positive target size, aspect-preserving
fitting returns, up to float32 rounding relative to the target size, a rectangle with the viewBox's
aspect ratio that lies within the target and equals it in at least one dimension (meet), or covers the
target and equals it in at least one dimension (slice), placed so that the slack (or overflow) is
divided according to the alignment fractions: 0 aligns the minima, 0.5 centres, 1 aligns the maxima.
Size returns max minus min in each dimension."

The model (`Ivg/Model/ViewBox.lean`, mirroring `/repo/ivg.go`) is number-generic.  The theorems below
are about its instance at EXACT arithmetic (`ℚ`, `Ivg/Lemmas/RatInst.lean`): the same program text,
computed without rounding, satisfies every clause of the property exactly.  See the end of the file
for what this does not cover.
-/
namespace Ivg.Props.C12
open Ivg FitQ

/-- Clause "meet": the result `(x0, y0, x1, y1)` of `AspectMeet` has the viewBox's aspect ratio
    (`aspect`), positive size (`pos`), lies within the target `[0,dx]×[0,dy]` (`inside`), equals it in
    at least one dimension (`touches`) and divides the slack by the alignment fractions (`align`:
    `x0 = (dx − width)·ax`, `y0 = (dy − height)·ay`).  `FitQ.MeetSpec` is the conjunction of exactly
    these five clauses. -/
theorem meet_fits (v : ViewBox ℚ) (dx dy ax ay : ℚ)
    (hx : v.minX < v.maxX) (hy : v.minY < v.maxY) (hdx : 0 < dx) (hdy : 0 < dy)
    (hax : 0 ≤ ax ∧ ax ≤ 1) (hay : 0 ≤ ay ∧ ay ≤ 1) :
    MeetSpec v dx dy ax ay (v.aspectMeet dx dy ax ay).1 (v.aspectMeet dx dy ax ay).2.1
      (v.aspectMeet dx dy ax ay).2.2.1 (v.aspectMeet dx dy ax ay).2.2.2 :=
  FitQ.meet_fits v dx dy ax ay hx hy hdx hdy hax hay

/-- Clause "slice": dually the result covers the target (`covers`: `x0 ≤ 0 ∧ dx ≤ x1 ∧ y0 ≤ 0 ∧ dy ≤ y1`),
    equals it in one dimension and divides the overflow by the alignment fractions. -/
theorem slice_covers (v : ViewBox ℚ) (dx dy ax ay : ℚ)
    (hx : v.minX < v.maxX) (hy : v.minY < v.maxY) (hdx : 0 < dx) (hdy : 0 < dy)
    (hax : 0 ≤ ax ∧ ax ≤ 1) (hay : 0 ≤ ay ∧ ay ≤ 1) :
    SliceSpec v dx dy ax ay (v.aspectSlice dx dy ax ay).1 (v.aspectSlice dx dy ax ay).2.1
      (v.aspectSlice dx dy ax ay).2.2.1 (v.aspectSlice dx dy ax ay).2.2.2 :=
  FitQ.slice_covers v dx dy ax ay hx hy hdx hdy hax hay

-- non-vacuity: a 2:1 viewBox in a square target, centred; and the values the functions return there
example : let v : ViewBox ℚ := ⟨-2, 0, 2, 2⟩
    v.minX < v.maxX ∧ v.minY < v.maxY ∧ (0 : ℚ) < 10 ∧ (0 : ℚ) ≤ 1 / 2 ∧ (1 / 2 : ℚ) ≤ 1 := by norm_num
example : (⟨-2, 0, 2, 2⟩ : ViewBox ℚ).aspectMeet 10 10 (1 / 2) (1 / 2) = (0, 5 / 2, 10, 15 / 2) := by
  rw [aspectMeet_eq]; norm_num
example : (⟨-2, 0, 2, 2⟩ : ViewBox ℚ).aspectSlice 10 10 (1 / 2) (1 / 2) = (-5, 0, 15, 10) := by
  rw [aspectSlice_eq]; norm_num

/-- Clause "0 aligns the minima, 0.5 centres, 1 aligns the maxima" for meet, x and y: with fraction 0
    the minimum is at 0, with 1 the maximum is at the target size, with 1/2 the margins on both sides
    are equal. -/
theorem meet_alignment (v : ViewBox ℚ) (dx dy ax ay : ℚ)
    (hx : v.minX < v.maxX) (hy : v.minY < v.maxY) (hdx : 0 < dx) (hdy : 0 < dy)
    (hax : 0 ≤ ax ∧ ax ≤ 1) (hay : 0 ≤ ay ∧ ay ≤ 1) :
    let r := v.aspectMeet dx dy ax ay
    ((ax = 0 → r.1 = 0) ∧ (ax = 1 → r.2.2.1 = dx) ∧ (ax = 1 / 2 → r.1 - 0 = dx - r.2.2.1)) ∧
    ((ay = 0 → r.2.1 = 0) ∧ (ay = 1 → r.2.2.2 = dy) ∧ (ay = 1 / 2 → r.2.1 - 0 = dy - r.2.2.2)) :=
  ⟨align_cases (FitQ.meet_fits v dx dy ax ay hx hy hdx hdy hax hay).align.1,
   align_cases (FitQ.meet_fits v dx dy ax ay hx hy hdx hdy hax hay).align.2⟩

/-- … and for slice. -/
theorem slice_alignment (v : ViewBox ℚ) (dx dy ax ay : ℚ)
    (hx : v.minX < v.maxX) (hy : v.minY < v.maxY) (hdx : 0 < dx) (hdy : 0 < dy)
    (hax : 0 ≤ ax ∧ ax ≤ 1) (hay : 0 ≤ ay ∧ ay ≤ 1) :
    let r := v.aspectSlice dx dy ax ay
    ((ax = 0 → r.1 = 0) ∧ (ax = 1 → r.2.2.1 = dx) ∧ (ax = 1 / 2 → r.1 - 0 = dx - r.2.2.1)) ∧
    ((ay = 0 → r.2.1 = 0) ∧ (ay = 1 → r.2.2.2 = dy) ∧ (ay = 1 / 2 → r.2.1 - 0 = dy - r.2.2.2)) :=
  ⟨align_cases (FitQ.slice_covers v dx dy ax ay hx hy hdx hdy hax hay).align.1,
   align_cases (FitQ.slice_covers v dx dy ax ay hx hy hdx hdy hax hay).align.2⟩

example : (⟨-2, 0, 2, 2⟩ : ViewBox ℚ).aspectMeet 10 10 0 1 = (0, 5, 10, 10) := by
  rw [aspectMeet_eq]; norm_num

/-- Clause "Size returns max minus min in each dimension" (at every number type the subtraction is
    the type's own; at `ℚ` it is exact). -/
theorem size_eq (v : ViewBox ℚ) : v.size = (v.maxX - v.minX, v.maxY - v.minY) := FitQ.size_eq v

/-!
## Not proved in this file

* "up to float32 rounding relative to the target size": the theorems are about the model instantiated
  at `ℚ`.  No bound on the difference between the `F32` instance (which is bit-exact with Go and is what
  the differential suite runs) and the `ℚ` instance is proved; in particular at `F32` the `inside` /
  `covers` inequalities can fail by rounding of `dx / vbAR` or `dy * vbAR`, and the aspect equation holds
  only approximately.
* Degenerate inputs (zero or negative viewBox or target size, NaN/Inf) are outside the property.
-/

end Ivg.Props.C12

#obligations C12 [Ivg.Props.C12.meet_fits,
  Ivg.Props.C12.slice_covers,
  Ivg.Props.C12.meet_alignment,
  Ivg.Props.C12.slice_alignment,
  Ivg.Props.C12.size_eq,
  Ivg.Gen.Tie.viewBox_fields_tie]
