import Ivg.Lemmas.FitQ
import Ivg.Lemmas.Fit32c
import Ivg.Gen.Tie.MiscFields
import Ivg.Gen.Tie.Code.Fit
import Ivg.Obligations
/-!
# C12 — aspect-preserving fitting (`ViewBox.AspectMeet` / `AspectSlice` / `Size`)

Property text: "For every viewBox of positive size and every positive target size, aspect-preserving
fitting returns, up to float32 rounding relative to the target size, a rectangle with the viewBox's
aspect ratio that lies within the target and equals it in at least one dimension (meet), or covers the
target and equals it in at least one dimension (slice), placed so that the slack (or overflow) is
divided according to the alignment fractions: 0 aligns the minima, 0.5 centres, 1 aligns the maxima.
Size returns max minus min in each dimension."

The model (`Ivg/Model/ViewBox.lean`, mirroring `/repo/ivg.go`) is number-generic.  The theorems below
are, first, about its instance at EXACT arithmetic (`ℚ`, `Ivg/Lemmas/RatInst.lean`): the same program
text, computed without rounding, satisfies every clause of the property exactly; and second (section
"float32"), about its instance at `F32` (bit-exact with Go): under an explicit range hypothesis the
float results are within a few units of `2^-24` of the exact ones.  See the end of the file for what
is not covered.
-/
namespace Ivg.Props.C12
open Ivg FitQ

/-- Clause "meet": the result `(x0, y0, x1, y1)` of `AspectMeet` has the viewBox's aspect ratio
    (`aspect`), positive size (`pos`), lies within the target `[0,dx]×[0,dy]` (`inside`), equals it in
    at least one dimension (`touches`) and divides the slack by the alignment fractions (`align`:
    `x0 = (dx − width)·ax`, `y0 = (dy − height)·ay`).  `FitQ.MeetSpec` is the conjunction of exactly
    these five clauses. -/
theorem meet_fits (v : ViewBox ℚ) (dx dy ax ay : ℚ)
    (hx : v.minX < v.maxX) (hy : v.minY < v.maxY) (hdx : 0 < dx) (hdy : 0 < dy)
    (hax : 0 ≤ ax ∧ ax ≤ 1) (hay : 0 ≤ ay ∧ ay ≤ 1) :
    MeetSpec v dx dy ax ay (v.aspectMeet dx dy ax ay).1 (v.aspectMeet dx dy ax ay).2.1
      (v.aspectMeet dx dy ax ay).2.2.1 (v.aspectMeet dx dy ax ay).2.2.2 :=
  FitQ.meet_fits v dx dy ax ay hx hy hdx hdy hax hay

/-- Clause "slice": dually the result covers the target (`covers`: `x0 ≤ 0 ∧ dx ≤ x1 ∧ y0 ≤ 0 ∧ dy ≤ y1`),
    equals it in one dimension and divides the overflow by the alignment fractions. -/
theorem slice_covers (v : ViewBox ℚ) (dx dy ax ay : ℚ)
    (hx : v.minX < v.maxX) (hy : v.minY < v.maxY) (hdx : 0 < dx) (hdy : 0 < dy)
    (hax : 0 ≤ ax ∧ ax ≤ 1) (hay : 0 ≤ ay ∧ ay ≤ 1) :
    SliceSpec v dx dy ax ay (v.aspectSlice dx dy ax ay).1 (v.aspectSlice dx dy ax ay).2.1
      (v.aspectSlice dx dy ax ay).2.2.1 (v.aspectSlice dx dy ax ay).2.2.2 :=
  FitQ.slice_covers v dx dy ax ay hx hy hdx hdy hax hay

-- non-vacuity: a 2:1 viewBox in a square target, centred; and the values the functions return there
example : let v : ViewBox ℚ := ⟨-2, 0, 2, 2⟩
    v.minX < v.maxX ∧ v.minY < v.maxY ∧ (0 : ℚ) < 10 ∧ (0 : ℚ) ≤ 1 / 2 ∧ (1 / 2 : ℚ) ≤ 1 := by norm_num
example : (⟨-2, 0, 2, 2⟩ : ViewBox ℚ).aspectMeet 10 10 (1 / 2) (1 / 2) = (0, 5 / 2, 10, 15 / 2) := by
  rw [aspectMeet_eq]; norm_num
example : (⟨-2, 0, 2, 2⟩ : ViewBox ℚ).aspectSlice 10 10 (1 / 2) (1 / 2) = (-5, 0, 15, 10) := by
  rw [aspectSlice_eq]; norm_num

/-- Clause "0 aligns the minima, 0.5 centres, 1 aligns the maxima" for meet, x and y: with fraction 0
    the minimum is at 0, with 1 the maximum is at the target size, with 1/2 the margins on both sides
    are equal. -/
theorem meet_alignment (v : ViewBox ℚ) (dx dy ax ay : ℚ)
    (hx : v.minX < v.maxX) (hy : v.minY < v.maxY) (hdx : 0 < dx) (hdy : 0 < dy)
    (hax : 0 ≤ ax ∧ ax ≤ 1) (hay : 0 ≤ ay ∧ ay ≤ 1) :
    let r := v.aspectMeet dx dy ax ay
    ((ax = 0 → r.1 = 0) ∧ (ax = 1 → r.2.2.1 = dx) ∧ (ax = 1 / 2 → r.1 - 0 = dx - r.2.2.1)) ∧
    ((ay = 0 → r.2.1 = 0) ∧ (ay = 1 → r.2.2.2 = dy) ∧ (ay = 1 / 2 → r.2.1 - 0 = dy - r.2.2.2)) :=
  ⟨align_cases (FitQ.meet_fits v dx dy ax ay hx hy hdx hdy hax hay).align.1,
   align_cases (FitQ.meet_fits v dx dy ax ay hx hy hdx hdy hax hay).align.2⟩

/-- … and for slice. -/
theorem slice_alignment (v : ViewBox ℚ) (dx dy ax ay : ℚ)
    (hx : v.minX < v.maxX) (hy : v.minY < v.maxY) (hdx : 0 < dx) (hdy : 0 < dy)
    (hax : 0 ≤ ax ∧ ax ≤ 1) (hay : 0 ≤ ay ∧ ay ≤ 1) :
    let r := v.aspectSlice dx dy ax ay
    ((ax = 0 → r.1 = 0) ∧ (ax = 1 → r.2.2.1 = dx) ∧ (ax = 1 / 2 → r.1 - 0 = dx - r.2.2.1)) ∧
    ((ay = 0 → r.2.1 = 0) ∧ (ay = 1 → r.2.2.2 = dy) ∧ (ay = 1 / 2 → r.2.1 - 0 = dy - r.2.2.2)) :=
  ⟨align_cases (FitQ.slice_covers v dx dy ax ay hx hy hdx hdy hax hay).align.1,
   align_cases (FitQ.slice_covers v dx dy ax ay hx hy hdx hdy hax hay).align.2⟩

example : (⟨-2, 0, 2, 2⟩ : ViewBox ℚ).aspectMeet 10 10 0 1 = (0, 5, 10, 10) := by
  rw [aspectMeet_eq]; norm_num

/-- Clause "Size returns max minus min in each dimension" (at every number type the subtraction is
    the type's own; at `ℚ` it is exact). -/
theorem size_eq (v : ViewBox ℚ) : v.size = (v.maxX - v.minX, v.maxY - v.minY) := FitQ.size_eq v


/-!
## float32: the `F32` instance against the `ℚ` instance

`u = 2^-24` (`FloatErr.u`), `val a` the rational value of a finite `F32`, `Fn a` "finite".
The soft-float operations are correctly rounded (`FloatMono32.add_Rnd` … `div_Rnd`, ported from the
binary64 proofs); `Rnd_rel_err` / `Rnd_abs_err` turn that into the standard error model.
The analysis is in `Ivg/Lemmas/FloatErr.lean`, `Fit32.lean`, `Fit32b.lean`, `Fit32c.lean`.
-/

open Num FloatOrder32 FloatMono32 FloatErr Fit32

/-- **Standard model, normal range**: if the bit pattern `b` is the correct rounding (nearest, ties to even)
    of the rational `v` and `2^-126 ≤ |v| < 2^128 − 2^103` (`ovf`, the exact overflow threshold), then `b` is
    finite and `|val b − v| ≤ 2^-24·|v|`. -/
theorem Rnd_rel_err (v : ℚ) (b : Nat) (h : Rnd v b) (hlo : pow2 (-126) ≤ |v|) (hhi : |v| < ovf) :
    FinB b ∧ |bval b - v| ≤ pow2 (-24) * |v| := FloatErr.Rnd_rel_err v b h hlo hhi

-- non-vacuity: `1/3` rounds to `0x3EAAAAAB`, and `1/3` is in the normal range
set_option maxRecDepth 100000 in
example : Rnd (1 / 3) 0x3EAAAAAB ∧ pow2 (-126) ≤ |(1 / 3 : ℚ)| ∧ |(1 / 3 : ℚ)| < ovf := by
  have h := div_Rnd 0x3F800000 0x40400000 (by decide) (by decide) (by decide)
  have e : Num.div .f32 0x3F800000 0x40400000 = 0x3EAAAAAB := by decide +kernel
  have e3 : bval 0x40400000 = 3 := by
    have h1 : negB32 0x40400000 = false := by decide
    have h2 : mantB 0x40400000 = 12582912 := by decide
    have h3 : expB 0x40400000 = -22 := by decide
    unfold bval sval; rw [h1, h2, h3]; unfold pow2; norm_num
  rw [e, bval_one, e3] at h
  refine ⟨h, ?_, ?_⟩
  · unfold pow2; norm_num [abs_of_pos]
  · unfold ovf pow2; norm_num [abs_of_pos]

/-- **Standard model, below the normal range** (gradual underflow): `|val b − v| ≤ 2^-150`. -/
theorem Rnd_abs_err (v : ℚ) (b : Nat) (h : Rnd v b) (hlo : |v| < pow2 (-126)) :
    FinB b ∧ |bval b - v| ≤ pow2 (-150) := FloatErr.Rnd_abs_err v b h hlo

/-- … and sums and differences of floats are never affected by gradual underflow: relative error `u`
    whenever the exact result does not exceed the largest float. -/
theorem sub_err {a b : F32} (ha : Fn a) (hb : Fn b) (hr : |val a - val b| ≤ maxv) :
    Fn (a - b) ∧ |val (a - b) - (val a - val b)| ≤ u * |val a - val b| := FloatErr.sub_err ha hb hr

/-- Clause "Size returns max minus min in each dimension", at `F32`: `v.size` is (by definition) the pair of
    float32 differences; each is the exact difference up to relative `2^-24`, also in the subnormal range,
    and finite whenever the exact difference is at most the largest float.  The fitting theorems below are
    stated in terms of this float width and height. -/
theorem size_f32 (v : ViewBox F32) (f1 : Fn v.minX) (f2 : Fn v.minY) (f3 : Fn v.maxX) (f4 : Fn v.maxY)
    (hx : |val v.maxX - val v.minX| ≤ maxv) (hy : |val v.maxY - val v.minY| ≤ maxv) :
    (Fn v.size.1 ∧ |val v.size.1 - (val v.maxX - val v.minX)| ≤ u * |val v.maxX - val v.minX|) ∧
    (Fn v.size.2 ∧ |val v.size.2 - (val v.maxY - val v.minY)| ≤ u * |val v.maxY - val v.minY|) :=
  Fit32.size_f32 v f1 f2 f3 f4 hx hy

/-- (a) **the branch taken**: with `vw, vh` the float width and height, the float comparison
    `dx/dy < vw/vh` is true only if it is true of the exact ratios (monotonicity of rounding); it can miss
    a true `dx/dy < vw/vh` only when `(1−u)·(vw/vh) ≤ (1+u)·(dx/dy)`, i.e. the ratios are within `≈ 2u` of
    each other — and the size bounds of `meet_f32` / `slice_f32` hold in that case too. -/
theorem branch_agrees {vw vh dx dy : F32} (hvw : FP vw) (hvh : FP vh) (hdx : FP dx) (hdy : FP dy)
    (hr : InRange (val vw) (val vh) (val dx) (val dy)) :
    (dx / dy < vw / vh → val dx / val dy < val vw / val vh) ∧
    (¬ dx / dy < vw / vh → val dx / val dy < val vw / val vh →
      (1 - u) * (val vw / val vh) ≤ (1 + u) * (val dx / val dy)) :=
  Fit32.branch_agrees hvw hvh hdx hdy hr

/-- (b)(c)(d) **meet**, in terms of the size `(w, h) = meetSize vw vh dx dy` the code chooses and the
    placement `place d s a = ((d − s)·a, (d − s)·a + s)` (`aspectMeet_eq32`: this IS `aspectMeet`).
    `MeetF32` says, for the exact fitted size `(W, H)` (the `ℚ` instance at the values of the inputs):
    `size`: `w, h` finite, `(1−3u)·W ≤ w ≤ (1+3u)·W`, same for `h`;  `size_touch`: `w = dx ∨ h = dy` as floats;
    `touch`: in that dimension the returned minimum has value 0 and the maximum is the target's, bit for bit;
    `x`, `y` (`Placed`): finite; `|min − a·(D−S)| ≤ 6u·(D+S)`, `|max − (a·(D−S)+S)| ≤ 7u·(D+S)`; and since
    `fits : W ≤ dx ∧ H ≤ dy`, `-(4u·D) ≤ min` and `max ≤ (1+5u)·D`. -/
theorem meet_f32 {vw vh dx dy ax ay : F32} (h : Hyp vw vh dx dy ax ay) :
    MeetF32 dx dy ax ay (meetSizeQ (val vw) (val vh) (val dx) (val dy)).1
      (meetSizeQ (val vw) (val vh) (val dx) (val dy)).2
      (meetSize vw vh dx dy).1 (meetSize vw vh dx dy).2
      (place dx (meetSize vw vh dx dy).1 ax).1 (place dy (meetSize vw vh dx dy).2 ay).1
      (place dx (meetSize vw vh dx dy).1 ax).2 (place dy (meetSize vw vh dx dy).2 ay).2 := Fit32.meet_f32 h

/-- (b)(c)(d) **slice**, with the placement `placeS d s a = ((d − s)·a, d − (d − s)·(1 − a))` (the far edge is
    measured from the target's far edge; `aspect_eq32`: this IS `aspectSlice`).  `SliceF32`: `size`,
    `size_touch`, `touch` as for meet; `x`, `y` (`PlacedS`): finite; `|min − a·(D−S)| ≤ 6u·(D+S)`,
    `|max − (a·(D−S)+S)| ≤ 8u·(D+S)` (the alignment of an overflowing rectangle can only be accurate relative
    to its own size); `covers`: `min ≤ 4u·D` and `(1−5u)·D ≤ max` — relative to the TARGET side;
    `covers_exact`: if the FLOAT side `s ≥ D` then `min ≤ 0` and `D ≤ max` with no tolerance;
    `covers_ulp`: if `(1−2u)·D ≤ s` then `min ≤ 3u·D` and `(1−4u)·D ≤ max`. -/
theorem slice_f32 {vw vh dx dy ax ay : F32} (h : Hyp vw vh dx dy ax ay) :
    SliceF32 dx dy ax ay (sliceSizeQ (val vw) (val vh) (val dx) (val dy)).1
      (sliceSizeQ (val vw) (val vh) (val dx) (val dy)).2
      (sliceSize vw vh dx dy).1 (sliceSize vw vh dx dy).2
      (placeS dx (sliceSize vw vh dx dy).1 ax).1 (placeS dy (sliceSize vw vh dx dy).2 ay).1
      (placeS dx (sliceSize vw vh dx dy).1 ax).2 (placeS dy (sliceSize vw vh dx dy).2 ay).2 := Fit32.slice_f32 h

/-- **`slice_covers_exact`** — what the repair of `AspectSlice` buys, in terms of `(w, h) = sliceSize …`:
    in the branch `dx/dy < vw/vh` (float test) `dx ≤ w` and `h = dy` as floats (monotone rounding:
    `rnd(dx/dy) < vbAR` forces `dx ≤ dy·vbAR`, and `dx` is representable), and the result covers the target
    exactly: `minX ≤ 0`, `dx ≤ maxX`, `minY = ±0`, `maxY = dy`; in the other branch `w = dx`, `minX = ±0`,
    `maxX = dx`, the float height `h = rnd(dx/vbAR)` satisfies `(1−2u)·dy ≤ h` (it can fall short of `dy` when
    the branch test was decided by rounding), covering in y is exact whenever `dy ≤ h`, and in any case
    `minY ≤ 3u·dy`, `(1−4u)·dy ≤ maxY`. -/
theorem slice_covers_exact {vw vh dx dy ax ay : F32} (h : Hyp vw vh dx dy ax ay) :
    (dx / dy < vw / vh →
      val dx ≤ val (sliceSize vw vh dx dy).1 ∧ (sliceSize vw vh dx dy).2 = dy ∧
      val (placeS dx (sliceSize vw vh dx dy).1 ax).1 ≤ 0 ∧ val dx ≤ val (placeS dx (sliceSize vw vh dx dy).1 ax).2 ∧
      val (placeS dy (sliceSize vw vh dx dy).2 ay).1 = 0 ∧ (placeS dy (sliceSize vw vh dx dy).2 ay).2 = dy) ∧
    (¬ dx / dy < vw / vh →
      (sliceSize vw vh dx dy).1 = dx ∧ (1 - 2 * u) * val dy ≤ val (sliceSize vw vh dx dy).2 ∧
      val (placeS dx (sliceSize vw vh dx dy).1 ax).1 = 0 ∧ (placeS dx (sliceSize vw vh dx dy).1 ax).2 = dx ∧
      (val dy ≤ val (sliceSize vw vh dx dy).2 →
        val (placeS dy (sliceSize vw vh dx dy).2 ay).1 ≤ 0 ∧ val dy ≤ val (placeS dy (sliceSize vw vh dx dy).2 ay).2) ∧
      val (placeS dy (sliceSize vw vh dx dy).2 ay).1 ≤ 3 * u * val dy ∧
      (1 - 4 * u) * val dy ≤ val (placeS dy (sliceSize vw vh dx dy).2 ay).2) := Fit32.slice_covers_exact h

/-- **exact covering by `aspectSlice`, as float32 comparisons with no tolerance**: in the branch
    `dx/dy < vbAR` the returned rectangle satisfies `minX ≤ 0 ∧ dx ≤ maxX ∧ minY ≤ 0 ∧ dy ≤ maxY`; in the other
    branch `minX ≤ 0 ∧ dx ≤ maxX`, and `minY ≤ 0 ∧ dy ≤ maxY` whenever the float height `dx / vbAR` is at
    least `dy` — otherwise `minY ≤ 3u·dy` and `(1−4u)·dy ≤ maxY`. -/
theorem aspectSlice_covers_exact (v : ViewBox F32) (dx dy ax ay : F32)
    (h : Hyp v.size.1 v.size.2 dx dy ax ay) :
    (dx / dy < v.size.1 / v.size.2 →
      (v.aspectSlice dx dy ax ay).1 ≤ 0 ∧ dx ≤ (v.aspectSlice dx dy ax ay).2.2.1 ∧
      (v.aspectSlice dx dy ax ay).2.1 ≤ 0 ∧ dy ≤ (v.aspectSlice dx dy ax ay).2.2.2) ∧
    (¬ dx / dy < v.size.1 / v.size.2 →
      (v.aspectSlice dx dy ax ay).1 ≤ 0 ∧ dx ≤ (v.aspectSlice dx dy ax ay).2.2.1 ∧
      (dy ≤ dx / (v.size.1 / v.size.2) →
        (v.aspectSlice dx dy ax ay).2.1 ≤ 0 ∧ dy ≤ (v.aspectSlice dx dy ax ay).2.2.2) ∧
      val (v.aspectSlice dx dy ax ay).2.1 ≤ 3 * u * val dy ∧
      (1 - 4 * u) * val dy ≤ val (v.aspectSlice dx dy ax ay).2.2.2) :=
  Fit32.aspectSlice_covers_exact v dx dy ax ay h

/-- only finiteness is used for the first branch: `rnd(dx/dy) < R` implies `dx ≤ rnd(dy·R)`. -/
theorem slice_w_ge {dx dy R : F32} (hdx : FP dx) (hdy : FP dy) (fR : Fn R) (fC : Fn (dx / dy))
    (fw : Fn (dy * R)) (hb : dx / dy < R) : val dx ≤ val (dy * R) := Fit32.slice_w_ge hdx hdy fR fC fw hb

/-- (b) in the form `|w − w*| ≤ C·2^-24·w*` with `C = 3`, meet and slice. -/
theorem size_err {vw vh dx dy ax ay : F32} (h : Hyp vw vh dx dy ax ay) :
    (|val (meetSize vw vh dx dy).1 - (meetSizeQ (val vw) (val vh) (val dx) (val dy)).1| ≤
      3 * u * (meetSizeQ (val vw) (val vh) (val dx) (val dy)).1 ∧
     |val (meetSize vw vh dx dy).2 - (meetSizeQ (val vw) (val vh) (val dx) (val dy)).2| ≤
      3 * u * (meetSizeQ (val vw) (val vh) (val dx) (val dy)).2) ∧
    (|val (sliceSize vw vh dx dy).1 - (sliceSizeQ (val vw) (val vh) (val dx) (val dy)).1| ≤
      3 * u * (sliceSizeQ (val vw) (val vh) (val dx) (val dy)).1 ∧
     |val (sliceSize vw vh dx dy).2 - (sliceSizeQ (val vw) (val vh) (val dx) (val dy)).2| ≤
      3 * u * (sliceSizeQ (val vw) (val vh) (val dx) (val dy)).2) :=
  ⟨Fit32.meet_size_err h, Fit32.slice_size_err h⟩

/-- the model functions ARE `meetSize` followed by `place`, resp. `sliceSize` followed by `placeS`, in each
    dimension -/
theorem aspect_eq32 (v : ViewBox F32) (dx dy ax ay : F32) :
    v.aspectMeet dx dy ax ay =
      ((place dx (meetSize v.size.1 v.size.2 dx dy).1 ax).1, (place dy (meetSize v.size.1 v.size.2 dx dy).2 ay).1,
       (place dx (meetSize v.size.1 v.size.2 dx dy).1 ax).2, (place dy (meetSize v.size.1 v.size.2 dx dy).2 ay).2) ∧
    v.aspectSlice dx dy ax ay =
      ((placeS dx (sliceSize v.size.1 v.size.2 dx dy).1 ax).1, (placeS dy (sliceSize v.size.1 v.size.2 dx dy).2 ay).1,
       (placeS dx (sliceSize v.size.1 v.size.2 dx dy).1 ax).2, (placeS dy (sliceSize v.size.1 v.size.2 dx dy).2 ay).2) :=
  ⟨aspectMeet_eq32 v dx dy ax ay, aspectSlice_eq32 v dx dy ax ay⟩

/-- the returned width and height (differences of the returned corners) are the exact fitted ones up to
    `13u·(target side + fitted side)` -/
theorem returned_size_near {r : F32 × F32 × F32 × F32} {q : ℚ × ℚ × ℚ × ℚ} {dx dy : ℚ} (h : CornersNear r q dx dy) :
    |(val r.2.2.1 - val r.1) - (q.2.2.1 - q.1)| ≤ 13 * u * (dx + (q.2.2.1 - q.1)) ∧
    |(val r.2.2.2 - val r.2.1) - (q.2.2.2 - q.2.1)| ≤ 13 * u * (dy + (q.2.2.2 - q.2.1)) := h.size

/-- **meet, `F32` instance against `ℚ` instance**: for every rational viewBox `vq` whose width and height
    are the values of the float width and height (`Ref`), the float result is finite (`Fin4`); every corner
    is within `6u` resp. `7u` times (target side + fitted side) of the exact corner (`CornersNear`); the
    rectangle lies in the target enlarged by `4u`/`5u` of the TARGET size (`InsideNear`); and it equals the
    target in one dimension bit for bit (`Touches`).  Together with `meet_fits` (the exact corners have the
    aspect ratio, lie inside, are aligned) this is the property clause for meet, with rounding relative to
    the target size (`fitted side ≤ target side`). -/
theorem aspectMeet_f32 (v : ViewBox F32) (vq : ViewBox ℚ) (dx dy ax ay : F32) (href : Ref v vq)
    (h : Hyp v.size.1 v.size.2 dx dy ax ay) :
    Fin4 (v.aspectMeet dx dy ax ay) ∧
    CornersNear (v.aspectMeet dx dy ax ay) (vq.aspectMeet (val dx) (val dy) (val ax) (val ay)) (val dx) (val dy) ∧
    InsideNear (v.aspectMeet dx dy ax ay) (val dx) (val dy) ∧
    Touches (v.aspectMeet dx dy ax ay) dx dy := Fit32.aspectMeet_f32 v vq dx dy ax ay href h

/-- **slice, `F32` instance against `ℚ` instance**: finite; every corner within `6u` (minima) resp. `8u`
    (maxima) times (target side + FITTED side) of the exact corner (`CornersNearS` — the position of a
    rectangle that overflows the target by a large factor can only be accurate relative to its own size);
    the rectangle covers the target shrunk by `4u`/`5u` of the TARGET size (`CoversNear`; sharpened to no
    tolerance at all by `aspectSlice_covers_exact`); and it equals the target in one dimension bit for bit
    (`Touches`).  With `slice_covers` (the exact corners have the aspect ratio, cover, are aligned) this is the
    property clause for slice. -/
theorem aspectSlice_f32 (v : ViewBox F32) (vq : ViewBox ℚ) (dx dy ax ay : F32) (href : Ref v vq)
    (h : Hyp v.size.1 v.size.2 dx dy ax ay) :
    Fin4 (v.aspectSlice dx dy ax ay) ∧
    CornersNearS (v.aspectSlice dx dy ax ay) (vq.aspectSlice (val dx) (val dy) (val ax) (val ay)) (val dx) (val dy) ∧
    CoversNear (v.aspectSlice dx dy ax ay) (val dx) (val dy) ∧
    Touches (v.aspectSlice dx dy ax ay) dx dy := Fit32.aspectSlice_f32 v vq dx dy ax ay href h

/-- slice: the returned width and height against the exact ones, `14u·(target side + fitted side)` -/
theorem returned_size_near_slice {r : F32 × F32 × F32 × F32} {q : ℚ × ℚ × ℚ × ℚ} {dx dy : ℚ}
    (h : CornersNearS r q dx dy) :
    |(val r.2.2.1 - val r.1) - (q.2.2.1 - q.1)| ≤ 14 * u * (dx + (q.2.2.1 - q.1)) ∧
    |(val r.2.2.2 - val r.2.1) - (q.2.2.2 - q.2.1)| ≤ 14 * u * (dy + (q.2.2.2 - q.2.1)) := h.size

/-- **the hypotheses from a decidable condition on bit patterns**: all four sizes (float width and height
    of the viewBox, target width and height) in `[2^-30, 2^30]` (`Sized`: `0x30800000 ≤ bits ≤ 0x4E800000`),
    alignment fractions in `[+0, 1]` (`FracB`: `bits ≤ 0x3F800000`).  (`inRange_of_in30` is the rational
    form: `InRange` holds whenever the four values lie in `[2^-30, 2^30]`.) -/
theorem hyp_of_sized {vw vh dx dy ax ay : F32} (h1 : Sized vw) (h2 : Sized vh) (h3 : Sized dx) (h4 : Sized dy)
    (h5 : FracB ax) (h6 : FracB ay) : Hyp vw vh dx dy ax ay := Fit32.hyp_of_sized h1 h2 h3 h4 h5 h6

theorem inRange_of_in30 {vw vh dx dy : ℚ} (h1 : In30 vw) (h2 : In30 vh) (h3 : In30 dx) (h4 : In30 dy) :
    InRange vw vh dx dy := Fit32.inRange_of_in30 h1 h2 h3 h4

/-! ### non-vacuity and concrete values (bit patterns; `0x41200000 = 10`, `0x40E00000 = 7`, `0x3F000000 = 0.5`) -/

/-- the 2:1 viewBox `(-2,0)–(2,2)` -/
def vbA : ViewBox F32 := ⟨⟨0xC0000000⟩, ⟨0⟩, ⟨0x40000000⟩, ⟨0x40000000⟩⟩
/-- the 3:1 viewBox `(0,0)–(3,1)`: `10/3` is not a float -/
def vbB : ViewBox F32 := ⟨⟨0⟩, ⟨0⟩, ⟨0x40400000⟩, ⟨0x3F800000⟩⟩

set_option maxRecDepth 100000 in
example : Sized vbA.size.1 ∧ Sized vbA.size.2 ∧ Sized ⟨0x41200000⟩ ∧ FracB ⟨0x3F000000⟩ := by decide +kernel
set_option maxRecDepth 100000 in
example : Hyp vbB.size.1 vbB.size.2 ⟨0x41200000⟩ ⟨0x40E00000⟩ ⟨0x3F000000⟩ ⟨0x3F000000⟩ :=
  hyp_of_sized (by decide +kernel) (by decide +kernel) (by decide +kernel) (by decide +kernel)
    (by decide +kernel) (by decide +kernel)
-- `(0, 2.5, 10, 7.5)` and `(-5, 0, 15, 10)`: the same as the `ℚ` examples above
set_option maxRecDepth 100000 in
example : vbA.aspectMeet ⟨0x41200000⟩ ⟨0x41200000⟩ ⟨0x3F000000⟩ ⟨0x3F000000⟩ =
      (⟨0⟩, ⟨0x40200000⟩, ⟨0x41200000⟩, ⟨0x40F00000⟩) ∧
    vbA.aspectSlice ⟨0x41200000⟩ ⟨0x41200000⟩ ⟨0x3F000000⟩ ⟨0x3F000000⟩ =
      (⟨0xC0A00000⟩, ⟨0⟩, ⟨0x41700000⟩, ⟨0x41200000⟩) := by decide +kernel
-- the exact reference of `vbB` is the rational viewBox `(0,0)–(3,1)`
set_option maxRecDepth 100000 in
example : Ref vbB ⟨0, 0, 3, 1⟩ := by
  have e1 : negB32 vbB.size.1.nb = false ∧ mantB vbB.size.1.nb = 12582912 ∧ expB vbB.size.1.nb = -22 := by
    decide +kernel
  have e2 : negB32 vbB.size.2.nb = false ∧ mantB vbB.size.2.nb = 8388608 ∧ expB vbB.size.2.nb = -23 := by
    decide +kernel
  unfold Ref val bval sval
  rw [e1.1, e1.2.1, e1.2.2, e2.1, e2.2.1, e2.2.2]
  unfold pow2; norm_num
-- an inexact case: 3:1 into 10×7, centred; meet gives `(0, 1.8333333, 10, 5.1666665)`
set_option maxRecDepth 100000 in
example : vbB.aspectMeet ⟨0x41200000⟩ ⟨0x40E00000⟩ ⟨0x3F000000⟩ ⟨0x3F000000⟩ =
      (⟨0⟩, ⟨1072343723⟩, ⟨0x41200000⟩, ⟨1084577109⟩) := by decide +kernel

/-- **the input of the former finding is now covered**: the 2^25:1 viewBox `(0,0)–(33554432,1)` sliced into
    the 1×1 target with `ax = 1` (align the maxima); all sizes are in `[2^-30, 2^30]`.  The exact result is
    `[1 − 2^25, 1] × [0, 1]`.  Before the repair (`maxX := minX + vdx`) the float result was `[−2^25, 0] × [0,1]`,
    which does not cover the target in x at all; with the far edge measured from the target's far edge it is
    `[−2^25, 1] × [0, 1]`: `maxX = dx` exactly.
    (Go: `ViewBox{0,0,33554432,1}.AspectSlice(1,1,1,0) = (-3.3554432e+07, 0, 1, 1)`.) -/
def vbFar : ViewBox F32 := ⟨⟨0⟩, ⟨0⟩, ⟨0x4C000000⟩, ⟨0x3F800000⟩⟩
set_option maxRecDepth 100000 in
theorem slice_far_right_covered :
    Hyp vbFar.size.1 vbFar.size.2 ⟨0x3F800000⟩ ⟨0x3F800000⟩ ⟨0x3F800000⟩ ⟨0⟩ ∧
    vbFar.aspectSlice ⟨0x3F800000⟩ ⟨0x3F800000⟩ ⟨0x3F800000⟩ ⟨0⟩ =
      (⟨0xCC000000⟩, ⟨0⟩, ⟨0x3F800000⟩, ⟨0x3F800000⟩) :=
  ⟨hyp_of_sized (by decide +kernel) (by decide +kernel) (by decide +kernel) (by decide +kernel)
    (by decide +kernel) (by decide +kernel), by decide +kernel⟩

/-- **the range hypothesis is needed** (finding F-b, out of range): width `2^64`, height `2^-64` (finite,
    positive): the aspect ratio overflows to `+Inf`; slice into the 1×1 target returns `(-Inf, 0, NaN, 1)` with
    `ax = 1` and `(-Inf, 0, +Inf, 1)` centred.
    (Go: `ViewBox{0,0,0x1p64,0x1p-64}.AspectSlice(1,1,1,.5) = (-Inf, 0, NaN, 1)`, `…(1,1,.5,.5) = (-Inf, 0, +Inf, 1)`.) -/
def vbHuge : ViewBox F32 := ⟨⟨0⟩, ⟨0⟩, ⟨0x5F800000⟩, ⟨0x1F800000⟩⟩
set_option maxRecDepth 100000 in
theorem slice_overflow_nan :
    vbHuge.aspectSlice ⟨0x3F800000⟩ ⟨0x3F800000⟩ ⟨0x3F800000⟩ ⟨0x3F000000⟩ =
      (⟨0xFF800000⟩, ⟨0⟩, ⟨0xFFC00000⟩, ⟨0x3F800000⟩) ∧
    vbHuge.aspectSlice ⟨0x3F800000⟩ ⟨0x3F800000⟩ ⟨0x3F000000⟩ ⟨0x3F000000⟩ =
      (⟨0xFF800000⟩, ⟨0⟩, ⟨0x7F800000⟩, ⟨0x3F800000⟩) := by decide +kernel

/-!
## Not proved in this file

* The `F32` theorems assume `Hyp`: float width/height of the viewBox and target sizes finite and positive,
  alignment fractions finite in `[0,1]`, and `InRange` — the six exact quantities `vw/vh`, `dx/dy`,
  `dx/(vw/vh)`, `dy·(vw/vh)`, `dx`, `dy` in `[2·2^-126, (2^24−1)·2^104/8]`.  `hyp_of_sized` discharges it
  when the four sizes are in `[2^-30, 2^30]`.  Outside `InRange` nothing is proved, and the property fails
  there (`slice_overflow_nan`: finite positive sizes, NaN result).
* Covering (slice) and containment (meet) are proved relative to the TARGET size, covering even exactly
  (`aspectSlice_covers_exact`), except in one case: in the branch where `vdy = rnd(dx/vbAR)` is computed and
  that float falls short of `dy` (by at most `2u·dy`, when the branch test was decided by rounding), covering
  in y holds only up to `3u·dy` / `4u·dy`.  The ALIGNMENT of the slice rectangle (`CornersNearS`) is accurate
  relative to target side + fitted side only: an overflow of `2^24` target sizes or more cannot be positioned
  to a fraction of the target size in float32.  For meet the two scales coincide up to a factor 2.
* The exact reference is the `ℚ` instance at the values of the FLOAT width and height (`Ref`); the error
  of `Size()` itself is `size_f32` (relative `2^-24` per dimension) and is not propagated through the
  fitting (the aspect ratio of a viewBox whose coordinates nearly cancel is ill-conditioned in the
  coordinates, not in the width and height).
* The operation-level lemmas (`sub_err`, `FloatErr.add_err/mul_err/div_err`) and `InRange` use the largest
  finite float `(2^24−1)·2^104` as the upper limit rather than the exact overflow threshold of `Rnd_rel_err`.
* Degenerate inputs (zero or negative viewBox or target size, NaN/Inf inputs, alignment outside `[0,1]`)
  are outside the property.
-/

end Ivg.Props.C12

#obligations C12 [Ivg.Props.C12.meet_fits,
  Ivg.Props.C12.slice_covers,
  Ivg.Props.C12.meet_alignment,
  Ivg.Props.C12.slice_alignment,
  Ivg.Props.C12.size_eq,
  Ivg.Props.C12.Rnd_rel_err,
  Ivg.Props.C12.Rnd_abs_err,
  Ivg.Props.C12.sub_err,
  Ivg.Props.C12.size_f32,
  Ivg.Props.C12.branch_agrees,
  Ivg.Props.C12.meet_f32,
  Ivg.Props.C12.slice_f32,
  Ivg.Props.C12.size_err,
  Ivg.Props.C12.aspect_eq32,
  Ivg.Props.C12.returned_size_near,
  Ivg.Props.C12.aspectMeet_f32,
  Ivg.Props.C12.aspectSlice_f32,
  Ivg.Props.C12.hyp_of_sized,
  Ivg.Props.C12.inRange_of_in30,
  Ivg.Props.C12.slice_covers_exact,
  Ivg.Props.C12.aspectSlice_covers_exact,
  Ivg.Props.C12.slice_w_ge,
  Ivg.Props.C12.returned_size_near_slice,
  Ivg.Props.C12.slice_far_right_covered,
  Ivg.Props.C12.slice_overflow_nan,
  Ivg.Gen.Tie.viewBox_fields_tie,
  -- regenerated code (translator) = model, for all inputs: ivg.go Size/AspectMeet/AspectSlice
  Ivg.Gen.Tie.size_code_tie,
  Ivg.Gen.Tie.aspectMeet_code_tie,
  Ivg.Gen.Tie.aspectSlice_code_tie]
