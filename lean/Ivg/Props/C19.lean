import Ivg.Lemmas.GenQ
import Ivg.Lemmas.Gen32x
import Ivg.Gen.Tie.GenerateErrors
import Ivg.Gen.Tie.GeneratorFields
import Ivg.Gen.Tie.Code.RenderRegs
import Ivg.Gen.Tie.Code.GenGrad
import Ivg.Obligations
/-!
# C19 — the generator's gradient helpers

Property text: "The generator's gradient helpers write a gradient that, when rendered, realises the
requested geometry: linear has offset 0 at (x1,y1), 1 at (x2,y2) and is constant along perpendiculars;
circular has 0 at the centre and 1 on the circle through centre plus radius vector; elliptical has 1 at
both axis end points; the general form uses the given matrix. The stops, spread and shape given are the
ones rendered; stop colours and offsets are stored in the contiguous registers the written gradient
value itself names, with the matrix in the six number registers below its number base; more stops than
fit beside the matrix (58) or a colour selector inside the stop range are rejected with the documented
errors before anything is written; and CSEL and NSEL are left as they were."

Model: `Ivg/Model/Generator.lean` (`setGradient`, `linearMatrix`, `circularMatrix`, `ellipticalMatrix`),
mirroring `/repo/generate/generate.go`.  Geometry is proved for the model instantiated at EXACT
arithmetic (`ℚ`) and, with explicit error bounds, at float32 (`Ivg/Lemmas/Gen32*.lean`); the structure of
`SetGradient` is proved for every number type.
`GenQ.app m x y` applies the viewBox-to-gradient matrix `m = [a0 a1 a2; a3 a4 a5]` to a viewBox point;
`Gradient.at` (C15) takes the first component as offset for the linear shape and the distance of the
image from the origin for the radial shape.
-/
namespace Ivg.Props.C19
open Ivg Gen GenQ

/-! ## geometry (exact arithmetic) -/

/-- Clause "linear has offset 0 at (x1,y1), 1 at (x2,y2) and is constant along perpendiculars".  The
    third conjunct gives the offset of every point (its projection on the segment), the fourth says a
    step of any length `s` along the perpendicular direction `(y2−y1, −(x2−x1))` does not change it. -/
theorem linear_gradient_geometry (x1 y1 x2 y2 : ℚ) (h : x1 ≠ x2 ∨ y1 ≠ y2) :
    let m := linearMatrix x1 y1 x2 y2
    (app m x1 y1).1 = 0 ∧ (app m x2 y2).1 = 1 ∧
    (∀ px py, (app m px py).1 =
      ((px - x1) * (x2 - x1) + (py - y1) * (y2 - y1)) / ((x2 - x1) * (x2 - x1) + (y2 - y1) * (y2 - y1))) ∧
    (∀ px py s, (app m (px + s * (y2 - y1)) (py - s * (x2 - x1))).1 = (app m px py).1) ∧
    (∀ s, (app m (x1 + s * (y2 - y1)) (y1 - s * (x2 - x1))).1 = 0) ∧
    (∀ s, (app m (x2 + s * (y2 - y1)) (y2 - s * (x2 - x1))).1 = 1) :=
  GenQ.linear_gradient_geometry x1 y1 x2 y2 h
example : (1 : ℚ) ≠ 4 ∨ (2 : ℚ) ≠ 6 := Or.inl (by norm_num)

/-- Clause "circular has 0 at the centre and 1 on the circle through centre plus radius vector".
    `ℚ` has no square root: the theorem holds for EVERY exact-arithmetic instance `[SqrtQ]` whose
    `sqrt` squares to its argument at the one value `rx²+ry²` the helper takes the root of (`hs`).
    Squared distances are used to avoid a second root: the image of the centre is the origin, the image
    of `centre + radius vector` has squared norm 1, and the squared norm of the image of any point is its
    squared distance from the centre over the squared radius. -/
theorem circular_gradient_geometry [SqrtQ] (cx cy rx ry : ℚ) (hne : rx ≠ 0 ∨ ry ≠ 0)
    (hs : SqrtQ.sq (rx * rx + ry * ry) * SqrtQ.sq (rx * rx + ry * ry) = rx * rx + ry * ry) :
    let m := circularMatrix (β := ℚ) cx cy rx ry
    app m cx cy = (0, 0) ∧
    (app m (cx + rx) (cy + ry)).1 * (app m (cx + rx) (cy + ry)).1 +
      (app m (cx + rx) (cy + ry)).2 * (app m (cx + rx) (cy + ry)).2 = 1 ∧
    (∀ px py, (app m px py).1 * (app m px py).1 + (app m px py).2 * (app m px py).2 =
      ((px - cx) * (px - cx) + (py - cy) * (py - cy)) / (rx * rx + ry * ry)) :=
  GenQ.circular_gradient_geometry cx cy rx ry hne hs
-- non-vacuity: radius vector (3,4) with a square-root function that is right at 25
example : let _ : SqrtQ := SqrtQ.ofTable [(25, 5)]
    ((3 : ℚ) ≠ 0 ∨ (4 : ℚ) ≠ 0) ∧
      SqrtQ.sq ((3 : ℚ) * 3 + 4 * 4) * SqrtQ.sq ((3 : ℚ) * 3 + 4 * 4) = 3 * 3 + 4 * 4 := sqrt_table_example

/-- The same on the SHAPE of the matrix `SetCircularGradient` builds, `[invR 0 −cx·invR; 0 invR −cy·invR]`,
    for any `invR` with `invR²·(rx²+ry²) = 1` (no square-root function involved). -/
theorem circular_shape_geometry (cx cy rx ry invR : ℚ) (h : invR * invR * (rx * rx + ry * ry) = 1) :
    let m : Aff3 ℚ := ⟨invR, 0, -cx * invR, 0, invR, -cy * invR⟩
    app m cx cy = (0, 0) ∧
    (app m (cx + rx) (cy + ry)).1 * (app m (cx + rx) (cy + ry)).1 +
      (app m (cx + rx) (cy + ry)).2 * (app m (cx + rx) (cy + ry)).2 = 1 ∧
    (∀ px py, (app m px py).1 * (app m px py).1 + (app m px py).2 * (app m px py).2 =
      ((px - cx) * (px - cx) + (py - cy) * (py - cy)) * (invR * invR)) :=
  GenQ.circular_shape_geometry cx cy rx ry invR h
example : ((1 : ℚ) / 5) * (1 / 5) * (3 * 3 + 4 * 4) = 1 := by norm_num

/-- Clause "elliptical has 1 at both axis end points": the centre goes to the origin and the two axis end
    points to `(1,0)` and `(0,1)`, both at distance 1 from the origin. -/
theorem elliptical_gradient_geometry (cx cy rx ry sx sy : ℚ) (h : rx * sy - sx * ry ≠ 0) :
    let m := ellipticalMatrix cx cy rx ry sx sy
    app m cx cy = (0, 0) ∧ app m (cx + rx) (cy + ry) = (1, 0) ∧ app m (cx + sx) (cy + sy) = (0, 1) :=
  GenQ.elliptical_gradient_geometry cx cy rx ry sx sy h
example : (2 : ℚ) * 3 - 1 * 0 ≠ 0 := by norm_num

/-! ## geometry at float32 (the helpers as the Go code runs them)

The model instantiated at the bit-exact soft floats `(F32, F64)`; `Gen32.off M p` / `Gen32.off2 M p` are the two
gradient-space coordinates of the viewBox point `p`, evaluated EXACTLY (in `ℚ`) from the float32 entries of the
matrix `M` the helper writes; `val` is the rational value of a float32; `u = 2^-24`.  The range hypotheses
(`LinOK`, `CircOK`, `EllOK`) are simple sufficient conditions — finite operands in `[−2^20, 2^20]`, the relevant
length / determinant at least `2^-20` / `2^-40` — under which no intermediate result overflows; the underflow of
a product or quotient is accounted for in the bounds (no hypothesis excludes it). -/
section f32
open Num FloatMono32 FloatErr Gen32

/-- Clause "linear has offset 0 at (x1,y1), 1 at (x2,y2) and is constant along perpendiculars" at float32:
    the entries are finite; `|offset(p1)| ≤ 3u·K`; `|offset(p2) − 1| ≤ 9u + |offset(p1)| ≤ 12u·K`; a step of `s`
    times the perpendicular `(DY, −DX)` from ANY point changes the offset by at most `9u·|s|`; hence the two
    perpendiculars through the end points.  `K = Gen32.linK = 1 + (|DX·X1| + |DY·Y1|)/(DX² + DY²)` is the
    condition number (`K ≤ 1 + (|X1|+|Y1|)/L` for every rational `L ≤ |p2 − p1|`, `linear_K_le`): the matrix
    entry `c = −a·x1 − b·y1` is rounded relative to `|a·x1| + |b·y1|`, so the zero of the offset is only as
    accurate as float32 is at the distance of `p1` from the origin measured in gradient lengths. -/
theorem linearMatrix_f32 {x1 y1 x2 y2 : F32} (h : LinOK x1 y1 x2 y2) :
    let M := linearMatrix x1 y1 x2 y2
    let K := linK x1 y1 x2 y2
    let DX := val x2 - val x1
    let DY := val y2 - val y1
    (Fn M.a0 ∧ Fn M.a1 ∧ Fn M.a2) ∧
    |off M (val x1) (val y1)| ≤ 3 * u * K ∧
    |off M (val x2) (val y2) - 1| ≤ 9 * u + |off M (val x1) (val y1)| ∧
    |off M (val x2) (val y2) - 1| ≤ 12 * u * K ∧
    (∀ px py s, |off M (px + s * DY) (py - s * DX) - off M px py| ≤ 9 * u * |s|) ∧
    (∀ s, |off M (val x1 + s * DY) (val y1 - s * DX)| ≤ 3 * u * K + 9 * u * |s|) ∧
    (∀ s, |off M (val x2 + s * DY) (val y2 - s * DX) - 1| ≤ 12 * u * K + 9 * u * |s|) :=
  Gen32.linearMatrix_f32 h
example : LinOK (F32.ofInt 1) (F32.ofInt 2) (F32.ofInt 4) (F32.ofInt 6) := Gen32x.linOK_example

/-- … the entries themselves, and EVERY point: `a`, `b` are within `8u` (relative) `+ 2^-150` of the exact
    `DX/D`, `DY/D`, and the offset of any viewBox point is within
    `(8u·|A| + 2^-150)·|px − X1| + (8u·|B| + 2^-150)·|py − Y1| + |offset(p1)|` of its exact projection
    `linExact = A·(px − X1) + B·(py − Y1)` (`Mix32.tiny = 2^-150`). -/
theorem linear_offset_f32 {x1 y1 x2 y2 : F32} (h : LinOK x1 y1 x2 y2) :
    let M := linearMatrix x1 y1 x2 y2
    (|val M.a0 - linA x1 y1 x2 y2| ≤ 8 * u * |linA x1 y1 x2 y2| + Mix32.tiny ∧
     |val M.a1 - linB x1 y1 x2 y2| ≤ 8 * u * |linB x1 y1 x2 y2| + Mix32.tiny ∧
     val M.a3 = 0 ∧ val M.a4 = 0 ∧ val M.a5 = 0) ∧
    ∀ px py, |off M px py - linExact x1 y1 x2 y2 px py| ≤
      (8 * u * |linA x1 y1 x2 y2| + Mix32.tiny) * |px - val x1| +
      (8 * u * |linB x1 y1 x2 y2| + Mix32.tiny) * |py - val y1| + |off M (val x1) (val y1)| :=
  ⟨⟨(Gen32.lin_entries h).2.1, (Gen32.lin_entries h).2.2.1, (Gen32.lin_entries h).2.2.2.2⟩,
   fun px py => Gen32.linear_offset_err h px py⟩

/-- the condition number in terms of a length -/
theorem linear_K_le {x1 y1 x2 y2 : F32} (h : LinOK x1 y1 x2 y2) (L : ℚ) (hL : 0 < L)
    (hLD : L * L ≤ linD x1 y1 x2 y2) : linK x1 y1 x2 y2 ≤ 1 + (|val x1| + |val y1|) / L :=
  Gen32.linK_le h L hL hLD
example : (0 : ℚ) < 5 ∧ (5 : ℚ) * 5 ≤ (4 - 1) * (4 - 1) + (6 - 2) * (6 - 2) := by norm_num

/-- The condition number is NOT an artefact of the proof.  An in-range horizontal gradient from
    `x1 = 1000000.0625` to `x2 = 1000000.25` (bit patterns `0x49742401`, `0x49742404`; `y = 0`): the matrix written
    is `[0x40AAAAAB 0 0xCAA2C2AC; 0 0 0]` and its offsets are `−0.1744` at the first point and `0.8256` at the
    second (exactly as stated), where the requested geometry has 0 and 1.  (`linK ≈ 5.3·10^6`, `3u·K ≈ 0.95`;
    float32 has spacing 0.5 at `c = −5333334`.) -/
theorem linear_ill_conditioned :
    let x1 : F32 := ⟨0x49742401⟩
    let x2 : F32 := ⟨0x49742404⟩
    let M := linearMatrix x1 (F32.ofInt 0) x2 (F32.ofInt 0)
    val x1 = 16000001 / 16 ∧ val x2 = 4000001 / 4 ∧
    off M (val x1) 0 = -5851477 / 33554432 ∧ off M (val x2) 0 = 6925739 / 8388608 :=
  Gen32x.ill_conditioned_linear

/-- Clause "circular has 0 at the centre and 1 on the circle through centre plus radius vector" at float32
    (`1/√(rx²+ry²)` in float64, narrowed to float32): with `(gx, gy) = (off M p, off2 M p)` — the radial offset is
    `√(gx² + gy²)` — and `K = Gen32.circK = 1 + (|CX| + |CY|)/(|RX| + |RY|)`: at the centre `|gx|, |gy| ≤ 2u·K` and
    `gx² + gy² ≤ (2u·K)²`; at centre + radius vector `|gx² + gy² − 1| ≤ 12u·K + 4(u·K)²`, and the offset `ρ ≥ 0`,
    `ρ² = gx² + gy²`, is at least as close to 1. -/
theorem circularMatrix_f32 {cx cy rx ry : F32} (h : CircOK cx cy rx ry) :
    let M := circularMatrix (β := F64) cx cy rx ry
    let K := circK cx cy rx ry
    (Fn M.a0 ∧ Fn M.a2 ∧ Fn M.a4 ∧ Fn M.a5 ∧ val M.a1 = 0 ∧ val M.a3 = 0) ∧
    (|off M (val cx) (val cy)| ≤ 2 * u * K ∧ |off2 M (val cx) (val cy)| ≤ 2 * u * K ∧
      off M (val cx) (val cy) * off M (val cx) (val cy) + off2 M (val cx) (val cy) * off2 M (val cx) (val cy) ≤
        (2 * u * K) * (2 * u * K)) ∧
    |off M (val cx + val rx) (val cy + val ry) * off M (val cx + val rx) (val cy + val ry) +
      off2 M (val cx + val rx) (val cy + val ry) * off2 M (val cx + val rx) (val cy + val ry) - 1| ≤
        12 * u * K + 4 * (u * K) * (u * K) ∧
    (∀ ρ : ℚ, 0 ≤ ρ →
      ρ * ρ = off M (val cx + val rx) (val cy + val ry) * off M (val cx + val rx) (val cy + val ry) +
        off2 M (val cx + val rx) (val cy + val ry) * off2 M (val cx + val rx) (val cy + val ry) →
      |ρ - 1| ≤ 12 * u * K + 4 * (u * K) * (u * K)) :=
  Gen32.circularMatrix_f32 h
example : CircOK (F32.ofInt 5) (F32.ofInt 7) (F32.ofInt 3) (F32.ofInt 4) := Gen32x.circOK_example

/-- … the scale entry alone (no condition number): `ι = float32(1/√(rx²+ry²))` is finite, positive and
    `|ι²·(RX² + RY²) − 1| ≤ 6u` — the radius of the circle of offset 1 is right to relative `3u`. -/
theorem circular_invR_f32 {rx ry : F32} (h : RadOK rx ry) :
    Fn (invR rx ry) ∧ 0 < val (invR rx ry) ∧ val (invR rx ry) ≤ 4194304 ∧
    |val (invR rx ry) * val (invR rx ry) * (val rx * val rx + val ry * val ry) - 1| ≤ 6 * u :=
  Gen32.invR_err h
example : RadOK (F32.ofInt 3) (F32.ofInt 4) := Gen32x.circOK_example.rad

/-- Clause "elliptical has 1 at both axis end points" at float32: the centre goes to within `7u·K` (each
    coordinate) of the origin, the first axis end point to within `(E, 7u·K)` of `(1, 0)`, the second to within
    `(7u·K, E)` of `(0, 1)`, `E = 15u·K`; so both squared distances from the origin are within `2E + 2E²` of 1.
    `K = Gen32.ellK = ((|RX|+|SX|)·(|RY|+|SY|) + (|RY|+|SY|)·|CX| + (|RX|+|SX|)·|CY|)/|DET|`,
    `DET = RX·SY − SX·RY`.  The range hypothesis `EllOK` bounds the conditioning of that subtraction,
    `|RX·SY| + |SX·RY| ≤ 2^20·|DET|`: for nearly parallel axis vectors the float32 determinant cancels (it can be
    zero, and the matrix infinite). -/
theorem ellipticalMatrix_f32 {cx cy rx ry sx sy : F32} (h : EllOK cx cy rx ry sx sy) :
    let M := ellipticalMatrix cx cy rx ry sx sy
    let K := ellK cx cy rx ry sx sy
    let E := 15 * u * K
    (Fn M.a0 ∧ Fn M.a1 ∧ Fn M.a2 ∧ Fn M.a3 ∧ Fn M.a4 ∧ Fn M.a5) ∧
    (|off M (val cx) (val cy)| ≤ 7 * u * K ∧ |off2 M (val cx) (val cy)| ≤ 7 * u * K) ∧
    (|off M (val cx + val rx) (val cy + val ry) - 1| ≤ E ∧ |off2 M (val cx + val rx) (val cy + val ry)| ≤ 7 * u * K) ∧
    (|off M (val cx + val sx) (val cy + val sy)| ≤ 7 * u * K ∧ |off2 M (val cx + val sx) (val cy + val sy) - 1| ≤ E) ∧
    |off M (val cx + val rx) (val cy + val ry) * off M (val cx + val rx) (val cy + val ry) +
      off2 M (val cx + val rx) (val cy + val ry) * off2 M (val cx + val rx) (val cy + val ry) - 1| ≤
        2 * E + 2 * (E * E) ∧
    |off2 M (val cx + val sx) (val cy + val sy) * off2 M (val cx + val sx) (val cy + val sy) +
      off M (val cx + val sx) (val cy + val sy) * off M (val cx + val sx) (val cy + val sy) - 1| ≤
        2 * E + 2 * (E * E) :=
  Gen32.ellipticalMatrix_f32 h
example : EllOK (F32.ofInt 5) (F32.ofInt 7) (F32.ofInt 2) (F32.ofInt 0) (F32.ofInt 1) (F32.ofInt 3) :=
  Gen32x.ellOK_example

/-- … the determinant and its reciprocal: `|det − DET| ≤ 3u·N + u·|DET|` (`N = |RX·SY| + |SX·RY|`), and
    `|ι·DET − 1| ≤ 4u·κ + 4u` with `κ = N/|DET|`. -/
theorem elliptical_det_f32 {cx cy rx ry sx sy : F32} (h : EllOK cx cy rx ry sx sy) :
    (Fn (rx * sy - sx * ry) ∧
      |val (rx * sy - sx * ry) - ellDET rx ry sx sy| ≤ 3 * u * ellN rx ry sx sy + u * |ellDET rx ry sx sy|) ∧
    (Fn (ellInv rx ry sx sy) ∧
      |val (ellInv rx ry sx sy) * ellDET rx ry sx sy - 1| ≤ 4 * u * ellKappa rx ry sx sy + 4 * u ∧
      |val (ellInv rx ry sx sy)| * |ellDET rx ry sx sy| ≤ 2) :=
  ⟨Gen32.det_err h, Gen32.inv_err h⟩

end f32

/-! ## `SetGradient` (every number type) -/

/-- Clause "more stops than fit beside the matrix (58) … are rejected with the documented error": more
    than 58 stops give `TooManyGradientStops`, 58 or fewer never do. -/
theorem too_many_stops {α : Type} (cSel nSel shape spread : UInt8) (stops : List (α × RGBA)) (t : Aff3 α) :
    (58 < stops.length → setGradient cSel nSel shape spread stops t = .error .tooManyGradientStops) ∧
    (stops.length ≤ 58 → setGradient cSel nSel shape spread stops t ≠ .error .tooManyGradientStops) :=
  GenQ.too_many_stops cSel nSel shape spread stops t
example : 58 < (List.replicate 59 ((0 : Nat), RGBA.black)).length := by decide

/-- Clause "a colour selector inside the stop range [is] rejected with the documented error", exactly:
    with at most 58 stops the error is `CSELUsedAsBothGradientAndStop` iff `cselClash` holds, i.e.
    `10 ≤ CSEL < 10+n` or the same for `CSEL+64` computed in `uint8` … -/
theorem csel_in_stop_range {α : Type} (cSel nSel shape spread : UInt8) (stops : List (α × RGBA)) (t : Aff3 α)
    (hn : stops.length ≤ 58) :
    setGradient cSel nSel shape spread stops t = .error .cselUsedAsBothGradientAndStop ↔
      cselClash cSel stops.length :=
  GenQ.csel_in_stop_range cSel nSel shape spread stops t hn

/-- … and for a selector that is a register number (`< 64`, as every `CSel()` read-back is) this is
    exactly: CREG[CSEL] — where the gradient value goes — is one of the registers `(10+i) mod 64`,
    `i < n`, that receive the stop colours.  The `+64` clause covers stops 54…57, which wrap around to
    registers 0…3. -/
theorem csel_clash_iff (cSel : UInt8) (n : Nat) (hn : n ≤ 58) (hc : cSel.toNat < 64) :
    cselClash cSel n ↔ ∃ i, i < n ∧ (10 + i) % 64 = cSel.toNat :=
  GenQ.cselClash_iff cSel n hn hc
example : cselClash 12 3 ∧ ¬ cselClash 13 3 ∧ cselClash 2 58 ∧ ¬ cselClash 2 56 := by decide

/-- No other error is reported … -/
theorem setGradient_errors {α : Type} (cSel nSel shape spread : UInt8) (stops : List (α × RGBA)) (t : Aff3 α)
    (e : GenErr) (h : setGradient cSel nSel shape spread stops t = .error e) :
    e = .tooManyGradientStops ∨ e = .cselUsedAsBothGradientAndStop :=
  GenQ.setGradient_errors cSel nSel shape spread stops t e h

/-- … and (clause "before anything is written") an error comes without any Destination call: the model's
    result is either an error or a call list, as both checks precede the first call in the Go code. -/
theorem errors_before_writes {α : Type} (cSel nSel shape spread : UInt8) (stops : List (α × RGBA)) (t : Aff3 α)
    (e : GenErr) (h : setGradient cSel nSel shape spread stops t = .error e) :
    ∀ calls, setGradient cSel nSel shape spread stops t ≠ .ok calls :=
  GenQ.errors_before_writes cSel nSel shape spread stops t e h
example : setGradient (α := Nat) 11 0 0 0 [(0, RGBA.black), (1, RGBA.black)] ⟨0, 0, 0, 0, 0, 0⟩ =
    .error .cselUsedAsBothGradientAndStop := by decide

/-- Clauses "the stops, spread and shape given are the ones rendered; stop colours and offsets are stored
    in the contiguous registers the written gradient value itself names, with the matrix in the six
    number registers below its number base; … CSEL and NSEL are left as they were" — as a statement about
    the calls made: the gradient value `g` goes to CREG[CSEL]; `g` decodes (`decodeGradient`, what the
    renderer's `initGradient` reads) to colour base 10, number base 10, the given shape and spread and
    the number of stops, and is a gradient value, not a colour; the selectors are set to the bases; the
    matrix is written to NREG[NSEL−6 … NSEL−1] (non-incrementing, adjustments 6…1); every stop writes its
    colour and offset through the INCREMENTING forms with adjustment 0, i.e. to CREG/NREG[10+i]; the last
    two calls restore the selector values read at the start. -/
theorem setgradient_layout {α : Type} (cSel nSel shape spread : UInt8) (stops : List (α × RGBA)) (t : Aff3 α)
    (hn : stops.length ≤ 58) (hc : ¬ cselClash cSel stops.length) :
    let g := encodeGradient 10 10 shape spread (UInt8.ofNat stops.length)
    setGradient cSel nSel shape spread stops t =
      .ok ([.setCReg 0 false (Color.rgbaColor g), .setCSel 10, .setNSel 10,
            .setNReg 6 false t.a0, .setNReg 5 false t.a1, .setNReg 4 false t.a2,
            .setNReg 3 false t.a3, .setNReg 2 false t.a4, .setNReg 1 false t.a5] ++
           stops.flatMap (fun s => [.setCReg 0 true (Color.rgbaColor s.2), .setNReg 0 true s.1]) ++
           [.setCSel cSel, .setNSel nSel]) ∧
    decodeGradient g = ⟨10, 10, shape &&& 0x01, spread &&& 0x03, UInt8.ofNat stops.length⟩ ∧
    g.validGradient = true ∧ g.validPremul = false :=
  GenQ.setgradient_layout cSel nSel shape spread stops t hn hc
example : (2 : Nat) ≤ 58 ∧ ¬ cselClash 0 2 := by decide

/-- `decodeGradient ∘ encodeGradient` for ALL byte arguments: each field comes back masked to its width. -/
theorem decode_encode_gradient (cBase nBase shape spread nStops : UInt8) :
    decodeGradient (encodeGradient cBase nBase shape spread nStops) =
      ⟨cBase &&& 0x3f, nBase &&& 0x3f, shape &&& 0x01, spread &&& 0x03, nStops &&& 0x3f⟩ :=
  GenQ.decode_encode_gradient cBase nBase shape spread nStops

/-- The same clauses on the RENDERER's register machine (`Renderer.step` for `setCSel`/`setNSel`/`setCReg`/
    `setNReg`), for every number type: running the calls of a successful `SetGradient` — made with the
    renderer's own selector read-backs, both `< 64` — makes no rasteriser call and leaves a state in which
    CSEL and NSEL are what they were; CREG[CSEL] holds the gradient value `g`; CREG/NREG[(10+i) mod 64] hold
    colour / offset of stop `i` (the registers `g` names: bases 10/10, `n` stops); NREG[4…9] = NREG[10−6…10−1]
    hold the matrix `t.a0…t.a5` — exactly the six registers `initGradient` reads as `a…f`
    (`Ivg.Props.C15.pix2grad_compose`), so "the general form uses the given matrix"; every other register and
    everything else in the renderer state (`Rendered.others`) is unchanged. -/
theorem setGradient_rendered {α β : Type} [Arith α] [Arith β] [Wide α β]
    (arc : Ren.ArcFn α β) (posInf : α) (z : Ren.Renderer α β)
    (hcs : z.cSel.toNat < 64) (hns : z.nSel.toNat < 64)
    (shape spread : UInt8) (stops : List (α × RGBA)) (t : Aff3 α) (calls : List (Call α))
    (h : setGradient z.cSel z.nSel shape spread stops t = .ok calls) :
    let z' := (z.run arc posInf calls).1
    let g := encodeGradient 10 10 shape spread (UInt8.ofNat stops.length)
    (z.run arc posInf calls).2 = [] ∧
    z'.cSel = z.cSel ∧ z'.nSel = z.nSel ∧ Rendered.others z' = Rendered.others z ∧
    z'.cReg.get6 z.cSel = g ∧
    (∀ i (hi : i < stops.length) (j : UInt8), j.toNat % 64 = (10 + i) % 64 →
      z'.cReg.get6 j = stops[i].2 ∧ z'.nReg.get6 j = stops[i].1) ∧
    (z'.nReg.get6 4 = t.a0 ∧ z'.nReg.get6 5 = t.a1 ∧ z'.nReg.get6 6 = t.a2 ∧
     z'.nReg.get6 7 = t.a3 ∧ z'.nReg.get6 8 = t.a4 ∧ z'.nReg.get6 9 = t.a5) ∧
    (∀ j : UInt8, j.toNat % 64 ≠ z.cSel.toNat → (∀ i, i < stops.length → (10 + i) % 64 ≠ j.toNat % 64) →
      z'.cReg.get6 j = z.cReg.get6 j) ∧
    (∀ j : UInt8, (j.toNat % 64 < 4 ∨ 9 < j.toNat % 64) → (∀ i, i < stops.length → (10 + i) % 64 ≠ j.toNat % 64) →
      z'.nReg.get6 j = z.nReg.get6 j) :=
  Rendered.setGradient_rendered arc posInf z hcs hns shape spread stops t calls h
-- non-vacuity: a fresh renderer (selectors 0) and two stops
example : (0 : UInt8).toNat < 64 ∧
    ∃ calls, setGradient (α := ℚ) 0 0 0 1 [(0, RGBA.black), (1, RGBA.zero)] ⟨1, 0, 0, 0, 1, 0⟩ = .ok calls :=
  ⟨by decide, _, (GenQ.setgradient_layout 0 0 0 1 _ _ (by decide) (by decide)).1⟩

/-- C19 composed with C15, at exact arithmetic — the opening clause "write a gradient that, when rendered,
    realises the requested geometry … the stops, spread and shape given are the ones rendered": run the calls
    of a successful `SetGradient` with at least two VALID stops (`Composed.stopsValid`: premultiplied colours,
    offsets in `[0,1]`, strictly increasing — what the renderer insists on) on a renderer; then the gradient
    value now in CREG[CSEL] is ACCEPTED by the renderer's `initGradient`; the paint has the given shape and
    spread (low bits); it maps a pixel `(px, py)` to gradient space by the GIVEN matrix `t` applied to the
    viewBox point `(unabsX px, unabsY py)` (so with `t` one of the three helper matrices, the geometry
    theorems above apply to what is painted); and its colour at every pixel is the specification's `colorAt`
    (`Ivg/Spec/Grad.lean`) of exactly the given stops. -/
theorem helper_rendered [SqrtQ] (arc : Ren.ArcFn ℚ ℚ) (posInf : ℚ) (z : Ren.Renderer ℚ ℚ)
    (hcs : z.cSel.toNat < 64) (hns : z.nSel.toNat < 64)
    (shape spread : UInt8) (stops : List (ℚ × RGBA)) (t : Gen.Aff3 ℚ) (calls : List (Call ℚ))
    (h : setGradient z.cSel z.nSel shape spread stops t = .ok calls)
    (hv : Composed.stopsValid stops) (h2 : 2 ≤ stops.length) :
    let z' := (z.run arc posInf calls).1
    ∃ g : Grad.Gradient ℚ, z'.initGradient (z'.cReg.get6 z'.cSel) = some g ∧
      g.shape = shape &&& 0x01 ∧ g.spread = spread &&& 0x03 ∧
      (∀ px py : ℚ,
        g.pix2Grad.a * px + g.pix2Grad.b * py + g.pix2Grad.c = t.a0 * z.unabsX px + t.a1 * z.unabsY py + t.a2 ∧
        g.pix2Grad.d * px + g.pix2Grad.e * py + g.pix2Grad.f = t.a3 * z.unabsX px + t.a4 * z.unabsY py + t.a5) ∧
      ∀ x y : Int,
        GradQ.toCol (g.at x y) = Spec.Grad.colorAt (Spec.Grad.Spread.ofCode (spread &&& 0x03))
          (stops.map (fun s => (s.1, GradQ.toCol (Ren.rgba64Of s.2)))) (GradQ.rawOffset g x y) :=
  Composed.helper_rendered arc posInf z hcs hns shape spread stops t calls h hv h2
-- non-vacuity: two valid stops
example : Composed.stopsValid [((0 : ℚ), RGBA.black), (1, RGBA.zero)] ∧
    2 ≤ [((0 : ℚ), RGBA.black), (1, RGBA.zero)].length := by
  refine ⟨⟨⟨by decide, by norm_num, by norm_num⟩, by norm_num, by decide, by norm_num, by norm_num⟩, by decide⟩

/-!
## Not proved in this file

* Rounding: `helper_rendered` (the composition with the renderer) is about the `ℚ` instance.  The three
  matrices ARE bounded at float32 (section "geometry at float32"), under the range hypotheses stated there and
  with the offsets evaluated exactly from the float32 entries; not covered: operands outside `[−2^20, 2^20]`,
  points closer than `2^-20` / axis determinants below `2^-40`, elliptical axes with
  `|RX·SY| + |SX·RY| > 2^20·|DET|` (nearly parallel), non-finite operands, and the renderer's own float
  evaluation of the offset (C15's float theorems start from the matrix in the registers).  The bounds carry
  condition numbers (`linK`, `circK`, `ellK`) that grow with the distance of the gradient from the origin in
  units of its size; `linear_ill_conditioned` shows an in-range input where the written matrix is off by 0.17.
  `setGradient_rendered` and the error/layout theorems hold for every number type.
* `Color.RGBA()>>8` of the stop colours (conversion of a Go `color.Color` to 8-bit RGBA) happens before the
  model's `setGradient` and is not modelled.
* With fewer than two stops, or invalid stops, the renderer rejects the gradient (`initGradient = none`) and
  disables the path; `helper_rendered` says nothing then.
-/

end Ivg.Props.C19

#obligations C19 [Ivg.Props.C19.linear_gradient_geometry,
  Ivg.Props.C19.circular_gradient_geometry,
  Ivg.Props.C19.circular_shape_geometry,
  Ivg.Props.C19.elliptical_gradient_geometry,
  Ivg.Props.C19.linearMatrix_f32,
  Ivg.Props.C19.linear_offset_f32,
  Ivg.Props.C19.linear_K_le,
  Ivg.Props.C19.linear_ill_conditioned,
  Ivg.Props.C19.circularMatrix_f32,
  Ivg.Props.C19.circular_invR_f32,
  Ivg.Props.C19.ellipticalMatrix_f32,
  Ivg.Props.C19.elliptical_det_f32,
  Ivg.Props.C19.too_many_stops,
  Ivg.Props.C19.csel_in_stop_range,
  Ivg.Props.C19.csel_clash_iff,
  Ivg.Props.C19.setGradient_errors,
  Ivg.Props.C19.errors_before_writes,
  Ivg.Props.C19.setgradient_layout,
  Ivg.Props.C19.decode_encode_gradient,
  Ivg.Props.C19.setGradient_rendered,
  Ivg.Props.C19.helper_rendered,
  Ivg.Gen.Tie.generateErrors_tie,
  Ivg.Gen.Tie.generator_fields_tie,
  Ivg.Gen.Tie.gradientStop_fields_tie,
  -- regenerated code (translator, Ivg/Gen/Code) = model, for all inputs: RenderRegs (Reset recomputes the transform; the selectors keep six bits)
  Ivg.Gen.Tie.renderer_CSel_code_tie,
  Ivg.Gen.Tie.renderer_NSel_code_tie,
  Ivg.Gen.Tie.renderer_SetCSel_code_tie,
  Ivg.Gen.Tie.renderer_SetNSel_code_tie,
  Ivg.Gen.Tie.renderer_SetLOD_code_tie,
  Ivg.Gen.Tie.renderer_SetNReg_code_tie,
  Ivg.Gen.Tie.positiveInfinity_code_tie,
  Ivg.Gen.Tie.renderer_Reset_code_tie,
  Ivg.Gen.Tie.renderer_Reset_code_tie_frame,
  -- regenerated code (translator) = model, for all inputs: Generator.SetGradient and the three geometric helpers (matrix in float32 / float64 sqrt, registers written, errors, selectors restored), a colour's RGBA() a pure function of the value
  Ivg.Gen.Tie.setGradient_code_tie,
  Ivg.Gen.Tie.setGradient_fixed,
  Ivg.Gen.Tie.setGradient_selectors_restored,
  Ivg.Gen.Tie.setLinearGradient_code_tie,
  Ivg.Gen.Tie.setCircularGradient_code_tie,
  Ivg.Gen.Tie.setEllipticalGradient_code_tie,
  Ivg.Gen.Tie.setLinearGradient_model_tie,
  Ivg.Gen.Tie.setCircularGradient_model_tie,
  Ivg.Gen.Tie.setEllipticalGradient_model_tie]
