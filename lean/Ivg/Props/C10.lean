import Ivg.Lemmas.EncoderProto
import Ivg.Lemmas.ProtoLink
import Ivg.Props.C01
import Ivg.Gen.Tie.DrawOps
import Ivg.Gen.Tie.EncodeErrors
import Ivg.Gen.Tie.Magic
import Ivg.Gen.Tie.Code.Encoder
import Ivg.Gen.Tie.Code.Encoder2
import Ivg.Gen.Tie.Code.Encoder3
import Ivg.Gen.Tie.Code.Encoder4
import Ivg.Gen.Tie.Code.Encoder5
import Ivg.Gen.Tie.Code.Encoder6
import Ivg.Gen.Tie.Code.Encoder7
import Ivg.Obligations
/-!
# C10 — the Encoder reports an error exactly when the call protocol was violated

Property text: "An Encoder's Bytes reports an error exactly when the call history since the last
Reset violated the protocol: a drawing operation outside a path, a styling operation or new path
inside an open path, a register adjustment above 6, or an incrementing form with non-zero
adjustment. The first violation is kept until Reset whatever is called afterwards; every
violation-free history with all paths ended (and a valid viewBox) yields a stream the decoder accepts
and that decodes to that history; and a zero-value Encoder behaves as one reset with the default
metadata."

The protocol is specified independently of the Encoder model by the four-state automaton of
`Ivg/Spec/Protocol.lean` (`Spec.Protocol.pstep`, `prun`), written from the text above.  The theorems
are about the executable model `Ivg.Enc.Encoder` (`Ivg/Model/Encoder.lean`), tied to /repo by the
differential suite and by `Gen.Tie.encodeErrors_tie` (the four error values), `drawOps_tie`, `magic_tie`.
Histories range over the WHOLE API: the 26 delivering methods (`EncOp.call`), `CSel()`, `NSel()`,
`LOD()`, `Bytes()` and assignments to the exported field `HighResolutionCoordinates`.
-/
namespace Ivg.Props.C10
open Ivg Ivg.Num Ivg.Enc Ivg.Spec.Protocol Ivg.EncoderProto

/-- Refinement (the basis of everything below): every use of the API moves the abstraction of the
    Encoder (`abs`: `failed k` if `err = k`, else by `mode`) along the protocol automaton.
    `Inv e` is the reachability invariant "an error recorded while a path is open is
    `errStylingOpsUsedInDrawingMode`"; it holds of the zero value, after every Reset, and is
    preserved by everything (`inv_preserved`).  It is needed: `checkModeStyling` overwrites `err`
    in drawing mode, see the counterexample below. -/
theorem refinement (e : Encoder) (hinv : Inv e) (op : EncOp) :
    abs (e.stepOp op).1 = pstep (abs e) (classify op) := refine_op e hinv op
theorem inv_preserved (e : Encoder) (hinv : Inv e) (op : EncOp) : Inv (e.stepOp op).1 := inv_op e hinv op
theorem inv_initially : Inv ({} : Encoder) ∧ ∀ (e : Encoder) vb pal, Inv (e.step (.reset vb pal)) :=
  ⟨inv_zero, fun _ _ _ => inv_of_err_none rfl⟩
-- a state satisfying the invariant, with an open path and an error
example : Inv ((({} : Encoder).step (.startPath 0 F32.zero F32.zero)).step (.setCSel 1)) ∧
    ((({} : Encoder).step (.startPath 0 F32.zero F32.zero)).step (.setCSel 1)).err =
      some .stylingOpsUsedInDrawingMode := by
  constructor
  · intro _; right; decide
  · decide
-- the invariant is necessary for "the first violation is kept": on this UNREACHABLE state a styling
-- call replaces the recorded error
example : ¬ Inv { err := some .invalidSelectorAdjustment, mode := .drawing } ∧
    (({ err := some .invalidSelectorAdjustment, mode := .drawing } : Encoder).step (.setCSel 1)).err =
      some .stylingOpsUsedInDrawingMode := by
  constructor
  · intro h; have := h rfl; simp at this
  · decide

/-- Clause "Bytes reports an error exactly when the call history … violated the protocol", from the
    zero value: after the history `h`, `Bytes()` returns the error `k` iff the automaton run on `h`
    ends in `failed k` — so the error reported is the one of the FIRST violation. -/
theorem bytes_error_iff (h : List EncOp) (k : EncErr) :
    (({} : Encoder).runOps h).1.bytes.2 = .error k ↔ prun .fresh (h.map classify) = .failed (kindOf k) :=
  EncoderProto.bytes_error_iff h k
example : (({} : Encoder).runOps [.call (.setCReg 7 true (Color.rgbaColor ⟨0, 0, 0, 0xff⟩))]).1.bytes.2 =
    .error .invalidSelectorAdjustment := by rfl
example : (({} : Encoder).runOps [.readCSel, .call (.setNReg 2 true F32.zero), .call .closeEnd]).1.bytes.2 =
    .error .invalidIncrementingAdjustment := by rfl

/-- … and returns bytes (no error) iff the history is violation free. -/
theorem bytes_ok_iff (h : List EncOp) :
    (∃ b, (({} : Encoder).runOps h).1.bytes.2 = .ok b) ↔ (prun .fresh (h.map classify)).isFailed = false :=
  EncoderProto.bytes_ok_iff h
set_option maxRecDepth 100000 in
example : (({} : Encoder).runOps [.call (.startPath 0 F32.zero F32.zero), .bytes, .setHiRes true,
    .call (.d1 .H F32.zero), .call .closeEnd]).1.bytes.2.toOption =
      some [0x89, 0x49, 0x56, 0x47, 0, 0xc0, 0x80, 0x80, 0xe6, 0x80, 0xe1] := by
  decide +kernel

/-- "since the last Reset": the same from ANY state `e₀` (reachable or not, with or without an error
    recorded) that is then Reset — only the uses `h` after the Reset count. -/
theorem bytes_error_iff_after_reset (e₀ : Encoder) (vb : ViewBox F32) (pal : Palette) (h : List EncOp)
    (k : EncErr) :
    ((e₀.step (.reset vb pal)).runOps h).1.bytes.2 = .error k ↔
      prun .styling (h.map classify) = .failed (kindOf k) :=
  EncoderProto.bytes_error_iff_after_reset e₀ vb pal h k

/-- the error held in the state, Boolean form -/
theorem err_iff_violation (h : List EncOp) :
    (({} : Encoder).runOps h).1.err.isSome = (prun .fresh (h.map classify)).isFailed :=
  EncoderProto.err_iff_violation h

/-- Clause "The first violation is kept until Reset whatever is called afterwards": once an error
    `k` is recorded, after ANY further uses of the API other than Reset the error is still `k` and
    `Bytes()` reports `k`. -/
theorem first_violation_kept (e : Encoder) (hinv : Inv e) (k : EncErr) (herr : e.err = some k)
    (ops : List EncOp) (hops : ∀ op ∈ ops, classify op ≠ .reset) :
    (e.runOps ops).1.err = some k ∧ (e.runOps ops).1.bytes.2 = .error k :=
  first_error_kept_run e hinv k herr ops hops
example : Inv (({} : Encoder).step .closeEnd) ∧
    (({} : Encoder).step .closeEnd).err = some .drawingOpsUsedInStylingMode ∧
    ∀ op ∈ [EncOp.call (.setCSel 70), .bytes, .call (.startPath 9 F32.zero F32.zero)], classify op ≠ .reset := by
  refine ⟨inv_op _ inv_zero (.call .closeEnd), by decide, ?_⟩
  intro op hop
  simp at hop
  rcases hop with rfl | rfl | rfl <;> simp [classify, classifyCall]
/-- `classify op = .reset` exactly for calls of `Reset`. -/
theorem reset_classification (op : EncOp) :
    classify op = .reset ↔ ∃ vb pal, op = .call (.reset vb pal) := classify_reset_iff op

/-- "until Reset": Reset clears the error, from any state. -/
theorem reset_clears_error (e : Encoder) (vb : ViewBox F32) (pal : Palette) :
    (e.step (.reset vb pal)).err = none ∧ abs (e.step (.reset vb pal)) = .styling := ⟨rfl, rfl⟩

/-- Clause "a zero-value Encoder behaves as one reset with the default metadata": for EVERY history
    `h` over the whole API, the zero value and an Encoder (in any state `e₀`) after
    `Reset(DefaultViewBox, DefaultPalette)` yield the same observations — identical if `h` contains no
    `LOD()` read, identical up to the second component of `LOD()` results otherwise (`obsErase`) —
    and `Bytes()` then returns the same result.  The exception is real, see below. -/
theorem zero_value_is_default_reset (e₀ : Encoder) (h : List EncOp) :
    ((∀ op ∈ h, op ≠ .readLOD) →
      (({} : Encoder).runOps h).2 = ((e₀.step (.reset defaultViewBox defaultPalette)).runOps h).2) ∧
    (({} : Encoder).runOps h).2.map obsErase =
      ((e₀.step (.reset defaultViewBox defaultPalette)).runOps h).2.map obsErase ∧
    (({} : Encoder).runOps h).1.bytes.2 =
      ((e₀.step (.reset defaultViewBox defaultPalette)).runOps h).1.bytes.2 :=
  EncoderProto.zero_value_is_default_reset e₀ h
example : ∀ op ∈ [EncOp.setHiRes true, .readCSel, .call (.startPath 0 F32.zero F32.zero), .bytes], op ≠ .readLOD := by
  intro op hop; simp at hop; rcases hop with rfl | rfl | rfl | rfl <;> simp
/-- The documented deviation (outside the property's observables, which are the bytes): the zero
    value's `LOD()` reports `(0, 0)`, an Encoder reset with the default metadata reports `(0, +Inf)`. -/
theorem zero_value_lod_deviation :
    ({} : Encoder).readLOD.2 = (F32.zero, F32.zero) ∧
    ((({} : Encoder).step (.reset defaultViewBox defaultPalette)).readLOD).2 = (F32.zero, F32.posInf) := by
  constructor
  · rfl
  · rw [reset_default]; rfl

/-- Clause "every violation-free history with all paths ended (and a valid viewBox) yields a stream the
    decoder accepts and that decodes to that history": for a Reset-free history `p` of delivering calls
    (colours constructible in Go) that the protocol AUTOMATON runs from `styling` back to `styling`
    without failure, after `Reset vb pal` with a valid viewBox and a premultiplied palette, `Bytes`
    succeeds and the decoder accepts the bytes and delivers `Reset` followed by exactly the history,
    each call up to the quantisation `Q hi` of its numeric operands (C01, C08).  This joins the automaton
    of this file to the round-trip theorem of C01 (`ProtoLink.proto_of_prun`). -/
theorem violation_free_decodes (vb : ViewBox F32) (pal : Palette) (hi : Bool) (p : List (Call F32))
    (hv : vbNeDefault vb = true → Header.VBValid vb) (hp : ∀ c ∈ pal.toList, c.validPremul = true)
    (hnr : ∀ c ∈ p, classifyCall c ≠ .reset) (hwf : ∀ adj incr c, Call.setCReg adj incr c ∈ p → c.WF)
    (hvf : prun .styling (p.map classifyCall) = .styling) :
    let e := ({ (({} : Encoder).reset vb pal) with hiRes := hi } : Encoder).run p
    ∃ bs, e.bytes.2 = .ok bs ∧
      Dec.decode [] bs = (.reset (Header.rtViewBox vb) pal :: p.map (RoundTrip.Q hi), none) :=
  Ivg.Props.C01.encode_decode vb pal hi p false hv hp (ProtoLink.proto_of_prun p false false hnr hwf hvf)

/-- the same with a path left open at the end (the decoder accepts such a stream too) -/
theorem violation_free_open_decodes (vb : ViewBox F32) (pal : Palette) (hi : Bool) (p : List (Call F32))
    (hv : vbNeDefault vb = true → Header.VBValid vb) (hp : ∀ c ∈ pal.toList, c.validPremul = true)
    (hnr : ∀ c ∈ p, classifyCall c ≠ .reset) (hwf : ∀ adj incr c, Call.setCReg adj incr c ∈ p → c.WF)
    (hvf : prun .styling (p.map classifyCall) = .drawing) :
    let e := ({ (({} : Encoder).reset vb pal) with hiRes := hi } : Encoder).run p
    ∃ bs, e.bytes.2 = .ok bs ∧
      Dec.decode [] bs = (.reset (Header.rtViewBox vb) pal :: p.map (RoundTrip.Q hi), none) :=
  Ivg.Props.C01.encode_decode vb pal hi p true hv hp (ProtoLink.proto_of_prun p false true hnr hwf hvf)

/-- the automaton and the inductive protocol predicate of the round-trip proof accept the same
    Reset-free programs -/
theorem automaton_iff_proto (p : List (Call F32)) (inPath endPath : Bool)
    (hnr : ∀ c ∈ p, classifyCall c ≠ .reset) (hwf : ∀ adj incr c, Call.setCReg adj incr c ∈ p → c.WF) :
    prun (ProtoLink.st inPath) (p.map classifyCall) = ProtoLink.st endPath ↔ EncoderInv.Proto inPath p endPath :=
  ⟨ProtoLink.proto_of_prun p inPath endPath hnr hwf, ProtoLink.prun_of_proto p inPath endPath⟩
example : prun .styling (([.setCSel 70, .startPath 2 ⟨0x3f800000⟩ ⟨0xc0000000⟩, .d2 .L ⟨0x40400000⟩ ⟨0x40400000⟩,
    .closeEnd] : List (Call F32)).map classifyCall) = .styling := by decide

/-!
## Not proved in this file

* "decodes to that history" is up to the quantisation `Q hi` of numeric operands (what the format can
  hold); exactness on representable operands is C08.
* The automaton `Spec.Protocol.pstep` IS the formal reading of "violated the protocol"; its agreement
  with the English text is by inspection (see the `example`s in `Ivg/Spec/Protocol.lean`).
* Go-level aliasing is outside the model: `Bytes()` returns a slice that aliases the Encoder's buffer,
  which `Reset` reuses (`e.buf[:0]`).
-/

end Ivg.Props.C10

#obligations C10 [
  Ivg.Props.C10.refinement, Ivg.Props.C10.inv_preserved, Ivg.Props.C10.inv_initially,
  Ivg.Props.C10.bytes_error_iff, Ivg.Props.C10.bytes_ok_iff, Ivg.Props.C10.bytes_error_iff_after_reset,
  Ivg.Props.C10.err_iff_violation, Ivg.Props.C10.first_violation_kept, Ivg.Props.C10.reset_classification,
  Ivg.Props.C10.reset_clears_error, Ivg.Props.C10.zero_value_is_default_reset,
  Ivg.Props.C10.zero_value_lod_deviation, Ivg.Props.C10.violation_free_decodes,
  Ivg.Props.C10.violation_free_open_decodes, Ivg.Props.C10.automaton_iff_proto,
  Ivg.Gen.Tie.encodeErrors_tie, Ivg.Gen.Tie.drawOps_tie, Ivg.Gen.Tie.magic_tie,
  -- regenerated code (translator): the whole encode.Encoder (every method except SetNReg) = the model's Encoder.step, through the representation encOf / WFEnc
  Ivg.Gen.Tie.drawOps_code_tie_all,
  Ivg.Gen.Tie.drawOps_code_tie,
  Ivg.Gen.Tie.errDrawingOpsUsedInStylingMode_code_tie,
  Ivg.Gen.Tie.errInvalidSelectorAdjustment_code_tie,
  Ivg.Gen.Tie.errInvalidIncrementingAdjustment_code_tie,
  Ivg.Gen.Tie.errStylingOpsUsedInDrawingMode_code_tie,
  Ivg.Gen.Tie.encodeError_Error_code_tie,
  Ivg.Gen.Tie.positiveInfinity_code_tie_enc,
  Ivg.Gen.Tie.negativeInfinity_code_tie_enc,
  Ivg.Gen.Tie.appendDefaultMetadata_code_tie,
  Ivg.Gen.Tie.cSel_code_tie,
  Ivg.Gen.Tie.nSel_code_tie,
  Ivg.Gen.Tie.lOD_code_tie,
  Ivg.Gen.Tie.checkModeStyling_code_tie,
  Ivg.Gen.Tie.setCSel_code_tie,
  Ivg.Gen.Tie.setNSel_code_tie,
  Ivg.Gen.Tie.setLOD_code_tie,
  Ivg.Gen.Tie.encoder_startPath_code_tie,
  Ivg.Gen.Tie.setCReg_code_tie,
  Ivg.Gen.Tie.flushDrawOps_code_tie,
  Ivg.Gen.Tie.draw_code_tie,
  Ivg.Gen.Tie.draw_code_tie',
  Ivg.Gen.Tie.encoder_absHLineTo_code_tie,
  Ivg.Gen.Tie.encoder_relHLineTo_code_tie,
  Ivg.Gen.Tie.encoder_absVLineTo_code_tie,
  Ivg.Gen.Tie.encoder_relVLineTo_code_tie,
  Ivg.Gen.Tie.encoder_absLineTo_code_tie,
  Ivg.Gen.Tie.encoder_relLineTo_code_tie,
  Ivg.Gen.Tie.encoder_absSmoothQuadTo_code_tie,
  Ivg.Gen.Tie.encoder_relSmoothQuadTo_code_tie,
  Ivg.Gen.Tie.encoder_closePathAbsMoveTo_code_tie,
  Ivg.Gen.Tie.encoder_closePathRelMoveTo_code_tie,
  Ivg.Gen.Tie.encoder_absQuadTo_code_tie,
  Ivg.Gen.Tie.encoder_relQuadTo_code_tie,
  Ivg.Gen.Tie.encoder_absSmoothCubeTo_code_tie,
  Ivg.Gen.Tie.encoder_relSmoothCubeTo_code_tie,
  Ivg.Gen.Tie.encoder_absCubeTo_code_tie,
  Ivg.Gen.Tie.encoder_relCubeTo_code_tie,
  Ivg.Gen.Tie.encoder_closePathEndPath_code_tie,
  Ivg.Gen.Tie.arcTo_code_tie,
  Ivg.Gen.Tie.absArcTo_code_tie,
  Ivg.Gen.Tie.relArcTo_code_tie,
  Ivg.Gen.Tie.bytes_code_tie,
  Ivg.Gen.Tie.setCSel_code_tie_state,
  Ivg.Gen.Tie.setNSel_code_tie_state,
  Ivg.Gen.Tie.setCReg_code_tie_state,
  Ivg.Gen.Tie.setLOD_code_tie_state,
  Ivg.Gen.Tie.encoder_startPath_code_tie_state,
  Ivg.Gen.Tie.cSel_code_tie_state,
  Ivg.Gen.Tie.nSel_code_tie_state,
  Ivg.Gen.Tie.lOD_code_tie_state,
  Ivg.Gen.Tie.draw_code_tie_state,
  Ivg.Gen.Tie.bytes_code_tie_state,
  Ivg.Gen.Tie.reset_code_tie,
  Ivg.Gen.Tie.reset_code_tie_state,
  Ivg.Gen.Tie.wfEnc_init,
  Ivg.Gen.Tie.wfEnc_step,
  Ivg.Gen.Tie.wfEnc_runOps,
  Ivg.Gen.Tie.scratch_readback, Ivg.Gen.Tie.setNReg_code_tie, Ivg.Gen.Tie.setNReg_code_tie_state]
