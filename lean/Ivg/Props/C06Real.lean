import Ivg.Lemmas.ArcGeneric
import Ivg.Lemmas.ArcRealCount
import Ivg.Lemmas.ArcReal3
import Ivg.Gen.Tie.RendererFields
import Ivg.Gen.Tie.Code.Transform
import Ivg.Obligations
/-!
# C06 — elliptical arcs: the geometric clauses, for the same algorithm over the real numbers

`Ivg/Props/C06.lean` proves, for the bit-exact float model `arcF32` of `Renderer.AbsArcTo`
(render/render.go:406–578): at most four cubic segments, zero radius = line, relative = absolute at pen + offset.
The remaining clauses of C06 — the segments START AT THE PEN, END AT THE ARC'S ENDPOINT, PASS THROUGH POINTS OF THE
ELLIPSE with the given radii and x-axis rotation (radii scaled up uniformly when too small), and SWEEP IN THE DIRECTION
AND EXTENT selected by the flags — cannot hold exactly in floating point.  They are proved here for THE SAME
ALGORITHM evaluated over `ℝ`:

1. `Ivg/Lemmas/ArcGeneric.lean` transcribes the float64 part of `AbsArcTo` statement by statement against a class
   `ArcNum β` (`+ - * / neg < ≤ abs sqrt sin cos acos π ofInt ½`): `arcAngleG`, `arcCentreG` (steps 1–4 of the SVG
   "conversion from endpoint to centre parameterisation" and the sweep adjustment, returning the record
   `(cx, cy, Rx, Ry, cosPhi, sinPhi, theta1, deltaTheta)`), `arcEndG`/`arcCtrl1G`/`arcCtrl2G` (the three points of
   a segment), `arcSegAngleG` (the angle where segment `i` of `n` starts).
2. **Tie (for every input, by unfolding):** the model IS the generic algorithm at the instance `ArcNum F64`
   (`arc_is_generic`, `arc_is_generic_cubics`, `arc_segment_is_generic`, `angle_is_generic`).
3. **Geometry:** the generic algorithm at the instance `ArcNum ℝ` (`Real.sqrt`, `Real.sin`, `Real.cos`,
   `Real.arccos`, `Real.pi`) satisfies every geometric clause, for all real inputs with positive radii and distinct
   end points, for every rotation, both flags, and every segment count `n ≥ 1`.

What links the two instances is only that they run the same generic program; see "NOT proved" at the end.
-/
namespace Ivg.Props.C06Real
open Ivg Num Ren Real Ivg.ArcReal

/-! ## The tie: the model is the generic algorithm at `F64` -/

/-- **Tie, whole function.**  For every input, `arcF32` (bit-exact with `AbsArcTo`) is: the line for degenerate
    radii, and otherwise the subdivision `arcSegments` of the ellipse record computed by the GENERIC centre
    parameterisation `arcCentreG` at `F64` (from the pen in viewBox space, the end point, `|rx|`, `|ry|`,
    `φ = 2π·rot` and the flags), with the segment count computed from the generic `Δθ`. -/
theorem arc_is_generic (z : Renderer F32 F64) (rx ry rot : F32) (la sw : Bool) (x y : F32) :
    arcF32 z rx ry rot la sw x y =
      if ¬ (Ren.f 0 < (F64.ofF32 rx).abs ∧ Ren.f 0 < (F64.ofF32 ry).abs) then [.lineTo (z.absX x) (z.absY y)]
      else
        let c := arcCentreG (F64.ofF32 (z.unabsX z.penX)) (F64.ofF32 (z.unabsY z.penY)) (F64.ofF32 x) (F64.ofF32 y)
                   (F64.ofF32 rx).abs (F64.ofF32 ry).abs (twoPi * F64.ofF32 rot) la sw
        arcSegments z c.cx c.cy c.theta1 c.deltaTheta c.Rx c.Ry c.cosPhi c.sinPhi
          ((c.deltaTheta.abs / segAngle).ceil.toInt64) 8 0 :=
  arcF32_eq_generic z rx ry rot la sw x y

/-- **Tie, one segment.**  The cubic emitted for the ellipse record `c` from angle `θ1` to `θ2` has the generic
    control points and ENDS at the generic ellipse point `arcEndG c θ2`, each converted to `float32` and mapped
    to pixel space. -/
theorem arc_segment_is_generic (z : Renderer F32 F64) (c : ArcCentre F64) (θ1 θ2 : F64) :
    arcSegment z c.cx c.cy θ1 θ2 c.Rx c.Ry c.cosPhi c.sinPhi =
      .cubeTo (z.absX (arcCtrl1G c θ1 θ2).1.toF32) (z.absY (arcCtrl1G c θ1 θ2).2.toF32)
              (z.absX (arcCtrl2G c θ1 θ2).1.toF32) (z.absY (arcCtrl2G c θ1 θ2).2.toF32)
              (z.absX (arcEndG c θ2).1.toF32) (z.absY (arcEndG c θ2).2.toF32) :=
  arcSegment_eq_generic z c θ1 θ2

/-- **Tie, the emitted list.**  For positive radii the model emits exactly the `n ≤ 4` cubics `k = 0, …, n-1`
    whose points are the generic points at the generic angles `arcSegAngleG c n k`, `arcSegAngleG c n (k+1)`:
    segment `k+1` starts at the angle where segment `k` ended. -/
theorem arc_is_generic_cubics (z : Renderer F32 F64) (rx ry rot : F32) (la sw : Bool) (x y : F32)
    (hr : Ren.f 0 < (F64.ofF32 rx).abs ∧ Ren.f 0 < (F64.ofF32 ry).abs) :
    let c := arcCentreF64 z rx ry rot la sw x y
    let n := arcCountF64 c
    n ≤ 4 ∧
    arcF32 z rx ry rot la sw x y =
      (List.range n.toNat).map fun (k : Nat) =>
        .cubeTo
          (z.absX (arcCtrl1G c (arcSegAngleG c n k) (arcSegAngleG c n (k + 1))).1.toF32)
          (z.absY (arcCtrl1G c (arcSegAngleG c n k) (arcSegAngleG c n (k + 1))).2.toF32)
          (z.absX (arcCtrl2G c (arcSegAngleG c n k) (arcSegAngleG c n (k + 1))).1.toF32)
          (z.absY (arcCtrl2G c (arcSegAngleG c n k) (arcSegAngleG c n (k + 1))).2.toF32)
          (z.absX (arcEndG c (arcSegAngleG c n (k + 1))).1.toF32)
          (z.absY (arcEndG c (arcSegAngleG c n (k + 1))).2.toF32) :=
  arcF32_generic_cubics z rx ry rot la sw x y hr

/-- non-vacuity: radius 5 (`0x40a00000`) is positive -/
example : Ren.f 0 < (F64.ofF32 ⟨0x40a00000⟩).abs ∧ Ren.f 0 < (F64.ofF32 ⟨0x40a00000⟩).abs := by decide

/-- **Tie, the `angle` closure.** -/
theorem angle_is_generic (ux uy vx vy : F64) : arcAngle ux uy vx vy = arcAngleG ux uy vx vy :=
  arcAngle_eq_generic ux uy vx vy

/-- the readable restatement of the algorithm used in the real proofs (`Ivg.ArcReal.arcCentreR`, in stages, in
    Mathlib notation) IS the generic algorithm at `ℝ` -/
theorem real_restatement_is_generic (x1 y1 x2 y2 Rx0 Ry0 phi : ℝ) (la sw : Bool) :
    arcCentreG x1 y1 x2 y2 Rx0 Ry0 phi la sw = arcCentreR x1 y1 x2 y2 Rx0 Ry0 phi la sw :=
  arcCentreG_real x1 y1 x2 y2 Rx0 Ry0 phi la sw

/-! ## "pass through points of the ellipse with the given radii and x-axis rotation (radii scaled up uniformly
when too small to span the endpoints)" -/

/-- **The centre parameterisation describes an ellipse through both end points.**  The record has the rotation
    `(cos φ, sin φ)`, positive radii, and BOTH the pen `(x1, y1)` and the end point `(x2, y2)` satisfy its ellipse
    equation `(u/Rx)² + (v/Ry)² = 1`, `(u, v)` = the point minus the centre, in the frame of the ellipse axes.
    Covers both branches (radii large enough / scaled up), both flags, every rotation. -/
theorem centre_on_ellipse {x1 y1 x2 y2 Rx0 Ry0 : ℝ} (phi : ℝ) (la sw : Bool)
    (hRx : 0 < Rx0) (hRy : 0 < Ry0) (hne : (x1, y1) ≠ (x2, y2)) :
    let c := arcCentreG x1 y1 x2 y2 Rx0 Ry0 phi la sw
    c.cosPhi = cos phi ∧ c.sinPhi = sin phi ∧ 0 < c.Rx ∧ 0 < c.Ry ∧
    OnEllipse c (x1, y1) ∧ OnEllipse c (x2, y2) :=
  ArcReal.centre_on_ellipse phi la sw hRx hRy hne

/-- non-vacuity: the half circle from (0,0) to (2,0) with radii 1 -/
example := centre_on_ellipse (x1 := 0) (y1 := 0) (x2 := 2) (y2 := 0) (Rx0 := 1) (Ry0 := 1) 0 true true
  one_pos one_pos (by simp)

/-- **Uniform scale-up, only when needed.**  With `Λ = x1′²/rx² + y1′²/ry²` (`radiiLambda`): both radii are multiplied
    by the same factor, `√Λ` if `Λ > 1` and `1` otherwise; the ratio is kept, the radii never shrink and are
    untouched when `Λ ≤ 1`. -/
theorem radii_scaled {x1 y1 x2 y2 Rx0 Ry0 : ℝ} (phi : ℝ) (la sw : Bool) (hRx : 0 < Rx0) (hRy : 0 < Ry0) :
    let c := arcCentreG x1 y1 x2 y2 Rx0 Ry0 phi la sw
    let Λ := radiiLambda x1 y1 x2 y2 Rx0 Ry0 phi
    c.Rx = Rx0 * (if 1 < Λ then √Λ else 1) ∧ c.Ry = Ry0 * (if 1 < Λ then √Λ else 1) ∧
    c.Rx / c.Ry = Rx0 / Ry0 ∧ Rx0 ≤ c.Rx ∧ Ry0 ≤ c.Ry ∧ (Λ ≤ 1 → c.Rx = Rx0 ∧ c.Ry = Ry0) :=
  ArcReal.radii_scaled phi la sw hRx hRy

example := radii_scaled (x1 := 0) (y1 := 0) (x2 := 2) (y2 := 0) (Rx0 := 1 / 2) (Ry0 := 1 / 2) 0 true true
  (by norm_num) (by norm_num)
/-- both branches occur: radii 1 span (0,0)–(2,0) exactly (`Λ = 1`), radii 1/2 do not (`Λ = 4`) -/
example : radiiLambda 0 0 2 0 1 1 0 = 1 ∧ radiiLambda 0 0 2 0 (1/2) (1/2) 0 = 4 := by
  unfold radiiLambda; norm_num

/-- **Scaled-up branch.**  When the radii were too small the centre is the midpoint of the end points. -/
theorem scaled_centre_midpoint {x1 y1 x2 y2 Rx0 Ry0 : ℝ} (phi : ℝ) (la sw : Bool)
    (hRx : 0 < Rx0) (hRy : 0 < Ry0) (hne : (x1, y1) ≠ (x2, y2))
    (hΛ : 1 < radiiLambda x1 y1 x2 y2 Rx0 Ry0 phi) :
    let c := arcCentreG x1 y1 x2 y2 Rx0 Ry0 phi la sw
    c.cx = (x1 + x2) / 2 ∧ c.cy = (y1 + y2) / 2 :=
  ArcReal.scaled_centre_midpoint phi la sw hRx hRy hne hΛ

example := scaled_centre_midpoint (x1 := 0) (y1 := 0) (x2 := 2) (y2 := 0) (Rx0 := 1 / 2) (Ry0 := 1 / 2) 0 true
  true (by norm_num) (by norm_num) (by simp) (by unfold radiiLambda; norm_num)

/-- **Every point a segment ends at lies on the ellipse**, for every angle. -/
theorem arcEnd_on_ellipse (c : ArcCentre ℝ) (hx : c.Rx ≠ 0) (hy : c.Ry ≠ 0)
    (hcs : c.cosPhi ^ 2 + c.sinPhi ^ 2 = 1) (θ : ℝ) : OnEllipse c (arcEndG c θ) :=
  ArcReal.arcEnd_on_ellipse c hx hy hcs θ

example := arcEnd_on_ellipse ⟨0, 0, 1, 1, 1, 0, 0, 0⟩ one_ne_zero one_ne_zero (by norm_num) 0

/-- **Each cubic is tangent to the ellipse at both of its ends**: the control points are the end points of the
    segment plus/minus `t` times the derivative of the ellipse parameterisation there. -/
theorem ctrl_tangent (c : ArcCentre ℝ) (θ1 θ2 : ℝ) :
    arcCtrl1G c θ1 θ2 = ((arcEndG c θ1).1 + arcArmG θ1 θ2 * (arcTangent c θ1).1,
                         (arcEndG c θ1).2 + arcArmG θ1 θ2 * (arcTangent c θ1).2) ∧
    arcCtrl2G c θ1 θ2 = ((arcEndG c θ2).1 - arcArmG θ1 θ2 * (arcTangent c θ2).1,
                         (arcEndG c θ2).2 - arcArmG θ1 θ2 * (arcTangent c θ2).2) :=
  ⟨ctrl1_tangent c θ1 θ2, ctrl2_tangent c θ1 θ2⟩

/-- the arm factor `t` is the classical `4/3·tan(Δ/4)` -/
theorem arm_length (θ1 θ2 : ℝ) (h : sin ((θ2 - θ1) / 2) ≠ 0) : arcArmG θ1 θ2 = 4 / 3 * tan ((θ2 - θ1) / 4) :=
  arcArm_eq θ1 θ2 h

example : sin ((π / 2 - 0) / 2) ≠ 0 := by
  rw [show (π / 2 - 0) / 2 = π / 4 by ring, sin_pi_div_four]; positivity

/-! ## "start at the pen, end at the arc's endpoint" -/

/-- **The arc starts at the pen.** -/
theorem starts_at_pen {x1 y1 x2 y2 Rx0 Ry0 : ℝ} (phi : ℝ) (la sw : Bool)
    (hRx : 0 < Rx0) (hRy : 0 < Ry0) (hne : (x1, y1) ≠ (x2, y2)) :
    let c := arcCentreG x1 y1 x2 y2 Rx0 Ry0 phi la sw
    arcEndG c c.theta1 = (x1, y1) :=
  ArcReal.starts_at_pen phi la sw hRx hRy hne

/-- **The arc ends at the arc's end point.** -/
theorem ends_at_endpoint {x1 y1 x2 y2 Rx0 Ry0 : ℝ} (phi : ℝ) (la sw : Bool)
    (hRx : 0 < Rx0) (hRy : 0 < Ry0) (hne : (x1, y1) ≠ (x2, y2)) :
    let c := arcCentreG x1 y1 x2 y2 Rx0 Ry0 phi la sw
    arcEndG c (c.theta1 + c.deltaTheta) = (x2, y2) :=
  ArcReal.ends_at_endpoint phi la sw hRx hRy hne

example := starts_at_pen (x1 := 0) (y1 := 0) (x2 := 2) (y2 := 0) (Rx0 := 1) (Ry0 := 1) 0 true true
  one_pos one_pos (by simp)
example := ends_at_endpoint (x1 := 0) (y1 := 0) (x2 := 2) (y2 := 0) (Rx0 := 1) (Ry0 := 1) 0 true true
  one_pos one_pos (by simp)

/-- **The subdivision, for every segment count `n ≥ 1`.**  Segment `i` runs from angle `arcSegAngleG c n i` to
    `arcSegAngleG c n (i+1)` (so consecutive segments share their joint, `arc_is_generic_cubics`).  The first
    segment starts at the pen, the last (`i = n-1`) ends at the arc's end point, EVERY segment ends at a point of
    the ellipse, and every segment sweeps exactly `Δθ / n`. -/
theorem segments_on_arc {x1 y1 x2 y2 Rx0 Ry0 : ℝ} (phi : ℝ) (la sw : Bool)
    (hRx : 0 < Rx0) (hRy : 0 < Ry0) (hne : (x1, y1) ≠ (x2, y2)) (n : ℤ) (hn : 1 ≤ n) :
    let c := arcCentreG x1 y1 x2 y2 Rx0 Ry0 phi la sw
    arcEndG c (arcSegAngleG c n 0) = (x1, y1) ∧
    arcEndG c (arcSegAngleG c n ((n - 1) + 1)) = (x2, y2) ∧
    (∀ i : ℤ, OnEllipse c (arcEndG c (arcSegAngleG c n (i + 1)))) ∧
    (∀ i : ℤ, arcSegAngleG c n (i + 1) - arcSegAngleG c n i = c.deltaTheta / n) :=
  ArcReal.segments_on_arc phi la sw hRx hRy hne n hn

example := segments_on_arc (x1 := 0) (y1 := 0) (x2 := 2) (y2 := 0) (Rx0 := 1) (Ry0 := 1) 0 true true
  one_pos one_pos (by simp) 2 (by norm_num)

/-! ## "sweep in the direction and extent selected by the large-arc and sweep flags" -/

/-- **The sweep, completely.**  `Δθ = ±(α or 2π - α)`: the sign is chosen by the sweep flag, the extent by the
    large-arc flag; `α = arccos (1 - 2·min Λ 1)` is the angle between the start and end vectors. -/
theorem deltaTheta_formula {x1 y1 x2 y2 Rx0 Ry0 : ℝ} (phi : ℝ) (la sw : Bool)
    (hRx : 0 < Rx0) (hRy : 0 < Ry0) (hne : (x1, y1) ≠ (x2, y2)) :
    let c := arcCentreG x1 y1 x2 y2 Rx0 Ry0 phi la sw
    let α := smallAngle x1 y1 x2 y2 Rx0 Ry0 phi
    c.deltaTheta = (if sw then 1 else -1) * (if la then 2 * π - α else α) :=
  ArcReal.deltaTheta_formula phi la sw hRx hRy hne

/-- `0 < α ≤ π`, and `α < π` exactly when `Λ < 1` -/
theorem smallAngle_range {x1 y1 x2 y2 Rx0 Ry0 : ℝ} (phi : ℝ)
    (hRx : 0 < Rx0) (hRy : 0 < Ry0) (hne : (x1, y1) ≠ (x2, y2)) :
    0 < smallAngle x1 y1 x2 y2 Rx0 Ry0 phi ∧ smallAngle x1 y1 x2 y2 Rx0 Ry0 phi ≤ π ∧
    (smallAngle x1 y1 x2 y2 Rx0 Ry0 phi < π ↔ radiiLambda x1 y1 x2 y2 Rx0 Ry0 phi < 1) :=
  ArcReal.smallAngle_range phi hRx hRy hne

/-- **Direction.**  `sweep = true`: `0 < Δθ < 2π`; `sweep = false`: `-2π < Δθ < 0`. -/
theorem sweep_direction {x1 y1 x2 y2 Rx0 Ry0 : ℝ} (phi : ℝ) (la sw : Bool)
    (hRx : 0 < Rx0) (hRy : 0 < Ry0) (hne : (x1, y1) ≠ (x2, y2)) :
    let c := arcCentreG x1 y1 x2 y2 Rx0 Ry0 phi la sw
    (sw = true → 0 < c.deltaTheta ∧ c.deltaTheta < 2 * π) ∧
    (sw = false → -(2 * π) < c.deltaTheta ∧ c.deltaTheta < 0) :=
  ArcReal.sweep_direction phi la sw hRx hRy hne

/-- **Extent.**  In generic position (`Λ < 1`: radii not scaled up, root of step 2 strictly positive) the large-arc
    flag selects the arc of MORE than half a turn and its absence the arc of LESS than half a turn.  At the
    boundary `Λ ≥ 1` (radii exactly large enough, or scaled up) both candidate arcs are half ellipses and
    `|Δθ| = π` whatever the flag. -/
theorem large_arc_extent {x1 y1 x2 y2 Rx0 Ry0 : ℝ} (phi : ℝ) (la sw : Bool)
    (hRx : 0 < Rx0) (hRy : 0 < Ry0) (hne : (x1, y1) ≠ (x2, y2)) :
    let c := arcCentreG x1 y1 x2 y2 Rx0 Ry0 phi la sw
    let Λ := radiiLambda x1 y1 x2 y2 Rx0 Ry0 phi
    (Λ < 1 → (la = true → π < |c.deltaTheta|) ∧ (la = false → |c.deltaTheta| < π)) ∧
    (1 ≤ Λ → |c.deltaTheta| = π) :=
  ArcReal.large_arc_extent phi la sw hRx hRy hne

example := deltaTheta_formula (x1 := 1) (y1 := 0) (x2 := 0) (y2 := 1) (Rx0 := 1) (Ry0 := 1) 0 true false
  one_pos one_pos (by simp)
example := sweep_direction (x1 := 1) (y1 := 0) (x2 := 0) (y2 := 1) (Rx0 := 1) (Ry0 := 1) 0 true false
  one_pos one_pos (by simp)
example := large_arc_extent (x1 := 1) (y1 := 0) (x2 := 0) (y2 := 1) (Rx0 := 1) (Ry0 := 1) 0 true false
  one_pos one_pos (by simp)
/-- generic position occurs (quarter circle (1,0)→(0,1), radii 1: `Λ = 1/2`), and so does the boundary -/
example : radiiLambda 1 0 0 1 1 1 0 < 1 ∧ 1 ≤ radiiLambda 0 0 2 0 1 1 0 := by
  unfold radiiLambda; norm_num

/-- coincident end points on the float model: at 128 px with the default viewBox the pen is at (−32, −32); an arc
    of radius 5 to (−32, −32) emits nothing (the centre is NaN, the count `minInt64`) -/
example :
    let z : Renderer F32 F64 := ((Renderer.zero : Renderer F32 F64).setRasterizer ⟨0, 0, 128, 128⟩).reset F32.posInf defaultViewBox defaultPalette
    arcF32 z ⟨0x40a00000⟩ ⟨0x40a00000⟩ ⟨0⟩ true true ⟨0xc2000000⟩ ⟨0xc2000000⟩ = [] := by
  decide +kernel

/-!
## NOT proved

* **Floating point.**  Nothing is proved about how far the float64/float32 values computed by `arcF32` are from
  the real values above: no rounding-error analysis of the float64 evaluation, no accuracy statement for the
  ports of Go's `math.Sin/Cos/Acos` (only the range of `acos`, in `Ivg/Props/C06.lean`), none for the final
  `float32` conversion and the viewBox-to-pixel map.  The two instances are linked only by being the same generic
  program (`arc_is_generic*` at `F64`, the theorems above at `ℝ`).  In particular "the last float segment ends
  within rounding of the mapped end point" is not proved.
* **The start point is the pen only up to the pen's round trip.**  The model starts from
  `unabs (pen)` (pixel space back to viewBox space); at exact arithmetic that is the previous end point
  (`Ivg/Lemmas/GeomQ.lean`), in floats only approximately.
* **Between the joints** a cubic Bézier only approximates the elliptical arc; proved are the end points on the
  ellipse and tangency at both ends (`ctrl_tangent`, `arm_length`), no bound on the deviation in between.
* **Coincident end points** `(x1, y1) = (x2, y2)` are excluded from every real theorem (SVG: omit the arc).  The Go
  code does not test for them; in floats the centre then becomes NaN and the segment count `minInt64`, so nothing
  is drawn — shown on the model for one instance (`example` above), not proved in general.
* The segment count `n` itself is not recomputed over `ℝ`; the real theorems hold for EVERY `n ≥ 1`, the float
  count is bounded by 4 in `Ivg/Props/C06.lean` / `arc_is_generic_cubics`.
-/

end Ivg.Props.C06Real
#obligations C06 [Ivg.Props.C06Real.arc_is_generic, Ivg.Props.C06Real.arc_segment_is_generic,
  Ivg.Props.C06Real.arc_is_generic_cubics, Ivg.Props.C06Real.angle_is_generic,
  Ivg.Props.C06Real.real_restatement_is_generic,
  Ivg.Props.C06Real.centre_on_ellipse, Ivg.Props.C06Real.radii_scaled, Ivg.Props.C06Real.scaled_centre_midpoint,
  Ivg.Props.C06Real.arcEnd_on_ellipse, Ivg.Props.C06Real.ctrl_tangent, Ivg.Props.C06Real.arm_length,
  Ivg.Props.C06Real.starts_at_pen, Ivg.Props.C06Real.ends_at_endpoint, Ivg.Props.C06Real.segments_on_arc,
  Ivg.Props.C06Real.deltaTheta_formula, Ivg.Props.C06Real.smallAngle_range,
  Ivg.Props.C06Real.sweep_direction, Ivg.Props.C06Real.large_arc_extent,
  Ivg.Gen.Tie.renderer_fields_tie,
  -- regenerated code (translator, Ivg/Gen/Code) = model, for all inputs: the maps the arc code calls
  Ivg.Gen.Tie.renderer_absX_code_tie,
  Ivg.Gen.Tie.renderer_absY_code_tie,
  Ivg.Gen.Tie.renderer_unabsX_code_tie,
  Ivg.Gen.Tie.renderer_unabsY_code_tie]
