import Ivg.Lemmas.Decoder2
import Ivg.Gen.Tie.DefaultViewBox
import Ivg.Gen.Tie.DrawOps
import Ivg.Gen.Tie.DecodeErrors
import Ivg.Gen.Tie.Magic
import Ivg.Gen.Tie.Mids
import Ivg.Gen.Tie.MiscFields
import Ivg.Gen.Tie.Code.DecNumbers
import Ivg.Gen.Tie.Code.Decoder8
import Ivg.Gen.Tie.Code.Decoder10
import Ivg.Obligations
/-!
# C13 — metadata: what Reset receives, what is rejected, and metadata-only decoding

Property text: "Decoding delivers through Reset the viewBox and suggested palette stored in the
metadata: defaults (-32,-32,32,32 and 64 opaque blacks) for absent chunks, N+1 explicit palette
entries followed by opaque black, and indirect or non-premultiplied suggested colours replaced by
opaque black. It rejects viewBoxes that are inverted, infinite or NaN, unknown chunk identifiers,
and chunks whose declared length disagrees with their content; metadata-only decoding returns the
same viewBox, validates the same things and touches no destination."

Vocabulary (Lemmas/Metadata, Lemmas/Decoder2):
* `MetaOk {} src hdr m rest` — the magic, the chunk count and every chunk of `src` are valid; they are
  printed as the lines `hdr`, yield the metadata `m` (starting from the defaults `{}`) and leave `rest`.
* `ChunkOk m minMID src its m' minMID' rest` — the two shapes of an accepted chunk
  (`chunk_accepted_iff` shows these are exactly the accepted chunks).
* `PalValid p` — all 64 entries of `p` satisfy `RGBA.validPremul`.
* `decodeColors dec n src` — `n` colours decoded in sequence with the colour decoder `dec`;
  `palDec f` — the colour decoder of palette format `f` (1, 2, 3-direct, 4 bytes per colour).
-/
namespace Ivg.Props.C13
open Ivg Num Dec DecL

/-- viewBox chunk (-24,-24,24,24), palette chunk (2 one-byte colours: white, then a palette-index
    colour, which is indirect), a path -/
def exIcon : Bytes :=
  [0x89, 0x49, 0x56, 0x47, 0x04, 0x0a, 0x00, 0x50, 0x50, 0xb0, 0xb0, 0x08, 0x02, 0x01, 0x7c, 0x80,
   0xc0, 0x80, 0x80, 0x21, 0x90, 0x90, 0xa0, 0x70, 0xe1]
/-- no chunks at all -/
def exBare : Bytes := [0x89, 0x49, 0x56, 0x47, 0x00, 0xc0, 0x80, 0x80, 0xe1]
def exVbChunk : Bytes := [0x0a, 0x00, 0x50, 0x50, 0xb0, 0xb0]
def exPalChunk : Bytes := [0x08, 0x02, 0x01, 0x7c, 0x80]

set_option maxRecDepth 100000 in
/-- non-vacuity of the `MetaOk` hypotheses below -/
example : (∃ hdr m rest, MetaOk {} exIcon hdr m rest) ∧ (∃ hdr m rest, MetaOk {} exBare hdr m rest) :=
  ⟨(decodeViewBox_ok_iff _).1 (by decide +kernel), (decodeViewBox_ok_iff _).1 (by decide +kernel)⟩

set_option maxRecDepth 100000 in
/-- non-vacuity of the chunk hypotheses below: an accepted viewBox chunk and palette chunk -/
example : (∃ its, decodeMetadataChunk {} 0 exVbChunk = (its, .ok (⟨⟨-24, -24, 24, 24⟩, defaultPalette⟩, 1, []))) ∧
    (∃ its, decodeMetadataChunk {} 1 exPalChunk =
      (its, .ok (⟨defaultViewBox, defaultPalette.set6 0 ⟨255, 255, 255, 255⟩⟩, 2, []))) :=
  ⟨⟨(decodeMetadataChunk {} 0 exVbChunk).1, by decide +kernel⟩,
   ⟨(decodeMetadataChunk {} 1 exPalChunk).1, by decide +kernel⟩⟩

/-! ## what Reset receives -/

/-- Clause "Decoding delivers through Reset the viewBox and suggested palette stored in the
    metadata": with a valid metadata section the first call is Reset with the decoded metadata
    (after the caller's options, if any). -/
theorem reset_delivers_metadata (opts : List DecodeOption) (src : Bytes) (hdr : List Item) (m : Metadata)
    (rest : Bytes) (h : MetaOk {} src hdr m rest) :
    ∃ cs, (decode opts src).1 = .reset (applyOptions m opts).viewBox (applyOptions m opts).palette :: cs ∧
      applyOptions m [] = m :=
  ⟨_, by rw [decode_of_metaOk h opts], rfl⟩

/-- Clause "defaults … for absent chunks": without a chunk of identifier 0 (no "Metadata Identifier: 0"
    line in the listing) the viewBox is the default one, without a chunk of identifier 1 the palette
    is the default one. -/
theorem defaults (src : Bytes) (hdr : List Item) (m : Metadata) (rest : Bytes) (h : MetaOk {} src hdr m rest) :
    (LineKind.mid 0 ∉ kindsOf hdr → m.viewBox = defaultViewBox) ∧
    (LineKind.mid 1 ∉ kindsOf hdr → m.palette = defaultPalette) := h.defaults

set_option maxRecDepth 100000 in
/-- … "(-32,-32,32,32 and 64 opaque blacks)". -/
theorem default_values :
    defaultViewBox = ⟨-32, -32, 32, 32⟩ ∧ ∀ j (hj : j < 64), defaultPalette[j] = ⟨0, 0, 0, 0xff⟩ :=
  ⟨by decide +kernel, fun j hj => defaultPalette_getElem j hj⟩

set_option maxRecDepth 100000 in
example : (decode [] exBare).1.head? = some (.reset defaultViewBox defaultPalette) := by decide +kernel

/-- Clause "N+1 explicit palette entries followed by opaque black", whole input: the palette handed
    to Reset (before options) is either entirely default, or there is a palette chunk with header
    byte `hb`; then with `N = hb & 0x3f` entries `0..N` are the `N+1` colours that follow the header
    (in format `hb >> 6`), each converted by `Color.RGBA()`, and every entry above `N` is opaque black. -/
theorem palette_explicit_then_black (src : Bytes) (hdr : List Item) (m : Metadata) (rest : Bytes)
    (h : MetaOk {} src hdr m rest) :
    m.palette = defaultPalette ∨
    ∃ (hb : UInt8) (body rest' : Bytes) (cols : List Color),
      Item.line ⟨[hb], .palHeader (1 + (hb &&& 0x3f).toNat) (1 + (hb >>> 6).toNat)⟩ ∈ hdr ∧
      decodeColors (palDec (hb >>> 6).toNat) (1 + (hb &&& 0x3f).toNat) body = some (cols, rest') ∧
      cols.length = 1 + (hb &&& 0x3f).toNat ∧
      (∀ j (hj : j < 64), 1 + (hb &&& 0x3f).toNat ≤ j → m.palette[j] = RGBA.black) ∧
      (∀ t (ht : t < cols.length) (hj : t < 64), m.palette[t] = cols[t].toRGBA.1) := h.palette_spec

/-- … per chunk, from any current palette: entries `0..N` are overwritten, the others and the viewBox
    are left alone. -/
theorem palette_chunk_stores (m : Metadata) (minMID : Nat) (src : Bytes) (its : List Item) (m' : Metadata)
    (rest : Bytes) (h : decodeMetadataChunk m minMID src = (its, .ok (m', 2, rest))) :
    m'.viewBox = m.viewBox ∧
    ∃ length w src1 w2 hb src3 cols, decodeNatural src = some (length, w, src1) ∧
      decodeNatural src1 = some (1, w2, hb :: src3) ∧
      decodeColors (palDec (hb >>> 6).toNat) (1 + (hb &&& 0x3f).toNat) src3 = some (cols, rest) ∧
      cols.length = 1 + (hb &&& 0x3f).toNat ∧
      (∀ j (hj : j < 64), 1 + (hb &&& 0x3f).toNat ≤ j → m'.palette[j] = m.palette[j]) ∧
      (∀ t (ht : t < cols.length) (hj : t < 64), m'.palette[t] = cols[t].toRGBA.1) := by
  obtain ⟨h1, length, w, src1, w2, hb, src3, cols, h2, h3, h4, h5, h6, h7, _⟩ :=
    (decodeMetadataChunk_ok h).palette_spec
  exact ⟨h1, length, w, src1, w2, hb, src3, cols, h2, h3, h4, h5, h6, h7⟩

/-- Clause "indirect or non-premultiplied suggested colours replaced by opaque black": the conversion
    applied to every stored entry yields opaque black for a colour that is not a direct RGBA value
    (palette index, register reference, blend) or whose RGBA value is not premultiplied, the value
    itself otherwise — hence always a valid premultiplied colour. -/
theorem suggested_entry_conversion (c : Color) :
    ((c.typ ≠ .rgba ∨ c.data.validPremul = false) → c.toRGBA.1 = RGBA.black) ∧
    (c.typ = .rgba → c.data.validPremul = true → c.toRGBA.1 = c.data) ∧
    c.toRGBA.1.validPremul = true :=
  ⟨toRGBA_black, toRGBA_direct, toRGBA_validPremul c⟩
example : (Color.paletteIndexColor 3).typ ≠ .rgba ∧
    (Color.rgbaColor ⟨0x50, 0x20, 0x30, 0x40⟩).data.validPremul = false ∧
    (Color.rgbaColor ⟨0x10, 0x20, 0x30, 0x40⟩).data.validPremul = true := by decide

/-- … so every palette entry handed to Reset is a valid premultiplied colour, with or without
    decode options (`WithPalette` / `WithColorAt` values are sanitised the same way). -/
theorem suggested_sanitised (opts : List DecodeOption) (src : Bytes) (hdr : List Item) (m : Metadata)
    (rest : Bytes) (h : MetaOk {} src hdr m rest) :
    ∀ j (hj : j < 64), (applyOptions m opts).palette[j].validPremul = true := h.palValid opts

set_option maxRecDepth 100000 in
/-- the example: entry 0 is the white that was stored, entry 1 (a palette-index colour) and all the
    rest are opaque black -/
example : ∃ vb pal cs, (decode [] exIcon).1 = .reset vb pal :: cs ∧ pal[0] = ⟨255, 255, 255, 255⟩ ∧
    pal[1] = RGBA.black ∧ pal[63] = RGBA.black ∧ vb = ⟨-24, -24, 24, 24⟩ :=
  ⟨⟨-24, -24, 24, 24⟩, defaultPalette.set6 0 ⟨255, 255, 255, 255⟩, (decode [] exIcon).1.tail, by decide +kernel⟩

/-! ## what is rejected -/

/-- Complete characterisation: a chunk is accepted exactly if it is a well-formed viewBox chunk or a
    well-formed suggested-palette chunk (`ChunkOk`). -/
theorem chunk_accepted_iff (m : Metadata) (minMID : Nat) (src : Bytes) (its : List Item) (m' : Metadata)
    (mm' : Nat) (rest : Bytes) :
    decodeMetadataChunk m minMID src = (its, .ok (m', mm', rest)) ↔ ChunkOk m minMID src its m' mm' rest :=
  decodeMetadataChunk_ok_iff

/-- Clause "rejects viewBoxes that are inverted, infinite or NaN", acceptance side: the viewBox handed
    to Reset satisfies `minX ≤ maxX`, `minY ≤ maxY` in the IEEE order and none of the four numbers is
    NaN or infinite (`isNaNOrInfinity`: exponent field all ones). -/
theorem viewbox_valid (src : Bytes) (hdr : List Item) (m : Metadata) (rest : Bytes)
    (h : MetaOk {} src hdr m rest) :
    m.viewBox.minX ≤ m.viewBox.maxX ∧ m.viewBox.minY ≤ m.viewBox.maxY ∧
    isNaNOrInfinity m.viewBox.minX = false ∧ isNaNOrInfinity m.viewBox.minY = false ∧
    isNaNOrInfinity m.viewBox.maxX = false ∧ isNaNOrInfinity m.viewBox.maxY = false := h.viewBox_valid

/-- … rejection side: four decodable coordinates `a b c d` with `c < a`, `d < b` or a NaN/infinite
    component give `invalid view box`. -/
theorem viewbox_rejected (m : Metadata) (src : Bytes) (length w : Nat) (src1 : Bytes) (w2 : Nat)
    (src2 : Bytes) (its4 : List Item) (a b c d : F32) (rest : Bytes)
    (h1 : decodeNatural src = some (length, w, src1)) (h2 : decodeNatural src1 = some (0, w2, src2))
    (h4 : decodeCoordinates 4 src2 = (its4, some ([a, b, c, d], rest)))
    (hbad : c < a ∨ d < b ∨ isNaNOrInfinity a = true ∨ isNaNOrInfinity b = true ∨
      isNaNOrInfinity c = true ∨ isNaNOrInfinity d = true) :
    (decodeMetadataChunk m 0 src).2 = .error .invalidViewBox :=
  chunk_viewBox_rejected h1 h2 h4 hbad
set_option maxRecDepth 100000 in
/-- inverted box (24,-24,-24,24), and a box whose minX is +Inf (4-byte coordinate 0x7f800000) -/
example : (decodeMetadataChunk {} 0 [0x0a, 0x00, 0xb0, 0x50, 0x50, 0xb0]).2 = .error .invalidViewBox ∧
    (decodeMetadataChunk {} 0 [0x10, 0x00, 0x03, 0x00, 0x80, 0x7f, 0x50, 0xb0, 0xb0]).2 = .error .invalidViewBox ∧
    isNaNOrInfinity ⟨0x7f800000⟩ = true := by decide +kernel

/-- Clause "rejects … unknown chunk identifiers". -/
theorem unknown_mid_rejected (m : Metadata) (minMID : Nat) (src : Bytes) (length w : Nat) (src1 : Bytes)
    (mid w2 : Nat) (src2 : Bytes) (h1 : decodeNatural src = some (length, w, src1))
    (h2 : decodeNatural src1 = some (mid, w2, src2)) (h : 2 ≤ mid) :
    (decodeMetadataChunk m minMID src).2 = .error .unsupportedMetadataIdentifier :=
  chunk_unknown_mid h1 h2 h
example : decodeNatural [0x02, 0x04, 0x00] = some (1, 1, [0x04, 0x00]) ∧
    decodeNatural [0x04, 0x00] = some (2, 1, [0x00]) := by decide

/-- Identifiers must be strictly increasing: a known identifier below the smallest one still allowed
    is `metadata identifiers not in increasing order` … -/
theorem mid_order_rejected (m : Metadata) (minMID : Nat) (src : Bytes) (length w : Nat) (src1 : Bytes)
    (mid w2 : Nat) (src2 : Bytes) (h1 : decodeNatural src = some (length, w, src1))
    (h2 : decodeNatural src1 = some (mid, w2, src2)) (h : mid < 2) (ho : mid < minMID) :
    (decodeMetadataChunk m minMID src).2 = .error .metadataIdentifierOrder :=
  chunk_mid_order h1 h2 h ho

/-- … and after an accepted chunk with identifier `mid` the smallest identifier allowed is `mid + 1`
    (so a repeated or descending identifier is rejected by `mid_order_rejected`) … -/
theorem mid_strictly_increasing (m : Metadata) (minMID : Nat) (src : Bytes) (its : List Item)
    (m' : Metadata) (mm' : Nat) (rest : Bytes)
    (h : decodeMetadataChunk m minMID src = (its, .ok (m', mm', rest))) :
    ∃ length w src1 mid w2 src2, decodeNatural src = some (length, w, src1) ∧
      decodeNatural src1 = some (mid, w2, src2) ∧ minMID ≤ mid ∧ mid < 2 ∧ mm' = mid + 1 :=
  (decodeMetadataChunk_ok h).next_mid

/-- … hence at most two chunks are ever accepted. -/
theorem at_most_two_chunks (f n : Nat) (m : Metadata) (src : Bytes) (its : List Item) (m' : Metadata)
    (rest : Bytes) (h : decodeChunks f n m 0 src = (its, .ok (m', rest))) : n ≤ 2 := by
  have := decodeChunks_count f n m 0 (by omega) h
  omega
set_option maxRecDepth 100000 in
/-- two viewBox chunks: the second one is out of order -/
example : (decodeChunks 20 2 {} 0 (exVbChunk ++ exVbChunk)).2 = .error .metadataIdentifierOrder ∧
    (∃ its, decodeChunks 20 2 {} 0 (exVbChunk ++ exPalChunk) =
      (its, .ok (⟨⟨-24, -24, 24, 24⟩, defaultPalette.set6 0 ⟨255, 255, 255, 255⟩⟩, []))) :=
  ⟨by decide +kernel, (decodeChunks 20 2 {} 0 (exVbChunk ++ exPalChunk)).1, by decide +kernel⟩

/-- Clause "rejects … chunks whose declared length disagrees with their content", acceptance side: in
    an accepted chunk the declared length is exactly the number of bytes between the length field and
    the end of the chunk — for any declared length, in particular a length exceeding the remaining
    input is never accepted. -/
theorem length_consistent (m : Metadata) (minMID : Nat) (src : Bytes) (its : List Item) (m' : Metadata)
    (mm' : Nat) (rest : Bytes) (h : decodeMetadataChunk m minMID src = (its, .ok (m', mm', rest))) :
    ∃ length w src1 body, decodeNatural src = some (length, w, src1) ∧ src1 = body ++ rest ∧
      body.length = length :=
  (decodeMetadataChunk_ok h).length_consistent

/-- … rejection side, viewBox chunk: valid content but a declared length different from the bytes
    consumed (smaller, larger, or larger than the input) is `inconsistent metadata chunk length` … -/
theorem viewbox_length_rejected (m : Metadata) (src : Bytes) (length w : Nat) (src1 : Bytes) (w2 : Nat)
    (src2 : Bytes) (its4 : List Item) (a b c d : F32) (rest : Bytes)
    (h1 : decodeNatural src = some (length, w, src1)) (h2 : decodeNatural src1 = some (0, w2, src2))
    (h4 : decodeCoordinates 4 src2 = (its4, some ([a, b, c, d], rest)))
    (hgood : ¬ (c < a ∨ d < b ∨ isNaNOrInfinity a = true ∨ isNaNOrInfinity b = true ∨
      isNaNOrInfinity c = true ∨ isNaNOrInfinity d = true))
    (hlen : src1.length ≠ length + rest.length) :
    (decodeMetadataChunk m 0 src).2 = .error .inconsistentMetadataChunkLength :=
  chunk_viewBox_length_rejected h1 h2 h4 hgood hlen

/-- … and palette chunk. -/
theorem palette_length_rejected (m : Metadata) (minMID : Nat) (src : Bytes) (length w : Nat)
    (src1 : Bytes) (w2 : Nat) (hb : UInt8) (src3 : Bytes) (its4 : List Item) (pal' : Palette) (rest : Bytes)
    (h1 : decodeNatural src = some (length, w, src1)) (h2 : decodeNatural src1 = some (1, w2, hb :: src3))
    (hmin : minMID ≤ 1)
    (h4 : decodePaletteColors (palDec (hb >>> 6).toNat) (1 + (hb &&& 0x3f).toNat) 0 m.palette src3 =
      some (its4, pal', rest))
    (hlen : src1.length ≠ length + rest.length) :
    (decodeMetadataChunk m minMID src).2 = .error .inconsistentMetadataChunkLength :=
  chunk_palette_length_rejected h1 h2 hmin h4 hlen
set_option maxRecDepth 100000 in
/-- declared length 4, 6 and 100 for a 5-byte viewBox chunk body; declared length 5 for a 4-byte palette body -/
example : (decodeMetadataChunk {} 0 [0x08, 0x00, 0x50, 0x50, 0xb0, 0xb0]).2 = .error .inconsistentMetadataChunkLength ∧
    (decodeMetadataChunk {} 0 [0x0c, 0x00, 0x50, 0x50, 0xb0, 0xb0, 0x00]).2 = .error .inconsistentMetadataChunkLength ∧
    (decodeMetadataChunk {} 0 [0xc8, 0x00, 0x50, 0x50, 0xb0, 0xb0]).2 = .error .inconsistentMetadataChunkLength ∧
    (decodeMetadataChunk {} 0 [0x0a, 0x02, 0x01, 0x7c, 0x80, 0x00]).2 = .error .inconsistentMetadataChunkLength := by
  decide +kernel

/-! ## metadata-only decoding -/

/-- Clause "validates the same things": DecodeViewBox succeeds exactly when the metadata section is
    valid, i.e. exactly when Decode gets as far as delivering Reset … -/
theorem metadata_only_ok_iff (src : Bytes) :
    (decodeViewBox src).2 = none ↔ ∃ hdr m rest, MetaOk {} src hdr m rest := decodeViewBox_ok_iff src

/-- … and otherwise fails with the same error as Decode (which then delivered nothing). -/
theorem metadata_only_error_same (src : Bytes) (h : ¬ ∃ hdr m rest, MetaOk {} src hdr m rest) :
    ∃ e, (decodeViewBox src).2 = some e ∧ (decode [] src).2 = some e ∧ (decode [] src).1 = [] := by
  obtain ⟨e, h1, h2⟩ := decodeViewBox_of_not_metaOk h
  obtain ⟨e', h3⟩ := decode_of_not_metaOk h []
  exact ⟨e, h1, h2, by rw [h3]⟩
set_option maxRecDepth 100000 in
example : ¬ ∃ hdr m rest, MetaOk {} [0x89, 0x49, 0x56, 0x47, 0x02, 0x0a, 0x00, 0x50] hdr m rest :=
  fun h => by
    have := (decodeViewBox_ok_iff _).2 h
    revert this
    decide +kernel

/-- Clause "metadata-only decoding returns the same viewBox": the viewBox returned is the one Decode
    hands to Reset. -/
theorem metadata_only_same (src : Bytes) (hdr : List Item) (m : Metadata) (rest : Bytes)
    (h : MetaOk {} src hdr m rest) :
    decodeViewBox src = (m.viewBox, none) ∧ ∃ cs, (decode [] src).1 = .reset m.viewBox m.palette :: cs :=
  decodeViewBox_same h

/-- Clause "touches no destination": the metadata-only traversal contains no Destination call
    (and `decodeViewBox` has no destination by type). -/
theorem metadata_only_no_calls (m0 : Metadata) (opts : List DecodeOption) (src : Bytes) :
    callsOf (decodeCore true m0 opts src).1.items = [] := by
  rcases metaOk_em m0 src with ⟨hdr, m, rest, h⟩ | h
  · rw [(decodeCore_of_metaOk h opts).1]
    obtain ⟨_, _, _, hc, _⟩ := h.spec
    exact hc
  · obtain ⟨its, e, h1, h2, _⟩ := decodeCore_of_not_metaOk h
    rw [h1]
    exact h2

/-!
## Not proved in this file

* On FAILURE the Go `DecodeViewBox` returns whatever was written into the metadata before the error
  (e.g. `MinX = 0` after a truncated first coordinate, or the rejected inverted box), while the model
  returns the default viewBox; the differential harness compares only the error in that case, so no
  theorem here speaks about the viewBox returned together with an error.
* That the palette bytes written by the ENCODER decode to the palette it was given (round trip,
  format selection, trailing-black trimming) belongs to C09 / C01.
-/

end Ivg.Props.C13

#obligations C13 [Ivg.Props.C13.reset_delivers_metadata,
  Ivg.Props.C13.defaults,
  Ivg.Props.C13.default_values,
  Ivg.Props.C13.palette_explicit_then_black,
  Ivg.Props.C13.palette_chunk_stores,
  Ivg.Props.C13.suggested_entry_conversion,
  Ivg.Props.C13.suggested_sanitised,
  Ivg.Props.C13.chunk_accepted_iff,
  Ivg.Props.C13.viewbox_valid,
  Ivg.Props.C13.viewbox_rejected,
  Ivg.Props.C13.unknown_mid_rejected,
  Ivg.Props.C13.mid_order_rejected,
  Ivg.Props.C13.mid_strictly_increasing,
  Ivg.Props.C13.at_most_two_chunks,
  Ivg.Props.C13.length_consistent,
  Ivg.Props.C13.viewbox_length_rejected,
  Ivg.Props.C13.palette_length_rejected,
  Ivg.Props.C13.metadata_only_ok_iff,
  Ivg.Props.C13.metadata_only_error_same,
  Ivg.Props.C13.metadata_only_same,
  Ivg.Props.C13.metadata_only_no_calls,
  Ivg.Gen.Tie.drawOps_tie,
  Ivg.Gen.Tie.magic_tie,
  Ivg.Gen.Tie.decodeErrors_tie,
  Ivg.Gen.Tie.defaultViewBox_tie,
  Ivg.Gen.Tie.mids_tie,
  Ivg.Gen.Tie.metadata_fields_tie,
  -- regenerated code (translator, Ivg/Gen/Code) = model, for all inputs: DecNumbers
  Ivg.Gen.Tie.decodeNatural_code_tie,
  Ivg.Gen.Tie.decodeNatural_model_eq,
  Ivg.Gen.Tie.decodeReal_code_tie,
  Ivg.Gen.Tie.decodeReal_model_eq,
  Ivg.Gen.Tie.decodeCoordinate_code_tie,
  Ivg.Gen.Tie.decodeCoordinate_model_eq,
  Ivg.Gen.Tie.decodeZeroToOne_code_tie,
  Ivg.Gen.Tie.decodeZeroToOne_model_eq,
  Ivg.Gen.Tie.isNaNOrInfinity_code_tie,
  -- regenerated code (translator) = model, for all inputs: the decoder from bytes to Destination calls (Tie/Code/Decoder*.lean)
  Ivg.Gen.Tie.decodeMetadataChunk_code_tie,
  Ivg.Gen.Tie.decode_code_tie,
  Ivg.Gen.Tie.decode_Decode_code_tie,
  Ivg.Gen.Tie.decodeViewBox_code_tie,
  Ivg.Gen.Tie.errText_message,
  Ivg.Gen.Tie.decodeError_Error_code_tie,
  -- … and with options (the viewBox is untouched by options)
  Ivg.Gen.Tie.decode_opts_code_tie]
