import Ivg.Lemmas.Decoder2
import Ivg.Lemmas.RasterBound
import Ivg.Gen.Tie.DrawOps
import Ivg.Gen.Tie.DecodeErrors
import Ivg.Gen.Tie.Magic
import Ivg.Gen.Tie.ParamWrites
import Ivg.Gen.Tie.Code.Decoder8
import Ivg.Gen.Tie.Code.Decoder9
import Ivg.Gen.Tie.Code.Arc
import Ivg.Obligations
/-!
# C02 — decoding is total, linear, delivers nothing before the metadata is valid, and is prefix-monotone

Property text: "For every byte string, Decode (into a Renderer, an Encoder or a plain recorder),
DecodeViewBox and Disassemble terminate without panicking, leave the input unmodified, and either
succeed or return a DecodeError. Nothing is delivered to the destination unless the magic and every
metadata chunk were valid; the first delivered call is Reset; every delivered call consumed at least
one input byte (so work and rasteriser activity are linear in input length, at most four curve
segments per drawing operation); and the calls delivered for any prefix of an input are a prefix of
the calls delivered for the whole input."

The theorems are about the executable model `Ivg.Dec` (one traversal `decodeCore` serving `decode`,
`decodeViewBox`, `disassemble`), tied to /repo by the differential suite and `Ivg.Gen.Tie`.

By construction (no theorem): the three entry points are total Lean functions on every `Bytes`
value, pure (the input cannot be modified; on the Go side the write frame is
`Ivg.Gen.Tie.param_writes_frame`), and their failure value has type `DecErr`, whose thirteen
constructors are the thirteen `DecodeError` values (`Ivg.Gen.Tie.decodeErrors_tie`).  The model
loops carry a fuel argument; `loop_terminates` / `chunks_terminate` show the fuel the entry points
supply (input length + 1) is never exhausted, because every instruction and every chunk consumes at
least one byte (`instruction_consumes`).  The destination is abstract: `decode` returns the list of
`Call`s a recording destination receives, which is what any destination (Renderer, Encoder) is fed.

`MetaOk {} src hdr m rest` (Lemmas/Decoder2) reads: the magic identifier, the chunk count and every
metadata chunk of `src` are valid, they are printed as `hdr`, yield metadata `m` and leave `rest`.
-/
namespace Ivg.Props.C02
open Ivg Num Dec DecL

/-- a small icon: viewBox chunk, palette chunk, a path `M 0 0 l 8 8 16 -8 z` -/
def exIcon : Bytes :=
  [0x89, 0x49, 0x56, 0x47, 0x04, 0x0a, 0x00, 0x50, 0x50, 0xb0, 0xb0, 0x08, 0x02, 0x01, 0x7c, 0x80,
   0xc0, 0x80, 0x80, 0x21, 0x90, 0x90, 0xa0, 0x70, 0xe1]

set_option maxRecDepth 100000 in
example : (decode [] exIcon).2 = none ∧ (decode [] exIcon).1.length = 5 := by decide +kernel

/-! ## termination -/

/-- Clause "terminate": with more fuel than input bytes the instruction loop's result does not depend
    on the fuel, i.e. the bound `len(src)+1` that `decodeCore` supplies is never reached. -/
theorem loop_terminates (f1 f2 : Nat) (m : DMode) (src : Bytes) (h1 : src.length < f1) (h2 : src.length < f2) :
    loop f1 m src = loop f2 m src := loop_fuel_irrelevant f1 f2 m src h1 h2
example : ([0xc0, 0x80, 0x80] : Bytes).length < 4 ∧ ([0xc0, 0x80, 0x80] : Bytes).length < 100 := by decide

/-- … same for the metadata-chunk loop. -/
theorem chunks_terminate (f1 f2 n : Nat) (m : Metadata) (minMID : Nat) (src : Bytes)
    (h1 : src.length < f1) (h2 : src.length < f2) :
    decodeChunks f1 n m minMID src = decodeChunks f2 n m minMID src :=
  decodeChunks_fuel_irrelevant f1 f2 n m minMID src h1 h2
example : ([0x0a, 0x00, 0x50, 0x50, 0xb0, 0xb0] : Bytes).length < 7 := by decide

/-- The loop in unfolded form: one instruction, then the loop (with its canonical fuel) on the rest. -/
theorem loop_unfold (m : DMode) (src : Bytes) (hne : src ≠ []) :
    loop (src.length + 1) m src = match stepDec m src with
      | (its, .error e) => (its, some e)
      | (its, .ok (m', rest)) =>
        (its ++ (loop (rest.length + 1) m' rest).1, (loop (rest.length + 1) m' rest).2) :=
  loop_step hne
example : ([0xe1] : Bytes) ≠ [] := by decide

/-- The termination argument: every successfully decoded instruction consumed a NON-EMPTY prefix of
    the remaining input (and printed exactly those bytes) … -/
theorem instruction_consumes (m : DMode) (src : Bytes) (its : List Item) (m' : DMode) (rest : Bytes)
    (h : stepDec m src = (its, .ok (m', rest))) :
    ∃ pre, pre ≠ [] ∧ src = pre ++ rest ∧ (linesOf its).flatMap (·.bytes) = pre :=
  stepDec_consumes h
set_option maxRecDepth 100000 in
example : ∃ its, stepDec .styling [0xc0, 0x80, 0x80, 0xe1] = (its, .ok (.drawing, [0xe1])) :=
  ⟨(stepDec .styling [0xc0, 0x80, 0x80, 0xe1]).1, by decide +kernel⟩

/-- … so does every accepted metadata chunk. -/
theorem chunk_consumes (m : Metadata) (minMID : Nat) (src : Bytes) (its : List Item) (m' : Metadata)
    (mm' : Nat) (rest : Bytes) (h : decodeMetadataChunk m minMID src = (its, .ok (m', mm', rest))) :
    ∃ pre, pre ≠ [] ∧ src = pre ++ rest ∧ (linesOf its).flatMap (·.bytes) = pre := by
  obtain ⟨pre, h1, h2, h3, _⟩ := decodeMetadataChunk_consumes h
  exact ⟨pre, h1, h2, h3⟩
set_option maxRecDepth 100000 in
example : ∃ its m', decodeMetadataChunk {} 0 [0x0a, 0x00, 0x50, 0x50, 0xb0, 0xb0, 0x77] = (its, .ok (m', 1, [0x77])) :=
  ⟨(decodeMetadataChunk {} 0 [0x0a, 0x00, 0x50, 0x50, 0xb0, 0xb0, 0x77]).1, ⟨⟨-24, -24, 24, 24⟩, defaultPalette⟩,
    by decide +kernel⟩

/-! ## linearity: every delivered call consumed at least one input byte -/

/-- Clause "every delivered call consumed at least one input byte", per instruction: a successful
    instruction delivers at least one call and at most as many calls as it consumed bytes (a
    repetition of a drawing opcode has ≥ 2 operand bytes, `z` is its opcode byte, single-call
    instructions own their opcode byte) … -/
theorem instruction_calls_le_consumed (m : DMode) (src : Bytes) (its : List Item) (m' : DMode) (rest : Bytes)
    (h : stepDec m src = (its, .ok (m', rest))) :
    1 ≤ (callsOf its).length ∧ (callsOf its).length + rest.length ≤ src.length := by
  obtain ⟨pre, _, rfl, _, h1, h2, _⟩ := stepDec_ok h
  exact ⟨h1, by simp; omega⟩

/-- … and a failing instruction delivered no more calls (complete repetitions) than there were bytes. -/
theorem failing_instruction_calls_le (m : DMode) (src : Bytes) (its : List Item) (e : DecErr)
    (h : stepDec m src = (its, .error e)) : (callsOf its).length ≤ src.length :=
  (stepDec_error h).1
set_option maxRecDepth 100000 in
example : (stepDec .drawing [0x21, 0x90, 0x90, 0xa0]).2 = .error .invalidNumber ∧
    (callsOf (stepDec .drawing [0x21, 0x90, 0x90, 0xa0]).1).length = 1 := by decide +kernel

/-- Whole input, the true bound: Reset is paid for by the four magic bytes plus the chunk-count byte,
    every other call by at least one byte of its own: `#calls + 4 ≤ len(src)` whenever anything is
    delivered.  (Tight: magic, `00`, then n one-byte `Set CSEL` opcodes deliver n+1 calls from n+5
    bytes.)  Holds for failing decodes too. -/
theorem calls_linear (opts : List DecodeOption) (src : Bytes) (h : (decode opts src).1 ≠ []) :
    (decode opts src).1.length + 4 ≤ src.length := decode_calls_bound opts src h
set_option maxRecDepth 100000 in
example : (decode [] exIcon).1 ≠ [] := by decide +kernel
set_option maxRecDepth 100000 in
example : (decode [] [0x89, 0x49, 0x56, 0x47, 0x00, 0x01, 0x02]).1.length + 4 = 7 := by decide +kernel

/-! ## rasteriser activity behind the decoder -/

/-- Clause "(so work and rasteriser activity are linear in input length, at most four curve segments
    per drawing operation)": a Renderer (float instance, the real arc conversion `arcF32`) in ANY state
    makes at most four calls on its rasteriser per Destination call — an arc: at most four cubics
    (C06, `arc_at_most_four`, for all operands incl. NaN/Inf); `StartPath`: Reset + MoveTo; close-and-
    move and end of path: two; any other drawing call: one; styling calls: none. -/
theorem rasteriser_ops_per_call (z : Ren.Renderer Num.F32 Num.F64) (posInf : Num.F32) (c : Call Num.F32) :
    (z.step Ren.arcF32 posInf c).2.length ≤ 4 := RasterBound.step_ops_le_four z posInf c

/-- … hence decoding ANY byte string into a Renderer makes at most `4 · (len(src) − 4)` rasteriser
    calls in total (with `calls_linear`). -/
theorem rasteriser_activity_linear (opts : List DecodeOption) (src : Bytes) (z : Ren.Renderer Num.F32 Num.F64)
    (posInf : Num.F32) (h : (decode opts src).1 ≠ []) :
    (z.run Ren.arcF32 posInf (decode opts src).1).2.length + 16 ≤ 4 * src.length := by
  have h1 := RasterBound.run_ops_le posInf (decode opts src).1 z
  have h2 := calls_linear opts src h
  omega

/-! ## nothing before the metadata is valid; Reset first and only once -/

/-- Clause "nothing is delivered unless the magic and every metadata chunk were valid; the first
    delivered call is Reset": if anything is delivered then the metadata section is valid, the first
    call is Reset with the viewBox and palette the metadata (after the options) determine, and no
    later call is a Reset. -/
theorem no_early_delivery (opts : List DecodeOption) (src : Bytes) (c : Call F32) (cs : List (Call F32))
    (h : (decode opts src).1 = c :: cs) :
    ∃ hdr m rest, MetaOk {} src hdr m rest ∧
      c = .reset (applyOptions m opts).viewBox (applyOptions m opts).palette ∧
      ∀ c' ∈ cs, isReset c' = false :=
  decode_no_early_delivery opts src c cs h
set_option maxRecDepth 100000 in
example : ∃ c cs, (decode [] exIcon).1 = c :: cs :=
  ⟨(decode [] exIcon).1.head!, (decode [] exIcon).1.tail, by decide +kernel⟩

/-- Conversely: an invalid magic, chunk count or chunk makes Decode fail having delivered nothing. -/
theorem invalid_metadata_delivers_nothing (opts : List DecodeOption) (src : Bytes)
    (h : ¬ ∃ hdr m rest, MetaOk {} src hdr m rest) : ∃ e, decode opts src = ([], some e) :=
  decode_of_not_metaOk h opts
set_option maxRecDepth 100000 in
example : ¬ ∃ hdr m rest, MetaOk {} [0x89, 0x49, 0x56, 0x47, 0x02, 0x0a, 0x00, 0x50] hdr m rest :=
  fun h => by
    have := (decodeViewBox_ok_iff _).2 h
    revert this
    decide +kernel

/-- … and a valid metadata section always leads to exactly `Reset :: (calls of the instruction loop)`. -/
theorem valid_metadata_delivers_reset (opts : List DecodeOption) (src : Bytes) (hdr : List Item)
    (m : Metadata) (rest : Bytes) (h : MetaOk {} src hdr m rest) :
    decode opts src =
      (.reset (applyOptions m opts).viewBox (applyOptions m opts).palette ::
        callsOf (loop (rest.length + 1) .styling rest).1, (loop (rest.length + 1) .styling rest).2) :=
  decode_of_metaOk h opts
set_option maxRecDepth 100000 in
example : ∃ hdr m rest, MetaOk {} exIcon hdr m rest :=
  (decodeViewBox_ok_iff _).1 (by decide +kernel)

/-! ## prefix monotonicity -/

/-- A successfully decoded instruction decodes identically, whatever follows it. -/
theorem instruction_stable (m : DMode) (src : Bytes) (its : List Item) (m' : DMode) (rest : Bytes)
    (h : stepDec m src = (its, .ok (m', rest))) (k : Bytes) :
    stepDec m (src ++ k) = (its, .ok (m', rest ++ k)) := by
  obtain ⟨pre, _, _, _, _, _, _, _, happ⟩ := stepDec_ok h
  exact happ k

/-- A failing instruction delivered only complete repetitions, each of which is delivered again
    when the input is extended. -/
theorem failing_instruction_prefix (m : DMode) (src : Bytes) (its : List Item) (e : DecErr)
    (h : stepDec m src = (its, .error e)) (k : Bytes) :
    callsOf its <+: callsOf (stepDec m (src ++ k)).1 :=
  (stepDec_error h).2.2 k

/-- Clause "the calls delivered for any prefix of an input are a prefix of the calls delivered for
    the whole input" — for every input `a ++ b`, every split point (inside the magic, inside a chunk,
    between instructions, inside an instruction, inside a repetition) and every option list. -/
theorem prefix_monotone (opts : List DecodeOption) (a b : Bytes) :
    (decode opts a).1 <+: (decode opts (a ++ b)).1 := decode_prefix_monotone opts a b
set_option maxRecDepth 100000 in
example : (decode [] (exIcon.take 22)).1.length = 3 ∧ (decode [] (exIcon.take 22)).2 = some .invalidNumber ∧
    (decode [] (exIcon.take 22 ++ exIcon.drop 22)).1.length = 5 := by decide +kernel

/-!
## Not proved in this file

* "at most four curve segments per drawing operation" is `rasteriser_ops_per_call` (through C06's
  `arc_at_most_four`); the decoder side of the linearity claim is `calls_linear`.
* "without panicking / leave the input unmodified / either succeed or return a DecodeError" hold by
  construction of the model (total pure functions into `Option DecErr`); the statement about the Go
  code rests on the differential suite and on `Ivg.Gen.Tie.param_writes_frame`,
  `Ivg.Gen.Tie.decodeErrors_tie`.
* Decoding "into a Renderer or an Encoder": the model delivers to an abstract recorder; composition
  with the renderer/encoder models is the subject of other properties.
-/

end Ivg.Props.C02

#obligations C02 [
  Ivg.Props.C02.loop_terminates, Ivg.Props.C02.chunks_terminate, Ivg.Props.C02.loop_unfold,
  Ivg.Props.C02.instruction_consumes, Ivg.Props.C02.chunk_consumes,
  Ivg.Props.C02.instruction_calls_le_consumed, Ivg.Props.C02.failing_instruction_calls_le,
  Ivg.Props.C02.calls_linear, Ivg.Props.C02.rasteriser_ops_per_call, Ivg.Props.C02.rasteriser_activity_linear,
  Ivg.Props.C02.no_early_delivery,
  Ivg.Props.C02.invalid_metadata_delivers_nothing, Ivg.Props.C02.valid_metadata_delivers_reset,
  Ivg.Props.C02.instruction_stable, Ivg.Props.C02.failing_instruction_prefix,
  Ivg.Props.C02.prefix_monotone,
  Ivg.Gen.Tie.drawOps_tie, Ivg.Gen.Tie.magic_tie, Ivg.Gen.Tie.decodeErrors_tie,
  Ivg.Gen.Tie.param_writes_frame,
  -- regenerated code (translator) = model, for all inputs: the decoder from bytes to Destination calls (Tie/Code/Decoder*.lean)
  Ivg.Gen.Tie.decodeStyling_code_tie,
  Ivg.Gen.Tie.decodeDrawing_code_tie,
  Ivg.Gen.Tie.decodeMetadataChunk_code_tie,
  Ivg.Gen.Tie.decode_code_tie,
  Ivg.Gen.Tie.decode_Decode_code_tie,
  Ivg.Gen.Tie.decodeViewBox_code_tie,
  Ivg.Gen.Tie.decode_verdict_independent,
  Ivg.Gen.Tie.decode_dstnil_code_tie,
  Ivg.Gen.Tie.errText_message,
  Ivg.Gen.Tie.decodeError_Error_code_tie,
  -- regenerated code (translator): AbsArcTo/RelArcTo = the model (at most four segments per arc on the code itself)
  Ivg.Gen.Tie.absArcTo_code_tie,
  Ivg.Gen.Tie.relArcTo_code_tie]
