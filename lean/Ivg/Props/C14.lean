import Ivg.Lemmas.Options
import Ivg.Lemmas.RenderHist
import Ivg.Gen.Tie.Globals
import Ivg.Gen.Tie.ParamWrites
import Ivg.Gen.Tie.OptionBodies
import Ivg.Gen.Tie.Code.Decoder10
import Ivg.Obligations
/-!
# C14 — palette options

Property text: "Palette options are applied in order on top of the suggested palette after the metadata
is decoded: a full replacement discards the suggested palette, a single-index override changes only
that entry (converting any colour model to premultiplied RGBA), the result seeds palette-indexed
colours and the initial colour registers, and neither the encoded bytes nor the caller's palette array
are modified. User-supplied entries that are not valid premultiplied colours act as opaque black and
are never reinterpreted as gradients, as the specification requires."

The theorems are about `Dec.applyOptions` / `Dec.applyOption` / `Dec.sanitizePalette` /
`Dec.decodeCore` (decode/decode.go:47–137) and `Ren.Renderer.reset`.  `raw m opts` is the left fold of
the options over the decoded metadata, `san c` is `c` if it is a valid premultiplied colour and opaque
black otherwise.
-/
namespace Ivg.Props.C14
open Ivg Ivg.Dec Ivg.Lemmas.Options

/-! ## applied in order, on top of the decoded metadata -/

/-- Clause "applied … on top of the suggested palette after the metadata is decoded": whenever the
    metadata decodes without error, the metadata `Decode` works with is `applyOptions` of the metadata
    decoded without options (viewBox and suggested palette). -/
theorem options_after_metadata (metadataOnly : Bool) (m0 : Metadata) (opts : List DecodeOption) (src : Bytes)
    (h : (decodeCore true m0 [] src).1.err = none) :
    (decodeCore metadataOnly m0 opts src).2 = applyOptions (decodeCore true m0 [] src).2 opts :=
  decodeCore_options metadataOnly m0 opts src h
/-- the smallest graphic: magic, zero metadata chunks -/
example : (decodeCore true {} [] [0x89, 0x49, 0x56, 0x47, 0x00]).1.err = none := by decide

/-- Clause "applied in order": with at least one option the resulting entry `j` is the sanitised entry
    `j` of the left fold of the options; options never touch the viewBox. -/
theorem options_fold (m : Metadata) (opts : List DecodeOption) (h : opts ≠ []) (j : Nat) (hj : j < 64) :
    (applyOptions m opts).palette[j] = san (raw m opts).palette[j] ∧
    (applyOptions m opts).viewBox = m.viewBox :=
  ⟨applyOptions_get m opts h j hj, applyOptions_viewBox m opts⟩
example : [DecodeOption.withColorAt 3 ⟨1, 2, 3, 4⟩, .withPalette defaultPalette] ≠ [] := by simp

set_option maxRecDepth 100000 in
/-- order matters: an override followed by a replacement is lost, a replacement followed by an
    override keeps it -/
example :
    (applyOptions {} [.withColorAt 3 ⟨1, 2, 3, 4⟩, .withPalette (Regs.const ⟨9, 9, 9, 9⟩)]).palette[3] = ⟨9, 9, 9, 9⟩ ∧
    (applyOptions {} [.withPalette (Regs.const ⟨9, 9, 9, 9⟩), .withColorAt 3 ⟨1, 2, 3, 4⟩]).palette[3] = ⟨1, 2, 3, 4⟩ := by
  decide +kernel

/-- Clause: no option ⇒ the decoded metadata is used as it is (not even sanitised — see
    `decoded_palette_valid` for why that is sound). -/
theorem no_options_identity (m : Metadata) : applyOptions m [] = m := applyOptions_nil m

/-! ## full replacement, single-index override -/

/-- Clause "a full replacement discards the suggested palette": the result depends only on the
    replacement and the options after it — not on the file's palette nor on earlier options. -/
theorem withPalette_discards (m m' : Metadata) (before before' after : List DecodeOption) (p : Palette) :
    (applyOptions m (before ++ .withPalette p :: after)).palette =
      (applyOptions m' (before' ++ .withPalette p :: after)).palette :=
  Lemmas.Options.withPalette_discards m m' before before' after p

/-- … as the last option: the custom palette is `p` itself, sanitised. -/
theorem withPalette_last (m : Metadata) (before : List DecodeOption) (p : Palette) :
    (applyOptions m (before ++ [.withPalette p])).palette = sanitizePalette p :=
  Lemmas.Options.withPalette_last m before p

/-- Clause "a single-index override changes only that entry": entry `i` becomes the given colour
    (sanitised) … -/
theorem withColorAt_entry (m : Metadata) (before : List DecodeOption) (i : Nat) (hi : i < 64) (c : RGBA) :
    (applyOptions m (before ++ [.withColorAt i c])).palette[i] = san c :=
  Lemmas.Options.withColorAt_entry m before i hi c

/-- … and every other entry is what it is without that option.  (If it is the only option, the
    hypothesis asks that the file's entry `j` be a valid premultiplied colour, which
    `decoded_palette_valid` guarantees for every decoded palette.) -/
theorem withColorAt_others (m : Metadata) (before : List DecodeOption) (i : Nat) (hi : i < 64) (c : RGBA)
    (j : Nat) (hj : j < 64) (hij : j ≠ i)
    (h : before ≠ [] ∨ (m.palette[j]).validPremul = true) :
    (applyOptions m (before ++ [.withColorAt i c])).palette[j] = (applyOptions m before).palette[j] :=
  Lemmas.Options.withColorAt_others m before i hi c j hj hij h
example : (5 : Nat) < 64 ∧ (7 : Nat) < 64 ∧ (7 : Nat) ≠ 5 ∧
    (([] : List DecodeOption) ≠ [] ∨ (((({} : Metadata).palette)[7]).validPremul = true)) := by decide

/-! ## sanitising -/

/-- Clause "User-supplied entries that are not valid premultiplied colours act as opaque black": with
    at least one option every entry of the custom palette is a valid premultiplied colour; a valid
    entry is kept, an invalid one is opaque black. -/
theorem user_sanitised (m : Metadata) (opts : List DecodeOption) (h : opts ≠ []) (j : Nat) (hj : j < 64) :
    ((applyOptions m opts).palette[j]).validPremul = true ∧
    (((raw m opts).palette[j]).validPremul = true → (applyOptions m opts).palette[j] = (raw m opts).palette[j]) ∧
    (((raw m opts).palette[j]).validPremul = false → (applyOptions m opts).palette[j] = RGBA.black) :=
  ⟨Lemmas.Options.user_sanitised m opts h j hj,
   fun hv => by rw [applyOptions_get m opts h j hj, san_of_valid hv],
   fun hv => by rw [applyOptions_get m opts h j hj, san_of_invalid hv]⟩
set_option maxRecDepth 100000 in
/-- a gradient-encoding value supplied by the user becomes opaque black -/
example : (applyOptions {} [.withColorAt 0 (encodeGradient 10 10 0 1 2)]).palette[0] = RGBA.black ∧
    (encodeGradient 10 10 0 1 2).validGradient = true := by decide +kernel

/-- Clause "and are never reinterpreted as gradients": a valid premultiplied colour is never a
    gradient value (alpha 0 forces blue 0) … -/
theorem never_gradient (c : RGBA) (h : c.validPremul = true) : c.validGradient = false :=
  Lemmas.Options.never_gradient c h
example : (⟨0, 0, 0, 0⟩ : RGBA).validPremul = true := by decide

/-- The palette `Decode` ends up with consists of valid premultiplied colours for every input and
    every option list (the suggested palette is sanitised entry by entry while it is decoded, a
    user-modified one after the options), starting from the default metadata. -/
theorem decoded_palette_valid (metadataOnly : Bool) (opts : List DecodeOption) (src : Bytes) :
    AllValid (decodeCore metadataOnly {} opts src).2.palette :=
  decodeCore_palette_valid metadataOnly {} allValid_default opts src

/-! ## what the result seeds -/

/-- Clause "the result seeds palette-indexed colours and the initial colour registers": `Decode` hands
    exactly the option-folded metadata to `Destination.Reset`, right after the metadata items … -/
theorem reset_receives_palette (m0 : Metadata) (opts : List DecodeOption) (src : Bytes)
    (h : (decodeCore true m0 [] src).1.err = none) :
    ∃ pre post,
      (decodeCore false m0 opts src).1.items =
        pre ++ .call (.reset (decodeCore false m0 opts src).2.viewBox (decodeCore false m0 opts src).2.palette)
          :: post ∧
      (decodeCore true m0 [] src).1.items = pre :=
  decodeCore_reset m0 opts src h

open Ivg.Ren Ivg.Spec.VM Ivg.Lemmas.RendererVM in
/-- … and the Renderer's `Reset` copies it into both its palette (what palette-indexed colours
    resolve against, `C04.colour_resolution`) and its colour registers: it then represents the
    specification's initial machine state for that custom palette. -/
theorem seeds_registers {α β : Type} [Arith α] [Arith β] [Wide α β] (z : Renderer α β) (posInf : α)
    (vb : ViewBox α) (pal : Palette) :
    (z.reset posInf vb pal).cReg = pal ∧ (z.reset posInf vb pal).palette = pal ∧
      absVM (z.reset posInf vb pal) = VM.init posInf pal :=
  Lemmas.Options.seeds_registers z posInf vb pal

open Ivg.Ren Ivg.Spec.VM Ivg.Lemmas.RendererVM Ivg.RenderHist in
/-- … over the life of a reused Renderer: after ANY history `h` (earlier graphics with other or the same
    palette, registers overwritten by `SetCReg`/`SetNReg`, selectors moved, `SetRasterizer` calls) from ANY
    state, `Reset vb pal` seeds ALL 64 colour registers and the palette with `pal` — also when `pal` equals
    the palette already stored — clears ALL 64 number registers and both selectors, and the Renderer
    represents the specification's initial machine state for `pal`. -/
theorem seeds_registers_after_history {α β : Type} [Arith α] [Arith β] [Wide α β] (arc : ArcFn α β)
    (posInf : α) (z0 : Renderer α β) (h : List (RenOp α)) (vb : ViewBox α) (pal : Palette) :
    let z := (z0.runOps arc posInf (h ++ [.call (.reset vb pal)])).1
    z.cReg = pal ∧ z.nReg = Regs.const zeroA ∧ z.cSel = 0 ∧ z.nSel = 0 ∧ z.lod0 = zeroA ∧ z.lod1 = posInf ∧
    z.viewBox = vb ∧ z.palette = pal ∧ z.prevSmoothType = 0 ∧ z.r = rectAfter z0.r h ∧
    TransformOK z ∧ absVM z = VM.init posInf pal :=
  RenderHist.reset_reseeds arc posInf z0 h vb pal
open Ivg.Ren Ivg.Lemmas.RendererVM in
set_option maxRecDepth 100000 in
/-- e.g. a graphic that overwrote `CREG[0]` and `NREG[63]`, then the SAME palette again: `CREG[0]` is the
    palette's entry, `NREG[63]` is zero -/
example :
    let z := ((Renderer.zero : Renderer Num.F32 Num.F64).runOps arcF32 Ex.posInf
      [.rast ⟨0, 0, 8, 8⟩, .call (.reset defaultViewBox defaultPalette),
       .call (.setCReg 0 false (Color.rgbaColor ⟨1, 2, 3, 4⟩)), .call (.setNReg 1 false (Ex.n 7)),
       .call (.reset defaultViewBox defaultPalette)]).1
    z.cReg.get6 0 = RGBA.black ∧ z.nReg.get6 63 = Ex.n 0 := by decide +kernel

open Ivg.Spec.VM in
/-- … so that (with `decoded_palette_valid`) a path painted from a register that still holds its
    palette seed is filled flat, or not at all — never with a gradient. -/
theorem palette_paint_flat {α : Type} [Arith α] (posInf : α) (pal : Palette) (hv : AllValid pal)
    (H : Int) (adj : UInt8) :
    (VM.init posInf pal).paintChoice H adj = none ∨
      (VM.init posInf pal).paintChoice H adj =
        some (.flat ((VM.init posInf pal).cReg (sub (VM.init posInf pal).cSel adj))) :=
  Lemmas.Options.palette_paint_flat posInf pal hv H adj
example : AllValid defaultPalette := allValid_default

/-!
## Not proved here / by construction

* "neither the encoded bytes nor the caller's palette array are modified": in the model every function
  is pure (`decodeCore` returns new values; `src` and the option's palette are inputs only).  For the Go
  code this is the write-frame fact `Gen.Tie.param_writes_frame` (the only parameters written through
  are `decode.WithColorAt:m`, `decode.WithPalette:m`, `decode.decode:m`, … — the local copy
  `m := ivg.DefaultMetadata`, never `src` nor the caller's array, which `WithPalette` receives by
  value) and `Gen.Tie.no_global_writes` (`ivg.DefaultPalette` is never written).
* "converting any colour model to premultiplied RGBA" is `color.RGBAModel.Convert` of the Go standard
  library, which is not modelled: `DecodeOption.withColorAt` carries the converted colour.
* Model remark: `WithColorAt` with an index outside `0..63` panics in Go (array index out of range);
  the model ignores such an option.
-/

end Ivg.Props.C14

#obligations C14 [
  Ivg.Props.C14.options_after_metadata, Ivg.Props.C14.options_fold, Ivg.Props.C14.no_options_identity,
  Ivg.Props.C14.withPalette_discards, Ivg.Props.C14.withPalette_last, Ivg.Props.C14.withColorAt_entry,
  Ivg.Props.C14.withColorAt_others, Ivg.Props.C14.user_sanitised, Ivg.Props.C14.never_gradient,
  Ivg.Props.C14.decoded_palette_valid, Ivg.Props.C14.reset_receives_palette, Ivg.Props.C14.seeds_registers,
  Ivg.Props.C14.seeds_registers_after_history,
  Ivg.Props.C14.palette_paint_flat,
  Ivg.Gen.Tie.param_writes_frame, Ivg.Gen.Tie.no_global_writes,
  -- regenerated code (translator) = model, for all inputs and option lists: decode.Decode WITH options (option loop in order, sanitising loop) = Dec.decode opts
  Ivg.Gen.Tie.optFn_applyOption,
  Ivg.Gen.Tie.decode_opts_code_tie,
  Ivg.Gen.Tie.decode_Decode_opts_code_tie,
  -- the two option constructors return exactly the model's two options (regenerated fact)
  Ivg.Gen.Tie.optionBodies_tie]
