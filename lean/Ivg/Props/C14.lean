import Ivg.Model.Decoder
import Ivg.Model.Arc
import Ivg.Model.MdIcons
import Ivg.Gen.Tie
import Ivg.Obligations
/-! # Property C14 — theorems (work in progress: tie obligations only so far) -/
namespace Ivg.Props.C14
end Ivg.Props.C14
#obligations C14 [Ivg.Gen.Tie.drawOps_tie, Ivg.Gen.Tie.magic_tie, Ivg.Gen.Tie.errorStrings_tie]
