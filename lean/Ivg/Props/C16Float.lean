import Ivg.Lemmas.Pow2F32c
import Ivg.Gen.Tie.RendererFields
import Ivg.Gen.Tie.Code.Transform
import Ivg.Obligations
/-!
# C16 (b) at float32 — power-of-two re-expression of a graphic, bit for bit

Property text (clause (b)): "a graphic and its re-expression at another power-of-two scale (viewBox and all
coordinates multiplied by 2^n, absent float overflow or underflow) … produce identical pixels".

`Ivg/Props/C16.lean` proves the clause for the model evaluated in EXACT arithmetic (`pow2_scaling_exact`).  This
file proves it for the model at `(F32, F64)` — the bit-exact soft IEEE-754 instance that is tied to the Go code:
multiplying a float32 by `2^n` is an exponent adjustment (`scale2`), every IEEE operation the Renderer's transform
uses commutes with it as long as no operand or result is subnormal or leaves the normal range, hence the scaled
graphic makes IDENTICAL rasteriser calls (same `Reset(w, h)`, bit-identical path coordinates, same `Draw`s);
given identical calls, identical pixels are x/image/vector's determinism.

"Absent overflow or underflow" is made precise by DECIDABLE predicates on bit patterns (`Safe`, `MulSafe`, …,
`SafeCall`, `SafeRun`): every number involved is `±0` or normal with exponent field in `[2, 254]`, before and after
the scaling.  They are evaluated on the run of the ORIGINAL graphic only.

Definitions (`Ivg/Lemmas/Pow2F32*.lean`): `scale2 n a` (`a·2^n`), `Safe n a`, `Norm n a`, `IsZero a`;
`MulSafe n k a b`, `DivSafe n k a b`, `AddSafe n a b`, `SubSafe n a b` (operands AND result); `scaleVBF`, `scF`
(the re-expressed Renderer state), `ScaledF n z z'`, `scaleCallF n c`, `SafeCall n z c`, `SafeRun n arc posInf z cs`.
-/
namespace Ivg.Props.C16Float
open Ivg Ivg.Num Ivg.Ren Ivg.Pow2F32 Ivg.FloatOrder32 Ivg.FloatMono32

/-! ## stage 1: scaling on bit patterns -/

/-- `scale2 n a` is `a · 2^n`: its value (`FloatMono32.val`, the library's value function of finite float32s)
    is `2^n` times the value of `a`, for `a = ±0` or normal with exponent field in `[2, 254]` before and after. -/
theorem scale2_value (n : Int) (a : F32) (h : Safe n a) : val (scale2 n a) = pow2 n * val a :=
  Pow2F32.scale2_value n a h
example : Safe 3 ⟨0x3fc00000⟩ ∧ scale2 3 ⟨0x3fc00000⟩ = ⟨0x41400000⟩ ∧ Safe (-5) ⟨0xc0e80000⟩ ∧
    scale2 (-5) ⟨0xc0e80000⟩ = ⟨0xbe680000⟩ ∧ Safe 100 ⟨0x80000000⟩ := by decide

/-- … and it is what the float32 multiplication by `2^n` computes, whenever `2^n` is a normal float32
    (`pow2F n = scale2 n 1.0`, of value `2^n`: `pow2F_value`). -/
theorem scale2_eq_mul (n : Int) (a : F32) (h : Safe n a) (hn : -125 ≤ n ∧ n ≤ 127) :
    scale2 n a = F32.mul a (pow2F n) := Pow2F32.scale2_eq_mul n a h hn
example : Safe 5 ⟨0xc0e80000⟩ ∧ pow2F 5 = ⟨0x42000000⟩ := by decide

/-! ## stage 2: the operations commute with the scaling -/

/-- `(a·2^n) · (b·2^k) = (a·b)·2^(n+k)` bit for bit; `MulSafe n k a b`: both factors safe and the product of the
    unscaled factors normal before and after (or a factor zero).  `k = 0`: scaling the first factor only
    (`mul_scale2_left`); `k = −n`: the product is unchanged (`mul_scale2_cancel`). -/
theorem mul_scale2 (n k : Int) (a b : F32) (h : MulSafe n k a b) :
    F32.mul (scale2 n a) (scale2 k b) = scale2 (n + k) (F32.mul a b) := Pow2F32.mul_scale2 n k a b h
theorem mul_scale2_left (n : Int) (a b : F32) (h : MulSafe n 0 a b) :
    F32.mul (scale2 n a) b = scale2 n (F32.mul a b) := Pow2F32.mul_scale2_left n a b h
theorem mul_scale2_right (n : Int) (a b : F32) (h : MulSafe 0 n a b) :
    F32.mul a (scale2 n b) = scale2 n (F32.mul a b) := Pow2F32.mul_scale2_right n a b h
theorem mul_scale2_cancel (n : Int) (a b : F32) (h : MulSafe (-n) n a b) :
    F32.mul (scale2 (-n) a) (scale2 n b) = F32.mul a b := Pow2F32.mul_scale2_cancel n a b h
set_option maxRecDepth 100000 in
example : MulSafe 3 (-1) ⟨0x3fc00000⟩ ⟨0xc0e80000⟩ ∧ MulSafe 4 0 ⟨0x3fc00000⟩ ⟨0xc0e80000⟩ ∧
    MulSafe 0 4 ⟨0x3fc00000⟩ ⟨0xc0e80000⟩ ∧ MulSafe (-4) 4 ⟨0x3fc00000⟩ ⟨0xc0e80000⟩ ∧
    MulSafe 7 2 ⟨0⟩ ⟨0xc0e80000⟩ := by decide +kernel

/-- `(a·2^n) / (b·2^k) = (a/b)·2^(n−k)` bit for bit; `DivSafe n k a b`: dividend safe, divisor normal, quotient
    normal before and after (or the dividend zero).  `k = n`: the quotient is unchanged; `n = 0`: scaling the
    divisor scales the quotient by `2^(−k)`. -/
theorem div_scale2 (n k : Int) (a b : F32) (h : DivSafe n k a b) :
    F32.div (scale2 n a) (scale2 k b) = scale2 (n - k) (F32.div a b) := Pow2F32.div_scale2 n k a b h
theorem div_scale2_common (n : Int) (a b : F32) (h : DivSafe n n a b) :
    F32.div (scale2 n a) (scale2 n b) = F32.div a b := Pow2F32.div_scale2_common n a b h
theorem div_scale2_den (n : Int) (a b : F32) (h : DivSafe 0 n a b) :
    F32.div a (scale2 n b) = scale2 (-n) (F32.div a b) := Pow2F32.div_scale2_den n a b h
set_option maxRecDepth 100000 in
example : DivSafe 2 5 ⟨0x3fc00000⟩ ⟨0xc0e80000⟩ ∧ DivSafe 9 9 ⟨0x3fc00000⟩ ⟨0xc0e80000⟩ ∧
    DivSafe 0 1 (F32.ofInt 48) ⟨0x42800000⟩ ∧ DivSafe 0 1 (F32.ofInt 0) ⟨0x42800000⟩ := by decide +kernel

/-- `a·2^n + b·2^n = (a+b)·2^n` bit for bit; `AddSafe n a b`: both terms and the sum are `±0` or normal before and
    after (a zero sum of finite numbers is exact, cancellation included). -/
theorem add_scale2 (n : Int) (a b : F32) (h : AddSafe n a b) :
    F32.add (scale2 n a) (scale2 n b) = scale2 n (F32.add a b) := Pow2F32.add_scale2 n a b h
/-- the same for subtraction -/
theorem sub_scale2 (n : Int) (a b : F32) (h : SubSafe n a b) :
    F32.sub (scale2 n a) (scale2 n b) = scale2 n (F32.sub a b) := Pow2F32.sub_scale2 n a b h
set_option maxRecDepth 100000 in
example : AddSafe 6 ⟨0x3fc00000⟩ ⟨0xc0e80000⟩ ∧ AddSafe (-3) ⟨0x42000000⟩ ⟨0xc2000000⟩ ∧
    AddSafe 20 ⟨0x80000000⟩ ⟨0x3fc00000⟩ ∧ SubSafe 1 ⟨0x42000000⟩ ⟨0xc2000000⟩ ∧
    SubSafe (-2) ⟨0x3fc00000⟩ ⟨0x3fc00000⟩ := by decide +kernel

/-- negation commutes with the scaling (every input) -/
theorem neg_scale2 (n : Int) (a : F32) : F32.neg (scale2 n a) = scale2 n (F32.neg a) := Pow2F32.neg_scale2 n a

/-- `<` and `≤` are invariant under a common scaling.  (`F32.ofInt` takes no float operand: it is unaffected.) -/
theorem lt_scale2 (n : Int) (a b : F32) (sa : Safe n a) (sb : Safe n b) :
    F32.lt (scale2 n a) (scale2 n b) = F32.lt a b := Pow2F32.lt_scale2 n a b sa sb
theorem le_scale2 (n : Int) (a b : F32) (sa : Safe n a) (sb : Safe n b) :
    F32.le (scale2 n a) (scale2 n b) = F32.le a b := Pow2F32.le_scale2 n a b sa sb
example : Safe 10 ⟨0xc0e80000⟩ ∧ Safe 10 ⟨0x3fc00000⟩ ∧ Safe 10 ⟨0⟩ := by decide

/-! ## stage 3: the Renderer's transform -/

/-- `recalcTransform` on the state whose viewBox edges are multiplied by `2^n` yields `scaleX' = scale2 (−n) scaleX`,
    `biasX' = scale2 n biasX` (same for Y), everything else equal (`scF`), bit for bit.  `TransformSafe n r vb`: the
    extents `maxX − minX`, `maxY − minY` and the quotients `dx / extent`, `dy / extent` are safe. -/
theorem recalc_scaled (n : Int) (z : Renderer F32 F64) (h : TransformSafe n z.r z.viewBox) :
    ({ z with viewBox := scaleVBF n z.viewBox } : Renderer F32 F64).recalcTransform = scF n z.recalcTransform :=
  recalc_scF n z h

/-- … hence the re-expressed state has the recalculated transform of its own viewBox (`RenderHist.TransformOK`,
    the invariant of the Renderer's life) whenever the original has. -/
theorem scaled_transformOK (n : Int) (z : Renderer F32 F64) (hz : RenderHist.TransformOK z)
    (h : TransformSafe n z.r z.viewBox) : RenderHist.TransformOK (scF n z) := scF_transformOK n z hz h
example : TransformSafe 1 Pow2F32.Ex.z48.r Pow2F32.Ex.z48.viewBox ∧ RenderHist.TransformOK Pow2F32.Ex.z48 ∧
    scaleVBF 1 Pow2F32.Ex.vb32 = Pow2F32.Ex.vb64 :=
  ⟨Pow2F32.Ex.z48_transformSafe, RenderHist.transformOK_reset _ _ _ _, Pow2F32.Ex.vb_scaled⟩
/-- viewBox (−32,−32,32,32) → (−64,−64,64,64) at 48 pixels: scale 0.75 → 0.375, bias 32 → 64 -/
example : Pow2F32.Ex.z48.scaleX = ⟨0x3f400000⟩ ∧ Pow2F32.Ex.z48.biasX = ⟨0x42000000⟩ ∧
    (scF 1 Pow2F32.Ex.z48).scaleX = ⟨0x3ec00000⟩ ∧ (scF 1 Pow2F32.Ex.z48).biasX = ⟨0x42800000⟩ :=
  Pow2F32.Ex.z48_transform

/-- `absX' (x·2^n) = absX x` BIT FOR BIT; `AbsSafe n scale bias x`: the sum `x + bias` and the product
    `scale · (x + bias)` are safe (the sum may be an exact zero). -/
theorem absX_scaled (n : Int) (z : Renderer F32 F64) (x : F32) (h : AbsSafe n z.scaleX z.biasX x) :
    (scF n z).absX (scale2 n x) = z.absX x := absX_scF n z x h
theorem absY_scaled (n : Int) (z : Renderer F32 F64) (y : F32) (h : AbsSafe n z.scaleY z.biasY y) :
    (scF n z).absY (scale2 n y) = z.absY y := absY_scF n z y h
/-- `relX' (x·2^n) = relX x` BIT FOR BIT; `RelSafe n scale x`: the product `scale · x` is safe. -/
theorem relX_scaled (n : Int) (z : Renderer F32 F64) (x : F32) (h : RelSafe n z.scaleX x) :
    (scF n z).relX (scale2 n x) = z.relX x := relX_scF n z x h
theorem relY_scaled (n : Int) (z : Renderer F32 F64) (y : F32) (h : RelSafe n z.scaleY y) :
    (scF n z).relY (scale2 n y) = z.relY y := relY_scF n z y h
/-- `unabsX' p = (unabsX p)·2^n` BIT FOR BIT (pixel space back to viewBox space; the Renderer uses it for relative arcs
    only — a first step towards them, see "Not proved"); `UnabsSafe`: the quotient `p / scale` and the difference are safe. -/
theorem unabsX_scaled (n : Int) (z : Renderer F32 F64) (p : F32) (h : UnabsSafe n z.scaleX z.biasX p) :
    (scF n z).unabsX p = scale2 n (z.unabsX p) := unabsX_scF n z p h
theorem unabsY_scaled (n : Int) (z : Renderer F32 F64) (p : F32) (h : UnabsSafe n z.scaleY z.biasY p) :
    (scF n z).unabsY p = scale2 n (z.unabsY p) := unabsY_scF n z p h
example : UnabsSafe 1 Pow2F32.Ex.z48.scaleX Pow2F32.Ex.z48.biasX Pow2F32.Ex.c12_75 := Pow2F32.Ex.z48_unabs.1
-- 1.5, −7.25 and the left edge −32 (where `x + bias = +0`)
example : AbsSafe 1 Pow2F32.Ex.z48.scaleX Pow2F32.Ex.z48.biasX Pow2F32.Ex.c1_5 ∧
    AbsSafe 1 Pow2F32.Ex.z48.scaleY Pow2F32.Ex.z48.biasY Pow2F32.Ex.cm7_25 ∧
    AbsSafe 1 Pow2F32.Ex.z48.scaleX Pow2F32.Ex.z48.biasX Pow2F32.Ex.z48.viewBox.minX ∧
    RelSafe 1 Pow2F32.Ex.z48.scaleX Pow2F32.Ex.c1_5 ∧ RelSafe 1 Pow2F32.Ex.z48.scaleY Pow2F32.Ex.cm7_25 :=
  Pow2F32.Ex.z48_abs_rel

/-! ## stage 4: calls and programs -/

/-- what `ScaledF n z z'` says: same rectangle, pen, sub-path start, smooth point (PIXEL space), selectors, colour
    AND number registers, palette, LOD, flags, paint; viewBox edges `· 2^n`; scale `/ 2^n`, bias `· 2^n`. -/
theorem scaledF_iff (n : Int) (z z' : Renderer F32 F64) :
    ScaledF n z z' ↔
      (z'.r = z.r ∧ z'.viewBox = scaleVBF n z.viewBox ∧
       z'.scaleX = scale2 (-n) z.scaleX ∧ z'.biasX = scale2 n z.biasX ∧
       z'.scaleY = scale2 (-n) z.scaleY ∧ z'.biasY = scale2 n z.biasY ∧
       z'.palette = z.palette ∧ z'.lod0 = z.lod0 ∧ z'.lod1 = z.lod1 ∧ z'.cSel = z.cSel ∧ z'.nSel = z.nSel ∧
       z'.disabled = z.disabled ∧ z'.prevSmoothType = z.prevSmoothType ∧ z'.prevSmoothX = z.prevSmoothX ∧
       z'.prevSmoothY = z.prevSmoothY ∧ z'.fill = z.fill ∧ z'.cReg = z.cReg ∧ z'.nReg = z.nReg ∧
       z'.penX = z.penX ∧ z'.penY = z.penY ∧ z'.firstX = z.firstX ∧ z'.firstY = z.firstY) :=
  Pow2F32.scaledF_iff n z z'

/-- One call (`step_scaledF`): for `Reset` (viewBox scaled), every styling call (same operands), `StartPath` selecting a
    flat colour or nothing, `ClosePathEndPath` and the sixteen line / curve verbs — absolute and relative, smooth
    curves and close-and-move included — with coordinate operands multiplied by `2^n`: related states make
    IDENTICAL rasteriser calls and stay related, given `SafeCall n z c` (decidable; the sums `x + bias` and products
    `scale · …` of THIS step are safe; nothing is required while the path is disabled).  Arcs are excluded
    (`SafeCall` is `False` for them). -/
theorem step_scaledF (n : Int) (arc : ArcFn F32 F64) (posInf : F32) (z z' : Renderer F32 F64) (hz : ScaledF n z z')
    (c : Call F32) (h : SafeCall n z c) :
    (z'.step arc posInf (scaleCallF n c)).2 = (z.step arc posInf c).2 ∧
    ScaledF n (z.step arc posInf c).1 (z'.step arc posInf (scaleCallF n c)).1 :=
  Pow2F32.step_scaledF n arc posInf z z' hz c h
example : SafeCall 1 ((Pow2F32.Ex.z0.run arcF32 Lemmas.RendererVM.Ex.posInf (Pow2F32.Ex.prog.take 2)).1)
    (.d6 .c (Pow2F32.Ex.i 1) (Pow2F32.Ex.i (-1)) (Pow2F32.Ex.i 2) (Pow2F32.Ex.i 2) Pow2F32.Ex.c3 (Pow2F32.Ex.i 0)) :=
  Pow2F32.Ex.step_safe

/-- **`pow2_scaling_f32`.**  From related states, a program that is safe along its run (`SafeRun`, evaluated on the
    ORIGINAL program) and the program with every call scaled by `2^n` make IDENTICAL rasteriser calls and end in
    related states. -/
theorem pow2_scaling_f32 (n : Int) (arc : ArcFn F32 F64) (posInf : F32) (z z' : Renderer F32 F64)
    (hz : ScaledF n z z') (cs : List (Call F32)) (h : SafeRun n arc posInf z cs) :
    (z'.run arc posInf (cs.map (scaleCallF n))).2 = (z.run arc posInf cs).2 ∧
    ScaledF n (z.run arc posInf cs).1 (z'.run arc posInf (cs.map (scaleCallF n))).1 :=
  Pow2F32.pow2_scaling_f32 n arc posInf z z' hz cs h

/-- **Clause (b) at float32 (`pow2_scaling_f32_program`).**  A whole graphic `Reset vb pal :: body` delivered to a
    Renderer in ANY state (any rectangle, any earlier history), and the same graphic with the viewBox and all
    coordinates multiplied by `2^n`, make IDENTICAL rasteriser calls — the same `Reset(w, h)`, bit-identical float32
    path coordinates, the same `Draw`s with the same flat paints — provided the run of the original is safe. -/
theorem pow2_scaling_f32_program (n : Int) (arc : ArcFn F32 F64) (posInf : F32) (z0 : Renderer F32 F64)
    (vb : ViewBox F32) (pal : Palette) (body : List (Call F32))
    (h : SafeRun n arc posInf z0 (.reset vb pal :: body)) :
    (z0.run arc posInf ((Call.reset vb pal :: body).map (scaleCallF n))).2 =
      (z0.run arc posInf (.reset vb pal :: body)).2 :=
  Pow2F32.pow2_scaling_f32_program n arc posInf z0 vb pal body h
/-- non-vacuity: a 25-call graphic over (−32,−32,32,32) with two paths (all sixteen verbs, a start on the viewBox
    edge, zero offsets, a second colour register, LOD) is safe for `2^1`, `2^(−3)`, `2^40`, not for `2^125`; its
    re-expression is the graphic over (−64,−64,64,64) with doubled coordinates; 28 rasteriser calls, 2 draws -/
example : SafeRun 1 arcF32 Lemmas.RendererVM.Ex.posInf Pow2F32.Ex.z0 Pow2F32.Ex.prog ∧
    SafeRun (-3) arcF32 Lemmas.RendererVM.Ex.posInf Pow2F32.Ex.z0 Pow2F32.Ex.prog ∧
    SafeRun 40 arcF32 Lemmas.RendererVM.Ex.posInf Pow2F32.Ex.z0 Pow2F32.Ex.prog := Pow2F32.Ex.prog_safe
example : ¬ SafeRun 125 arcF32 Lemmas.RendererVM.Ex.posInf Pow2F32.Ex.z0 Pow2F32.Ex.prog := Pow2F32.Ex.prog_not_safe_125
example : (Pow2F32.Ex.prog.map (scaleCallF 1)).take 4 =
    [.reset Pow2F32.Ex.vb64 defaultPalette, .startPath 0 (Pow2F32.Ex.i (-64)) (Pow2F32.Ex.i 16),
     .d2 .L Pow2F32.Ex.c3 ⟨0xc1680000⟩, .d1 .H ⟨0x41cc0000⟩] := Pow2F32.Ex.prog_scaled_shape
example : (Pow2F32.Ex.z0.run arcF32 Lemmas.RendererVM.Ex.posInf (Pow2F32.Ex.prog.map (scaleCallF 1))).2 =
    (Pow2F32.Ex.z0.run arcF32 Lemmas.RendererVM.Ex.posInf Pow2F32.Ex.prog).2 := Pow2F32.Ex.prog_same

/-!
## Not proved here

* **Arcs** (`Call.arc`): excluded — `SafeCall` is `False` for them.  `AbsArcTo` (`Ivg/Model/Arc.lean`) maps the pen back
  to viewBox space (`unabsX`, a float32 division and subtraction — these DO commute: `unabsX_scaled`),
  then works in float64 with `sqrt`, `acos`, `sin`, `cos` on ratios that are scale-invariant only if every float64
  intermediate also commutes with the scaling; no float64 analogue of this file is given.
* **Gradient paints**: a `StartPath` must select a flat colour or no paint (`FlatSel`); number registers are carried
  over unchanged (`SetNReg` operands are NOT re-expressed).  The clause "… and gradient matrices scaled" is proved at
  exact arithmetic only (`C16.initGradient_scaled`); at floats `initGradient` works in float64
  (`a/2^n · (1 / (scaleX/2^n))`, …), not analysed here.
* **The safety hypotheses are sufficient, not necessary**: `Safe`/`Norm` accept `±0` and normal numbers with exponent
  field in `[2, 254]` (before and after the scaling); subnormals and the lowest normal binade (exponent field 1) are
  rejected although the scaling may still commute there (the lower bound 2 is what lets a result be recognised as
  "not rounded in the subnormal range" from its bit pattern alone; the upper bound 254 is exact).  `scale2` is the
  identity outside `Norm n`, so nothing is claimed for such inputs.  That the hypothesis on RESULTS cannot simply be
  dropped is shown by an explicit double-rounding counterexample beside `mul_scale2` in `Pow2F32b.lean`.
* No value-level sufficient condition ("all magnitudes in `[2^-100, 2^100]`, `|n| ≤ 20`") is derived for `SafeRun`; it is
  a decidable predicate to be evaluated on the original program (`decide +kernel`, as in the examples).
* **Pixels**: as in `C16.lean`, the theorems stop at the calls made on the rasteriser (x/image/vector is not modelled).
-/

end Ivg.Props.C16Float

#obligations C16 [
  Ivg.Props.C16Float.scale2_value, Ivg.Props.C16Float.scale2_eq_mul,
  Ivg.Props.C16Float.mul_scale2, Ivg.Props.C16Float.mul_scale2_left, Ivg.Props.C16Float.mul_scale2_right,
  Ivg.Props.C16Float.mul_scale2_cancel,
  Ivg.Props.C16Float.div_scale2, Ivg.Props.C16Float.div_scale2_common, Ivg.Props.C16Float.div_scale2_den,
  Ivg.Props.C16Float.add_scale2, Ivg.Props.C16Float.sub_scale2, Ivg.Props.C16Float.neg_scale2,
  Ivg.Props.C16Float.lt_scale2, Ivg.Props.C16Float.le_scale2,
  Ivg.Props.C16Float.recalc_scaled, Ivg.Props.C16Float.scaled_transformOK,
  Ivg.Props.C16Float.absX_scaled, Ivg.Props.C16Float.absY_scaled,
  Ivg.Props.C16Float.relX_scaled, Ivg.Props.C16Float.relY_scaled,
  Ivg.Props.C16Float.unabsX_scaled, Ivg.Props.C16Float.unabsY_scaled,
  Ivg.Props.C16Float.scaledF_iff, Ivg.Props.C16Float.step_scaledF,
  Ivg.Props.C16Float.pow2_scaling_f32, Ivg.Props.C16Float.pow2_scaling_f32_program,
  Ivg.Gen.Tie.renderer_fields_tie,
  -- regenerated code (translator, Ivg/Gen/Code) = model, for all inputs: Transform
  Ivg.Gen.Tie.renderer_absX_code_tie,
  Ivg.Gen.Tie.renderer_absY_code_tie,
  Ivg.Gen.Tie.renderer_relX_code_tie,
  Ivg.Gen.Tie.renderer_relY_code_tie,
  Ivg.Gen.Tie.renderer_unabsX_code_tie,
  Ivg.Gen.Tie.renderer_unabsY_code_tie,
  Ivg.Gen.Tie.renderer_recalcTransform_code_tie,
  Ivg.Gen.Tie.renderer_recalcTransform_code_tie_frame]
