import Ivg.Props.C08
import Ivg.Gen.Tie.Code.EncNumbers
import Ivg.Gen.Tie.Code.DecNumbers
/-!
# C08 — number round trips, restated ON THE CODE

`encode_buffer_encodeX` and `decode_buffer_decodeX` are the two `buffer.go` codecs as the translator regenerates them from
/repo's source on every run.  Composing their code ties with the model's round-trip theorems: what the regenerated
DECODER returns on the bytes the regenerated ENCODER appended to an empty buffer (followed by anything) — the value,
and the number of bytes consumed, which is exactly the number written.
-/
namespace Ivg.Props.C08Code
open Ivg Ivg.Num Ivg.Gen Ivg.Gen.Code Ivg.Gen.Tie Codec

/-- naturals below 2^30: Go's decoder returns the number and the width Go's encoder used -/
theorem code_nat_roundtrip (u : UInt32) (h : u.toNat < 2^30) (rest : Bytes) :
    decode_buffer_decodeNatural (encode_buffer_encodeNatural [] u ++ rest) = (u, (natWidth u.toNat : Int)) := by
  rw [encodeNatural_code_tie, List.nil_append, decodeNatural_code_tie, C08.nat_roundtrip u.toNat h rest]
  simp [decNatOf]

/-- reals: the value is `rtReal f` (`f` itself in a short form, else `f` with its two lowest mantissa bits cleared, see
    `C08.real_short_equal`, `C08.real_long`), and as many bytes are consumed as were written -/
theorem code_real_roundtrip (f : F32) (rest : Bytes) :
    decode_buffer_decodeReal ((encode_buffer_encodeReal [] f).2 ++ rest) = (rtReal f, (encode_buffer_encodeReal [] f).1) := by
  rw [encodeReal_code_tie, List.nil_append, decodeReal_code_tie, C08.real_roundtrip f rest]
  simp [decResOf]

theorem code_coord_roundtrip (f : F32) (rest : Bytes) :
    decode_buffer_decodeCoordinate ((encode_buffer_encodeCoordinate [] f).2 ++ rest)
      = (rtCoord f, (encode_buffer_encodeCoordinate [] f).1) := by
  rw [encodeCoordinate_code_tie, List.nil_append, decodeCoordinate_code_tie, C08.coord_roundtrip f rest]
  simp [decResOf]

theorem code_z2o_roundtrip (f : F32) (rest : Bytes) :
    decode_buffer_decodeZeroToOne ((encode_buffer_encodeZeroToOne [] f).2 ++ rest)
      = (rtZ2O f, (encode_buffer_encodeZeroToOne [] f).1) := by
  rw [encodeZeroToOne_code_tie, List.nil_append, decodeZeroToOne_code_tie, C08.z2o_roundtrip f rest]
  simp [decResOf]

theorem code_angle_roundtrip (f : F32) (rest : Bytes) :
    decode_buffer_decodeZeroToOne ((encode_buffer_encodeAngle [] f).2 ++ rest)
      = (rtAngle f, (encode_buffer_encodeAngle [] f).1) := by
  rw [encodeAngle_code_tie, List.nil_append, decodeZeroToOne_code_tie, C08.angle_roundtrip f rest]
  simp [decResOf]

end Ivg.Props.C08Code

#obligations C08 [
  Ivg.Props.C08Code.code_nat_roundtrip, Ivg.Props.C08Code.code_real_roundtrip, Ivg.Props.C08Code.code_coord_roundtrip,
  Ivg.Props.C08Code.code_z2o_roundtrip, Ivg.Props.C08Code.code_angle_roundtrip]
