import Ivg.Lemmas.EncoderProto
import Ivg.Lemmas.Selectors
import Ivg.Lemmas.RenderHist
import Ivg.Model.Arc
import Ivg.Gen.Tie.EncoderFields
import Ivg.Gen.Tie.GradientFields
import Ivg.Gen.Tie.RendererFields
import Ivg.Gen.Tie.Code.RenderRegs
import Ivg.Gen.Tie.Code.Retarget
import Ivg.Gen.Tie.Code.Resolve
import Ivg.Gen.Tie.Code.Encoder
import Ivg.Gen.Tie.Code.Encoder2
import Ivg.Gen.Tie.Code.Encoder3
import Ivg.Gen.Tie.Code.Encoder4
import Ivg.Gen.Tie.Code.Encoder5
import Ivg.Gen.Tie.Code.Encoder6
import Ivg.Gen.Tie.Code.Vec
import Ivg.Gen.Tie.Code.Encoder7
import Ivg.Obligations
/-!
# C17 — the output of an Encoder / Renderer depends only on the calls since its last Reset

Property text: "The output of an Encoder or a Renderer depends only on the calls made since its last
Reset: reusing an Encoder after Reset, or a Renderer and its rasteriser for another decode, gives
results identical to fresh objects whatever the earlier history was (including histories that ended
in an error, mid-path, with high-resolution mode on, with registers, selectors, LOD and smooth-curve
state dirtied), encoding the same calls twice gives byte-identical output, and calling Bytes twice
returns equal bytes."

The theorems are about the executable models `Ivg.Enc.Encoder` and `Ivg.Ren.Renderer`.  That the
models carry ALL the state of the Go structs is the tie `Gen.Tie.encoder_fields_tie`,
`renderer_fields_tie`, `gradient_fields_tie` (a new field in /repo breaks the build).
-/
namespace Ivg.Props.C17
open Ivg Ivg.Num Ivg.Enc Ivg.Ren Ivg.EncoderProto

/-! ## Encoder -/

/-- `Reset` overwrites the whole Encoder: the state after it does not depend on the state before
    (error, open path, high-resolution flag, selectors, LOD, buffered drawing operands …). -/
theorem encoder_reset_clears (vb : ViewBox F32) (pal : Palette) (e₁ e₂ : Encoder) :
    e₁.step (.reset vb pal) = e₂.step (.reset vb pal) := reset_clears vb pal e₁ e₂

/-- Clause "reusing an Encoder after Reset … gives results identical to fresh objects whatever the
    earlier history was": for EVERY prior state `e₀` (reachable or not) and every earlier history `A`
    over the whole API, after `Reset` followed by any uses `B` the Encoder is in exactly the state of a
    fresh (zero value) Encoder after the same `Reset` and `B`, and everything observed during `B`
    (selector / LOD reads and every `Bytes()` result, errors included) is identical. -/
theorem encoder_reset_forgets (e₀ : Encoder) (A : List EncOp) (vb : ViewBox F32) (pal : Palette)
    (B : List EncOp) :
    (e₀.runOps (A ++ .call (.reset vb pal) :: B)).1 = (({} : Encoder).runOps (.call (.reset vb pal) :: B)).1 ∧
    (e₀.runOps (A ++ .call (.reset vb pal) :: B)).2 =
      (e₀.runOps A).2 ++ (({} : Encoder).runOps (.call (.reset vb pal) :: B)).2 :=
  EncoderProto.encoder_reset_forgets e₀ A vb pal B

/-- … in particular the final `Bytes()` agree. -/
theorem encoder_reset_forgets_bytes (e₀ : Encoder) (A : List EncOp) (vb : ViewBox F32) (pal : Palette)
    (B : List EncOp) :
    (e₀.runOps (A ++ .call (.reset vb pal) :: B)).1.bytes =
      (({} : Encoder).runOps (.call (.reset vb pal) :: B)).1.bytes :=
  EncoderProto.encoder_reset_forgets_bytes e₀ A vb pal B

-- a dirty earlier history: high-resolution mode on, selectors and LOD changed, an open path with
-- buffered operands, then an error
set_option maxRecDepth 100000 in
example :
    let A : List EncOp := [.setHiRes true, .call (.setCSel 9), .call (.setLOD F32.zero F32.zero),
      .call (.startPath 0 F32.zero F32.zero), .call (.d2 .L F32.zero F32.zero), .call (.setNSel 3)]
    let e := (({} : Encoder).runOps A).1
    e.err = some .stylingOpsUsedInDrawingMode ∧ e.mode = .drawing ∧ e.hiRes = true ∧ e.cSel = 9 ∧
      e.drawArgs ≠ [] ∧ e.lod1 = F32.zero := by
  decide +kernel

/-- Clause "calling Bytes twice returns equal bytes": for every state, a second `Bytes()` returns the
    same result and changes nothing. -/
theorem bytes_idempotent (e : Encoder) : e.bytes.1.bytes = e.bytes := EncoderProto.bytes_idempotent e

/-- Clause "encoding the same calls twice gives byte-identical output".  In the model this is nothing
    but `runOps` being a function of the history (no hidden state: `encoder_fields_tie` ties the
    struct fields, the write-frame theorems of `Gen.Tie` exclude globals); stated for the record, for
    two Encoders in arbitrary prior states that are Reset first. -/
theorem deterministic (e₁ e₂ : Encoder) (vb : ViewBox F32) (pal : Palette) (h₁ h₂ : List EncOp) (h : h₁ = h₂) :
    (e₁.runOps (.call (.reset vb pal) :: h₁)).2 = (e₂.runOps (.call (.reset vb pal) :: h₂)).2 ∧
    (e₁.runOps (.call (.reset vb pal) :: h₁)).1.bytes = (e₂.runOps (.call (.reset vb pal) :: h₂)).1.bytes := by
  subst h; exact ⟨rfl, rfl⟩

/-! ## Renderer -/

section renderer
variable {α β : Type} [Arith α] [Arith β] [Wide α β]
open RendererReset

/-- Clause "reusing … a Renderer and its rasteriser for another decode gives results identical to
    fresh objects": two Renderers drawing into the same target rectangle (`r`, what `SetRasterizer`
    sets), in ANY two states, make exactly the same rasteriser calls from a `Reset` on, for every
    program `B` in which styling calls and `StartPath` occur outside a path and drawing calls inside
    one (`WellBracketed`; every stream the decoder delivers and every history the Encoder accepts is
    of this form, see `respecting_is_wellBracketed`), whatever the arc implementation and number types.
    `Reset` does not touch `disabled`, `fill` and the rasteriser's pen, so the two states are NOT equal
    after it; they agree on every other field (`shared`), and the four stale fields are rewritten by
    `StartPath` before anything reads them. -/
theorem renderer_reset_forgets (arc : ArcFn α β) (posInf : α) (z₁ z₂ : Renderer α β) (hr : z₁.r = z₂.r)
    (vb : ViewBox α) (pal : Palette) (B : List (Call α)) (hB : WellBracketed false B) :
    (z₁.run arc posInf (.reset vb pal :: B)).2 = (z₂.run arc posInf (.reset vb pal :: B)).2 ∧
    shared (z₁.run arc posInf (.reset vb pal :: B)).1 = shared (z₂.run arc posInf (.reset vb pal :: B)).1 :=
  RendererReset.renderer_reset_forgets arc posInf z₁ z₂ hr vb pal B hB

/-- "whatever the earlier history was": `A` is ANY call sequence (ending mid-path, registers,
    selectors, LOD, smooth-curve state dirtied, paths disabled …); no call changes the target. -/
theorem renderer_reuse (arc : ArcFn α β) (posInf : α) (z : Renderer α β) (A : List (Call α))
    (vb : ViewBox α) (pal : Palette) (B : List (Call α)) (hB : WellBracketed false B) :
    ((z.run arc posInf A).1.run arc posInf (.reset vb pal :: B)).2 = (z.run arc posInf (.reset vb pal :: B)).2 :=
  RendererReset.renderer_reuse arc posInf z A vb pal B hB

/-- every call sequence respecting the Encoder's protocol (C10) is well bracketed -/
theorem respecting_is_wellBracketed (B : List (Call α))
    (h : Spec.Protocol.ViolationFree .styling (B.map Spec.Protocol.classifyCall)) : WellBracketed false B :=
  wellBracketed_of_violationFree B false h

end renderer

-- two different states with the same target
example : (Renderer.zero : Renderer F32 F64).r =
    ({ (Renderer.zero : Renderer F32 F64) with disabled := true, cSel := 5, prevSmoothType := 2 }).r := rfl
example : RendererReset.WellBracketed false
    [Call.setCSel 1, .startPath 0 F32.zero F32.zero, .d1 .H F32.zero, .d2 .Y F32.zero F32.zero, .closeEnd,
     .setLOD F32.zero F32.posInf, .startPath 1 F32.zero F32.zero] := by
  simp [RendererReset.WellBracketed, RendererReset.pathStep]
-- the restriction is necessary: a drawing call before any StartPath reads the stale `disabled`
example : ¬ RendererReset.WellBracketed false [Call.d1 .H F32.zero] := by
  simp [RendererReset.WellBracketed, RendererReset.pathStep]


/-! ## Renderer: histories with `SetRasterizer`

`RenOp α` is a Destination call or `SetRasterizer(_, r)`; `z.runOps` runs a history
(`Ivg/Lemmas/RenderHist.lean`).  `renderer_reset_forgets` above needs the two Renderers to point at the
same rectangle and its program contains no `SetRasterizer`; here the rectangle is set inside the history. -/
section renderer_histories
variable {α β : Type} [Arith α] [Arith β] [Wide α β]
open RendererReset Ivg.RenderHist Ivg.Lemmas.RendererVM

/-- Clause "depends only on the calls made since its last Reset", state part (`reset_reseeds`): after ANY
    history `h` from ANY state, `Reset vb pal` leaves all 64 colour registers = `pal`, all 64 number
    registers zero, both selectors 0, LOD = (0, +∞), viewBox = `vb`, palette = `pal`, no smooth point, the
    transform recalculated for the rectangle of the last `SetRasterizer` — which `Reset` leaves alone — and
    the specification's initial machine state; also when `vb`/`pal` are the ones already stored. -/
theorem reset_reseeds (arc : ArcFn α β) (posInf : α) (z0 : Renderer α β) (h : List (RenOp α))
    (vb : ViewBox α) (pal : Palette) :
    let z := (z0.runOps arc posInf (h ++ [.call (.reset vb pal)])).1
    z.cReg = pal ∧ z.nReg = Regs.const zeroA ∧ z.cSel = 0 ∧ z.nSel = 0 ∧ z.lod0 = zeroA ∧ z.lod1 = posInf ∧
    z.viewBox = vb ∧ z.palette = pal ∧ z.prevSmoothType = 0 ∧ z.r = rectAfter z0.r h ∧
    TransformOK z ∧ absVM z = Spec.VM.VM.init posInf pal :=
  RenderHist.reset_reseeds arc posInf z0 h vb pal

/-- `renderer_reset_forgets` for histories: same rectangle, and the well-bracketed history `B` after the
    `Reset` may contain `SetRasterizer` (between paths, or anywhere else). -/
theorem renderer_reset_forgets_hist (arc : ArcFn α β) (posInf : α) (z₁ z₂ : Renderer α β) (hr : z₁.r = z₂.r)
    (vb : ViewBox α) (pal : Palette) (B : List (RenOp α)) (hB : WellBracketedOps false B) :
    (z₁.runOps arc posInf (.call (.reset vb pal) :: B)).2 = (z₂.runOps arc posInf (.call (.reset vb pal) :: B)).2 ∧
    shared (z₁.runOps arc posInf (.call (.reset vb pal) :: B)).1 =
      shared (z₂.runOps arc posInf (.call (.reset vb pal) :: B)).1 :=
  reset_forgets_hist arc posInf z₁ z₂ hr vb pal B hB
example : RenderHist.WellBracketedOps false
    [RenOp.rast ⟨0, 0, 8, 8⟩, .call (.setCSel 1), .call (.startPath 0 F32.zero F32.zero), .rast ⟨0, 0, 9, 9⟩,
     .call (.d1 .H F32.zero), .call .closeEnd, .rast ⟨1, 1, 9, 9⟩, .call (.setLOD F32.zero F32.posInf),
     .call (.startPath 1 F32.zero F32.zero)] := RenderHist.Ex.wb_example

/-- Clause "reusing … a Renderer and its rasteriser for another decode gives results identical to fresh
    objects", with the documented `SetRasterizer r; Reset; …`: two Renderers in ANY two states — other
    rectangles, other transforms, other palettes and registers, a path open or disabled — make exactly the
    same rasteriser calls and agree afterwards on every field but the four dead ones (`shared`). -/
theorem renderer_rast_reset_forgets (arc : ArcFn α β) (posInf : α) (z₁ z₂ : Renderer α β) (r : Rect)
    (vb : ViewBox α) (pal : Palette) (B : List (RenOp α)) (hB : WellBracketedOps false B) :
    (z₁.runOps arc posInf (.rast r :: .call (.reset vb pal) :: B)).2 =
      (z₂.runOps arc posInf (.rast r :: .call (.reset vb pal) :: B)).2 ∧
    shared (z₁.runOps arc posInf (.rast r :: .call (.reset vb pal) :: B)).1 =
      shared (z₂.runOps arc posInf (.rast r :: .call (.reset vb pal) :: B)).1 :=
  rast_reset_forgets arc posInf z₁ z₂ r vb pal B hB

/-- … and in the other order, `Reset; register-setting calls; SetRasterizer r; …` (with no register-setting
    call: `Reset; SetRasterizer r; …`): the rectangle and scale `Reset` used are replaced before anything
    is drawn. -/
theorem renderer_reset_rast_forgets (arc : ArcFn α β) (posInf : α) (z₁ z₂ : Renderer α β) (r : Rect)
    (vb : ViewBox α) (pal : Palette) (S : List (Call α)) (hS : ∀ c ∈ S, isRegCall c = true)
    (B : List (RenOp α)) (hB : WellBracketedOps false B) :
    (z₁.runOps arc posInf (.call (.reset vb pal) :: (S.map .call ++ .rast r :: B))).2 =
      (z₂.runOps arc posInf (.call (.reset vb pal) :: (S.map .call ++ .rast r :: B))).2 ∧
    shared (z₁.runOps arc posInf (.call (.reset vb pal) :: (S.map .call ++ .rast r :: B))).1 =
      shared (z₂.runOps arc posInf (.call (.reset vb pal) :: (S.map .call ++ .rast r :: B))).1 :=
  reset_rast_forgets arc posInf z₁ z₂ r vb pal S hS B hB
example : ∀ c ∈ [(.setCSel 3 : Call F32), .setNReg 0 true F32.zero, .setLOD F32.zero F32.posInf],
    isRegCall c = true := by decide

/-- "whatever the earlier history was": a Renderer with ANY history `A` behind it (earlier graphics at other
    sizes, ending mid-path, …), then `SetRasterizer r; Reset; B`: the whole output is the output of `A`
    followed by what a FRESH (zero value) Renderer produces for `SetRasterizer r; Reset; B`. -/
theorem renderer_reuse_hist (arc : ArcFn α β) (posInf : α) (z : Renderer α β) (A : List (RenOp α)) (r : Rect)
    (vb : ViewBox α) (pal : Palette) (B : List (RenOp α)) (hB : WellBracketedOps false B) :
    (z.runOps arc posInf (A ++ .rast r :: .call (.reset vb pal) :: B)).2 =
      (z.runOps arc posInf A).2 ++
        ((Renderer.zero : Renderer α β).runOps arc posInf (.rast r :: .call (.reset vb pal) :: B)).2 :=
  reuse_hist arc posInf z A r vb pal B hB

/-- … the same with `SetRasterizer` after `Reset`. -/
theorem renderer_reuse_hist' (arc : ArcFn α β) (posInf : α) (z : Renderer α β) (A : List (RenOp α)) (r : Rect)
    (vb : ViewBox α) (pal : Palette) (B : List (RenOp α)) (hB : WellBracketedOps false B) :
    (z.runOps arc posInf (A ++ .call (.reset vb pal) :: .rast r :: B)).2 =
      (z.runOps arc posInf A).2 ++
        ((Renderer.zero : Renderer α β).runOps arc posInf (.call (.reset vb pal) :: .rast r :: B)).2 :=
  reuse_hist' arc posInf z A r vb pal B hB

/-- a well-bracketed call sequence is a well-bracketed history -/
theorem wellBracketedOps_of_calls (cs : List (Call α)) (b : Bool) (h : WellBracketed b cs) :
    WellBracketedOps b (cs.map .call) := wellBracketedOps_calls cs b h

end renderer_histories

/-! ## the rasteriser adapter reused

"A Renderer and its rasteriser reused for another decode give the results of fresh objects": the repository's part of
the rasteriser is `raster/vec.Rasterizer`, whose only state of its own is the one-shot compositing operator.
(`Ivg/Model/VecAdapter.lean`, tied to the code by `Gen.Tie.vecDraw_code_tie`.) -/

/-- What a used adapter asks of the library for a later history `b` is what a FRESH adapter on the same destination asks
    whose operator is the one the used adapter has by then … -/
theorem adapter_reuse {H : Type} (z : Vec.Adapter H) (a b : List (Vec.DrawArgs H)) :
    (z.draws (a ++ b)).inner = (z.draws a).inner ++ ((⟨z.dst, (z.draws a).drawOp, []⟩ : Vec.Adapter H).draws b).inner := by
  rw [Vec.draws_append, Vec.draws_inner (⟨z.dst, (z.draws a).drawOp, []⟩ : Vec.Adapter H)]; simp

/-- … and that operator is source-over, the operator of a fresh `vec.Rasterizer`, as soon as the earlier history made
    one Draw call — into whatever rectangle, an empty one included. -/
theorem adapter_reuse_after_drawing {H : Type} (z : Vec.Adapter H) (a b : List (Vec.DrawArgs H)) (h : a ≠ []) :
    (z.draws (a ++ b)).inner = (z.draws a).inner ++ ((⟨z.dst, Vec.over, []⟩ : Vec.Adapter H).draws b).inner := by
  rw [adapter_reuse, Vec.draws_op z a h]
example : ((⟨7, 1, []⟩ : Vec.Adapter Nat).draws ([⟨⟨0, 0, 0, 0⟩, 3, 0, 0⟩] ++ [⟨⟨2, 2, 6, 6⟩, 5, 0, 0⟩])).inner =
    ((⟨7, 1, []⟩ : Vec.Adapter Nat).draws [⟨⟨0, 0, 0, 0⟩, 3, 0, 0⟩]).inner ++ [.setOp 0, .draw 7 ⟨2, 2, 6, 6⟩ 5 0 0] := by decide

/-!
## Not proved in this file

* The rasteriser itself (`golang.org/x/image/vector.Rasterizer`, `raster/vec.Rasterizer`) is outside
  /repo; the model keeps its pen and the list of calls made on it.  "Identical results" for the
  Renderer therefore means: identical sequences of rasteriser calls (`RasterOp`s, including the
  `Reset(w, h)` that `StartPath` issues and the paint passed to `Draw`), not identical pixels.
* `renderer_reset_forgets` needs `WellBracketed`: for a program that draws before its first
  `StartPath` the stale `disabled` flag decides whether anything is emitted (the decoder never
  delivers such a program, and the Encoder rejects it).
* Histories: between `Reset` and a later `SetRasterizer` only register-setting calls are covered by
  `renderer_reset_rast_forgets` — a path drawn in between is drawn into whatever rectangle each Renderer
  had, so the outputs legitimately differ.  `SetRasterizer` is modelled as handing over a fresh rasteriser;
  that a REUSED `raster.Rasterizer` is as good as a fresh one is `StartPath`'s `z.z.Reset(w, h)` (the first
  rasteriser call of every enabled path, `C05.path_after_rast`), the rasteriser itself being outside /repo.
* Go-level buffer reuse (`e.buf[:0]`, `g.Ranges[:0]`, the `stops` scratch array) is not modelled; the
  model is functional.  The differential suite exercises reuse on the Go side.
-/

end Ivg.Props.C17

#obligations C17 [
  Ivg.Props.C17.encoder_reset_clears, Ivg.Props.C17.encoder_reset_forgets,
  Ivg.Props.C17.encoder_reset_forgets_bytes, Ivg.Props.C17.bytes_idempotent, Ivg.Props.C17.deterministic,
  Ivg.Props.C17.renderer_reset_forgets, Ivg.Props.C17.renderer_reuse, Ivg.Props.C17.respecting_is_wellBracketed,
  Ivg.Props.C17.reset_reseeds, Ivg.Props.C17.renderer_reset_forgets_hist, Ivg.Props.C17.renderer_rast_reset_forgets,
  Ivg.Props.C17.renderer_reset_rast_forgets, Ivg.Props.C17.renderer_reuse_hist, Ivg.Props.C17.renderer_reuse_hist',
  Ivg.Props.C17.wellBracketedOps_of_calls,
  Ivg.Gen.Tie.encoder_fields_tie, Ivg.Gen.Tie.renderer_fields_tie, Ivg.Gen.Tie.gradient_fields_tie,
  -- regenerated code (translator, Ivg/Gen/Code) = model, for all inputs: RenderRegs
  Ivg.Gen.Tie.renderer_CSel_code_tie,
  Ivg.Gen.Tie.renderer_NSel_code_tie,
  Ivg.Gen.Tie.renderer_SetCSel_code_tie,
  Ivg.Gen.Tie.renderer_SetNSel_code_tie,
  Ivg.Gen.Tie.renderer_SetLOD_code_tie,
  Ivg.Gen.Tie.renderer_SetNReg_code_tie,
  Ivg.Gen.Tie.positiveInfinity_code_tie,
  Ivg.Gen.Tie.renderer_Reset_code_tie,
  Ivg.Gen.Tie.renderer_Reset_code_tie_frame,
  -- regenerated code (translator): SetRasterizer recomputes the transform from the current viewBox and the new rectangle
  Ivg.Gen.Tie.rectangle_Empty_code_tie,
  Ivg.Gen.Tie.renderer_SetRasterizer_code_tie,
  Ivg.Gen.Tie.renderer_SetRasterizer_code_tie_frame,
  -- regenerated code with loops/recursion (translator, fuel) = model, for all inputs and sufficient fuel: Resolve
  Ivg.Gen.Tie.color_Resolve_code_tie,
  Ivg.Gen.Tie.color_Resolve_code_tie_badTyp,
  Ivg.Gen.Tie.renderer_SetCReg_code_tie,
  Ivg.Gen.Tie.renderer_SetCReg_code_tie',
  -- regenerated code (translator): the whole encode.Encoder (every method except SetNReg) = the model's Encoder.step, through the representation encOf / WFEnc
  Ivg.Gen.Tie.drawOps_code_tie_all,
  Ivg.Gen.Tie.drawOps_code_tie,
  Ivg.Gen.Tie.errDrawingOpsUsedInStylingMode_code_tie,
  Ivg.Gen.Tie.errInvalidSelectorAdjustment_code_tie,
  Ivg.Gen.Tie.errInvalidIncrementingAdjustment_code_tie,
  Ivg.Gen.Tie.errStylingOpsUsedInDrawingMode_code_tie,
  Ivg.Gen.Tie.encodeError_Error_code_tie,
  Ivg.Gen.Tie.positiveInfinity_code_tie_enc,
  Ivg.Gen.Tie.negativeInfinity_code_tie_enc,
  Ivg.Gen.Tie.appendDefaultMetadata_code_tie,
  Ivg.Gen.Tie.cSel_code_tie,
  Ivg.Gen.Tie.nSel_code_tie,
  Ivg.Gen.Tie.lOD_code_tie,
  Ivg.Gen.Tie.checkModeStyling_code_tie,
  Ivg.Gen.Tie.setCSel_code_tie,
  Ivg.Gen.Tie.setNSel_code_tie,
  Ivg.Gen.Tie.setLOD_code_tie,
  Ivg.Gen.Tie.encoder_startPath_code_tie,
  Ivg.Gen.Tie.setCReg_code_tie,
  Ivg.Gen.Tie.flushDrawOps_code_tie,
  Ivg.Gen.Tie.draw_code_tie,
  Ivg.Gen.Tie.draw_code_tie',
  Ivg.Gen.Tie.encoder_absHLineTo_code_tie,
  Ivg.Gen.Tie.encoder_relHLineTo_code_tie,
  Ivg.Gen.Tie.encoder_absVLineTo_code_tie,
  Ivg.Gen.Tie.encoder_relVLineTo_code_tie,
  Ivg.Gen.Tie.encoder_absLineTo_code_tie,
  Ivg.Gen.Tie.encoder_relLineTo_code_tie,
  Ivg.Gen.Tie.encoder_absSmoothQuadTo_code_tie,
  Ivg.Gen.Tie.encoder_relSmoothQuadTo_code_tie,
  Ivg.Gen.Tie.encoder_closePathAbsMoveTo_code_tie,
  Ivg.Gen.Tie.encoder_closePathRelMoveTo_code_tie,
  Ivg.Gen.Tie.encoder_absQuadTo_code_tie,
  Ivg.Gen.Tie.encoder_relQuadTo_code_tie,
  Ivg.Gen.Tie.encoder_absSmoothCubeTo_code_tie,
  Ivg.Gen.Tie.encoder_relSmoothCubeTo_code_tie,
  Ivg.Gen.Tie.encoder_absCubeTo_code_tie,
  Ivg.Gen.Tie.encoder_relCubeTo_code_tie,
  Ivg.Gen.Tie.encoder_closePathEndPath_code_tie,
  Ivg.Gen.Tie.arcTo_code_tie,
  Ivg.Gen.Tie.absArcTo_code_tie,
  Ivg.Gen.Tie.relArcTo_code_tie,
  Ivg.Gen.Tie.bytes_code_tie,
  Ivg.Gen.Tie.setCSel_code_tie_state,
  Ivg.Gen.Tie.setNSel_code_tie_state,
  Ivg.Gen.Tie.setCReg_code_tie_state,
  Ivg.Gen.Tie.setLOD_code_tie_state,
  Ivg.Gen.Tie.encoder_startPath_code_tie_state,
  Ivg.Gen.Tie.cSel_code_tie_state,
  Ivg.Gen.Tie.nSel_code_tie_state,
  Ivg.Gen.Tie.lOD_code_tie_state,
  Ivg.Gen.Tie.draw_code_tie_state,
  Ivg.Gen.Tie.bytes_code_tie_state,
  Ivg.Gen.Tie.reset_code_tie,
  Ivg.Gen.Tie.reset_code_tie_state,
  Ivg.Gen.Tie.wfEnc_init,
  Ivg.Gen.Tie.wfEnc_step,
  Ivg.Gen.Tie.wfEnc_runOps,
  Ivg.Props.C17.adapter_reuse, Ivg.Props.C17.adapter_reuse_after_drawing,
  -- regenerated code (translator): (*vec.Rasterizer).Draw, the library rasteriser an opaque object
  Ivg.Gen.Tie.vecDraw_code_tie,
  Ivg.Gen.Tie.scratch_readback, Ivg.Gen.Tie.setNReg_code_tie, Ivg.Gen.Tie.setNReg_code_tie_state]
