import Ivg.Model.Arc
import Ivg.Lemmas.ArcCount
import Ivg.Gen.Tie.RendererFields
import Ivg.Gen.Tie.Code.Transform
import Ivg.Gen.Tie.Code.RenderRegs
import Ivg.Gen.Tie.Code.Retarget
import Ivg.Gen.Tie.Code.Arc
import Ivg.Gen.Tie.Code.Math
import Ivg.Obligations
/-!
# C06 — elliptical arcs (PARTIAL)

Model: `Ivg/Model/Arc.lean` (`Renderer.AbsArcTo`, render/render.go:406–578, at float32/float64 with the ports of
Go's `math.Sin/Cos/Acos` in `Ivg/Model/GoMath.lean`) and the `arc` case of `Renderer.step` (`RelArcTo`).

Proved here, for every input:
* a zero (or NaN) radius yields exactly one straight line to the endpoint MAPPED into pixel space;
* every other arc is emitted as cubic segments only, **at most FOUR of them** (`arc_at_most_four`, for all
  float32 operands and renderer states including NaN and infinities), exactly `n` of them for the computed
  segment count `n` when `0 ≤ n`, each produced by `arcSegment` for consecutive equal angle steps starting at
  `θ₁` and ending at `θ₁ + Δθ·n/n`; the bound 4 is attained (`example` below);
* the relative form IS the absolute form at the pen-relative endpoint converted back to viewBox space.

How `n ≤ 4` is proved (`Ivg/Lemmas/FloatOrder.lean`, `FloatMono.lean`, `AtanRange.lean`, `ArcCount.lean`):
every soft-float operation is a correct rounding of the exact rational result and correct rounding is
monotone, so interval arithmetic on `F64` endpoints is sound; the kernel evaluates the polynomial quotient of
Go's `xatan` on a few intervals; this bounds `satan`, `asin`, `acos` (`acos_range`: NaN or within `[0, π]`
for EVERY argument); `Δθ = ±ret (± 2π towards zero)` then has `|Δθ| ≤ 2π` as floats, `2π / (π/2 + 0.001)`
rounds below `4.0`, and `ceil`/`int64` of a float in `[0, 4]` is at most 4; a NaN `Δθ` converts to `minInt64`.

NOT proved (float analysis / trigonometry; covered by the bit-exact correspondence and the arc monitor only):
that the last segment ends within rounding of the mapped endpoint, that segment ends lie on the (scaled-up)
ellipse, and the sweep/large-arc selection.  At exact arithmetic the pen-relative endpoint identity is
`unabs (pen + rel x) = unabs pen + x` (see `Ivg/Lemmas/GeomQ.lean`).
-/
namespace Ivg.Props.C06
open Ivg Num Ren

/-- **Zero radius.**  If not both radii are positive in absolute value (zero, or NaN), the arc is exactly one
    `LineTo` to the endpoint mapped by the viewBox-to-pixel map. -/
theorem arc_zero_radius (z : Renderer F32 F64) (rx ry rot : F32) (la sw : Bool) (x y : F32)
    (h : ¬ (F64.ofInt 0 < (F64.ofF32 rx).abs ∧ F64.ofInt 0 < (F64.ofF32 ry).abs)) :
    arcF32 z rx ry rot la sw x y = [.lineTo (z.absX x) (z.absY y)] := by
  have h' : ¬ (Ren.f 0 < (F64.ofF32 rx).abs ∧ Ren.f 0 < (F64.ofF32 ry).abs) := h
  unfold arcF32
  simp only [h', not_false_eq_true, if_true]

/-- a zero x-radius or y-radius satisfies the hypothesis of `arc_zero_radius` -/
theorem zero_radius_hyp (rx ry : F32) (h : rx = ⟨0⟩ ∨ ry = ⟨0⟩ ∨ rx = ⟨0x80000000⟩ ∨ ry = ⟨0x80000000⟩) :
    ¬ (F64.ofInt 0 < (F64.ofF32 rx).abs ∧ F64.ofInt 0 < (F64.ofF32 ry).abs) := by
  have z1 : ¬ (F64.ofInt 0 < (F64.ofF32 ⟨0⟩).abs) := by decide
  have z2 : ¬ (F64.ofInt 0 < (F64.ofF32 ⟨0x80000000⟩).abs) := by decide
  rcases h with rfl | rfl | rfl | rfl <;> intro ⟨h1, h2⟩ <;> first | exact z1 h1 | exact z1 h2 | exact z2 h1 | exact z2 h2

/-- the segments of a proper arc are cubics, and there are at most `fuel` of them -/
theorem arcSegments_cubes (z : Renderer F32 F64) (cx cy t1 dt rx ry c s : F64) (n : Int) :
    ∀ (fuel : Nat) (i : Int),
      (arcSegments z cx cy t1 dt rx ry c s n fuel i).length ≤ fuel ∧
      ∀ op ∈ arcSegments z cx cy t1 dt rx ry c s n fuel i, ∃ a b c' d e f, op = .cubeTo a b c' d e f := by
  intro fuel
  induction fuel with
  | zero => intro i; simp [arcSegments]
  | succ fuel ih =>
    intro i
    unfold arcSegments
    split
    · obtain ⟨h1, h2⟩ := ih (i + 1)
      refine ⟨by simp; omega, ?_⟩
      intro op hop
      simp only [List.mem_cons] at hop
      rcases hop with rfl | hop
      · exact ⟨_, _, _, _, _, _, rfl⟩
      · exact h2 op hop
    · simp

/-- exactly `n − i` segments when that fits the fuel -/
theorem arcSegments_length (z : Renderer F32 F64) (cx cy t1 dt rx ry c s : F64) (n : Int) :
    ∀ (fuel : Nat) (i : Int), i ≤ n → n - i ≤ fuel →
      ((arcSegments z cx cy t1 dt rx ry c s n fuel i).length : Int) = n - i := by
  intro fuel
  induction fuel with
  | zero => intro i h1 h2; simp [arcSegments]; omega
  | succ fuel ih =>
    intro i h1 h2
    unfold arcSegments
    split
    · rename_i hlt
      have := ih (i + 1) (by omega) (by omega)
      simp only [List.length_cons]
      omega
    · simp; omega

/-- **Shape of every arc**: one mapped line (degenerate radii) or cubic segments only, at most 8. -/
theorem arc_shape (z : Renderer F32 F64) (rx ry rot : F32) (la sw : Bool) (x y : F32) :
    arcF32 z rx ry rot la sw x y = [.lineTo (z.absX x) (z.absY y)] ∨
    ((arcF32 z rx ry rot la sw x y).length ≤ 8 ∧
      ∀ op ∈ arcF32 z rx ry rot la sw x y, ∃ a b c d e f, op = .cubeTo a b c d e f) := by
  by_cases h : (F64.ofInt 0 < (F64.ofF32 rx).abs ∧ F64.ofInt 0 < (F64.ofF32 ry).abs)
  · right
    have h' : (Ren.f 0 < (F64.ofF32 rx).abs ∧ Ren.f 0 < (F64.ofF32 ry).abs) := h
    unfold arcF32
    simp only [h', not_true_eq_false, if_false]
    exact arcSegments_cubes _ _ _ _ _ _ _ _ _ _ 8 0
  · left; exact arc_zero_radius z rx ry rot la sw x y h

/-- **At most four cubic segments** (first clause of C06): for ALL float32 operands — radii, rotation,
    endpoint, flags — and every renderer state, NaN and infinite values included, `AbsArcTo` emits at most
    four drawing operations. -/
theorem arc_at_most_four (z : Renderer F32 F64) (rx ry rot : F32) (la sw : Bool) (x y : F32) :
    (arcF32 z rx ry rot la sw x y).length ≤ 4 :=
  ArcCount.arc_at_most_four z rx ry rot la sw x y

/-- **Shape of every arc, sharpened**: one mapped line (degenerate radii) or cubic segments only, at most 4. -/
theorem arc_shape_four (z : Renderer F32 F64) (rx ry rot : F32) (la sw : Bool) (x y : F32) :
    arcF32 z rx ry rot la sw x y = [.lineTo (z.absX x) (z.absY y)] ∨
    ((arcF32 z rx ry rot la sw x y).length ≤ 4 ∧
      ∀ op ∈ arcF32 z rx ry rot la sw x y, ∃ a b c d e f, op = .cubeTo a b c d e f) := by
  rcases arc_shape z rx ry rot la sw x y with h | ⟨_, h⟩
  · exact Or.inl h
  · exact Or.inr ⟨arc_at_most_four z rx ry rot la sw x y, h⟩

/-- **The segment count itself**: `n = int64(ceil(|Δθ| / (π/2 + 0.001)))`, with `Δθ` the sweep-adjusted
    (render.go:557–563) angle between ANY two float64 vectors, is at most 4 (it is `minInt64` when `Δθ` is a
    NaN). -/
theorem segment_count_le_four (sw : Bool) (ux uy vx vy : F64) :
    let d0 := arcAngle ux uy vx vy
    let d := if sw then (if d0 < F64.ofInt 0 then d0 + twoPi else d0)
             else (if F64.ofInt 0 < d0 then d0 - twoPi else d0)
    (d.abs / segAngle).ceil.toInt64 ≤ 4 :=
  ArcCount.segment_count_le_four sw ux uy vx vy

/-- **The fuel of the model's segment loop is never binding**: with the count `n` that `AbsArcTo` computes, every
    fuel `≥ 4` yields the same segments as the fuel 8 used in `arcF32`; the structurally recursive
    `arcSegments` is the unbounded Go loop `for i := 0; i < n; i++`. -/
theorem arcSegments_fuel_irrelevant (z : Renderer F32 F64) (cx cy t1 rx ry c s : F64) (sw : Bool)
    (ux uy vx vy : F64) (fuel : Nat) (hf : 4 ≤ fuel) :
    let d0 := arcAngle ux uy vx vy
    let d := if sw then (if d0 < F64.ofInt 0 then d0 + twoPi else d0)
             else (if F64.ofInt 0 < d0 then d0 - twoPi else d0)
    let n := (d.abs / segAngle).ceil.toInt64
    arcSegments z cx cy t1 d rx ry c s n fuel 0 = arcSegments z cx cy t1 d rx ry c s n 8 0 :=
  ArcCount.arcSegments_fuel_irrelevant z cx cy t1 rx ry c s sw ux uy vx vy fuel hf

/-- non-vacuity: fuel 4 is admissible -/
example : (4 : Nat) ≤ 4 := Nat.le_refl 4

/-- **Range of the ported `math.Acos`**: for EVERY binary64 argument (NaN, infinities and arguments outside
    `[-1, 1]` included) the result is a NaN or satisfies `0 ≤ acos c ≤ π` with `π` the float64 `math.Pi` — the
    exact mathematical range; in particular it lies inside `[-2π, 2π]`, which is all the segment count needs. -/
theorem acos_range (c : F64) :
    (GoMath.acos c).isNaN = true ∨ (F64.zero ≤ GoMath.acos c ∧ GoMath.acos c ≤ GoMath.pi) := by
  rcases AtanRange.acos_range c with h | h
  · exact Or.inl ((FloatMono.NaN_iff_isNaN _).1 h)
  · exact Or.inr h

/-- the structural step: the bound on the count from the range of `acos` alone -/
theorem arc_at_most_four_of_acos_range (H : ArcCount.AcosRange) (z : Renderer F32 F64) (rx ry rot : F32)
    (la sw : Bool) (x y : F32) : (arcF32 z rx ry rot la sw x y).length ≤ 4 :=
  ArcCount.arc_at_most_four_of_acos_range H z rx ry rot la sw x y

/-- non-vacuity of the hypothesis of `arc_at_most_four_of_acos_range`: it holds -/
example : ArcCount.AcosRange := ArcCount.acosRange

/-- **The relative form measures its endpoint from the pen**: `RelArcTo` is `AbsArcTo` at the pen-relative
    endpoint converted back to viewBox space (for any arc implementation and number types). -/
theorem rel_is_abs {α β : Type} [Arith α] [Arith β] [Wide α β] (arc : ArcFn α β) (posInf : α) (z : Renderer α β)
    (rx ry rot : α) (la sw : Bool) (x y : α) :
    z.step arc posInf (.arc true rx ry rot la sw x y) =
      z.step arc posInf (.arc false rx ry rot la sw (z.unabsX (z.relVecX x)) (z.unabsY (z.relVecY y))) := by
  simp [Renderer.step]

/-- a disabled path draws nothing for an arc -/
theorem arc_disabled_silent {α β : Type} [Arith α] [Arith β] [Wide α β] (arc : ArcFn α β) (posInf : α)
    (z : Renderer α β) (h : z.disabled = true) (rel : Bool) (rx ry rot : α) (la sw : Bool) (x y : α) :
    (z.step arc posInf (.arc rel rx ry rot la sw x y)).2 = [] := by
  simp [Renderer.step, h]

/-- non-vacuity: a zero x-radius at 128 px with the default viewBox draws the line to (84, 84) -/
example :
    let z : Renderer F32 F64 := ((Renderer.zero : Renderer F32 F64).setRasterizer ⟨0, 0, 128, 128⟩).reset F32.posInf defaultViewBox defaultPalette
    arcF32 z ⟨0⟩ ⟨0x40a00000⟩ ⟨0⟩ false false ⟨0x41200000⟩ ⟨0x41200000⟩ = [.lineTo (z.absX ⟨0x41200000⟩) (z.absY ⟨0x41200000⟩)] ∧
      z.absX ⟨0x41200000⟩ = ⟨0x42a80000⟩ := by
  intro z
  exact ⟨arc_zero_radius z _ _ _ _ _ _ _ (zero_radius_hyp _ _ (Or.inl rfl)), by decide +kernel⟩

/-- the bound 4 is attained: at 128 px with the default viewBox the pen is at (−32, −32); the large clockwise
    arc of radius 5 to (−31, −32) is emitted as exactly four cubics (and the small one as one) -/
example :
    let z : Renderer F32 F64 := ((Renderer.zero : Renderer F32 F64).setRasterizer ⟨0, 0, 128, 128⟩).reset F32.posInf defaultViewBox defaultPalette
    (arcF32 z ⟨0x40a00000⟩ ⟨0x40a00000⟩ ⟨0⟩ true true ⟨0xc1f80000⟩ ⟨0xc2000000⟩).length = 4 ∧
    (arcF32 z ⟨0x40a00000⟩ ⟨0x40a00000⟩ ⟨0⟩ false true ⟨0xc1f80000⟩ ⟨0xc2000000⟩).length = 1 := by
  decide +kernel

end Ivg.Props.C06
#obligations C06 [Ivg.Props.C06.arc_zero_radius, Ivg.Props.C06.zero_radius_hyp, Ivg.Props.C06.arc_shape,
  Ivg.Props.C06.arcSegments_cubes, Ivg.Props.C06.arcSegments_length, Ivg.Props.C06.rel_is_abs,
  Ivg.Props.C06.arc_disabled_silent, Ivg.Props.C06.arc_at_most_four, Ivg.Props.C06.arc_shape_four,
  Ivg.Props.C06.segment_count_le_four, Ivg.Props.C06.arcSegments_fuel_irrelevant, Ivg.Props.C06.acos_range,
  Ivg.Props.C06.arc_at_most_four_of_acos_range, Ivg.Gen.Tie.renderer_fields_tie,
  -- regenerated code (translator, Ivg/Gen/Code) = model, for all inputs: Transform
  Ivg.Gen.Tie.rectangle_Dx_code_tie,
  Ivg.Gen.Tie.rectangle_Dy_code_tie,
  Ivg.Gen.Tie.renderer_absX_code_tie,
  Ivg.Gen.Tie.renderer_absY_code_tie,
  Ivg.Gen.Tie.renderer_relX_code_tie,
  Ivg.Gen.Tie.renderer_relY_code_tie,
  Ivg.Gen.Tie.renderer_unabsX_code_tie,
  Ivg.Gen.Tie.renderer_unabsY_code_tie,
  Ivg.Gen.Tie.renderer_absVec2_code_tie,
  Ivg.Gen.Tie.renderer_recalcTransform_code_tie,
  Ivg.Gen.Tie.renderer_recalcTransform_code_tie_frame,
  -- regenerated code (translator, Ivg/Gen/Code) = model, for all inputs: RenderRegs (Reset recomputes the transform; the selectors keep six bits)
  Ivg.Gen.Tie.renderer_CSel_code_tie,
  Ivg.Gen.Tie.renderer_NSel_code_tie,
  Ivg.Gen.Tie.renderer_SetCSel_code_tie,
  Ivg.Gen.Tie.renderer_SetNSel_code_tie,
  Ivg.Gen.Tie.renderer_SetLOD_code_tie,
  Ivg.Gen.Tie.renderer_SetNReg_code_tie,
  Ivg.Gen.Tie.positiveInfinity_code_tie,
  Ivg.Gen.Tie.renderer_Reset_code_tie,
  Ivg.Gen.Tie.renderer_Reset_code_tie_frame,
  -- regenerated code (translator): SetRasterizer recomputes the transform from the current viewBox and the new rectangle
  Ivg.Gen.Tie.rectangle_Empty_code_tie,
  Ivg.Gen.Tie.renderer_SetRasterizer_code_tie,
  Ivg.Gen.Tie.renderer_SetRasterizer_code_tie_frame,
  -- regenerated code (translator) = model, for all inputs: the WHOLE arc routine (Renderer.AbsArcTo/RelArcTo with its closures and segment loop) = arcF32, and Go's math.Sin/Cos/Acos as translated from the Go standard library's source = the model's port (GoMath), on the whole double range
  Ivg.Gen.Tie.absArcTo_code_tie,
  Ivg.Gen.Tie.relArcTo_code_tie,
  Ivg.Gen.Tie.sin_code_tie,
  Ivg.Gen.Tie.cos_code_tie,
  Ivg.Gen.Tie.acos_code_tie,
  Ivg.Gen.Tie.asin_code_tie,
  Ivg.Gen.Tie.trigReduce_code_tie,
  Ivg.Gen.Tie.mul64_code_tie,
  Ivg.Gen.Tie.add64_code_tie,
  Ivg.Gen.Tie.len64_code_tie,
  Ivg.Gen.Tie.mPi4_code_tie,
  Ivg.Gen.Tie.absArcTo_angle_code_tie]
