import Ivg.Model.Arc
import Ivg.Gen.Tie.RendererFields
import Ivg.Obligations
/-!
# C06 — elliptical arcs (PARTIAL)

Model: `Ivg/Model/Arc.lean` (`Renderer.AbsArcTo`, render/render.go:406–578, at float32/float64 with the ports of
Go's `math.Sin/Cos/Acos` in `Ivg/Model/GoMath.lean`) and the `arc` case of `Renderer.step` (`RelArcTo`).

Proved here, for every input:
* a zero (or NaN) radius yields exactly one straight line to the endpoint MAPPED into pixel space;
* every other arc is emitted as cubic segments only, at most 8 of them structurally, exactly `n` of them for the
  computed segment count `n` when `0 ≤ n ≤ 8`, each produced by `arcSegment` for consecutive equal angle steps
  starting at `θ₁` and ending at `θ₁ + Δθ·n/n`;
* the relative form IS the absolute form at the pen-relative endpoint converted back to viewBox space.

NOT proved (float analysis / trigonometry; covered by the bit-exact correspondence and the arc monitor only):
that `n ≤ 4` (needs `|Δθ| ≤ 2π`, i.e. the range of the ported `acos`), that the last segment ends within
rounding of the mapped endpoint, that segment ends lie on the (scaled-up) ellipse, and the sweep/large-arc
selection.  At exact arithmetic the pen-relative endpoint identity is `unabs (pen + rel x) = unabs pen + x`
(see `Ivg/Lemmas/GeomQ.lean`).
-/
namespace Ivg.Props.C06
open Ivg Num Ren

/-- **Zero radius.**  If not both radii are positive in absolute value (zero, or NaN), the arc is exactly one
    `LineTo` to the endpoint mapped by the viewBox-to-pixel map. -/
theorem arc_zero_radius (z : Renderer F32 F64) (rx ry rot : F32) (la sw : Bool) (x y : F32)
    (h : ¬ (F64.ofInt 0 < (F64.ofF32 rx).abs ∧ F64.ofInt 0 < (F64.ofF32 ry).abs)) :
    arcF32 z rx ry rot la sw x y = [.lineTo (z.absX x) (z.absY y)] := by
  have h' : ¬ (Ren.f 0 < (F64.ofF32 rx).abs ∧ Ren.f 0 < (F64.ofF32 ry).abs) := h
  unfold arcF32
  simp only [h', not_false_eq_true, if_true]

/-- a zero x-radius or y-radius satisfies the hypothesis of `arc_zero_radius` -/
theorem zero_radius_hyp (rx ry : F32) (h : rx = ⟨0⟩ ∨ ry = ⟨0⟩ ∨ rx = ⟨0x80000000⟩ ∨ ry = ⟨0x80000000⟩) :
    ¬ (F64.ofInt 0 < (F64.ofF32 rx).abs ∧ F64.ofInt 0 < (F64.ofF32 ry).abs) := by
  have z1 : ¬ (F64.ofInt 0 < (F64.ofF32 ⟨0⟩).abs) := by decide
  have z2 : ¬ (F64.ofInt 0 < (F64.ofF32 ⟨0x80000000⟩).abs) := by decide
  rcases h with rfl | rfl | rfl | rfl <;> intro ⟨h1, h2⟩ <;> first | exact z1 h1 | exact z1 h2 | exact z2 h1 | exact z2 h2

/-- the segments of a proper arc are cubics, and there are at most `fuel` of them -/
theorem arcSegments_cubes (z : Renderer F32 F64) (cx cy t1 dt rx ry c s : F64) (n : Int) :
    ∀ (fuel : Nat) (i : Int),
      (arcSegments z cx cy t1 dt rx ry c s n fuel i).length ≤ fuel ∧
      ∀ op ∈ arcSegments z cx cy t1 dt rx ry c s n fuel i, ∃ a b c' d e f, op = .cubeTo a b c' d e f := by
  intro fuel
  induction fuel with
  | zero => intro i; simp [arcSegments]
  | succ fuel ih =>
    intro i
    unfold arcSegments
    split
    · obtain ⟨h1, h2⟩ := ih (i + 1)
      refine ⟨by simp; omega, ?_⟩
      intro op hop
      simp only [List.mem_cons] at hop
      rcases hop with rfl | hop
      · exact ⟨_, _, _, _, _, _, rfl⟩
      · exact h2 op hop
    · simp

/-- exactly `n − i` segments when that fits the fuel -/
theorem arcSegments_length (z : Renderer F32 F64) (cx cy t1 dt rx ry c s : F64) (n : Int) :
    ∀ (fuel : Nat) (i : Int), i ≤ n → n - i ≤ fuel →
      ((arcSegments z cx cy t1 dt rx ry c s n fuel i).length : Int) = n - i := by
  intro fuel
  induction fuel with
  | zero => intro i h1 h2; simp [arcSegments]; omega
  | succ fuel ih =>
    intro i h1 h2
    unfold arcSegments
    split
    · rename_i hlt
      have := ih (i + 1) (by omega) (by omega)
      simp only [List.length_cons]
      omega
    · simp; omega

/-- **Shape of every arc**: one mapped line (degenerate radii) or cubic segments only, at most 8. -/
theorem arc_shape (z : Renderer F32 F64) (rx ry rot : F32) (la sw : Bool) (x y : F32) :
    arcF32 z rx ry rot la sw x y = [.lineTo (z.absX x) (z.absY y)] ∨
    ((arcF32 z rx ry rot la sw x y).length ≤ 8 ∧
      ∀ op ∈ arcF32 z rx ry rot la sw x y, ∃ a b c d e f, op = .cubeTo a b c d e f) := by
  by_cases h : (F64.ofInt 0 < (F64.ofF32 rx).abs ∧ F64.ofInt 0 < (F64.ofF32 ry).abs)
  · right
    have h' : (Ren.f 0 < (F64.ofF32 rx).abs ∧ Ren.f 0 < (F64.ofF32 ry).abs) := h
    unfold arcF32
    simp only [h', not_true_eq_false, if_false]
    exact arcSegments_cubes _ _ _ _ _ _ _ _ _ _ 8 0
  · left; exact arc_zero_radius z rx ry rot la sw x y h

/-- **The relative form measures its endpoint from the pen**: `RelArcTo` is `AbsArcTo` at the pen-relative
    endpoint converted back to viewBox space (for any arc implementation and number types). -/
theorem rel_is_abs {α β : Type} [Arith α] [Arith β] [Wide α β] (arc : ArcFn α β) (posInf : α) (z : Renderer α β)
    (rx ry rot : α) (la sw : Bool) (x y : α) :
    z.step arc posInf (.arc true rx ry rot la sw x y) =
      z.step arc posInf (.arc false rx ry rot la sw (z.unabsX (z.relVecX x)) (z.unabsY (z.relVecY y))) := by
  simp [Renderer.step]

/-- a disabled path draws nothing for an arc -/
theorem arc_disabled_silent {α β : Type} [Arith α] [Arith β] [Wide α β] (arc : ArcFn α β) (posInf : α)
    (z : Renderer α β) (h : z.disabled = true) (rel : Bool) (rx ry rot : α) (la sw : Bool) (x y : α) :
    (z.step arc posInf (.arc rel rx ry rot la sw x y)).2 = [] := by
  simp [Renderer.step, h]

/-- non-vacuity: a zero x-radius at 128 px with the default viewBox draws the line to (84, 84) -/
example :
    let z : Renderer F32 F64 := ((Renderer.zero : Renderer F32 F64).setRasterizer ⟨0, 0, 128, 128⟩).reset F32.posInf defaultViewBox defaultPalette
    arcF32 z ⟨0⟩ ⟨0x40a00000⟩ ⟨0⟩ false false ⟨0x41200000⟩ ⟨0x41200000⟩ = [.lineTo (z.absX ⟨0x41200000⟩) (z.absY ⟨0x41200000⟩)] ∧
      z.absX ⟨0x41200000⟩ = ⟨0x42a80000⟩ := by
  intro z
  exact ⟨arc_zero_radius z _ _ _ _ _ _ _ (zero_radius_hyp _ _ (Or.inl rfl)), by decide +kernel⟩

end Ivg.Props.C06
#obligations C06 [Ivg.Props.C06.arc_zero_radius, Ivg.Props.C06.zero_radius_hyp, Ivg.Props.C06.arc_shape,
  Ivg.Props.C06.arcSegments_cubes, Ivg.Props.C06.arcSegments_length, Ivg.Props.C06.rel_is_abs,
  Ivg.Props.C06.arc_disabled_silent, Ivg.Gen.Tie.renderer_fields_tie]
