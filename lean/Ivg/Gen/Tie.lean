import Ivg.Gen.Tie.DrawOps
import Ivg.Gen.Tie.Dc1
import Ivg.Gen.Tie.Magic
import Ivg.Gen.Tie.DefaultViewBox
import Ivg.Gen.Tie.Mids
import Ivg.Gen.Tie.DecodeErrors
import Ivg.Gen.Tie.EncodeErrors
import Ivg.Gen.Tie.GenerateErrors
import Ivg.Gen.Tie.Fields
import Ivg.Gen.Tie.EncoderFields
import Ivg.Gen.Tie.RendererFields
import Ivg.Gen.Tie.GradientFields
import Ivg.Gen.Tie.VecRasterizerFields
import Ivg.Gen.Tie.ColorFields
import Ivg.Gen.Tie.Globals
import Ivg.Gen.Tie.GoStmts
import Ivg.Gen.Tie.ParamWrites
/-! Aggregate of all tie modules (convenience only; property files import the modules they need). -/
