import Ivg.Gen.Facts
import Ivg.Model.Decoder
/-!
# Tie: the facts regenerated from /repo equal what the hand-written model assumes.
Every theorem is closed by evaluation (`decide` / `rfl`); a change of a table, constant, error string,
struct field list or of the write frame in /repo makes the corresponding theorem fail to build.
-/
namespace Ivg.Gen.Tie
open Ivg Ivg.Enc Ivg.Dec

def allDrawOps : List DrawOp :=
  [.arcAbs, .v6 .C, .v1 .H, .v2 .L, .v4 .Q, .v4 .S, .v2 .T, .v1 .V, .v2 .Y, .Z,
   .arcRel, .v6 .c, .v1 .h, .v2 .l, .v4 .q, .v4 .s, .v2 .t, .v1 .v, .v2 .y]

/-- encode.go `drawOps` is the table the model's `opInfo`/`DrawOp.char` encode (sorted by verb byte). -/
theorem drawOps_tie :
    Facts.drawOps = allDrawOps.map fun op =>
      (op.char, (opInfo op).opcodeBase.toNat, (opInfo op).maxRepCount, (opInfo op).nArgs) := by
  decide

theorem dc1Table_tie : Facts.dc1Table = (List.range 5).map fun i => (dc1Table i).toNat := by decide

theorem magic_tie : Facts.magic = Enc.magic.map UInt8.toNat := by decide

theorem defaultViewBox_tie :
    Facts.defaultViewBox.map Num.F32.ofInt =
      [defaultViewBox.minX, defaultViewBox.minY, defaultViewBox.maxX, defaultViewBox.maxY] := by decide

theorem mids_tie : Facts.intConsts = [("ivg.MidSuggestedPalette", 1), ("ivg.MidViewBox", 0)] := by decide

def allDecErrs : List (String × DecErr) := [
  ("decode.errInconsistentMetadataChunkLength", .inconsistentMetadataChunkLength),
  ("decode.errInvalidColor", .invalidColor),
  ("decode.errInvalidMagicIdentifier", .invalidMagicIdentifier),
  ("decode.errInvalidMetadataChunkLength", .invalidMetadataChunkLength),
  ("decode.errInvalidMetadataIdentifier", .invalidMetadataIdentifier),
  ("decode.errInvalidNumber", .invalidNumber),
  ("decode.errInvalidNumberOfMetadataChunks", .invalidNumberOfMetadataChunks),
  ("decode.errInvalidSuggestedPalette", .invalidSuggestedPalette),
  ("decode.errInvalidViewBox", .invalidViewBox),
  ("decode.errMetadataIdentifierOrder", .metadataIdentifierOrder),
  ("decode.errUnsupportedDrawingOpcode", .unsupportedDrawingOpcode),
  ("decode.errUnsupportedMetadataIdentifier", .unsupportedMetadataIdentifier),
  ("decode.errUnsupportedStylingOpcode", .unsupportedStylingOpcode)]

def allEncErrs : List (String × EncErr) := [
  ("encode.errDrawingOpsUsedInStylingMode", .drawingOpsUsedInStylingMode),
  ("encode.errInvalidIncrementingAdjustment", .invalidIncrementingAdjustment),
  ("encode.errInvalidSelectorAdjustment", .invalidSelectorAdjustment),
  ("encode.errStylingOpsUsedInDrawingMode", .stylingOpsUsedInDrawingMode)]

/-- the error strings of decode/encode/generate are the ones the model prints -/
theorem errorStrings_tie :
    Facts.errorStrings =
      allDecErrs.map (fun (n, e) => (n, (e.message.drop 8).toString)) ++
      allEncErrs.map (fun (n, e) => (n, (e.message.drop 8).toString)) ++
      [("generate.CSELUsedAsBothGradientAndStop", "ivg: CSEL used as both gradient and stop"),
       ("generate.TooManyGradientStops", "ivg: too many gradient stops")] := by
  decide

def fieldsOf (k : String) : Option (List String) := (Facts.structFields.find? (·.1 = k)).map (·.2)

/-- C17: the state an Encoder / Renderer / Gradient / vec.Rasterizer carries is exactly the state the model
    resets; a new field makes this fail. -/
theorem encoder_fields_tie : fieldsOf "encode.Encoder" = some
    ["HighResolutionCoordinates", "highResolutionCoordinates", "buf", "altBuf", "metadata", "err",
     "lod0", "lod1", "cSel", "nSel", "mode", "drawOp", "drawArgs", "scratch"] := by decide

theorem renderer_fields_tie : fieldsOf "render.Renderer" = some
    ["z", "r", "scaleX", "biasX", "scaleY", "biasY", "viewBox", "palette", "lod0", "lod1", "cSel", "nSel",
     "disabled", "prevSmoothType", "prevSmoothPointX", "prevSmoothPointY", "fill", "flatColor", "flatImage",
     "gradient", "cReg", "nReg", "stops"] := by decide

theorem gradient_fields_tie : fieldsOf "render.Gradient" = some
    ["Shape", "Spread", "Pix2Grad", "Ranges", "First", "Last"] := by decide

theorem vecRasterizer_fields_tie : fieldsOf "raster/vec.Rasterizer" = some
    ["embedded:vector.Rasterizer", "Dst", "DrawOp"] := by decide

theorem color_fields_tie : fieldsOf "ivg.Color" = some ["typ", "data"] := by decide

/-! ## C18 write frame -/

/-- no package-level variable is assigned (or appended into) outside its declaration -/
theorem no_global_writes : Facts.globalWrites = [] := by decide

/-- no goroutines, no unsafe/sync/reflect/cgo/runtime -/
theorem no_go_statements : Facts.goStatements = [] := by decide
theorem no_risky_imports : Facts.riskyImports = [] := by decide

/-- the only non-receiver parameters written through; each was reviewed: every call site passes
    memory owned by the callee's caller frame (`m := ivg.DefaultMetadata` copy, `coords [6]float32`,
    `args [7]float32`, `minMID`, the converter's `adjs` map, `g.Ranges[:0]`), never an exported input. -/
theorem param_writes_frame : Facts.paramWrites =
    ["decode.WithColorAt:m", "decode.WithPalette:m", "decode.decode:m", "decode.decodeCoordinates:coords",
     "decode.decodeMetadataChunk:m", "decode.decodeMetadataChunk:minMID", "generate.normalize:args",
     "generate.scan:args", "mdicons.ParsePath:adjs", "mdicons.normalize:args",
     "render.AppendRanges:a(append)"] := by decide

/-- the package-level variables that exist (all are read-only tables, defaults and error values;
    none is written, see `no_global_writes`) -/
theorem package_vars_frame : Facts.packageVars =
    ["decode.errInconsistentMetadataChunkLength",
     "decode.errInvalidColor",
     "decode.errInvalidMagicIdentifier",
     "decode.errInvalidMetadataChunkLength",
     "decode.errInvalidMetadataIdentifier",
     "decode.errInvalidNumber",
     "decode.errInvalidNumberOfMetadataChunks",
     "decode.errInvalidSuggestedPalette",
     "decode.errInvalidViewBox",
     "decode.errMetadataIdentifierOrder",
     "decode.errUnsupportedDrawingOpcode",
     "decode.errUnsupportedMetadataIdentifier",
     "decode.errUnsupportedStylingOpcode",
     "decode.midDescriptions",
     "encode.drawOps",
     "encode.errDrawingOpsUsedInStylingMode",
     "encode.errInvalidIncrementingAdjustment",
     "encode.errInvalidSelectorAdjustment",
     "encode.errStylingOpsUsedInDrawingMode",
     "encode.negativeInfinity",
     "encode.positiveInfinity",
     "ivg.DefaultMetadata",
     "ivg.DefaultPalette",
     "ivg.DefaultViewBox",
     "ivg.MagicBytes",
     "ivg.dc1Table",
     "mdicons.ErrSkip",
     "mdicons.acronyms",
     "mdicons.skippedFiles",
     "mdicons.skippedPaths",
     "render.negativeInfinity",
     "render.positiveInfinity"] := by decide

end Ivg.Gen.Tie
