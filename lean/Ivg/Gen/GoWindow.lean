import Ivg.Gen.GoPrelude
/-!
# Appends of a callee to a window of an array (`b := buffer(e.scratch[4:4]); b.encodeCoordinate(f)`)

Used by the generated code where a function is CALLED on a slice that is a window `[lo, lo+len)` of an array of the
caller and does nothing with that slice but append to it (the translator checks this on the callee's SSA:
`appendOnly`).  `out` is the callee's resulting slice value (what the window held, followed by what was appended);
`cap` is the window's capacity (to the end of the array).  Within the capacity Go's `append` writes in place, so the
array holds `out` from `lo` on.  Beyond the capacity Go reallocates (the array then keeps what the earlier appends of
the same call wrote): that case is NOT modelled — `writeWindow` leaves the array alone — and every tie that unfolds a
`writeWindow` proves that its `out` fits (`Enc.encodeReal` & co. produce at most four bytes).
-/
namespace Ivg.Gen.Go

def writeWindow {T : Type} {n : Nat} (a : Vector T n) (lo cap : Nat) (out : List T) : Vector T n :=
  if h : out.length ≤ cap ∧ lo + out.length ≤ n then
    ⟨(a.toList.take lo ++ out ++ a.toList.drop (lo + out.length)).toArray, by
      simp only [List.size_toArray, List.length_append, List.length_take, List.length_drop, Vector.length_toList]
      omega⟩
  else a

theorem toList_writeWindow {T : Type} {n : Nat} (a : Vector T n) (lo cap : Nat) (out : List T)
    (h : out.length ≤ cap ∧ lo + out.length ≤ n) :
    (writeWindow a lo cap out).toList = a.toList.take lo ++ out ++ a.toList.drop (lo + out.length) := by
  simp [writeWindow, h, Vector.toList]

/-- reading back the window just written -/
theorem slice_writeWindow_self {T : Type} {n : Nat} (a : Vector T n) (lo cap : Nat) (out : List T)
    (h : out.length ≤ cap ∧ lo + out.length ≤ n) :
    slice (writeWindow a lo cap out).toList lo (lo + out.length) = out := by
  rw [toList_writeWindow a lo cap out h]
  have hl : (a.toList.take lo).length = lo := by simp; omega
  simp only [slice]
  rw [List.append_assoc, List.take_append, hl]
  rw [List.take_of_length_le (by omega : (a.toList.take lo).length ≤ lo + out.length)]
  rw [List.drop_append, hl]
  simp

/-- a window written further up leaves a lower window alone -/
theorem slice_writeWindow_below {T : Type} {n : Nat} (a : Vector T n) (lo cap : Nat) (out : List T) (lo1 hi1 : Nat)
    (hh : hi1 ≤ lo) :
    slice (writeWindow a lo cap out).toList lo1 hi1 = slice a.toList lo1 hi1 := by
  by_cases h : out.length ≤ cap ∧ lo + out.length ≤ n
  · rw [toList_writeWindow a lo cap out h]
    have hl : (a.toList.take lo).length = lo := by simp; omega
    simp only [slice]
    rw [List.append_assoc, List.take_append, hl]
    have : hi1 - lo = 0 := by omega
    simp [this, List.take_take, Nat.min_eq_left hh]
  · simp [writeWindow, h]

end Ivg.Gen.Go
