import Ivg.Gen.Tie.Fields
/-! Tie: facts regenerated from /repo equal what the model assumes (VecRasterizerFields). One module per fact group,
    so that a changed fact breaks only the properties that depend on it. -/
namespace Ivg.Gen.Tie

theorem vecRasterizer_fields_tie : fieldsOf "raster/vec.Rasterizer" = some
    ["embedded:vector.Rasterizer", "Dst", "DrawOp"] := by decide

end Ivg.Gen.Tie
