import Ivg.Gen.Tie.Fields
/-! Tie: the unmarshalled SVG records the converter model starts from. -/
namespace Ivg.Gen.Tie

theorem mdPath_fields_tie : fieldsOf "mdicons.Path" = some ["D", "Fill", "FillOpacity", "Opacity"] := by decide
theorem mdCircle_fields_tie : fieldsOf "mdicons.Circle" = some ["Cx", "Cy", "R"] := by decide

end Ivg.Gen.Tie
