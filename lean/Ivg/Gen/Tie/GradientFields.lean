import Ivg.Gen.Tie.Fields
/-! Tie: facts regenerated from /repo equal what the model assumes (GradientFields). One module per fact group,
    so that a changed fact breaks only the properties that depend on it. -/
namespace Ivg.Gen.Tie

theorem gradient_fields_tie : fieldsOf "render.Gradient" = some
    ["Shape", "Spread", "Pix2Grad", "Ranges", "First", "Last"] := by decide

end Ivg.Gen.Tie
