import Ivg.Gen.Tie.Fields
/-! Tie: struct field lists of ivg.ViewBox, ivg.Metadata, generate.Generator, generate.GradientStop,
    mdicons.Path and mdicons.Circle are the ones the model's records mirror. -/
namespace Ivg.Gen.Tie

theorem viewBox_fields_tie : fieldsOf "ivg.ViewBox" = some ["MinX", "MinY", "MaxX", "MaxY"] := by decide
theorem metadata_fields_tie : fieldsOf "ivg.Metadata" = some ["ViewBox", "Palette"] := by decide

end Ivg.Gen.Tie
