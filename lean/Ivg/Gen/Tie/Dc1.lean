import Ivg.Gen.Facts
import Ivg.Model.Color
/-! Tie: facts regenerated from /repo equal what the model assumes (Dc1). One module per fact group,
    so that a changed fact breaks only the properties that depend on it. -/
namespace Ivg.Gen.Tie
open Ivg

theorem dc1Table_tie : Facts.dc1Table = (List.range 5).map fun i => (dc1Table i).toNat := by decide

end Ivg.Gen.Tie
