import Ivg.Gen.Facts
/-! Tie: facts regenerated from /repo equal what the model assumes (GoStmts). One module per fact group,
    so that a changed fact breaks only the properties that depend on it. -/
namespace Ivg.Gen.Tie

/-- no goroutines, no unsafe/sync/reflect/cgo/runtime -/
theorem no_go_statements : Facts.goStatements = [] := by decide
theorem no_risky_imports : Facts.riskyImports = [] := by decide

end Ivg.Gen.Tie
