import Ivg.Gen.Facts
/-! Tie: facts regenerated from /repo equal what the model assumes (Mids). One module per fact group,
    so that a changed fact breaks only the properties that depend on it. -/
namespace Ivg.Gen.Tie

theorem mids_tie : Facts.intConsts = [("ivg.MidSuggestedPalette", 1), ("ivg.MidViewBox", 0)] := by decide

end Ivg.Gen.Tie
