import Ivg.Gen.Facts
import Ivg.Model.Encoder
/-! Tie: facts regenerated from /repo equal what the model assumes (DrawOps). One module per fact group,
    so that a changed fact breaks only the properties that depend on it. -/
namespace Ivg.Gen.Tie
open Ivg Ivg.Enc

def allDrawOps : List DrawOp :=
  [.arcAbs, .v6 .C, .v1 .H, .v2 .L, .v4 .Q, .v4 .S, .v2 .T, .v1 .V, .v2 .Y, .Z,
   .arcRel, .v6 .c, .v1 .h, .v2 .l, .v4 .q, .v4 .s, .v2 .t, .v1 .v, .v2 .y]

/-- encode.go `drawOps` is the table the model's `opInfo`/`DrawOp.char` encode (sorted by verb byte). -/
theorem drawOps_tie :
    Facts.drawOps = allDrawOps.map fun op =>
      (op.char, (opInfo op).opcodeBase.toNat, (opInfo op).maxRepCount, (opInfo op).nArgs) := by
  decide

end Ivg.Gen.Tie
