import Ivg.Gen.Facts
/-! Tie: facts regenerated from /repo equal what the model assumes (Globals). One module per fact group,
    so that a changed fact breaks only the properties that depend on it. -/
namespace Ivg.Gen.Tie

/-- no package-level variable is assigned (or appended into) outside its declaration -/
theorem no_global_writes : Facts.globalWrites = [] := by decide

/-- the package-level variables that exist (all are read-only tables, defaults and error values;
    none is written, see `no_global_writes`) -/
theorem package_vars_frame : Facts.packageVars =
    ["decode.errInconsistentMetadataChunkLength",
     "decode.errInvalidColor",
     "decode.errInvalidMagicIdentifier",
     "decode.errInvalidMetadataChunkLength",
     "decode.errInvalidMetadataIdentifier",
     "decode.errInvalidNumber",
     "decode.errInvalidNumberOfMetadataChunks",
     "decode.errInvalidSuggestedPalette",
     "decode.errInvalidViewBox",
     "decode.errMetadataIdentifierOrder",
     "decode.errUnsupportedDrawingOpcode",
     "decode.errUnsupportedMetadataIdentifier",
     "decode.errUnsupportedStylingOpcode",
     "decode.midDescriptions",
     "encode.drawOps",
     "encode.errDrawingOpsUsedInStylingMode",
     "encode.errInvalidIncrementingAdjustment",
     "encode.errInvalidSelectorAdjustment",
     "encode.errStylingOpsUsedInDrawingMode",
     "encode.negativeInfinity",
     "encode.positiveInfinity",
     "ivg.DefaultMetadata",
     "ivg.DefaultPalette",
     "ivg.DefaultViewBox",
     "ivg.MagicBytes",
     "ivg.dc1Table",
     "mdicons.ErrSkip",
     "mdicons.acronyms",
     "mdicons.skippedFiles",
     "mdicons.skippedPaths",
     "render.negativeInfinity",
     "render.positiveInfinity"] := by decide

end Ivg.Gen.Tie
