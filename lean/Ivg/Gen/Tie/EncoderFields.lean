import Ivg.Gen.Tie.Fields
/-! Tie: facts regenerated from /repo equal what the model assumes (EncoderFields). One module per fact group,
    so that a changed fact breaks only the properties that depend on it. -/
namespace Ivg.Gen.Tie

/-- C17: the state an Encoder / Renderer / Gradient / vec.Rasterizer carries is exactly the state the model
    resets; a new field makes this fail. -/
theorem encoder_fields_tie : fieldsOf "encode.Encoder" = some
    ["HighResolutionCoordinates", "highResolutionCoordinates", "buf", "altBuf", "metadata", "err",
     "lod0", "lod1", "cSel", "nSel", "mode", "drawOp", "drawArgs", "scratch"] := by decide

end Ivg.Gen.Tie
