import Ivg.Gen.Tie.Code.Base
import Ivg.Gen.Code.P_math
import Ivg.Gen.Code.P_render
import Ivg.Model.GoMath
import Ivg.Model.Arc
/-!
# Tie: Go's `math.Asin / Acos / asin / acos / satan / xatan / NaN` (the pure-Go code that runs on amd64) and the `angle`
closure of `Renderer.AbsArcTo`, as TRANSLATED from the Go source (`Ivg/Gen/Code/P_math.lean`, `P_render.lean`) = the
hand-written port `Ivg/Model/GoMath.lean` / `Ivg.Ren.arcAngle` of `Ivg/Model/Arc.lean`, FOR ALL inputs.

(`math.Sin`/`math.Cos` are tied in `Math.lean`, on top of `MathBits.lean` and `MathReduce.lean`.)
-/
namespace Ivg.Gen.Tie
open Ivg Ivg.Num Ivg.Gen.Code

/-! ## the port's named constants are the literals of the generated code -/
tolerant
theorem f64_zero_lit : (0 : F64) = ⟨0⟩ := by decide
tolerant
theorem f64_ofInt_one' : F64.ofInt 1 = ⟨0x3ff0000000000000⟩ := by decide
tolerant
theorem f64_ofInt_zero' : F64.ofInt 0 = ⟨0⟩ := by decide
tolerant
theorem f64_ofInt_neg_one' : F64.ofInt (-1) = ⟨0xbff0000000000000⟩ := by decide
tolerant
theorem goMath_one : GoMath.one = ⟨0x3ff0000000000000⟩ := rfl
tolerant
theorem goMath_half : GoMath.half = ⟨0x3fe0000000000000⟩ := rfl
tolerant
theorem goMath_c07 : GoMath.c07 = ⟨0x3fe6666666666666⟩ := rfl
tolerant
theorem goMath_pi : GoMath.pi = ⟨0x400921fb54442d18⟩ := rfl
tolerant
theorem goMath_piO2 : GoMath.piO2 = ⟨0x3ff921fb54442d18⟩ := rfl
tolerant
theorem goMath_piO4 : GoMath.piO4 = ⟨0x3fe921fb54442d18⟩ := rfl

tolerant
/-- bits.go `NaN` (`Float64frombits(uvnan)`) -/
theorem naN_code_tie : math_NaN = GoMath.nan := rfl

tolerant
/-- atan.go `xatan` -/
theorem xatan_code_tie (x : F64) : math_xatan x = GoMath.xatan x := rfl

tolerant
/-- atan.go `satan` -/
theorem satan_code_tie (x : F64) : math_satan x = GoMath.satan x := by
  simp only [math_satan, GoMath.satan, xatan_code_tie, f64_le_iff, f64_lt_iff]
  rfl

tolerant
/-- asin.go `asin` (the generated code tests `x < 0` once and continues on two copies; the port keeps `sign`) -/
theorem asinImpl_code_tie (x : F64) : math_asin x = GoMath.asin x := by
  simp only [math_asin, GoMath.asin, satan_code_tie, f64_lt_iff, f64_zero_lit, naN_code_tie, goMath_one, goMath_c07,
    goMath_piO2]
  by_cases h0 : F64.feq x ⟨0⟩ = true <;> by_cases h1 : F64.lt x ⟨0⟩ = true <;>
    simp only [h0, h1, if_true, if_false, decide_true, decide_false, Bool.false_eq_true]
  all_goals (split <;> try rfl)
  all_goals (split <;> rfl)

tolerant
/-- asin.go `Asin` (`haveArchAsin = false` on amd64: the assembly stub is not reached) -/
theorem asin_code_tie (x : F64) : math_Asin x = GoMath.asin x := by
  simp only [math_Asin, asinImpl_code_tie, Bool.false_eq_true, if_false]

tolerant
/-- asin.go `acos` -/
theorem acosImpl_code_tie (x : F64) : math_acos x = GoMath.acos x := by
  simp only [math_acos, asin_code_tie, GoMath.acos, goMath_piO2]

tolerant
/-- asin.go `Acos` (`haveArchAcos = false` on amd64) -/
theorem acos_code_tie (x : F64) : math_Acos x = GoMath.acos x := by
  simp only [math_Acos, acosImpl_code_tie, Bool.false_eq_true, if_false]

tolerant
/-- render.go `AbsArcTo`, the closure `angle` (function literal no. 1 of `AbsArcTo`) -/
theorem absArcTo_angle_code_tie (ux uy vx vy : F64) :
    render_AbsArcTo_1 ux uy vx vy = Ivg.Ren.arcAngle ux uy vx vy := by
  simp only [render_AbsArcTo_1, Ivg.Ren.arcAngle, Ivg.Ren.f, acos_code_tie, f64_lt_iff, f64_le_iff, goMath_pi,
    f64_ofInt_one', f64_ofInt_zero', f64_ofInt_neg_one']
  repeat' split
  all_goals first | rfl | contradiction

end Ivg.Gen.Tie
