import Ivg.Gen.Tie.Code.Base
import Ivg.Gen.GoPrelude
import Ivg.Model.DecBuffer
/-!
# Helper lemmas for the ties of `decode/buffer.go` (`DecNumbers.lean`, `DecColors.lean`)

* `Go.sliceGet` on a cons cell;
* the result conversion `decResOf` (model `Option (value × rest)` ↦ Go `(value, n)`) and its inverse `decResTo`;
* byte enumeration for `decide`, and the bit arithmetic of `decodeNatural` (`uint32(x) >> 1`,
  `uint16(b[0]) | uint16(b[1])<<8`, the 4-byte little-endian word, `y >> 2`, `u << 2`) in `Nat` arithmetic;
* the `uint32 → int32 → float32` conversions of `decodeCoordinate`;
* facts about the MODEL's `Dec.decodeNatural` (width ∈ {1,2,4}, value bound, remaining bytes = `b.drop n`).
-/
namespace Ivg.Gen.Tie
open Ivg Ivg.Num Ivg.Gen

/-! ## `b[i]` on a list -/

tolerant
theorem decAux_sliceGet_zero {T} [Inhabited T] (x : T) (l : List T) : Go.sliceGet (x :: l) 0 = x := rfl

tolerant
theorem decAux_sliceGet_succ {T} [Inhabited T] (x : T) (l : List T) (i : Nat) :
    Go.sliceGet (x :: l) (i + 1) = Go.sliceGet l i := by
  simp [Go.sliceGet]

/-! ## result conversions -/

/-- The Go result `(value, n)` of a `decodeXxx` method on input `b` that corresponds to the model result `r`:
    `some (v, rest)` ↦ `(f v, len(b) - len(rest))` (the number of bytes consumed), `none` ↦ `(zero, 0)`. -/
def decResOf {α β : Type} (f : α → β) (zero : β) (b : Bytes) : Option (α × Bytes) → β × Int
  | some (v, rest) => (f v, ((b.length - rest.length : Nat) : Int))
  | none => (zero, 0)

/-- The model result that corresponds to a Go result `(value, n)` on input `b` (what the Go callers do with it:
    `n == 0` is the error, otherwise they continue with `b[n:]`). -/
def decResTo {β : Type} (b : Bytes) (r : β × Int) : Option (β × Bytes) :=
  if r.2 = 0 then none else some (r.1, b.drop r.2.toNat)

tolerant
/-- `decResTo` inverts `decResOf` on results whose remaining bytes are a proper suffix `b.drop n`, `0 < n ≤ len b`. -/
theorem decResTo_decResOf {α β : Type} (f : α → β) (zero : β) (b : Bytes) (r : Option (α × Bytes))
    (hr : ∀ v rest, r = some (v, rest) → ∃ n, 0 < n ∧ n ≤ b.length ∧ rest = b.drop n) :
    decResTo b (decResOf f zero b r) = r.map (fun p => (f p.1, p.2)) := by
  match r with
  | none => simp [decResOf, decResTo]
  | some (v, rest) =>
    obtain ⟨n, h0, hn, rfl⟩ := hr v rest rfl
    have h1 : b.length - (b.length - n) = n := by omega
    have h2 : ¬ ((n : Nat) : Int) = 0 := by omega
    simp only [decResOf, decResTo, List.length_drop, h1, h2, if_false, Option.map_some, Int.toNat_natCast]

/-! ## all 256 bytes -/

tolerant
theorem decAux_forall_uint8_iff {p : UInt8 → Prop} :
    (∀ x, p x) ↔ ∀ i : Fin 256, p (UInt8.ofNat i.val) := by
  constructor
  · intro h i; exact h _
  · intro h x
    have := h ⟨x.toNat, x.toNat_lt⟩
    simpa using this

/-- `decide` can enumerate all 256 bytes (use as `attribute [local instance]`) -/
@[instance_reducible] def decAuxForallUInt8 {p : UInt8 → Prop} [DecidablePred p] : Decidable (∀ x, p x) :=
  decidable_of_iff _ decAux_forall_uint8_iff.symm

attribute [local instance] decAuxForallUInt8

/-! ## the bit arithmetic of `decodeNatural` -/

set_option maxRecDepth 100000 in
tolerant
/-- `x&0x01 == 0` -/
theorem decAux_and1 : ∀ x : UInt8, (x &&& 1 = 0) ↔ (x.toNat % 2 = 0) := by decide +kernel

set_option maxRecDepth 100000 in
tolerant
/-- `x&0x02 == 0` -/
theorem decAux_and2 : ∀ x : UInt8, (x &&& 2 = 0) ↔ (x.toNat / 2 % 2 = 0) := by decide +kernel

set_option maxRecDepth 100000 in
tolerant
/-- `uint32(x) >> 1` -/
theorem decAux_nat1 : ∀ x : UInt8, Go.cvt_u8_u32 x >>> 1 = UInt32.ofNat (x.toNat / 2) := by decide +kernel

tolerant
theorem decAux_or8 (x y : Nat) (hx : x < 256) : x ||| y <<< 8 = x + y * 256 := by
  rw [Nat.or_comm, ← Nat.shiftLeft_add_eq_or_of_lt (i := 8) (by omega), Nat.shiftLeft_eq]; omega

tolerant
/-- `uint32(uint16(b[0]) | uint16(b[1])<<8) >> 2` -/
theorem decAux_nat2 (x y : UInt8) :
    Go.cvt_u16_u32 (Go.cvt_u8_u16 x ||| Go.cvt_u8_u16 y <<< 8) >>> 2
      = UInt32.ofNat ((x.toNat + y.toNat * 256) / 4) := by
  have hx := x.toNat_lt; have hy := y.toNat_lt
  apply UInt32.toNat_inj.1
  simp only [Go.cvt_u16_u32, Go.cvt_u8_u16, UInt32.toNat_shiftRight, UInt16.toNat_toUInt32, UInt16.toNat_or,
    UInt16.toNat_shiftLeft, UInt8.toNat_toUInt16, UInt32.toNat_ofNat', UInt16.toNat_ofNat, UInt32.toNat_ofNat,
    Nat.reduceMod, Nat.reducePow]
  have h1 : y.toNat <<< 8 % 65536 = y.toNat <<< 8 := by
    simp only [Nat.shiftLeft_eq, Nat.reducePow]; omega
  rw [h1, decAux_or8 _ _ hx, Nat.shiftRight_eq_div_pow]
  omega

tolerant
/-- `(uint32(b[0]) | uint32(b[1])<<8 | uint32(b[2])<<16 | uint32(b[3])<<24) >> 2` -/
theorem decAux_nat4 (x b1 b2 b3 : UInt8) :
    (Go.cvt_u8_u32 x ||| Go.cvt_u8_u32 b1 <<< 8 ||| Go.cvt_u8_u32 b2 <<< 16 ||| Go.cvt_u8_u32 b3 <<< 24) >>> 2
      = UInt32.ofNat ((x.toNat + b1.toNat * 256 + b2.toNat * 65536 + b3.toNat * 16777216) / 4) := by
  have hx := x.toNat_lt; have h1 := b1.toNat_lt; have h2 := b2.toNat_lt; have h3 := b3.toNat_lt
  apply UInt32.toNat_inj.1
  simp only [Go.cvt_u8_u32, UInt32.toNat_shiftRight, UInt32.toNat_or,
    UInt32.toNat_shiftLeft, UInt8.toNat_toUInt32, UInt32.toNat_ofNat', UInt32.toNat_ofNat,
    Nat.reduceMod, Nat.reducePow]
  have e1 : b1.toNat <<< 8 % 4294967296 = b1.toNat <<< 8 := by
    simp only [Nat.shiftLeft_eq, Nat.reducePow]; omega
  have e2 : b2.toNat <<< 16 % 4294967296 = b2.toNat <<< 16 := by
    simp only [Nat.shiftLeft_eq, Nat.reducePow]; omega
  have e3 : b3.toNat <<< 24 % 4294967296 = b3.toNat <<< 24 := by
    simp only [Nat.shiftLeft_eq, Nat.reducePow]; omega
  rw [e1, e2, e3, decAux_or8 _ _ hx]
  rw [Nat.or_comm _ (b2.toNat <<< 16), ← Nat.shiftLeft_add_eq_or_of_lt (i := 16) (by omega)]
  rw [Nat.or_comm _ (b3.toNat <<< 24),
    ← Nat.shiftLeft_add_eq_or_of_lt (i := 24) (by simp only [Nat.shiftLeft_eq, Nat.reducePow]; omega)]
  simp only [Nat.shiftLeft_eq, Nat.shiftRight_eq_div_pow, Nat.reducePow]
  omega

tolerant
/-- `u << 2` (in uint32, wrapping) -/
theorem decAux_shl2 (u : Nat) : UInt32.ofNat u <<< 2 = UInt32.ofNat (u * 4) := by
  apply UInt32.toNat_inj.1
  simp only [UInt32.toNat_shiftLeft, UInt32.toNat_ofNat', UInt32.toNat_ofNat, Nat.shiftLeft_eq,
    Nat.reduceMod, Nat.reducePow]
  omega

/-! ## `float32(u)`, `float32(int32(u) - k)` -/

tolerant
/-- `float32(u)` for a uint32 `u` -/
theorem decAux_real (u : Nat) (hu : u < 2 ^ 30) : Go.cvt_u32_f32 (UInt32.ofNat u) = F32.ofInt u := by
  rw [Go.cvt_u32_f32, UInt32.toNat_ofNat_of_lt' (by simp [UInt32.size]; omega)]

tolerant
theorem decAux_i32_sub (u : Nat) (k : Int32) (hu : u < 2 ^ 30) (hk0 : 0 ≤ k.toInt) (hk : k.toInt < 2 ^ 30) :
    (Go.cvt_u32_i32 (UInt32.ofNat u) - k).toInt = (u : Int) - k.toInt := by
  rw [Go.cvt_u32_i32, UInt32.toInt32_ofNat', Int32.toInt_sub, Int32.toInt_ofNat_of_lt (by omega)]
  apply Int.bmod_eq_of_le <;> omega

tolerant
/-- `float32(int32(u) - 64)` -/
theorem decAux_coord1 (u : Nat) (hu : u < 2 ^ 30) :
    Go.cvt_i32_f32 (Go.cvt_u32_i32 (UInt32.ofNat u) - (64 : Int32)) = F32.ofInt ((u : Int) - 64) := by
  rw [Go.cvt_i32_f32, decAux_i32_sub u 64 hu (by decide) (by decide)]; rfl

tolerant
/-- `float32(int32(u) - 64*128)` -/
theorem decAux_coord2 (u : Nat) (hu : u < 2 ^ 30) :
    Go.cvt_i32_f32 (Go.cvt_u32_i32 (UInt32.ofNat u) - (8192 : Int32)) = F32.ofInt ((u : Int) - 64 * 128) := by
  rw [Go.cvt_i32_f32, decAux_i32_sub u 8192 hu (by decide) (by decide)]; rfl

tolerant
theorem decAux_f32_64 : F32.ofInt 64 = ⟨0x42800000⟩ := by decide
tolerant
theorem decAux_f32_120 : F32.ofInt 120 = ⟨0x42f00000⟩ := by decide
tolerant
theorem decAux_f32_15120 : F32.ofInt 15120 = ⟨0x466c4000⟩ := by decide

/-! ## the exponent mask of `isNaNOrInfinity` -/

tolerant
/-- `bits & 0x7f800000` is the exponent field, in place -/
theorem decAux_expMask (n : Nat) : n &&& 0x7f800000 = (n / 0x800000 % 256) * 0x800000 := by
  have h := Nat.div_add_mod (n &&& 0x7f800000) (2 ^ 23)
  rw [Nat.and_mod_two_pow, Nat.and_div_two_pow] at h
  have e1 : 0x7f800000 % 2 ^ 23 = 0 := by decide
  have e2 : 0x7f800000 / 2 ^ 23 = 2 ^ 8 - 1 := by decide
  rw [e1, e2, Nat.and_zero, Nat.and_two_pow_sub_one_eq_mod] at h
  omega

/-! ## facts about the model's `Dec.decodeNatural` -/

tolerant
/-- the model's `decodeNatural` returns a width 1, 2 or 4, a value below `2^30`, and the input without its
    first `n` bytes -/
theorem decAux_decodeNatural_spec {b : Bytes} {u n : Nat} {rest : Bytes}
    (h : Dec.decodeNatural b = some (u, n, rest)) :
    (n = 1 ∨ n = 2 ∨ n = 4) ∧ u < 2 ^ 30 ∧ n ≤ b.length ∧ rest = b.drop n := by
  unfold Dec.decodeNatural at h
  match b with
  | [] => simp at h
  | x :: r =>
    have hx := x.toNat_lt
    simp only at h
    split at h
    · simp only [Option.some.injEq, Prod.mk.injEq] at h
      obtain ⟨rfl, rfl, rfl⟩ := h
      simp; omega
    · split at h
      · match r with
        | [] => simp at h
        | y :: r' =>
          have hy := y.toNat_lt
          simp only [Option.some.injEq, Prod.mk.injEq] at h
          obtain ⟨rfl, rfl, rfl⟩ := h
          simp; omega
      · match r with
        | [] => simp at h
        | [_] => simp at h
        | [_, _] => simp at h
        | b1 :: b2 :: b3 :: r' =>
          have h1 := b1.toNat_lt; have h2 := b2.toNat_lt; have h3 := b3.toNat_lt
          simp only [Option.some.injEq, Prod.mk.injEq] at h
          obtain ⟨rfl, rfl, rfl⟩ := h
          simp; omega

tolerant
/-- the model's `decodeReal` leaves `b[n:]` for some `0 < n ≤ len b` -/
theorem decAux_decodeReal_rest {b : Bytes} {v : F32} {rest : Bytes} (h : Dec.decodeReal b = some (v, rest)) :
    ∃ n, 0 < n ∧ n ≤ b.length ∧ rest = b.drop n := by
  unfold Dec.decodeReal at h
  cases hn : Dec.decodeNatural b with
  | none => simp [hn] at h
  | some r =>
    obtain ⟨u, n, rest'⟩ := r
    obtain ⟨hn', _, hl, rfl⟩ := decAux_decodeNatural_spec hn
    simp only [hn] at h
    refine ⟨n, by omega, hl, ?_⟩
    repeat' split at h
    all_goals
      simp only [Option.some.injEq, Prod.mk.injEq] at h
      exact h.2.symm

tolerant
/-- the model's `decodeCoordinate` leaves `b[n:]` for some `0 < n ≤ len b` -/
theorem decAux_decodeCoordinate_rest {b : Bytes} {v : F32} {rest : Bytes} (h : Dec.decodeCoordinate b = some (v, rest)) :
    ∃ n, 0 < n ∧ n ≤ b.length ∧ rest = b.drop n := by
  unfold Dec.decodeCoordinate at h
  cases hn : Dec.decodeNatural b with
  | none => simp [hn] at h
  | some r =>
    obtain ⟨u, n, rest'⟩ := r
    obtain ⟨hn', _, hl, rfl⟩ := decAux_decodeNatural_spec hn
    simp only [hn] at h
    refine ⟨n, by omega, hl, ?_⟩
    repeat' split at h
    all_goals
      simp only [Option.some.injEq, Prod.mk.injEq] at h
      exact h.2.symm

tolerant
/-- the model's `decodeZeroToOne` leaves `b[n:]` for some `0 < n ≤ len b` -/
theorem decAux_decodeZeroToOne_rest {b : Bytes} {v : F32} {rest : Bytes} (h : Dec.decodeZeroToOne b = some (v, rest)) :
    ∃ n, 0 < n ∧ n ≤ b.length ∧ rest = b.drop n := by
  unfold Dec.decodeZeroToOne at h
  cases hn : Dec.decodeNatural b with
  | none => simp [hn] at h
  | some r =>
    obtain ⟨u, n, rest'⟩ := r
    obtain ⟨hn', _, hl, rfl⟩ := decAux_decodeNatural_spec hn
    simp only [hn] at h
    refine ⟨n, by omega, hl, ?_⟩
    repeat' split at h
    all_goals
      simp only [Option.some.injEq, Prod.mk.injEq] at h
      exact h.2.symm

end Ivg.Gen.Tie
