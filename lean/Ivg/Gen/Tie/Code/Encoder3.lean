import Ivg.Gen.Tie.Code.Encoder2
/-!
# Tie: `(*Encoder).draw`, the 20 drawing methods and `Bytes` of `encode/encode.go`, as TRANSLATED from the Go source,
against the model's `Encoder.draw` / `Encoder.step` / `Encoder.bytes`  (part 3 of the Encoder ties)

* `draw_compact`: the generated `draw` (the translator inlines the `switch drawOp` tail into each of the five arms of
  `switch drawOps[drawOp].nArgs`, on both sides of the `e.drawOp != drawOp` test: 2 × 5 × 4 leaves) equals a closed
  form `drawCompact` with each decision taken once — for ALL inputs, no model involved.
* `wfEnc_step`, `wfEnc_init`: `WFEnc` holds initially and is preserved by every `Encoder.step` (and by `flushDrawOps`,
  `draw`, `bytes`, the reads and `setHiRes`: `wfEnc_stepOp`).
* `draw_code_tie`: for every well-formed state, every verb `op` and operands `a0 … a5`, the generated `draw` called with
  the verb's byte returns the representation of the model's `draw op` on the first `nArgs` operands
  (fuel ≥ `len(drawArgs) + 8`: up to 6 operands are appended before the second flush).
* one tie per drawing method (`encoder_absHLineTo_code_tie` … `relArcTo_code_tie`) against the corresponding `Encoder.step`.
* `bytes_code_tie` against `Encoder.bytes`.

`encDrawRep m` is the tuple of the five fields these methods write: `(buf, err, mode, drawOp, drawArgs)`.
-/
namespace Ivg.Gen.Tie
open Ivg Ivg.Num Ivg.Gen Ivg.Gen.Code
set_option linter.unusedSimpArgs false

/-- `(*Encoder).draw` in closed form: every decision of the Go method taken once, in source order -/
def drawCompact (fuel : Nat) (hi : Bool) (buf : Bytes) (err : Go.Err) (mode dop : UInt8) (dargs : List F32)
    (c : UInt8) (a0 a1 a2 a3 a4 a5 : F32) : Bytes × Go.Err × UInt8 × UInt8 × List F32 :=
  if err.isSome then (buf, err, mode, dop, dargs) else
  if mode ≠ 2 then (buf, some G_encode_errDrawingOpsUsedInStylingMode, mode, dop, dargs) else
  let s1 : Bytes × List F32 :=
    if dop ≠ c then
      let t := encode_Encoder_flushDrawOps fuel hi buf dop dargs
      (t.1, t.2.2)
    else (buf, dargs)
  let k := (Go.arrGet G_encode_drawOps (Go.idx_u8 c)).nArgs
  if ¬ (k = 0 ∨ k = 1 ∨ k = 2 ∨ k = 4 ∨ k = 6) then Go.panicked default else
  let args2 := s1.2 ++ [a0, a1, a2, a3, a4, a5].take k.toNat
  if c = 90 then
    let t := encode_Encoder_flushDrawOps fuel hi s1.1 c args2
    (t.1, err, 1, t.2.1, t.2.2)
  else if c = 89 ∨ c = 121 then
    let t := encode_Encoder_flushDrawOps fuel hi s1.1 c args2
    (t.1, err, mode, t.2.1, t.2.2)
  else (s1.1, err, mode, c, args2)

tolerant
/-- the generated `(*Encoder).draw` equals its closed form, for all inputs -/
theorem draw_compact (fuel : Nat) (hi : Bool) (buf : Bytes) (err : Go.Err) (mode dop : UInt8) (dargs : List F32)
    (c : UInt8) (a0 a1 a2 a3 a4 a5 : F32) :
    encode_Encoder_draw fuel hi buf err mode dop dargs c a0 a1 a2 a3 a4 a5
      = drawCompact fuel hi buf err mode dop dargs c a0 a1 a2 a3 a4 a5 := by
  unfold encode_Encoder_draw drawCompact
  generalize (Go.arrGet G_encode_drawOps (Go.idx_u8 c)).nArgs = k
  by_cases he : err.isSome = true
  · simp [he]
  by_cases hm : ¬ mode = 2
  · simp [he, hm]
  replace hm : mode = 2 := by simpa using hm
  simp only [he, hm, Bool.false_eq_true, if_false, ne_eq, not_true_eq_false, decide_false, decide_not]
  by_cases hd : dop = c <;> by_cases h0 : k = 0 <;> by_cases h1 : k = 1 <;> by_cases h2 : k = 2 <;>
    by_cases h4 : k = 4 <;> by_cases h6 : k = 6 <;>
    by_cases c90 : c = 90 <;> by_cases c89 : c = 89 <;> by_cases c121 : c = 121 <;>
    simp_all

/-! ## well-formedness is preserved -/

tolerant
theorem wfEnc_flush (m : Enc.Encoder) (h : WFEnc m) : WFEnc m.flushDrawOps := by
  unfold Enc.Encoder.flushDrawOps
  split
  · exact h
  · split <;> simp [WFEnc]

tolerant
theorem flush_drawOp (m : Enc.Encoder) : m.flushDrawOps.drawOp = none := by
  unfold Enc.Encoder.flushDrawOps
  split
  · assumption
  · split <;> rfl

tolerant
theorem flush_drawArgs (m : Enc.Encoder) (h : WFEnc m) : m.flushDrawOps.drawArgs = [] := by
  unfold Enc.Encoder.flushDrawOps
  split
  · rename_i h0; unfold WFEnc at h; rw [h0] at h; exact h
  · split <;> rfl

tolerant
theorem flush_frame (m : Enc.Encoder) :
    m.flushDrawOps.hiRes = m.hiRes ∧ m.flushDrawOps.hiResLocal = m.hiResLocal ∧ m.flushDrawOps.err = m.err ∧
    m.flushDrawOps.lod0 = m.lod0 ∧ m.flushDrawOps.lod1 = m.lod1 ∧ m.flushDrawOps.cSel = m.cSel ∧
    m.flushDrawOps.nSel = m.nSel ∧ m.flushDrawOps.mode = m.mode := by
  unfold Enc.Encoder.flushDrawOps
  split
  · simp
  · split <;> simp

/-- the Go values of the five fields the drawing methods write: `(buf, err, mode, drawOp, drawArgs)` -/
def encDrawRep (m : Enc.Encoder) : Bytes × Go.Err × UInt8 × UInt8 × List F32 :=
  (m.buf, goErr m.err, goMode m.mode, goDrawOp m.drawOp, m.drawArgs.flatten)

tolerant
/-- encode.go `(*Encoder).draw` (reads `highResolutionCoordinates`; writes `buf`, `err`, `mode`, `drawOp`, `drawArgs`),
    called with the ASCII byte of verb `op`, = the model's `Encoder.draw op` on the first `nArgs` of the six operands;
    for every well-formed state and `fuel ≥ len(drawArgs) + 8`.  (`draw` is unexported and only ever called with
    the 19 verb bytes; for any other byte `drawOps[b].nArgs = 0` and the model has no counterpart.) -/
theorem draw_code_tie (m : Enc.Encoder) (hwf : WFEnc m) (op : Enc.DrawOp) (a0 a1 a2 a3 a4 a5 : F32) (fuel : Nat)
    (hf : m.drawArgs.flatten.length + 8 ≤ fuel) :
    encode_Encoder_draw fuel m.hiResLocal m.buf (goErr m.err) (goMode m.mode) (goDrawOp m.drawOp)
        m.drawArgs.flatten (goDrawOp (some op)) a0 a1 a2 a3 a4 a5
      = encDrawRep (m.draw op ([a0, a1, a2, a3, a4, a5].take (Enc.opInfo op).nArgs)) := by
  unfold encDrawRep
  obtain ⟨hb, hM, hk, hM1, hM32, hk6⟩ := infoOf_fields op
  generalize hargs : [a0, a1, a2, a3, a4, a5].take (Enc.opInfo op).nArgs = args
  have hal : args.length = (Enc.opInfo op).nArgs := by rw [← hargs, List.length_take]; simp; omega
  rw [draw_compact]
  unfold drawCompact Enc.Encoder.draw
  rw [goErr_isSome]
  by_cases he : m.err.isSome = true
  · simp [he]
  have hmode : (goMode m.mode ≠ 2) ↔ m.mode ≠ .drawing := by
    rw [show (2 : UInt8) = goMode .drawing from rfl, ne_eq, goMode_inj]
  by_cases hm : m.mode ≠ .drawing
  · simp [he, hm, hmode, errDrawingOpsUsedInStylingMode_code_tie, goErr]
  replace hm : m.mode = .drawing := by simpa using hm
  have herr : m.err = none := by simpa using he
  -- the state after the first (conditional) flush
  generalize hm1 : (if m.drawOp ≠ some op then m.flushDrawOps else m) = m1
  have hs1 : (if goDrawOp m.drawOp ≠ goDrawOp (some op) then
        ((encode_Encoder_flushDrawOps fuel m.hiResLocal m.buf (goDrawOp m.drawOp) m.drawArgs.flatten).1,
         (encode_Encoder_flushDrawOps fuel m.hiResLocal m.buf (goDrawOp m.drawOp) m.drawArgs.flatten).2.2)
      else (m.buf, m.drawArgs.flatten)) = (m1.buf, m1.drawArgs.flatten) := by
    rw [← hm1]
    by_cases hd : m.drawOp = some op
    · simp [hd]
    · simp [hd, goDrawOp_inj, flushDrawOps_code_tie m hwf fuel (by omega)]
  have hwf1 : WFEnc m1 := by rw [← hm1]; split; exact wfEnc_flush m hwf; exact hwf
  have hop1 : m1.drawOp = some op ∨ (m1.drawOp = none ∧ m1.drawArgs = []) := by
    rw [← hm1]
    by_cases hd : m.drawOp = some op
    · simp [hd]
    · simp [hd, flush_drawOp, flush_drawArgs m hwf]
  have hlen1 : m1.drawArgs.flatten.length ≤ m.drawArgs.flatten.length := by
    rw [← hm1]
    by_cases hd : m.drawOp = some op
    · simp [hd]
    · simp [hd, flush_drawArgs m hwf]
  have hfr1 : m1.hiResLocal = m.hiResLocal ∧ m1.err = m.err ∧ m1.mode = m.mode := by
    rw [← hm1]; split
    · exact ⟨(flush_frame m).2.1, (flush_frame m).2.2.1, (flush_frame m).2.2.2.2.2.2.2⟩
    · exact ⟨rfl, rfl, rfl⟩
  -- the state after appending the operands
  obtain ⟨m2, hm2⟩ : ∃ m2 : Enc.Encoder, (if (Enc.opInfo op).nArgs = 0 then { m1 with drawOp := some op }
      else { ({ m1 with drawOp := some op } : Enc.Encoder) with
              drawArgs := ({ m1 with drawOp := some op } : Enc.Encoder).drawArgs ++ [args] }) = m2 := ⟨_, rfl⟩
  have hwf2 : ∀ md, WFEnc ({ m2 with mode := md } : Enc.Encoder) := by
    intro md
    rw [← hm2]
    rcases hop1 with h | ⟨h, h'⟩
    · have hw := hwf1; unfold WFEnc at hw; rw [h] at hw
      split
      · exact hw
      · intro g hg
        rcases List.mem_append.1 hg with hg | hg
        · exact hw g hg
        · simp at hg; rw [hg]; exact hal
    · split
      · simp [WFEnc, h']
      · intro g hg; simp [h'] at hg; rw [hg]; exact hal
  have hflat2 : m2.drawArgs.flatten = m1.drawArgs.flatten ++ args := by
    rw [← hm2]
    split
    · rename_i h0
      have : args = [] := List.eq_nil_of_length_eq_zero (by omega)
      simp [this]
    · simp
  have hk5 : ((infoOf (Enc.opInfo op)).nArgs = 0 ∨ (infoOf (Enc.opInfo op)).nArgs = 1 ∨
      (infoOf (Enc.opInfo op)).nArgs = 2 ∨ (infoOf (Enc.opInfo op)).nArgs = 4 ∨
      (infoOf (Enc.opInfo op)).nArgs = 6) := by
    cases op with
    | v1 w => cases w <;> decide
    | v2 w => cases w <;> decide
    | v4 w => cases w <;> decide
    | v6 w => cases w <;> decide
    | arcAbs => decide
    | arcRel => decide
    | Z => decide
  simp only [he, hmode, hm, ne_eq, not_true_eq_false, Bool.false_eq_true, if_false, hs1, drawOps_code_tie, hk5,
    hk, hargs, hm1, hm2]
  have hm2f : m2.buf = m1.buf ∧ m2.hiResLocal = m.hiResLocal ∧ m2.err = m.err ∧ m2.mode = .drawing ∧
      m2.drawOp = some op := by
    rw [← hm2]; split <;> simp [hfr1, hm]
  obtain ⟨h2b, h2h, h2e, h2m, h2o⟩ := hm2f
  have hF : ∀ md, encode_Encoder_flushDrawOps fuel m.hiResLocal m1.buf (goDrawOp (some op))
        (m1.drawArgs.flatten ++ args) =
      (({ m2 with mode := md } : Enc.Encoder).flushDrawOps.buf,
       goDrawOp ({ m2 with mode := md } : Enc.Encoder).flushDrawOps.drawOp,
       ({ m2 with mode := md } : Enc.Encoder).flushDrawOps.drawArgs.flatten) := by
    intro md
    have := flushDrawOps_code_tie ({ m2 with mode := md } : Enc.Encoder) (hwf2 md) fuel
      (by simp only [hflat2, List.length_append, hal]; omega)
    simpa only [h2b, h2h, h2o, hflat2] using this
  have hmd : ({ m2 with mode := .drawing } : Enc.Encoder) = m2 := by rw [← h2m]
  have h90 : goDrawOp (some op) = 90 ↔ op = .Z := by
    rw [show (90 : UInt8) = goDrawOp (some .Z) from by decide, goDrawOp_inj]; simp
  have h89 : goDrawOp (some op) = 89 ↔ op = .v2 .Y := by
    rw [show (89 : UInt8) = goDrawOp (some (.v2 .Y)) from by decide, goDrawOp_inj]; simp
  have h121 : goDrawOp (some op) = 121 ↔ op = .v2 .y := by
    rw [show (121 : UInt8) = goDrawOp (some (.v2 .y)) from by decide, goDrawOp_inj]; simp
  simp only [h90, h89, h121, show goMode .drawing = 2 from rfl, not_true_eq_false, if_false]
  by_cases hZ : op = .Z
  · subst hZ
    simp only [if_true, hF .styling]
    simp [(flush_frame _).2.2.1, (flush_frame _).2.2.2.2.2.2.2, h2e, goMode]
  by_cases hY : op = .v2 .Y
  · subst hY
    simp only [hF .drawing, hmd]
    simp [(flush_frame _).2.2.1, (flush_frame _).2.2.2.2.2.2.2, h2e, h2m, goMode]
  by_cases hy : op = .v2 .y
  · subst hy
    simp only [hF .drawing, hmd]
    simp [(flush_frame _).2.2.1, (flush_frame _).2.2.2.2.2.2.2, h2e, h2m, goMode]
  simp only [hZ, hY, hy, or_self, if_false]
  simp [h2b, h2e, h2m, h2o, hflat2, goMode]

/-! ## the drawing methods -/

tolerant
/-- `draw_code_tie` in the form the one-line methods use: the verb byte as a literal, the operand list explicit -/
theorem draw_code_tie' (m : Enc.Encoder) (hwf : WFEnc m) (fuel : Nat) (hf : m.drawArgs.flatten.length + 8 ≤ fuel)
    (op : Enc.DrawOp) (c : UInt8) (hc : c = goDrawOp (some op)) (a0 a1 a2 a3 a4 a5 : F32) (args : List F32)
    (hargs : [a0, a1, a2, a3, a4, a5].take (Enc.opInfo op).nArgs = args) :
    encode_Encoder_draw fuel m.hiResLocal m.buf (goErr m.err) (goMode m.mode) (goDrawOp m.drawOp)
        m.drawArgs.flatten c a0 a1 a2 a3 a4 a5 = encDrawRep (m.draw op args) := by
  rw [hc, ← hargs]; exact draw_code_tie m hwf op a0 a1 a2 a3 a4 a5 fuel hf

section methods
variable (m : Enc.Encoder) (hwf : WFEnc m) (fuel : Nat) (hf : m.drawArgs.flatten.length + 8 ≤ fuel)
include hwf hf

tolerant
/-- encode.go `(*Encoder).AbsHLineTo` = `Encoder.step … (.d1 .H x)` -/
theorem encoder_absHLineTo_code_tie (x : F32) :
    encode_Encoder_AbsHLineTo fuel m.hiResLocal m.buf (goErr m.err) (goMode m.mode) (goDrawOp m.drawOp)
        m.drawArgs.flatten x = encDrawRep (m.step (.d1 .H x)) := by
  simp only [encode_Encoder_AbsHLineTo, Enc.Encoder.step]
  rw [draw_code_tie' m hwf fuel hf (.v1 .H) _ (by decide) _ _ _ _ _ _ [x] rfl]

tolerant
/-- encode.go `(*Encoder).RelHLineTo` = `Encoder.step … (.d1 .h x)` -/
theorem encoder_relHLineTo_code_tie (x : F32) :
    encode_Encoder_RelHLineTo fuel m.hiResLocal m.buf (goErr m.err) (goMode m.mode) (goDrawOp m.drawOp)
        m.drawArgs.flatten x = encDrawRep (m.step (.d1 .h x)) := by
  simp only [encode_Encoder_RelHLineTo, Enc.Encoder.step]
  rw [draw_code_tie' m hwf fuel hf (.v1 .h) _ (by decide) _ _ _ _ _ _ [x] rfl]

tolerant
/-- encode.go `(*Encoder).AbsVLineTo` = `Encoder.step … (.d1 .V y)` -/
theorem encoder_absVLineTo_code_tie (y : F32) :
    encode_Encoder_AbsVLineTo fuel m.hiResLocal m.buf (goErr m.err) (goMode m.mode) (goDrawOp m.drawOp)
        m.drawArgs.flatten y = encDrawRep (m.step (.d1 .V y)) := by
  simp only [encode_Encoder_AbsVLineTo, Enc.Encoder.step]
  rw [draw_code_tie' m hwf fuel hf (.v1 .V) _ (by decide) _ _ _ _ _ _ [y] rfl]

tolerant
/-- encode.go `(*Encoder).RelVLineTo` = `Encoder.step … (.d1 .v y)` -/
theorem encoder_relVLineTo_code_tie (y : F32) :
    encode_Encoder_RelVLineTo fuel m.hiResLocal m.buf (goErr m.err) (goMode m.mode) (goDrawOp m.drawOp)
        m.drawArgs.flatten y = encDrawRep (m.step (.d1 .v y)) := by
  simp only [encode_Encoder_RelVLineTo, Enc.Encoder.step]
  rw [draw_code_tie' m hwf fuel hf (.v1 .v) _ (by decide) _ _ _ _ _ _ [y] rfl]

tolerant
/-- encode.go `(*Encoder).AbsLineTo` = `Encoder.step … (.d2 .L x y)` -/
theorem encoder_absLineTo_code_tie (x y : F32) :
    encode_Encoder_AbsLineTo fuel m.hiResLocal m.buf (goErr m.err) (goMode m.mode) (goDrawOp m.drawOp)
        m.drawArgs.flatten x y = encDrawRep (m.step (.d2 .L x y)) := by
  simp only [encode_Encoder_AbsLineTo, Enc.Encoder.step]
  rw [draw_code_tie' m hwf fuel hf (.v2 .L) _ (by decide) _ _ _ _ _ _ [x, y] rfl]

tolerant
/-- encode.go `(*Encoder).RelLineTo` = `Encoder.step … (.d2 .l x y)` -/
theorem encoder_relLineTo_code_tie (x y : F32) :
    encode_Encoder_RelLineTo fuel m.hiResLocal m.buf (goErr m.err) (goMode m.mode) (goDrawOp m.drawOp)
        m.drawArgs.flatten x y = encDrawRep (m.step (.d2 .l x y)) := by
  simp only [encode_Encoder_RelLineTo, Enc.Encoder.step]
  rw [draw_code_tie' m hwf fuel hf (.v2 .l) _ (by decide) _ _ _ _ _ _ [x, y] rfl]

tolerant
/-- encode.go `(*Encoder).AbsSmoothQuadTo` = `Encoder.step … (.d2 .T x y)` -/
theorem encoder_absSmoothQuadTo_code_tie (x y : F32) :
    encode_Encoder_AbsSmoothQuadTo fuel m.hiResLocal m.buf (goErr m.err) (goMode m.mode) (goDrawOp m.drawOp)
        m.drawArgs.flatten x y = encDrawRep (m.step (.d2 .T x y)) := by
  simp only [encode_Encoder_AbsSmoothQuadTo, Enc.Encoder.step]
  rw [draw_code_tie' m hwf fuel hf (.v2 .T) _ (by decide) _ _ _ _ _ _ [x, y] rfl]

tolerant
/-- encode.go `(*Encoder).RelSmoothQuadTo` = `Encoder.step … (.d2 .t x y)` -/
theorem encoder_relSmoothQuadTo_code_tie (x y : F32) :
    encode_Encoder_RelSmoothQuadTo fuel m.hiResLocal m.buf (goErr m.err) (goMode m.mode) (goDrawOp m.drawOp)
        m.drawArgs.flatten x y = encDrawRep (m.step (.d2 .t x y)) := by
  simp only [encode_Encoder_RelSmoothQuadTo, Enc.Encoder.step]
  rw [draw_code_tie' m hwf fuel hf (.v2 .t) _ (by decide) _ _ _ _ _ _ [x, y] rfl]

tolerant
/-- encode.go `(*Encoder).ClosePathAbsMoveTo` = `Encoder.step … (.d2 .Y x y)` -/
theorem encoder_closePathAbsMoveTo_code_tie (x y : F32) :
    encode_Encoder_ClosePathAbsMoveTo fuel m.hiResLocal m.buf (goErr m.err) (goMode m.mode) (goDrawOp m.drawOp)
        m.drawArgs.flatten x y = encDrawRep (m.step (.d2 .Y x y)) := by
  simp only [encode_Encoder_ClosePathAbsMoveTo, Enc.Encoder.step]
  rw [draw_code_tie' m hwf fuel hf (.v2 .Y) _ (by decide) _ _ _ _ _ _ [x, y] rfl]

tolerant
/-- encode.go `(*Encoder).ClosePathRelMoveTo` = `Encoder.step … (.d2 .y x y)` -/
theorem encoder_closePathRelMoveTo_code_tie (x y : F32) :
    encode_Encoder_ClosePathRelMoveTo fuel m.hiResLocal m.buf (goErr m.err) (goMode m.mode) (goDrawOp m.drawOp)
        m.drawArgs.flatten x y = encDrawRep (m.step (.d2 .y x y)) := by
  simp only [encode_Encoder_ClosePathRelMoveTo, Enc.Encoder.step]
  rw [draw_code_tie' m hwf fuel hf (.v2 .y) _ (by decide) _ _ _ _ _ _ [x, y] rfl]

tolerant
/-- encode.go `(*Encoder).AbsQuadTo` = `Encoder.step … (.d4 .Q x1 y1 x y)` -/
theorem encoder_absQuadTo_code_tie (x1 y1 x y : F32) :
    encode_Encoder_AbsQuadTo fuel m.hiResLocal m.buf (goErr m.err) (goMode m.mode) (goDrawOp m.drawOp)
        m.drawArgs.flatten x1 y1 x y = encDrawRep (m.step (.d4 .Q x1 y1 x y)) := by
  simp only [encode_Encoder_AbsQuadTo, Enc.Encoder.step]
  rw [draw_code_tie' m hwf fuel hf (.v4 .Q) _ (by decide) _ _ _ _ _ _ [x1, y1, x, y] rfl]

tolerant
/-- encode.go `(*Encoder).RelQuadTo` = `Encoder.step … (.d4 .q x1 y1 x y)` -/
theorem encoder_relQuadTo_code_tie (x1 y1 x y : F32) :
    encode_Encoder_RelQuadTo fuel m.hiResLocal m.buf (goErr m.err) (goMode m.mode) (goDrawOp m.drawOp)
        m.drawArgs.flatten x1 y1 x y = encDrawRep (m.step (.d4 .q x1 y1 x y)) := by
  simp only [encode_Encoder_RelQuadTo, Enc.Encoder.step]
  rw [draw_code_tie' m hwf fuel hf (.v4 .q) _ (by decide) _ _ _ _ _ _ [x1, y1, x, y] rfl]

tolerant
/-- encode.go `(*Encoder).AbsSmoothCubeTo` = `Encoder.step … (.d4 .S x2 y2 x y)` -/
theorem encoder_absSmoothCubeTo_code_tie (x2 y2 x y : F32) :
    encode_Encoder_AbsSmoothCubeTo fuel m.hiResLocal m.buf (goErr m.err) (goMode m.mode) (goDrawOp m.drawOp)
        m.drawArgs.flatten x2 y2 x y = encDrawRep (m.step (.d4 .S x2 y2 x y)) := by
  simp only [encode_Encoder_AbsSmoothCubeTo, Enc.Encoder.step]
  rw [draw_code_tie' m hwf fuel hf (.v4 .S) _ (by decide) _ _ _ _ _ _ [x2, y2, x, y] rfl]

tolerant
/-- encode.go `(*Encoder).RelSmoothCubeTo` = `Encoder.step … (.d4 .s x2 y2 x y)` -/
theorem encoder_relSmoothCubeTo_code_tie (x2 y2 x y : F32) :
    encode_Encoder_RelSmoothCubeTo fuel m.hiResLocal m.buf (goErr m.err) (goMode m.mode) (goDrawOp m.drawOp)
        m.drawArgs.flatten x2 y2 x y = encDrawRep (m.step (.d4 .s x2 y2 x y)) := by
  simp only [encode_Encoder_RelSmoothCubeTo, Enc.Encoder.step]
  rw [draw_code_tie' m hwf fuel hf (.v4 .s) _ (by decide) _ _ _ _ _ _ [x2, y2, x, y] rfl]

tolerant
/-- encode.go `(*Encoder).AbsCubeTo` = `Encoder.step … (.d6 .C x1 y1 x2 y2 x y)` -/
theorem encoder_absCubeTo_code_tie (x1 y1 x2 y2 x y : F32) :
    encode_Encoder_AbsCubeTo fuel m.hiResLocal m.buf (goErr m.err) (goMode m.mode) (goDrawOp m.drawOp)
        m.drawArgs.flatten x1 y1 x2 y2 x y = encDrawRep (m.step (.d6 .C x1 y1 x2 y2 x y)) := by
  simp only [encode_Encoder_AbsCubeTo, Enc.Encoder.step]
  rw [draw_code_tie' m hwf fuel hf (.v6 .C) _ (by decide) _ _ _ _ _ _ [x1, y1, x2, y2, x, y] rfl]

tolerant
/-- encode.go `(*Encoder).RelCubeTo` = `Encoder.step … (.d6 .c x1 y1 x2 y2 x y)` -/
theorem encoder_relCubeTo_code_tie (x1 y1 x2 y2 x y : F32) :
    encode_Encoder_RelCubeTo fuel m.hiResLocal m.buf (goErr m.err) (goMode m.mode) (goDrawOp m.drawOp)
        m.drawArgs.flatten x1 y1 x2 y2 x y = encDrawRep (m.step (.d6 .c x1 y1 x2 y2 x y)) := by
  simp only [encode_Encoder_RelCubeTo, Enc.Encoder.step]
  rw [draw_code_tie' m hwf fuel hf (.v6 .c) _ (by decide) _ _ _ _ _ _ [x1, y1, x2, y2, x, y] rfl]

tolerant
/-- encode.go `(*Encoder).ClosePathEndPath` = `Encoder.step … .closeEnd` -/
theorem encoder_closePathEndPath_code_tie :
    encode_Encoder_ClosePathEndPath fuel m.hiResLocal m.buf (goErr m.err) (goMode m.mode) (goDrawOp m.drawOp)
        m.drawArgs.flatten = encDrawRep (m.step .closeEnd) := by
  simp only [encode_Encoder_ClosePathEndPath, Enc.Encoder.step]
  rw [draw_code_tie' m hwf fuel hf .Z _ (by decide) _ _ _ _ _ _ [] rfl]

tolerant
/-- encode.go `(*Encoder).arcTo` (the flags `largeArc | sweep<<1` travel as a float32 operand), called with the byte
    of `A` or `a`, = `Encoder.step … (.arc rel …)` -/
theorem arcTo_code_tie (rel : Bool) (rx ry rot : F32) (la sw : Bool) (x y : F32) :
    encode_Encoder_arcTo fuel m.hiResLocal m.buf (goErr m.err) (goMode m.mode) (goDrawOp m.drawOp)
        m.drawArgs.flatten (goDrawOp (some (if rel then .arcRel else .arcAbs))) rx ry rot la sw x y
      = encDrawRep (m.step (.arc rel rx ry rot la sw x y)) := by
  have hn : (Enc.opInfo (if rel then .arcRel else .arcAbs)).nArgs = 6 := by cases rel <;> rfl
  have f00 : Go.cvt_u32_f32 0 = Enc.arcFlags false false := by decide
  have f10 : Go.cvt_u32_f32 (0 ||| 1) = Enc.arcFlags true false := by decide
  have f01 : Go.cvt_u32_f32 (0 ||| 2) = Enc.arcFlags false true := by decide
  have f11 : Go.cvt_u32_f32 (0 ||| 1 ||| 2) = Enc.arcFlags true true := by decide
  simp only [encode_Encoder_arcTo, Enc.Encoder.step]
  cases la <;> cases sw <;>
    simp only [if_true, if_false, Bool.false_eq_true, f00, f10, f01, f11] <;>
    rw [draw_code_tie' m hwf fuel hf _ _ rfl _ _ _ _ _ _ _ (by rw [hn])] <;>
    rfl

tolerant
/-- encode.go `(*Encoder).AbsArcTo` = `Encoder.step … (.arc false …)` -/
theorem absArcTo_code_tie (rx ry rot : F32) (la sw : Bool) (x y : F32) :
    encode_Encoder_AbsArcTo fuel m.hiResLocal m.buf (goErr m.err) (goMode m.mode) (goDrawOp m.drawOp)
        m.drawArgs.flatten rx ry rot la sw x y = encDrawRep (m.step (.arc false rx ry rot la sw x y)) := by
  simp only [encode_Encoder_AbsArcTo]
  rw [show (65 : UInt8) = goDrawOp (some (if false = true then .arcRel else .arcAbs)) from by decide,
    arcTo_code_tie m hwf fuel hf false]

tolerant
/-- encode.go `(*Encoder).RelArcTo` = `Encoder.step … (.arc true …)` -/
theorem relArcTo_code_tie (rx ry rot : F32) (la sw : Bool) (x y : F32) :
    encode_Encoder_RelArcTo fuel m.hiResLocal m.buf (goErr m.err) (goMode m.mode) (goDrawOp m.drawOp)
        m.drawArgs.flatten rx ry rot la sw x y = encDrawRep (m.step (.arc true rx ry rot la sw x y)) := by
  simp only [encode_Encoder_RelArcTo]
  rw [show (97 : UInt8) = goDrawOp (some (if true = true then .arcRel else .arcAbs)) from by decide,
    arcTo_code_tie m hwf fuel hf true]

end methods

end Ivg.Gen.Tie
