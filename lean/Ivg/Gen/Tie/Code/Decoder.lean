import Ivg.Gen.Tie.Code.DecoderAux
/-!
# Tie: the INSTRUCTION LAYER of the decoder (`decode/decode.go`), as TRANSLATED from the Go source
(`Ivg/Gen/Code/P_decode.lean`, specialised to `decode.Decode`: printer nil, Destination abstract), run on a
CALL LOG (`logOps`, `DecoderAux.lean`) = the model's `Dec.decodeStyling` etc. (`Ivg/Model/Decoder.lean`), for ALL
inputs `src` and logs `l`.

This file: the operand decoders (`decodeNumber` with `decodeCoordinate`/`decodeReal`, `decodeAngle`,
`decodeArcToFlags`, `decodeCoordinates`), the styling instructions (`decodeSetCReg`, `decodeSetNReg`,
`decodeStartPath`, `decodeSetLOD`) and the styling dispatch `decodeStyling`.  `decodeDrawing`: `Decoder2.lean`,
`Decoder3.lean` (its repetition loops) and `Decoder4.lean`; `decodeMetadataChunk`: `Decoder5.lean`; the instruction
stream (Go's loop over the mode functions = `Dec.loop`): `Decoder6.lean`; the whole `Decode` = `Dec.decode`:
`Decoder7.lean`.

Every mode-function tie has the form

    generated logOps l src … = stepResOf l (Dec.decodeStyling …)

where `stepResOf l (items, .ok (mode, rest)) = (modeName mode, rest, nil, l ++ callsOf items)` and
`stepResOf l (items, .error e) = (nil, nil, errText e, l ++ callsOf items)`; `"iconvg: " ++ errText e = e.message`
(`errText_message`).

Hypotheses, all guaranteed by the Go callers:
* `src ≠ []` — `decode`'s loop runs `for len(src) > 0`; on the empty buffer `src[0]` panics in Go (the translation
  reads the default byte 0 there, the model returns `unsupportedStylingOpcode`: see `decodeStyling_empty`);
* the opcode ranges of `decodeSetCReg` (`0x80 ≤ opcode < 0xa8`), `decodeSetNReg` (`0xa8 ≤ opcode < 0xc0`),
  `decodeStartPath` (`0xc0 ≤ opcode < 0xc7`) — `decodeStyling` dispatches exactly these; the three functions do not look
  at `src[0]` but at their `opcode` argument, so the ties are stated for any non-empty `src` and speak about the model
  on `opcode :: src[1:]`.  Outside its range `decodeSetCReg` calls a nil function (a Go panic,
  `Go.panicked` in the translation).
-/
namespace Ivg.Gen.Tie
open Ivg Ivg.Num Ivg.Gen Ivg.Gen.Code Ivg.Dec
attribute [local instance] decAuxForallUInt8

/-- finish a goal `(if n == 0 then error else deliver …) = stepResOf l (match <model codec> with …)`: case split on the
    model's codec result `d` (rest lemma `h`, Go result `decResOf f z`) -/
local macro "dec_fin " d:term:max f:term:max z:term:max h:term:max : tactic => `(tactic|
  (cases hr : $d with
   | none => simp [decoder_decRes_none, stepResOf, errText, *]
   | some r =>
     obtain ⟨v, rest'⟩ := r
     obtain ⟨e1, e2, e3⟩ := decoder_decRes_some $f $z _ v rest' ($h hr)
     simp [e1, e2, e3, stepResOf, logOps, modeName, *]))

/-! ## operand decoders -/

tolerant
/-- `decodeNumber(nil, src, buffer.decodeCoordinate)` (decode/decode.go) = `Dec.decodeNumber Dec.decodeCoordinate`
    (value and rest; the model's disassembly line is dropped): `(x, rest, nil)` or `(0, nil, errInvalidNumber)`. -/
theorem decodeNumber_decodeCoordinate_code_tie (src : Bytes) :
    decode_decodeNumber__pnil__decode_buffer_decodeCoordinate_thunk src
      = valResOf ((Dec.decodeNumber Dec.decodeCoordinate src).map fun r => r.2) := by
  unfold decode_decodeNumber__pnil__decode_buffer_decodeCoordinate_thunk decode_buffer_decodeCoordinate_thunk
    Dec.decodeNumber
  rw [decodeCoordinate_code_tie]
  cases hr : Dec.decodeCoordinate src with
  | none => simp [decoder_decRes_none, valResOf, errText]
  | some r =>
    obtain ⟨v, rest⟩ := r
    obtain ⟨h1, h2, h3⟩ := decoder_decRes_some id (⟨0⟩ : F32) src v rest (decAux_decodeCoordinate_rest hr)
    simp [h1, h2, h3, valResOf]

tolerant
/-- `decodeNumber(nil, src, buffer.decodeReal)` (decode/decode.go) = `Dec.decodeNumber Dec.decodeReal`. -/
theorem decodeNumber_decodeReal_code_tie (src : Bytes) :
    decode_decodeNumber__pnil__decode_buffer_decodeReal_thunk src
      = valResOf ((Dec.decodeNumber Dec.decodeReal src).map fun r => r.2) := by
  unfold decode_decodeNumber__pnil__decode_buffer_decodeReal_thunk decode_buffer_decodeReal_thunk
    Dec.decodeNumber
  rw [decodeReal_code_tie]
  cases hr : Dec.decodeReal src with
  | none => simp [decoder_decRes_none, valResOf, errText]
  | some r =>
    obtain ⟨v, rest⟩ := r
    obtain ⟨h1, h2, h3⟩ := decoder_decRes_some id (⟨0⟩ : F32) src v rest (decAux_decodeReal_rest hr)
    simp [h1, h2, h3, valResOf]

tolerant
/-- `decodeAngle(nil, src)` (decode/decode.go) = the model's `Dec.decodeZeroToOne` (the angle operand of
    `Dec.decodeArcRep`): `(x, rest, nil)` or `(0, nil, errInvalidNumber)`. -/
theorem decodeAngle_code_tie (src : Bytes) :
    decode_decodeAngle__pnil src = valResOf (Dec.decodeZeroToOne src) := by
  unfold decode_decodeAngle__pnil
  rw [decodeZeroToOne_code_tie]
  cases hr : Dec.decodeZeroToOne src with
  | none => simp [decoder_decRes_none, valResOf, errText]
  | some r =>
    obtain ⟨v, rest⟩ := r
    obtain ⟨h1, h2, h3⟩ := decoder_decRes_some id (⟨0⟩ : F32) src v rest (decAux_decodeZeroToOne_rest hr)
    simp [h1, h2, h3, valResOf]

tolerant
/-- `decodeArcToFlags(nil, src)` (decode/decode.go) = the flags operand of `Dec.decodeArcRep`: the model's
    `Dec.decodeNatural`, `largeArc = fl % 2 ≠ 0`, `sweep = fl / 2 % 2 ≠ 0`. -/
theorem decodeArcToFlags_code_tie (src : Bytes) :
    decode_decodeArcToFlags__pnil src = flagsResOf (Dec.decodeNatural src) := by
  unfold decode_decodeArcToFlags__pnil
  rw [decodeNatural_code_tie]
  cases hr : Dec.decodeNatural src with
  | none => simp [decNatOf, flagsResOf, errText]
  | some r =>
    obtain ⟨u, n, rest⟩ := r
    obtain ⟨hn, hu, hl, rfl⟩ := decAux_decodeNatural_spec hr
    have h0 : ¬ ((n : Nat) : Int) = 0 := by omega
    have hu' : (UInt32.ofNat u).toNat = u := UInt32.toNat_ofNat_of_lt' (by simp [UInt32.size]; omega)
    have e1 : ((UInt32.ofNat u >>> 0) &&& 1 ≠ 0) ↔ u % 2 ≠ 0 := by
      rw [Ne, ← UInt32.toNat_inj, UInt32.toNat_and, UInt32.toNat_shiftRight, hu']
      simp [Nat.and_one_is_mod]
    have e2 : ((UInt32.ofNat u >>> 1) &&& 1 ≠ 0) ↔ u / 2 % 2 ≠ 0 := by
      rw [Ne, ← UInt32.toNat_inj, UInt32.toNat_and, UInt32.toNat_shiftRight, hu']
      simp [Nat.and_one_is_mod, Nat.shiftRight_eq_div_pow]
    simp only [decNatOf, flagsResOf, h0, decide_false, Bool.false_eq_true, if_false, e1, e2, Go.idx_int, Int.toNat_natCast, decoder_slice_drop, bne, Ne]
    by_cases a : u % 2 = 0 <;> by_cases b : u / 2 % 2 = 0 <;> simp [a, b]
tolerant
/-- the loop of `decodeCoordinates`, from index `k` with the elements `m` -/
theorem decoder_decodeCoordinates_loop (n : Nat) : ∀ (fuel k : Nat) (m : List F32) (src : Bytes),
    m.length = n → k ≤ n → n - k + 1 ≤ fuel →
    decode_decodeCoordinates__pnil.loop1_1 (n : Int) fuel src ((k : Int) - 1) m =
      match Dec.decodeCoordinates (n - k) src with
      | (_, some (xs, rest)) => (rest, none, m.take k ++ xs)
      | (its, none) => ([], some (errText .invalidNumber),
          m.take k ++ (numsOf its ++ (⟨0⟩ : F32) :: m.drop (k + (its.length + 1)))) := by
  intro fuel
  induction fuel with
  | zero => intro k m src _ _ h; omega
  | succ fuel ih =>
    intro k m src hm hk hf
    rw [decode_decodeCoordinates__pnil.loop1_1]
    have e1 : (k : Int) - 1 + 1 = k := by omega
    simp only [e1, Int.ofNat_lt, decide_eq_true_eq, decodeNumber_decodeCoordinate_code_tie]
    by_cases hlt : k < n
    · obtain ⟨j, hj⟩ : ∃ j, n - k = j + 1 := ⟨n - k - 1, by omega⟩
      have hj' : n - (k + 1) = j := by omega
      rw [if_pos hlt, hj, Dec.decodeCoordinates]
      cases hd : Dec.decodeNumber Dec.decodeCoordinate src with
      | none =>
        simp only [Option.map_none, valResOf, Option.isSome_some, if_true, numsOf, List.nil_append,
          List.length_nil, Go.sliceSet, Go.idx_int, Int.toNat_natCast]
        rw [List.set_eq_take_append_cons_drop, if_pos (by omega)]
      | some r =>
        obtain ⟨it, x, rest⟩ := r
        have hit : it = .line ⟨consumed src rest, .number x⟩ := by
          unfold Dec.decodeNumber at hd
          split at hd
          · contradiction
          · simp only [Option.some.injEq, Prod.mk.injEq] at hd
            rename_i x' rest' _
            obtain ⟨h1, h2, h3⟩ := hd
            subst h2 h3
            exact h1.symm
        have e2 : ((k : Int)) = ((k + 1 : Nat) : Int) - 1 := by omega
        simp only [Option.map_some, valResOf, Option.isSome_none, Bool.false_eq_true, if_false,
          Go.sliceSet, Go.idx_int, Int.toNat_natCast]
        rw [e2, ih (k + 1) (m.set k x) rest (by simp [hm]) (by omega) (by omega), hj']
        have t1 : (m.set k x).take (k + 1) = m.take k ++ [x] := by
          have hk' : k < m.length := by omega
          apply List.ext_getElem?
          intro i
          grind
        rcases hc : Dec.decodeCoordinates j rest with ⟨its, _ | ⟨xs, rest'⟩⟩
        · simp only [hit, numsOf, List.length_cons, t1, List.append_assoc, List.cons_append]
          simp only [List.drop_set]
          rw [if_pos (by omega)]
          have e3 : k + 1 + (its.length + 1) = k + (its.length + 1 + 1) := by omega
          simp only [e3, List.nil_append]
        · simp [t1]
    · have hkn : n - k = 0 := by omega
      have hkn' : k = n := by omega
      rw [if_neg hlt, hkn, Dec.decodeCoordinates]
      simp [hkn', ← hm]

tolerant
/-- `decodeCoordinates(coords, nil, src)` (decode/decode.go) = `Dec.decodeCoordinates (len coords) src` through
    `coordsResOf` (rest, error, and the elements of `coords` afterwards — also on failure), for
    `fuel ≥ len(coords) + 1` (the loop runs `len(coords)` times and then tests its condition once more). -/
theorem decodeCoordinates_code_tie (fuel : Nat) (coords : List F32) (src : Bytes) (hf : coords.length + 1 ≤ fuel) :
    decode_decodeCoordinates__pnil fuel coords src
      = coordsResOf coords (Dec.decodeCoordinates coords.length src) := by
  have h := decoder_decodeCoordinates_loop coords.length fuel 0 coords src rfl (Nat.zero_le _) (by omega)
  simp only [Nat.sub_zero, List.take_zero, List.nil_append, Nat.zero_add, Int.ofNat_zero,
    Int.zero_sub] at h
  unfold decode_decodeCoordinates__pnil
  simp only [Int.ofNat_eq_natCast]
  rw [h]
  rcases Dec.decodeCoordinates coords.length src with ⟨its, _ | ⟨xs, rest⟩⟩ <;> rfl

/-! non-vacuity / concrete instance: two coordinates decoded from four bytes, and a failure on the second -/
example : decode_decodeCoordinates__pnil 3 [⟨0⟩, ⟨0⟩] [0x80, 0x41, 0x7e, 0x99] = ([0x99], none, [⟨0⟩, ⟨3219128320⟩]) := by
  decide
example : decode_decodeCoordinates__pnil 3 [⟨1⟩, ⟨2⟩] [0x82, 0x41] = ([], some "invalid number", [⟨0x3f800000⟩, ⟨0⟩]) := by
  decide

/-! ## styling instructions -/

set_option maxRecDepth 100000 in
tolerant
/-- the selector `(opcode - 0xa8) >> 3` of `decodeSetNReg` on its opcode range -/
theorem decoder_nregSel : ∀ opcode : UInt8, 0xa8 ≤ opcode → opcode < 0xc0 →
    ((opcode - 0xa8) >>> 3 = 0 ∨ (opcode - 0xa8) >>> 3 = 1 ∨ (opcode - 0xa8) >>> 3 = 2) ∧
    ¬ opcode < 0x80 ∧ ¬ opcode < 0xa8 := by decide +kernel

tolerant
/-- `decodeSetNReg(dst, nil, src, opcode)` (decode/decode.go) = the `0xa8 ≤ opcode < 0xc0` branch of
    `Dec.decodeStyling`, on `opcode :: src[1:]`. -/
theorem decodeSetNReg_code_tie (l : CallLog) (src : Bytes) (opcode : UInt8) (hs : src ≠ [])
    (h1 : 0xa8 ≤ opcode) (h2 : opcode < 0xc0) :
    decode_decodeSetNReg__pnil logOps l src opcode = stepResOf l (Dec.decodeStyling (opcode :: src.tail)) := by
  obtain ⟨x, rest, rfl⟩ := List.exists_cons_of_ne_nil hs
  obtain ⟨hsel, n1, n2⟩ := decoder_nregSel opcode h1 h2
  rcases hsel with hsel | hsel | hsel <;> by_cases hadj : opcode &&& 7 = 7
  all_goals
    simp only [decode_decodeSetNReg__pnil, Dec.decodeStyling, hsel, hadj, n1, n2, h2, decoder_slice_tail,
      decode_buffer_decodeReal_thunk, decode_buffer_decodeCoordinate_thunk, decode_buffer_decodeZeroToOne_thunk,
      decodeReal_code_tie, decodeCoordinate_code_tie, decodeZeroToOne_code_tie, List.tail_cons,
      decide_true, decide_false, if_true, if_false, beq_self_eq_true, UInt8.reduceToNat, Bool.false_eq_true]
  · dec_fin (Dec.decodeReal rest) id (⟨0⟩ : F32) decAux_decodeReal_rest
  · dec_fin (Dec.decodeReal rest) id (⟨0⟩ : F32) decAux_decodeReal_rest
  · dec_fin (Dec.decodeCoordinate rest) id (⟨0⟩ : F32) decAux_decodeCoordinate_rest
  · dec_fin (Dec.decodeCoordinate rest) id (⟨0⟩ : F32) decAux_decodeCoordinate_rest
  · dec_fin (Dec.decodeZeroToOne rest) id (⟨0⟩ : F32) decAux_decodeZeroToOne_rest
  · dec_fin (Dec.decodeZeroToOne rest) id (⟨0⟩ : F32) decAux_decodeZeroToOne_rest
set_option maxRecDepth 100000 in
tolerant
/-- the selector `(opcode - 0x80) >> 3` of `decodeSetCReg` on its opcode range -/
theorem decoder_cregSel : ∀ opcode : UInt8, 0x80 ≤ opcode → opcode < 0xa8 →
    ((opcode - 0x80) >>> 3 = 0 ∨ (opcode - 0x80) >>> 3 = 1 ∨ (opcode - 0x80) >>> 3 = 2 ∨
      (opcode - 0x80) >>> 3 = 3 ∨ (opcode - 0x80) >>> 3 = 4) ∧ ¬ opcode < 0x80 := by decide +kernel

tolerant
/-- `decodeSetCReg(dst, nil, src, opcode)` (decode/decode.go) = the `0x80 ≤ opcode < 0xa8` branch of
    `Dec.decodeStyling`, on `opcode :: src[1:]`; the delivered colour is the model's (`colorTo (colorOf c) = c`). -/
theorem decodeSetCReg_code_tie (l : CallLog) (src : Bytes) (opcode : UInt8) (hs : src ≠ [])
    (h1 : 0x80 ≤ opcode) (h2 : opcode < 0xa8) :
    decode_decodeSetCReg__pnil logOps l src opcode = stepResOf l (Dec.decodeStyling (opcode :: src.tail)) := by
  obtain ⟨x, rest, rfl⟩ := List.exists_cons_of_ne_nil hs
  obtain ⟨hsel, n1⟩ := decoder_cregSel opcode h1 h2
  rcases hsel with hsel | hsel | hsel | hsel | hsel <;> by_cases hadj : opcode &&& 7 = 7
  all_goals
    simp only [decode_decodeSetCReg__pnil, Dec.decodeStyling, hsel, hadj, n1, h2, decoder_slice_tail,
      decode_buffer_decodeColor1_thunk, decode_buffer_decodeColor2_thunk, decode_buffer_decodeColor3Direct_thunk,
      decode_buffer_decodeColor4_thunk, decode_buffer_decodeColor3Indirect_thunk,
      buffer_decodeColor1_code_tie, decodeColor2_code_tie, decodeColor3Direct_code_tie, decodeColor4_code_tie,
      decodeColor3Indirect_code_tie, decColorResOf, List.tail_cons,
      decide_true, decide_false, if_true, if_false, beq_self_eq_true, UInt8.reduceToNat, Bool.false_eq_true]
  · dec_fin (Dec.decodeColor1 rest) colorOf ivg_Color.zero decAux_decodeColor1_rest
  · dec_fin (Dec.decodeColor1 rest) colorOf ivg_Color.zero decAux_decodeColor1_rest
  · dec_fin (Dec.decodeColor2 rest) colorOf ivg_Color.zero decAux_decodeColor2_rest
  · dec_fin (Dec.decodeColor2 rest) colorOf ivg_Color.zero decAux_decodeColor2_rest
  · dec_fin (Dec.decodeColor3Direct rest) colorOf ivg_Color.zero decAux_decodeColor3Direct_rest
  · dec_fin (Dec.decodeColor3Direct rest) colorOf ivg_Color.zero decAux_decodeColor3Direct_rest
  · dec_fin (Dec.decodeColor4 rest) colorOf ivg_Color.zero decAux_decodeColor4_rest
  · dec_fin (Dec.decodeColor4 rest) colorOf ivg_Color.zero decAux_decodeColor4_rest
  · dec_fin (Dec.decodeColor3Indirect rest) colorOf ivg_Color.zero decAux_decodeColor3Indirect_rest
  · dec_fin (Dec.decodeColor3Indirect rest) colorOf ivg_Color.zero decAux_decodeColor3Indirect_rest

set_option maxRecDepth 100000 in
tolerant
/-- the range tests of `decodeStyling` above a `decodeStartPath` opcode -/
theorem decoder_startPathSel : ∀ opcode : UInt8, 0xc0 ≤ opcode → opcode < 0xc7 →
    ¬ opcode < 0x80 ∧ ¬ opcode < 0xa8 ∧ ¬ opcode < 0xc0 := by decide +kernel

tolerant
/-- `decodeStartPath(dst, nil, src, opcode)` (decode/decode.go) = the `0xc0 ≤ opcode < 0xc7` branch of
    `Dec.decodeStyling`, on `opcode :: src[1:]`; the next mode is `decodeDrawing`. -/
theorem decodeStartPath_code_tie (l : CallLog) (src : Bytes) (opcode : UInt8) (hs : src ≠ [])
    (h1 : 0xc0 ≤ opcode) (h2 : opcode < 0xc7) :
    decode_decodeStartPath__pnil logOps l src opcode = stepResOf l (Dec.decodeStyling (opcode :: src.tail)) := by
  obtain ⟨x, rest, rfl⟩ := List.exists_cons_of_ne_nil hs
  obtain ⟨n1, n2, n3⟩ := decoder_startPathSel opcode h1 h2
  simp only [decode_decodeStartPath__pnil, Dec.decodeStyling, n1, n2, n3, h2, decoder_slice_tail, List.tail_cons,
    decodeNumber_decodeCoordinate_code_tie, if_true, if_false]
  rcases hx : Dec.decodeNumber Dec.decodeCoordinate rest with _ | ⟨lx, x, rest1⟩
  · simp [valResOf, stepResOf]
  · rcases hy : Dec.decodeNumber Dec.decodeCoordinate rest1 with _ | ⟨ly, y, rest2⟩
    · simp [valResOf, stepResOf, hy, (decoder_decodeNumber_some hx).1]
    · simp [valResOf, stepResOf, hy, logOps, modeName, (decoder_decodeNumber_some hx).1,
        (decoder_decodeNumber_some hy).1]

tolerant
/-- `decodeSetLOD(dst, nil, src)` (decode/decode.go) = the `opcode = 0xc7` branch of `Dec.decodeStyling`, on
    `0xc7 :: src[1:]`. -/
theorem decodeSetLOD_code_tie (l : CallLog) (src : Bytes) (hs : src ≠ []) :
    decode_decodeSetLOD__pnil logOps l src = stepResOf l (Dec.decodeStyling (0xc7 :: src.tail)) := by
  obtain ⟨x, rest, rfl⟩ := List.exists_cons_of_ne_nil hs
  have n1 : ¬ (0xc7 : UInt8) < 0x80 := by decide
  have n2 : ¬ (0xc7 : UInt8) < 0xa8 := by decide
  have n3 : ¬ (0xc7 : UInt8) < 0xc0 := by decide
  have n4 : ¬ (0xc7 : UInt8) < 0xc7 := by decide
  simp only [decode_decodeSetLOD__pnil, Dec.decodeStyling, n1, n2, n3, n4, decoder_slice_tail, List.tail_cons,
    decodeNumber_decodeReal_code_tie, if_true, if_false]
  rcases hx : Dec.decodeNumber Dec.decodeReal rest with _ | ⟨lx, x, rest1⟩
  · simp [valResOf, stepResOf]
  · rcases hy : Dec.decodeNumber Dec.decodeReal rest1 with _ | ⟨ly, y, rest2⟩
    · simp [valResOf, stepResOf, hy, (decoder_decodeNumber_some hx).1]
    · simp [valResOf, stepResOf, hy, logOps, modeName, (decoder_decodeNumber_some hx).1,
        (decoder_decodeNumber_some hy).1]

/-! ## the styling dispatch -/

tolerant
/-- `decodeStyling(dst, nil, src)` (decode/decode.go) = `Dec.decodeStyling src`, for every non-empty `src` and log `l`:
    next mode, rest of the input, error and delivered calls. -/
theorem decodeStyling_code_tie (l : CallLog) (src : Bytes) (hs : src ≠ []) :
    decode_decodeStyling__pnil logOps l src = stepResOf l (Dec.decodeStyling src) := by
  obtain ⟨opcode, rest, rfl⟩ := List.exists_cons_of_ne_nil hs
  unfold decode_decodeStyling__pnil
  simp only [decAux_sliceGet_zero, Prod.eta]
  by_cases c1 : opcode < 0x80
  · by_cases c2 : opcode < 0x40
    · simp [Dec.decodeStyling, c1, c2, stepResOf, logOps, modeName, Go.slice]
    · simp [Dec.decodeStyling, c1, c2, stepResOf, logOps, modeName, Go.slice]
  · simp only [c1, decide_false, Bool.false_eq_true, if_false]
    by_cases c3 : opcode < 0xa8
    · simp only [c3, decide_true, if_true]
      rw [decodeSetCReg_code_tie l _ opcode hs (UInt8.not_lt.1 c1) c3, List.tail_cons]
    · simp only [c3, decide_false, Bool.false_eq_true, if_false]
      by_cases c4 : opcode < 0xc0
      · simp only [c4, decide_true, if_true]
        rw [decodeSetNReg_code_tie l _ opcode hs (UInt8.not_lt.1 c3) c4, List.tail_cons]
      · simp only [c4, decide_false, Bool.false_eq_true, if_false]
        by_cases c5 : opcode < 0xc7
        · simp only [c5, decide_true, if_true]
          rw [decodeStartPath_code_tie l _ opcode hs (UInt8.not_lt.1 c4) c5, List.tail_cons]
        · simp only [c5, decide_false, Bool.false_eq_true, if_false]
          by_cases c6 : opcode = 0xc7
          · subst c6
            simp only [decide_true, if_true]
            rw [decodeSetLOD_code_tie l _ hs, List.tail_cons]
          · simp only [c6, decide_false, Bool.false_eq_true, if_false]
            simp [Dec.decodeStyling, c1, c3, c4, c5, c6, stepResOf, errText]

/-- FINDING (documented, not a defect): on the EMPTY buffer (excluded by `decode`'s loop condition `len(src) > 0`; `src[0]` panics in Go) the translation
    reads the default byte 0 and delivers `SetCSel(0)`, whereas the model reports `unsupportedStylingOpcode` -/
example : decode_decodeStyling__pnil logOps [] [] = (Go.fnRef "decode_decodeStyling", [], none, [.setCSel 0]) ∧
    Dec.decodeStyling [] = ([], .error .unsupportedStylingOpcode) := ⟨by decide, rfl⟩

end Ivg.Gen.Tie
