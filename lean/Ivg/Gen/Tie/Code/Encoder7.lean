import Ivg.Gen.Tie.Code.Encoder5
import Ivg.Lemmas.Codec
/-!
# Tie: `(*Encoder).SetNReg` of `encode/encode.go`, as TRANSLATED from the Go source, against the model's `Encoder.setNReg`
(part 7 of the Encoder ties)

The Go method tries three encodings of the number, each into its own window of the scratch array
(`buffer(e.scratch[0:0])`, `[4:4]`, `[8:8]`: slices that ALIAS the array field), keeps the opcode, offset and length of
the shortest, and appends `e.scratch[iBest:iBest+nBest]` to the buffer.  The translator calls the (translated, tied)
number encoders on the empty window and writes what they return into the array (`Go.writeWindow`, `Ivg/Gen/GoWindow.lean`:
in place within the window's capacity); the bytes appended are then READ BACK from the array.  The tie shows that the
three windows do not disturb each other (each encoder writes at most four bytes: `encode*_length_cases`), so that what is
read back is the shortest encoding the model's `nregForm` picks — whatever the scratch array held before.
-/
namespace Ivg.Gen.Tie
open Ivg Ivg.Num Ivg.Gen Ivg.Gen.Code

tolerant
/-- the three read-backs from the scratch array after the three windows were written -/
theorem scratch_readback (sc : Vector UInt8 12) (r c z : Bytes)
    (hr : r.length ≤ 4) (hc : c.length ≤ 4) (hz : z.length ≤ 4) :
    let w := Go.writeWindow (Go.writeWindow (Go.writeWindow sc 0 12 r) 4 8 c) 8 4 z
    Go.slice w.toList 0 (0 + r.length) = r ∧ Go.slice w.toList 4 (4 + c.length) = c ∧
      Go.slice w.toList 8 (8 + z.length) = z := by
  intro w
  refine ⟨?_, ?_, ?_⟩
  · show Go.slice (Go.writeWindow _ 8 4 z).toList 0 (0 + r.length) = r
    rw [Go.slice_writeWindow_below _ _ _ _ _ _ (by omega), Go.slice_writeWindow_below _ _ _ _ _ _ (by omega)]
    exact Go.slice_writeWindow_self _ _ _ _ ⟨by omega, by omega⟩
  · show Go.slice (Go.writeWindow _ 8 4 z).toList 4 (4 + c.length) = c
    rw [Go.slice_writeWindow_below _ _ _ _ _ _ (by omega)]
    exact Go.slice_writeWindow_self _ _ _ _ ⟨by omega, by omega⟩
  · exact Go.slice_writeWindow_self _ _ _ _ ⟨by omega, by omega⟩

tolerant
/-- encode.go `(*Encoder).SetNReg` (writes `buf`, `err`, `nSel`, `mode`, `scratch`) = `Encoder.step … (.setNReg adj incr f)`
    on the four modelled fields, for every content `sc` of the scratch array. -/
theorem setNReg_code_tie (m : Enc.Encoder) (sc : Vector UInt8 12) (adj : UInt8) (incr : Bool) (f : F32) :
    (let r := encode_Encoder_SetNReg m.buf (goErr m.err) m.nSel (goMode m.mode) sc adj incr f
     (r.1, r.2.1, r.2.2.1, r.2.2.2.1))
      = ((m.step (.setNReg adj incr f)).buf, goErr (m.step (.setNReg adj incr f)).err,
         (m.step (.setNReg adj incr f)).nSel, goMode (m.step (.setNReg adj incr f)).mode) := by
  have hR := Codec.encodeReal_length_cases f
  have hC := Codec.encodeCoordinate_length_cases f
  have hZ := Codec.encodeZeroToOne_length_cases f
  have hrb := scratch_readback sc (Enc.encodeReal f) (Enc.encodeCoordinate f) (Enc.encodeZeroToOne f)
    (by omega) (by omega) (by omega)
  simp only at hrb
  obtain ⟨hb0, hb4, hb8⟩ := hrb
  have i0 : Go.idx_int ((0 : Int) + ((Enc.encodeReal f).length : Int)) = 0 + (Enc.encodeReal f).length := by
    simp [Go.idx_int]
  have i4 : Go.idx_int ((4 : Int) + ((Enc.encodeCoordinate f).length : Int)) = 4 + (Enc.encodeCoordinate f).length := by
    simp only [Go.idx_int]; omega
  have i8 : Go.idx_int ((8 : Int) + ((Enc.encodeZeroToOne f).length : Int)) = 8 + (Enc.encodeZeroToOne f).length := by
    simp only [Go.idx_int]; omega
  have j0 : Go.idx_int (0 : Int) = 0 := rfl
  have j4 : Go.idx_int (4 : Int) = 4 := rfl
  have j8 : Go.idx_int (8 : Int) = 8 := rfl
  simp only [encode_Encoder_SetNReg, checkModeStyling_code_tie, Enc.Encoder.step, Enc.Encoder.setNReg,
    goErr_isSome, encodeReal_code_tie, encodeCoordinate_code_tie, encodeZeroToOne_code_tie, List.nil_append,
    errInvalidSelectorAdjustment_code_tie, errInvalidIncrementingAdjustment_code_tie, encAux_seven_le,
    decide_eq_true_eq, Int.ofNat_lt, i0, i4, i8, j0, j4, j8, hb0, hb4, hb8, Enc.nregForm]
  have hn : m.checkModeStyling.nSel = m.nSel := (checkModeStyling_frame m).2.2.2.2.2.1
  rw [← hn]
  generalize m.checkModeStyling = e
  generalize Enc.encodeReal f = r at *
  generalize Enc.encodeCoordinate f = c at *
  generalize Enc.encodeZeroToOne f = z at *
  by_cases he : e.err.isSome = true
  · simp [he]
  by_cases ha : adj > 6
  · simp [he, ha, goErr]
  cases incr <;> by_cases h0 : adj = 0 <;> by_cases h1 : c.length < r.length <;>
    by_cases h2 : z.length < c.length <;> by_cases h3 : z.length < r.length <;>
    simp [he, ha, h0, h1, h2, h3, goErr] <;> omega

tolerant
/-- encode.go `SetNReg` on the whole state: storing the returned fields gives the Go state of the model's next state,
    with only the (unmodelled) scratch array different — and whatever it held before. -/
theorem setNReg_code_tie_state (m : Enc.Encoder) (x : encode_Encoder) (adj : UInt8) (incr : Bool) (f : F32) :
    (let g := encOf m x
     let r := encode_Encoder_SetNReg g.buf g.err g.nSel g.mode g.scratch adj incr f
     { g with buf := r.1, err := r.2.1, nSel := r.2.2.1, mode := r.2.2.2.1, scratch := r.2.2.2.2 })
      = encOf (m.step (.setNReg adj incr f))
          { x with scratch := (encode_Encoder_SetNReg m.buf (goErr m.err) m.nSel (goMode m.mode) x.scratch adj incr f).2.2.2.2 } := by
  have hf := setNReg_frame m adj incr f
  have ht := setNReg_code_tie m x.scratch adj incr f
  simp only [Prod.mk.injEq] at ht
  obtain ⟨h1, h2, h3, h4⟩ := ht
  simp only [encOf, h1, h2, h3, h4]
  simp only [Enc.Encoder.step, hf]

end Ivg.Gen.Tie
