import Ivg.Gen.Tie.Code.Base
import Ivg.Gen.Tie.Code.Color
import Ivg.Gen.Code.P_encode
import Ivg.Model.EncBuffer
/-!
# Tie: the colour encoders of `encode/buffer.go`, as TRANSLATED from the Go source, append the bytes of the model's
`Ivg.Enc.encodeColorN`, for all buffers and all colours

The Go methods call `Color.EncodeN` (color.go; tied to the model's `Color.encodeN` in `Tie/Code/Color.lean` through
`colorOf : Ivg.Color → ivg_Color`, ColorType rgba/paletteIndex/cReg/blend = 0/1/2/3, and `encNOf`, which maps the
model's `none` to Go's zero value and `ok = false`) and append either the returned bytes or a fixed fallback.
The generated functions take the current contents `b` of the `*buffer` receiver and return the new contents.
-/
namespace Ivg.Gen.Tie
open Ivg Ivg.Num Ivg.Gen Ivg.Gen.Code

tolerant
/-- `(*buffer).encodeColor1` (encode/buffer.go) appends the model's `Enc.encodeColor1`. -/
theorem encodeColor1_code_tie (b : Bytes) (c : Color) :
    encode_buffer_encodeColor1 b (colorOf c) = b ++ Enc.encodeColor1 c := by
  simp only [encode_buffer_encodeColor1, color_Encode1_code_tie, Enc.encodeColor1]
  cases c.encode1 <;> simp [enc1Of]

tolerant
/-- `(*buffer).encodeColor2` (encode/buffer.go) appends the model's `Enc.encodeColor2`. -/
theorem encodeColor2_code_tie (b : Bytes) (c : Color) :
    encode_buffer_encodeColor2 b (colorOf c) = b ++ Enc.encodeColor2 c := by
  simp only [encode_buffer_encodeColor2, color_Encode2_code_tie, Enc.encodeColor2]
  rcases c.encode2 with _ | ⟨x, y⟩ <;> simp [enc2Of, Go.arrGet]

tolerant
/-- `(*buffer).encodeColor3Direct` (encode/buffer.go) appends the model's `Enc.encodeColor3Direct`. -/
theorem encodeColor3Direct_code_tie (b : Bytes) (c : Color) :
    encode_buffer_encodeColor3Direct b (colorOf c) = b ++ Enc.encodeColor3Direct c := by
  simp only [encode_buffer_encodeColor3Direct, color_Encode3Direct_code_tie, Enc.encodeColor3Direct]
  rcases c.encode3Direct with _ | ⟨x, y, z⟩ <;> simp [enc3Of, Go.arrGet]

tolerant
/-- `(*buffer).encodeColor4` (encode/buffer.go) appends the model's `Enc.encodeColor4`. -/
theorem encodeColor4_code_tie (b : Bytes) (c : Color) :
    encode_buffer_encodeColor4 b (colorOf c) = b ++ Enc.encodeColor4 c := by
  simp only [encode_buffer_encodeColor4, color_Encode4_code_tie, Enc.encodeColor4]
  rcases c.encode4 with _ | ⟨x, y, z, w⟩ <;> simp [enc4Of, Go.arrGet]

tolerant
/-- `(*buffer).encodeColor3Indirect` (encode/buffer.go) appends the model's `Enc.encodeColor3Indirect`. -/
theorem encodeColor3Indirect_code_tie (b : Bytes) (c : Color) :
    encode_buffer_encodeColor3Indirect b (colorOf c) = b ++ Enc.encodeColor3Indirect c := by
  simp only [encode_buffer_encodeColor3Indirect, color_Encode3Indirect_code_tie, Enc.encodeColor3Indirect]
  rcases c.encode3Indirect with _ | ⟨x, y, z⟩ <;> simp [enc3Of, Go.arrGet]

/-! ## outside the image of `colorOf`

A Go `Color` whose `typ` is none of the four declared `ColorType`s cannot be constructed outside package `ivg` (the
fields are unexported), but the generated functions are total on `ivg_Color`; there every `EncodeN` answers
`ok = false`, so each encoder appends its fallback bytes (what the model does for `none`). -/

tolerant
theorem encAux_badTyp (t : UInt8) (h : 3 < t) : t ≠ 0 ∧ t ≠ 1 ∧ t ≠ 2 ∧ t ≠ 3 := by
  refine ⟨?_, ?_, ?_, ?_⟩ <;> rintro rfl <;> exact absurd h (by decide)

tolerant
theorem encodeColor1_code_tie_badTyp (b : Bytes) (c : ivg_Color) (h : 3 < c.typ) :
    encode_buffer_encodeColor1 b c = b ++ [0x00] := by
  obtain ⟨h0, h1, h2, _⟩ := encAux_badTyp _ h
  simp [encode_buffer_encodeColor1, ivg_Color_Encode1, h0, h1, h2]

tolerant
theorem encodeColor2_code_tie_badTyp (b : Bytes) (c : ivg_Color) (h : 3 < c.typ) :
    encode_buffer_encodeColor2 b c = b ++ [0x00, 0x0f] := by
  obtain ⟨h0, _, _, _⟩ := encAux_badTyp _ h
  simp [encode_buffer_encodeColor2, ivg_Color_Encode2, ivg_Color_Is2, h0]

tolerant
theorem encodeColor3Direct_code_tie_badTyp (b : Bytes) (c : ivg_Color) (h : 3 < c.typ) :
    encode_buffer_encodeColor3Direct b c = b ++ [0, 0, 0] := by
  obtain ⟨h0, _, _, _⟩ := encAux_badTyp _ h
  simp [encode_buffer_encodeColor3Direct, ivg_Color_Encode3Direct, ivg_Color_Is3, h0]

tolerant
theorem encodeColor4_code_tie_badTyp (b : Bytes) (c : ivg_Color) (h : 3 < c.typ) :
    encode_buffer_encodeColor4 b c = b ++ [0, 0, 0, 0xff] := by
  obtain ⟨h0, _, _, _⟩ := encAux_badTyp _ h
  simp [encode_buffer_encodeColor4, ivg_Color_Encode4, h0]

tolerant
theorem encodeColor3Indirect_code_tie_badTyp (b : Bytes) (c : ivg_Color) (h : 3 < c.typ) :
    encode_buffer_encodeColor3Indirect b c = b ++ [0, 0, 0] := by
  obtain ⟨_, _, _, h3⟩ := encAux_badTyp _ h
  simp [encode_buffer_encodeColor3Indirect, ivg_Color_Encode3Indirect, h3]

/-- non-vacuity of the hypothesis `3 < c.typ` -/
example : (3 : UInt8) < (⟨7, ⟨1, 2, 3, 4⟩⟩ : ivg_Color).typ := by decide

end Ivg.Gen.Tie
