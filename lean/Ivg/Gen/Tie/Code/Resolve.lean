import Ivg.Gen.Tie.Code.Base
import Ivg.Gen.Tie.Code.Color
import Ivg.Gen.Tie.Code.RenderRegs
import Ivg.Gen.Code.P_ivg
import Ivg.Gen.Code.P_render
import Ivg.Model.Color
import Ivg.Model.Renderer
/-!
# Tie: `Color.Resolve` (color.go, directly recursive) and `(*Renderer).SetCReg` (render/render.go) as TRANSLATED
from the Go source = the model's `Color.resolve` / the `.setCReg` case of `Renderer.step`, for all inputs.

`Color.Resolve` calls itself on the two 1-byte colours of a blend.  The translation of a recursive function takes
a `fuel` argument and returns `default` when it runs out; Go's meaning is the value for sufficient fuel.  Because a
1-byte colour is never a blend (`decodeColor1_typ_ne_blend`), the recursion depth is at most 2: the tie holds for
every `fuel ≥ 2`.
-/
namespace Ivg.Gen.Tie
open Ivg Ivg.Num Ivg.Gen.Code Ivg.Ren

tolerant
/-- one channel of the blend: Go's `uint8((p*x0 + q*x1 + 128) / 255)` in `uint32` arithmetic, with
    `p = uint32(255 - t)`, `q = uint32(t)`, is the model's `blendChan` over `Nat` (no overflow: ≤ 255·255+128) -/
theorem blendChan_u32 (t x0 x1 : UInt8) :
    Go.cvt_u32_u8 ((Go.cvt_u8_u32 ((255 : UInt8) - t) * Go.cvt_u8_u32 x0 + Go.cvt_u8_u32 t * Go.cvt_u8_u32 x1
      + (128 : UInt32)) / (255 : UInt32)) = blendChan t x0 x1 := by
  have ht := t.toNat_lt
  have h0 := x0.toNat_lt
  have h1 := x1.toNat_lt
  have hp : ((255 : UInt8) - t).toNat = 255 - t.toNat := by
    rw [UInt8.toNat_sub]; simp; omega
  have ha : (255 - t.toNat) * x0.toNat ≤ (255 - t.toNat) * 255 := Nat.mul_le_mul_left _ (by omega)
  have hb : t.toNat * x1.toNat ≤ t.toNat * 255 := Nat.mul_le_mul_left _ (by omega)
  apply UInt8.toNat_inj.mp
  simp only [Go.cvt_u32_u8, Go.cvt_u8_u32, blendChan, UInt32.toNat_toUInt8, UInt32.toNat_div, UInt32.toNat_add,
    UInt32.toNat_mul, UInt8.toNat_toUInt32, hp, UInt8.toNat_ofNat']
  generalize (255 - t.toNat) * x0.toNat = a at *
  generalize t.toNat * x1.toNat = b at *
  simp
  omega

tolerant
/-- color.go `DecodeColor1` never produces a blend -/
theorem decodeColor1_typ_ne_blend (x : UInt8) : (decodeColor1 x).typ ≠ .blend := by
  simp only [decodeColor1, Color.cRegColor, Color.paletteIndexColor, Color.rgbaColor]
  repeat' split
  all_goals simp

tolerant
theorem get6_and63 {T : Type} (v : Regs T) (u : UInt8) : Regs.get6 v (u &&& 0x3f) = Regs.get6 v u := by
  simp only [Regs.get6, u8_and63_toNat, Nat.mod_mod]

tolerant
/-- the non-recursive cases of `Color.Resolve`: fuel 1 suffices and the result is the model's `resolve1` -/
theorem color_Resolve_nonblend (fuel : Nat) (hf : 1 ≤ fuel) (c : Color) (hc : c.typ ≠ .blend) (pal creg : Palette) :
    ivg_Color_Resolve fuel (colorOf c) (palOf pal) (palOf creg) = rgbaOf (c.resolve1 pal creg) := by
  obtain ⟨fuel', rfl⟩ : ∃ k, fuel = k + 1 := ⟨fuel - 1, by omega⟩
  obtain ⟨t, d⟩ := c
  cases t
  · simp [ivg_Color_Resolve, colorOf, typOf, Color.resolve1, ivg_Color_rgba]
  · simp only [ivg_Color_Resolve, colorOf, typOf, Color.resolve1, ivg_Color_paletteIndex, arrGet_and63, get6_and63]
    simp [Regs.get6, palOf]
  · simp only [ivg_Color_Resolve, colorOf, typOf, Color.resolve1, ivg_Color_cReg, arrGet_and63, get6_and63]
    simp [Regs.get6, palOf]
  · exact absurd rfl hc

tolerant
/-- color.go `Color.Resolve` (recursive; depth at most 2 because a 1-byte colour is never a blend):
    for every `fuel ≥ 2` the translated function is the model's `Color.resolve`. -/
theorem color_Resolve_code_tie (fuel : Nat) (hf : 2 ≤ fuel) (c : Color) (pal creg : Palette) :
    ivg_Color_Resolve fuel (colorOf c) (palOf pal) (palOf creg) = rgbaOf (c.resolve pal creg) := by
  by_cases hc : c.typ = .blend
  · obtain ⟨fuel', rfl⟩ : ∃ k, fuel = k + 1 := ⟨fuel - 1, by omega⟩
    have hf' : 1 ≤ fuel' := by omega
    obtain ⟨t, d⟩ := c
    simp only at hc
    subst hc
    have e0 := color_Resolve_nonblend fuel' hf' (decodeColor1 d.g) (decodeColor1_typ_ne_blend _) pal creg
    have e1 := color_Resolve_nonblend fuel' hf' (decodeColor1 d.b) (decodeColor1_typ_ne_blend _) pal creg
    rw [← decodeColor1_code_tie] at e0 e1
    simp only [ivg_Color_Resolve, colorOf, typOf, ivg_Color_blend, rgbaOf_R, rgbaOf_G, rgbaOf_B] at e0 e1 ⊢
    simp only [e0, e1, blendChan_u32, Color.resolve, rgbaOf_R, rgbaOf_G, rgbaOf_B, rgbaOf_A]
    simp [rgbaOf]
  · rw [color_Resolve_nonblend fuel (by omega) c hc]
    obtain ⟨t, d⟩ := c
    cases t <;> first | rfl | exact absurd rfl hc

example : (2 : Nat) ≤ 2 := by decide

/-- with no fuel the translated function returns the default value (the zero colour) — the reason for `fuel ≥ 2`:
    a blend needs one level for itself and one for its two operands -/
example : ivg_Color_Resolve 1 (colorOf (Color.blendColor 0 0x80 0x80)) (palOf defaultPalette) (palOf defaultPalette)
    ≠ rgbaOf ((Color.blendColor 0 0x80 0x80).resolve defaultPalette defaultPalette) := by decide +kernel

tolerant
/-- outside the image of `colorOf` (a type tag `> 3`; no Go code constructs one): `Resolve` returns the zero colour -/
theorem color_Resolve_code_tie_badTyp (fuel : Nat) (hf : 1 ≤ fuel) (c : ivg_Color) (h : 3 < c.typ)
    (pal creg : Vector image_color_RGBA 64) :
    ivg_Color_Resolve fuel c pal creg = rgbaOf RGBA.zero := by
  obtain ⟨fuel', rfl⟩ : ∃ k, fuel = k + 1 := ⟨fuel - 1, by omega⟩
  have h0 : c.typ ≠ 0 := by intro e; rw [e] at h; exact absurd h (by decide)
  have h1 : c.typ ≠ 1 := by intro e; rw [e] at h; exact absurd h (by decide)
  have h2 : c.typ ≠ 2 := by intro e; rw [e] at h; exact absurd h (by decide)
  have h3 : c.typ ≠ 3 := by intro e; rw [e] at h; exact absurd h (by decide)
  simp [ivg_Color_Resolve, h0, h1, h2, h3, rgbaOf, RGBA.zero, image_color_RGBA.zero]

variable (arc : ArcFn F32 F64) (posInf : F32) (z : Renderer F32 F64)

tolerant
/-- render.go `(*Renderer).SetCReg` = `Renderer.step … (.setCReg adj incr c)` for every `fuel ≥ 2` (the fuel of the
    call of `Color.Resolve`); the Go result is `(cSel, cReg)` -/
theorem renderer_SetCReg_code_tie (fuel : Nat) (hf : 2 ≤ fuel) (adj : UInt8) (incr : Bool) (c : Color) :
    z.step arc posInf (.setCReg adj incr c) =
      ({ z with
          cSel := (render_Renderer_SetCReg fuel (palOf z.palette) z.cSel (palOf z.cReg) adj incr (colorOf c)).1,
          cReg := palTo (render_Renderer_SetCReg fuel (palOf z.palette) z.cSel (palOf z.cReg) adj incr
                    (colorOf c)).2 }, []) := by
  have hset : ∀ (u : UInt8) (x : RGBA), palTo (Regs.set6 (palOf z.cReg) u (rgbaOf x)) = Regs.set6 z.cReg u x := by
    intro u x
    ext i hi <;> simp [palTo, palOf, Regs.set6, Vector.getElem_set] <;> split <;> simp
  simp only [Renderer.step, render_Renderer_SetCReg, arrSet_and63, color_Resolve_code_tie fuel hf]
  cases incr <;> simp [hset]

tolerant
/-- … and in the other direction: the pair the Go method computes is the model's new `(cSel, cReg)` -/
theorem renderer_SetCReg_code_tie' (fuel : Nat) (hf : 2 ≤ fuel) (adj : UInt8) (incr : Bool) (c : Color) :
    render_Renderer_SetCReg fuel (palOf z.palette) z.cSel (palOf z.cReg) adj incr (colorOf c) =
      ((z.step arc posInf (.setCReg adj incr c)).1.cSel, palOf (z.step arc posInf (.setCReg adj incr c)).1.cReg) := by
  have hset : ∀ (u : UInt8) (x : RGBA), Regs.set6 (palOf z.cReg) u (rgbaOf x) = palOf (Regs.set6 z.cReg u x) := by
    intro u x
    ext i hi <;> simp [palOf, Regs.set6, Vector.getElem_set] <;> split <;> simp
  simp only [Renderer.step, render_Renderer_SetCReg, arrSet_and63, color_Resolve_code_tie fuel hf]
  cases incr <;> simp [hset]

end Ivg.Gen.Tie
