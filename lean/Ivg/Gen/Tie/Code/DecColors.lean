import Ivg.Gen.Tie.Code.Base
import Ivg.Gen.Tie.Code.DecAux
import Ivg.Gen.Tie.Code.Color
import Ivg.Gen.Code.P_decode
import Ivg.Model.DecBuffer
/-!
# Tie: the colour decoders of `decode/buffer.go`, as TRANSLATED from the Go source
(`Ivg/Gen/Code/P_decode.lean`) = the model's `Dec.decodeColor1 / 2 / 3Direct / 4 / 3Indirect`
(`Ivg/Model/DecBuffer.lean`), for ALL inputs.

The Go methods return `(ivg.Color, n)` with `n` the number of bytes consumed and `(ivg.Color{}, 0)` on failure;
the model returns `none` on failure and otherwise the colour and the REMAINING bytes.  The model's `Ivg.Color`
is related to the generated structure `ivg_Color` through `colorOf` of `Color.lean`
(`ColorType` rgba/paletteIndex/cReg/blend = 0/1/2/3 as in color.go).  Each tie is stated in both directions:

* `…_code_tie`  : generated function = `decResOf colorOf ivg_Color.zero b` of the model result
                  (`some (c, rest)` ↦ `(colorOf c, len b - len rest)`, `none` ↦ `(ivg.Color{}, 0)`);
* `…_model_eq`  : (model result).map colorOf = `decResTo b` of the generated result
                  (`n = 0` ↦ `none`, otherwise `some (c, b.drop n)` — what the Go callers do: `src = src[n:]`);
                  `colorOf` is injective (`colorOf_inj`), so this determines the model result.

`(buffer).decodeColor1` is tied under the name `buffer_decodeColor1_code_tie` because `decodeColor1_code_tie`
(in `Color.lean`) is the tie of `ivg.DecodeColor1` of color.go, which it calls.
-/
namespace Ivg.Gen.Tie
open Ivg Ivg.Num Ivg.Gen Ivg.Gen.Code

/-- the Go result of a colour decoder for a model result on input `b` -/
abbrev decColorResOf (b : Bytes) (r : Option (Color × Bytes)) : ivg_Color × Int :=
  decResOf colorOf ivg_Color.zero b r

tolerant
/-- `(buffer).decodeColor1` (decode/buffer.go) = `Dec.decodeColor1` -/
theorem buffer_decodeColor1_code_tie (b : Bytes) :
    decode_buffer_decodeColor1 b = decColorResOf b (Dec.decodeColor1 b) := by
  unfold decode_buffer_decodeColor1 decColorResOf
  match b with
  | [] => simp [Dec.decodeColor1, decResOf]
  | x :: rest =>
    simp only [Dec.decodeColor1, decResOf, decAux_sliceGet_zero, decodeColor1_code_tie, List.length_cons,
      decide_eq_true_eq, Int.ofNat_eq_natCast]
    split
    · omega
    · congr 1; omega

tolerant
/-- `(buffer).decodeColor2` (decode/buffer.go) = `Dec.decodeColor2` -/
theorem decodeColor2_code_tie (b : Bytes) :
    decode_buffer_decodeColor2 b = decColorResOf b (Dec.decodeColor2 b) := by
  unfold decode_buffer_decodeColor2 decColorResOf
  match b with
  | [] => simp [Dec.decodeColor2, decResOf]
  | [_] => simp [Dec.decodeColor2, decResOf]
  | x :: y :: rest =>
    simp only [Dec.decodeColor2, decResOf, decAux_sliceGet_zero, decAux_sliceGet_succ, List.length_cons,
      decide_eq_true_eq, Int.ofNat_eq_natCast, ← rGBAColor_code_tie]
    split
    · omega
    · congr 1; omega

tolerant
/-- `(buffer).decodeColor3Direct` (decode/buffer.go) = `Dec.decodeColor3Direct` -/
theorem decodeColor3Direct_code_tie (b : Bytes) :
    decode_buffer_decodeColor3Direct b = decColorResOf b (Dec.decodeColor3Direct b) := by
  unfold decode_buffer_decodeColor3Direct decColorResOf
  match b with
  | [] => simp [Dec.decodeColor3Direct, decResOf]
  | [_] => simp [Dec.decodeColor3Direct, decResOf]
  | [_, _] => simp [Dec.decodeColor3Direct, decResOf]
  | x :: y :: z :: rest =>
    simp only [Dec.decodeColor3Direct, decResOf, decAux_sliceGet_zero, decAux_sliceGet_succ, List.length_cons,
      decide_eq_true_eq, Int.ofNat_eq_natCast, ← rGBAColor_code_tie]
    split
    · omega
    · congr 1; omega

tolerant
/-- `(buffer).decodeColor4` (decode/buffer.go) = `Dec.decodeColor4` -/
theorem decodeColor4_code_tie (b : Bytes) :
    decode_buffer_decodeColor4 b = decColorResOf b (Dec.decodeColor4 b) := by
  unfold decode_buffer_decodeColor4 decColorResOf
  match b with
  | [] => simp [Dec.decodeColor4, decResOf]
  | [_] => simp [Dec.decodeColor4, decResOf]
  | [_, _] => simp [Dec.decodeColor4, decResOf]
  | [_, _, _] => simp [Dec.decodeColor4, decResOf]
  | x :: y :: z :: w :: rest =>
    simp only [Dec.decodeColor4, decResOf, decAux_sliceGet_zero, decAux_sliceGet_succ, List.length_cons,
      decide_eq_true_eq, Int.ofNat_eq_natCast, ← rGBAColor_code_tie]
    split
    · omega
    · congr 1; omega

tolerant
/-- `(buffer).decodeColor3Indirect` (decode/buffer.go) = `Dec.decodeColor3Indirect` -/
theorem decodeColor3Indirect_code_tie (b : Bytes) :
    decode_buffer_decodeColor3Indirect b = decColorResOf b (Dec.decodeColor3Indirect b) := by
  unfold decode_buffer_decodeColor3Indirect decColorResOf
  match b with
  | [] => simp [Dec.decodeColor3Indirect, decResOf]
  | [_] => simp [Dec.decodeColor3Indirect, decResOf]
  | [_, _] => simp [Dec.decodeColor3Indirect, decResOf]
  | x :: y :: z :: rest =>
    simp only [Dec.decodeColor3Indirect, decResOf, decAux_sliceGet_zero, decAux_sliceGet_succ, List.length_cons,
      decide_eq_true_eq, Int.ofNat_eq_natCast, blendColor_code_tie]
    split
    · omega
    · congr 1; omega

/-! ## the converse reading: the model result is determined by the generated function -/

tolerant
/-- the model's `decodeColor1` leaves `b[1:]` -/
theorem decAux_decodeColor1_rest {b : Bytes} {c : Color} {rest : Bytes} (h : Dec.decodeColor1 b = some (c, rest)) :
    ∃ n, 0 < n ∧ n ≤ b.length ∧ rest = b.drop n := by
  match b with
  | [] => simp [Dec.decodeColor1] at h
  | x :: r =>
    simp only [Dec.decodeColor1, Option.some.injEq, Prod.mk.injEq] at h
    exact ⟨1, by omega, by simp, by simp [h.2]⟩

tolerant
/-- the converse reading of `buffer_decodeColor1_code_tie`: (`n == 0` ↦ `none`, otherwise the colour and `b[n:]`) -/
theorem buffer_decodeColor1_model_eq (b : Bytes) :
    (Dec.decodeColor1 b).map (fun p => (colorOf p.1, p.2)) = decResTo b (decode_buffer_decodeColor1 b) := by
  rw [buffer_decodeColor1_code_tie, decColorResOf, decResTo_decResOf _ _ _ _ (fun _ _ h => decAux_decodeColor1_rest h)]

tolerant
/-- the model's `decodeColor2` leaves `b[2:]` -/
theorem decAux_decodeColor2_rest {b : Bytes} {c : Color} {rest : Bytes} (h : Dec.decodeColor2 b = some (c, rest)) :
    ∃ n, 0 < n ∧ n ≤ b.length ∧ rest = b.drop n := by
  match b with
  | [] => simp [Dec.decodeColor2] at h
  | [_] => simp [Dec.decodeColor2] at h
  | x :: y :: r =>
    simp only [Dec.decodeColor2, Option.some.injEq, Prod.mk.injEq] at h
    exact ⟨2, by omega, by simp, by simp [h.2]⟩

tolerant
/-- the converse reading of `decodeColor2_code_tie`: (`n == 0` ↦ `none`, otherwise the colour and `b[n:]`) -/
theorem decodeColor2_model_eq (b : Bytes) :
    (Dec.decodeColor2 b).map (fun p => (colorOf p.1, p.2)) = decResTo b (decode_buffer_decodeColor2 b) := by
  rw [decodeColor2_code_tie, decColorResOf, decResTo_decResOf _ _ _ _ (fun _ _ h => decAux_decodeColor2_rest h)]

tolerant
/-- the model's `decodeColor3Direct` leaves `b[3:]` -/
theorem decAux_decodeColor3Direct_rest {b : Bytes} {c : Color} {rest : Bytes} (h : Dec.decodeColor3Direct b = some (c, rest)) :
    ∃ n, 0 < n ∧ n ≤ b.length ∧ rest = b.drop n := by
  match b with
  | [] => simp [Dec.decodeColor3Direct] at h
  | [_] => simp [Dec.decodeColor3Direct] at h
  | [_, _] => simp [Dec.decodeColor3Direct] at h
  | x :: y :: z :: r =>
    simp only [Dec.decodeColor3Direct, Option.some.injEq, Prod.mk.injEq] at h
    exact ⟨3, by omega, by simp, by simp [h.2]⟩

tolerant
/-- the converse reading of `decodeColor3Direct_code_tie`: (`n == 0` ↦ `none`, otherwise the colour and `b[n:]`) -/
theorem decodeColor3Direct_model_eq (b : Bytes) :
    (Dec.decodeColor3Direct b).map (fun p => (colorOf p.1, p.2)) = decResTo b (decode_buffer_decodeColor3Direct b) := by
  rw [decodeColor3Direct_code_tie, decColorResOf, decResTo_decResOf _ _ _ _ (fun _ _ h => decAux_decodeColor3Direct_rest h)]

tolerant
/-- the model's `decodeColor4` leaves `b[4:]` -/
theorem decAux_decodeColor4_rest {b : Bytes} {c : Color} {rest : Bytes} (h : Dec.decodeColor4 b = some (c, rest)) :
    ∃ n, 0 < n ∧ n ≤ b.length ∧ rest = b.drop n := by
  match b with
  | [] => simp [Dec.decodeColor4] at h
  | [_] => simp [Dec.decodeColor4] at h
  | [_, _] => simp [Dec.decodeColor4] at h
  | [_, _, _] => simp [Dec.decodeColor4] at h
  | x :: y :: z :: w :: r =>
    simp only [Dec.decodeColor4, Option.some.injEq, Prod.mk.injEq] at h
    exact ⟨4, by omega, by simp, by simp [h.2]⟩

tolerant
/-- the converse reading of `decodeColor4_code_tie`: (`n == 0` ↦ `none`, otherwise the colour and `b[n:]`) -/
theorem decodeColor4_model_eq (b : Bytes) :
    (Dec.decodeColor4 b).map (fun p => (colorOf p.1, p.2)) = decResTo b (decode_buffer_decodeColor4 b) := by
  rw [decodeColor4_code_tie, decColorResOf, decResTo_decResOf _ _ _ _ (fun _ _ h => decAux_decodeColor4_rest h)]

tolerant
/-- the model's `decodeColor3Indirect` leaves `b[3:]` -/
theorem decAux_decodeColor3Indirect_rest {b : Bytes} {c : Color} {rest : Bytes} (h : Dec.decodeColor3Indirect b = some (c, rest)) :
    ∃ n, 0 < n ∧ n ≤ b.length ∧ rest = b.drop n := by
  match b with
  | [] => simp [Dec.decodeColor3Indirect] at h
  | [_] => simp [Dec.decodeColor3Indirect] at h
  | [_, _] => simp [Dec.decodeColor3Indirect] at h
  | x :: y :: z :: r =>
    simp only [Dec.decodeColor3Indirect, Option.some.injEq, Prod.mk.injEq] at h
    exact ⟨3, by omega, by simp, by simp [h.2]⟩

tolerant
/-- the converse reading of `decodeColor3Indirect_code_tie`: (`n == 0` ↦ `none`, otherwise the colour and `b[n:]`) -/
theorem decodeColor3Indirect_model_eq (b : Bytes) :
    (Dec.decodeColor3Indirect b).map (fun p => (colorOf p.1, p.2)) = decResTo b (decode_buffer_decodeColor3Indirect b) := by
  rw [decodeColor3Indirect_code_tie, decColorResOf, decResTo_decResOf _ _ _ _ (fun _ _ h => decAux_decodeColor3Indirect_rest h)]

end Ivg.Gen.Tie
